import McpModel.Notify.SoundCache
/-!
# Clause soundness of the C18 monitor, part 8: the end of a case — the monitor's debts are history (`owed_history`)
and every end-of-case clause contradicts "every connected session entitled to them receives at least one
corresponding list-changed notification sent after the last change of the burst"
-/
namespace Notify.Sound
open Notify Notify.Mon Generated.Notify

/-! ### "every connected session entitled to them receives at least one corresponding list-changed notification
sent after the last change of the burst" -/

/-- a held fan-out of kind `k` is in progress after the records so far: a `cbrun k step` record took a snapshot with
something to write (`fan open`) and no `fsend k` record has reported its last write (`done`) since -/
def openStep (o : Kind → Bool) (r : Rec) : Kind → Bool :=
  match r.op, r.obs with
  | .config _ _ _ _, _ => fun _ => false
  | .cbstep k, .fan done => if done then o else fun k' => if k' = k then true else o k'
  | .fsend k, .fsent _ _ l done =>
    if o k && (slotDeliveries l).isSome && done then fun k' => if k' = k then false else o k' else o
  | _, _ => o

def openAfter (tr : Trace) : Kind → Bool := tr.foldl openStep (fun _ => false)
def openAt (tr : Trace) (j : Nat) : Kind → Bool := openAfter (tr.take j)

/-- the record is an effective change of kind `k` that the server must announce (the capability is not switched off) -/
def IsChange (t : Truth) (r : Rec) (k : Kind) : Prop :=
  ∃ f e, r = ⟨.change f e, .ok⟩ ∧ kindOfFSet f = k ∧ (e == .noop || (e == .remove && t.cnt f == 0)) = false ∧ t.cap k ≠ .off

/-- the record is a snapshot of `notifySessions(k)` (of a complete fan-out, or of a held one) -/
def IsSnapshot (r : Rec) (k : Kind) : Prop :=
  (∃ t l ds, r = ⟨.cbrun k, .sent t l⟩ ∧ slotDeliveries l = some ds) ∨ (∃ d, r = ⟨.cbstep k, .fan d⟩)

/-- the record delivers the list-changed notification of kind `k` to the session of slot `i` (a write of a held fan-out
counts while that fan-out is in progress) -/
def DeliversK (tr : Trace) (j : Nat) (r : Rec) (i : Slot) (k : Kind) : Prop :=
  (∃ t l ds, r = ⟨.cbrun k, .sent t l⟩ ∧ slotDeliveries l = some ds ∧ ∃ x ∈ ds, x.slot = i) ∨
  (∃ a t l b ds, r = ⟨.fsend k, .fsent a t l b⟩ ∧ slotDeliveries l = some ds ∧ openAt tr j k = true ∧ ∃ x ∈ ds, x.slot = i)

/-- at position `q` the session of slot `i` is still owed a notification of kind `k`: a change at an earlier position
`p` was to be announced to it (it was connected), it is the same session since, no notification of the kind has
reached it since, and every snapshot taken since found it entitled -/
def Owes (tr : Trace) (q : Nat) (i : Slot) (k : Kind) : Prop :=
  ∃ p rp, p < q ∧ tr[p]? = some rp ∧ IsChange (truthAt tr p) rp k ∧ ((truthAt tr p).slots i).connected = true ∧
    SameSession tr p q i ∧
    ∀ j rj, p < j → j < q → tr[j]? = some rj →
      ¬ DeliversK tr j rj i k ∧ (IsSnapshot rj k → ((truthAt tr j).slots i).entitled k)

/-- at the end of a case (every timer has fired, every callback has run) no connected, entitled session is still owed
a notification -/
def P_notified (tr : Trace) : Prop :=
  ∀ (q : Nat) (obs : Obs), tr[q]? = some (⟨.fin, obs⟩ : Rec) → ∀ (i : Slot) (k : Kind),
    ((truthAt tr q).slots i).entitled k → ¬ Owes tr q i k

theorem entitledNow_truth {m : MState} {t : Truth} (hA : Agrees m t) (i : Slot) (k : Kind) :
    entitledNow (m.slots i) k = true ↔ (t.slots i).entitled k := by
  simp only [entitledNow, TSlot.entitled, TSlot.grantedK, MSlot.grantedK, Bool.and_eq_true, Bool.or_eq_true,
    Bool.not_eq_true', hA.connected i, hA.modern i, hA.listens i, List.any_eq_true]
  constructor
  · rintro ⟨h1, h2 | ⟨l, hl, hk⟩⟩
    · exact ⟨h1, Or.inl h2⟩
    · exact ⟨h1, Or.inr ⟨l, hl, by simpa using hk⟩⟩
  · rintro ⟨h1, h2 | ⟨l, hl, hk⟩⟩
    · exact ⟨h1, Or.inl h2⟩
    · exact ⟨h1, Or.inr ⟨l, hl, by simpa using hk⟩⟩


/-! #### how the monitor's debts move -/

theorem ow_endListen (d : MSlot) (x : Nat) : (d.endListen x).owed = d.owed := by
  simp only [MSlot.endListen]; split <;> rfl
theorem ow_addListen (d : MSlot) (id : Nat) (ks : List Kind) (us : List Nat) : (d.addListen id ks us).owed = d.owed := by
  simp only [MSlot.addListen]; split <;> rfl

theorem ow_foldl {α} (f : MSlot → α → MSlot) (hf : ∀ d a, (f d a).owed = d.owed) (l : List α) (d : MSlot) :
    (l.foldl f d).owed = d.owed := by
  induction l generalizing d with
  | nil => rfl
  | cons a t ih => simp only [List.foldl_cons]; rw [ih, hf]

theorem ow_tbNext (m : MState) (tb : Tables) (i : Slot) : ((tbNext m tb).slots i).owed = (m.slots i).owed := by
  simp only [tbNext]
  split
  · rfl
  · rw [ow_foldl, ow_foldl]
    · intro d k; split <;> rfl
    · intro d u; split <;> rfl

theorem ow_setSlot (m : MState) (c i : Slot) (d : MSlot) (hd : d.owed = (m.slots c).owed) :
    ((m.setSlot c d).slots i).owed = (m.slots i).owed := by
  simp only [MState.setSlot]; split
  · rename_i e; rw [hd, e]
  · rfl

macro "ow_tac" : tactic =>
  `(tactic| first
    | rfl
    | (apply ow_setSlot; first | rfl | exact ow_addListen _ _ _ _ | exact ow_endListen _ _))

theorem ow_changeSlot (k' : Kind) (b mx : Bool) (d : MSlot) (k : Kind) :
    k ∈ (changeSlot k' b mx d).owed ↔ (k ∈ d.owed ∨ (k = k' ∧ d.connected = true)) := by
  simp only [changeSlot]
  generalize (if mx = true then addNew d.rmMixed k' else d.rmMixed.filter (· != k')) = rm
  have key : ∀ d0 : MSlot, d0.connected = d.connected → d0.owed = d.owed →
      (k ∈ (if (d0.connected && !d0.owed.contains k') = true then { d0 with owed := d0.owed ++ [k'] } else d0).owed ↔
        (k ∈ d.owed ∨ (k = k' ∧ d.connected = true))) := by
    intro d0 e1 e2
    split
    · rename_i hc
      simp only [Bool.and_eq_true, Bool.not_eq_true'] at hc
      simp only [List.mem_append, List.mem_singleton, e2]
      constructor
      · rintro (h | h)
        · exact Or.inl h
        · exact Or.inr ⟨h, by rw [← e1]; exact hc.1⟩
      · rintro (h | ⟨h, _⟩)
        · exact Or.inl h
        · exact Or.inr h
    · rename_i hc
      rw [e2]
      constructor
      · exact Or.inl
      · rintro (h | ⟨h, hconn⟩)
        · exact h
        · subst h
          simp only [Bool.and_eq_true, Bool.not_eq_true', not_and, Bool.not_eq_false, e1, e2] at hc
          simpa using hc hconn
  split
  · exact key _ rfl rfl
  · exact key _ rfl rfl

theorem fanExpect_entitled (m : MState) (k : Kind) (i : Slot) (h : (fanExpect m k).any (·.1 == i) = true) :
    entitledNow (m.slots i) k = true := by
  rw [List.any_eq_true] at h
  obtain ⟨p, hp, e⟩ := h
  simp only [fanExpect, List.mem_filterMap] at hp
  obtain ⟨j, _, hj⟩ := hp
  split at hj
  · rename_i he
    simp only [Option.some.injEq] at hj
    have : j = i := by rw [← hj] at e; simpa using e
    rw [← this]; exact he
  · simp at hj

theorem ow_cbNext (m : MState) (k' : Kind) (ds : List SDelivery) (i : Slot) (k : Kind)
    (h : k ∈ ((cbNext m k' ds).slots i).owed) :
    k ∈ (m.slots i).owed ∧ (k = k' → ds.any (·.slot == i) = false ∧ entitledNow (m.slots i) k = true) := by
  simp only [cbNext] at h
  split at h
  · rename_i hg
    have h : k ∈ (m.slots i).owed.filter (· != k') := h
    obtain ⟨h1, h2⟩ := List.mem_filter.1 h
    exact ⟨h1, fun e => by simp [e] at h2⟩
  · rename_i hg
    have hg : ds.any (·.slot == i) = false := by simpa using hg
    split at h
    · rename_i hc
      simp only [Bool.and_eq_true] at hc
      exact ⟨h, fun e => ⟨hg, by rw [e]; exact hc.2⟩⟩
    · have h : k ∈ (m.slots i).owed.filter (· != k') := h
      obtain ⟨h1, h2⟩ := List.mem_filter.1 h
      exact ⟨h1, fun e => by simp [e] at h2⟩

theorem cbStepNext_owed (m : MState) (k' : Kind) (done : Bool) (i : Slot) :
    ((cbStepNext m k' done).slots i).owed =
      if (fanExpect m k').any (fun p => p.1 == i) = true then (m.slots i).owed else (m.slots i).owed.filter (· != k') := by
  cases done
  · simp only [cbStepNext, Bool.false_eq_true, if_false]
    split <;> rfl
  · simp only [cbStepNext, if_true]
    split
    · split <;> rfl
    · rename_i hc
      have : ((fanExpect m k').any (fun p => p.1 == i) && ((m.slots i).owed.filter (· != k')).contains k') = false := by
        simp [hc]
      simp only [this]
      rfl

theorem ow_cbStepNext (m : MState) (k' : Kind) (done : Bool) (i : Slot) (k : Kind)
    (h : k ∈ ((cbStepNext m k' done).slots i).owed) :
    k ∈ (m.slots i).owed ∧ (k = k' → entitledNow (m.slots i) k = true) := by
  rw [cbStepNext_owed] at h
  split at h
  · rename_i he
    exact ⟨h, fun e => by rw [e]; exact fanExpect_entitled m k' i he⟩
  · obtain ⟨h1, h2⟩ := List.mem_filter.1 h
    exact ⟨h1, fun e => by simp [e] at h2⟩

theorem fsNext_owed (m : MState) (k' : Kind) (fan : MFan) (ds : List SDelivery) (done : Bool) (i : Slot) :
    ((fsNext m k' fan ds done).slots i).owed =
      if ds.any (·.slot == i) = true then (m.slots i).owed.filter (· != k') else (m.slots i).owed := by
  by_cases hg : ds.any (·.slot == i) = true
  · rw [if_pos hg]
    cases done
    · simp only [fsNext, Bool.false_eq_true, if_false, hg, if_true]; rfl
    · simp only [fsNext, if_true, hg]
      split <;> rfl
  · rw [if_neg hg]
    have hg' : ds.any (·.slot == i) = false := by simpa using hg
    cases done
    · simp only [fsNext, Bool.false_eq_true, if_false, hg']
    · simp only [fsNext, if_true, hg', Bool.false_eq_true, if_false]
      split <;> rfl

theorem ow_fsNext (m : MState) (k' : Kind) (fan : MFan) (ds : List SDelivery) (done : Bool) (i : Slot) (k : Kind)
    (h : k ∈ ((fsNext m k' fan ds done).slots i).owed) :
    k ∈ (m.slots i).owed ∧ (k = k' → ds.any (·.slot == i) = false) := by
  rw [fsNext_owed] at h
  split at h
  · obtain ⟨h1, h2⟩ := List.mem_filter.1 h
    exact ⟨h1, fun e => by simp [e] at h2⟩
  · rename_i hg
    exact ⟨h, fun _ => by simpa using hg⟩

theorem ow_ruNext (m1 : MState) (v : Nat) (ds : List SDelivery) (i : Slot) : ((ruNext m1 v ds).slots i).owed = (m1.slots i).owed := by
  simp only [ruNext]
  split
  · split <;> rfl
  · rfl


/-- the monitor knows a held fan-out of kind `k` exactly when one is in progress -/
theorem fans_step (m : MState) (o : Kind → Bool) (ho : ∀ k, (m.fans k).isSome = o k) (r : Rec) (k : Kind) :
    ((monNext m r).fans k).isSome = openStep o r k := by
  obtain ⟨op, obs⟩ := r
  cases op with
  | config a b c h => rfl
  | cbstep k' =>
    cases obs <;> try exact ho k
    rename_i done
    cases done
    · simp only [monNext, cbStepNext, openStep, Bool.false_eq_true, if_false]
      split
      · rfl
      · exact ho k
    · simp only [monNext, cbStepNext, openStep, if_true]
      exact ho k
  | fsend k' =>
    cases obs <;> try exact ho k
    rename_i a t l done
    simp only [monNext, openStep]
    cases hf : m.fans k' with
    | none =>
      have : o k' = false := by rw [← ho, hf]; rfl
      simp only [this, Bool.false_and, Bool.false_eq_true, if_false]
      exact ho k
    | some fan =>
      have hok : o k' = true := by rw [← ho, hf]; rfl
      cases hs : slotDeliveries l with
      | none =>
        simp only [hok, Option.isSome_none, Bool.and_false, Bool.false_and, Bool.false_eq_true, if_false]
        exact ho k
      | some ds =>
        simp only [hok, Option.isSome_some, Bool.and_self, Bool.true_and]
        cases done
        · simp only [fsNext, Bool.false_eq_true, if_false]
          split
          · rename_i e; rw [e, ← ho, hf]; rfl
          · exact ho k
        · simp only [fsNext, if_true]
          split
          · rfl
          · exact ho k
  | close c =>
    cases obs <;> try exact ho k
    show (((m.fans k).map _).isSome) = o k
    rw [Option.isSome_map]; exact ho k
  | change f e =>
    cases obs <;> try exact ho k
    show ((monChange m f e).fans k).isSome = o k
    simp only [monChange]
    split
    · exact ho k
    · split <;> exact ho k
  | cbrun k' =>
    cases obs <;> try exact ho k
    simp only [monNext, openStep]
    split <;> exact ho k
  | rupdated u v =>
    cases obs <;> try exact ho k
    simp only [monNext, openStep]
    split <;> exact ho k
  | connect c sid mo mask =>
    simp only [monNext, openStep]
    split <;> exact ho k
  | subscribe c u hold =>
    simp only [monNext, openStep]
    split
    · split
      · split <;> exact ho k
      · exact ho k
    · split <;> exact ho k
  | list c key mode =>
    cases obs <;> try exact ho k
    all_goals
      simp only [monNext, openStep]
      split <;> exact ho k
  | xlisten c id ks us hold =>
    cases obs <;> try exact ho k
    simp only [monNext, openStep]
    split <;> exact ho k
  | ackdone c id =>
    simp only [monNext, openStep]
    split <;> exact ho k
  | unsubscribe c u hold =>
    cases obs <;> try exact ho k
    simp only [monNext, openStep]
    split <;> exact ho k
  | _ => cases obs <;> exact ho k

theorem fans_history (tr : Trace) (k : Kind) : ((monAfter {} tr).fans k).isSome = openAfter tr k := by
  have : ∀ (l : List Rec) (m : MState) (o : Kind → Bool), (∀ k, (m.fans k).isSome = o k) →
      ∀ k, ((l.foldl monNext m).fans k).isSome = l.foldl openStep o k := by
    intro l
    induction l with
    | nil => intro m o h; exact h
    | cons r rest ih => intro m o h; exact ih _ _ (fun k => fans_step m o h r k)
  exact this tr {} _ (fun _ => rfl) k


/-- the delivery clause of `DeliversK` with the state of the held fan-outs given -/
def DeliversKo (o : Kind → Bool) (r : Rec) (i : Slot) (k : Kind) : Prop :=
  (∃ t l ds, r = ⟨.cbrun k, .sent t l⟩ ∧ slotDeliveries l = some ds ∧ ∃ x ∈ ds, x.slot = i) ∨
  (∃ a t l b ds, r = ⟨.fsend k, .fsent a t l b⟩ ∧ slotDeliveries l = some ds ∧ o k = true ∧ ∃ x ∈ ds, x.slot = i)

/-- how one record moves the monitor's debts -/
theorem owed_step {m : MState} {t : Truth} (hA : Agrees m t) (o : Kind → Bool) (ho : ∀ k, (m.fans k).isSome = o k)
    (r : Rec) (i : Slot) (k : Kind) :
    (Resets r i → k ∉ ((monNext m r).slots i).owed) ∧
    (¬ Resets r i → k ∈ ((monNext m r).slots i).owed →
      (k ∈ (m.slots i).owed ∧ ¬ DeliversKo o r i k ∧ (IsSnapshot r k → (t.slots i).entitled k)) ∨
      (k ∉ (m.slots i).owed ∧ IsChange t r k ∧ (t.slots i).connected = true)) := by
  obtain ⟨op, obs⟩ := r
  -- ops that neither reset, deliver, snapshot nor change
  have plain : (∀ a b c h, op ≠ .config a b c h) → (∀ j sid mo mask, op ≠ .connect j sid mo mask) → (∀ j, op ≠ .close j) →
      (∀ k', op ≠ .cbrun k') → (∀ k', op ≠ .fsend k') → (∀ k', op ≠ .cbstep k') →
      ((monNext m ⟨op, obs⟩).slots i).owed = (m.slots i).owed →
      (Resets ⟨op, obs⟩ i → k ∉ ((monNext m ⟨op, obs⟩).slots i).owed) ∧
      (¬ Resets ⟨op, obs⟩ i → k ∈ ((monNext m ⟨op, obs⟩).slots i).owed →
        (k ∈ (m.slots i).owed ∧ ¬ DeliversKo o ⟨op, obs⟩ i k ∧ (IsSnapshot ⟨op, obs⟩ k → (t.slots i).entitled k)) ∨
        (k ∉ (m.slots i).owed ∧ IsChange t ⟨op, obs⟩ k ∧ (t.slots i).connected = true)) := by
    intro h1 h2 h3 h4 h5 h6 he
    refine ⟨fun hr => absurd hr (not_resets_of h1 h2 h3), fun _ hk => Or.inl ⟨by rw [← he]; exact hk, ?_, ?_⟩⟩
    · rintro (⟨_, _, _, e, _⟩ | ⟨_, _, _, _, _, e, _⟩)
      · simp only [Rec.mk.injEq] at e; exact h4 _ e.1
      · simp only [Rec.mk.injEq] at e; exact h5 _ e.1
    · rintro (⟨_, _, _, e, _⟩ | ⟨_, e⟩)
      · simp only [Rec.mk.injEq] at e; exact absurd e.1 (h4 _)
      · simp only [Rec.mk.injEq] at e; exact absurd e.1 (h6 _)
  cases op with
  | config ca cb cc hk =>
    exact ⟨fun _ => by simp [monNext, freshState], fun hn => absurd (Or.inl ⟨_, _, _, _, rfl⟩) hn⟩
  | connect c sid mo mask =>
    by_cases hok : obs.isOk = true
    · by_cases e : c = i
      · subst e
        exact ⟨fun _ => by simp [monNext, hok, MState.setSlot], fun hn => absurd (Or.inr (Or.inl ⟨sid, mo, mask, rfl, hok⟩)) hn⟩
      · have hi : i ≠ c := fun e2 => e e2.symm
        have hsame : ((monNext m ⟨.connect c sid mo mask, obs⟩).slots i).owed = (m.slots i).owed := by
          simp [monNext, hok, MState.setSlot, hi]
        refine ⟨fun hr => ?_, fun _ hk => Or.inl ⟨by rw [← hsame]; exact hk, ?_, ?_⟩⟩
        · rcases hr with ⟨_, _, _, _, e2⟩ | ⟨_, _, _, e2, _⟩ | ⟨e2, _⟩
          · cases e2
          · simp only [Op.connect.injEq] at e2; exact absurd e2.1 e
          · cases e2
        · rintro (⟨_, _, _, e2, _⟩ | ⟨_, _, _, _, _, e2, _⟩) <;> cases e2
        · rintro (⟨_, _, _, e2, _⟩ | ⟨_, e2⟩) <;> cases e2
    · have hsame : ((monNext m ⟨.connect c sid mo mask, obs⟩).slots i).owed = (m.slots i).owed := by
        simp [monNext, hok]
      refine ⟨fun hr => ?_, fun _ hk => Or.inl ⟨by rw [← hsame]; exact hk, ?_, ?_⟩⟩
      · rcases hr with ⟨_, _, _, _, e2⟩ | ⟨_, _, _, _, e3⟩ | ⟨e2, _⟩
        · cases e2
        · exact absurd e3 hok
        · cases e2
      · rintro (⟨_, _, _, e2, _⟩ | ⟨_, _, _, _, _, e2, _⟩) <;> cases e2
      · rintro (⟨_, _, _, e2, _⟩ | ⟨_, e2⟩) <;> cases e2
  | close c =>
    by_cases hok : obs = .ok
    · subst hok
      by_cases e : c = i
      · subst e
        exact ⟨fun _ => by simp [monNext, MState.setSlot], fun hn => absurd (Or.inr (Or.inr ⟨rfl, rfl⟩)) hn⟩
      · have hi : i ≠ c := fun e2 => e e2.symm
        have hsame : ((monNext m ⟨.close c, .ok⟩).slots i).owed = (m.slots i).owed := by
          simp [monNext, MState.setSlot, hi]
        refine ⟨fun hr => ?_, fun _ hk => Or.inl ⟨by rw [← hsame]; exact hk, ?_, ?_⟩⟩
        · rcases hr with ⟨_, _, _, _, e2⟩ | ⟨_, _, _, e2, _⟩ | ⟨e2, _⟩
          · cases e2
          · cases e2
          · simp only [Op.close.injEq] at e2; exact absurd e2 e
        · rintro (⟨_, _, _, e2, _⟩ | ⟨_, _, _, _, _, e2, _⟩) <;> cases e2
        · rintro (⟨_, _, _, e2, _⟩ | ⟨_, e2⟩) <;> cases e2
    · have hsame : ((monNext m ⟨.close c, obs⟩).slots i).owed = (m.slots i).owed := by
        cases obs <;> first | rfl | exact absurd rfl hok
      refine ⟨fun hr => ?_, fun _ hk => Or.inl ⟨by rw [← hsame]; exact hk, ?_, ?_⟩⟩
      · rcases hr with ⟨_, _, _, _, e2⟩ | ⟨_, _, _, e2, _⟩ | ⟨_, e3⟩
        · cases e2
        · cases e2
        · exact absurd e3 hok
      · rintro (⟨_, _, _, e2, _⟩ | ⟨_, _, _, _, _, e2, _⟩) <;> cases e2
      · rintro (⟨_, _, _, e2, _⟩ | ⟨_, e2⟩) <;> cases e2
  | ttl n => exact plain (by simp) (by simp) (by simp) (by simp) (by simp) (by simp) (by cases obs <;> rfl)
  | advance d => exact plain (by simp) (by simp) (by simp) (by simp) (by simp) (by simp) (by cases obs <;> rfl)
  | bad => exact plain (by simp) (by simp) (by simp) (by simp) (by simp) (by simp) (by cases obs <;> rfl)
  | fin => exact plain (by simp) (by simp) (by simp) (by simp) (by simp) (by simp) (by cases obs <;> rfl)
  | send c kk => exact plain (by simp) (by simp) (by simp) (by simp) (by simp) (by simp) (by cases obs <;> rfl)
  | policy u rf => exact plain (by simp) (by simp) (by simp) (by simp) (by simp) (by simp) (by cases obs <;> rfl)
  | tables =>
    refine plain (by simp) (by simp) (by simp) (by simp) (by simp) (by simp) ?_
    cases obs <;> try rfl
    exact ow_tbNext _ _ _
  | list c kk mode =>
    refine plain (by simp) (by simp) (by simp) (by simp) (by simp) (by simp) ?_
    cases obs <;> try rfl
    all_goals
      simp only [monNext]
      split
      all_goals ow_tac
  | fill c kk =>
    refine plain (by simp) (by simp) (by simp) (by simp) (by simp) (by simp) ?_
    cases obs <;> try rfl
    ow_tac
  | listen c hold =>
    refine plain (by simp) (by simp) (by simp) (by simp) (by simp) (by simp) ?_
    cases obs <;> try rfl
    ow_tac
  | xlisten c id ks us hold =>
    refine plain (by simp) (by simp) (by simp) (by simp) (by simp) (by simp) ?_
    cases obs <;> try rfl
    · simp only [monNext]; split
      · ow_tac
      · rfl
    · ow_tac
  | xend c id hold =>
    refine plain (by simp) (by simp) (by simp) (by simp) (by simp) (by simp) ?_
    cases obs <;> try rfl
    ow_tac
  | canceldone c id =>
    refine plain (by simp) (by simp) (by simp) (by simp) (by simp) (by simp) ?_
    cases obs <;> try rfl
    ow_tac
  | ackdone c id =>
    refine plain (by simp) (by simp) (by simp) (by simp) (by simp) (by simp) ?_
    simp only [monNext]; split
    · ow_tac
    · rfl
  | subscribe c u hold =>
    refine plain (by simp) (by simp) (by simp) (by simp) (by simp) (by simp) ?_
    simp only [monNext]
    split
    · split
      · split
        · ow_tac
        · rfl
      · rfl
    · split
      · ow_tac
      · ow_tac
      · rfl
  | unsubscribe c u hold =>
    refine plain (by simp) (by simp) (by simp) (by simp) (by simp) (by simp) ?_
    cases obs <;> try rfl
    · simp only [monNext]; split
      · ow_tac
      · ow_tac
    · ow_tac
  | rupdated u v =>
    refine plain (by simp) (by simp) (by simp) (by simp) (by simp) (by simp) ?_
    cases obs <;> try rfl
    simp only [monNext]
    split
    · exact ow_ruNext _ _ _ _
    · rfl
  | change f e =>
    have hnr : ¬ Resets ⟨.change f e, obs⟩ i := not_resets_of (by simp) (by simp) (by simp)
    have hnd : ¬ DeliversKo o ⟨.change f e, obs⟩ i k := by
      rintro (⟨_, _, _, e2, _⟩ | ⟨_, _, _, _, _, e2, _⟩) <;> cases e2
    have hns : IsSnapshot ⟨.change f e, obs⟩ k → (t.slots i).entitled k := by
      rintro (⟨_, _, _, e2, _⟩ | ⟨_, e2⟩) <;> cases e2
    refine ⟨fun hr => absurd hr hnr, fun _hn hk => ?_⟩
    cases obs <;> try exact Or.inl ⟨hk, hnd, hns⟩
    have hk : k ∈ ((monChange m f e).slots i).owed := hk
    simp only [monChange] at hk
    split at hk
    · exact Or.inl ⟨hk, hnd, hns⟩
    · rename_i heff
      split at hk
      · exact Or.inl ⟨hk, hnd, hns⟩
      · rename_i hoff
        have hk : k ∈ (changeSlot (kindOfFSet f) _ _ (m.slots i)).owed := hk
        rw [ow_changeSlot] at hk
        by_cases hold : k ∈ (m.slots i).owed
        · exact Or.inl ⟨hold, hnd, hns⟩
        · rcases hk with hk | ⟨hk1, hk2⟩
          · exact absurd hk hold
          · right
            refine ⟨hold, ⟨f, e, rfl, hk1.symm, ?_, ?_⟩, by rw [← hA.connected]; exact hk2⟩
            · rw [← hA.cnt]; simpa using heff
            · rw [← hA.cap, hk1]
              intro hc
              simp [hc] at hoff
  | cbrun k' =>
    have hnr : ¬ Resets ⟨.cbrun k', obs⟩ i := not_resets_of (by simp) (by simp) (by simp)
    refine ⟨fun hr => absurd hr hnr, fun _hn hk => Or.inl ?_⟩
    have triv : ∀ obs', (∀ tt l, obs' ≠ .sent tt l) → ((monNext m ⟨.cbrun k', obs'⟩).slots i).owed = (m.slots i).owed →
        k ∈ ((monNext m ⟨.cbrun k', obs'⟩).slots i).owed →
        k ∈ (m.slots i).owed ∧ ¬ DeliversKo o ⟨.cbrun k', obs'⟩ i k ∧ (IsSnapshot ⟨.cbrun k', obs'⟩ k → (t.slots i).entitled k) := by
      intro obs' hne he hk
      refine ⟨by rw [← he]; exact hk, ?_, ?_⟩
      · rintro (⟨_, _, _, e2, _⟩ | ⟨_, _, _, _, _, e2, _⟩)
        · simp only [Rec.mk.injEq] at e2; exact hne _ _ e2.2
        · cases e2
      · rintro (⟨_, _, _, e2, _⟩ | ⟨_, e2⟩)
        · simp only [Rec.mk.injEq] at e2; exact absurd e2.2 (hne _ _)
        · cases e2
    cases obs <;> try exact triv _ (by simp) rfl hk
    rename_i tt l
    cases hs : slotDeliveries l with
    | none =>
      have he : ((monNext m ⟨.cbrun k', .sent tt l⟩).slots i).owed = (m.slots i).owed := by simp only [monNext, hs]
      refine ⟨by rw [← he]; exact hk, ?_, ?_⟩
      · rintro (⟨_, _, _, e2, h2, _⟩ | ⟨_, _, _, _, _, e2, _⟩)
        · simp only [Rec.mk.injEq, Obs.sent.injEq] at e2; rw [← e2.2.2, hs] at h2; cases h2
        · cases e2
      · rintro (⟨_, _, _, e2, h2⟩ | ⟨_, e2⟩)
        · simp only [Rec.mk.injEq, Obs.sent.injEq] at e2; rw [← e2.2.2, hs] at h2; cases h2
        · cases e2
    | some ds =>
      have hk : k ∈ ((cbNext m k' ds).slots i).owed := by simpa only [monNext, hs] using hk
      obtain ⟨h1, h2⟩ := ow_cbNext m k' ds i k hk
      refine ⟨h1, ?_, ?_⟩
      · rintro (⟨_, _, _, e2, h3, x, hx, hxi⟩ | ⟨_, _, _, _, _, e2, _⟩)
        · simp only [Rec.mk.injEq, Op.cbrun.injEq, Obs.sent.injEq] at e2
          rw [← e2.2.2, hs] at h3
          simp only [Option.some.injEq] at h3
          subst h3
          have := (h2 e2.1.symm).1
          rw [List.any_eq_false] at this
          have := this x hx
          simp [hxi] at this
        · cases e2
      · rintro (⟨_, _, _, e2, _⟩ | ⟨_, e2⟩)
        · simp only [Rec.mk.injEq, Op.cbrun.injEq] at e2
          exact (entitledNow_truth hA i k).1 (h2 e2.1.symm).2
        · cases e2
  | cbstep k' =>
    have hnr : ¬ Resets ⟨.cbstep k', obs⟩ i := not_resets_of (by simp) (by simp) (by simp)
    refine ⟨fun hr => absurd hr hnr, fun _hn hk => Or.inl ?_⟩
    have hnd : ¬ DeliversKo o ⟨.cbstep k', obs⟩ i k := by
      rintro (⟨_, _, _, e2, _⟩ | ⟨_, _, _, _, _, e2, _⟩) <;> cases e2
    have triv : ∀ obs', (∀ d, obs' ≠ .fan d) → ((monNext m ⟨.cbstep k', obs'⟩).slots i).owed = (m.slots i).owed →
        k ∈ ((monNext m ⟨.cbstep k', obs'⟩).slots i).owed →
        k ∈ (m.slots i).owed ∧ ¬ DeliversKo o ⟨.cbstep k', obs'⟩ i k ∧ (IsSnapshot ⟨.cbstep k', obs'⟩ k → (t.slots i).entitled k) := by
      intro obs' hne he hk
      refine ⟨by rw [← he]; exact hk, ?_, ?_⟩
      · rintro (⟨_, _, _, e2, _⟩ | ⟨_, _, _, _, _, e2, _⟩) <;> cases e2
      · rintro (⟨_, _, _, e2, _⟩ | ⟨_, e2⟩)
        · cases e2
        · simp only [Rec.mk.injEq] at e2; exact absurd e2.2 (hne _)
    cases obs <;> try exact triv _ (by simp) rfl hk
    rename_i done
    have hk : k ∈ ((cbStepNext m k' done).slots i).owed := hk
    obtain ⟨h1, h2⟩ := ow_cbStepNext m k' done i k hk
    refine ⟨h1, hnd, ?_⟩
    rintro (⟨_, _, _, e2, _⟩ | ⟨_, e2⟩)
    · cases e2
    · simp only [Rec.mk.injEq, Op.cbstep.injEq] at e2
      exact (entitledNow_truth hA i k).1 (h2 e2.1.symm)
  | fsend k' =>
    have hnr : ¬ Resets ⟨.fsend k', obs⟩ i := not_resets_of (by simp) (by simp) (by simp)
    refine ⟨fun hr => absurd hr hnr, fun _hn hk => Or.inl ?_⟩
    have hns : IsSnapshot ⟨.fsend k', obs⟩ k → (t.slots i).entitled k := by
      rintro (⟨_, _, _, e2, _⟩ | ⟨_, e2⟩) <;> cases e2
    have triv : ∀ obs', (∀ a tt l b, obs' ≠ .fsent a tt l b) → ((monNext m ⟨.fsend k', obs'⟩).slots i).owed = (m.slots i).owed →
        k ∈ ((monNext m ⟨.fsend k', obs'⟩).slots i).owed →
        k ∈ (m.slots i).owed ∧ ¬ DeliversKo o ⟨.fsend k', obs'⟩ i k ∧ (IsSnapshot ⟨.fsend k', obs'⟩ k → (t.slots i).entitled k) := by
      intro obs' hne he hk
      refine ⟨by rw [← he]; exact hk, ?_, ?_⟩
      · rintro (⟨_, _, _, e2, _⟩ | ⟨_, _, _, _, _, e2, _⟩)
        · cases e2
        · simp only [Rec.mk.injEq] at e2; exact hne _ _ _ _ e2.2
      · rintro (⟨_, _, _, e2, _⟩ | ⟨_, e2⟩) <;> cases e2
    cases obs <;> try exact triv _ (by simp) rfl hk
    rename_i a tt l b
    cases hf : m.fans k' with
    | none =>
      have he : ((monNext m ⟨.fsend k', .fsent a tt l b⟩).slots i).owed = (m.slots i).owed := by simp only [monNext, hf]
      have hok : o k' = false := by rw [← ho, hf]; rfl
      refine ⟨by rw [← he]; exact hk, ?_, hns⟩
      rintro (⟨_, _, _, e2, _⟩ | ⟨_, _, _, _, _, e2, _, h3, _⟩)
      · cases e2
      · simp only [Rec.mk.injEq, Op.fsend.injEq] at e2
        rw [← e2.1, hok] at h3; cases h3
    | some fan =>
      cases hs : slotDeliveries l with
      | none =>
        have he : ((monNext m ⟨.fsend k', .fsent a tt l b⟩).slots i).owed = (m.slots i).owed := by simp only [monNext, hf, hs]
        refine ⟨by rw [← he]; exact hk, ?_, hns⟩
        rintro (⟨_, _, _, e2, _⟩ | ⟨_, _, _, _, _, e2, h2, _⟩)
        · cases e2
        · simp only [Rec.mk.injEq, Obs.fsent.injEq] at e2
          rw [← e2.2.2.2.1, hs] at h2; cases h2
      | some ds =>
        have hk : k ∈ ((fsNext m k' fan ds b).slots i).owed := by simpa only [monNext, hf, hs] using hk
        obtain ⟨h1, h2⟩ := ow_fsNext m k' fan ds b i k hk
        refine ⟨h1, ?_, hns⟩
        rintro (⟨_, _, _, e2, _⟩ | ⟨_, _, _, _, _, e2, h3, _, x, hx, hxi⟩)
        · cases e2
        · simp only [Rec.mk.injEq, Op.fsend.injEq, Obs.fsent.injEq] at e2
          rw [← e2.2.2.2.1, hs] at h3
          simp only [Option.some.injEq] at h3
          subst h3
          have := h2 e2.1.symm
          rw [List.any_eq_false] at this
          have := this x hx
          simp [hxi] at this


theorem openAt_snoc_le (tr : Trace) (r : Rec) {j : Nat} (hj : j ≤ tr.length) : openAt (tr ++ [r]) j = openAt tr j := by
  simp only [openAt]
  rw [List.take_append_of_le_length hj]

theorem openAt_len (tr : Trace) : openAt tr tr.length = openAfter tr := by
  simp [openAt]

theorem deliversK_snoc {tr : Trace} {r : Rec} {j : Nat} (hj : j ≤ tr.length) (rj : Rec) (i : Slot) (k : Kind) :
    DeliversK (tr ++ [r]) j rj i k ↔ DeliversK tr j rj i k := by
  simp only [DeliversK, openAt_snoc_le tr r hj]

/-- **history of the monitor's debts**: a debt the monitor holds for the session of a slot is owed in the sense of the
property -/
theorem owed_history (tr : Trace) (i : Slot) (k : Kind) (h : k ∈ ((monAfter {} tr).slots i).owed) : Owes tr tr.length i k := by
  revert h
  refine snoc_induction (P := fun tr => k ∈ ((monAfter {} tr).slots i).owed → Owes tr tr.length i k) ?_ ?_ tr
  · intro h; simp [monAfter] at h
  · intro tr r ih h
    rw [monAfter_snoc] at h
    have hstep := owed_step (monAfter_truth tr) (openAfter tr) (fun k => fans_history tr k) r i k
    by_cases hr : Resets r i
    · exact absurd h (hstep.1 hr)
    · rcases hstep.2 hr h with ⟨hold, hnd, hsn⟩ | ⟨_, hch, hconn⟩
      · obtain ⟨p, rp, hp, hget, hchg, hc, hss, hall⟩ := ih hold
        refine ⟨p, rp, by simp; omega, by rw [get_snoc_lt tr r hp]; exact hget, by rw [truthAt_snoc_le tr r (by omega)]; exact hchg,
          by rw [truthAt_snoc_le tr r (by omega)]; exact hc, ?_, ?_⟩
        · simp only [List.length_append, List.length_singleton]
          exact sameSession_snoc hss hr
        · intro j rj hj1 hj2 hgetj
          simp only [List.length_append, List.length_singleton] at hj2
          by_cases e : j < tr.length
          · rw [get_snoc_lt tr r e] at hgetj
            have := hall j rj hj1 e hgetj
            rw [deliversK_snoc (by omega), truthAt_snoc_le tr r (by omega)]
            exact this
          · have ej : j = tr.length := by omega
            subst ej
            rw [get_snoc_len] at hgetj
            simp only [Option.some.injEq] at hgetj
            subst hgetj
            rw [truthAt_snoc_len]
            refine ⟨?_, hsn⟩
            intro hd
            apply hnd
            simp only [DeliversK, openAt_snoc_le tr r (Nat.le_refl _), openAt_len] at hd
            exact hd
      · refine ⟨tr.length, r, by simp, get_snoc_len tr r, by rw [truthAt_snoc_len]; exact hch,
          by rw [truthAt_snoc_len]; exact hconn, ?_, ?_⟩
        · intro j rj hj1 hj2 _
          simp only [List.length_append, List.length_singleton] at hj2
          omega
        · intro j rj hj1 hj2 _
          simp only [List.length_append, List.length_singleton] at hj2
          omega

/-- the clauses of the end of a case -/
def IsEndClause (c : Clause) : Prop :=
  c = .endMixedRemove ∨ c = .endMidFan ∨ c = .endSkippedAck ∨ c = .endF19 ∨ c = .endSkipped ∨ c = .endNoLost ∨
  (∃ a b w, c = .lostWindow a b w .fin) ∨ (∃ o a b w, c = .lostOverlap o a b w .fin)

theorem endSlotClause_some {m : MState} {i : Slot} {c : Clause} (h : endSlotClause m i = some c) :
    ∃ k, k ∈ (m.slots i).owed ∧ entitledNow (m.slots i) k = true := by
  simp only [endSlotClause] at h
  split at h
  · simp at h
  · rename_i k hk
    have := List.find?_some hk
    simp only [Bool.and_eq_true] at this
    exact ⟨k, by simpa using this.1, this.2⟩

/-- every clause of the end of a case contradicts "every connected, entitled session receives a notification sent
after the last change" -/
theorem sound_end (tr : Trace) (r : Rec) (c : Clause) (h : Reports tr r c) (hc : srcOf c = .fin) : ¬ P_notified (tr ++ [r]) := by
  intro hP
  have hA := monAfter_truth tr
  obtain ⟨obs, er, hend⟩ := fin_source h hc
  obtain ⟨i, hi⟩ := endCheck_some hend
  obtain ⟨k, hk, hent⟩ := endSlotClause_some hi
  have howes := owed_history tr i k hk
  have := hP tr.length obs (by rw [get_snoc_len, er]) i k (by rw [truthAt_snoc_len]; exact (entitledNow_truth hA i k).1 hent)
  apply this
  obtain ⟨p, rp, hp, hget, hchg, hcn, hss, hall⟩ := howes
  refine ⟨p, rp, hp, by rw [get_snoc_lt tr r hp]; exact hget, by rw [truthAt_snoc_le tr r (by omega)]; exact hchg,
    by rw [truthAt_snoc_le tr r (by omega)]; exact hcn, (sameSession_of_snoc (Nat.le_refl _)).2 hss, ?_⟩
  intro j rj hj1 hj2 hgetj
  rw [get_snoc_lt tr r hj2] at hgetj
  rw [deliversK_snoc (by omega), truthAt_snoc_le tr r (by omega)]
  exact hall j rj hj1 hj2 hgetj

theorem sound_endMixedRemove (tr : Trace) (r : Rec) (h : Reports tr r .endMixedRemove) : ¬ P_notified (tr ++ [r]) := sound_end tr r _ h rfl
theorem sound_endMidFan (tr : Trace) (r : Rec) (h : Reports tr r .endMidFan) : ¬ P_notified (tr ++ [r]) := sound_end tr r _ h rfl
theorem sound_endSkippedAck (tr : Trace) (r : Rec) (h : Reports tr r .endSkippedAck) : ¬ P_notified (tr ++ [r]) := sound_end tr r _ h rfl
theorem sound_endF19 (tr : Trace) (r : Rec) (h : Reports tr r .endF19) : ¬ P_notified (tr ++ [r]) := sound_end tr r _ h rfl
theorem sound_endSkipped (tr : Trace) (r : Rec) (h : Reports tr r .endSkipped) : ¬ P_notified (tr ++ [r]) := sound_end tr r _ h rfl
theorem sound_endNoLost (tr : Trace) (r : Rec) (h : Reports tr r .endNoLost) : ¬ P_notified (tr ++ [r]) := sound_end tr r _ h rfl
theorem sound_lostWindow_fin (tr : Trace) (r : Rec) (a b : Nat) (w : What) (h : Reports tr r (.lostWindow a b w .fin)) :
    ¬ P_notified (tr ++ [r]) := sound_end tr r _ h rfl
theorem sound_lostOverlap_fin (tr : Trace) (r : Rec) (o : Bool) (a b : Nat) (w : What)
    (h : Reports tr r (.lostOverlap o a b w .fin)) : ¬ P_notified (tr ++ [r]) := sound_end tr r _ h rfl

end Notify.Sound
