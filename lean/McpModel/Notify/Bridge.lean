import McpModel.Notify.BridgeOps14
/-!
# E14 bridge: the typed C18 monitor accepts every behaviour of the composed model

`monitor_accepts_model`: for ALL lists of ops of the harness (server side: changes, clock advances = timer
firings, callbacks — complete or held before every write —, connects, listens, subscribes, unsubscribes,
raw listens and their ends in any order, held acknowledgements and cancellations, closes, ResourceUpdated
calls, SubscribeHandler policies; client side: list / read calls with their cache fills, hits and held
responses; table dumps) and all hints of the implementation for the order of a held fan-out, the typed
monitor (`Mon.runMon`, Monitor.lean — the function the driver runs) raises NO clause on the records the
typed composed model (`Sys.sysStep`, System.lean — the function the driver runs) produces.  The proof is
the simulation `Rel` (BridgeInv.lean) between the model's state and the monitor's bookkeeping, preserved
by every op (`step_ok`; BridgeOps1 … BridgeOps14).

Two environment hypotheses (`okRun`, decidable): a `connect` uses a session id not used before in the
case (the harness numbers its sessions), and `end` is issued when the model is quiet — no armed timer, no
started callback, no fan-out in progress (the harness drains before `end`).  Both are needed:
`fresh_sid_needed`, `quiet_needed` are runs that violate exactly one of them, on which the monitor
reports a clause on the model's own records.
-/
namespace Notify.Bridge
open Notify Notify.Mon Notify.Sys Generated.Notify

theorem step_ok {seen : List Nat} {y : State} {m : MState} (h : Rel seen y m) (op : Op) (hint : Option Who)
    (hok : okOp seen y op) : StepOk seen y m op hint := by
  cases op with
  | config ca cb cc hk => exact step_config h ca cb cc hk hint
  | ttl n => exact step_ttl h n hint
  | change f e => exact step_change h f e hint
  | advance d => exact step_advance h d hint
  | cbrun k => exact step_cbrun h k hint
  | cbstep k => exact step_cbstep h k hint
  | fsend k => exact step_fsend h k hint
  | policy u r => exact step_policy h u r hint
  | canceldone c id => exact step_canceldone h c id hint
  | connect c sid modern mask => exact step_connect h c sid modern mask hint hok
  | listen c hold => exact step_listen h c hold hint
  | subscribe c u hold => exact step_subscribe h c u hold hint
  | xlisten c id ks us hold => exact step_xlisten h c id ks us hold hint
  | xend c id hold => exact step_xend h c id hold hint
  | ackdone c id => exact step_ackdone h c id hint
  | unsubscribe c u hold => exact step_unsubscribe h c u hold hint
  | close c => exact step_close h c hint
  | rupdated u v => exact step_rupdated h u v hint
  | list c key mode => exact step_list h c key mode hint
  | send c key => exact step_send h c key hint
  | fill c key => exact step_fill h c key hint
  | tables => exact step_tables h hint
  | fin => exact step_fin h hint hok
  | bad => exact step_bad h hint

/-- the initial states of the driver (`reset`) are related -/
theorem rel_init : Rel [] ({} : State) ({} : MState) := by
  refine ⟨srvOk_init _, ⟨rfl, rfl, rfl, rfl⟩, ?_, ?_, ?_, ?_, ?_, ?_, ?_⟩
  · constructor
    · intro i hi; simp at hi
    · intro p hp; simp [init] at hp
    · intro i j hi; simp at hi
    · intro i; rfl
    · intro i hi; simp at hi
    · intro i hi; simp at hi
    · intro i hi; simp at hi
  · constructor
    · intro l hl; simp [init] at hl
    · intro i hi; simp at hi
    · intro i hi; simp at hi
    · intro i hi; simp at hi
    · intro i hi; simp at hi
    · intro i _; exact ⟨rfl, rfl, rfl⟩
  · intro i k hk; simp at hk
  · constructor
    · intro k hk; simp [init] at hk
    · intro k fan hf; simp at hf
  · intro i hi; simp at hi
  · constructor
    · intro p hp; simp [init] at hp
    · intro k x hx; simp [init] at hx
  · intro k hk; simp [init] at hk

theorem monitor_accepts_run : ∀ (ops : List (Op × Option Who)) (seen : List Nat) (y : State) (m : MState),
    Rel seen y m → okRun seen y ops → runMon m (modelTrace y ops) = none := by
  intro ops
  induction ops with
  | nil => intro _ _ _ _ _; rfl
  | cons a t ih =>
    intro seen y m h hok
    obtain ⟨op, hint⟩ := a
    obtain ⟨hok1, hok2⟩ := hok
    obtain ⟨hc, hr⟩ := step_ok h op hint hok1
    simp only [modelTrace, runMon, hc]
    exact ih _ _ _ hr hok2

/-- **monitor_accepts_model.**  On the records of ANY run of the composed model (any ops, any hints) in
which session ids are not reused and `end` comes when the model is quiet, the monitor raises no clause. -/
theorem monitor_accepts_model (ops : List (Op × Option Who)) (hok : okRun [] {} ops) :
    runMon {} (modelTrace {} ops) = none :=
  monitor_accepts_run ops [] {} {} rel_init hok

/-- … and so for every prefix: no record of the run is flagged. -/
theorem monitor_accepts_model_each (ops : List (Op × Option Who)) (hok : okRun [] {} ops) :
    ∀ n, runMon {} ((modelTrace {} ops).take n) = none := by
  have key : ∀ (tr : List Rec) (m : MState), runMon m tr = none → ∀ n, runMon m (tr.take n) = none := by
    intro tr
    induction tr with
    | nil => intro m _ n; simp [runMon]
    | cons r t ih =>
      intro m h n
      cases n with
      | zero => simp [runMon]
      | succ k =>
        simp only [List.take_succ_cons, runMon] at h ⊢
        cases hc : monCheck m r with
        | some c => rw [hc] at h; simp at h
        | none => rw [hc] at h; simp only [] at h ⊢; exact ih _ h k
  exact key _ _ (monitor_accepts_model ops hok)


/-! ### the hypotheses are decidable, satisfiable and needed -/

def decOkRun : ∀ (ops : List (Op × Option Who)) (seen : List Nat) (y : State), Decidable (okRun seen y ops)
  | [], _, _ => isTrue trivial
  | (op, h) :: rest, seen, y =>
    match (inferInstance : Decidable (okOp seen y op)), decOkRun rest (seenAfter seen op) (sysStep y op h).1 with
    | isTrue h1, isTrue h2 => isTrue ⟨h1, h2⟩
    | isFalse h1, _ => isFalse (fun hc => h1 hc.1)
    | _, isFalse h2 => isFalse (fun hc => h2 hc.2)

instance (seen : List Nat) (y : State) (ops : List (Op × Option Who)) : Decidable (okRun seen y ops) := decOkRun ops seen y

/-- the state of the model after a run -/
def stateAfter (y : State) : List (Op × Option Who) → State
  | [] => y
  | (op, h) :: rest => stateAfter (sysStep y op h).1 rest

/-- a run the hypotheses allow: two sessions of both protocol generations, a listen, a burst, the timer, a held
fan-out with a change between its writes, a ResourceUpdated, cached calls, a table dump, a close, the end -/
def sampleRun : List (Op × Option Who) :=
  [(.config .on .unset .on true, none), (.connect 0 1 true [.tools], none), (.listen 0 false, none),
   (.connect 1 2 false [], none), (.subscribe 1 0 false, none), (.subscribe 0 1 true, none),
   (.change .tools .add, none), (.change .tools .replace, none), (.advance 10, none), (.cbstep .tools, none),
   (.change .tools .remove, none), (.fsend .tools, some (.slot 1)), (.fsend .tools, none), (.advance 10, none),
   (.cbrun .tools, none), (.rupdated 0 0, none), (.rupdated 1 2, none), (.list 0 (.list .tools) .post, none),
   (.fill 0 (.list .tools), none), (.list 0 (.read 1) .n, none), (.tables, none), (.ackdone 0 3, none),
   (.unsubscribe 0 1 false, none), (.close 1, none), (.tables, none), (.fin, none)]

set_option maxRecDepth 20000 in
example : okRun [] {} sampleRun := by decide

set_option maxRecDepth 20000 in
/-- the sample run is not trivial for the monitor: deliveries, acknowledgements and cache fills are judged on it -/
example : (modelTrace {} sampleRun).length = 26 ∧ runMon {} (modelTrace {} sampleRun) = none := by decide

/-- Two slots connected under ONE session id (a connect that reuses an id): the model writes to the first slot
only, the monitor — which counts slots — sees an entitled session that no callback reached.  Session ids must
not be reused: the only hypothesis this run violates (its `end` is issued in a quiet state). -/
def reuseRun : List (Op × Option Who) :=
  [(.connect 0 5 false [], none), (.connect 1 5 false [], none), (.change .tools .add, none), (.advance 10, none),
   (.cbrun .tools, none), (.fin, none)]

theorem fresh_sid_needed :
    runMon {} (modelTrace {} reuseRun) = some .endSkipped ∧ ¬ okRun [] {} reuseRun ∧
    quietB (stateAfter {} reuseRun.dropLast).srv = true := by decide

/-- `end` while the debounce timer is still armed: the monitor's `end` clause speaks about a case in which every
timer has fired and every callback has run.  `end` must be issued in a quiet state: the only hypothesis this run
violates. -/
def earlyEnd : List (Op × Option Who) :=
  [(.connect 0 1 false [], none), (.change .tools .add, none), (.fin, none)]

theorem quiet_needed :
    runMon {} (modelTrace {} earlyEnd) = some .endNoLost ∧ ¬ okRun [] {} earlyEnd ∧
    quietB (stateAfter {} earlyEnd.dropLast).srv = false := by decide

/-- **refused_unsubscribe_keeps_subscription.**  `Server.unsubscribe` calls the application's `UnsubscribeHandler`
first and returns its error before it touches the table: a legacy session whose `resources/unsubscribe` the
application refuses gets the error and STAYS subscribed (nothing of the composed state changes). -/
theorem refused_unsubscribe_keeps_subscription (y : State) (i : Slot) (u : Nat) (hint : Option Who)
    (hu : (y.slots i).used = true) (hc : (y.slots i).connected = true) (hm : (y.slots i).modern = false)
    (hp : (y.slots i).parked.contains (ridOf u) = false) (hh : (y.slots i).cancelHeld.contains (ridOf u) = false)
    (hr : y.refused.contains u = true) :
    sysStep y (.unsubscribe i u false) hint = (y, .err) := by
  have hp' : ridOf u ∉ (y.slots i).parked := by simpa using hp
  have hh' : ridOf u ∉ (y.slots i).cancelHeld := by simpa using hh
  have hr' : u ∈ y.refused := by simpa using hr
  simp [sysStep, hu, hc, hm, hp', hh', hr']

/-- a legacy session subscribes, the application starts refusing, the session's unsubscribe fails, an update
still reaches it; the application accepts again, the unsubscribe succeeds, the next update reaches nobody -/
def refusedUnsubRun : List (Op × Option Who) :=
  [(.config .on .on .on true, none), (.connect 0 1 false [], none), (.subscribe 0 0 false, none), (.policy 0 true, none),
   (.unsubscribe 0 0 false, none), (.rupdated 0 0, none), (.policy 0 false, none), (.unsubscribe 0 0 false, none),
   (.rupdated 0 0, none), (.fin, none)]

set_option maxRecDepth 20000 in
example : (stateAfter {} (refusedUnsubRun.take 6)).srv.rlive = [(1, 0)] ∧ (stateAfter {} refusedUnsubRun).srv.rlive = [] ∧
    okRun [] {} refusedUnsubRun ∧ runMon {} (modelTrace {} refusedUnsubRun) = none := by decide

end Notify.Bridge
