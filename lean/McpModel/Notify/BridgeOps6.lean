import McpModel.Notify.BridgeOps5
/-!
# Bridge, part 5e: the ends of listens (`xend`, `canceldone`, `unsubscribe`) and `ackdone`
-/
namespace Notify.Bridge
open Notify Notify.Mon Notify.Sys Generated.Notify
variable {seen : List Nat} {y : State} {m : MState}

theorem setSlot_self (y : State) (i : Slot) : y.setSlot i (y.slots i) = y := by
  cases y
  simp only [State.setSlot, State.mk.injEq, true_and, and_true]
  funext j
  split
  · rename_i e; rw [e]
  · rfl

/-- the relation after the end of the listen `id` of slot `i` -/
theorem rel_end (h : Rel seen y m) (i : Slot) (hu : (y.slots i).used = true) (id : Nat)
    (d' : DSlot) (md' : MSlot)
    (d1 : d'.used = true) (d2 : d'.sid = (y.slots i).sid) (d3 : d'.modern = (y.slots i).modern)
    (d4 : d'.gated = (y.slots i).gated) (d4c : d'.connected = (y.slots i).connected)
    (d5 : ∀ u, ridOf u ≠ id → u ∈ (y.slots i).rsubs → u ∈ d'.rsubs)
    (d6 : ∀ x, x ≠ id → x ∈ (y.slots i).cancelHeld → x ∈ d'.cancelHeld)
    (dcache : CacheRel (curVersion y) (y.slots i) (m.slots i) → CacheRel (curVersion y) d' md')
    (hml : md'.listens = (m.slots i).listens.filter (·.id != id))
    (hmu : md'.luris = (m.slots i).luris) (mo : md'.owed = (m.slots i).owed)
    (mc : md'.connected = (m.slots i).connected) (mm : md'.modern = (m.slots i).modern) :
    Rel seen (({ y with srv := listenEnd y.srv (y.slots i).sid id } : State).setSlot i d') (m.setSlot i md') := by
  have hl := relListen_end (y := y) h.lis h.sess h.srvOk.invA i hu id d' md' d1 d2 d3 d4 d5 d6 hml hmu
  refine h.listen_frame (y' := (({ y with srv := listenEnd y.srv (y.slots i).sid id } : State).setSlot i d'))
    (m' := m.setSlot i md') (srvOk_listenEnd h.srvOk _ _) (sameRest_listenEnd _ _ _) rfl ?_ ?_ ?_ ?_ ?_ ?_ ?_ ?_ ?_ rfl rfl rfl rfl rfl hl
  · intro j; simp only [setSlot_slots]; split
    · rename_i e; rw [e, d1, hu]
    · rfl
  · intro j; simp only [setSlot_slots]; split
    · rename_i e; rw [e, d2]
    · rfl
  · intro j; simp only [setSlot_slots]; split
    · rename_i e; rw [e, d3]
    · rfl
  · intro j hj; simp only [setSlot_slots] at hj ⊢; split
    · rw [d4, d4c]; exact h.sess.gated i hu
    · rename_i e; simp only [e, if_false] at hj; exact h.sess.gated j hj
  · intro j hj hg; simp only [setSlot_slots] at hj hg ⊢; split
    · rename_i e; simp only [e, if_true] at hg; rw [d4] at hg; rw [d3]; exact h.sess.gated_modern i hu hg
    · rename_i e; simp only [e, if_false] at hj hg; exact h.sess.gated_modern j hj hg
  · intro j hj hc; simp only [setSlot_slots, msetSlot_slots]; split
    · rename_i e; subst e; exact dcache hc
    · exact hc
  · intro j; simp only [msetSlot_slots]; split
    · rename_i e; rw [e, mc]
    · rfl
  · intro j; simp only [msetSlot_slots]; split
    · rename_i e; rw [e, mm]
    · rfl
  · intro j; simp only [msetSlot_slots]; split
    · rename_i e; rw [e, mo]
    · rfl

/-- an op that changes slot `i` of the model and of the monitor only in fields the relation reads through
`sub_live` -/
theorem rel_slot_tweak (h : Rel seen y m) (i : Slot) (d' : DSlot) (md' : MSlot)
    (d1 : d'.used = (y.slots i).used) (d2 : d'.sid = (y.slots i).sid) (d3 : d'.modern = (y.slots i).modern)
    (d4 : d'.gated = (y.slots i).gated) (d4c : d'.connected = (y.slots i).connected)
    (d5 : ∀ u, (u ∈ (y.slots i).rsubs ∨ ridOf u ∈ (y.slots i).cancelHeld) → (u ∈ d'.rsubs ∨ ridOf u ∈ d'.cancelHeld))
    (dcache : CacheRel (curVersion y) (y.slots i) (m.slots i) → CacheRel (curVersion y) d' md')
    (hml : md'.listens = (m.slots i).listens)
    (hmu : md'.luris = (m.slots i).luris) (mo : md'.owed = (m.slots i).owed)
    (mc : md'.connected = (m.slots i).connected) (mm : md'.modern = (m.slots i).modern) :
    Rel seen (y.setSlot i d') (m.setSlot i md') := by
  have e1 : ∀ j, ((y.setSlot i d').slots j).used = (y.slots j).used := by
    intro j; simp only [setSlot_slots]; split
    · rename_i e; rw [e, d1]
    · rfl
  have e2 : ∀ j, ((y.setSlot i d').slots j).sid = (y.slots j).sid := by
    intro j; simp only [setSlot_slots]; split
    · rename_i e; rw [e, d2]
    · rfl
  have e3 : ∀ j, ((y.setSlot i d').slots j).modern = (y.slots j).modern := by
    intro j; simp only [setSlot_slots]; split
    · rename_i e; rw [e, d3]
    · rfl
  have e6 : ∀ j, ((y.setSlot i d').slots j).gated = (y.slots j).gated := by
    intro j; simp only [setSlot_slots]; split
    · rename_i e; rw [e, d4]
    · rfl
  have e7 : ∀ j, ((y.setSlot i d').slots j).connected = (y.slots j).connected := by
    intro j; simp only [setSlot_slots]; split
    · rename_i e; rw [e, d4c]
    · rfl
  refine h.listen_frame (y' := y.setSlot i d') (m' := m.setSlot i md') h.srvOk (SameRest.refl _) rfl e1 e2 e3
    ?_ ?_ ?_ ?_ ?_ ?_ rfl rfl rfl rfl rfl ?_
  · intro j hj; rw [e1] at hj; rw [e6, e7]; exact h.sess.gated j hj
  · intro j hj hg; rw [e1] at hj; rw [e6] at hg; rw [e3]; exact h.sess.gated_modern j hj hg
  · intro j hj hc; simp only [setSlot_slots, msetSlot_slots]; split
    · rename_i e; subst e; exact dcache hc
    · exact hc
  · intro j; simp only [msetSlot_slots]; split
    · rename_i e; rw [e, mc]
    · rfl
  · intro j; simp only [msetSlot_slots]; split
    · rename_i e; rw [e, mm]
    · rfl
  · intro j; simp only [msetSlot_slots]; split
    · rename_i e; rw [e, mo]
    · rfl
  · refine h.lis.congr e1 e2 e3 ?_ e6 ?_ ?_ ?_
    · intro j u hx; simp only [setSlot_slots]; split
      · rename_i e; subst e; exact d5 u hx
      · exact hx
    · intro j; simp only [msetSlot_slots]; split
      · rename_i e; rw [e, hml]
      · rfl
    · intro j; simp only [msetSlot_slots]; split
      · rename_i e; rw [e, hmu]
      · rfl
    · intro j hj; simp only [msetSlot_slots]; split
      · rename_i e; rw [mo, ← e]; exact hj
      · exact hj

theorem step_ackdone (h : Rel seen y m) (i : Slot) (id : Nat) (hint : Option Who) :
    StepOk seen y m (.ackdone i id) hint := by
  unfold StepOk
  simp only [sysStep]
  split
  · exact ⟨rfl, h⟩
  · refine ⟨rfl, ?_⟩
    exact rel_slot_tweak h i _ _ rfl rfl rfl rfl rfl (fun _ hx => hx) (fun hc => hc.congr rfl rfl rfl rfl rfl rfl)
      rfl rfl rfl rfl rfl

theorem step_xend (h : Rel seen y m) (i : Slot) (id : Nat) (hold : Bool) (hint : Option Who) :
    StepOk seen y m (.xend i id hold) hint := by
  unfold StepOk
  simp only [sysStep]
  split
  · exact ⟨rfl, h⟩
  · rename_i hsub
    split
    · exact ⟨rfl, h⟩
    · rename_i hg
      simp only [Bool.or_eq_true, not_or, Bool.not_eq_true', Bool.not_eq_false, Bool.not_eq_true] at hg
      obtain ⟨⟨⟨⟨⟨hu, hc⟩, hmod⟩, hpk⟩, hch⟩, hack⟩ := hg
      have hu : (y.slots i).used = true := by simpa using hu
      split
      · refine ⟨rfl, ?_⟩
        show Rel seen _ m
        have key := rel_slot_tweak h i { (y.slots i) with cancelHeld := (y.slots i).cancelHeld ++ [id] } (m.slots i)
          rfl rfl rfl rfl rfl
          (fun u hx => hx.elim Or.inl (fun hx => Or.inr (List.mem_append_left _ hx))) (fun hc => hc.congr rfl rfl rfl rfl rfl rfl)
          rfl rfl rfl rfl rfl
        rw [msetSlot_self] at key
        exact key
      · refine ⟨rfl, ?_⟩
        show Rel seen _ (m.setSlot i ((m.slots i).endListen id))
        have key := rel_end h i hu id (y.slots i) ((m.slots i).endListen id) hu rfl rfl rfl rfl
          (fun _ _ hx => hx) (fun _ _ hx => hx)
          (fun hc => hc.congr rfl rfl rfl (endListen_frame _ _).2.2.2.2.1 (endListen_frame _ _).2.2.2.2.2.1 (endListen_frame _ _).2.2.2.2.2.2)
          (endListen_listens _ _) (endListen_frame _ _).2.2.1 (endListen_frame _ _).2.2.2.1 (endListen_frame _ _).1 (endListen_frame _ _).2.1
        rw [setSlot_self] at key
        exact key

theorem step_canceldone (h : Rel seen y m) (i : Slot) (id : Nat) (hint : Option Who) :
    StepOk seen y m (.canceldone i id) hint := by
  unfold StepOk
  simp only [sysStep]
  split
  · exact ⟨rfl, h⟩
  · rename_i hg
    simp only [Bool.or_eq_true, not_or, Bool.not_eq_true', Bool.not_eq_false, Bool.not_eq_true] at hg
    have hu : (y.slots i).used = true := by simpa using hg.1
    refine ⟨rfl, ?_⟩
    show Rel seen _ (m.setSlot i ((m.slots i).endListen id))
    exact rel_end h i hu id _ ((m.slots i).endListen id) hu rfl rfl rfl rfl
      (fun _ _ hx => hx) (fun x hne hx => List.mem_filter.2 ⟨hx, by simpa using hne⟩)
      (fun hc => hc.congr rfl rfl rfl (endListen_frame _ _).2.2.2.2.1 (endListen_frame _ _).2.2.2.2.2.1 (endListen_frame _ _).2.2.2.2.2.2)
      (endListen_listens _ _) (endListen_frame _ _).2.2.1 (endListen_frame _ _).2.2.2.1 (endListen_frame _ _).1 (endListen_frame _ _).2.1


theorem listenEnd_absent {s : Server} {sid id : Nat} (h : ∀ l ∈ s.listens, ¬(l.sid = sid ∧ l.id = id)) :
    listenEnd s sid id = s := by
  have : s.listens.find? (fun l => l.sid == sid && l.id == id) = none := by
    rw [List.find?_eq_none]
    intro l hl
    have := h l hl
    simp
    exact fun e1 e2 => this ⟨e1, e2⟩
  simp only [listenEnd, this]

theorem ridOf_inj {u v : Nat} (h : ridOf u = ridOf v) : u = v := by
  simp only [ridOf] at h; omega

theorem step_unsubscribe (h : Rel seen y m) (i : Slot) (u : Nat) (hold : Bool) (hint : Option Who) :
    StepOk seen y m (.unsubscribe i u hold) hint := by
  unfold StepOk
  simp only [sysStep]
  split
  · exact ⟨rfl, h⟩
  · rename_i hg
    simp only [Bool.or_eq_true, not_or, Bool.not_eq_true', Bool.not_eq_false, Bool.not_eq_true] at hg
    obtain ⟨⟨⟨hu, hc⟩, hpk⟩, hch⟩ := hg
    have hu : (y.slots i).used = true := by simpa using hu
    split
    · rename_i hmod
      have hmod : (y.slots i).modern = false := by simpa using hmod
      have hmm : (m.slots i).modern = false := by rw [h.sess.modern i hu]; exact hmod
      split
      · exact ⟨rfl, h⟩
      · split
        · exact ⟨rfl, h⟩
        refine ⟨rfl, ?_⟩
        have hleg : ((y.slots i).sid, Gen.legacy) ∈ y.srv.sessions := by
          have := h.sess.used_sess i hu
          rw [hmod] at this; exact this
        have hsrv : unsubscribe y.srv (y.slots i).sid u =
            { y.srv with rsubs := y.srv.rsubs.filter (fun r => !(r.1 == u && r.2.1 == (y.slots i).sid)),
                         rlive := y.srv.rlive.filter (fun p => !(p.1 == (y.slots i).sid && p.2 == u)) } := by
          simp only [unsubscribe, hleg, if_true]
        have hnext : monNext m ⟨.unsubscribe i u hold, .ok⟩ =
            m.setSlot i { (m.slots i) with luris := (m.slots i).luris.filter (· != u) } := by
          simp only [monNext]
          rw [if_neg (by rw [hmm]; decide)]
        show Rel seen { y with srv := unsubscribe y.srv (y.slots i).sid u } (monNext m ⟨.unsubscribe i u hold, .ok⟩)
        rw [hnext]
        refine h.legacy_frame i _ (srvOk_unsubscribe h.srvOk _ _) (sameRest_unsubscribe _ _ _) rfl rfl rfl rfl rfl rfl ?_
        refine relListen_legacy h.lis h.sess i hu (by rw [hsrv]) (by rw [hsrv]) _ rfl rfl ?_ ?_
        · intro u'
          rw [hsrv]
          simp only [List.mem_filter]
          rw [← h.lis.luris i hu hmod u']
          by_cases e : u' = u
          · subst e; simp
          · simp [e]
        · intro sid u' hne
          rw [hsrv]
          simp only [List.mem_filter]
          constructor
          · exact fun hx => hx.1
          · intro hx; exact ⟨hx, by simp [hne]⟩
    · rename_i hmod
      have hmod : (y.slots i).modern = true := by simpa using hmod
      have hmm : (m.slots i).modern = true := by rw [h.sess.modern i hu]; exact hmod
      have hnextOk : monNext m ⟨.unsubscribe i u hold, .ok⟩ =
          m.setSlot i { ((m.slots i).endListen (ridOf u)) with csubs := (m.slots i).csubs.filter (· != u) } := by
        simp only [monNext]
        rw [if_pos hmm]
      split
      · rename_i hrs
        split
        · exact ⟨rfl, h⟩
        · refine ⟨rfl, ?_⟩
          show Rel seen y (monNext m ⟨.unsubscribe i u hold, .ok⟩)
          rw [hnextOk]
          have habs : ∀ l ∈ y.srv.listens, ¬(l.sid = (y.slots i).sid ∧ l.id = ridOf u) := by
            intro l hl e
            rcases h.lis.sub_live i hu u ⟨l, hl, e.1, e.2⟩ with h1 | h1
            · simp [h1] at hrs
            · simp [h1] at hch
          have key := rel_end h i hu (ridOf u) (y.slots i)
            { ((m.slots i).endListen (ridOf u)) with csubs := (m.slots i).csubs.filter (· != u) } hu rfl rfl rfl rfl
            (fun _ _ hx => hx) (fun _ _ hx => hx)
            (fun hc => hc.congr rfl rfl rfl (endListen_frame _ _).2.2.2.2.1 (endListen_frame _ _).2.2.2.2.2.1 (endListen_frame _ _).2.2.2.2.2.2)
            (endListen_listens _ _) (endListen_frame _ _).2.2.1 (endListen_frame _ _).2.2.2.1 (endListen_frame _ _).1 (endListen_frame _ _).2.1
          rw [listenEnd_absent habs, setSlot_self] at key
          exact key
      · rename_i hrs
        have hec : ∀ (C : List Nat) o, ∃ subs, (({ (y.slots i) with rsubs := (y.slots i).rsubs.filter (· != u), cancelHeld := C } : DSlot).setCache CacheObj.read
            (Cache.step true ((y.slots i).caches CacheObj.read) (Cache.Label.unsub u)).fst).caches o =
            { (y.slots i).caches o with subs := subs } := by
          intro C o
          simp only [DSlot.setCache]
          split
          · rename_i e; subst e; exact ⟨_, rfl⟩
          · exact ⟨_, rfl⟩
        split
        · refine ⟨rfl, ?_⟩
          show Rel seen _ (m.setSlot i { (m.slots i) with csubs := (m.slots i).csubs.filter (· != u) })
          refine rel_slot_tweak h i _ _ rfl rfl rfl rfl rfl ?_ (fun hc => hc.subs rfl rfl (by simpa using hec _) rfl rfl rfl)
            rfl rfl rfl rfl rfl
          intro u' hx
          by_cases e : u' = u
          · subst e; right; simp [DSlot.setCache]
          · rcases hx with hx | hx
            · left; simp [DSlot.setCache, hx, e]
            · right; simp [DSlot.setCache, hx]
        · refine ⟨rfl, ?_⟩
          show Rel seen _ (monNext m ⟨.unsubscribe i u hold, .ok⟩)
          rw [hnextOk]
          refine rel_end h i hu (ridOf u) _ _ hu rfl rfl rfl rfl ?_ (fun _ _ hx => hx)
            (fun hc => hc.subs rfl rfl (by simpa using hec _) (endListen_frame _ _).2.2.2.2.1 (endListen_frame _ _).2.2.2.2.2.1 (endListen_frame _ _).2.2.2.2.2.2)
            (endListen_listens _ _) (endListen_frame _ _).2.2.1 (endListen_frame _ _).2.2.2.1 (endListen_frame _ _).1 (endListen_frame _ _).2.1
          intro u' hne hx
          have : u' ≠ u := fun e => hne (by rw [e])
          simp [DSlot.setCache, hx, this]

end Notify.Bridge
