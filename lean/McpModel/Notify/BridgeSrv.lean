import McpModel.Notify.BridgeInv
/-!
# Bridge, part 2: what the ops of the harness do to the server model

Every op of `sysStep` moves the server by labels of `Notify.step` (so reachability and the invariants
`InvT`, `InvS`, `InvA` carry over), and `listen` + `listenAck` back to back keep every open listen
acknowledged with a non-empty grant.
-/
namespace Notify.Bridge
open Notify Notify.Mon Notify.Sys Generated.Notify

def SrvOk (s : Server) : Prop := ∃ cap, Reach cap s

theorem SrvOk.step {s : Server} (h : SrvOk s) (l : Label) : SrvOk (step s l).1 := by
  obtain ⟨cap, hr⟩ := h
  exact ⟨cap, Reach.step l hr⟩

theorem SrvOk.invT {s : Server} (h : SrvOk s) : InvT s := by
  obtain ⟨cap, hr⟩ := h; exact (reach_inv hr).1
theorem SrvOk.invS {s : Server} (h : SrvOk s) : InvS s := by
  obtain ⟨cap, hr⟩ := h; exact (reach_inv hr).2
theorem SrvOk.invA {s : Server} (h : SrvOk s) : InvA s := by
  obtain ⟨cap, hr⟩ := h; exact reach_invA hr

theorem srvOk_init (cap : Kind → Cap) : SrvOk (init cap) := ⟨cap, Reach.init⟩

theorem srvOk_change {s} (h : SrvOk s) (f e) : SrvOk (change s f e) := h.step (.change f e)
theorem srvOk_tick {s : Server} (h : SrvOk s) (d : Nat) : SrvOk { s with now := s.now + d } := h.step (.tick d)
theorem srvOk_fireTracked {s} (h : SrvOk s) (k) : SrvOk (fireTracked s k) := h.step (.fireTracked k)
theorem srvOk_fireOrphan {s} (h : SrvOk s) (k i) : SrvOk (fireOrphan s k i) := h.step (.fireOrphan k i)
theorem srvOk_cbrun {s} (h : SrvOk s) (k) : SrvOk (cbrun s k).1 := h.step (.cbrun k)
theorem srvOk_deliver {s} (h : SrvOk s) (k i) : SrvOk (deliver s k i).1 := h.step (.deliver k i)
theorem srvOk_bind {s} (h : SrvOk s) (sid) : SrvOk (bind s sid) := h.step (.bind sid)
theorem srvOk_hello {s} (h : SrvOk s) (sid m) : SrvOk (hello s sid m) := h.step (.hello sid m)
theorem srvOk_listen {s} (h : SrvOk s) (sid id ks us) : SrvOk (listen s sid id ks us) := h.step (.listen sid id ks us)
theorem srvOk_listenAck {s} (h : SrvOk s) (sid id) : SrvOk (listenAck s sid id).1 := h.step (.listenAck sid id)
theorem srvOk_listenEnd {s} (h : SrvOk s) (sid id) : SrvOk (listenEnd s sid id) := h.step (.listenEnd sid id)
theorem srvOk_listenRefused {s} (h : SrvOk s) (sid id ks us n) : SrvOk (listenRefused s sid id ks us n) :=
  h.step (.listenRefused sid id ks us n)
theorem srvOk_subscribe {s} (h : SrvOk s) (sid id u) : SrvOk (subscribe s sid id u) := h.step (.subscribe sid id u)
theorem srvOk_unsubscribe {s} (h : SrvOk s) (sid u) : SrvOk (unsubscribe s sid u) := h.step (.unsubscribe sid u)
theorem srvOk_close {s} (h : SrvOk s) (sid) : SrvOk (close s sid) := h.step (.close sid)

theorem srvOk_fireOrphansDue (k : Kind) (fuel : Nat) : ∀ (s : Server) (acc : List Nat), SrvOk s →
    SrvOk (fireOrphansDue k fuel s acc).1 := by
  induction fuel with
  | zero => intro s acc h; exact h
  | succ n ih =>
    intro s acc h
    simp only [fireOrphansDue]
    split
    · exact ih _ _ (srvOk_fireOrphan h k _)
    · exact h

theorem srvOk_fireDue {s : Server} (h : SrvOk s) : SrvOk (fireDue s).1 := by
  unfold fireDue
  have : ∀ (l : List Kind) (acc : Server × List (Kind × Nat)), SrvOk acc.1 →
      SrvOk (l.foldl (fun (acc : Server × List (Kind × Nat)) k =>
        let s := acc.1
        let (s, f1) := match (s.ks k).tracked with
          | some (some d) => if d ≤ s.now then (fireTracked s k, [(k, d)]) else (s, [])
          | _ => (s, [])
        let (s, f2) := fireOrphansDue k ((s.ks k).orphans.length) s []
        (s, acc.2 ++ f1 ++ f2.map (fun d => (k, d)))) acc).1 := by
    intro l
    induction l with
    | nil => intro acc h; exact h
    | cons k t ih =>
      intro acc h
      simp only [List.foldl_cons]
      apply ih
      simp only []
      split
      · split
        · exact srvOk_fireOrphansDue k _ _ _ (srvOk_fireTracked h k)
        · exact srvOk_fireOrphansDue k _ _ _ h
      · exact srvOk_fireOrphansDue k _ _ _ h
  exact this _ _ h

theorem srvOk_deliverFrom (k : Kind) (old : Nat) (n : Nat) : ∀ (s : Server) (acc : List Send), SrvOk s →
    SrvOk (deliverFrom s k old n acc).1 := by
  induction n with
  | zero => intro s acc h; exact h
  | succ n ih =>
    intro s acc h
    simp only [deliverFrom]
    exact ih _ _ (srvOk_deliver h k old)

theorem srvOk_listenOrRefuse {y : State} (h : SrvOk y.srv) (sid id ks us) :
    SrvOk (listenOrRefuse y sid id ks us).1 := by
  simp only [listenOrRefuse]
  split
  · exact srvOk_listenRefused h _ _ _ _ _
  · exact srvOk_listenAck (srvOk_listen h _ _ _ _) _ _

end Notify.Bridge
