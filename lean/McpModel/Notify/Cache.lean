/-
E14 — client side: one `methodCache` of a `ClientSession` together with the list/read calls that
fill it and the notifications that invalidate it (mcp/cache.go, mcp/client.go:1229-1366,1463-1502).

Keys are cursors (list caches) or URIs (`readResourceCache`), abstracted to `Nat`.  The server side
is reduced to what matters here: a monotone version `srv k` of whatever key `k` fetches.  Labels:
  `bump p`      the server changes everything selected by `p` (a feature set, or one resource);
  `announce sc` the server sends a notification (`sc = none`: list-changed, covers every key;
                `some k`: resource-updated for key `k`); the ghost `vers` records `srv` at that
                instant — the state the notification announces;
  `handle i`    the client handles the i-th undelivered notification: `invalidate`/`invalidateKey`;
  `listStart k` `cachedListResult`/`get`: a hit returns at once, a miss reads the generation and
                creates an in-flight call;
  `serve i ttl` the server answers the i-th in-flight call from its current state;
  `fill i`      the caller resumes after `handleSend` and calls `putIfCurrent`;
  `tick d`      virtual time passes;
  `sub k` / `unsub k`  `ClientSession.Subscribe` / `Unsubscribe` enter / remove the URI in
                `cs.resourceSubs` (`subs`).  NOTHING else reads that table: a handled
                resource-updated notification invalidates the key it NAMES whether or not the client
                holds a Subscribe entry for it — the server may name a sub-resource of what was
                subscribed, the stream may have been opened below `Subscribe`, and `Unsubscribe`
                removes the entry at once while the cancellation of the stream travels
                asynchronously (an update the server sends before it processes the cancellation is
                still handled).  `handleGated` / `stepGated` describe the variant that consults the
                table; they are kept only for the counter-example in Props.lean.
Notifications are delivered in any order relative to responses (more schedules than a FIFO
connection allows — the theorems hold for all of them).

`fixed = true` is the REPAIRED cache (fixes/F07-cache-generation.patch): a fill is skipped when an
invalidation happened since the call read the generation.  `fixed = false` is the cache of the
pinned commit (every fill is stored); it is kept only for the counter-example in Props.lean.

Ghost fields: `Notif.vers`, `Fill.startMax`, `State.handled`.
Core Lean only (linked into the driver).
-/
namespace Notify.Cache

structure Entry where
  v : Nat
  ttl : Nat
  t : Nat
deriving Repr, DecidableEq

inductive Stage where
  | sent
  | responded (v ttl : Nat)
deriving Repr, DecidableEq

structure Fill where
  key : Nat
  gen : Nat
  stage : Stage
  /-- ghost: `handled key` when the call started -/
  startMax : Nat
deriving Repr, DecidableEq

structure Notif where
  scope : Option Nat
  /-- ghost: the server versions when the notification was sent -/
  vers : Nat → Nat

def Notif.covers (n : Notif) (k : Nat) : Bool :=
  match n.scope with
  | none => true
  | some k' => k' == k

structure State where
  now : Nat := 0
  srv : Nat → Nat := fun _ => 0
  entries : List (Nat × Entry) := []
  gen : Nat := 0
  fills : List Fill := []
  inbox : List Notif := []
  /-- ghost: per key, the newest version announced by a handled notification that covers it -/
  handled : Nat → Nat := fun _ => 0
  /-- `cs.resourceSubs`: the URIs `ClientSession.Subscribe` has opened a stream for (read cache only) -/
  subs : List Nat := []

inductive Out where
  /-- a list/read call returned version `v` for `key`; `hit`: served from the cache;
  ghost `startMax`: the newest version announced by notifications handled before the call started -/
  | ret (key v startMax : Nat) (hit : Bool)
deriving Repr, DecidableEq

inductive Label where
  | tick (d : Nat)
  | bump (p : Nat → Bool)
  | announce (scope : Option Nat)
  | handle (i : Nat)
  | listStart (k : Nat)
  | serve (i ttl : Nat)
  | fill (i : Nat)
  | sub (k : Nat)
  | unsub (k : Nat)

/-- `cacheEntry.isValid` and the `GetTTLMs() <= 0` test of `get`. -/
def Entry.valid (e : Entry) (now : Nat) : Bool := 0 < e.ttl && now - e.t < e.ttl

def listStart (s : State) (k : Nat) : State × List Out :=
  match s.entries.lookup k with
  | some e =>
    if e.valid s.now then (s, [.ret k e.v (s.handled k) true])
    else ({ s with entries := s.entries.filter (fun p => p.1 != k),
                   fills := s.fills ++ [⟨k, s.gen, .sent, s.handled k⟩] }, [])
  | none => ({ s with fills := s.fills ++ [⟨k, s.gen, .sent, s.handled k⟩] }, [])

def handle (s : State) (i : Nat) : State :=
  match s.inbox[i]? with
  | none => s
  | some n =>
    { s with inbox := s.inbox.eraseIdx i,
             entries := s.entries.filter (fun p => !n.covers p.1),
             gen := s.gen + 1,
             handled := fun k => if n.covers k then max (s.handled k) (n.vers k) else s.handled k }

def serve (s : State) (i ttl : Nat) : State :=
  match s.fills[i]? with
  | some f =>
    (match f.stage with
     | .sent => { s with fills := s.fills.set i { f with stage := .responded (s.srv f.key) ttl } }
     | _ => s)
  | none => s

def fill (fixed : Bool) (s : State) (i : Nat) : State × List Out :=
  match s.fills[i]? with
  | some f =>
    (match f.stage with
     | .responded v ttl =>
       ({ s with fills := s.fills.eraseIdx i,
                 entries := if !fixed || f.gen == s.gen then
                              s.entries.filter (fun p => p.1 != f.key) ++ [(f.key, ⟨v, ttl, s.now⟩)]
                            else s.entries },
        [.ret f.key v f.startMax false])
     | _ => (s, []))
  | none => (s, [])

def step (fixed : Bool) (s : State) : Label → State × List Out
  | .tick d => ({ s with now := s.now + d }, [])
  | .bump p => ({ s with srv := fun k => if p k then s.srv k + 1 else s.srv k }, [])
  | .announce sc => ({ s with inbox := s.inbox ++ [⟨sc, s.srv⟩] }, [])
  | .handle i => (handle s i, [])
  | .listStart k => listStart s k
  | .serve i ttl => (serve s i ttl, [])
  | .fill i => fill fixed s i
  | .sub k => ({ s with subs := k :: s.subs.filter (· != k) }, [])
  | .unsub k => ({ s with subs := s.subs.filter (· != k) }, [])

/-- NOT the code that exists: a handler that invalidates the read cache only when the URI the
notification names is in `cs.resourceSubs` (the notification is handled all the same: the ghost
`handled` moves). -/
def handleGated (s : State) (i : Nat) : State :=
  match s.inbox[i]? with
  | none => s
  | some n =>
    if (match n.scope with | none => true | some k => s.subs.contains k) then handle s i
    else { s with inbox := s.inbox.eraseIdx i,
                  handled := fun k => if n.covers k then max (s.handled k) (n.vers k) else s.handled k }

def stepGated (s : State) : Label → State × List Out
  | .handle i => (handleGated s i, [])
  | l => step true s l

def runGated (s : State) : List Label → State × List Out
  | [] => (s, [])
  | l :: ls =>
    let (s1, o1) := stepGated s l
    let (s2, o2) := runGated s1 ls
    (s2, o1 ++ o2)

def run (fixed : Bool) (s : State) : List Label → State × List Out
  | [] => (s, [])
  | l :: ls =>
    let (s1, o1) := step fixed s l
    let (s2, o2) := run fixed s1 ls
    (s2, o1 ++ o2)

end Notify.Cache
