import McpModel.Notify.Monitor
/-!
# The composed model of E14 as a typed function on the harness's records

One `Notify.Server` and, per client slot, five `Notify.Cache.State`s whose `bump` / `announce` /
`handle` labels are driven by the server model's outputs.  `sysStep` replays one op of the harness on
it and predicts the observation; `Driver.lean` only parses the op tokens into `Mon.Op` and renders the
predicted `Mon.Obs`.  `Bridge.lean` proves that the typed monitor accepts every behaviour of this
function.

`listen` / `subscribe` / `xlisten` of a 2026-07-28 session are the model labels `listen` (registration
section) and `listenAck` (acknowledgement write) back to back — the harness has no schedule point
between them.  With `hold` the server goroutine that runs the handler is parked right after the write
of the acknowledgement returned (the client has it) until `ackdone`: every other op can be placed in
that window.  In the model nothing is left to do for the handler there (`ackdone` is a no-op); a tree
that registers after acknowledging shows up in the window.
Core Lean only (linked into the driver).
-/
namespace Notify.Sys
open Generated.Notify Notify.Mon

def _root_.Notify.Mon.Key.obj : Key → CacheObj
  | .list f => f.cache
  | .read _ => .read

def _root_.Notify.Mon.Key.idx : Key → Nat
  | .list _ => 0
  | .read u => u

def objFSet : CacheObj → Option FSet
  | .tools => some .tools | .prompts => some .prompts | .resources => some .resources
  | .templates => some .templates | .read => none

/-- one client slot of the harness -/
structure DSlot where
  used : Bool := false
  sid : Nat := 0
  modern : Bool := false
  mask : List Kind := []
  /-- the connect-time subscriptions/listen request is held by the sending middleware -/
  gated : Bool := false
  connected : Bool := false
  /-- cs.resourceSubs -/
  rsubs : List Nat := []
  caches : CacheObj → Cache.State := fun _ => {}
  /-- list / read calls whose response is held -/
  held : List Key := []
  /-- listen handlers held right after their ack write -/
  parked : List Nat := []
  /-- listens whose notifications/cancelled is held in the client's transport -/
  cancelHeld : List Nat := []

structure State where
  srv : Server := init (fun _ => .unset)
  hook : Bool := false
  ttl : Nat := 0
  content : Nat → Nat := fun _ => 0
  slots : Slot → DSlot := fun _ => {}
  /-- URIs ServerOptions.SubscribeHandler refuses -/
  refused : List Nat := []

def State.setSlot (y : State) (i : Slot) (d : DSlot) : State :=
  { y with slots := fun j => if j = i then d else y.slots j }

def curVersionObj (y : State) (o : CacheObj) (key : Nat) : Nat :=
  match objFSet o with
  | some f => y.srv.ver f
  | none => y.content key

def curVersion (y : State) (key : Key) : Nat := curVersionObj y key.obj key.idx

def freshCaches (y : State) : CacheObj → Cache.State :=
  fun o => { now := y.srv.now, srv := fun k => curVersionObj y o k }

def DSlot.setCache (d : DSlot) (o : CacheObj) (c : Cache.State) : DSlot :=
  { d with caches := fun o' => if o' = o then c else d.caches o' }

/-- Apply a cache label to one cache of every modern, connected slot. -/
def State.cacheAll (y : State) (o : CacheObj) (l : Cache.Label) : State :=
  { y with slots := fun i =>
      let d := y.slots i
      if d.used && d.modern then d.setCache o (Cache.step true (d.caches o) l).1 else d }

def State.tickAll (y : State) (dt : Nat) : State :=
  CacheObj.all.foldl (fun y o => y.cacheAll o (.tick dt)) y

def slotOfSid (y : State) (sid : Nat) : Option Slot :=
  Slot.all.find? (fun i => (y.slots i).used && (y.slots i).sid == sid)

def whoOfSid (y : State) (sid : Nat) : Who :=
  match slotOfSid y sid with
  | some i => .slot i
  | none => .closed sid

def stampOf : Option Nat → Stamp
  | none => .plain
  | some n => .id n

/-- A client handles a list-changed notification: the caches named by the regenerated table are
invalidated (announce + handle on each). -/
def clientHandleChanged (d : DSlot) (k : Kind) : DSlot :=
  if !d.modern then d else
  (clientInvalidates k).foldl (fun d o =>
    let c := (Cache.step true (d.caches o) (.announce none)).1
    d.setCache o (Cache.step true c (.handle (c.inbox.length - 1))).1) d

def clientHandleUpdated (d : DSlot) (u : Nat) : DSlot :=
  if !d.modern || !updatedInvalidatesKey then d else
  let c := (Cache.step true (d.caches .read) (.announce (some u))).1
  d.setCache .read (Cache.step true c (.handle (c.inbox.length - 1))).1

/-- The fan-out of one notification to the sessions of `to`: the client of each handles it (`handle`);
`mk` renders what that client observed.  A session that has no slot any more shows up as `x<sid>`. -/
def deliverOne (handle : DSlot → DSlot) (mk : Who → DSlot → Send → Delivery) (acc : State × List Delivery)
    (x : Send) : State × List Delivery :=
  match slotOfSid acc.1 x.sid with
  | none => (acc.1, acc.2 ++ [mk (.closed x.sid) {} x])
  | some i => (acc.1.setSlot i (handle (acc.1.slots i)), acc.2 ++ [mk (.slot i) (acc.1.slots i) x])

def deliverAll (handle : DSlot → DSlot) (mk : Who → DSlot → Send → Delivery) (y : State) (to : List Send) :
    State × List Delivery :=
  to.foldl (deliverOne handle mk) (y, [])

def mkChanged (k : Kind) (w : Who) (d : DSlot) (x : Send) : Delivery :=
  ⟨w, .changed k, stampOf x.stamp,
   match w with
   | .slot _ => if d.mask.contains k then Hk.kind k else Hk.none
   | .closed _ => .other⟩

def mkUpdated (v : Nat) (w : Who) (_d : DSlot) (x : Send) : Delivery :=
  ⟨w, .updated, stampOf x.stamp,
   match w with
   | .slot _ => .uri v
   | .closed _ => .other⟩

def deliverChanged (y : State) (k : Kind) (to : List Send) : State × List Delivery :=
  deliverAll (clientHandleChanged · k) (mkChanged k) y to

/-- The subscribers of `u` (`to`) get a notification that names `v`; each client invalidates `v`. -/
def deliverUpdated (y : State) (v : Nat) (to : List Send) : State × List Delivery :=
  deliverAll (clientHandleUpdated · v) (mkUpdated v) y to

def fireOrphansDue (k : Kind) : Nat → Server → List Nat → Server × List Nat
  | 0, s, acc => (s, acc)
  | fuel + 1, s, acc =>
    match (s.ks k).orphans.findIdx? (fun d => d ≤ s.now) with
    | some i => fireOrphansDue k fuel (fireOrphan s k i) (acc ++ [(s.ks k).orphans.getD i 0])
    | none => (s, acc)

/-- All timers that are due fire (tracked first, then orphans, per kind). Returns (kind, deadline) of
each firing. -/
def fireDue (s : Server) : Server × List (Kind × Nat) :=
  Kind.all.foldl (fun (acc : Server × List (Kind × Nat)) k =>
    let s := acc.1
    let (s, f1) := match (s.ks k).tracked with
      | some (some d) => if d ≤ s.now then (fireTracked s k, [(k, d)]) else (s, [])
      | _ => (s, [])
    let (s, f2) := fireOrphansDue k ((s.ks k).orphans.length) s []
    (s, acc.2 ++ f1 ++ f2.map (fun d => (k, d)))) (s, [])

def tagOf (y : State) (sid id : Nat) : Tag := if genOf y.srv sid == .modern then .id id else .q

def dumpTable (y : State) (l : List (Nat × Nat)) : List TEntry :=
  l.map (fun p => ⟨whoOfSid y p.1, tagOf y p.1 p.2⟩)

def tablesOf (y : State) : Tables :=
  { kind := fun k => dumpTable y (y.srv.ks k).subs,
    uris := (List.range 3).map (fun u => (u, dumpTable y ((y.srv.rsubs.filter (fun r => r.1 == u)).map (fun r => (r.2.1, r.2.2))))),
    sess := y.srv.sessions.map (fun p => whoOfSid y p.1) }

def firstAck (outs : List Out) : Option (List Kind × List Nat) :=
  outs.findSome? (fun o => match o with | .ack _ _ ks us => some (ks, us) | _ => none)

/-- Registration section and acknowledgement write of one handler, back to back. -/
def listenBoth (s : Server) (sid id : Nat) (kinds : List Kind) (uris : List Nat) : Server × List Out :=
  listenAck (listen s sid id kinds uris) sid id

/-- … unless `SubscribeHandler` refuses one of the granted URIs: then the handler returns the error
without acknowledging, and its deferred functions undo what it had registered. -/
def listenOrRefuse (y : State) (sid id : Nat) (kinds : List Kind) (uris : List Nat) : Server × List Out :=
  let au := if resSub y.srv then uris else []
  match au.findIdx? (fun u => y.refused.contains u) with
  | some n => (listenRefused y.srv sid id kinds uris n, [])
  | none => listenBoth y.srv sid id kinds uris

/-- The first `n` writes of the newest snapshot of kind `k` (the outstanding sends from index `old` on). -/
def deliverFrom (s : Server) (k : Kind) (old : Nat) : Nat → List Send → Server × List Send
  | 0, acc => (s, acc)
  | n + 1, acc =>
    let (s1, o) := deliver s k old
    deliverFrom s1 k old n (acc ++ o.filterMap (fun x => match x with | .sent _ x => some x | _ => none))

/-- the observation of an acknowledged / refused listen, and whether its handler is now parked -/
def ackObs (a : Option (List Kind × List Nat)) (hold : Bool) : Obs × Bool :=
  match a with
  | some (ks, us) => (.ack ks us hold, hold)
  | none => (.noack, false)

/-- which outstanding write of a held fan-out goes on: the one addressed to whom the implementation's record
names (the first one if that names nobody the model knows) -/
def fsendIdx (y : State) (infl : List Send) (hint : Option Who) : Nat :=
  let hintSid : Option Nat := match hint with
    | some (.closed sid) => some sid
    | some (.slot i) => if (y.slots i).used then some (y.slots i).sid else none
    | none => none
  match hintSid with
  | some sid => (infl.findIdx? (fun x => x.sid == sid)).getD 0
  | none => 0

/-- One op on the composed model: new state and the predicted observation.  `hint`: whom the
IMPLEMENTATION's `fsend` record says its write was addressed to (the order of the fan-out loop over a
Go map is not determined: the model follows the implementation). -/
def sysStep (y : State) (op : Op) (hint : Option Who) : State × Obs :=
  match op with
  | .config ca cb cc h =>
    let cap : Kind → Cap := fun k => match k with | .tools => ca | .prompts => cb | .resources => cc
    -- the two permanent resources of the harness: two effective changes before anyone connects
    let s := (init cap) |> (change · .resources .add) |> (change · .resources .add)
    ({ srv := s, hook := h }, .ok)
  | .ttl n => ({ y with ttl := n }, .ok)
  | .change f e =>
    let eff := !(e == .noop || (e == .remove && y.srv.cnt f == 0))
    let y := { y with srv := change y.srv f e }
    (if eff then y.cacheAll f.cache (.bump (fun _ => true)) else y, .ok)
  | .advance d =>
    let y := ({ y with srv := { y.srv with now := y.srv.now + d } } : State).tickAll d
    let (s, fired) := fireDue y.srv
    let y := { y with srv := s }
    if y.hook then (y, .fired (fired.map (·.1))) else (y, .ok)
  | .cbrun k =>
    let old := (y.srv.ks k).inflight.length
    let (s, outs) := cbrun y.srv k
    (match outs with
     | [.changed _ to] =>
       -- the whole fan-out of this snapshot at once (a held fan-out of the same kind stays where it is)
       let (s, sent) := deliverFrom s k old to.length []
       let (y', ds) := deliverChanged { y with srv := s } k sent
       (y', .sent y.srv.now ds)
     | _ => (y, .none_))
  | .cbstep k =>
    if !y.hook || !(y.srv.ks k).inflight.isEmpty then (y, .refused) else
    let (s, outs) := cbrun y.srv k
    (match outs with
     | [.changed _ to] => ({ y with srv := s }, .fan to.isEmpty)
     | _ => (y, .none_))
  | .fsend k =>
    let infl := (y.srv.ks k).inflight
    if infl.isEmpty then (y, .refused) else
    -- the order of the loop over the subscriber map is not determined: follow the implementation
    let idx := fsendIdx y infl hint
    let addr := whoOfSid y (infl.getD idx ⟨0, none⟩).sid
    let (s, outs) := deliver y.srv k idx
    let sent := outs.filterMap (fun x => match x with | .sent _ x => some x | _ => none)
    let (y', ds) := deliverChanged { y with srv := s } k sent
    (y', .fsent addr y.srv.now ds (s.ks k).inflight.isEmpty)
  | .policy u refuse =>
    if refuse then ({ y with refused := if y.refused.contains u then y.refused else y.refused ++ [u] }, .ok)
    else ({ y with refused := y.refused.filter (· != u) }, .ok)
  | .connect i sid modern mask =>
    if (y.slots i).used then (y, .refused) else
    let s := hello (bind y.srv sid) sid modern
    let gated := modern && !mask.isEmpty
    let y := { y with srv := s }
    let d : DSlot := { used := true, sid := sid, modern := modern, mask := mask, gated := gated,
                       connected := !gated, caches := freshCaches y }
    (y.setSlot i d, if gated then .okListenHeld else .ok)
  | .listen i hold =>
    let d := y.slots i
    if !d.used || !d.gated then (y, .refused) else
    let (s, outs) := listenOrRefuse y d.sid 0 d.mask []
    let (o, parks) := ackObs (firstAck outs) hold
    let d := { d with gated := false, connected := true, parked := if parks then d.parked ++ [0] else d.parked }
    (({ y with srv := s } : State).setSlot i d, o)
  | .subscribe i u hold =>
    let d := y.slots i
    if !d.used || !d.connected then (y, .refused) else
    if !d.modern then
      if hold then (y, .refused) else
      if y.refused.contains u then (y, .err) else ({ y with srv := subscribe y.srv d.sid 99 u }, .ok) else
    if d.cancelHeld.contains (ridOf u) then (y, .refused) else
    if d.rsubs.contains u then (y, .noop) else
    let (s, outs) := listenOrRefuse y d.sid (ridOf u) [] [u]
    let (o, parks) := ackObs (firstAck outs) hold
    let d := { d with rsubs := d.rsubs ++ [u], parked := if parks then d.parked ++ [ridOf u] else d.parked }
    let d := d.setCache .read (Cache.step true (d.caches .read) (.sub u)).1
    (({ y with srv := s } : State).setSlot i d, o)
  | .xlisten i id kinds uris hold =>
    let d := y.slots i
    if !d.used || !d.connected || !d.modern || !isRaw id || !decide uris.Nodup || d.parked.contains id
       || d.cancelHeld.contains id
       || y.srv.listens.any (fun l => l.sid == d.sid && l.id == id) then (y, .refused) else
    let (s, outs) := listenOrRefuse y d.sid id kinds uris
    let (o, parks) := ackObs (firstAck outs) hold
    let d := { d with parked := if parks then d.parked ++ [id] else d.parked }
    (({ y with srv := s } : State).setSlot i d, o)
  | .xend i id hold =>
    let d := y.slots i
    if isSub id then (y, .badOp) else
    if !d.used || !d.connected || !d.modern || d.parked.contains id || d.cancelHeld.contains id
       || !y.srv.acked.contains (d.sid, id) then (y, .refused) else
    if hold then (y.setSlot i { d with cancelHeld := d.cancelHeld ++ [id] }, .okCancelHeld) else
    ({ y with srv := listenEnd y.srv d.sid id }, .ok)
  | .canceldone i id =>
    let d := y.slots i
    if !d.used || !d.cancelHeld.contains id then (y, .refused) else
    (({ y with srv := listenEnd y.srv d.sid id } : State).setSlot i { d with cancelHeld := d.cancelHeld.filter (· != id) }, .ok)
  | .ackdone i id =>
    let d := y.slots i
    if !d.used || !d.parked.contains id then (y, .refused) else
    -- the handler goes on: in the code that exists it has nothing left to do but wait for its end
    (y.setSlot i { d with parked := d.parked.filter (· != id) }, .ok)
  | .unsubscribe i u hold =>
    let d := y.slots i
    if !d.used || !d.connected || d.parked.contains (ridOf u) || d.cancelHeld.contains (ridOf u) then (y, .refused) else
    if !d.modern then
      if hold then (y, .refused) else
      -- `Server.unsubscribe`: the application's UnsubscribeHandler refuses ⇒ the error is returned BEFORE the table is touched
      if y.refused.contains u then (y, .err) else ({ y with srv := unsubscribe y.srv d.sid u }, .ok) else
    if !d.rsubs.contains u then (if hold then (y, .refused) else (y, .ok)) else
    let d := { d with rsubs := d.rsubs.filter (· != u) }
    let d := d.setCache .read (Cache.step true (d.caches .read) (.unsub u)).1
    if hold then (y.setSlot i { d with cancelHeld := d.cancelHeld ++ [ridOf u] }, .okCancelHeld) else
    (({ y with srv := listenEnd y.srv d.sid (ridOf u) } : State).setSlot i d, .ok)
  | .close i =>
    let d := y.slots i
    if !d.used || !d.connected || !d.held.isEmpty || !d.parked.isEmpty || !d.cancelHeld.isEmpty then (y, .refused) else
    (({ y with srv := close y.srv d.sid } : State).setSlot i {}, .ok)
  | .rupdated u v =>
    let y := { y with content := fun k => if k == v then y.content v + 1 else y.content k }
    let y := y.cacheAll .read (.bump (fun k => k == v))
    let (y', ds) := deliverUpdated y v (updList y.srv u)
    (y', .sent y.srv.now ds)
  | .list i key mode =>
    let d := y.slots i
    let o := key.obj
    let k := key.idx
    if !d.used || !d.connected || d.held.contains key then (y, .refused) else
    if !d.modern then
      -- no cache under the legacy protocol: every call is answered by the server
      let v := curVersion y key
      match mode with
      | .n => (y, .ret v false)
      | .post =>
        let c1 : Cache.State := { d.caches o with fills := (d.caches o).fills ++ [⟨k, 0, .responded v y.ttl, 0⟩] }
        (y.setSlot i { (d.setCache o c1) with held := d.held ++ [key] }, .held v)
      | .pre =>
        let c1 : Cache.State := { d.caches o with fills := (d.caches o).fills ++ [⟨k, 0, .sent, 0⟩] }
        (y.setSlot i { (d.setCache o c1) with held := d.held ++ [key] }, .pre)
    else
      let (c1, o1) := Cache.step true (d.caches o) (.listStart k)
      match o1 with
      | [.ret _ v _ _] => (y.setSlot i (d.setCache o c1), .ret v true)
      | _ =>
        let idx := c1.fills.length - 1
        match mode with
        | .pre => (y.setSlot i { (d.setCache o c1) with held := d.held ++ [key] }, .pre)
        | .post =>
          let c2 := (Cache.step true c1 (.serve idx y.ttl)).1
          (y.setSlot i { (d.setCache o c2) with held := d.held ++ [key] }, .held (c1.srv k))
        | .n =>
          let c2 := (Cache.step true c1 (.serve idx y.ttl)).1
          let (c3, _) := Cache.step true c2 (.fill idx)
          (y.setSlot i (d.setCache o c3), .ret (c1.srv k) false)
  | .send i key =>
    let d := y.slots i
    let o := key.obj
    let k := key.idx
    let cst := d.caches o
    (match cst.fills.findIdx? (fun f => f.key == k && f.stage == .sent) with
     | some idx =>
       if !d.used || !d.held.contains key then (y, .refused) else
       if !d.modern then
         let v := curVersion y key
         (y.setSlot i (d.setCache o { cst with fills := cst.fills.set idx ⟨k, 0, .responded v y.ttl, 0⟩ }), .held v)
       else
         (y.setSlot i (d.setCache o (Cache.step true cst (.serve idx y.ttl)).1), .held (cst.srv k))
     | none => (y, .refused))
  | .fill i key =>
    let d := y.slots i
    let o := key.obj
    let k := key.idx
    let cst := d.caches o
    (match cst.fills.findIdx? (fun f => f.key == k && f.stage != .sent) with
     | some idx =>
       if !d.used || !d.held.contains key then (y, .refused) else
       let v := match (cst.fills.getD idx ⟨0, 0, .sent, 0⟩).stage with | .responded v _ => v | _ => 0
       let d := { d with held := d.held.filter (· != key) }
       if !d.modern then
         (y.setSlot i (d.setCache o { cst with fills := cst.fills.eraseIdx idx }), .ret v false)
       else
         (y.setSlot i (d.setCache o (Cache.step true cst (.fill idx)).1), .ret v false)
     | none => (y, .refused))
  | .tables => (y, .tables (tablesOf y))
  | .fin => (y, .ok)
  | .bad => (y, .badOp)

end Notify.Sys
