import McpModel.Notify.Cache
/-!
# E14, client caches with several pages: the harness ops `pages …` on the model `Notify.Cache` (keys = cursors)
and the property monitor on the implementation's observations.  Core Lean only (linked into `drv_notify`).
-/
namespace Notify.Pages
open Notify.Cache

inductive Op where
  | list (k : Nat)
  | listheld (k : Nat)
  | fill (k : Nat)
  | change
  | tick (d : Nat)
  | ttl (n : Nat)
deriving DecidableEq, Repr

inductive Obs where
  | ok
  | ret (v : Nat) (hit : Bool)
  | held (v : Nat)
  | handled (n : Nat)
  | refused
deriving DecidableEq, Repr

structure MState where
  c : Cache.State := {}
  ttl : Nat := 0

def heldIdx (c : Cache.State) (k : Nat) : Option Nat :=
  c.fills.findIdx? (fun f => f.key == k && f.stage != .sent)

/-- the model: one harness op = a few labels of `Cache.step true` -/
def step (m : MState) : Op → MState × Obs
  | .ttl n => ({ m with ttl := n }, .ok)
  | .tick d => ({ m with c := (Cache.step true m.c (.tick d)).1 }, .ok)
  | .change =>
    -- every tool replaced (the server's state of every page moves), one debounced notification, sent and handled; 20 ms
    let c := (Cache.step true m.c (.bump (fun _ => true))).1
    let c := (Cache.step true c (.announce none)).1
    let c := (Cache.step true c (.handle (c.inbox.length - 1))).1
    ({ m with c := (Cache.step true c (.tick 20)).1 }, .handled 1)
  | .list k =>
    match Cache.step true m.c (.listStart k) with
    | (c, .ret _ v _ hit :: _) => ({ m with c := c }, .ret v hit)
    | (c, []) =>
      let i := c.fills.length - 1
      let c := (Cache.step true c (.serve i m.ttl)).1
      match Cache.step true c (.fill i) with
      | (c, .ret _ v _ _ :: _) => ({ m with c := c }, .ret v false)
      | (c, []) => ({ m with c := c }, .refused)
  | .listheld k =>
    if (heldIdx m.c k).isSome then (m, .refused) else
    match Cache.step true m.c (.listStart k) with
    | (c, .ret _ v _ hit :: _) => ({ m with c := c }, .ret v hit)
    | (c, []) =>
      let i := c.fills.length - 1
      ({ m with c := (Cache.step true c (.serve i m.ttl)).1 }, .held (c.srv k))
  | .fill k =>
    match heldIdx m.c k with
    | none => (m, .refused)
    | some i =>
      match Cache.step true m.c (.fill i) with
      | (c, .ret _ v _ _ :: _) => ({ m with c := c }, .ret v false)
      | (c, []) => ({ m with c := c }, .refused)

/-! ## the monitor: its state is the history of the ops (how many changes the client has been told about, and for
every held call how many it had been told about when it started) -/

inductive Clause where
  /-- a call started after the client handled list_changed was answered with a page from before that change -/
  | stalePage
  /-- a change of the list (a burst) and the client handled no notification -/
  | notNotified
deriving DecidableEq, Repr

structure Mon where
  told : Nat := 0
  starts : List (Nat × Nat) := []

def monStep (m : Mon) (op : Op) (obs : Obs) : Mon × Option Clause :=
  match op, obs with
  | .change, .handled n => ({ m with told := m.told + 1 }, if n == 0 then some .notNotified else none)
  | .change, _ => ({ m with told := m.told + 1 }, some .notNotified)
  | .list _, .ret v _ => (m, if v < m.told then some .stalePage else none)
  | .listheld k, .held _ => ({ m with starts := (k, m.told) :: m.starts }, none)
  | .listheld _, .ret v _ => (m, if v < m.told then some .stalePage else none)
  | .fill k, .ret v _ =>
    let st := (m.starts.lookup k).getD 0
    ({ m with starts := m.starts.filter (·.1 != k) }, if v < st then some .stalePage else none)
  | _, _ => (m, none)

end Notify.Pages
