import McpModel.Notify.SoundTables
/-!
# Clause soundness of the C18 monitor, part 7: client caches — the monitor's `maxHandled` is history
(`maxHandled_history`), and the clauses about a call answered with a version older than a handled notification
-/
namespace Notify.Sound
open Notify Notify.Mon Generated.Notify

/-! ### client caches: "a list or read issued after it has handled such a notification reflects server state at
least as new as that change" -/

/-- the record starts a new case or a new session in slot `i`, or ends the session of slot `i` -/
def Resets (r : Rec) (i : Slot) : Prop :=
  (∃ a b c h, r.op = .config a b c h) ∨ (∃ sid mo mask, r.op = .connect i sid mo mask ∧ r.obs.isOk = true) ∨
  (r.op = .close i ∧ r.obs = .ok)

/-- the session of slot `i` is the same at the positions `p < q` -/
def SameSession (tr : Trace) (p q : Nat) (i : Slot) : Prop :=
  ∀ j r, p < j → j < q → tr[j]? = some r → ¬ Resets r i

/-- the client of slot `i` handled, in record `r`, a notification that covers `key` -/
def Delivers (r : Rec) (i : Slot) (key : Key) : Prop :=
  (∃ k ds, IsFanout r k ds ∧ key ∈ keysOfKind k ∧ ∃ x ∈ ds, x.slot = i) ∨
  (∃ u v ds, IsUpdated r u v ds ∧ key = .read v ∧ ∃ x ∈ ds, x.slot = i)

/-- the version a notification handled in record `p` announces: the server's state when it was delivered -/
def announcedAt (tr : Trace) (p : Nat) (key : Key) : Nat := (truthAt tr (p + 1)).verOfKey key

/-- a call that was started and answered in record `q` by the session that handled a notification covering the key
in an earlier record returns a version at least as new as the announced one -/
def P_fresh_call (tr : Trace) : Prop :=
  ∀ (q : Nat) (i : Slot) (key : Key) (mode : Mode) (v : Nat) (hit : Bool),
    tr[q]? = some (⟨.list i key mode, .ret v hit⟩ : Rec) →
    ∀ (p : Nat) (rp : Rec), p < q → tr[p]? = some rp → Delivers rp i key → SameSession tr p q i → announcedAt tr p key ≤ v

theorem any_slot {ds : List SDelivery} {i : Slot} : ds.any (·.slot == i) = true ↔ ∃ x ∈ ds, x.slot = i := by
  simp [List.any_eq_true]

theorem verOfKey_agrees {m : MState} {t : Truth} (hA : Agrees m t) (key : Key) : m.verOfKey key = t.verOfKey key := by
  cases key <;> simp [MState.verOfKey, Truth.verOfKey, hA.ver, hA.content]

theorem max_cases (a b : Nat) : max a b = a ∨ max a b = b := by
  rcases Nat.le_total a b with h | h
  · right; exact Nat.max_eq_right h
  · left; exact Nat.max_eq_left h

theorem mh_endListen (d : MSlot) (x : Nat) : (d.endListen x).maxHandled = d.maxHandled := by
  simp only [MSlot.endListen]; split <;> rfl
theorem mh_addListen (d : MSlot) (id : Nat) (ks : List Kind) (us : List Nat) : (d.addListen id ks us).maxHandled = d.maxHandled := by
  simp only [MSlot.addListen]; split <;> rfl
theorem mh_changeSlot (k : Kind) (b mx : Bool) (d : MSlot) : (changeSlot k b mx d).maxHandled = d.maxHandled := by
  simp only [changeSlot]
  generalize (if mx = true then addNew d.rmMixed k else d.rmMixed.filter (· != k)) = rm
  split <;> split <;> rfl

theorem mh_foldl {α} (f : MSlot → α → MSlot) (hf : ∀ d a, (f d a).maxHandled = d.maxHandled) (l : List α) (d : MSlot) :
    (l.foldl f d).maxHandled = d.maxHandled := by
  induction l generalizing d with
  | nil => rfl
  | cons a t ih => simp only [List.foldl_cons]; rw [ih, hf]

theorem mh_tbNext (m : MState) (tb : Tables) (i : Slot) : ((tbNext m tb).slots i).maxHandled = (m.slots i).maxHandled := by
  simp only [tbNext]
  split
  · rfl
  · rw [mh_foldl, mh_foldl]
    · intro d k; split <;> rfl
    · intro d u; split <;> rfl

theorem mh_setSlot (m : MState) (c i : Slot) (d : MSlot) (hd : d.maxHandled = (m.slots c).maxHandled) :
    ((m.setSlot c d).slots i).maxHandled = (m.slots i).maxHandled := by
  simp only [MState.setSlot]; split
  · rename_i e; rw [hd, e]
  · rfl

theorem mh_setSlot' (m : MState) (c i : Slot) (d : MSlot) (key : Key) (hd : d.maxHandled = (m.slots c).maxHandled) :
    ((m.setSlot c d).slots i).maxHandled key = (m.slots i).maxHandled key := congrFun (mh_setSlot m c i d hd) key

/-- closes `((m.setSlot c d).slots i).maxHandled key = (m.slots i).maxHandled key` for the slot updates that leave
`maxHandled` alone -/
macro "mh_tac" : tactic =>
  `(tactic| first
    | rfl
    | (apply mh_setSlot'; first | rfl | exact mh_addListen _ _ _ _ | exact mh_endListen _ _))

theorem not_resets_of {r : Rec} {i : Slot} (h1 : ∀ a b c h, r.op ≠ .config a b c h) (h2 : ∀ j sid mo mask, r.op ≠ .connect j sid mo mask)
    (h3 : ∀ j, r.op ≠ .close j) : ¬ Resets r i := by
  rintro (⟨a, b, c, h, e⟩ | ⟨sid, mo, mask, e, _⟩ | ⟨e, _⟩)
  · exact h1 _ _ _ _ e
  · exact h2 _ _ _ _ e
  · exact h3 _ e

/-- how the monitor's slot moves when its client handles a list-changed notification of kind `k` -/
theorem mh_gotChanged (m : MState) (k : Kind) (d : MSlot) (key : Key) :
    (gotChanged m k d).maxHandled key = if key ∈ keysOfKind k then max (d.maxHandled key) (m.verOfKey key) else d.maxHandled key := rfl

theorem mh_cbNext (m : MState) (k : Kind) (ds : List SDelivery) (i : Slot) (key : Key) :
    ((cbNext m k ds).slots i).maxHandled key =
      if ds.any (·.slot == i) = true ∧ key ∈ keysOfKind k then max ((m.slots i).maxHandled key) (m.verOfKey key)
      else (m.slots i).maxHandled key := by
  simp only [cbNext]
  by_cases hg : ds.any (·.slot == i) = true
  · simp only [hg, if_true, true_and, mh_gotChanged]
  · have hg' : ds.any (·.slot == i) = false := by simpa using hg
    simp only [hg', Bool.false_eq_true, if_false, false_and]
    split <;> rfl

theorem mh_fsNext (m : MState) (k : Kind) (fan : MFan) (ds : List SDelivery) (done : Bool) (i : Slot) (key : Key) :
    ((fsNext m k fan ds done).slots i).maxHandled key =
      if ds.any (·.slot == i) = true ∧ key ∈ keysOfKind k then max ((m.slots i).maxHandled key) (m.verOfKey key)
      else (m.slots i).maxHandled key := by
  by_cases hg : ds.any (·.slot == i) = true
  · cases done
    · simp only [fsNext, Bool.false_eq_true, if_false, hg, if_true, true_and, mh_gotChanged]
    · simp only [fsNext, if_true, hg, true_and]
      split <;> simp only [mh_gotChanged]
  · have hg' : ds.any (·.slot == i) = false := by simpa using hg
    cases done
    · simp only [fsNext, Bool.false_eq_true, if_false, hg', false_and]
    · simp only [fsNext, if_true, hg', Bool.false_eq_true, if_false, false_and]
      split <;> rfl

theorem mh_ruNext (m1 : MState) (v : Nat) (ds : List SDelivery) (i : Slot) (key : Key) :
    ((ruNext m1 v ds).slots i).maxHandled key =
      if ds.any (·.slot == i) = true ∧ key = .read v then max ((m1.slots i).maxHandled key) (m1.verOfKey key)
      else (m1.slots i).maxHandled key := by
  simp only [ruNext]
  by_cases hg : ds.any (·.slot == i) = true
  · simp only [hg, if_true, true_and]
    split <;> (simp only [MSlot.handled, List.mem_singleton])
  · have hg' : ds.any (·.slot == i) = false := by simpa using hg
    simp only [hg', Bool.false_eq_true, if_false, false_and]

/-- how one record moves the newest version the monitor has seen a slot handle for a key -/
theorem maxHandled_step {m : MState} {t : Truth} (hA : Agrees m t) (r : Rec) (i : Slot) (key : Key) :
    (Resets r i ∧ ((monNext m r).slots i).maxHandled key = 0) ∨
    (¬ Resets r i ∧ (((monNext m r).slots i).maxHandled key = (m.slots i).maxHandled key ∨
      (Delivers r i key ∧ ((monNext m r).slots i).maxHandled key = (truthStep t r).verOfKey key))) := by
  obtain ⟨op, obs⟩ := r
  -- the ops that never reset a slot and leave `maxHandled` alone
  have same : (∀ a b c h, op ≠ .config a b c h) → (∀ j sid mo mask, op ≠ .connect j sid mo mask) → (∀ j, op ≠ .close j) →
      ((monNext m ⟨op, obs⟩).slots i).maxHandled key = (m.slots i).maxHandled key →
      (Resets ⟨op, obs⟩ i ∧ ((monNext m ⟨op, obs⟩).slots i).maxHandled key = 0) ∨
      (¬ Resets ⟨op, obs⟩ i ∧ (((monNext m ⟨op, obs⟩).slots i).maxHandled key = (m.slots i).maxHandled key ∨
        (Delivers ⟨op, obs⟩ i key ∧ ((monNext m ⟨op, obs⟩).slots i).maxHandled key = (truthStep t ⟨op, obs⟩).verOfKey key))) :=
    fun h1 h2 h3 he => Or.inr ⟨not_resets_of h1 h2 h3, Or.inl he⟩
  cases op with
  | config ca cb cc hk => exact Or.inl ⟨Or.inl ⟨_, _, _, _, rfl⟩, rfl⟩
  | connect c sid mo mask =>
    by_cases hok : obs.isOk = true
    · by_cases e : c = i
      · subst e
        refine Or.inl ⟨Or.inr (Or.inl ⟨sid, mo, mask, rfl, hok⟩), ?_⟩
        simp [monNext, hok, MState.setSlot]
      · refine Or.inr ⟨?_, Or.inl ?_⟩
        · rintro (⟨_, _, _, _, e2⟩ | ⟨_, _, _, e2, _⟩ | ⟨e2, _⟩)
          · cases e2
          · simp only [Op.connect.injEq] at e2; exact e e2.1
          · cases e2
        · have : i ≠ c := fun e2 => e e2.symm
          simp [monNext, hok, MState.setSlot, this]
    · refine Or.inr ⟨?_, Or.inl ?_⟩
      · rintro (⟨_, _, _, _, e2⟩ | ⟨_, _, _, _, e3⟩ | ⟨e2, _⟩)
        · cases e2
        · exact hok e3
        · cases e2
      · simp [monNext, hok]
  | close c =>
    by_cases hok : obs = .ok
    · subst hok
      by_cases e : c = i
      · subst e
        exact Or.inl ⟨Or.inr (Or.inr ⟨rfl, rfl⟩), by simp [monNext, MState.setSlot]⟩
      · refine Or.inr ⟨?_, Or.inl ?_⟩
        · rintro (⟨_, _, _, _, e2⟩ | ⟨_, _, _, e2, _⟩ | ⟨e2, _⟩)
          · cases e2
          · cases e2
          · simp only [Op.close.injEq] at e2; exact e e2
        · have : i ≠ c := fun e2 => e e2.symm
          simp [monNext, MState.setSlot, this]
    · refine Or.inr ⟨?_, Or.inl ?_⟩
      · rintro (⟨_, _, _, _, e2⟩ | ⟨_, _, _, e2, _⟩ | ⟨_, e3⟩)
        · cases e2
        · cases e2
        · exact hok e3
      · cases obs <;> first | rfl | exact absurd rfl hok
  | ttl n => exact same (by simp) (by simp) (by simp) (by cases obs <;> rfl)
  | advance d => exact same (by simp) (by simp) (by simp) (by cases obs <;> rfl)
  | bad => exact same (by simp) (by simp) (by simp) (by cases obs <;> rfl)
  | fin => exact same (by simp) (by simp) (by simp) (by cases obs <;> rfl)
  | send c k => exact same (by simp) (by simp) (by simp) (by cases obs <;> rfl)
  | policy u rf => exact same (by simp) (by simp) (by simp) (by cases obs <;> rfl)
  | cbstep k =>
    refine same (by simp) (by simp) (by simp) ?_
    cases obs <;> try rfl
    rename_i done
    show ((cbStepNext m k done).slots i).maxHandled key = _
    cases done
    · simp only [cbStepNext, Bool.false_eq_true, if_false]; split <;> rfl
    · simp only [cbStepNext, if_true]
      split
      · split <;> rfl
      · split <;> rfl
  | change f e =>
    refine same (by simp) (by simp) (by simp) ?_
    cases obs <;> try rfl
    show ((monChange m f e).slots i).maxHandled key = _
    simp only [monChange]
    split
    · rfl
    · split
      · rfl
      · exact congrFun (mh_changeSlot _ _ _ _) key
  | tables =>
    refine same (by simp) (by simp) (by simp) ?_
    cases obs <;> try rfl
    exact congrFun (mh_tbNext _ _ _) key
  | list c k mode =>
    refine same (by simp) (by simp) (by simp) ?_
    cases obs <;> try rfl
    all_goals
      simp only [monNext]
      split
      all_goals first | rfl | mh_tac
  | fill c k =>
    refine same (by simp) (by simp) (by simp) ?_
    cases obs <;> try rfl
    mh_tac
  | listen c hold =>
    refine same (by simp) (by simp) (by simp) ?_
    cases obs <;> try rfl
    mh_tac
  | xlisten c id ks us hold =>
    refine same (by simp) (by simp) (by simp) ?_
    cases obs <;> try rfl
    · simp only [monNext]; split
      · mh_tac
      · rfl
    · mh_tac
  | xend c id hold =>
    refine same (by simp) (by simp) (by simp) ?_
    cases obs <;> try rfl
    mh_tac
  | canceldone c id =>
    refine same (by simp) (by simp) (by simp) ?_
    cases obs <;> try rfl
    mh_tac
  | ackdone c id =>
    refine same (by simp) (by simp) (by simp) ?_
    simp only [monNext]; split
    · mh_tac
    · rfl
  | subscribe c u hold =>
    refine same (by simp) (by simp) (by simp) ?_
    simp only [monNext]
    split
    · split
      · split
        · mh_tac
        · rfl
      · rfl
    · split
      · mh_tac
      · mh_tac
      · rfl
  | unsubscribe c u hold =>
    refine same (by simp) (by simp) (by simp) ?_
    cases obs <;> try rfl
    · simp only [monNext]; split
      · mh_tac
      · mh_tac
    · mh_tac
  | cbrun k =>
    have hnr : ¬ Resets ⟨.cbrun k, obs⟩ i := not_resets_of (by simp) (by simp) (by simp)
    refine Or.inr ⟨hnr, ?_⟩
    cases obs <;> try exact Or.inl rfl
    rename_i tt l
    simp only [monNext]
    cases hs : slotDeliveries l with
    | none => exact Or.inl rfl
    | some ds =>
      simp only []
      rw [mh_cbNext]
      split
      · rename_i hc
        rcases max_cases ((m.slots i).maxHandled key) (m.verOfKey key) with e | e
        · exact Or.inl e
        · right
          refine ⟨Or.inl ⟨k, ds, Or.inl ⟨tt, l, rfl, hs⟩, hc.2, any_slot.1 hc.1⟩, ?_⟩
          rw [e, verOfKey_agrees hA]; rfl
      · exact Or.inl rfl
  | fsend k =>
    have hnr : ¬ Resets ⟨.fsend k, obs⟩ i := not_resets_of (by simp) (by simp) (by simp)
    refine Or.inr ⟨hnr, ?_⟩
    cases obs <;> try exact Or.inl rfl
    rename_i a tt l b
    simp only [monNext]
    cases hf : m.fans k with
    | none => exact Or.inl rfl
    | some fan =>
      cases hs : slotDeliveries l with
      | none => exact Or.inl rfl
      | some ds =>
        simp only []
        rw [mh_fsNext]
        split
        · rename_i hc
          rcases max_cases ((m.slots i).maxHandled key) (m.verOfKey key) with e | e
          · exact Or.inl e
          · right
            refine ⟨Or.inl ⟨k, ds, Or.inr ⟨a, tt, l, b, rfl, hs⟩, hc.2, any_slot.1 hc.1⟩, ?_⟩
            rw [e, verOfKey_agrees hA]; rfl
        · exact Or.inl rfl
  | rupdated u v =>
    have hnr : ¬ Resets ⟨.rupdated u v, obs⟩ i := not_resets_of (by simp) (by simp) (by simp)
    refine Or.inr ⟨hnr, ?_⟩
    cases obs <;> try exact Or.inl rfl
    rename_i tt l
    simp only [monNext]
    cases hs : slotDeliveries l with
    | none => exact Or.inl rfl
    | some ds =>
      simp only []
      rw [mh_ruNext]
      split
      · rename_i hc
        rcases max_cases (((ruContent m v).slots i).maxHandled key) ((ruContent m v).verOfKey key) with e | e
        · exact Or.inl e
        · right
          refine ⟨Or.inr ⟨u, v, ds, ⟨tt, l, rfl, hs⟩, hc.2, any_slot.1 hc.1⟩, ?_⟩
          rw [e, hc.2]
          simp only [MState.verOfKey, ruContent, Truth.verOfKey, truthStep, hA.content]
      · exact Or.inl rfl


/-- a snoc induction principle -/
theorem snoc_induction {α} {P : List α → Prop} (h0 : P []) (hs : ∀ l a, P l → P (l ++ [a])) : ∀ l, P l := by
  intro l
  have : ∀ n (l : List α), l.length = n → P l := by
    intro n
    induction n with
    | zero => intro l hl; rw [List.length_eq_zero_iff.1 hl]; exact h0
    | succ n ih =>
      intro l hl
      have hne : l ≠ [] := by intro h; rw [h] at hl; cases hl
      rw [← List.dropLast_concat_getLast hne]
      exact hs _ _ (ih _ (by simp [hl]))
  exact this _ l rfl

theorem get_snoc_lt (tr : Trace) (r : Rec) {p : Nat} (hp : p < tr.length) : (tr ++ [r])[p]? = tr[p]? := by
  rw [List.getElem?_append_left hp]

theorem truthAt_snoc_le (tr : Trace) (r : Rec) {p : Nat} (hp : p ≤ tr.length) : truthAt (tr ++ [r]) p = truthAt tr p := by
  simp only [truthAt]
  rw [List.take_append_of_le_length hp]

theorem announcedAt_snoc (tr : Trace) (r : Rec) {p : Nat} (hp : p < tr.length) (key : Key) :
    announcedAt (tr ++ [r]) p key = announcedAt tr p key := by
  simp only [announcedAt]
  rw [truthAt_snoc_le tr r (by omega)]

theorem sameSession_snoc {tr : Trace} {r : Rec} {p : Nat} {i : Slot} (h : SameSession tr p tr.length i) (hr : ¬ Resets r i) :
    SameSession (tr ++ [r]) p (tr.length + 1) i := by
  intro j rj hj1 hj2 hget
  by_cases e : j < tr.length
  · rw [get_snoc_lt tr r e] at hget
    exact h j rj hj1 e hget
  · have : j = tr.length := by omega
    subst this
    rw [get_snoc_len] at hget
    simp only [Option.some.injEq] at hget
    rw [← hget]; exact hr

theorem sameSession_of_snoc {tr : Trace} {r : Rec} {p q : Nat} {i : Slot} (hq : q ≤ tr.length) :
    SameSession (tr ++ [r]) p q i ↔ SameSession tr p q i := by
  constructor
  · intro h j rj hj1 hj2 hget
    exact h j rj hj1 hj2 (by rw [get_snoc_lt tr r (by omega)]; exact hget)
  · intro h j rj hj1 hj2 hget
    rw [get_snoc_lt tr r (by omega)] at hget
    exact h j rj hj1 hj2 hget

/-- **history of `maxHandled`**: the newest version the monitor has seen the session of a slot handle for a key is
the version announced by a notification covering the key that this very session handled in an earlier record -/
theorem maxHandled_history (tr : Trace) (i : Slot) (key : Key) :
    ((monAfter {} tr).slots i).maxHandled key = 0 ∨
    ∃ p rp, p < tr.length ∧ tr[p]? = some rp ∧ Delivers rp i key ∧ SameSession tr p tr.length i ∧
      announcedAt tr p key = ((monAfter {} tr).slots i).maxHandled key := by
  refine snoc_induction (P := fun tr => ((monAfter {} tr).slots i).maxHandled key = 0 ∨
    ∃ p rp, p < tr.length ∧ tr[p]? = some rp ∧ Delivers rp i key ∧ SameSession tr p tr.length i ∧
      announcedAt tr p key = ((monAfter {} tr).slots i).maxHandled key) ?_ ?_ tr
  · left; rfl
  · intro tr r ih
    rw [monAfter_snoc]
    rcases maxHandled_step (monAfter_truth tr) r i key with ⟨_, h0⟩ | ⟨hnr, hsame | ⟨hd, hnew⟩⟩
    · exact Or.inl h0
    · rw [hsame]
      rcases ih with h0 | ⟨p, rp, hp, hget, hdel, hss, hann⟩
      · exact Or.inl h0
      · right
        refine ⟨p, rp, by simp; omega, by rw [get_snoc_lt tr r hp]; exact hget, hdel, ?_, by rw [announcedAt_snoc tr r hp]; exact hann⟩
        simp only [List.length_append, List.length_singleton]
        exact sameSession_snoc hss hnr
    · right
      refine ⟨tr.length, r, by simp, get_snoc_len tr r, hd, ?_, ?_⟩
      · intro j rj hj1 hj2 _
        simp only [List.length_append, List.length_singleton] at hj2
        omega
      · rw [hnew, ← truth_snoc]
        simp only [announcedAt, truthAt]
        rw [List.take_of_length_le (by simp)]

/-- a call answered at once with a version older than one the session had handled: the three clauses that say so -/
theorem sound_fresh_call (tr : Trace) (r : Rec) (c : Clause) (h : Reports tr r c)
    (hc : (∃ b, c = .staleRead b) ∨ c = .f7Stale ∨ c = .staleCall)
    (hl : ∃ i key mode v hit, r = ⟨.list i key mode, .ret v hit⟩) : ¬ P_fresh_call (tr ++ [r]) := by
  intro hP
  obtain ⟨i, key, mode, v, hit, er⟩ := hl
  have hs : srcOf c = .cache := by rcases hc with ⟨_, e⟩ | e | e <;> rw [e] <;> rfl
  rcases cache_source h hs with ⟨i', key', mode', v', hit', er', hck⟩ | ⟨_, _, _, _, er', _⟩
  · rw [er] at er'
    simp only [Rec.mk.injEq, Op.list.injEq, Obs.ret.injEq] at er'
    obtain ⟨⟨rfl, rfl, rfl⟩, rfl, rfl⟩ := er'
    -- the three clauses are raised only when the version is older than the handled one
    have hlt : v < ((monAfter {} tr).slots i).maxHandled key := by
      simp only [checkRet] at hck
      split at hck
      · assumption
      · split at hck
        · simp only [Option.some.injEq] at hck
          rcases hc with ⟨_, e⟩ | e | e <;> rw [e] at hck <;> cases hck
        · simp at hck
    rcases maxHandled_history tr i key with h0 | ⟨p, rp, hp, hget, hdel, hss, hann⟩
    · omega
    · have := hP tr.length i key mode v hit (by rw [get_snoc_len, er]) p rp hp (by rw [get_snoc_lt tr r hp]; exact hget) hdel
        ((sameSession_of_snoc (Nat.le_refl _)).2 hss)
      rw [announcedAt_snoc tr r hp, hann] at this
      omega
  · rw [er] at er'; cases er'


theorem sound_staleRead (tr : Trace) (r : Rec) (b : Bool) (h : Reports tr r (.staleRead b)) : ¬ P_fresh_call (tr ++ [r]) := by
  refine sound_fresh_call tr r _ h (Or.inl ⟨b, rfl⟩) ?_
  rcases cache_source h rfl with ⟨i, key, mode, v, hit, er, _⟩ | ⟨_, _, _, _, _, _, e⟩
  · exact ⟨i, key, mode, v, hit, er⟩
  · cases e

theorem sound_f7Stale (tr : Trace) (r : Rec) (h : Reports tr r .f7Stale) : ¬ P_fresh_call (tr ++ [r]) := by
  refine sound_fresh_call tr r _ h (Or.inr (Or.inl rfl)) ?_
  rcases cache_source h rfl with ⟨i, key, mode, v, hit, er, _⟩ | ⟨_, _, _, _, _, _, e⟩
  · exact ⟨i, key, mode, v, hit, er⟩
  · cases e

end Notify.Sound
