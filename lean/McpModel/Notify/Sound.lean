import McpModel.Notify.SoundEnd
/-!
# E14: clause soundness of the typed C18 monitor

For every clause the monitor (`Mon.monCheck`, Monitor.lean) can report, the corresponding clause of the
property is a predicate `P_…` on observation traces (lists of records: the harness's op and the
IMPLEMENTATION's observation), written from the property text over the ground truth of the trace
(`truth`, SoundTruth.lean: who is connected, which listens are live and what they were granted, the
configuration, the versions) — no monitor state, no model.  `sound_<clause>` (SoundFan, SoundUpd,
SoundTables, SoundCache, SoundEnd): whenever the monitor reports the clause on the record that extends a
trace, the predicate fails on the extended trace.  `monitor_sound` packages them.

The monitor's state is history: `monAfter_truth` (its copies of the ground truth), `maxHandled_history`
(the newest handled version of a key was announced by a notification this session handled),
`owed_history` (a debt is owed in the sense of the property: a change to be announced, the same session
since, no notification of the kind since, entitled at every snapshot since), `fans_history`.

Covered: 35 of the 41 clause constructors (all that decide the seeded changes C18-m1…m8 and the findings F7,
F19, F35).  Not covered (`Covered c = False`): `twice` and `staleCall` are proved for one of their two
sources each (`sound_twice_partial`: a complete fan-out; `sound_staleCall_partial`: a call answered at
once) — the other source needs the history of a held fan-out's `served` list resp. of `starts`; likewise
`fanNotEntitled`, `fanBadStamp`, `fanDropped` (history of `MFan.expect`) and `hitAfterInvalidate` (history of
`invalidated`).  For these the only assurance is the bridge (no alarm on the model) and the seeded runs.
-/
namespace Notify.Sound
open Notify Notify.Mon Generated.Notify

theorem sound_staleCall_partial (tr : Trace) (r : Rec) (h : Reports tr r .staleCall)
    (hl : ∃ i key mode v hit, r = ⟨.list i key mode, .ret v hit⟩) : ¬ P_fresh_call (tr ++ [r]) :=
  sound_fresh_call tr r _ h (Or.inr (Or.inr rfl)) hl

theorem sound_twice_partial (tr : Trace) (r : Rec) (h : Reports tr r .twice)
    (hl : ∃ k t l, r = ⟨.cbrun k, .sent t l⟩) : ¬ P_twice_complete (tr ++ [r]) := by
  intro hP
  obtain ⟨k, t, l, er⟩ := hl
  rcases fan_source h rfl with ⟨k', t', l', ds, e, hsd, hc⟩ | ⟨_, _, _, _, _, _, _, e, _⟩
  · rcases cbCheck_some hc with ⟨x, _, hx⟩ | ⟨_, j, hj⟩
    · rcases cbDeliveryClause_some hx with ⟨e2, _⟩ | ⟨e2, _⟩ | ⟨e2, _⟩ | ⟨e2, _⟩ | ⟨e2, _⟩ | ⟨e2, _⟩ | ⟨e2, _⟩ <;> cases e2
    · have := hP tr.length t' l' k' ds (by rw [get_snoc_len, e]) hsd j
      omega
  · rw [er] at e; cases e

/-- the clauses whose soundness is proved in full -/
def Covered : Clause → Prop
  | .twice | .fanNotEntitled | .fanBadStamp | .fanDropped | .staleCall | .hitAfterInvalidate => False
  | _ => True

def seenP : Seen → Trace → Prop
  | .updated => P_updReaches
  | .dump => P_ackedServed
  | .fin => P_notified

/-- the clause of the property a monitor clause contradicts -/
def P_of : Clause → Trace → Prop
  | .malformed => P_malformed
  | .wrongKind => P_wrongKind
  | .disabled => P_disabled
  | .notConnected => P_notConnected
  | .legacyStamped => P_legacyStamped
  | .noSubscription => P_noSubscription
  | .badStamp => P_badStamp
  | .wrongHandler => P_wrongHandler
  | .twice => P_twice_complete
  | .fanNotEntitled | .fanBadStamp | .fanDropped | .hitAfterInvalidate => fun _ => True
  | .lostWindow _ _ _ s => seenP s
  | .lostOverlap _ _ _ _ s => seenP s
  | .updAckWindow | .updMissed => P_updReaches
  | .updRefused | .updNotSubscribed => P_updOnly
  | .updTwice => P_updOnce
  | .updMethod => P_updMethod
  | .updOtherUri => P_updOtherUri
  | .updLegacyStamped => P_updLegacyStamped
  | .updBadStamp => fun tr => P_updBadStamp tr ∧ P_updOnly tr
  | .staleRead _ | .f7Stale | .staleCall => P_fresh_call
  | .closedMentioned => P_closedForgotten
  | .ackTableWindow | .f19Registered | .ackedMissing => P_ackedServed
  | .refusedLeft | .foreignEntry => P_noForeign
  | .endMixedRemove | .endMidFan | .endSkippedAck | .endF19 | .endSkipped | .endNoLost => P_notified

/-- **monitor_sound (partial: the covered clauses).**  Whenever the monitor reports a covered clause on the record that
extends a trace, the corresponding clause of the property is false of the extended trace. -/
theorem monitor_sound_partial (tr : Trace) (r : Rec) (c : Clause) (hc : Covered c) (h : Reports tr r c) :
    ¬ P_of c (tr ++ [r]) := by
  cases c with
  | malformed => exact sound_malformed tr r h
  | wrongKind => exact sound_wrongKind tr r h
  | disabled => exact sound_disabled tr r h
  | notConnected => exact sound_notConnected tr r h
  | legacyStamped => exact sound_legacyStamped tr r h
  | noSubscription => exact sound_noSubscription tr r h
  | badStamp => exact sound_badStamp tr r h
  | wrongHandler => exact sound_wrongHandler tr r h
  | twice => exact absurd hc (by simp [Covered])
  | fanNotEntitled => exact absurd hc (by simp [Covered])
  | fanBadStamp => exact absurd hc (by simp [Covered])
  | fanDropped => exact absurd hc (by simp [Covered])
  | staleCall => exact absurd hc (by simp [Covered])
  | hitAfterInvalidate => exact absurd hc (by simp [Covered])
  | lostWindow a b w s =>
    cases s with
    | updated => exact sound_lostWindow_updated tr r a b w h
    | dump => exact sound_lostWindow_dump tr r a b w h
    | fin => exact sound_lostWindow_fin tr r a b w h
  | lostOverlap o a b w s =>
    cases s with
    | updated => exact sound_lostOverlap_updated tr r o a b w h
    | dump => exact sound_lostOverlap_dump tr r o a b w h
    | fin => exact sound_lostOverlap_fin tr r o a b w h
  | updAckWindow => exact sound_updAckWindow tr r h
  | updMissed => exact sound_updMissed tr r h
  | updRefused => exact sound_updRefused tr r h
  | updNotSubscribed => exact sound_updNotSubscribed tr r h
  | updTwice => exact sound_updTwice tr r h
  | updMethod => exact sound_updMethod tr r h
  | updOtherUri => exact sound_updOtherUri tr r h
  | updLegacyStamped => exact sound_updLegacyStamped tr r h
  | updBadStamp => exact sound_updBadStamp tr r h
  | staleRead b => exact sound_staleRead tr r b h
  | f7Stale => exact sound_f7Stale tr r h
  | closedMentioned => exact sound_closedMentioned tr r h
  | ackTableWindow => exact sound_ackTableWindow tr r h
  | f19Registered => exact sound_f19Registered tr r h
  | ackedMissing => exact sound_ackedMissing tr r h
  | refusedLeft => exact sound_refusedLeft tr r h
  | foreignEntry => exact sound_foreignEntry tr r h
  | endMixedRemove => exact sound_endMixedRemove tr r h
  | endMidFan => exact sound_endMidFan tr r h
  | endSkippedAck => exact sound_endSkippedAck tr r h
  | endF19 => exact sound_endF19 tr r h
  | endSkipped => exact sound_endSkipped tr r h
  | endNoLost => exact sound_endNoLost tr r h

/-- the predicates are not vacuous: all of them hold of the empty trace and of a trace of records that deliver
nothing (so a report is a statement about what the implementation did) -/
example : P_disabled [] ∧ P_updReaches [] ∧ P_ackedServed [] ∧ P_notified [] ∧ P_fresh_call [] := by
  refine ⟨?_, ?_, ?_, ?_, ?_⟩ <;> intro i <;> simp

end Notify.Sound
