import McpModel.Notify.SoundFanHeld
/-!
# E14: clause soundness of the typed C18 monitor

For every clause the monitor (`Mon.monCheck`, Monitor.lean) can report, the corresponding clause of the
property is a predicate `P_…` on observation traces (lists of records: the harness's op and the
IMPLEMENTATION's observation), written from the property text over the ground truth of the trace
(`truth`, SoundTruth.lean: who is connected, which listens are live and what they were granted, the
configuration, the versions) — no monitor state, no model.  `sound_<clause>` (SoundFan, SoundUpd,
SoundTables, SoundCache, SoundEnd): whenever the monitor reports the clause on the record that extends a
trace, the predicate fails on the extended trace.  `monitor_sound` packages them.

The monitor's state is history: `monAfter_truth` (its copies of the ground truth), `maxHandled_history`
(the newest handled version of a key was announced by a notification this session handled),
`owed_history` (a debt is owed in the sense of the property: a change to be announced, the same session
since, no notification of the kind since, entitled at every snapshot since), `fans_history`,
`starts_history` (what a held call's session had handled when the call started), `invalidated_history` (a
notification covering the key was handled and no call for the key went to the server since), `fan_history` (the
snapshot record of the held fan-out in progress: who was entitled then, under which stamps, less the sessions
closed since; who was written to since).

Covered: all 41 clause constructors (`monitor_sound`).  `twice` and `staleCall` have two sources each (a complete
fan-out / a write of a held one; a call answered at once / a held call that returns): the predicate is the
conjunction of the two clauses of the property.
-/
namespace Notify.Sound
open Notify Notify.Mon Generated.Notify

def seenP : Seen → Trace → Prop
  | .updated => P_updReaches
  | .dump => P_ackedServed
  | .fin => P_notified

/-- the clause of the property a monitor clause contradicts -/
def P_of : Clause → Trace → Prop
  | .malformed => P_malformed
  | .wrongKind => P_wrongKind
  | .disabled => P_disabled
  | .notConnected => P_notConnected
  | .legacyStamped => P_legacyStamped
  | .noSubscription => P_noSubscription
  | .badStamp => P_badStamp
  | .wrongHandler => P_wrongHandler
  | .twice => fun tr => P_twice_complete tr ∧ P_fanOnce tr
  | .fanNotEntitled => P_fanEntitled
  | .fanBadStamp => P_fanStamp
  | .fanDropped => P_fanReaches
  | .hitAfterInvalidate => P_refetch
  | .lostWindow _ _ _ s => seenP s
  | .lostOverlap _ _ _ _ s => seenP s
  | .updAckWindow | .updMissed => P_updReaches
  | .updRefused | .updNotSubscribed => P_updOnly
  | .updTwice => P_updOnce
  | .updMethod => P_updMethod
  | .updOtherUri => P_updOtherUri
  | .updLegacyStamped => P_updLegacyStamped
  | .updBadStamp => fun tr => P_updBadStamp tr ∧ P_updOnly tr
  | .staleRead _ | .f7Stale => P_fresh_call
  | .staleCall => fun tr => P_fresh_call tr ∧ P_fresh_held tr
  | .closedMentioned => P_closedForgotten
  | .ackTableWindow | .f19Registered | .ackedMissing => P_ackedServed
  | .refusedLeft | .foreignEntry => P_noForeign
  | .endMixedRemove | .endMidFan | .endSkippedAck | .endF19 | .endSkipped | .endNoLost => P_notified

/-- **monitor_sound.**  Whenever the monitor reports a clause on the record that extends a trace, the corresponding
clause of the property is false of the extended trace. -/
theorem monitor_sound (tr : Trace) (r : Rec) (c : Clause) (h : Reports tr r c) : ¬ P_of c (tr ++ [r]) := by
  cases c with
  | malformed => exact sound_malformed tr r h
  | wrongKind => exact sound_wrongKind tr r h
  | disabled => exact sound_disabled tr r h
  | notConnected => exact sound_notConnected tr r h
  | legacyStamped => exact sound_legacyStamped tr r h
  | noSubscription => exact sound_noSubscription tr r h
  | badStamp => exact sound_badStamp tr r h
  | wrongHandler => exact sound_wrongHandler tr r h
  | twice => exact sound_twice tr r h
  | fanNotEntitled => exact sound_fanNotEntitled tr r h
  | fanBadStamp => exact sound_fanBadStamp tr r h
  | fanDropped => exact sound_fanDropped tr r h
  | staleCall => exact sound_staleCall tr r h
  | hitAfterInvalidate => exact sound_hitAfterInvalidate tr r h
  | lostWindow a b w s =>
    cases s with
    | updated => exact sound_lostWindow_updated tr r a b w h
    | dump => exact sound_lostWindow_dump tr r a b w h
    | fin => exact sound_lostWindow_fin tr r a b w h
  | lostOverlap o a b w s =>
    cases s with
    | updated => exact sound_lostOverlap_updated tr r o a b w h
    | dump => exact sound_lostOverlap_dump tr r o a b w h
    | fin => exact sound_lostOverlap_fin tr r o a b w h
  | updAckWindow => exact sound_updAckWindow tr r h
  | updMissed => exact sound_updMissed tr r h
  | updRefused => exact sound_updRefused tr r h
  | updNotSubscribed => exact sound_updNotSubscribed tr r h
  | updTwice => exact sound_updTwice tr r h
  | updMethod => exact sound_updMethod tr r h
  | updOtherUri => exact sound_updOtherUri tr r h
  | updLegacyStamped => exact sound_updLegacyStamped tr r h
  | updBadStamp => exact sound_updBadStamp tr r h
  | staleRead b => exact sound_staleRead tr r b h
  | f7Stale => exact sound_f7Stale tr r h
  | closedMentioned => exact sound_closedMentioned tr r h
  | ackTableWindow => exact sound_ackTableWindow tr r h
  | f19Registered => exact sound_f19Registered tr r h
  | ackedMissing => exact sound_ackedMissing tr r h
  | refusedLeft => exact sound_refusedLeft tr r h
  | foreignEntry => exact sound_foreignEntry tr r h
  | endMixedRemove => exact sound_endMixedRemove tr r h
  | endMidFan => exact sound_endMidFan tr r h
  | endSkippedAck => exact sound_endSkippedAck tr r h
  | endF19 => exact sound_endF19 tr r h
  | endSkipped => exact sound_endSkipped tr r h
  | endNoLost => exact sound_endNoLost tr r h

/-- the predicates are not vacuous: all of them hold of the empty trace and of a trace of records that deliver
nothing (so a report is a statement about what the implementation did) -/
example : P_disabled [] ∧ P_updReaches [] ∧ P_ackedServed [] ∧ P_notified [] ∧ P_fresh_call [] ∧ P_fresh_held [] ∧
    P_refetch [] ∧ P_fanEntitled [] ∧ P_fanStamp [] ∧ P_fanOnce [] ∧ P_fanReaches [] := by
  refine ⟨?_, ?_, ?_, ?_, ?_, ?_, ?_, ?_, ?_, ?_, ?_⟩ <;> intro i <;> simp

/-! ### the clauses added last can be reported: traces on which the monitor raises them -/

def legacy2 : Trace :=
  [⟨.config .on .on .on false, .ok⟩, ⟨.connect 0 1 false [], .ok⟩, ⟨.connect 1 2 false [], .ok⟩,
   ⟨.change .tools .add, .ok⟩, ⟨.advance 10, .fired [.tools]⟩]

def wr (i : Slot) : Delivery := ⟨.slot i, .changed .tools, .plain, .none⟩

set_option maxRecDepth 20000 in
example : Reports (legacy2 ++ [⟨.cbstep .tools, .fan false⟩, ⟨.fsend .tools, .fsent (.slot 0) 1 [wr 0] false⟩])
    ⟨.fsend .tools, .fsent (.slot 0) 1 [wr 0] true⟩ .twice := by unfold Reports; decide

set_option maxRecDepth 20000 in
example : Reports (legacy2 ++ [⟨.cbstep .tools, .fan false⟩, ⟨.connect 2 3 false [], .ok⟩])
    ⟨.fsend .tools, .fsent (.slot 2) 1 [wr 2] false⟩ .fanNotEntitled := by unfold Reports; decide

set_option maxRecDepth 20000 in
example : Reports (legacy2 ++ [⟨.cbstep .tools, .fan false⟩])
    ⟨.fsend .tools, .fsent (.slot 0) 1 [] false⟩ .fanDropped := by unfold Reports; decide

set_option maxRecDepth 20000 in
example : Reports ([⟨.config .on .on .on false, .ok⟩, ⟨.connect 0 1 true [.tools], .ok⟩, ⟨.listen 0 false, .ack [.tools] [] false⟩,
      ⟨.change .tools .add, .ok⟩, ⟨.advance 10, .fired [.tools]⟩, ⟨.cbstep .tools, .fan false⟩,
      ⟨.xlisten 0 2 [.tools] [] false, .ack [.tools] [] false⟩])
    ⟨.fsend .tools, .fsent (.slot 0) 1 [⟨.slot 0, .changed .tools, .id 2, .none⟩] true⟩ .fanBadStamp := by unfold Reports; decide

set_option maxRecDepth 20000 in
example : Reports (legacy2 ++ [⟨.cbrun .tools, .sent 1 [wr 0, wr 1]⟩, ⟨.list 0 (.list .tools) .post, .pre⟩])
    ⟨.fill 0 (.list .tools), .ret 0 false⟩ .staleCall := by unfold Reports; decide

set_option maxRecDepth 20000 in
example : Reports (legacy2 ++ [⟨.list 0 (.list .tools) .n, .ret 1 false⟩, ⟨.cbrun .tools, .sent 1 [wr 0, wr 1]⟩])
    ⟨.list 0 (.list .tools) .n, .ret 1 true⟩ .hitAfterInvalidate := by unfold Reports; decide


end Notify.Sound
