import McpModel.Notify.Model
import McpModel.Notify.Cache
/-!
# The typed C18 monitor (E14)

The code that decides, from the IMPLEMENTATION's observations, which clause of C18 is violated.
`Driver.lean` parses the harness's records into the typed data of this file (`Op`, `Obs`, `Rec`), calls
`monStep`, and renders the `Clause` it returns (`Clause.text`, in the driver); nothing else of the
monitor lives in the string layer.  `System.lean` is the composed model (one `Notify.Server`, per client
slot five `Notify.Cache.State`s) as a typed function on the same records; `Bridge.lean` proves that the
monitor raises no clause on any behaviour of that model (`monitor_accepts_model`), `Sound.lean` that
every clause it raises contradicts the corresponding clause of the property, stated on observation
traces.

The monitor is built only from the labels and the implementation's observations (acks it sent,
deliveries it made, versions it returned, tables it dumped) — never from the model state.

Listen names and request ids: `m` (connect-time listen) = 0, `r<j>` (`ClientSession.Subscribe(u<j>)`) =
2j+1, `L<n>` (raw listen opened by `xlisten`) = 2n+2 (a bijection between names and numbers: the string
layer translates).
Core Lean only (linked into the driver).
-/
namespace Notify.Mon
open Generated.Notify

/-! ### vocabulary of the records -/

/-- the three client slots `c0`, `c1`, `c2` of the harness -/
abbrev Slot := Fin 3

def Slot.all : List Slot := [0, 1, 2]

theorem Slot.mem_all (i : Slot) : i ∈ Slot.all := by
  match i with
  | ⟨0, _⟩ => simp [Slot.all]
  | ⟨1, _⟩ => simp [Slot.all]
  | ⟨2, _⟩ => simp [Slot.all]

/-- request id of the listen `ClientSession.Subscribe(u<j>)` opens -/
def ridOf (u : Nat) : Nat := 2 * u + 1

/-- the id names a raw listen `L<n>` -/
def isRaw (id : Nat) : Bool := id != 0 && id % 2 == 0

/-- the id names a per-URI listen `r<j>` -/
def isSub (id : Nat) : Bool := id % 2 == 1

/-- what a list / read call fetches: one of the four lists, or the resource `u<j>` -/
inductive Key where
  | list (f : FSet)
  | read (u : Nat)
deriving DecidableEq, Repr

def Key.isRead : Key → Bool
  | .read _ => true
  | .list _ => false

/-- `c<i>`: the session in slot `i`; `x<sid>`: a session that has no slot any more -/
inductive Who where
  | slot (i : Slot)
  | closed (sid : Nat)
deriving DecidableEq, Repr

inductive Stamp where
  | plain
  | id (n : Nat)
  | bad
deriving DecidableEq, Repr

inductive Meth where
  | changed (k : Kind)
  | updated
  | other
deriving DecidableEq, Repr

/-- which client handler ran (`-`: none registered; a kind letter) resp. which URI the notification named -/
inductive Hk where
  | none
  | kind (k : Kind)
  | uri (u : Nat)
  | other
deriving DecidableEq, Repr

/-- one notification as a client received it -/
structure Delivery where
  who : Who
  meth : Meth
  stamp : Stamp
  hk : Hk
deriving DecidableEq, Repr

/-- … received by the session of a slot -/
structure SDelivery where
  slot : Slot
  meth : Meth
  stamp : Stamp
  hk : Hk
deriving DecidableEq, Repr

def Delivery.toSlot (x : Delivery) : Option SDelivery :=
  match x.who with
  | .slot i => some ⟨i, x.meth, x.stamp, x.hk⟩
  | .closed _ => none

/-- the deliveries, if every one of them went to the session of a slot -/
def slotDeliveries (ds : List Delivery) : Option (List SDelivery) :=
  if ds.all (fun x => x.toSlot.isSome) then some (ds.filterMap Delivery.toSlot) else none

inductive Tag where
  | q
  | id (n : Nat)
  | bad
deriving DecidableEq, Repr

/-- an entry of a dumped subscription table: `c0=m`, `c1=q`, `x7=L0` -/
structure TEntry where
  who : Who
  tag : Tag
deriving DecidableEq, Repr

/-- the `tables` observation: the three list-changed tables, `resourceSubscriptions[u<j>]`, `Server.sessions` -/
structure Tables where
  kind : Kind → List TEntry
  uris : List (Nat × List TEntry)
  sess : List Who

def Tables.uri (t : Tables) (u : Nat) : List TEntry := (t.uris.lookup u).getD []

inductive Mode where
  | n | post | pre
deriving DecidableEq, Repr

/-- the op tokens of a record -/
inductive Op where
  | config (ct cp cr : Cap) (hook : Bool)
  | ttl (ms : Nat)
  | change (f : FSet) (e : Eff)
  | advance (d : Nat)
  | cbrun (k : Kind)
  | cbstep (k : Kind)
  | fsend (k : Kind)
  | policy (u : Nat) (refuse : Bool)
  | canceldone (c : Slot) (id : Nat)
  | connect (c : Slot) (sid : Nat) (modern : Bool) (mask : List Kind)
  | listen (c : Slot) (hold : Bool)
  | subscribe (c : Slot) (u : Nat) (hold : Bool)
  | xlisten (c : Slot) (id : Nat) (kinds : List Kind) (uris : List Nat) (hold : Bool)
  | xend (c : Slot) (id : Nat) (hold : Bool)
  | ackdone (c : Slot) (id : Nat)
  | unsubscribe (c : Slot) (u : Nat) (hold : Bool)
  | close (c : Slot)
  | rupdated (u v : Nat)
  | list (c : Slot) (key : Key) (mode : Mode)
  | send (c : Slot) (key : Key)
  | fill (c : Slot) (key : Key)
  | tables
  | fin
  | bad

/-- an observation: what the implementation (resp. the model) answered to an op -/
inductive Obs where
  | ok
  | okListenHeld
  | okCancelHeld
  | none_
  | noop
  | err
  | noack
  | refused
  | badOp
  | pre
  | fan (done : Bool)
  | fired (ks : List Kind)
  | sent (t : Nat) (ds : List Delivery)
  | fsent (addr : Who) (t : Nat) (ds : List Delivery) (done : Bool)
  | ack (kinds : List Kind) (uris : List Nat) (parked : Bool)
  | ret (v : Nat) (hit : Bool)
  | held (v : Nat)
  | tables (tb : Tables)
  /-- anything else (the implementation only) -/
  | other

def Obs.isOk : Obs → Bool
  | .ok | .okListenHeld | .okCancelHeld => true
  | _ => false

structure Rec where
  op : Op
  obs : Obs

/-! ### the clauses -/

/-- a table: of a list-changed kind, or `resourceSubscriptions[u]` -/
inductive What where
  | kind (k : Kind)
  | uri (u : Nat)
deriving DecidableEq, Repr

def What.isUri : What → Bool
  | .uri _ => true
  | .kind _ => false

/-- where the loss of a subscription was seen -/
inductive Seen where
  | updated
  | dump
  | fin
deriving DecidableEq, Repr

inductive Clause where
  | malformed
  -- a list-changed fan-out
  | wrongKind
  | disabled
  | notConnected
  | legacyStamped
  | noSubscription
  | badStamp
  | wrongHandler
  | twice
  | fanNotEntitled
  | fanBadStamp
  | fanDropped
  -- overlapping listens: an end removed the entry of a live listen
  | lostWindow (ended survivor : Nat) (what : What) (seen : Seen)
  | lostOverlap (endedOlder : Bool) (ended survivor : Nat) (what : What) (seen : Seen)
  -- ResourceUpdated
  | updAckWindow
  | updMissed
  | updRefused
  | updNotSubscribed
  | updTwice
  | updMethod
  | updOtherUri
  | updLegacyStamped
  | updBadStamp
  -- client caches
  | staleRead (offTable : Bool)
  | f7Stale
  | staleCall
  | hitAfterInvalidate
  -- table dumps
  | closedMentioned
  | ackTableWindow
  | f19Registered
  | ackedMissing
  | refusedLeft
  | foreignEntry
  -- the end of a case
  | endMixedRemove
  | endMidFan
  | endSkippedAck
  | endF19
  | endSkipped
  | endNoLost
deriving DecidableEq, Repr

/-! ### the monitor's bookkeeping -/

/-- A live listen as the IMPLEMENTATION acknowledged it. -/
structure MListen where
  id : Nat
  kinds : List Kind
  uris : List Nat
deriving DecidableEq, Repr

/-- A listen ended while a live, acknowledged listen of the same session shared a grant with it. -/
structure MLost where
  ended : Nat
  survivor : Nat
  what : What
  endedOlder : Bool
deriving DecidableEq, Repr

structure MSlot where
  connected : Bool := false
  modern : Bool := false
  /-- live listens of the session with a non-empty acknowledged grant, oldest first -/
  listens : List MListen := []
  /-- legacy resources/subscribe answered ok and not undone -/
  luris : List Nat := []
  /-- a listen of this session ended while another one was live (F19 shape) -/
  endedOther : Bool := false
  lost : List MLost := []
  owed : List Kind := []
  /-- owed kinds for which a callback ran without reaching this (entitled) session -/
  skipped : List Kind := []
  /-- listen handlers held right after the write of their ack -/
  window : List Nat := []
  /-- … and the callback ran inside the window of a listen granted the kind -/
  skippedAck : List Kind := []
  /-- per key, the newest version a handled notification announced -/
  maxHandled : Key → Nat := fun _ => 0
  invalidated : Key → Bool := fun _ => false
  suspect : Key → Option Nat := fun _ => none
  /-- held calls: `maxHandled` when the call started -/
  starts : Key → Nat := fun _ => 0
  /-- a held fan-out of the kind had written to this session when a further change was made -/
  midFan : List Kind := []
  /-- URIs of subscriptions/listen requests of this session that got no acknowledgement while the
  SubscribeHandler refused one of them -/
  refusedUris : List Nat := []
  /-- cs.resourceSubs as the calls of Subscribe / Unsubscribe leave it -/
  csubs : List Nat := []
  /-- read keys whose resource-updated was handled while the URI was not in cs.resourceSubs -/
  offTable : List Key := []
  /-- kinds whose last effective change was a Remove* call that named absent or repeated names beside a registered one -/
  rmMixed : List Kind := []

/-- A fan-out of `notifySessions(kind)` whose loop is held before every write. -/
structure MFan where
  /-- slots entitled when the snapshot was taken, and the stamps that were right then -/
  expect : List (Slot × List Stamp) := []
  served : List Slot := []

structure MState where
  cap : Kind → Cap := fun _ => .unset
  ver : FSet → Nat := fun _ => 0
  cnt : FSet → Nat := fun _ => 0
  content : Nat → Nat := fun _ => 0
  slots : Slot → MSlot := fun _ => {}
  refused : List Nat := []
  fans : Kind → Option MFan := fun _ => none

def MState.setSlot (m : MState) (i : Slot) (d : MSlot) : MState :=
  { m with slots := fun j => if j = i then d else m.slots j }

def MState.mapSlots (m : MState) (f : MSlot → MSlot) : MState :=
  { m with slots := fun j => f (m.slots j) }

def keysOfKind : Kind → List Key
  | .tools => [.list .tools]
  | .prompts => [.list .prompts]
  | .resources => [.list .resources, .list .templates]

def kindOfFSet : FSet → Kind
  | .tools => .tools
  | .prompts => .prompts
  | _ => .resources

def MState.verOfKey (m : MState) : Key → Nat
  | .list f => m.ver f
  | .read u => m.content u

/-- The client handled a notification covering `keys`. -/
def MSlot.handled (d : MSlot) (m : MState) (keys : List Key) : MSlot :=
  { d with maxHandled := fun k => if k ∈ keys then max (d.maxHandled k) (m.verOfKey k) else d.maxHandled k,
           invalidated := fun k => decide (k ∈ keys) || d.invalidated k }

/-- Some live, acknowledged listen of the session was granted the kind. -/
def MSlot.grantedK (d : MSlot) (k : Kind) : Bool := d.listens.any (·.kinds.contains k)

/-- The session's subscription to the URI is live. -/
def MSlot.grantedU (d : MSlot) (u : Nat) : Bool :=
  if d.modern then d.listens.any (·.uris.contains u) else d.luris.contains u

/-- The handler of a live listen that was granted the kind / URI is held right after its ack write. -/
def MSlot.windowK (d : MSlot) (k : Kind) : Bool :=
  d.listens.any (fun l => l.kinds.contains k && d.window.contains l.id)
def MSlot.windowU (d : MSlot) (u : Nat) : Bool :=
  d.listens.any (fun l => l.uris.contains u && d.window.contains l.id)

def entitledNow (d : MSlot) (k : Kind) : Bool :=
  d.connected && (!d.modern || d.grantedK k)

/-- A listen the implementation acknowledged with a non-empty grant is live from now on. -/
def MSlot.addListen (d : MSlot) (id : Nat) (kinds : List Kind) (uris : List Nat) : MSlot :=
  if kinds.isEmpty && uris.isEmpty then d else
  { d with listens := d.listens.filter (·.id != id) ++ [⟨id, kinds, uris⟩] }

/-- The listen `x` ended (the client cancelled it and the implementation's handler has returned).
Every live listen of the session that shares a grant with it is remembered: if the session is later
found missing from that table, it was this end that removed the entry. -/
def MSlot.endListen (d : MSlot) (x : Nat) : MSlot :=
  match d.listens.find? (·.id == x) with
  | none => d
  | some lx =>
    let idx (n : Nat) : Nat := (d.listens.findIdx? (·.id == n)).getD 0
    let others := d.listens.filter (·.id != x)
    let recs := others.flatMap (fun y =>
      (Kind.all.filter (fun k => lx.kinds.contains k && y.kinds.contains k)).map
        (fun k => (⟨x, y.id, .kind k, idx x < idx y.id⟩ : MLost)) ++
      (lx.uris.filter y.uris.contains).map (fun u => (⟨x, y.id, .uri u, idx x < idx y.id⟩ : MLost)))
    { d with listens := others, endedOther := d.endedOther || !others.isEmpty,
             lost := d.lost.filter (fun r => r.survivor != x) ++ recs }

/-- A table dump shows the session in the table of `what`: the ends recorded so far removed nothing. -/
def MSlot.present (d : MSlot) (what : What) : MSlot := { d with lost := d.lost.filter (·.what != what) }

/-- The session is missing from the table of `what` although a live, acknowledged listen was granted it:
was it the end of an overlapping listen that removed the entry? -/
def MSlot.lostClause (d : MSlot) (what : What) (seen : Seen) : Option Clause :=
  -- the most recent such end
  match d.lost.reverse.find? (fun r => r.what == what && d.listens.any (·.id == r.survivor)) with
  | none => none
  | some r =>
    if d.window.contains r.survivor then some (.lostWindow r.ended r.survivor what seen)
    else some (.lostOverlap r.endedOlder r.ended r.survivor what seen)

/-- Check a returned version against the notifications handled before the call started. -/
def checkRet (d : MSlot) (key : Key) (v : Nat) (hit : Bool) (startMax : Nat) : Option Clause :=
  if v < startMax then
    if hit && key.isRead && d.suspect key != some v then some (.staleRead (d.offTable.contains key))
    else if hit && d.suspect key == some v then some .f7Stale
    else some .staleCall
  else if hit && d.invalidated key then some .hitAfterInvalidate
  else none

def first (l : List (Option Clause)) : Option Clause := l.findSome? id

def addNew [BEq α] (l : List α) (a : α) : List α := if l.contains a then l else l ++ [a]

/-! ### one record -/

def freshState (ca cb cc : Cap) : MState :=
  { cap := fun k => match k with | .tools => ca | .prompts => cb | .resources => cc,
    ver := fun f => if f == .resources then 2 else 0,
    cnt := fun f => if f == .resources then 2 else 0 }

/-- one slot at an effective change of kind `k` (`servedMid`: a held fan-out of the kind has already
written to this slot: what it writes from now on was decided before this change) -/
def changeSlot (k : Kind) (servedMid : Bool) (mixed : Bool) (d : MSlot) : MSlot :=
  let d := { d with rmMixed := if mixed then addNew d.rmMixed k else d.rmMixed.filter (· != k) }
  let d := if servedMid && !d.midFan.contains k then { d with midFan := d.midFan ++ [k] } else d
  if d.connected && !d.owed.contains k then { d with owed := d.owed ++ [k] } else d

def bumpV (ver : FSet → Nat) (f : FSet) : FSet → Nat :=
  fun f' => if f' == f then ver f + 1 else ver f'

def bumpC (cnt : FSet → Nat) (f : FSet) (e : Eff) : FSet → Nat :=
  fun f' => if f' == f then (match e with | .add => cnt f + 1 | .remove => cnt f - 1 | .removeN n _ => cnt f - n | _ => cnt f) else cnt f'

/-- the slots a held fan-out of kind `k` has already written to -/
def servedMidOf (fans : Kind → Option MFan) (k : Kind) : List Slot :=
  match fans k with
  | some fan => fan.served
  | none => []

/-- the `Remove*` call named absent or repeated names beside a registered one -/
def mixedOf : Eff → Bool
  | .removeN _ mixed => mixed
  | _ => false

/-- `change f e`, answered `ok`: an effective change of a kind whose capability is not switched off puts
every connected session in debt. -/
def monChange (m : MState) (f : FSet) (e : Eff) : MState :=
  if e == .noop || (e == .remove && m.cnt f == 0) then m else
  let k := kindOfFSet f
  let m := { m with ver := bumpV m.ver f, cnt := bumpC m.cnt f e }
  if m.cap k == .off then m else
  -- a held fan-out of the kind: what it writes from now on was decided before this change
  { m with slots := fun i => changeSlot k ((servedMidOf m.fans k).contains i) (mixedOf e) (m.slots i) }

/-- the clause a delivery of a complete fan-out (`cbrun k`) raises -/
def cbDeliveryClause (m : MState) (k : Kind) (x : SDelivery) : Option Clause :=
  let d := m.slots x.slot
  if x.meth != .changed k then some .wrongKind
  else if m.cap k == .off then some .disabled
  else if !d.connected then some .notConnected
  else if !d.modern && x.stamp != .plain then some .legacyStamped
  else if d.modern && !d.grantedK k then some .noSubscription
  else if d.modern && !d.listens.any (fun l => Stamp.id l.id == x.stamp && l.kinds.contains k) then some .badStamp
  else if x.hk != .none && x.hk != .kind k then some .wrongHandler
  else none

def cbCheck (m : MState) (k : Kind) (ds : List SDelivery) : Option Clause :=
  let dup := Slot.all.any (fun i => (ds.filter (·.slot == i)).length > 1)
  first (ds.map (cbDeliveryClause m k) ++ [if dup then some .twice else none])

/-- a session received the list-changed notification of kind `k`: its debt of that kind is discharged (the
notification was sent after the change that created it) and its client handled the notification -/
def gotChanged (m : MState) (k : Kind) (d : MSlot) : MSlot :=
  ({ d with owed := d.owed.filter (· != k), skipped := d.skipped.filter (· != k),
            skippedAck := d.skippedAck.filter (· != k), midFan := d.midFan.filter (· != k),
            rmMixed := d.rmMixed.filter (· != k) }).handled m (keysOfKind k)

/-- an entitled session in debt was not reached by a callback -/
def skippedBy (k : Kind) (d : MSlot) : MSlot :=
  { d with skipped := addNew d.skipped k,
           skippedAck := if d.modern && d.windowK k && !d.skippedAck.contains k
                         then d.skippedAck ++ [k] else d.skippedAck }

/-- bookkeeping of a complete fan-out: a recipient's debt of kind k is discharged; a session that is not
entitled at this snapshot is owed nothing; an entitled session that was skipped stays in debt — `end`
reports it unless a later callback reaches it -/
def cbNext (m : MState) (k : Kind) (ds : List SDelivery) : MState :=
  { m with slots := fun i =>
      let d := m.slots i
      if ds.any (·.slot == i) then gotChanged m k d
      else if d.owed.contains k && entitledNow d k then skippedBy k d
      else { d with owed := d.owed.filter (· != k) } }

/-- `cbrun k step`: the snapshot is taken now: who is entitled now is to be written to, under a stamp
that is right now -/
def fanExpect (m : MState) (k : Kind) : List (Slot × List Stamp) :=
  Slot.all.filterMap (fun i =>
    let d := m.slots i
    if entitledNow d k then
      some (i, if d.modern then (d.listens.filter (·.kinds.contains k)).map (fun l => Stamp.id l.id) else [.plain])
    else none)

def cbStepNext (m : MState) (k : Kind) (done : Bool) : MState :=
  let expect := fanExpect m k
  let m : MState := { m with slots := (fun i =>
      let d := m.slots i
      if expect.any (·.1 == i) then d else { d with owed := d.owed.filter (· != k) }) }
  if done then
    -- nothing to write: every entitled session in debt was skipped
    { m with slots := fun i =>
        let d := m.slots i
        if expect.any (·.1 == i) && d.owed.contains k then skippedBy k d else d }
  else { m with fans := fun k' => if k' = k then some { expect := expect } else m.fans k' }

/-- the clause a write of a held fan-out raises -/
def fsDeliveryClause (m : MState) (k : Kind) (fan : MFan) (x : SDelivery) : Option Clause :=
  let d := m.slots x.slot
  if x.meth != .changed k then some .wrongKind
  else if m.cap k == .off then some .disabled
  else if !d.connected then some .notConnected
  else if !d.modern && x.stamp != .plain then some .legacyStamped
  else match fan.expect.find? (·.1 == x.slot) with
    | none => some .fanNotEntitled
    | some (_, stamps) =>
      if !stamps.contains x.stamp then some .fanBadStamp
      else if fan.served.contains x.slot then some .twice
      else if x.hk != .none && x.hk != .kind k then some .wrongHandler
      else none

def fsCheck (m : MState) (k : Kind) (fan : MFan) (addr : Who) (ds : List SDelivery) : Option Clause :=
  let dropped := match addr with
    | .slot i => if ds.isEmpty && (m.slots i).connected && fan.expect.any (·.1 == i) then some Clause.fanDropped else none
    | .closed _ => none
  first (ds.map (fsDeliveryClause m k fan) ++ [dropped])

/-- the session handles this notification NOW, after every change made so far — also those made since
the snapshot: its debt is discharged (the sessions written to BEFORE such a change are the ones that
depend on the change arming a timer of its own: `change_during_fanout_announced`) -/
def fsNext (m : MState) (k : Kind) (fan : MFan) (ds : List SDelivery) (done : Bool) : MState :=
  let m : MState := { m with slots := (fun i =>
      let d := m.slots i
      if ds.any (·.slot == i) then gotChanged m k d else d) }
  let fan := { fan with served := fan.served ++ ds.map (·.slot) }
  if done then
    { m with fans := fun k' => if k' = k then none else m.fans k',
             slots := fun i =>
               let d := m.slots i
               if fan.expect.any (·.1 == i) && !fan.served.contains i && d.owed.contains k && entitledNow d k then
                 { d with skipped := addNew d.skipped k }
               else d }
  else { m with fans := fun k' => if k' = k then some fan else m.fans k' }

/-- the clause of slot `i` for a `ResourceUpdated(u)` whose deliveries are `ds` -/
def ruSlotClause (m : MState) (u : Nat) (ds : List SDelivery) (i : Slot) : Option Clause :=
  let d := m.slots i
  let want := d.connected && d.grantedU u
  let n := (ds.filter (·.slot == i)).length
  if want && n == 0 then
    match d.lostClause (.uri u) .updated with
    | some c => some c
    | none => if d.modern && d.windowU u then some .updAckWindow else some .updMissed
  else if !want && n > 0 then
    if d.refusedUris.contains u then some .updRefused else some .updNotSubscribed
  else if n > 1 then some .updTwice
  else none

def ruDeliveryClause (m : MState) (u v : Nat) (x : SDelivery) : Option Clause :=
  let d := m.slots x.slot
  if x.meth != .updated then some .updMethod
  else if x.hk != .uri v then some .updOtherUri
  else if !d.modern && x.stamp != .plain then some .updLegacyStamped
  else if d.modern && !d.listens.any (fun l => Stamp.id l.id == x.stamp && l.uris.contains u) then
    if d.refusedUris.contains u && !d.grantedU u then none   -- reported per slot
    else some .updBadStamp
  else none

def ruCheck (m : MState) (u v : Nat) (ds : List SDelivery) : Option Clause :=
  first (Slot.all.map (ruSlotClause m u ds) ++ ds.map (ruDeliveryClause m u v))

/-- the subscribers of u are notified; the notification names v, whose content has changed -/
def ruContent (m : MState) (v : Nat) : MState :=
  { m with content := fun k => if k == v then m.content v + 1 else m.content k }

def ruNext (m : MState) (v : Nat) (ds : List SDelivery) : MState :=
  { m with slots := fun i =>
      let d := m.slots i
      if ds.any (·.slot == i) then
        let key := Key.read v
        let d := d.handled m [key]
        if d.modern && !d.csubs.contains v then { d with offTable := addNew d.offTable key }
        else { d with offTable := d.offTable.filter (· != key) }
      else d }

/-! #### table dumps -/

def hasEntry (t : List TEntry) (i : Slot) (tag : Tag) : Bool := t.any (fun e => e.who == .slot i && e.tag == tag)

def whoBad (m : MState) : Who → Bool
  | .closed _ => true
  | .slot i => !(m.slots i).connected

/-- closed_sessions_forgotten: no table and not the session list may mention a session that is not
connected (`x<sid>`: a session the harness saw closing; `c<i>`: a slot the monitor saw closing) -/
def tbBad (m : MState) (tb : Tables) : Bool :=
  Kind.all.any (fun k => (tb.kind k).any (fun e => whoBad m e.who)) ||
  tb.uris.any (fun p => p.2.any (fun e => whoBad m e.who)) ||
  tb.sess.any (whoBad m)

def kindMiss (d : MSlot) (tb : Tables) (i : Slot) : List Kind :=
  if !d.modern then [] else Kind.all.filter (fun k => d.grantedK k &&
    !d.listens.any (fun l => l.kinds.contains k && hasEntry (tb.kind k) i (.id l.id)))

def uriMiss (d : MSlot) (tb : Tables) (i : Slot) : List Nat :=
  (List.range 3).filter (fun u => d.grantedU u &&
    (if d.modern then !d.listens.any (fun l => l.uris.contains u && hasEntry (tb.uri u) i (.id l.id))
     else !hasEntry (tb.uri u) i .q))

/-- acked_stays_served: the session of every listen the implementation acknowledged (and the client has
not ended) is in the implementation's table of everything that listen was granted, under the request id
of a live listen of the session that was granted the same thing -/
def tbMissing (m : MState) (tb : Tables) (i : Slot) : Option Clause :=
  let d := m.slots i
  if !d.connected then none else
  let km := kindMiss d tb i
  let um := uriMiss d tb i
  match first (km.map (fun k => d.lostClause (.kind k) .dump) ++ um.map (fun u => d.lostClause (.uri u) .dump)) with
  | some c => some c
  | none =>
    if km.any d.windowK || (d.modern && um.any d.windowU) then some .ackTableWindow
    else if !km.isEmpty && d.endedOther then some .f19Registered
    else if !km.isEmpty || !um.isEmpty then some .ackedMissing
    else none

/-- no table holds an entry of a 2026-07-28 session under an id that is not the id of a live, acknowledged
listen of that session granted the table's kind / URI (a refused request leaves nothing behind) -/
def tbForeign (m : MState) (tb : Tables) (i : Slot) : Option Clause :=
  let d := m.slots i
  if !d.connected || !d.modern then none else
  let badK := Kind.all.any (fun k => (tb.kind k).any (fun e =>
    e.who == .slot i && !d.listens.any (fun l => l.kinds.contains k && e.tag == .id l.id)))
  let badU := (List.range 3).filter (fun u => (tb.uri u).any (fun e =>
    e.who == .slot i && !d.listens.any (fun l => l.uris.contains u && e.tag == .id l.id)))
  if badU.any d.refusedUris.contains then some .refusedLeft
  else if badK || !badU.isEmpty then some .foreignEntry
  else none

def tbCheck (m : MState) (tb : Tables) : Option Clause :=
  first ((if tbBad m tb then some Clause.closedMentioned else none) ::
    Slot.all.map (tbMissing m tb) ++ Slot.all.map (tbForeign m tb))

def tbNext (m : MState) (tb : Tables) : MState :=
  { m with slots := fun i =>
      let d := m.slots i
      if !d.connected || !d.modern then d else
      let d := Kind.all.foldl (fun d k =>
        if d.listens.any (fun l => l.kinds.contains k && hasEntry (tb.kind k) i (.id l.id)) then d.present (.kind k) else d) d
      (List.range 3).foldl (fun d u =>
        if d.listens.any (fun l => l.uris.contains u && hasEntry (tb.uri u) i (.id l.id)) then d.present (.uri u) else d) d }

/-! #### the end of a case -/

def endSlotClause (m : MState) (i : Slot) : Option Clause :=
  let d := m.slots i
  match Kind.all.find? (fun k => d.owed.contains k && entitledNow d k) with
  | none => none
  | some k =>
    match (if d.modern then d.lostClause (.kind k) .fin else none) with
    | some c => some c
    | none =>
      if d.rmMixed.contains k then some .endMixedRemove
      else if d.midFan.contains k then some .endMidFan
      else if d.modern && d.skippedAck.contains k then some .endSkippedAck
      else if d.modern && d.endedOther then some .endF19
      else if d.skipped.contains k then some .endSkipped
      else some .endNoLost

def endCheck (m : MState) : Option Clause := first (Slot.all.map (endSlotClause m))

/-! #### all records -/

def withWindow (d : MSlot) (parked : Bool) (id : Nat) : MSlot :=
  { d with window := if parked then d.window ++ [id] else d.window }

/-- a call for `key` was answered by the server: whatever invalidated the cache before, it is refilled now -/
def MSlot.fetched (d : MSlot) (key : Key) : MSlot :=
  { d with invalidated := fun k => if k = key then false else d.invalidated k,
           suspect := fun k => if k = key then none else d.suspect k }

/-- a call for `key` whose response is held has started -/
def MSlot.started (d : MSlot) (key : Key) : MSlot :=
  { d with starts := fun k => if k = key then d.maxHandled key else d.starts k }

/-- the held call for `key` returned version `v` and filled the cache: a notification covering the key that was
handled while the call was in flight makes what it stores suspect -/
def MSlot.filled (d : MSlot) (key : Key) (v : Nat) : MSlot :=
  let susp := d.maxHandled key > d.starts key && v < d.maxHandled key
  { d with starts := fun k => if k = key then 0 else d.starts k,
           invalidated := fun k => if k = key then false else d.invalidated k,
           suspect := fun k => if k = key then (if susp then some v else none) else d.suspect k }

/-- the bookkeeping after a record -/
def monNext (m : MState) (r : Rec) : MState :=
  match r.op, r.obs with
  | .config ca cb cc _, _ => freshState ca cb cc
  | .change f e, .ok => monChange m f e
  | .cbrun k, .sent _ ds =>
    (match slotDeliveries ds with
     | some ds => cbNext m k ds
     | none => m)
  | .policy u refuse, _ =>
    { m with refused := if refuse then m.refused ++ [u] else m.refused.filter (· != u) }
  | .cbstep k, .fan done => cbStepNext m k done
  | .fsend k, .fsent _ _ ds done =>
    (match m.fans k, slotDeliveries ds with
     | some fan, some ds => fsNext m k fan ds done
     | _, _ => m)
  | .canceldone c id, .ok => m.setSlot c ((m.slots c).endListen id)
  | .connect c _ modern _, obs =>
    if obs.isOk then m.setSlot c { connected := true, modern := modern } else m
  | .listen c _, .ack ks us parked => m.setSlot c (withWindow ((m.slots c).addListen 0 ks us) parked 0)
  | .xlisten c id _ _ _, .ack ks us parked => m.setSlot c (withWindow ((m.slots c).addListen id ks us) parked id)
  | .xlisten c _ _ us _, .noack =>
    let d := m.slots c
    if us.any m.refused.contains then
      m.setSlot c { d with refusedUris := d.refusedUris ++ us.filter (fun u => !d.refusedUris.contains u) }
    else m
  | .xend c id _, .ok => m.setSlot c ((m.slots c).endListen id)
  | .subscribe c u _, obs =>
    let d := m.slots c
    if !d.modern then
      (match obs with
       | .ok => if !d.luris.contains u then m.setSlot c { d with luris := d.luris ++ [u] } else m
       | _ => m)
    else
      (match obs with
       | .ack ks us parked =>
         let d := withWindow (d.addListen (ridOf u) ks us) parked (ridOf u)
         m.setSlot c { d with csubs := addNew d.csubs u }
       | .noack =>
         m.setSlot c { d with csubs := addNew d.csubs u,
                              refusedUris := if m.refused.contains u && !d.refusedUris.contains u then d.refusedUris ++ [u] else d.refusedUris }
       | _ => m)
  | .ackdone c id, obs =>
    let d := m.slots c
    if obs.isOk then m.setSlot c { d with window := d.window.filter (· != id) } else m
  | .unsubscribe c u _, .ok =>
    let d := m.slots c
    if d.modern then m.setSlot c { (d.endListen (ridOf u)) with csubs := d.csubs.filter (· != u) }
    else m.setSlot c { d with luris := d.luris.filter (· != u) }
  | .unsubscribe c u _, .okCancelHeld =>
    -- Unsubscribe has returned: cs.resourceSubs no longer has the URI; the stream is live until the cancellation arrives
    let d := m.slots c
    m.setSlot c { d with csubs := d.csubs.filter (· != u) }
  | .close c, .ok =>
    { (m.setSlot c {}) with fans := fun k => (m.fans k).map (fun f =>
        { f with expect := f.expect.filter (·.1 != c), served := f.served.filter (· != c) }) }
  | .rupdated _ v, .sent _ ds =>
    let m := ruContent m v
    (match slotDeliveries ds with
     | some ds => ruNext m v ds
     | none => m)
  | .rupdated _ v, _ => ruContent m v
  | .list c key mode, obs =>
    let d := m.slots c
    (match obs with
     | .ret _ hit => if hit then m else m.setSlot c (d.fetched key)
     | .pre | .held _ => if mode != .n then m.setSlot c (d.started key) else m
     | _ => m)
  | .fill c key, .ret v _ => m.setSlot c ((m.slots c).filled key v)
  | .tables, .tables tb => tbNext m tb
  | _, _ => m

/-- the clause a record raises, if any -/
def monCheck (m : MState) (r : Rec) : Option Clause :=
  match r.op, r.obs with
  | .cbrun _, .none_ => none
  | .cbrun k, .sent _ ds =>
    (match slotDeliveries ds with
     | some ds => cbCheck m k ds
     | none => some .malformed)
  | .cbrun _, _ => some .malformed
  | .fsend k, .fsent addr _ ds _ =>
    (match m.fans k, slotDeliveries ds with
     | some fan, some ds => fsCheck m k fan addr ds
     | _, _ => none)
  | .rupdated u v, .sent _ ds =>
    (match slotDeliveries ds with
     | some ds => ruCheck (ruContent m v) u v ds
     | none => some .malformed)
  | .rupdated _ _, _ => some .malformed
  | .list c key _, .ret v hit => checkRet (m.slots c) key v hit ((m.slots c).maxHandled key)
  | .fill c key, .ret v _ => if v < (m.slots c).starts key then some .staleCall else none
  | .tables, .tables tb => tbCheck m tb
  | .fin, _ => endCheck m
  | _, _ => none

def monStep (m : MState) (r : Rec) : MState × Option Clause := (monNext m r, monCheck m r)

/-- the bookkeeping after a list of records -/
def monAfter (m : MState) (tr : List Rec) : MState := tr.foldl monNext m

/-- the first clause raised along a list of records -/
def runMon (m : MState) : List Rec → Option Clause
  | [] => none
  | r :: tr =>
    match monCheck m r with
    | some c => some c
    | none => runMon (monNext m r) tr

end Notify.Mon
