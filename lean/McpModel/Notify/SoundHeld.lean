import McpModel.Notify.SoundEnd
/-!
# Soundness, part 9: held calls and cache hits

Two more histories of the monitor's state:

* `starts` — what the session of a slot had handled for a key when it started the call that is still held
  (`starts_history`), which decides `staleCall` on the record in which a held call returns
  (`sound_staleCall_held`, and with `sound_fresh_call` both sources: `sound_staleCall`);
* `invalidated` — the session handled a notification covering the key and no call for the key went to the server
  since (`invalidated_history`), which decides `hitAfterInvalidate` (`sound_hitAfterInvalidate`).
-/
namespace Notify.Sound
open Notify Notify.Mon Generated.Notify

/-! ### held calls: the call started in one record and returns in a later one -/

/-- the record starts a call of slot `i` for `key` whose response is held -/
def IsStart (r : Rec) (i : Slot) (key : Key) : Prop :=
  ∃ mode, mode ≠ Mode.n ∧ (r = ⟨.list i key mode, .pre⟩ ∨ ∃ v, r = ⟨.list i key mode, .held v⟩)

/-- the held call of slot `i` for `key` returns -/
def IsFill (r : Rec) (i : Slot) (key : Key) : Prop := ∃ v hit, r = ⟨.fill i key, .ret v hit⟩

/-- the held call that returns in record `q` was started in record `q0` -/
def CallSpan (tr : Trace) (q0 q : Nat) (i : Slot) (key : Key) : Prop :=
  ∀ j rj, q0 < j → j < q → tr[j]? = some rj → ¬ Resets rj i ∧ ¬ IsStart rj i key ∧ ¬ IsFill rj i key

/-- a held call returns a version at least as new as every notification covering the key that the session had handled
before the call started -/
def P_fresh_held (tr : Trace) : Prop :=
  ∀ (q : Nat) (i : Slot) (key : Key) (v : Nat) (hit : Bool), tr[q]? = some (⟨.fill i key, .ret v hit⟩ : Rec) →
    ∀ (q0 : Nat) (r0 : Rec), q0 < q → tr[q0]? = some r0 → IsStart r0 i key → CallSpan tr q0 q i key →
    ∀ (p : Nat) (rp : Rec), p < q0 → tr[p]? = some rp → Delivers rp i key → SameSession tr p q0 i → announcedAt tr p key ≤ v

theorem st_endListen (d : MSlot) (x : Nat) : (d.endListen x).starts = d.starts := by
  simp only [MSlot.endListen]; split <;> rfl
theorem st_addListen (d : MSlot) (id : Nat) (ks : List Kind) (us : List Nat) : (d.addListen id ks us).starts = d.starts := by
  simp only [MSlot.addListen]; split <;> rfl
theorem st_changeSlot (k : Kind) (b mx : Bool) (d : MSlot) : (changeSlot k b mx d).starts = d.starts := by
  simp only [changeSlot]
  generalize (if mx = true then addNew d.rmMixed k else d.rmMixed.filter (· != k)) = rm
  split <;> split <;> rfl
theorem st_foldl {α} (f : MSlot → α → MSlot) (hf : ∀ d a, (f d a).starts = d.starts) (l : List α) (d : MSlot) :
    (l.foldl f d).starts = d.starts := by
  induction l generalizing d with
  | nil => rfl
  | cons a t ih => simp only [List.foldl_cons]; rw [ih, hf]
theorem st_tbNext (m : MState) (tb : Tables) (i : Slot) : ((tbNext m tb).slots i).starts = (m.slots i).starts := by
  simp only [tbNext]
  split
  · rfl
  · rw [st_foldl, st_foldl]
    · intro d k; split <;> rfl
    · intro d u; split <;> rfl
theorem st_setSlot (m : MState) (c i : Slot) (d : MSlot) (hd : d.starts = (m.slots c).starts) :
    ((m.setSlot c d).slots i).starts = (m.slots i).starts := by
  simp only [MState.setSlot]; split
  · rename_i e; rw [hd, e]
  · rfl
theorem st_cbNext (m : MState) (k : Kind) (ds : List SDelivery) (i : Slot) : ((cbNext m k ds).slots i).starts = (m.slots i).starts := by
  simp only [cbNext]
  split
  · rfl
  · split <;> rfl
theorem st_cbStepNext (m : MState) (k : Kind) (done : Bool) (i : Slot) : ((cbStepNext m k done).slots i).starts = (m.slots i).starts := by
  cases done
  · simp only [cbStepNext, Bool.false_eq_true, if_false]; split <;> rfl
  · simp only [cbStepNext, if_true]
    split
    · split <;> rfl
    · split <;> rfl
theorem st_fsNext (m : MState) (k : Kind) (fan : MFan) (ds : List SDelivery) (done : Bool) (i : Slot) :
    ((fsNext m k fan ds done).slots i).starts = (m.slots i).starts := by
  cases done
  · simp only [fsNext, Bool.false_eq_true, if_false]; split <;> rfl
  · simp only [fsNext, if_true]
    split
    · split <;> rfl
    · split <;> rfl
theorem st_ruNext (m1 : MState) (v : Nat) (ds : List SDelivery) (i : Slot) : ((ruNext m1 v ds).slots i).starts = (m1.slots i).starts := by
  simp only [ruNext]
  split
  · split <;> rfl
  · rfl

macro "st_tac" : tactic =>
  `(tactic| first
    | rfl
    | (apply st_setSlot; first | rfl | exact st_addListen _ _ _ _ | exact st_endListen _ _))


/-- how one record moves the monitor's note of what a held call's session had handled when the call started -/
theorem starts_step (m : MState) (r : Rec) (i : Slot) (key : Key) :
    (Resets r i ∧ ((monNext m r).slots i).starts key = 0) ∨
    (¬ Resets r i ∧
      ((((monNext m r).slots i).starts key = (m.slots i).starts key ∧ ¬ IsStart r i key ∧ ¬ IsFill r i key) ∨
       (IsStart r i key ∧ ((monNext m r).slots i).starts key = (m.slots i).maxHandled key) ∨
       (IsFill r i key ∧ ((monNext m r).slots i).starts key = 0))) := by
  obtain ⟨op, obs⟩ := r
  have same : (∀ a b c h, op ≠ .config a b c h) → (∀ j sid mo mask, op ≠ .connect j sid mo mask) → (∀ j, op ≠ .close j) →
      (∀ j kk mode, op ≠ .list j kk mode) → (∀ j kk, op ≠ .fill j kk) →
      ((monNext m ⟨op, obs⟩).slots i).starts = (m.slots i).starts →
      (Resets ⟨op, obs⟩ i ∧ ((monNext m ⟨op, obs⟩).slots i).starts key = 0) ∨
      (¬ Resets ⟨op, obs⟩ i ∧
        ((((monNext m ⟨op, obs⟩).slots i).starts key = (m.slots i).starts key ∧ ¬ IsStart ⟨op, obs⟩ i key ∧ ¬ IsFill ⟨op, obs⟩ i key) ∨
         (IsStart ⟨op, obs⟩ i key ∧ ((monNext m ⟨op, obs⟩).slots i).starts key = (m.slots i).maxHandled key) ∨
         (IsFill ⟨op, obs⟩ i key ∧ ((monNext m ⟨op, obs⟩).slots i).starts key = 0))) := by
    intro h1 h2 h3 h4 h5 he
    refine Or.inr ⟨not_resets_of h1 h2 h3, Or.inl ⟨by rw [he], ?_, ?_⟩⟩
    · rintro ⟨mode, _, e | ⟨v, e⟩⟩ <;> (simp only [Rec.mk.injEq] at e; exact h4 _ _ _ e.1)
    · rintro ⟨v, hit, e⟩; simp only [Rec.mk.injEq] at e; exact h5 _ _ e.1
  cases op with
  | config ca cb cc hk => exact Or.inl ⟨Or.inl ⟨_, _, _, _, rfl⟩, rfl⟩
  | connect c sid mo mask =>
    have hnS : ¬ IsStart ⟨.connect c sid mo mask, obs⟩ i key := by
      rintro ⟨mode, _, e | ⟨v, e⟩⟩ <;> cases e
    have hnF : ¬ IsFill ⟨.connect c sid mo mask, obs⟩ i key := by rintro ⟨v, hit, e⟩; cases e
    by_cases hok : obs.isOk = true
    · by_cases e : c = i
      · subst e
        refine Or.inl ⟨Or.inr (Or.inl ⟨sid, mo, mask, rfl, hok⟩), ?_⟩
        simp [monNext, hok, MState.setSlot]
      · refine Or.inr ⟨?_, Or.inl ⟨?_, hnS, hnF⟩⟩
        · rintro (⟨_, _, _, _, e2⟩ | ⟨_, _, _, e2, _⟩ | ⟨e2, _⟩)
          · cases e2
          · simp only [Op.connect.injEq] at e2; exact e e2.1
          · cases e2
        · have : i ≠ c := fun e2 => e e2.symm
          simp [monNext, hok, MState.setSlot, this]
    · refine Or.inr ⟨?_, Or.inl ⟨?_, hnS, hnF⟩⟩
      · rintro (⟨_, _, _, _, e2⟩ | ⟨_, _, _, _, e3⟩ | ⟨e2, _⟩)
        · cases e2
        · exact hok e3
        · cases e2
      · simp [monNext, hok]
  | close c =>
    have hnS : ¬ IsStart ⟨.close c, obs⟩ i key := by
      rintro ⟨mode, _, e | ⟨v, e⟩⟩ <;> cases e
    have hnF : ¬ IsFill ⟨.close c, obs⟩ i key := by rintro ⟨v, hit, e⟩; cases e
    by_cases hok : obs = .ok
    · subst hok
      by_cases e : c = i
      · subst e
        exact Or.inl ⟨Or.inr (Or.inr ⟨rfl, rfl⟩), by simp [monNext, MState.setSlot]⟩
      · refine Or.inr ⟨?_, Or.inl ⟨?_, hnS, hnF⟩⟩
        · rintro (⟨_, _, _, _, e2⟩ | ⟨_, _, _, e2, _⟩ | ⟨e2, _⟩)
          · cases e2
          · cases e2
          · simp only [Op.close.injEq] at e2; exact e e2
        · have : i ≠ c := fun e2 => e e2.symm
          simp [monNext, MState.setSlot, this]
    · refine Or.inr ⟨?_, Or.inl ⟨?_, hnS, hnF⟩⟩
      · rintro (⟨_, _, _, _, e2⟩ | ⟨_, _, _, e2, _⟩ | ⟨_, e3⟩)
        · cases e2
        · cases e2
        · exact hok e3
      · cases obs <;> first | rfl | exact absurd rfl hok
  | ttl n => exact same (by simp) (by simp) (by simp) (by simp) (by simp) (by cases obs <;> rfl)
  | advance d => exact same (by simp) (by simp) (by simp) (by simp) (by simp) (by cases obs <;> rfl)
  | bad => exact same (by simp) (by simp) (by simp) (by simp) (by simp) (by cases obs <;> rfl)
  | fin => exact same (by simp) (by simp) (by simp) (by simp) (by simp) (by cases obs <;> rfl)
  | send c k => exact same (by simp) (by simp) (by simp) (by simp) (by simp) (by cases obs <;> rfl)
  | policy u rf => exact same (by simp) (by simp) (by simp) (by simp) (by simp) (by cases obs <;> rfl)
  | cbstep k =>
    refine same (by simp) (by simp) (by simp) (by simp) (by simp) ?_
    cases obs <;> try rfl
    exact st_cbStepNext _ _ _ _
  | change f e =>
    refine same (by simp) (by simp) (by simp) (by simp) (by simp) ?_
    cases obs <;> try rfl
    show ((monChange m f e).slots i).starts = _
    simp only [monChange]
    split
    · rfl
    · split
      · rfl
      · exact st_changeSlot _ _ _ _
  | tables =>
    refine same (by simp) (by simp) (by simp) (by simp) (by simp) ?_
    cases obs <;> try rfl
    exact st_tbNext _ _ _
  | cbrun k =>
    refine same (by simp) (by simp) (by simp) (by simp) (by simp) ?_
    cases obs <;> try rfl
    simp only [monNext]; split
    · exact st_cbNext _ _ _ _
    · rfl
  | fsend k =>
    refine same (by simp) (by simp) (by simp) (by simp) (by simp) ?_
    cases obs <;> try rfl
    simp only [monNext]; split
    · exact st_fsNext _ _ _ _ _ _
    · rfl
  | rupdated u v =>
    refine same (by simp) (by simp) (by simp) (by simp) (by simp) ?_
    cases obs <;> try rfl
    simp only [monNext]; split
    · exact st_ruNext _ _ _ _
    · rfl
  | listen c hold =>
    refine same (by simp) (by simp) (by simp) (by simp) (by simp) ?_
    cases obs <;> try rfl
    st_tac
  | xlisten c id ks us hold =>
    refine same (by simp) (by simp) (by simp) (by simp) (by simp) ?_
    cases obs <;> try rfl
    · simp only [monNext]; split
      · st_tac
      · rfl
    · st_tac
  | xend c id hold =>
    refine same (by simp) (by simp) (by simp) (by simp) (by simp) ?_
    cases obs <;> try rfl
    st_tac
  | canceldone c id =>
    refine same (by simp) (by simp) (by simp) (by simp) (by simp) ?_
    cases obs <;> try rfl
    st_tac
  | ackdone c id =>
    refine same (by simp) (by simp) (by simp) (by simp) (by simp) ?_
    simp only [monNext]; split
    · st_tac
    · rfl
  | subscribe c u hold =>
    refine same (by simp) (by simp) (by simp) (by simp) (by simp) ?_
    simp only [monNext]
    split
    · split
      · split
        · st_tac
        · rfl
      · rfl
    · split
      · st_tac
      · st_tac
      · rfl
  | unsubscribe c u hold =>
    refine same (by simp) (by simp) (by simp) (by simp) (by simp) ?_
    cases obs <;> try rfl
    · simp only [monNext]; split
      · st_tac
      · st_tac
    · st_tac
  | list c k mode =>
    have hnr : ¬ Resets ⟨.list c k mode, obs⟩ i := not_resets_of (by simp) (by simp) (by simp)
    have hnF : ¬ IsFill ⟨.list c k mode, obs⟩ i key := by rintro ⟨v, hit, e⟩; cases e
    refine Or.inr ⟨hnr, ?_⟩
    -- an observation that starts nothing
    have quiet : (∀ v, obs ≠ .held v) → obs ≠ .pre → ((monNext m ⟨.list c k mode, obs⟩).slots i).starts = (m.slots i).starts →
        (((monNext m ⟨.list c k mode, obs⟩).slots i).starts key = (m.slots i).starts key ∧ ¬ IsStart ⟨.list c k mode, obs⟩ i key ∧
          ¬ IsFill ⟨.list c k mode, obs⟩ i key) ∨
        (IsStart ⟨.list c k mode, obs⟩ i key ∧ ((monNext m ⟨.list c k mode, obs⟩).slots i).starts key = (m.slots i).maxHandled key) ∨
        (IsFill ⟨.list c k mode, obs⟩ i key ∧ ((monNext m ⟨.list c k mode, obs⟩).slots i).starts key = 0) := by
      intro h1 h2 he
      refine Or.inl ⟨by rw [he], ?_, hnF⟩
      rintro ⟨mode', _, e | ⟨v, e⟩⟩
      · simp only [Rec.mk.injEq] at e; exact h2 e.2
      · simp only [Rec.mk.injEq] at e; exact h1 v e.2
    -- an observation that starts a held call
    have starting : ∀ obs', (obs' = .pre ∨ ∃ v, obs' = .held v) →
        (monNext m ⟨.list c k mode, obs'⟩ = if mode != .n then m.setSlot c ((m.slots c).started k) else m) →
        (((monNext m ⟨.list c k mode, obs'⟩).slots i).starts key = (m.slots i).starts key ∧ ¬ IsStart ⟨.list c k mode, obs'⟩ i key ∧
          ¬ IsFill ⟨.list c k mode, obs'⟩ i key) ∨
        (IsStart ⟨.list c k mode, obs'⟩ i key ∧ ((monNext m ⟨.list c k mode, obs'⟩).slots i).starts key = (m.slots i).maxHandled key) ∨
        (IsFill ⟨.list c k mode, obs'⟩ i key ∧ ((monNext m ⟨.list c k mode, obs'⟩).slots i).starts key = 0) := by
      intro obs' hobs hnext
      have hnF' : ¬ IsFill ⟨.list c k mode, obs'⟩ i key := by rintro ⟨v, hit, e⟩; cases e
      rw [hnext]
      by_cases hmode : mode = .n
      · subst hmode
        refine Or.inl ⟨rfl, ?_, hnF'⟩
        rintro ⟨mode', hm', e | ⟨v, e⟩⟩ <;> (simp only [Rec.mk.injEq, Op.list.injEq] at e; exact hm' e.1.2.2.symm)
      · have hmb : (mode != .n) = true := by simpa using hmode
        rw [if_pos hmb]
        by_cases hck : c = i ∧ k = key
        · obtain ⟨rfl, rfl⟩ := hck
          refine Or.inr (Or.inl ⟨⟨mode, hmode, ?_⟩, by simp [MState.setSlot, MSlot.started]⟩)
          rcases hobs with e | ⟨v, e⟩
          · left; rw [e]
          · right; exact ⟨v, by rw [e]⟩
        · refine Or.inl ⟨?_, ?_, hnF'⟩
          · simp only [MState.setSlot]
            split
            · rename_i e
              have hk : k ≠ key := fun e2 => hck ⟨e.symm, e2⟩
              simp only [MSlot.started]
              rw [e]
              have : key ≠ k := fun e2 => hk e2.symm
              simp [this]
            · rfl
          · rintro ⟨mode', _, e | ⟨v, e⟩⟩ <;>
              (simp only [Rec.mk.injEq, Op.list.injEq] at e; exact hck ⟨e.1.1, e.1.2.1⟩)
    cases obs <;> try exact quiet (by simp) (by simp) rfl
    · exact starting .pre (Or.inl rfl) (by simp only [monNext])
    · rename_i v hit
      apply quiet (by simp) (by simp)
      simp only [monNext]; split
      · rfl
      · st_tac
    · rename_i v
      exact starting (.held v) (Or.inr ⟨v, rfl⟩) (by simp only [monNext])
  | fill c k =>
    have hnr : ¬ Resets ⟨.fill c k, obs⟩ i := not_resets_of (by simp) (by simp) (by simp)
    have hnS : ¬ IsStart ⟨.fill c k, obs⟩ i key := by
      rintro ⟨mode, _, e | ⟨v, e⟩⟩ <;> cases e
    refine Or.inr ⟨hnr, ?_⟩
    have quiet : (∀ v hit, obs ≠ .ret v hit) → ((monNext m ⟨.fill c k, obs⟩).slots i).starts = (m.slots i).starts →
        (((monNext m ⟨.fill c k, obs⟩).slots i).starts key = (m.slots i).starts key ∧ ¬ IsStart ⟨.fill c k, obs⟩ i key ∧
          ¬ IsFill ⟨.fill c k, obs⟩ i key) ∨
        (IsStart ⟨.fill c k, obs⟩ i key ∧ ((monNext m ⟨.fill c k, obs⟩).slots i).starts key = (m.slots i).maxHandled key) ∨
        (IsFill ⟨.fill c k, obs⟩ i key ∧ ((monNext m ⟨.fill c k, obs⟩).slots i).starts key = 0) := by
      intro h1 he
      refine Or.inl ⟨by rw [he], hnS, ?_⟩
      rintro ⟨v, hit, e⟩
      simp only [Rec.mk.injEq] at e; exact h1 v hit e.2
    cases obs <;> try exact quiet (by simp) rfl
    rename_i v hit
    by_cases hck : c = i ∧ k = key
    · obtain ⟨rfl, rfl⟩ := hck
      exact Or.inr (Or.inr ⟨⟨v, hit, rfl⟩, by simp [monNext, MState.setSlot, MSlot.filled]⟩)
    · refine Or.inl ⟨?_, hnS, ?_⟩
      · simp only [monNext, MState.setSlot]
        split
        · rename_i e
          have hk : k ≠ key := fun e2 => hck ⟨e.symm, e2⟩
          have : key ≠ k := fun e2 => hk e2.symm
          simp only [MSlot.filled]
          rw [e]
          simp [this]
        · rfl
      · rintro ⟨v', hit', e⟩
        simp only [Rec.mk.injEq, Op.fill.injEq] at e
        exact hck ⟨e.1.1, e.1.2⟩

/-- **history of `starts`**: what the monitor remembers of a held call is the version announced by a notification
covering the key that the session handled before it started the call that is still held -/
theorem starts_history (tr : Trace) (i : Slot) (key : Key) :
    ((monAfter {} tr).slots i).starts key = 0 ∨
    ∃ q0 r0 p rp, q0 < tr.length ∧ tr[q0]? = some r0 ∧ IsStart r0 i key ∧ CallSpan tr q0 tr.length i key ∧
      p < q0 ∧ tr[p]? = some rp ∧ Delivers rp i key ∧ SameSession tr p q0 i ∧
      announcedAt tr p key = ((monAfter {} tr).slots i).starts key := by
  refine snoc_induction (P := fun tr => ((monAfter {} tr).slots i).starts key = 0 ∨
    ∃ q0 r0 p rp, q0 < tr.length ∧ tr[q0]? = some r0 ∧ IsStart r0 i key ∧ CallSpan tr q0 tr.length i key ∧
      p < q0 ∧ tr[p]? = some rp ∧ Delivers rp i key ∧ SameSession tr p q0 i ∧
      announcedAt tr p key = ((monAfter {} tr).slots i).starts key) ?_ ?_ tr
  · left; rfl
  · intro tr r ih
    rw [monAfter_snoc]
    rcases starts_step (monAfter {} tr) r i key with ⟨_, h0⟩ | ⟨hnr, ⟨hsame, hnS, hnF⟩ | ⟨hS, hnew⟩ | ⟨_, h0⟩⟩
    · exact Or.inl h0
    · rw [hsame]
      rcases ih with h0 | ⟨q0, r0, p, rp, hq0, hget0, hst, hspan, hp, hget, hdel, hss, hann⟩
      · exact Or.inl h0
      · right
        refine ⟨q0, r0, p, rp, by simp; omega, by rw [get_snoc_lt tr r hq0]; exact hget0, hst, ?_, hp,
          by rw [get_snoc_lt tr r (by omega)]; exact hget, hdel, (sameSession_of_snoc (by omega)).2 hss,
          by rw [announcedAt_snoc tr r (by omega)]; exact hann⟩
        intro j rj hj1 hj2 hgetj
        simp only [List.length_append, List.length_singleton] at hj2
        by_cases e : j < tr.length
        · rw [get_snoc_lt tr r e] at hgetj
          exact hspan j rj hj1 e hgetj
        · have : j = tr.length := by omega
          subst this
          rw [get_snoc_len] at hgetj
          simp only [Option.some.injEq] at hgetj
          rw [← hgetj]; exact ⟨hnr, hnS, hnF⟩
    · rw [hnew]
      rcases maxHandled_history tr i key with h0 | ⟨p, rp, hp, hget, hdel, hss, hann⟩
      · exact Or.inl h0
      · right
        refine ⟨tr.length, r, p, rp, by simp, get_snoc_len tr r, hS, ?_, hp, by rw [get_snoc_lt tr r hp]; exact hget, hdel,
          (sameSession_of_snoc (Nat.le_refl _)).2 hss, by rw [announcedAt_snoc tr r hp]; exact hann⟩
        intro j rj hj1 hj2 _
        simp only [List.length_append, List.length_singleton] at hj2
        omega
    · exact Or.inl h0

/-- a held call returns a version older than one its session had handled before the call started -/
theorem sound_staleCall_held (tr : Trace) (r : Rec) (h : Reports tr r .staleCall)
    (hl : ∃ i key v hit, r = ⟨.fill i key, .ret v hit⟩) : ¬ P_fresh_held (tr ++ [r]) := by
  intro hP
  obtain ⟨i, key, v, hit, er⟩ := hl
  rcases cache_source h rfl with ⟨_, _, _, _, _, er', _⟩ | ⟨i', key', v', hit', er', hlt, _⟩
  · rw [er] at er'; cases er'
  · rw [er] at er'
    simp only [Rec.mk.injEq, Op.fill.injEq, Obs.ret.injEq] at er'
    obtain ⟨⟨rfl, rfl⟩, rfl, rfl⟩ := er'
    rcases starts_history tr i key with h0 | ⟨q0, r0, p, rp, hq0, hget0, hst, hspan, hp, hget, hdel, hss, hann⟩
    · omega
    · have := hP tr.length i key v hit (by rw [get_snoc_len, er]) q0 r0 hq0 (by rw [get_snoc_lt tr r hq0]; exact hget0) hst
        (by
          intro j rj hj1 hj2 hgetj
          rw [get_snoc_lt tr r hj2] at hgetj
          exact hspan j rj hj1 hj2 hgetj)
        p rp hp (by rw [get_snoc_lt tr r (by omega)]; exact hget) hdel ((sameSession_of_snoc (by omega)).2 hss)
      rw [announcedAt_snoc tr r (by omega), hann] at this
      omega

/-- **staleCall, both sources**: the version a call returns — at once or after being held — is older than one announced
by a notification its session had handled before the call started -/
theorem sound_staleCall (tr : Trace) (r : Rec) (h : Reports tr r .staleCall) :
    ¬ (P_fresh_call (tr ++ [r]) ∧ P_fresh_held (tr ++ [r])) := by
  rintro ⟨h1, h2⟩
  rcases cache_source h rfl with ⟨i, key, mode, v, hit, er, _⟩ | ⟨i, key, v, hit, er, _, _⟩
  · exact sound_fresh_call tr r _ h (Or.inr (Or.inr rfl)) ⟨i, key, mode, v, hit, er⟩ h1
  · exact sound_staleCall_held tr r h ⟨i, key, v, hit, er⟩ h2


/-! ### the cache was invalidated -/

/-- the call of slot `i` for `key` is answered by the server (not from the client's cache) at once -/
def IsFetch (r : Rec) (i : Slot) (key : Key) : Prop := ∃ mode v, r = ⟨.list i key mode, .ret v false⟩

theorem iv_endListen (d : MSlot) (x : Nat) : (d.endListen x).invalidated = d.invalidated := by
  simp only [MSlot.endListen]; split <;> rfl
theorem iv_addListen (d : MSlot) (id : Nat) (ks : List Kind) (us : List Nat) : (d.addListen id ks us).invalidated = d.invalidated := by
  simp only [MSlot.addListen]; split <;> rfl
theorem iv_changeSlot (k : Kind) (b mx : Bool) (d : MSlot) : (changeSlot k b mx d).invalidated = d.invalidated := by
  simp only [changeSlot]
  generalize (if mx = true then addNew d.rmMixed k else d.rmMixed.filter (· != k)) = rm
  split <;> split <;> rfl
theorem iv_foldl {α} (f : MSlot → α → MSlot) (hf : ∀ d a, (f d a).invalidated = d.invalidated) (l : List α) (d : MSlot) :
    (l.foldl f d).invalidated = d.invalidated := by
  induction l generalizing d with
  | nil => rfl
  | cons a t ih => simp only [List.foldl_cons]; rw [ih, hf]
theorem iv_tbNext (m : MState) (tb : Tables) (i : Slot) : ((tbNext m tb).slots i).invalidated = (m.slots i).invalidated := by
  simp only [tbNext]
  split
  · rfl
  · rw [iv_foldl, iv_foldl]
    · intro d k; split <;> rfl
    · intro d u; split <;> rfl
theorem iv_setSlot (m : MState) (c i : Slot) (d : MSlot) (hd : d.invalidated = (m.slots c).invalidated) :
    ((m.setSlot c d).slots i).invalidated = (m.slots i).invalidated := by
  simp only [MState.setSlot]; split
  · rename_i e; rw [hd, e]
  · rfl
theorem iv_cbStepNext (m : MState) (k : Kind) (done : Bool) (i : Slot) : ((cbStepNext m k done).slots i).invalidated = (m.slots i).invalidated := by
  cases done
  · simp only [cbStepNext, Bool.false_eq_true, if_false]; split <;> rfl
  · simp only [cbStepNext, if_true]
    split
    · split <;> rfl
    · split <;> rfl

theorem iv_gotChanged (m : MState) (k : Kind) (d : MSlot) (key : Key) :
    (gotChanged m k d).invalidated key = (decide (key ∈ keysOfKind k) || d.invalidated key) := rfl

theorem iv_cbNext (m : MState) (k : Kind) (ds : List SDelivery) (i : Slot) (key : Key) :
    ((cbNext m k ds).slots i).invalidated key =
      if ds.any (·.slot == i) = true then (decide (key ∈ keysOfKind k) || (m.slots i).invalidated key)
      else (m.slots i).invalidated key := by
  simp only [cbNext]
  by_cases hg : ds.any (·.slot == i) = true
  · simp only [hg, if_true, iv_gotChanged]
  · have hg' : ds.any (·.slot == i) = false := by simpa using hg
    simp only [hg', Bool.false_eq_true, if_false]
    split <;> rfl

theorem iv_fsNext (m : MState) (k : Kind) (fan : MFan) (ds : List SDelivery) (done : Bool) (i : Slot) (key : Key) :
    ((fsNext m k fan ds done).slots i).invalidated key =
      if ds.any (·.slot == i) = true then (decide (key ∈ keysOfKind k) || (m.slots i).invalidated key)
      else (m.slots i).invalidated key := by
  by_cases hg : ds.any (·.slot == i) = true
  · cases done
    · simp only [fsNext, Bool.false_eq_true, if_false, hg, if_true, iv_gotChanged]
    · simp only [fsNext, if_true, hg]
      split <;> simp only [iv_gotChanged]
  · have hg' : ds.any (·.slot == i) = false := by simpa using hg
    cases done
    · simp only [fsNext, Bool.false_eq_true, if_false, hg']
    · simp only [fsNext, if_true, hg', Bool.false_eq_true, if_false]
      split <;> rfl

theorem iv_ruNext (m1 : MState) (v : Nat) (ds : List SDelivery) (i : Slot) (key : Key) :
    ((ruNext m1 v ds).slots i).invalidated key =
      if ds.any (·.slot == i) = true then (decide (key = .read v) || (m1.slots i).invalidated key)
      else (m1.slots i).invalidated key := by
  simp only [ruNext]
  by_cases hg : ds.any (·.slot == i) = true
  · simp only [hg, if_true]
    split <;> (simp only [MSlot.handled, List.mem_singleton])
  · have hg' : ds.any (·.slot == i) = false := by simpa using hg
    simp only [hg', Bool.false_eq_true, if_false]

macro "iv_tac" : tactic =>
  `(tactic| first
    | rfl
    | (apply iv_setSlot; first | rfl | exact iv_addListen _ _ _ _ | exact iv_endListen _ _))

/-- how one record can leave the monitor's "the cache of this key was invalidated" flag set -/
theorem invalidated_step (m : MState) (r : Rec) (i : Slot) (key : Key)
    (h : ((monNext m r).slots i).invalidated key = true) :
    Delivers r i key ∨ ((m.slots i).invalidated key = true ∧ ¬ Resets r i ∧ ¬ IsFetch r i key ∧ ¬ IsFill r i key) := by
  obtain ⟨op, obs⟩ := r
  have same : (∀ a b c h, op ≠ .config a b c h) → (∀ j sid mo mask, op ≠ .connect j sid mo mask) → (∀ j, op ≠ .close j) →
      (∀ j kk mode, op ≠ .list j kk mode) → (∀ j kk, op ≠ .fill j kk) →
      ((monNext m ⟨op, obs⟩).slots i).invalidated = (m.slots i).invalidated →
      Delivers ⟨op, obs⟩ i key ∨ ((m.slots i).invalidated key = true ∧ ¬ Resets ⟨op, obs⟩ i ∧ ¬ IsFetch ⟨op, obs⟩ i key ∧
        ¬ IsFill ⟨op, obs⟩ i key) := by
    intro h1 h2 h3 h4 h5 he
    refine Or.inr ⟨by rw [← he]; exact h, not_resets_of h1 h2 h3, ?_, ?_⟩
    · rintro ⟨mode, v, e⟩; simp only [Rec.mk.injEq] at e; exact h4 _ _ _ e.1
    · rintro ⟨v, hit, e⟩; simp only [Rec.mk.injEq] at e; exact h5 _ _ e.1
  cases op with
  | config ca cb cc hk => exact absurd h (by simp [monNext, freshState])
  | connect c sid mo mask =>
    have hnS : ¬ IsFetch ⟨.connect c sid mo mask, obs⟩ i key := by rintro ⟨mode, v, e⟩; cases e
    have hnF : ¬ IsFill ⟨.connect c sid mo mask, obs⟩ i key := by rintro ⟨v, hit, e⟩; cases e
    by_cases hok : obs.isOk = true
    · by_cases e : c = i
      · subst e
        exact absurd h (by simp [monNext, hok, MState.setSlot])
      · refine Or.inr ⟨?_, ?_, hnS, hnF⟩
        · have : i ≠ c := fun e2 => e e2.symm
          simpa [monNext, hok, MState.setSlot, this] using h
        · rintro (⟨_, _, _, _, e2⟩ | ⟨_, _, _, e2, _⟩ | ⟨e2, _⟩)
          · cases e2
          · simp only [Op.connect.injEq] at e2; exact e e2.1
          · cases e2
    · refine Or.inr ⟨?_, ?_, hnS, hnF⟩
      · simpa [monNext, hok] using h
      · rintro (⟨_, _, _, _, e2⟩ | ⟨_, _, _, _, e3⟩ | ⟨e2, _⟩)
        · cases e2
        · exact hok e3
        · cases e2
  | close c =>
    have hnS : ¬ IsFetch ⟨.close c, obs⟩ i key := by rintro ⟨mode, v, e⟩; cases e
    have hnF : ¬ IsFill ⟨.close c, obs⟩ i key := by rintro ⟨v, hit, e⟩; cases e
    by_cases hok : obs = .ok
    · subst hok
      by_cases e : c = i
      · subst e
        exact absurd h (by simp [monNext, MState.setSlot])
      · refine Or.inr ⟨?_, ?_, hnS, hnF⟩
        · have : i ≠ c := fun e2 => e e2.symm
          simpa [monNext, MState.setSlot, this] using h
        · rintro (⟨_, _, _, _, e2⟩ | ⟨_, _, _, e2, _⟩ | ⟨e2, _⟩)
          · cases e2
          · cases e2
          · simp only [Op.close.injEq] at e2; exact e e2
    · refine Or.inr ⟨?_, ?_, hnS, hnF⟩
      · have : monNext m ⟨.close c, obs⟩ = m := by cases obs <;> first | rfl | exact absurd rfl hok
        rw [this] at h; exact h
      · rintro (⟨_, _, _, _, e2⟩ | ⟨_, _, _, e2, _⟩ | ⟨_, e3⟩)
        · cases e2
        · cases e2
        · exact hok e3
  | ttl n => exact same (by simp) (by simp) (by simp) (by simp) (by simp) (by cases obs <;> rfl)
  | advance d => exact same (by simp) (by simp) (by simp) (by simp) (by simp) (by cases obs <;> rfl)
  | bad => exact same (by simp) (by simp) (by simp) (by simp) (by simp) (by cases obs <;> rfl)
  | fin => exact same (by simp) (by simp) (by simp) (by simp) (by simp) (by cases obs <;> rfl)
  | send c k => exact same (by simp) (by simp) (by simp) (by simp) (by simp) (by cases obs <;> rfl)
  | policy u rf => exact same (by simp) (by simp) (by simp) (by simp) (by simp) (by cases obs <;> rfl)
  | cbstep k =>
    refine same (by simp) (by simp) (by simp) (by simp) (by simp) ?_
    cases obs <;> try rfl
    exact iv_cbStepNext _ _ _ _
  | change f e =>
    refine same (by simp) (by simp) (by simp) (by simp) (by simp) ?_
    cases obs <;> try rfl
    show ((monChange m f e).slots i).invalidated = _
    simp only [monChange]
    split
    · rfl
    · split
      · rfl
      · exact iv_changeSlot _ _ _ _
  | tables =>
    refine same (by simp) (by simp) (by simp) (by simp) (by simp) ?_
    cases obs <;> try rfl
    exact iv_tbNext _ _ _
  | listen c hold =>
    refine same (by simp) (by simp) (by simp) (by simp) (by simp) ?_
    cases obs <;> try rfl
    iv_tac
  | xlisten c id ks us hold =>
    refine same (by simp) (by simp) (by simp) (by simp) (by simp) ?_
    cases obs <;> try rfl
    · simp only [monNext]; split
      · iv_tac
      · rfl
    · iv_tac
  | xend c id hold =>
    refine same (by simp) (by simp) (by simp) (by simp) (by simp) ?_
    cases obs <;> try rfl
    iv_tac
  | canceldone c id =>
    refine same (by simp) (by simp) (by simp) (by simp) (by simp) ?_
    cases obs <;> try rfl
    iv_tac
  | ackdone c id =>
    refine same (by simp) (by simp) (by simp) (by simp) (by simp) ?_
    simp only [monNext]; split
    · iv_tac
    · rfl
  | subscribe c u hold =>
    refine same (by simp) (by simp) (by simp) (by simp) (by simp) ?_
    simp only [monNext]
    split
    · split
      · split
        · iv_tac
        · rfl
      · rfl
    · split
      · iv_tac
      · iv_tac
      · rfl
  | unsubscribe c u hold =>
    refine same (by simp) (by simp) (by simp) (by simp) (by simp) ?_
    cases obs <;> try rfl
    · simp only [monNext]; split
      · iv_tac
      · iv_tac
    · iv_tac
  | cbrun k =>
    have hnr : ¬ Resets ⟨.cbrun k, obs⟩ i := not_resets_of (by simp) (by simp) (by simp)
    have hnS : ¬ IsFetch ⟨.cbrun k, obs⟩ i key := by rintro ⟨mode, v, e⟩; cases e
    have hnF : ¬ IsFill ⟨.cbrun k, obs⟩ i key := by rintro ⟨v, hit, e⟩; cases e
    cases obs <;> try exact Or.inr ⟨h, hnr, hnS, hnF⟩
    rename_i tt l
    simp only [monNext] at h
    cases hs : slotDeliveries l with
    | none => rw [hs] at h; exact Or.inr ⟨h, hnr, hnS, hnF⟩
    | some ds =>
      rw [hs] at h
      simp only [] at h
      rw [iv_cbNext] at h
      split at h
      · rename_i hc
        simp only [Bool.or_eq_true, decide_eq_true_eq] at h
        rcases h with hk | h
        · exact Or.inl (Or.inl ⟨k, ds, Or.inl ⟨tt, l, rfl, hs⟩, hk, any_slot.1 hc⟩)
        · exact Or.inr ⟨h, hnr, hnS, hnF⟩
      · exact Or.inr ⟨h, hnr, hnS, hnF⟩
  | fsend k =>
    have hnr : ¬ Resets ⟨.fsend k, obs⟩ i := not_resets_of (by simp) (by simp) (by simp)
    have hnS : ¬ IsFetch ⟨.fsend k, obs⟩ i key := by rintro ⟨mode, v, e⟩; cases e
    have hnF : ¬ IsFill ⟨.fsend k, obs⟩ i key := by rintro ⟨v, hit, e⟩; cases e
    cases obs <;> try exact Or.inr ⟨h, hnr, hnS, hnF⟩
    rename_i a tt l b
    simp only [monNext] at h
    cases hf : m.fans k with
    | none => rw [hf] at h; exact Or.inr ⟨h, hnr, hnS, hnF⟩
    | some fan =>
      rw [hf] at h
      cases hs : slotDeliveries l with
      | none => rw [hs] at h; exact Or.inr ⟨h, hnr, hnS, hnF⟩
      | some ds =>
        rw [hs] at h
        simp only [] at h
        rw [iv_fsNext] at h
        split at h
        · rename_i hc
          simp only [Bool.or_eq_true, decide_eq_true_eq] at h
          rcases h with hk | h
          · exact Or.inl (Or.inl ⟨k, ds, Or.inr ⟨a, tt, l, b, rfl, hs⟩, hk, any_slot.1 hc⟩)
          · exact Or.inr ⟨h, hnr, hnS, hnF⟩
        · exact Or.inr ⟨h, hnr, hnS, hnF⟩
  | rupdated u v =>
    have hnr : ¬ Resets ⟨.rupdated u v, obs⟩ i := not_resets_of (by simp) (by simp) (by simp)
    have hnS : ¬ IsFetch ⟨.rupdated u v, obs⟩ i key := by rintro ⟨mode, v, e⟩; cases e
    have hnF : ¬ IsFill ⟨.rupdated u v, obs⟩ i key := by rintro ⟨v, hit, e⟩; cases e
    cases obs <;> try exact Or.inr ⟨h, hnr, hnS, hnF⟩
    rename_i tt l
    simp only [monNext] at h
    cases hs : slotDeliveries l with
    | none => rw [hs] at h; exact Or.inr ⟨h, hnr, hnS, hnF⟩
    | some ds =>
      rw [hs] at h
      simp only [] at h
      rw [iv_ruNext] at h
      split at h
      · rename_i hc
        simp only [Bool.or_eq_true, decide_eq_true_eq] at h
        rcases h with hk | h
        · exact Or.inl (Or.inr ⟨u, v, ds, ⟨tt, l, rfl, hs⟩, hk, any_slot.1 hc⟩)
        · exact Or.inr ⟨h, hnr, hnS, hnF⟩
      · exact Or.inr ⟨h, hnr, hnS, hnF⟩
  | list c k mode =>
    have hnr : ¬ Resets ⟨.list c k mode, obs⟩ i := not_resets_of (by simp) (by simp) (by simp)
    have hnF : ¬ IsFill ⟨.list c k mode, obs⟩ i key := by rintro ⟨v, hit, e⟩; cases e
    have quiet : (∀ v, obs ≠ .ret v false) → ((monNext m ⟨.list c k mode, obs⟩).slots i).invalidated = (m.slots i).invalidated →
        Delivers ⟨.list c k mode, obs⟩ i key ∨ ((m.slots i).invalidated key = true ∧ ¬ Resets ⟨.list c k mode, obs⟩ i ∧
          ¬ IsFetch ⟨.list c k mode, obs⟩ i key ∧ ¬ IsFill ⟨.list c k mode, obs⟩ i key) := by
      intro h1 he
      refine Or.inr ⟨by rw [← he]; exact h, hnr, ?_, hnF⟩
      rintro ⟨mode', v, e⟩
      simp only [Rec.mk.injEq] at e; exact h1 v e.2
    cases obs <;> try exact quiet (by simp) rfl
    · apply quiet (by simp)
      simp only [monNext]; split
      · iv_tac
      · rfl
    · rename_i v hit
      cases hit
      · -- answered by the server: the flag of this key is cleared, the others stay
        by_cases hck : c = i ∧ k = key
        · obtain ⟨rfl, rfl⟩ := hck
          exact absurd h (by simp [monNext, MState.setSlot, MSlot.fetched])
        · refine Or.inr ⟨?_, hnr, ?_, hnF⟩
          · simp only [monNext, Bool.false_eq_true, if_false, MState.setSlot] at h
            split at h
            · rename_i e
              have hk : k ≠ key := fun e2 => hck ⟨e.symm, e2⟩
              have : key ≠ k := fun e2 => hk e2.symm
              simp only [MSlot.fetched, this, if_false] at h
              rw [← e] at h; exact h
            · exact h
          · rintro ⟨mode', v', e⟩
            simp only [Rec.mk.injEq, Op.list.injEq] at e
            exact hck ⟨e.1.1, e.1.2.1⟩
      · exact quiet (by simp) (by simp only [monNext, if_true])
    · apply quiet (by simp)
      simp only [monNext]; split
      · iv_tac
      · rfl
  | fill c k =>
    have hnr : ¬ Resets ⟨.fill c k, obs⟩ i := not_resets_of (by simp) (by simp) (by simp)
    have hnS : ¬ IsFetch ⟨.fill c k, obs⟩ i key := by rintro ⟨mode, v, e⟩; cases e
    have quiet : (∀ v hit, obs ≠ .ret v hit) → ((monNext m ⟨.fill c k, obs⟩).slots i).invalidated = (m.slots i).invalidated →
        Delivers ⟨.fill c k, obs⟩ i key ∨ ((m.slots i).invalidated key = true ∧ ¬ Resets ⟨.fill c k, obs⟩ i ∧
          ¬ IsFetch ⟨.fill c k, obs⟩ i key ∧ ¬ IsFill ⟨.fill c k, obs⟩ i key) := by
      intro h1 he
      refine Or.inr ⟨by rw [← he]; exact h, hnr, hnS, ?_⟩
      rintro ⟨v, hit, e⟩
      simp only [Rec.mk.injEq] at e; exact h1 v hit e.2
    cases obs <;> try exact quiet (by simp) rfl
    rename_i v hit
    by_cases hck : c = i ∧ k = key
    · obtain ⟨rfl, rfl⟩ := hck
      exact absurd h (by simp [monNext, MState.setSlot, MSlot.filled])
    · refine Or.inr ⟨?_, hnr, hnS, ?_⟩
      · simp only [monNext, MState.setSlot] at h
        split at h
        · rename_i e
          have hk : k ≠ key := fun e2 => hck ⟨e.symm, e2⟩
          have : key ≠ k := fun e2 => hk e2.symm
          simp only [MSlot.filled, this, if_false] at h
          rw [← e] at h; exact h
        · exact h
      · rintro ⟨v', hit', e⟩
        simp only [Rec.mk.injEq, Op.fill.injEq] at e
        exact hck ⟨e.1.1, e.1.2⟩


/-! ### cache hits after a notification -/

/-- once the session of a slot handled a notification covering a key, an answer from the client's cache needs a call
for that key that went to the server in between -/
def P_refetch (tr : Trace) : Prop :=
  ∀ (q : Nat) (i : Slot) (key : Key) (mode : Mode) (v : Nat), tr[q]? = some (⟨.list i key mode, .ret v true⟩ : Rec) →
    ∀ (p : Nat) (rp : Rec), p < q → tr[p]? = some rp → Delivers rp i key → SameSession tr p q i →
    ∃ j rj, p < j ∧ j < q ∧ tr[j]? = some rj ∧ (IsFetch rj i key ∨ IsFill rj i key)

/-- **history of `invalidated`** -/
theorem invalidated_history (tr : Trace) (i : Slot) (key : Key)
    (h : ((monAfter {} tr).slots i).invalidated key = true) :
    ∃ p rp, p < tr.length ∧ tr[p]? = some rp ∧ Delivers rp i key ∧ SameSession tr p tr.length i ∧
      ∀ j rj, p < j → j < tr.length → tr[j]? = some rj → ¬ IsFetch rj i key ∧ ¬ IsFill rj i key := by
  revert h
  refine snoc_induction (P := fun tr => ((monAfter {} tr).slots i).invalidated key = true →
    ∃ p rp, p < tr.length ∧ tr[p]? = some rp ∧ Delivers rp i key ∧ SameSession tr p tr.length i ∧
      ∀ j rj, p < j → j < tr.length → tr[j]? = some rj → ¬ IsFetch rj i key ∧ ¬ IsFill rj i key) ?_ ?_ tr
  · intro h; cases h
  · intro tr r ih h
    rw [monAfter_snoc] at h
    rcases invalidated_step (monAfter {} tr) r i key h with hd | ⟨hold, hnr, hnS, hnF⟩
    · refine ⟨tr.length, r, by simp, get_snoc_len tr r, hd, ?_, ?_⟩
      · intro j rj hj1 hj2 _
        simp only [List.length_append, List.length_singleton] at hj2
        omega
      · intro j rj hj1 hj2 _
        simp only [List.length_append, List.length_singleton] at hj2
        omega
    · obtain ⟨p, rp, hp, hget, hdel, hss, hno⟩ := ih hold
      refine ⟨p, rp, by simp; omega, by rw [get_snoc_lt tr r hp]; exact hget, hdel, ?_, ?_⟩
      · simp only [List.length_append, List.length_singleton]
        exact sameSession_snoc hss hnr
      · intro j rj hj1 hj2 hgetj
        simp only [List.length_append, List.length_singleton] at hj2
        by_cases e : j < tr.length
        · rw [get_snoc_lt tr r e] at hgetj
          exact hno j rj hj1 e hgetj
        · have : j = tr.length := by omega
          subst this
          rw [get_snoc_len] at hgetj
          simp only [Option.some.injEq] at hgetj
          rw [← hgetj]; exact ⟨hnS, hnF⟩

/-- the client answered from its cache although its session had handled a notification covering the key and had not
asked the server since -/
theorem sound_hitAfterInvalidate (tr : Trace) (r : Rec) (h : Reports tr r .hitAfterInvalidate) : ¬ P_refetch (tr ++ [r]) := by
  intro hP
  rcases cache_source h rfl with ⟨i, key, mode, v, hit, er, hck⟩ | ⟨_, _, _, _, _, _, e⟩
  · have hinv : hit = true ∧ ((monAfter {} tr).slots i).invalidated key = true := by
      simp only [checkRet] at hck
      split at hck
      · split at hck
        · cases hck
        · split at hck <;> cases hck
      · split at hck
        · rename_i hc
          simpa using hc
        · cases hck
    obtain ⟨rfl, hiv⟩ := hinv
    obtain ⟨p, rp, hp, hget, hdel, hss, hno⟩ := invalidated_history tr i key hiv
    obtain ⟨j, rj, hj1, hj2, hgetj, hf⟩ := hP tr.length i key mode v (by rw [get_snoc_len, er]) p rp hp
      (by rw [get_snoc_lt tr r hp]; exact hget) hdel ((sameSession_of_snoc (Nat.le_refl _)).2 hss)
    rw [get_snoc_lt tr r hj2] at hgetj
    have := hno j rj hj1 hj2 hgetj
    rcases hf with hf | hf
    · exact this.1 hf
    · exact this.2 hf
  · cases e

end Notify.Sound
