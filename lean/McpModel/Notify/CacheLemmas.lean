import McpModel.Notify.Cache
namespace Notify.Cache

/-- The inductive invariant of the repaired cache. -/
structure Inv (s : State) : Prop where
  inbox_le : ∀ n ∈ s.inbox, ∀ k, n.vers k ≤ s.srv k
  handled_le : ∀ k, s.handled k ≤ s.srv k
  entry_fresh : ∀ p ∈ s.entries, s.handled p.1 ≤ p.2.v
  fill_gen : ∀ f ∈ s.fills, f.gen ≤ s.gen
  fill_start : ∀ f ∈ s.fills, f.startMax ≤ s.srv f.key
  fill_resp : ∀ f ∈ s.fills, ∀ v ttl, f.stage = .responded v ttl → f.startMax ≤ v ∧ (f.gen = s.gen → s.handled f.key ≤ v)

theorem inv_init : Inv {} := by
  constructor <;> simp

theorem mem_of_getElem? {α} {l : List α} {i : Nat} {a : α} (h : l[i]? = some a) : a ∈ l :=
  List.mem_of_getElem? h

theorem inv_step (s : State) (l : Label) (h : Inv s) : Inv (step true s l).1 := by
  obtain ⟨h1, h2, h3, h4, h5, h6⟩ := h
  cases l with
  | tick d => exact ⟨h1, h2, h3, h4, h5, h6⟩
  | sub k => exact ⟨h1, h2, h3, h4, h5, h6⟩
  | unsub k => exact ⟨h1, h2, h3, h4, h5, h6⟩
  | bump p =>
    refine ⟨?_, ?_, h3, h4, ?_, h6⟩
    · intro n hn k; have := h1 n hn k; simp [step]; split <;> omega
    · intro k; have := h2 k; simp [step]; split <;> omega
    · intro f hf; have := h5 f hf; simp [step]; split <;> omega
  | announce sc =>
    refine ⟨?_, h2, h3, h4, h5, h6⟩
    intro n hn k
    simp [step] at hn
    rcases hn with hn | hn
    · exact h1 n hn k
    · subst hn; simp [step]
  | handle i =>
    simp only [step, handle]
    cases hi : s.inbox[i]? with
    | none => exact ⟨h1, h2, h3, h4, h5, h6⟩
    | some n =>
      have hn : n ∈ s.inbox := mem_of_getElem? hi
      refine ⟨?_, ?_, ?_, ?_, h5, ?_⟩
      · intro m hm k; exact h1 m (List.mem_of_mem_eraseIdx hm) k
      · intro k; simp; split
        · have := h1 n hn k; have := h2 k; omega
        · exact h2 k
      · intro p hp; simp at hp; simp [hp.2]; exact h3 p hp.1
      · intro f hf; have := h4 f hf; simp; omega
      · intro f hf v ttl hs
        refine ⟨(h6 f hf v ttl hs).1, ?_⟩
        intro hg; have := h4 f hf; simp at hg; omega
  | listStart k =>
    simp only [step, listStart]
    cases hl : s.entries.lookup k with
    | none =>
      refine ⟨h1, h2, h3, ?_, ?_, ?_⟩
      · intro f hf; simp at hf; rcases hf with hf | hf
        · exact h4 f hf
        · subst hf; simp
      · intro f hf; simp at hf; rcases hf with hf | hf
        · exact h5 f hf
        · subst hf; exact h2 k
      · intro f hf v ttl hs; simp at hf; rcases hf with hf | hf
        · exact h6 f hf v ttl hs
        · subst hf; simp at hs
    | some e =>
      simp only []
      split
      · exact ⟨h1, h2, h3, h4, h5, h6⟩
      · refine ⟨h1, h2, ?_, ?_, ?_, ?_⟩
        · intro p hp; simp at hp; exact h3 p hp.1
        · intro f hf; simp at hf; rcases hf with hf | hf
          · exact h4 f hf
          · subst hf; simp
        · intro f hf; simp at hf; rcases hf with hf | hf
          · exact h5 f hf
          · subst hf; exact h2 k
        · intro f hf v ttl hs; simp at hf; rcases hf with hf | hf
          · exact h6 f hf v ttl hs
          · subst hf; simp at hs
  | serve i ttl =>
    simp only [step, serve]
    cases hi : s.fills[i]? with
    | none => exact ⟨h1, h2, h3, h4, h5, h6⟩
    | some f =>
      have hf : f ∈ s.fills := mem_of_getElem? hi
      cases hst : f.stage with
      | responded v t => simp only [hst]; exact ⟨h1, h2, h3, h4, h5, h6⟩
      | sent =>
        simp only [hst]
        refine ⟨h1, h2, h3, ?_, ?_, ?_⟩
        · intro g hg
          rcases List.mem_or_eq_of_mem_set hg with hg | hg
          · exact h4 g hg
          · subst hg; exact h4 f hf
        · intro g hg
          rcases List.mem_or_eq_of_mem_set hg with hg | hg
          · exact h5 g hg
          · subst hg; exact h5 f hf
        · intro g hg v t hs
          rcases List.mem_or_eq_of_mem_set hg with hg | hg
          · exact h6 g hg v t hs
          · subst hg; simp at hs; obtain ⟨rfl, rfl⟩ := hs
            exact ⟨h5 f hf, fun _ => h2 f.key⟩
  | fill i =>
    simp only [step, fill]
    cases hi : s.fills[i]? with
    | none => exact ⟨h1, h2, h3, h4, h5, h6⟩
    | some f =>
      have hf : f ∈ s.fills := mem_of_getElem? hi
      cases hst : f.stage with
      | sent => simp only [hst]; exact ⟨h1, h2, h3, h4, h5, h6⟩
      | responded v t =>
        simp only [hst]
        refine ⟨h1, h2, ?_, ?_, ?_, ?_⟩
        · intro p hp
          simp at hp
          split at hp
          · simp at hp; rcases hp with hp | hp
            · exact h3 p hp.1
            · subst hp; rename_i hg; exact (h6 f hf v t hst).2 hg
          · exact h3 p hp
        · intro g hg; exact h4 g (List.mem_of_mem_eraseIdx hg)
        · intro g hg; exact h5 g (List.mem_of_mem_eraseIdx hg)
        · intro g hg; exact h6 g (List.mem_of_mem_eraseIdx hg)

end Notify.Cache
