import McpModel.Notify.BridgeOps11
/-!
# Bridge, part 8a: client calls (`list`)
-/
namespace Notify.Bridge
open Notify Notify.Mon Notify.Sys Generated.Notify
variable {seen : List Nat} {y : State} {m : MState}

theorem key_ext {a b : Key} (h1 : a.obj = b.obj) (h2 : a.idx = b.idx) : a = b := by
  cases a with
  | list f => cases b with
    | list g => cases f <;> cases g <;> simp_all [Key.obj, FSet.cache]
    | read u => cases f <;> simp [Key.obj, FSet.cache] at h1
  | read u => cases b with
    | list g => cases g <;> simp [Key.obj, FSet.cache] at h1
    | read w => simp only [Key.idx] at h2; rw [h2]

/-- one cache of one slot changes (a call starts, is answered, returns) -/
theorem cacheRel_call {cur : Key → Nat} {d : DSlot} {md md' : MSlot} (h : CacheRel cur d md) (key : Key)
    (c' : Cache.State) (held' : List Key)
    (a1 : d.modern = true → Cache.Inv c' ∧ c'.srv = (d.caches key.obj).srv ∧ c'.handled = (d.caches key.obj).handled ∧
      c'.inbox = (d.caches key.obj).inbox)
    (a2 : d.modern = true → ∀ key' : Key, key'.obj = key.obj → md'.invalidated key' = true → c'.entries.lookup key'.idx = none)
    (a3 : ∀ key' : Key, key'.obj ≠ key.obj → md'.invalidated key' = md.invalidated key' ∧ md'.starts key' = md.starts key' ∧
      (key' ∈ held' ↔ key' ∈ d.held))
    (a4 : (c'.fills.map (·.key)).Nodup)
    (a5 : ∀ key' : Key, key'.obj = key.obj → (key' ∈ held' ↔ ∃ f ∈ c'.fills, f.key = key'.idx))
    (a6 : d.modern = true → ∀ key' : Key, key'.obj = key.obj → ∀ f ∈ c'.fills, f.key = key'.idx → f.startMax = md'.starts key')
    (a7 : md'.maxHandled = md.maxHandled)
    (a8 : d.modern = false → ∀ key' : Key, key'.obj = key.obj → ∀ f ∈ c'.fills, f.key = key'.idx →
      md'.starts key' ≤ cur key' ∧ ∀ v ttl, f.stage = .responded v ttl → md'.starts key' ≤ v) :
    CacheRel cur { (d.setCache key.obj c') with held := held' } md' := by
  have hcach : ∀ o, ({ (d.setCache key.obj c') with held := held' } : DSlot).caches o = if o = key.obj then c' else d.caches o :=
    fun o => rfl
  have hmodern : ({ (d.setCache key.obj c') with held := held' } : DSlot).modern = d.modern := rfl
  constructor
  · intro hm o
    rw [hmodern] at hm
    rw [hcach]; split
    · exact (a1 hm).1
    · exact h.inv hm o
  · intro hm key'
    rw [hmodern] at hm
    rw [hcach]; split
    · rename_i e; rw [(a1 hm).2.1, ← e]; exact h.srv hm key'
    · exact h.srv hm key'
  · intro hm key'
    rw [hmodern] at hm
    rw [hcach, a7]; split
    · rename_i e; rw [(a1 hm).2.2.1, ← e]; exact h.handled hm key'
    · exact h.handled hm key'
  · intro hm key' hk
    rw [hmodern] at hm
    rw [hcach]; split
    · rename_i e; exact a2 hm key' e hk
    · rename_i e; rw [(a3 key' e).1] at hk; exact h.inval hm key' hk
  · intro hm o
    rw [hmodern] at hm
    rw [hcach]; split
    · rename_i e; rw [(a1 hm).2.2.2, ← e]; exact h.inbox hm o
    · exact h.inbox hm o
  · intro key'
    show key' ∈ held' ↔ _
    rw [hcach]; split
    · rename_i e; exact a5 key' e
    · rename_i e; rw [(a3 key' e).2.2]; exact h.held_fill key'
  · intro o
    rw [hcach]; split
    · exact a4
    · exact h.fill_uniq o
  · intro hm key' f hf
    rw [hmodern] at hm
    rw [hcach] at hf; split at hf
    · rename_i e; exact a6 hm key' e f hf
    · rename_i e; rw [(a3 key' e).2.1]; exact h.starts hm key' f hf
  · intro key'; rw [a7]; exact h.maxH_le key'
  · intro hm key' f hf
    rw [hmodern] at hm
    rw [hcach] at hf; split at hf
    · rename_i e; exact a8 hm key' e f hf
    · rename_i e; rw [(a3 key' e).2.1]; exact h.leg_fill hm key' f hf


/-! ### the transitions of one cache -/

theorem lookup_append_single_ne {β} (l : List (Nat × β)) (k a : Nat) (e : β) (hne : a ≠ k) (h : l.lookup a = none) :
    (l ++ [(k, e)]).lookup a = none := by
  induction l with
  | nil => rw [List.nil_append, lookup_cons_ne _ _ _ hne]; rfl
  | cons x t ih =>
    obtain ⟨h1, h2⟩ := lookup_cons_none x t a h
    rw [List.cons_append, lookup_cons_ne _ _ _ h1]
    exact ih h2

/-- `cachedListResult` / `get` finds a valid entry (hit), or starts a call (miss) -/
theorem listStart_cases (c : Cache.State) (k : Nat) :
    (∃ e, c.entries.lookup k = some e ∧ Cache.listStart c k = (c, [.ret k e.v (c.handled k) true])) ∨
    (∃ c1, Cache.listStart c k = (c1, []) ∧ c1.fills = c.fills ++ [⟨k, c.gen, .sent, c.handled k⟩] ∧
      c1.srv = c.srv ∧ c1.handled = c.handled ∧ c1.inbox = c.inbox ∧ c1.gen = c.gen ∧
      (∀ k', c.entries.lookup k' = none → c1.entries.lookup k' = none)) := by
  simp only [Cache.listStart]
  cases hl : c.entries.lookup k with
  | none =>
    right
    exact ⟨_, rfl, rfl, rfl, rfl, rfl, rfl, fun _ hx => hx⟩
  | some e =>
    simp only []
    by_cases hv : e.valid c.now = true
    · left; simp only [hv, if_true]; exact ⟨e, rfl, rfl⟩
    · right
      simp only [hv]
      exact ⟨_, rfl, rfl, rfl, rfl, rfl, rfl, fun k' hx => lookup_filter_of_none _ _ _ hx⟩

theorem getElem?_append_length {α} (l : List α) (a : α) : (l ++ [a])[l.length]? = some a := by
  simp

/-- the server answers the call that was started last -/
theorem serve_last (c1 : Cache.State) (fs : List Cache.Fill) (f : Cache.Fill) (ttl : Nat) (hf : c1.fills = fs ++ [f])
    (hs : f.stage = .sent) :
    Cache.serve c1 (c1.fills.length - 1) ttl = { c1 with fills := fs ++ [{ f with stage := .responded (c1.srv f.key) ttl }] } := by
  have hlen : c1.fills.length - 1 = fs.length := by rw [hf]; simp
  have hget : c1.fills[fs.length]? = some f := by rw [hf]; simp
  simp only [Cache.serve, hlen, hget, hs]
  congr 1
  rw [hf]
  simp

/-- the caller of the call that was started last resumes and stores the result -/
theorem fill_last (c2 : Cache.State) (fs : List Cache.Fill) (f : Cache.Fill) (v ttl : Nat) (hf : c2.fills = fs ++ [f])
    (hs : f.stage = .responded v ttl) (hg : f.gen = c2.gen) :
    Cache.fill true c2 (c2.fills.length - 1) =
      ({ c2 with fills := fs, entries := c2.entries.filter (fun p => p.1 != f.key) ++ [(f.key, ⟨v, ttl, c2.now⟩)] },
       [.ret f.key v f.startMax false]) := by
  have hlen : c2.fills.length - 1 = fs.length := by rw [hf]; simp
  have hget : c2.fills[fs.length]? = some f := by rw [hf]; simp
  simp only [Cache.fill, hlen, hget, hs, hg, beq_self_eq_true, Bool.not_true, Bool.false_or, if_true]
  congr 2
  rw [hf]
  rw [List.eraseIdx_append_of_length_le (Nat.le_refl _)]
  simp

theorem step_list_legacy_n (h : Rel seen y m) (i : Slot) (key : Key) (hint : Option Who)
    (hu : (y.slots i).used = true) (hmod : (y.slots i).modern = false) (hnh : (y.slots i).held.contains key = false) :
    monCheck m ⟨.list i key .n, .ret (curVersion y key) false⟩ = none ∧
    Rel seen y (monNext m ⟨.list i key .n, .ret (curVersion y key) false⟩) := by
  have hcr := h.cache i hu
  refine ⟨?_, ?_⟩
  · simp only [monCheck, checkRet]
    have := hcr.maxH_le key
    have hlt : ¬ curVersion y key < (m.slots i).maxHandled key := by omega
    simp [hlt]
  · show Rel seen y (m.setSlot i ((m.slots i).fetched key))
    have := rel_slot_tweak h i (y.slots i) ((m.slots i).fetched key)
      rfl rfl rfl rfl rfl (fun _ hx => hx) ?_ rfl rfl rfl rfl rfl
    · rw [setSlot_self] at this; exact this
    · intro hc
      exact ⟨fun hx => absurd hx (by simp [hmod]), fun hx => absurd hx (by simp [hmod]), fun hx => absurd hx (by simp [hmod]),
        fun hx => absurd hx (by simp [hmod]), fun hx => absurd hx (by simp [hmod]), hc.held_fill, hc.fill_uniq,
        fun hx => absurd hx (by simp [hmod]), hc.maxH_le, hc.leg_fill⟩

theorem not_held_no_fill {cur : Key → Nat} {d : DSlot} {md : MSlot} (hc : CacheRel cur d md) (key : Key)
    (hnh : d.held.contains key = false) : ∀ f ∈ (d.caches key.obj).fills, f.key ≠ key.idx := by
  intro f hf e
  have := (hc.held_fill key).2 ⟨f, hf, e⟩
  rw [List.contains_iff_mem.2 this] at hnh
  exact absurd hnh (by simp)

/-- a call that does not touch the monitor's or the model's slot beyond its cache -/
theorem rel_cache_op (h : Rel seen y m) (i : Slot) (key : Key) (c' : Cache.State) (held' : List Key) (md' : MSlot)
    (hc : CacheRel (curVersion y) (y.slots i) (m.slots i) →
      CacheRel (curVersion y) { ((y.slots i).setCache key.obj c') with held := held' } md')
    (m1 : md'.listens = (m.slots i).listens) (m2 : md'.luris = (m.slots i).luris) (m3 : md'.owed = (m.slots i).owed)
    (m4 : md'.connected = (m.slots i).connected) (m5 : md'.modern = (m.slots i).modern) :
    Rel seen (y.setSlot i { ((y.slots i).setCache key.obj c') with held := held' }) (m.setSlot i md') :=
  rel_slot_tweak h i _ md' rfl rfl rfl rfl rfl (fun _ hx => hx) hc m1 m2 m3 m4 m5

theorem list_modern_hit (h : Rel seen y m) (i : Slot) (key : Key) (mode : Mode) (hu : (y.slots i).used = true)
    (hmod : (y.slots i).modern = true) (e : Cache.Entry) (he : ((y.slots i).caches key.obj).entries.lookup key.idx = some e) :
    monCheck m ⟨.list i key mode, .ret e.v true⟩ = none ∧
    Rel seen (y.setSlot i ((y.slots i).setCache key.obj ((y.slots i).caches key.obj))) (monNext m ⟨.list i key mode, .ret e.v true⟩) := by
  have hcr := h.cache i hu
  have hinv := hcr.inv hmod key.obj
  refine ⟨?_, ?_⟩
  · simp only [monCheck, checkRet]
    have hfresh := hinv.entry_fresh _ (mem_of_lookup he)
    simp only [] at hfresh
    rw [hcr.handled hmod key] at hfresh
    have hlt : ¬ e.v < (m.slots i).maxHandled key := by omega
    have hni : (m.slots i).invalidated key = false := by
      cases hx : (m.slots i).invalidated key
      · rfl
      · have := hcr.inval hmod key hx
        rw [he] at this; simp at this
    simp [hlt, hni]
  · show Rel seen _ m
    have := rel_cache_op h i key ((y.slots i).caches key.obj) (y.slots i).held (m.slots i) ?_ rfl rfl rfl rfl rfl
    · rw [msetSlot_self] at this; exact this
    · intro hc
      exact hc.congr rfl (by funext o; simp only [DSlot.setCache]; split <;> simp_all) rfl rfl rfl rfl

/-- a call whose response is held starts: a new in-flight call `nf` for `key` -/
theorem cacheRel_start {cur : Key → Nat} {d : DSlot} {md : MSlot} (hc : CacheRel cur d md) (key : Key)
    (hnh : d.held.contains key = false) (c' : Cache.State) (nf : Cache.Fill)
    (hk : nf.key = key.idx) (hf : c'.fills = (d.caches key.obj).fills ++ [nf])
    (hm1 : d.modern = true → Cache.Inv c' ∧ c'.srv = (d.caches key.obj).srv ∧ c'.handled = (d.caches key.obj).handled ∧
      c'.inbox = (d.caches key.obj).inbox ∧
      (∀ k', (d.caches key.obj).entries.lookup k' = none → c'.entries.lookup k' = none) ∧
      nf.startMax = (d.caches key.obj).handled key.idx)
    (hl1 : d.modern = false → ∀ v ttl, nf.stage = .responded v ttl → v = cur key) :
    CacheRel cur { (d.setCache key.obj c') with held := d.held ++ [key] } (md.started key) := by
  have hnf := not_held_no_fill hc key hnh
  have hkey : ∀ key' : Key, key'.obj = key.obj → key'.idx = key.idx → key' = key := fun key' e1 e2 => key_ext e1 e2
  refine cacheRel_call hc key c' (d.held ++ [key]) ?_ ?_ ?_ ?_ ?_ ?_ rfl ?_
  · intro hm; obtain ⟨b1, b2, b3, b4, _, _⟩ := hm1 hm; exact ⟨b1, b2, b3, b4⟩
  · intro hm key' ho hi
    exact (hm1 hm).2.2.2.2.1 _ (by rw [← ho]; exact hc.inval hm key' hi)
  · intro key' ho
    have hne : key' ≠ key := fun e => ho (by rw [e])
    refine ⟨rfl, ?_, ?_⟩
    · simp only [MSlot.started, hne, if_false]
    · simp [hne]
  · rw [hf, List.map_append, List.nodup_append]
    refine ⟨hc.fill_uniq _, by simp, ?_⟩
    intro a ha b hb
    simp only [List.map_cons, List.map_nil, List.mem_singleton] at hb
    subst hb
    obtain ⟨f, hf', rfl⟩ := List.mem_map.1 ha
    rw [hk]
    exact hnf f hf'
  · intro key' ho
    rw [hf]
    simp only [List.mem_append, List.mem_singleton]
    constructor
    · rintro (hx | rfl)
      · obtain ⟨f, hf', e⟩ := (hc.held_fill key').1 hx
        rw [ho] at hf'
        exact ⟨f, Or.inl hf', e⟩
      · exact ⟨nf, Or.inr rfl, hk⟩
    · rintro ⟨f, (hf' | rfl), e⟩
      · left; exact (hc.held_fill key').2 ⟨f, by rw [ho]; exact hf', e⟩
      · right; exact hkey key' ho (by rw [← e, hk])
  · intro hm key' ho f hf' e
    rw [hf] at hf'
    rcases List.mem_append.1 hf' with hf' | hf'
    · have hne : key' ≠ key := by
        intro e2; subst e2; exact hnf f hf' e
      simp only [MSlot.started, hne, if_false]
      exact hc.starts hm key' f (by rw [ho]; exact hf') e
    · simp only [List.mem_singleton] at hf'
      subst hf'
      have : key' = key := hkey key' ho (by rw [← e, hk])
      subst this
      simp only [MSlot.started, if_true]
      rw [(hm1 hm).2.2.2.2.2, hc.handled hm key']
  · intro hm key' ho f hf' e
    rw [hf] at hf'
    rcases List.mem_append.1 hf' with hf' | hf'
    · have hne : key' ≠ key := by
        intro e2; subst e2; exact hnf f hf' e
      simp only [MSlot.started, hne, if_false]
      exact hc.leg_fill hm key' f (by rw [ho]; exact hf') e
    · simp only [List.mem_singleton] at hf'
      subst hf'
      have : key' = key := hkey key' ho (by rw [← e, hk])
      subst this
      simp only [MSlot.started, if_true]
      refine ⟨hc.maxH_le key', ?_⟩
      intro v ttl hs
      rw [hl1 hm v ttl hs]
      exact hc.maxH_le key'

/-- a call for `key` was answered and its result stored -/
theorem cacheRel_fetch {cur : Key → Nat} {d : DSlot} {md : MSlot} (hc : CacheRel cur d md) (key : Key) (c' : Cache.State)
    (hm : d.modern = true) (b1 : Cache.Inv c') (b2 : c'.srv = (d.caches key.obj).srv)
    (b3 : c'.handled = (d.caches key.obj).handled) (b4 : c'.inbox = (d.caches key.obj).inbox)
    (b5 : c'.fills = (d.caches key.obj).fills)
    (b6 : ∀ k', k' ≠ key.idx → (d.caches key.obj).entries.lookup k' = none → c'.entries.lookup k' = none) :
    CacheRel cur { (d.setCache key.obj c') with held := d.held } (md.fetched key) := by
  refine cacheRel_call hc key c' d.held (fun _ => ⟨b1, b2, b3, b4⟩) ?_ ?_ ?_ ?_ ?_ rfl ?_
  · intro _ key' ho hi
    have hne : key' ≠ key := by
      intro e; subst e; simp [MSlot.fetched] at hi
    have hidx : key'.idx ≠ key.idx := fun e => hne (key_ext ho e)
    simp only [MSlot.fetched, hne, if_false] at hi
    exact b6 _ hidx (by rw [← ho]; exact hc.inval hm key' hi)
  · intro key' ho
    have hne : key' ≠ key := fun e => ho (by rw [e])
    exact ⟨by simp only [MSlot.fetched, hne, if_false], rfl, Iff.rfl⟩
  · rw [b5]; exact hc.fill_uniq _
  · intro key' ho
    rw [b5, ← ho]; exact hc.held_fill key'
  · intro _ key' ho f hf e
    rw [b5, ← ho] at hf
    exact hc.starts hm key' f hf e
  · intro hl; rw [hm] at hl; exact absurd hl (by simp)

theorem list_modern_miss_n (h : Rel seen y m) (i : Slot) (key : Key) (hu : (y.slots i).used = true)
    (hmod : (y.slots i).modern = true) (c1 : Cache.State)
    (hls : Cache.listStart ((y.slots i).caches key.obj) key.idx = (c1, [])) (ttl : Nat)
    (h1 : c1.fills = ((y.slots i).caches key.obj).fills ++ [⟨key.idx, ((y.slots i).caches key.obj).gen, .sent, ((y.slots i).caches key.obj).handled key.idx⟩])
    (h2 : c1.srv = ((y.slots i).caches key.obj).srv) (h3 : c1.handled = ((y.slots i).caches key.obj).handled)
    (h4 : c1.inbox = ((y.slots i).caches key.obj).inbox) (h5 : c1.gen = ((y.slots i).caches key.obj).gen)
    (h6 : ∀ k', ((y.slots i).caches key.obj).entries.lookup k' = none → c1.entries.lookup k' = none) :
    monCheck m ⟨.list i key .n, .ret (c1.srv key.idx) false⟩ = none ∧
    Rel seen (y.setSlot i ((y.slots i).setCache key.obj
      (Cache.step true (Cache.step true c1 (.serve (c1.fills.length - 1) ttl)).1 (.fill (c1.fills.length - 1))).1))
      (monNext m ⟨.list i key .n, .ret (c1.srv key.idx) false⟩) := by
  have hcr := h.cache i hu
  have hinv := hcr.inv hmod key.obj
  have hinv1 : Cache.Inv c1 := by
    have := Cache.inv_step _ (.listStart key.idx) hinv
    simp only [Cache.step, hls] at this
    exact this
  have hserve := serve_last c1 _ _ ttl h1 rfl
  have hinv2 : Cache.Inv (Cache.serve c1 (c1.fills.length - 1) ttl) := Cache.inv_step _ (.serve _ ttl) hinv1
  rw [hserve] at hinv2
  have hfill := fill_last { c1 with fills := ((y.slots i).caches key.obj).fills ++
      [{ (⟨key.idx, ((y.slots i).caches key.obj).gen, .sent, ((y.slots i).caches key.obj).handled key.idx⟩ : Cache.Fill) with
          stage := .responded (c1.srv key.idx) ttl }] }
    ((y.slots i).caches key.obj).fills _ (c1.srv key.idx) ttl rfl rfl h5.symm
  have hlen : ({ c1 with fills := ((y.slots i).caches key.obj).fills ++
      [{ (⟨key.idx, ((y.slots i).caches key.obj).gen, .sent, ((y.slots i).caches key.obj).handled key.idx⟩ : Cache.Fill) with
          stage := .responded (c1.srv key.idx) ttl }] } : Cache.State).fills.length - 1 = c1.fills.length - 1 := by
    rw [h1]; simp
  have hinv3 := Cache.inv_step _ (.fill (c1.fills.length - 1)) hinv2
  simp only [Cache.step, hserve]
  rw [← hlen, hfill]
  rw [← hlen] at hinv3
  simp only [Cache.step, hfill] at hinv3
  refine ⟨?_, ?_⟩
  · simp only [monCheck, checkRet]
    have hle := hinv.handled_le key.idx
    rw [hcr.handled hmod key, ← h2] at hle
    have hlt : ¬ c1.srv key.idx < (m.slots i).maxHandled key := by omega
    simp [hlt]
  · show Rel seen _ (m.setSlot i ((m.slots i).fetched key))
    refine rel_cache_op h i key _ (y.slots i).held _ (fun hc => ?_) rfl rfl rfl rfl rfl
    refine cacheRel_fetch hc key _ hmod hinv3 h2 h3 h4 rfl ?_
    intro k' hne hl
    exact lookup_append_single_ne _ _ _ _ hne (lookup_filter_of_none _ _ _ (h6 k' hl))

theorem step_list (h : Rel seen y m) (i : Slot) (key : Key) (mode : Mode) (hint : Option Who) :
    StepOk seen y m (.list i key mode) hint := by
  unfold StepOk
  have hstep : ∀ c k, Cache.step true c (.listStart k) = Cache.listStart c k := fun _ _ => rfl
  cases mode <;> simp only [sysStep]
  · -- n
    split
    · exact ⟨rfl, h⟩
    · rename_i hg
      simp only [Bool.or_eq_true, not_or, Bool.not_eq_true', Bool.not_eq_false, Bool.not_eq_true] at hg
      obtain ⟨⟨hu, hc⟩, hnh⟩ := hg
      have hu : (y.slots i).used = true := by simpa using hu
      split
      · rename_i hmod
        have hmod : (y.slots i).modern = false := by simpa using hmod
        exact step_list_legacy_n h i key hint hu hmod hnh
      · rename_i hmod
        have hmod : (y.slots i).modern = true := by simpa using hmod
        rcases listStart_cases ((y.slots i).caches key.obj) key.idx with ⟨e, he, hls⟩ | ⟨c1, hls, h1, h2, h3, h4, h5, h6⟩
        · rw [hstep, hls]
          exact list_modern_hit h i key .n hu hmod e he
        · rw [hstep, hls]
          exact list_modern_miss_n h i key hu hmod c1 hls y.ttl h1 h2 h3 h4 h5 h6
  · -- post
    split
    · exact ⟨rfl, h⟩
    · rename_i hg
      simp only [Bool.or_eq_true, not_or, Bool.not_eq_true', Bool.not_eq_false, Bool.not_eq_true] at hg
      obtain ⟨⟨hu, hc⟩, hnh⟩ := hg
      have hu : (y.slots i).used = true := by simpa using hu
      split
      · rename_i hmod
        have hmod : (y.slots i).modern = false := by simpa using hmod
        refine ⟨rfl, ?_⟩
        show Rel seen _ (m.setSlot i ((m.slots i).started key))
        refine rel_cache_op h i key _ _ _ (fun hc => ?_) rfl rfl rfl rfl rfl
        refine cacheRel_start hc key hnh _ ⟨key.idx, 0, .responded (curVersion y key) y.ttl, 0⟩ rfl rfl
          (fun hx => absurd hx (by simp [hmod])) ?_
        intro _ v ttl hs
        simp only [Cache.Stage.responded.injEq] at hs
        exact hs.1.symm
      · rename_i hmod
        have hmod : (y.slots i).modern = true := by simpa using hmod
        rcases listStart_cases ((y.slots i).caches key.obj) key.idx with ⟨e, he, hls⟩ | ⟨c1, hls, h1, h2, h3, h4, h5, h6⟩
        · rw [hstep, hls]
          exact list_modern_hit h i key .post hu hmod e he
        · rw [hstep, hls]
          simp only []
          have hcr := h.cache i hu
          have hinv1 : Cache.Inv c1 := by
            have := Cache.inv_step _ (.listStart key.idx) (hcr.inv hmod key.obj)
            simp only [Cache.step, hls] at this
            exact this
          have hserve := serve_last c1 _ _ y.ttl h1 rfl
          have hinv2 : Cache.Inv (Cache.serve c1 (c1.fills.length - 1) y.ttl) := Cache.inv_step _ (.serve _ y.ttl) hinv1
          simp only [Cache.step]
          rw [hserve] at hinv2 ⊢
          refine ⟨rfl, ?_⟩
          show Rel seen _ (m.setSlot i ((m.slots i).started key))
          refine rel_cache_op h i key _ _ _ (fun hc => ?_) rfl rfl rfl rfl rfl
          exact cacheRel_start hc key hnh _ _ rfl rfl (fun _ => ⟨hinv2, h2, h3, h4, h6, rfl⟩)
            (fun hx => absurd hx (by simp [hmod]))
  · -- pre
    split
    · exact ⟨rfl, h⟩
    · rename_i hg
      simp only [Bool.or_eq_true, not_or, Bool.not_eq_true', Bool.not_eq_false, Bool.not_eq_true] at hg
      obtain ⟨⟨hu, hc⟩, hnh⟩ := hg
      have hu : (y.slots i).used = true := by simpa using hu
      split
      · rename_i hmod
        have hmod : (y.slots i).modern = false := by simpa using hmod
        refine ⟨rfl, ?_⟩
        show Rel seen _ (m.setSlot i ((m.slots i).started key))
        refine rel_cache_op h i key _ _ _ (fun hc => ?_) rfl rfl rfl rfl rfl
        refine cacheRel_start hc key hnh _ ⟨key.idx, 0, .sent, 0⟩ rfl rfl
          (fun hx => absurd hx (by simp [hmod])) ?_
        intro _ v ttl hs
        simp at hs
      · rename_i hmod
        have hmod : (y.slots i).modern = true := by simpa using hmod
        rcases listStart_cases ((y.slots i).caches key.obj) key.idx with ⟨e, he, hls⟩ | ⟨c1, hls, h1, h2, h3, h4, h5, h6⟩
        · rw [hstep, hls]
          exact list_modern_hit h i key .pre hu hmod e he
        · rw [hstep, hls]
          simp only []
          have hcr := h.cache i hu
          have hinv1 : Cache.Inv c1 := by
            have := Cache.inv_step _ (.listStart key.idx) (hcr.inv hmod key.obj)
            simp only [Cache.step, hls] at this
            exact this
          refine ⟨rfl, ?_⟩
          show Rel seen _ (m.setSlot i ((m.slots i).started key))
          refine rel_cache_op h i key _ _ _ (fun hc => ?_) rfl rfl rfl rfl rfl
          exact cacheRel_start hc key hnh c1 _ rfl h1 (fun _ => ⟨hinv1, h2, h3, h4, h6, rfl⟩)
            (fun hx => absurd hx (by simp [hmod]))
end Notify.Bridge
