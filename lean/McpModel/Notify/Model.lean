import McpModel.Generated.NotifyGen
/-
E14 — server side of change notifications (mcp/server.go:697-826, 1125-1281, 1342-1357).  Serves C18.

One `Label` is one atomic section of the Go code: a critical section under `Server.mu`
(changeAndNotify, the snapshot half of notifySessions, bind, disconnect, the registration and the
deferred clean-up of subscriptionsListen, subscribe, unsubscribe, the lookup half of
ResourceUpdated), or a runtime event (virtual time passing, a `time.AfterFunc` timer firing —
which only *starts* the callback goroutine; the callback takes the lock in its own label `cbrun`).
A schedule is a list of labels; "for all schedules" is "for all label lists".

The debounce timers of one notification kind are modelled as
  `tracked`  — `pendingNotifications[n]`: `none` = nil; `some (some d)` = a timer armed for instant
               `d`; `some none` = a timer that has fired and was not re-armed;
  `orphans`  — deadlines of armed timers that are no longer in `pendingNotifications` (a callback
               set the slot to nil while `Reset` had re-armed the timer it came from);
  `pending`  — callbacks started by a firing timer that have not yet taken `Server.mu`.
`Timer.Reset` on a fired `AfterFunc` timer re-arms it (trusted runtime semantics, DESIGN §3).

The model describes the REPAIRED tree: the deferred clean-up of `subscriptionsListen` touches only
table entries that carry the id of the listen that ends (fixes/F19-listen-cleanup-by-id.patch), and
such an entry is handed over to the newest other open stream of the session that was granted the same
notification (fixes/notify-F30-overlapping-listens.patch; `Server.listens` is the field `listens`).

A `subscriptionsListen` handler is TWO labels: `listen` = its registration section under `Server.mu`
(the list-changed tables, resp. the one `subscribe` call), `listenAck` = the write of
`notifications/subscriptions/acknowledged`.  Every other label may be scheduled between the two, and
between the acknowledgement and whatever the handler does next (nothing, in the code that exists:
it parks on `ctx.Done()`).  `ack_after_registration` (Props.lean) is the statement that the code
registers BEFORE it acknowledges: from the instant the client can hold the acknowledgement, every
`notifySessions` snapshot and every `ResourceUpdated` lookup finds the session.

`notifySessions(k)` is a SNAPSHOT under the lock (`cbrun`: the send list is fixed, the timer slot is
cleared) followed by a fan-out loop that writes to one session after the other WITHOUT the lock; a
write may block (back-pressure of one transport, a sending middleware).  The writes are the labels
`deliver k i`: `KState.inflight` holds the sends of every snapshot of kind `k` whose write is still
to come (of any number of concurrent fan-outs), and any other label — a change, a timer, another
callback, a close — may be scheduled between two writes.  A write to a session that has been closed
meanwhile fails (nothing is sent).

A `subscriptions/listen` request may name any number of list-changed kinds AND any number of distinct
URIs (a raw peer; the SDK client sends kinds only, or exactly one URI).  Its registration is, in the
Go code, one critical section for the list-changed tables followed by one `subscribe` call per URI
(each first asks `ServerOptions.SubscribeHandler`); they are ONE label here (`listen`: the handler
accepts every URI; `listenRefused … n`: it refuses the URI at index `n` — the handler has then
registered the kinds and the URIs before it, returns the error, and its deferred functions run: the
label is literally `listenEnd` after the partial `listen`).

`updatedNamed u v` is a `ResourceUpdated` fan-out to the subscribers of `u` whose notification NAMES
`v` (a server that reports a sub-resource of what the client subscribed to — legal per the protocol
text quoted at `ResourceUpdatedNotificationParams.URI`; `updated u` is the case `v = u`).

Environment assumptions, enforced as guards of the labels (a label whose guard fails is a no-op):
`subscriptions/listen` is opened only on a 2026-07-28 session, the request ids of the open listens of
one session are distinct (JSON-RPC), the URIs of one listen are distinct, and `resources/subscribe` /
`resources/unsubscribe` are used only by legacy sessions (`ClientSession.Subscribe` does exactly
this).  ANY number of open listens of one session may ask for the same kind or the same URI, and
they end in any order.

`listens` is `Server.listens` (open streams, NEWEST FIRST here, oldest first in Go) and at the same
time the record of the live handlers the theorems speak about: it is written only by the labels that
are the begin and the end of a handler (`listen_recorded`, `listens_persist` in Props.lean).
Ghost fields (never read by the modelled code): `owed`, `acked`, `rlive`.
Core Lean only (linked into the driver).
-/
namespace Notify
open Generated.Notify

/-- Protocol generation of a server session: `uninit` = bound, no InitializeParams yet. -/
inductive Gen where
  | uninit | legacy | modern
deriving DecidableEq, Repr

/-- `ServerOptions.Capabilities.<X>`: nil, `{ListChanged: true}`, `{ListChanged: false}`. -/
inductive Cap where
  | unset | on | off
deriving DecidableEq, Repr

/-- What a feature-set mutation does: `noop` = `change()` returned false (nothing removed);
`removeN n mixed` = one `Remove*(names…)` call that named `n ≥ 1` registered features (`mixed`: together with names
that were not registered, or no longer when the loop of `featureSet.remove` reached them — the model does not read it). -/
inductive Eff where
  | add | replace | remove | noop
  | removeN (n : Nat) (mixed : Bool)
deriving DecidableEq, Repr

/-- how a name of a `Remove*(names…)` call relates to the feature set when the loop of `featureSet.remove` reaches it:
`absent` = never registered, or removed earlier in the same call (a repeated name) -/
inductive NameAt where
  | present | absent
deriving DecidableEq, Repr

/-- `featureSet.remove(uids…)` as the server sees it: the call is a change iff SOME named feature was present
(`changed` is set in the loop, never reset), and it removes every present one -/
def removeEff (names : List NameAt) : Eff :=
  if names.count .present = 0 then .noop else .removeN (names.count .present) (names.contains .absent)

def delay : Nat := notificationDelayMs

structure Send where
  sid : Nat
  stamp : Option Nat
deriving DecidableEq, Repr

structure KState where
  tracked : Option (Option Nat) := none
  orphans : List Nat := []
  pending : Nat := 0
  /-- `toolChangeSubscriptions` etc.: session id ↦ listen request id -/
  subs : List (Nat × Nat) := []
  /-- sends of snapshots already taken whose write is still to come (fan-out loops in progress) -/
  inflight : List Send := []

/-- `listenStream`: a live `subscriptionsListen` handler (from its registration section on) and what
it was granted (`allowed`) -/
structure Listen where
  sid : Nat
  id : Nat
  kinds : List Kind
  uris : List Nat
deriving DecidableEq, Repr

structure Server where
  cap : Kind → Cap
  now : Nat
  ver : FSet → Nat
  cnt : FSet → Nat
  sessions : List (Nat × Gen)
  ks : Kind → KState
  /-- `resourceSubscriptions`: (uri, session id, request id) -/
  rsubs : List (Nat × Nat × Nat)
  /-- ghost: (session, kind) — the session has been connected since a gated change of that kind
  that no snapshot has covered yet -/
  owed : List (Nat × Kind)
  /-- `Server.listens`: the open streams, newest first -/
  listens : List Listen
  /-- ghost: (session, listen id) — live listen handlers that have written their acknowledgement,
  i.e. subscriptions the CLIENT may know to be live -/
  acked : List (Nat × Nat)
  /-- ghost: (session, uri) — `resources/subscribe` requests of legacy sessions that were registered
  and not yet undone (the live subscriptions of a 2026-07-28 session are the grants of its open
  listens) -/
  rlive : List (Nat × Nat)

def init (cap : Kind → Cap) : Server :=
  { cap := cap, now := 0, ver := fun _ => 0, cnt := fun _ => 0, sessions := [], ks := fun _ => {},
    rsubs := [], owed := [], listens := [], acked := [], rlive := [] }

inductive Out where
  /-- one run of `notifySessions(n)`: the snapshot's send list -/
  | changed (k : Kind) (to : List Send)
  | updated (uri : Nat) (to : List Send)
  | ack (sid id : Nat) (kinds : List Kind) (uris : List Nat)
  /-- one write of a fan-out loop of `notifySessions(k)` -/
  | sent (k : Kind) (x : Send)
  /-- a `ResourceUpdated` fan-out to the subscribers of `uri` whose notification names `named` -/
  | updatedNamed (uri named : Nat) (to : List Send)
deriving Repr, DecidableEq

inductive Label where
  | change (f : FSet) (e : Eff)
  | tick (d : Nat)
  | fireTracked (k : Kind)
  | fireOrphan (k : Kind) (i : Nat)
  | cbrun (k : Kind)
  | deliver (k : Kind) (i : Nat)
  | bind (sid : Nat)
  | hello (sid : Nat) (modern : Bool)
  | listen (sid id : Nat) (kinds : List Kind) (uris : List Nat)
  | listenRefused (sid id : Nat) (kinds : List Kind) (uris : List Nat) (n : Nat)
  | listenAck (sid id : Nat)
  | listenEnd (sid id : Nat)
  | subscribe (sid id uri : Nat)
  | unsubscribe (sid uri : Nat)
  | close (sid : Nat)
  | updated (uri : Nat)
  | updatedNamed (uri named : Nat)
deriving Repr

def setK (s : Server) (k : Kind) (f : KState → KState) : Server :=
  { s with ks := fun k' => if k' = k then f (s.ks k') else s.ks k' }

/-- `shouldSendListChangedNotification` (with `opts.Capabilities` non-nil fields only). -/
def gateSend (s : Server) (k : Kind) : Bool :=
  match sendGate k with
  | none => true
  | some g => s.cap g != .off

def hasFeatures (s : Server) : Kind → Bool
  | .tools => s.cnt .tools > 0
  | .prompts => s.cnt .prompts > 0
  | .resources => s.cnt .resources > 0 || s.cnt .templates > 0

/-- `Server.capabilities()`: a capability left unset is inferred from the features present. -/
def effCap (s : Server) (g : Kind) : Bool :=
  match s.cap g with
  | .on => true
  | .off => false
  | .unset => hasFeatures s g

/-- `allowedSubscriptions`, list-changed part. -/
def gateListen (s : Server) (k : Kind) : Bool :=
  match listenGate k with
  | none => false
  | some g => effCap s g

/-- `allowedSubscriptions`, resource part: `caps.Resources != nil && caps.Resources.Subscribe`
(the harness sets `Subscribe: true` whenever it sets `Resources`, and a SubscribeHandler always). -/
def resSub (s : Server) : Bool :=
  match s.cap .resources with
  | .unset => hasFeatures s .resources
  | _ => true

def active (st : KState) : Prop :=
  (∃ d, st.tracked = some (some d)) ∨ st.orphans ≠ [] ∨ 0 < st.pending

def genOf (s : Server) (sid : Nat) : Gen := (s.sessions.lookup sid).getD .uninit

def put (l : List (Nat × Nat)) (sid id : Nat) : List (Nat × Nat) :=
  l.filter (fun p => p.1 != sid) ++ [(sid, id)]

/-! ### the atomic sections -/

/-- The feature-set mutation itself (`change()` returned true): version and size move. -/
def bumpVer (s : Server) (f : FSet) (e : Eff) : Server :=
  { s with
    ver := fun f' => if f' = f then s.ver f + 1 else s.ver f',
    cnt := fun f' => if f' = f then (match e with | .add => s.cnt f + 1 | .remove => s.cnt f - 1 | .removeN n _ => s.cnt f - n | _ => s.cnt f)
                     else s.cnt f' }

/-- The body of `if change() && s.shouldSendListChangedNotification(n)`: stop-and-forget when no
session is connected, otherwise create or reset the timer. -/
def arm (s : Server) (k : Kind) : Server :=
  if s.sessions = [] then setK s k (fun st => { st with tracked := none })
  else { setK s k (fun st => { st with tracked := some (some (s.now + delay)) }) with
         owed := s.owed ++ s.sessions.map (fun p => (p.1, k)) }

def notifyChange (s : Server) (k : Kind) : Server := if gateSend s k then arm s k else s

/-- `changeAndNotify`, one critical section under `Server.mu`. -/
def change (s : Server) (f : FSet) (e : Eff) : Server :=
  if e = .noop ∨ (e = .remove ∧ s.cnt f = 0) then s else
  match featureKind f with
  | none => bumpVer s f e
  | some k => notifyChange (bumpVer s f e) k

def legacyRecips (s : Server) : List Send :=
  (s.sessions.filter (fun p => p.2 != .modern)).map (fun p => ⟨p.1, none⟩)

def subRecips (s : Server) (k : Kind) : List Send :=
  match subsTable k with
  | none => []
  | some t => (s.ks t).subs.map (fun p => ⟨p.1, some p.2⟩)

/-- The snapshot `notifySessions(k)` takes under the lock. -/
def sendList (s : Server) (k : Kind) : List Send := legacyRecips s ++ subRecips s k

def cbrun (s : Server) (k : Kind) : Server × List Out :=
  if (s.ks k).pending = 0 then (s, []) else
  ({ setK s k (fun st => { st with
        pending := st.pending - 1, tracked := none,
        orphans := (match st.tracked with | some (some d) => d :: st.orphans | _ => st.orphans),
        inflight := st.inflight ++ sendList s k }) with
     owed := s.owed.filter (fun p => p.2 != k) },
   [.changed k (sendList s k)])

/-- One iteration of the fan-out loop: the `i`-th outstanding send of kind `k` is written (nothing is
sent if its session has been closed since the snapshot). -/
def deliver (s : Server) (k : Kind) (i : Nat) : Server × List Out :=
  match (s.ks k).inflight[i]? with
  | none => (s, [])
  | some x =>
    (setK s k (fun st => { st with inflight := st.inflight.eraseIdx i }),
     if x.sid ∈ s.sessions.map Prod.fst then [.sent k x] else [])

def fireTracked (s : Server) (k : Kind) : Server :=
  match (s.ks k).tracked with
  | some (some d) =>
    if d ≤ s.now then setK s k (fun st => { st with tracked := some none, pending := st.pending + 1 }) else s
  | _ => s

def fireOrphan (s : Server) (k : Kind) (i : Nat) : Server :=
  match (s.ks k).orphans[i]? with
  | some d =>
    if d ≤ s.now then setK s k (fun st => { st with orphans := st.orphans.eraseIdx i, pending := st.pending + 1 }) else s
  | none => s

def bind (s : Server) (sid : Nat) : Server :=
  if sid ∈ s.sessions.map Prod.fst then s else { s with sessions := s.sessions ++ [(sid, .uninit)] }

def hello (s : Server) (sid : Nat) (modern : Bool) : Server :=
  if (sid, Gen.uninit) ∈ s.sessions then
    { s with sessions := s.sessions.map (fun p => if p.1 = sid then (sid, if modern then .modern else .legacy) else p) }
  else s

/-- The request ids of the open listens of one session are distinct. -/
def listenOk (s : Server) (sid id : Nat) : Bool :=
  s.listens.all (fun l => !(l.sid == sid && l.id == id))

/-- The stream was granted a kind whose subscription table is `t`. -/
def grantsK (t : Kind) (l : Listen) : Bool := l.kinds.any (fun k => listenTable k == some t)

/-- The stream was granted the URI. -/
def grantsU (u : Nat) (l : Listen) : Bool := l.uris.contains u

/-- `handOver`: the id of the newest stream of session `sid` among `ls` (newest first) for which
`granted` holds. -/
def heir (ls : List Listen) (sid : Nat) (granted : Listen → Bool) : Option Nat :=
  (ls.find? (fun l => l.sid == sid && granted l)).map (·.id)

/-- The registration sections of `subscriptionsListen` (`allowedSubscriptions`, then the tables under
`Server.mu`, then the `subscribe` call of every granted URI, none of which the SubscribeHandler
refuses).  Nothing is written to the client here.
An entry of the same session is overwritten: the tables hold the id of the newest stream. -/
def listen (s : Server) (sid id : Nat) (kinds : List Kind) (uris : List Nat) : Server :=
  if (sid, Gen.modern) ∈ s.sessions ∧ listenOk s sid id = true ∧ uris.Nodup then
    let ak := kinds.filter (gateListen s)
    let au := if resSub s then uris else []
    { s with
        ks := fun t => { s.ks t with
          subs := if ak.any (fun k => listenTable k == some t) then put (s.ks t).subs sid id else (s.ks t).subs },
        rsubs := s.rsubs.filter (fun r => !(r.2.1 == sid && au.contains r.1)) ++ au.map (fun u => (u, sid, id)),
        listens := ⟨sid, id, ak, au⟩ :: s.listens }
  else s

/-- `req.Session.notifySubscriptionAcked(ctx, ackParams)`: the handler that registered as `(sid, id)`
writes its acknowledgement (once).  It touches no table.  A handler that was granted nothing returns
right afterwards (its deferred clean-up finds nothing to delete or hand over); any other handler parks
on `ctx.Done()` and is from now on recorded in `acked`. -/
def listenAck (s : Server) (sid id : Nat) : Server × List Out :=
  match s.listens.find? (fun l => l.sid == sid && l.id == id) with
  | none => (s, [])
  | some l =>
    if (sid, id) ∈ s.acked then (s, []) else
    if l.kinds = [] ∧ l.uris = [] then
      ({ s with listens := s.listens.filter (fun l' => !(l'.sid == sid && l'.id == id)) }, [.ack sid id [] []])
    else ({ s with acked := s.acked ++ [(sid, id)] }, [.ack sid id l.kinds l.uris])

/-- The deferred functions of `subscriptionsListen` (REPAIRED).  Only entries that carry the id of
the stream that ends are touched (`unsubscribeListen` for its URIs, the by-id clean-up for the
list-changed tables); each is handed over (`handOver`) to the newest OTHER open stream of the session
that was granted the same thing, and deleted if there is none. -/
def listenEnd (s : Server) (sid id : Nat) : Server :=
  match s.listens.find? (fun l => l.sid == sid && l.id == id) with
  | none => s
  | some l =>
    let rest := s.listens.filter (fun l' => !(l'.sid == sid && l'.id == id))
    { s with
      ks := fun t => { s.ks t with subs := (s.ks t).subs.filterMap (fun p =>
        if p.1 == sid && p.2 == id then (heir rest sid (grantsK t)).map (fun h => (sid, h)) else some p) },
      rsubs := s.rsubs.filterMap (fun r =>
        if r.2.1 == sid && r.2.2 == id && l.uris.contains r.1 then
          (heir rest sid (grantsU r.1)).map (fun h => (r.1, sid, h))
        else some r),
      listens := rest,
      acked := s.acked.filter (fun p => !(p.1 == sid && p.2 == id)) }

/-- `subscriptionsListen` when `SubscribeHandler` refuses the granted URI at index `n`: the handler has
registered the kinds and the URIs before it (`listen … (uris.take n)`), returns the error without
acknowledging anything, and its deferred functions run (`listenEnd`). -/
def listenRefused (s : Server) (sid id : Nat) (kinds : List Kind) (uris : List Nat) (n : Nat) : Server :=
  if (sid, Gen.modern) ∈ s.sessions ∧ listenOk s sid id = true ∧ uris.Nodup ∧ n < uris.length ∧ resSub s = true then
    listenEnd (listen s sid id kinds (uris.take n)) sid id
  else s

def subscribe (s : Server) (sid id uri : Nat) : Server :=
  if (sid, Gen.legacy) ∈ s.sessions then
    { s with rsubs := s.rsubs.filter (fun r => !(r.1 == uri && r.2.1 == sid)) ++ [(uri, sid, id)],
             rlive := s.rlive ++ [(sid, uri)] }
  else s

def unsubscribe (s : Server) (sid uri : Nat) : Server :=
  if (sid, Gen.legacy) ∈ s.sessions then
    { s with rsubs := s.rsubs.filter (fun r => !(r.1 == uri && r.2.1 == sid)),
             rlive := s.rlive.filter (fun p => !(p.1 == sid && p.2 == uri)) }
  else s

/-- `Server.disconnect` (the ghost listens of the session end with it: their deferred clean-up
finds nothing left to delete). -/
def close (s : Server) (sid : Nat) : Server :=
  { s with
    sessions := s.sessions.filter (fun p => p.1 != sid),
    ks := fun t => { s.ks t with subs := (s.ks t).subs.filter (fun p => p.1 != sid) },
    rsubs := s.rsubs.filter (fun r => r.2.1 != sid),
    owed := s.owed.filter (fun p => p.1 != sid),
    listens := s.listens.filter (fun l => l.sid != sid),
    acked := s.acked.filter (fun p => p.1 != sid),
    rlive := s.rlive.filter (fun p => p.1 != sid) }

/-- `ResourceUpdated`: the subscribers of the URI, split by protocol generation. -/
def updList (s : Server) (uri : Nat) : List Send :=
  (s.rsubs.filter (fun r => r.1 == uri)).map
    (fun r => if genOf s r.2.1 = .modern then ⟨r.2.1, some r.2.2⟩ else ⟨r.2.1, none⟩)

def step (s : Server) : Label → Server × List Out
  | .change f e => (change s f e, [])
  | .tick d => ({ s with now := s.now + d }, [])
  | .fireTracked k => (fireTracked s k, [])
  | .fireOrphan k i => (fireOrphan s k i, [])
  | .cbrun k => cbrun s k
  | .deliver k i => deliver s k i
  | .bind sid => (bind s sid, [])
  | .hello sid m => (hello s sid m, [])
  | .listen sid id kinds uris => (listen s sid id kinds uris, [])
  | .listenRefused sid id kinds uris n => (listenRefused s sid id kinds uris n, [])
  | .listenAck sid id => listenAck s sid id
  | .listenEnd sid id => (listenEnd s sid id, [])
  | .subscribe sid id u => (subscribe s sid id u, [])
  | .unsubscribe sid u => (unsubscribe s sid u, [])
  | .close sid => (close s sid, [])
  | .updated u => (s, [.updated u (updList s u)])
  | .updatedNamed u v => (s, [.updatedNamed u v (updList s u)])

/-- Run a schedule; outputs oldest first. -/
def run (s : Server) : List Label → Server × List Out
  | [] => (s, [])
  | l :: ls =>
    let (s1, o1) := step s l
    let (s2, o2) := run s1 ls
    (s2, o1 ++ o2)

def final (cap : Kind → Cap) (ls : List Label) : Server := (run (init cap) ls).1
def outputs (cap : Kind → Cap) (ls : List Label) : List Out := (run (init cap) ls).2

/-- Reachable states. -/
inductive Reach (cap : Kind → Cap) : Server → Prop where
  | init : Reach cap (init cap)
  | step {s} (l : Label) : Reach cap s → Reach cap (step s l).1

end Notify
