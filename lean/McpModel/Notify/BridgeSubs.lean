import McpModel.Notify.LemmasSub
/-!
# Bridge, part 0: a list-changed subscription table holds at most one entry per session

`InvS.subs_iff` characterises the MEMBERS of a table; that no member occurs twice (so no session is
written to twice by one fan-out) is the invariant `InvN`, preserved by every label.
-/
namespace Notify
open Generated.Notify

def InvN (s : Server) : Prop := ∀ t, ((s.ks t).subs.map Prod.fst).Nodup

theorem invN_init (cap : Kind → Cap) : InvN (init cap) := by
  intro t; simp [init]

theorem InvN.of_subs_eq {s s' : Server} (h : InvN s) (e : ∀ t, (s'.ks t).subs = (s.ks t).subs) : InvN s' := by
  intro t; rw [e]; exact h t

theorem setK_subs (s : Server) (k : Kind) (f : KState → KState) (hf : ∀ st, (f st).subs = st.subs) (t : Kind) :
    ((setK s k f).ks t).subs = (s.ks t).subs := by
  simp only [setK]; split
  · exact hf _
  · rfl

theorem change_subs (s : Server) (f : FSet) (e : Eff) (t : Kind) : ((change s f e).ks t).subs = (s.ks t).subs := by
  simp only [change]
  split
  · rfl
  · split
    · rfl
    · simp only [notifyChange]
      split
      · simp only [arm]
        split
        · (simp only [setK]; split <;> rfl)
        · (simp only [setK]; split <;> rfl)
      · rfl

theorem nodup_put {l : List (Nat × Nat)} (h : (l.map Prod.fst).Nodup) (sid id : Nat) :
    ((put l sid id).map Prod.fst).Nodup := by
  simp only [put, List.map_append, List.map_cons, List.map_nil]
  rw [List.nodup_append]
  refine ⟨(List.Sublist.map _ List.filter_sublist).nodup h, by simp, ?_⟩
  intro a ha b hb
  simp only [List.mem_singleton] at hb
  subst hb
  rw [List.mem_map] at ha
  obtain ⟨p, hp, rfl⟩ := ha
  simpa using (List.mem_filter.1 hp).2

theorem sublist_filterMap_fst {l : List (Nat × Nat)} {f : Nat × Nat → Option (Nat × Nat)}
    (hf : ∀ p q, f p = some q → q.1 = p.1) : List.Sublist ((l.filterMap f).map Prod.fst) (l.map Prod.fst) := by
  induction l with
  | nil => simp
  | cons a t ih =>
    simp only [List.filterMap_cons]
    cases hfa : f a with
    | none => simp only [List.map_cons]; exact List.Sublist.cons _ ih
    | some q =>
      simp only [List.map_cons]
      rw [hf a q hfa]
      exact List.Sublist.cons₂ _ ih

theorem invN_listen (s : Server) (sid id : Nat) (ks : List Kind) (us : List Nat) (h : InvN s) :
    InvN (listen s sid id ks us) := by
  intro t
  simp only [listen]
  split
  · simp only []
    split
    · exact nodup_put (h t) sid id
    · exact h t
  · exact h t

theorem invN_listenEnd (s : Server) (sid id : Nat) (h : InvN s) : InvN (listenEnd s sid id) := by
  intro t
  simp only [listenEnd]
  split
  · exact h t
  · simp only []
    refine (sublist_filterMap_fst ?_).nodup (h t)
    intro p q hpq
    split at hpq
    · rename_i hc
      simp only [Bool.and_eq_true, beq_iff_eq] at hc
      cases hh : heir _ sid (grantsK t) with
      | none => rw [hh] at hpq; simp at hpq
      | some x => rw [hh] at hpq; simp at hpq; rw [← hpq]; exact hc.1.symm
    · simp at hpq; rw [hpq]

theorem invN_close (s : Server) (sid : Nat) (h : InvN s) : InvN (close s sid) := by
  intro t
  simp only [close]
  exact (List.Sublist.map _ List.filter_sublist).nodup (h t)

theorem invN_step (s : Server) (l : Label) (h : InvN s) : InvN (step s l).1 := by
  cases l with
  | change f e => exact h.of_subs_eq (change_subs s f e)
  | tick d => exact h.of_subs_eq (fun _ => rfl)
  | fireTracked k =>
    refine h.of_subs_eq (fun t => ?_)
    simp only [step, fireTracked]; split
    · split
      · (simp only [setK]; split <;> rfl)
      · rfl
    · rfl
  | fireOrphan k i =>
    refine h.of_subs_eq (fun t => ?_)
    simp only [step, fireOrphan]; split
    · split
      · (simp only [setK]; split <;> rfl)
      · rfl
    · rfl
  | cbrun k =>
    refine h.of_subs_eq (fun t => ?_)
    simp only [step, cbrun]; split
    · rfl
    · (simp only [setK]; split <;> rfl)
  | deliver k i =>
    refine h.of_subs_eq (fun t => ?_)
    simp only [step, deliver]; split
    · rfl
    · (simp only [setK]; split <;> rfl)
  | bind sid =>
    refine h.of_subs_eq (fun t => ?_)
    simp only [step, bind]; split <;> rfl
  | hello sid m =>
    refine h.of_subs_eq (fun t => ?_)
    simp only [step, hello]; split <;> rfl
  | listen sid id ks us => exact invN_listen s sid id ks us h
  | listenRefused sid id ks us n =>
    simp only [step, listenRefused]
    split
    · exact invN_listenEnd _ _ _ (invN_listen s sid id ks _ h)
    · exact h
  | listenAck sid id =>
    refine h.of_subs_eq (fun t => ?_)
    simp only [step, listenAck]; split
    · rfl
    · split
      · rfl
      · split <;> rfl
  | listenEnd sid id => exact invN_listenEnd s sid id h
  | subscribe sid id u =>
    refine h.of_subs_eq (fun t => ?_)
    simp only [step, subscribe]; split <;> rfl
  | unsubscribe sid u =>
    refine h.of_subs_eq (fun t => ?_)
    simp only [step, unsubscribe]; split <;> rfl
  | close sid => exact invN_close s sid h
  | updated u => exact h
  | updatedNamed u v => exact h

theorem reach_invN {cap : Kind → Cap} {s : Server} (h : Reach cap s) : InvN s := by
  induction h with
  | init => exact invN_init cap
  | step l _ ih => exact invN_step _ l ih

end Notify
