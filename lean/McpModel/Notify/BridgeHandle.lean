import McpModel.Notify.BridgeOps8
/-!
# Bridge, part 7c: a client handles a notification (announce + handle back to back on the caches it covers)
-/
namespace Notify.Bridge
open Notify Notify.Mon Notify.Sys Generated.Notify
variable {seen : List Nat} {y : State} {m : MState}

/-- a client handles a notification of scope `sc` on one cache: announce + handle back to back -/
def hstep (sc : Option Nat) (c : Cache.State) : Cache.State :=
  (Cache.step true (Cache.step true c (.announce sc)).1 (.handle ((Cache.step true c (.announce sc)).1.inbox.length - 1))).1

theorem hstep_eq (sc : Option Nat) (c : Cache.State) (hc : c.inbox = []) :
    hstep sc c = { c with entries := c.entries.filter (fun p => !(Cache.Notif.covers ⟨sc, c.srv⟩ p.1)),
                          gen := c.gen + 1,
                          handled := fun k => if Cache.Notif.covers ⟨sc, c.srv⟩ k then max (c.handled k) (c.srv k) else c.handled k } := by
  simp only [hstep, Cache.step, hc, List.nil_append, List.length_singleton, Nat.sub_self, Cache.handle,
    List.getElem?_cons_zero, List.eraseIdx_cons_zero]

theorem hstep_inv (sc : Option Nat) (c : Cache.State) (h : Cache.Inv c) : Cache.Inv (hstep sc c) :=
  Cache.inv_step _ _ (Cache.inv_step _ _ h)


/-- the slot but for its caches -/
def SameButCaches (d d' : DSlot) : Prop :=
  d'.used = d.used ∧ d'.sid = d.sid ∧ d'.modern = d.modern ∧ d'.mask = d.mask ∧ d'.connected = d.connected ∧ d'.gated = d.gated ∧
  d'.rsubs = d.rsubs ∧ d'.cancelHeld = d.cancelHeld ∧ d'.held = d.held ∧ d'.parked = d.parked

theorem foldl_setCache (g : Cache.State → Cache.State) (os : List CacheObj) (hnd : os.Nodup) (d : DSlot) :
    SameButCaches d (os.foldl (fun d o => d.setCache o (g (d.caches o))) d) ∧
    ∀ o, (os.foldl (fun d o => d.setCache o (g (d.caches o))) d).caches o = if o ∈ os then g (d.caches o) else d.caches o := by
  induction os generalizing d with
  | nil => exact ⟨⟨rfl, rfl, rfl, rfl, rfl, rfl, rfl, rfl, rfl, rfl⟩, fun o => by simp⟩
  | cons a t ih =>
    simp only [List.nodup_cons] at hnd
    simp only [List.foldl_cons]
    obtain ⟨h1, h2⟩ := ih hnd.2 (d.setCache a (g (d.caches a)))
    refine ⟨h1, ?_⟩
    intro o
    rw [h2 o]
    simp only [setCache_caches, List.mem_cons]
    by_cases e : o = a
    · subst e; simp [hnd.1]
    · by_cases e2 : o ∈ t
      · have : a ≠ o := fun e3 => e e3.symm
        simp [e, e2]
      · simp [e, e2]

theorem clientHandleChanged_eq (d : DSlot) (k : Kind) :
    clientHandleChanged d k = if (!d.modern) = true then d else
      (clientInvalidates k).foldl (fun d o => d.setCache o (hstep none (d.caches o))) d := rfl

theorem clientHandleUpdated_eq (d : DSlot) (v : Nat) :
    clientHandleUpdated d v = if (!d.modern) = true then d else d.setCache .read (hstep (some v) (d.caches .read)) := by
  simp only [clientHandleUpdated, updated_invalidates, Bool.not_true, Bool.or_false]
  rfl

theorem clientInvalidates_nodup (k : Kind) : (clientInvalidates k).Nodup := by cases k <;> decide

theorem obj_mem_invalidates {key : Key} {k : Kind} : key.obj ∈ clientInvalidates k ↔ key ∈ keysOfKind k := by
  cases k <;> cases key with
  | list f => cases f <;> simp [Key.obj, FSet.cache, clientInvalidates, keysOfKind]
  | read u => simp [Key.obj, clientInvalidates, keysOfKind]

theorem keepsId_changed (k : Kind) : KeepsId (clientHandleChanged · k) := by
  intro d
  show (clientHandleChanged d k).used = d.used ∧ (clientHandleChanged d k).sid = d.sid
  rw [clientHandleChanged_eq]
  split
  · exact ⟨rfl, rfl⟩
  · have := (foldl_setCache (hstep none) (clientInvalidates k) (clientInvalidates_nodup k) d).1
    exact ⟨this.1, this.2.1⟩

theorem keepsId_updated (v : Nat) : KeepsId (clientHandleUpdated · v) := by
  intro d
  show (clientHandleUpdated d v).used = d.used ∧ (clientHandleUpdated d v).sid = d.sid
  rw [clientHandleUpdated_eq]
  split <;> exact ⟨rfl, rfl⟩


theorem lookup_cons_ne {β} (a : Nat × β) (t : List (Nat × β)) (k : Nat) (h : k ≠ a.1) :
    (a :: t).lookup k = t.lookup k := by
  obtain ⟨x, y⟩ := a
  simp only [List.lookup]
  have : (k == x) = false := by simpa using h
  rw [this]

theorem lookup_cons_none {β} (a : Nat × β) (t : List (Nat × β)) (k : Nat) (h : (a :: t).lookup k = none) :
    k ≠ a.1 ∧ t.lookup k = none := by
  obtain ⟨x, y⟩ := a
  simp only [List.lookup] at h
  split at h
  · simp at h
  · rename_i hk
    exact ⟨by simpa using hk, h⟩

theorem lookup_filter_none {β} (l : List (Nat × β)) (q : Nat → Bool) (k : Nat) (hq : q k = false) :
    (l.filter (fun p => q p.1)).lookup k = none := by
  induction l with
  | nil => rfl
  | cons a t ih =>
    simp only [List.filter_cons]
    split
    · rename_i ha
      rw [lookup_cons_ne _ _ _ (by intro e; rw [← e, hq] at ha; exact absurd ha (by simp))]
      exact ih
    · exact ih

theorem lookup_filter_of_none {β} (l : List (Nat × β)) (f : Nat × β → Bool) (k : Nat) (h : l.lookup k = none) :
    (l.filter f).lookup k = none := by
  induction l with
  | nil => rfl
  | cons a t ih =>
    obtain ⟨h1, h2⟩ := lookup_cons_none a t k h
    simp only [List.filter_cons]
    split
    · rw [lookup_cons_ne _ _ _ h1]; exact ih h2
    · exact ih h2

/-- the client of a slot handles a notification that covers the keys `covered` -/
theorem cacheRel_handled {cur : Key → Nat} {d d' : DSlot} {md md' : MSlot} (h : CacheRel cur d md)
    (sc : Option Nat) (os : CacheObj → Bool)
    (hsame : SameButCaches d d')
    (hc : d.modern = true → ∀ o, d'.caches o = if os o = true then hstep sc (d.caches o) else d.caches o)
    (hl : d.modern = false → d'.caches = d.caches)
    (covered : Key → Bool)
    (hcov : ∀ key : Key, covered key = true ↔ (os key.obj = true ∧ Cache.Notif.covers ⟨sc, fun _ => 0⟩ key.idx = true))
    (m1 : md'.maxHandled = fun key => if covered key = true then max (md.maxHandled key) (cur key) else md.maxHandled key)
    (m2 : ∀ key, md'.invalidated key = true → covered key = true ∨ md.invalidated key = true)
    (m3 : md'.starts = md.starts) : CacheRel cur d' md' := by
  obtain ⟨_, _, s3, _, _, _, _, _, s9, _⟩ := hsame
  have hcv : ∀ (f : Nat → Nat) (k : Nat), Cache.Notif.covers ⟨sc, f⟩ k = Cache.Notif.covers ⟨sc, fun _ => 0⟩ k := by
    intro f k; cases sc <;> rfl
  by_cases hm : d.modern = true
  · have hm' : d'.modern = true := by rw [s3]; exact hm
    have hcs := hc hm
    have hst : ∀ o, os o = true → d'.caches o = hstep sc (d.caches o) := by
      intro o ho; rw [hcs o, if_pos ho]
    have hns : ∀ o, ¬ os o = true → d'.caches o = d.caches o := by
      intro o ho; rw [hcs o, if_neg ho]
    constructor
    · intro _ o
      by_cases ho : os o = true
      · rw [hst o ho]; exact hstep_inv _ _ (h.inv hm o)
      · rw [hns o ho]; exact h.inv hm o
    · intro _ key
      by_cases ho : os key.obj = true
      · rw [hst _ ho, hstep_eq _ _ (h.inbox hm _)]; exact h.srv hm key
      · rw [hns _ ho]; exact h.srv hm key
    · intro _ key
      rw [m1]
      by_cases ho : os key.obj = true
      · rw [hst _ ho, hstep_eq _ _ (h.inbox hm _)]
        simp only [hcv]
        by_cases hk : Cache.Notif.covers ⟨sc, fun _ => 0⟩ key.idx = true
        · have := (hcov key).2 ⟨ho, hk⟩
          simp only [hk, this, if_true]
          rw [h.handled hm key, h.srv hm key]
        · have : ¬ covered key = true := fun hc' => hk ((hcov key).1 hc').2
          simp only [hk, this, if_false]
          exact h.handled hm key
      · have : ¬ covered key = true := fun hc' => ho ((hcov key).1 hc').1
        rw [hns _ ho]
        simp only [this, if_false]
        exact h.handled hm key
    · intro _ key hk
      by_cases ho : os key.obj = true
      · rw [hst _ ho, hstep_eq _ _ (h.inbox hm _)]
        simp only [hcv]
        rcases m2 key hk with hc' | hold
        · have hk' := ((hcov key).1 hc').2
          apply lookup_filter_none _ (fun k => !(Cache.Notif.covers ⟨sc, fun _ => 0⟩ k))
          simp [hk']
        · exact lookup_filter_of_none _ _ _ (h.inval hm key hold)
      · rw [hns _ ho]
        rcases m2 key hk with hc' | hold
        · exact absurd ((hcov key).1 hc').1 ho
        · exact h.inval hm key hold
    · intro _ o
      by_cases ho : os o = true
      · rw [hst o ho, hstep_eq _ _ (h.inbox hm _)]; exact h.inbox hm o
      · rw [hns o ho]; exact h.inbox hm o
    · intro key
      rw [s9]
      by_cases ho : os key.obj = true
      · rw [hst _ ho, hstep_eq _ _ (h.inbox hm _)]; exact h.held_fill key
      · rw [hns _ ho]; exact h.held_fill key
    · intro o
      by_cases ho : os o = true
      · rw [hst o ho, hstep_eq _ _ (h.inbox hm _)]; exact h.fill_uniq o
      · rw [hns o ho]; exact h.fill_uniq o
    · intro _ key f hf
      rw [m3]
      by_cases ho : os key.obj = true
      · rw [hst _ ho, hstep_eq _ _ (h.inbox hm _)] at hf; exact h.starts hm key f hf
      · rw [hns _ ho] at hf; exact h.starts hm key f hf
    · intro key
      rw [m1]
      simp only []
      split
      · exact Nat.max_le.2 ⟨h.maxH_le key, Nat.le_refl _⟩
      · exact h.maxH_le key
    · intro hx; rw [hm'] at hx; exact absurd hx (by simp)
  · have hmf : d.modern = false := by simpa using hm
    have hm' : ¬ d'.modern = true := by rw [s3]; exact hm
    have hcs := hl hmf
    constructor
    · intro hx; exact absurd hx hm'
    · intro hx; exact absurd hx hm'
    · intro hx; exact absurd hx hm'
    · intro hx; exact absurd hx hm'
    · intro hx; exact absurd hx hm'
    · rw [hcs, s9]; exact h.held_fill
    · rw [hcs]; exact h.fill_uniq
    · intro hx; exact absurd hx hm'
    · intro key
      rw [m1]
      simp only []
      split
      · exact Nat.max_le.2 ⟨h.maxH_le key, Nat.le_refl _⟩
      · exact h.maxH_le key
    · intro _ key f hf
      rw [hcs] at hf; rw [m3]
      exact h.leg_fill hmf key f hf

end Notify.Bridge
