import McpModel.Notify.SoundHeld
/-!
# Soundness, part 10: held fan-outs

The monitor's note of a held fan-out (`MState.fans`) is history (`fan_history`): the snapshot record `cbstep k` that
started it — who was entitled then (`truthAt` that record) and under which stamps — less the sessions closed since, and
the sessions written to since.  This decides the four clauses only a write of a held fan-out can raise:
`fanNotEntitled`, `fanBadStamp`, `twice` (second source; `sound_twice` joins both), `fanDropped`.
-/
namespace Notify.Sound
open Notify Notify.Mon Generated.Notify

/-! ### held fan-outs -/

/-- the record is the snapshot of a held fan-out of kind `k` with something to write -/
def IsHeldSnap (r : Rec) (k : Kind) : Prop := r = ⟨.cbstep k, .fan false⟩
/-- the record reports the last write of the held fan-out of kind `k` -/
def ClosesFan (r : Rec) (k : Kind) : Prop := ∃ a t l ds, r = ⟨.fsend k, .fsent a t l true⟩ ∧ slotDeliveries l = some ds
/-- the record ends the held fan-out of kind `k` that was in progress (or starts another one) -/
def FanBreak (r : Rec) (k : Kind) : Prop := (∃ a b c h, r.op = .config a b c h) ∨ IsHeldSnap r k ∨ ClosesFan r k
/-- the held fan-out of kind `k` whose snapshot is record `q0` is still in progress before record `q` -/
def FanSpan (tr : Trace) (q0 q : Nat) (k : Kind) : Prop :=
  tr[q0]? = some (⟨.cbstep k, .fan false⟩ : Rec) ∧ ∀ j rj, q0 < j → j < q → tr[j]? = some rj → ¬ FanBreak rj k
/-- the session of slot `i` was closed between the records `p` and `q` -/
def ClosedIn (tr : Trace) (p q : Nat) (i : Slot) : Prop := ∃ j, p < j ∧ j < q ∧ tr[j]? = some (⟨.close i, .ok⟩ : Rec)
/-- the record is a write of a held fan-out of kind `k` to the session of slot `s` -/
def WritesTo (r : Rec) (k : Kind) (s : Slot) : Prop :=
  ∃ a t l b ds, r = ⟨.fsend k, .fsent a t l b⟩ ∧ slotDeliveries l = some ds ∧ ∃ x ∈ ds, x.slot = s

theorem fans_frame (m : MState) (op : Op) (obs : Obs) (h1 : ∀ a b c h, op ≠ .config a b c h) (h2 : ∀ k, op ≠ .cbstep k)
    (h3 : ∀ k, op ≠ .fsend k) (h4 : ∀ c, op ≠ .close c) : (monNext m ⟨op, obs⟩).fans = m.fans := by
  cases op with
  | config a b c h => exact absurd rfl (h1 _ _ _ _)
  | cbstep k' => exact absurd rfl (h2 _)
  | fsend k' => exact absurd rfl (h3 _)
  | close c => exact absurd rfl (h4 _)
  | change f e =>
    cases obs <;> try rfl
    show (monChange m f e).fans = _
    simp only [monChange]
    split
    · rfl
    · split <;> rfl
  | cbrun k' =>
    cases obs <;> try rfl
    simp only [monNext]
    split <;> rfl
  | rupdated u v =>
    cases obs <;> try rfl
    simp only [monNext]
    split <;> rfl
  | connect c sid mo mask =>
    simp only [monNext]
    split <;> rfl
  | subscribe c u hold =>
    simp only [monNext]
    split
    · split
      · split <;> rfl
      · rfl
    · split <;> rfl
  | list c key mode =>
    cases obs <;> try rfl
    all_goals
      simp only [monNext]
      split <;> rfl
  | xlisten c id ks us hold =>
    cases obs <;> try rfl
    simp only [monNext]
    split <;> rfl
  | ackdone c id =>
    simp only [monNext]
    split <;> rfl
  | unsubscribe c u hold =>
    cases obs <;> try rfl
    simp only [monNext]
    split <;> rfl
  | tables =>
    cases obs <;> rfl
  | _ => cases obs <;> rfl

/-- how one record moves the monitor's note of a held fan-out -/
theorem fan_step (m : MState) (r : Rec) (k : Kind) (fan' : MFan) (h : (monNext m r).fans k = some fan') :
    (IsHeldSnap r k ∧ fan' = { expect := fanExpect m k }) ∨
    (¬ FanBreak r k ∧ ∃ fan, m.fans k = some fan ∧
      (∀ c, r = ⟨.close c, .ok⟩ → fan'.expect = fan.expect.filter (·.1 != c) ∧ fan'.served = fan.served.filter (· != c)) ∧
      ((∀ c, r ≠ ⟨.close c, .ok⟩) → fan'.expect = fan.expect ∧ ∀ s ∈ fan'.served, s ∈ fan.served ∨ WritesTo r k s)) := by
  -- records that leave the held fan-out of this kind alone
  have same : ¬ FanBreak r k → (∀ c, r ≠ ⟨.close c, .ok⟩) → (monNext m r).fans k = m.fans k →
      (IsHeldSnap r k ∧ fan' = { expect := fanExpect m k }) ∨
      (¬ FanBreak r k ∧ ∃ fan, m.fans k = some fan ∧
        (∀ c, r = ⟨.close c, .ok⟩ → fan'.expect = fan.expect.filter (·.1 != c) ∧ fan'.served = fan.served.filter (· != c)) ∧
        ((∀ c, r ≠ ⟨.close c, .ok⟩) → fan'.expect = fan.expect ∧ ∀ s ∈ fan'.served, s ∈ fan.served ∨ WritesTo r k s)) := by
    intro h1 h2 he
    rw [he] at h
    exact Or.inr ⟨h1, fan', h, fun c e => absurd e (h2 c), fun _ => ⟨rfl, fun s hs => Or.inl hs⟩⟩
  obtain ⟨op, obs⟩ := r
  have plain : (∀ a b c h, op ≠ .config a b c h) → (∀ k', op ≠ .cbstep k') → (∀ k', op ≠ .fsend k') → (∀ c, op ≠ .close c) →
      ¬ FanBreak ⟨op, obs⟩ k ∧ (∀ c, (⟨op, obs⟩ : Rec) ≠ ⟨.close c, .ok⟩) := by
    intro h1 h2 h3 h4
    refine ⟨?_, ?_⟩
    · rintro (⟨a, b, c, hh, e⟩ | e | ⟨a, t, l, ds, e, _⟩)
      · exact h1 _ _ _ _ e
      · simp only [IsHeldSnap, Rec.mk.injEq] at e; exact h2 k e.1
      · simp only [Rec.mk.injEq] at e; exact h3 _ e.1
    · intro c e; simp only [Rec.mk.injEq] at e; exact h4 c e.1
  cases op with
  | config a b c hh => exact absurd h (by simp [monNext, freshState])
  | cbstep k' =>
    have hnc : ∀ c, (⟨.cbstep k', obs⟩ : Rec) ≠ ⟨.close c, .ok⟩ := by intro c e; cases e
    by_cases hb : obs = .fan false ∧ k' = k
    · obtain ⟨rfl, rfl⟩ := hb
      left
      refine ⟨rfl, ?_⟩
      simp only [monNext, cbStepNext, Bool.false_eq_true, if_false, if_true, Option.some.injEq] at h
      exact h.symm
    · refine same ?_ hnc ?_
      · rintro (⟨a, b, c, hh, e⟩ | e | ⟨a, t, l, ds, e, _⟩)
        · cases e
        · simp only [IsHeldSnap, Rec.mk.injEq, Op.cbstep.injEq] at e; exact hb ⟨e.2, e.1⟩
        · cases e
      · cases obs with
        | fan done =>
          cases done
          · have hk : k ≠ k' := fun e => hb ⟨rfl, e.symm⟩
            simp only [monNext, cbStepNext, Bool.false_eq_true, if_false, hk]
          · simp only [monNext, cbStepNext, if_true]
        | _ => rfl
  | fsend k' =>
    have hnc : ∀ c, (⟨.fsend k', obs⟩ : Rec) ≠ ⟨.close c, .ok⟩ := by intro c e; cases e
    have hnb : (∀ a t l ds, obs = .fsent a t l true → k' = k → slotDeliveries l ≠ some ds) → ¬ FanBreak ⟨.fsend k', obs⟩ k := by
      intro hh
      rintro (⟨a, b, c, _, e⟩ | e | ⟨a, t, l, ds, e, hs⟩)
      · cases e
      · cases e
      · simp only [Rec.mk.injEq, Op.fsend.injEq] at e; exact hh a t l ds e.2 e.1 hs
    cases obs with
    | fsent a t l done =>
      by_cases hk : k' = k
      · subst hk
        rcases Option.eq_none_or_eq_some (m.fans k') with hf | ⟨fan, hf⟩
        · have : monNext m ⟨.fsend k', .fsent a t l done⟩ = m := by simp only [monNext, hf]
          rw [this, hf] at h; cases h
        · cases hs : slotDeliveries l with
          | none =>
            refine same (hnb ?_) hnc ?_
            · intro a' t' l' ds' e _ hs'
              simp only [Obs.fsent.injEq] at e
              rw [← e.2.2.1, hs] at hs'; cases hs'
            · simp only [monNext, hf, hs]
          | some ds =>
            cases done
            · simp only [monNext, hf, hs, fsNext, Bool.false_eq_true, if_false, if_true, Option.some.injEq] at h
              refine Or.inr ⟨hnb ?_, fan, hf, fun c e => absurd e (hnc c), fun _ => ?_⟩
              · intro a' t' l' ds' e; cases e
              · rw [← h]
                refine ⟨rfl, ?_⟩
                intro s hs'
                simp only [List.mem_append, List.mem_map] at hs'
                rcases hs' with hs' | ⟨x, hx, e⟩
                · exact Or.inl hs'
                · exact Or.inr ⟨a, t, l, false, ds, rfl, hs, x, hx, e⟩
            · simp only [monNext, hf, hs, fsNext, if_true] at h
              cases h
      · have hk' : k ≠ k' := fun e => hk e.symm
        refine same (hnb (fun _ _ _ _ _ e => absurd e hk)) hnc ?_
        simp only [monNext]
        split
        · cases done
          · simp only [fsNext, Bool.false_eq_true, if_false, hk']
          · simp only [fsNext, if_true, hk', if_false]
        · rfl
    | _ => exact same (hnb (fun _ _ _ _ e => by cases e)) hnc rfl
  | close c =>
    by_cases hok : obs = .ok
    · subst hok
      have hnb : ¬ FanBreak ⟨.close c, .ok⟩ k := by
        rintro (⟨_, _, _, _, e⟩ | e | ⟨_, _, _, _, e, _⟩) <;> cases e
      have hm : (monNext m ⟨.close c, .ok⟩).fans k = (m.fans k).map (fun f =>
          { f with expect := f.expect.filter (·.1 != c), served := f.served.filter (· != c) }) := rfl
      rw [hm] at h
      cases hf : m.fans k with
      | none => rw [hf] at h; cases h
      | some fan =>
        rw [hf] at h
        simp only [Option.map_some, Option.some.injEq] at h
        refine Or.inr ⟨hnb, fan, rfl, ?_, fun hh => absurd rfl (hh c)⟩
        intro c' e
        simp only [Rec.mk.injEq, Op.close.injEq] at e
        rw [← e.1, ← h]
        exact ⟨rfl, rfl⟩
    · have hp : ¬ FanBreak ⟨.close c, obs⟩ k := by
        rintro (⟨_, _, _, _, e⟩ | e | ⟨_, _, _, _, e, _⟩) <;> cases e
      refine same hp ?_ ?_
      · intro c' e; simp only [Rec.mk.injEq] at e; exact hok e.2
      · cases obs <;> first | rfl | exact absurd rfl hok
  | _ =>
    exact same (plain (by simp) (by simp) (by simp) (by simp)).1 (plain (by simp) (by simp) (by simp) (by simp)).2
      (congrFun (fans_frame m _ obs (by simp) (by simp) (by simp) (by simp)) k)

/-- the stamps that are right for a write of a fan-out of kind `k` to the session -/
def TSlot.stamps (d : TSlot) (k : Kind) : List Stamp :=
  if d.modern then (d.listens.filter (·.kinds.contains k)).map (fun l => Stamp.id l.id) else [.plain]

theorem mem_fanExpect {m : MState} {t : Truth} (hA : Agrees m t) (k : Kind) (i : Slot) (st : List Stamp) :
    (i, st) ∈ fanExpect m k ↔ (t.slots i).entitled k ∧ st = (t.slots i).stamps k := by
  simp only [fanExpect, List.mem_filterMap, Slot.mem_all, true_and]
  constructor
  · rintro ⟨j, hj⟩
    split at hj
    · rename_i he
      simp only [Option.some.injEq, Prod.mk.injEq] at hj
      obtain ⟨rfl, rfl⟩ := hj
      refine ⟨(entitledNow_truth hA j k).1 he, ?_⟩
      simp only [TSlot.stamps, hA.modern j, hA.listens j]
    · cases hj
  · rintro ⟨he, rfl⟩
    refine ⟨i, ?_⟩
    rw [if_pos ((entitledNow_truth hA i k).2 he)]
    simp only [TSlot.stamps, hA.modern i, hA.listens i]

theorem closedIn_snoc (tr : Trace) (r : Rec) (p : Nat) (i : Slot) :
    ClosedIn (tr ++ [r]) p (tr.length + 1) i ↔ ClosedIn tr p tr.length i ∨ (p < tr.length ∧ r = ⟨.close i, .ok⟩) := by
  constructor
  · rintro ⟨j, hj1, hj2, hget⟩
    by_cases e : j < tr.length
    · rw [get_snoc_lt tr r e] at hget
      exact Or.inl ⟨j, hj1, e, hget⟩
    · have : j = tr.length := by omega
      subst this
      rw [get_snoc_len] at hget
      simp only [Option.some.injEq] at hget
      exact Or.inr ⟨hj1, hget⟩
  · rintro (⟨j, hj1, hj2, hget⟩ | ⟨hp, e⟩)
    · exact ⟨j, hj1, by omega, by rw [get_snoc_lt tr r hj2]; exact hget⟩
    · exact ⟨tr.length, hp, by omega, by rw [get_snoc_len, e]⟩

/-- **history of a held fan-out**: what the monitor remembers of the held fan-out of a kind is the snapshot record that
started it — who was entitled then, under which stamps — less the sessions closed since, and the sessions written to since -/
theorem fan_history (tr : Trace) (k : Kind) : ∀ (fan : MFan), (monAfter {} tr).fans k = some fan →
    ∃ q0, q0 < tr.length ∧ FanSpan tr q0 tr.length k ∧
      (∀ i st, (i, st) ∈ fan.expect → ((truthAt tr q0).slots i).entitled k ∧ st = ((truthAt tr q0).slots i).stamps k ∧
        ¬ ClosedIn tr q0 tr.length i) ∧
      (∀ i, ((truthAt tr q0).slots i).entitled k → ¬ ClosedIn tr q0 tr.length i → ∃ st, (i, st) ∈ fan.expect) ∧
      (∀ s, s ∈ fan.served → ∃ j rj, q0 < j ∧ j < tr.length ∧ tr[j]? = some rj ∧ WritesTo rj k s ∧ ¬ ClosedIn tr j tr.length s) := by
  refine snoc_induction (P := fun tr => ∀ (fan : MFan), (monAfter {} tr).fans k = some fan →
    ∃ q0, q0 < tr.length ∧ FanSpan tr q0 tr.length k ∧
      (∀ i st, (i, st) ∈ fan.expect → ((truthAt tr q0).slots i).entitled k ∧ st = ((truthAt tr q0).slots i).stamps k ∧
        ¬ ClosedIn tr q0 tr.length i) ∧
      (∀ i, ((truthAt tr q0).slots i).entitled k → ¬ ClosedIn tr q0 tr.length i → ∃ st, (i, st) ∈ fan.expect) ∧
      (∀ s, s ∈ fan.served → ∃ j rj, q0 < j ∧ j < tr.length ∧ tr[j]? = some rj ∧ WritesTo rj k s ∧ ¬ ClosedIn tr j tr.length s)) ?_ ?_ tr
  · intro fan h; cases h
  · intro tr r ih fan' h
    rw [monAfter_snoc] at h
    have hlen : (tr ++ [r]).length = tr.length + 1 := by simp
    rw [hlen]
    rcases fan_step (monAfter {} tr) r k fan' h with ⟨hsnap, hfan⟩ | ⟨hnb, fan, hf, hclose, hother⟩
    · -- the snapshot is this record
      have ht : truthAt (tr ++ [r]) tr.length = truth tr := by
        rw [truthAt_snoc_le tr r (Nat.le_refl _)]; simp only [truthAt, List.take_length]
      have hnc : ∀ i, ¬ ClosedIn (tr ++ [r]) tr.length (tr.length + 1) i := by
        rintro i ⟨j, hj1, hj2, _⟩; omega
      refine ⟨tr.length, by omega, ⟨by rw [get_snoc_len, hsnap], ?_⟩, ?_, ?_, ?_⟩
      · intro j rj hj1 hj2; omega
      · intro i st hmem
        rw [hfan] at hmem
        rw [ht]
        have := (mem_fanExpect (monAfter_truth tr) k i st).1 hmem
        exact ⟨this.1, this.2, hnc i⟩
      · intro i he _
        rw [ht] at he
        rw [hfan]
        exact ⟨_, (mem_fanExpect (monAfter_truth tr) k i _).2 ⟨he, rfl⟩⟩
      · intro s hs; rw [hfan] at hs; cases hs
    · obtain ⟨q0, hq0, ⟨hsnap, hspan⟩, hE1, hE2, hS⟩ := ih fan hf
      have ht : truthAt (tr ++ [r]) q0 = truthAt tr q0 := truthAt_snoc_le tr r (by omega)
      refine ⟨q0, by omega, ⟨by rw [get_snoc_lt tr r hq0]; exact hsnap, ?_⟩, ?_⟩
      · intro j rj hj1 hj2 hget
        by_cases e : j < tr.length
        · rw [get_snoc_lt tr r e] at hget
          exact hspan j rj hj1 e hget
        · have : j = tr.length := by omega
          subst this
          rw [get_snoc_len] at hget
          simp only [Option.some.injEq] at hget
          rw [← hget]; exact hnb
      · rw [ht]
        by_cases hc : ∃ c, r = ⟨.close c, .ok⟩
        · obtain ⟨c, rfl⟩ := hc
          obtain ⟨hex, hse⟩ := hclose c rfl
          refine ⟨?_, ?_, ?_⟩
          · intro i st hmem
            rw [hex, List.mem_filter] at hmem
            obtain ⟨h1, h2, h3⟩ := hE1 i st hmem.1
            refine ⟨h1, h2, ?_⟩
            rw [closedIn_snoc]
            rintro (hcl | ⟨_, e⟩)
            · exact h3 hcl
            · simp only [Rec.mk.injEq, Op.close.injEq] at e
              have := hmem.2
              simp only [bne_iff_ne, ne_eq] at this
              exact this e.1.symm
          · intro i he hncl
            rw [closedIn_snoc] at hncl
            obtain ⟨st, hst⟩ := hE2 i he (fun hcl => hncl (Or.inl hcl))
            refine ⟨st, ?_⟩
            rw [hex, List.mem_filter]
            refine ⟨hst, ?_⟩
            simp only [bne_iff_ne, ne_eq]
            intro e
            exact hncl (Or.inr ⟨hq0, by rw [e]⟩)
          · intro s hs
            rw [hse, List.mem_filter] at hs
            obtain ⟨j, rj, hj1, hj2, hget, hw, hncl⟩ := hS s hs.1
            refine ⟨j, rj, hj1, by omega, by rw [get_snoc_lt tr _ hj2]; exact hget, hw, ?_⟩
            rw [closedIn_snoc]
            rintro (hcl | ⟨_, e⟩)
            · exact hncl hcl
            · simp only [Rec.mk.injEq, Op.close.injEq] at e
              have := hs.2
              simp only [bne_iff_ne, ne_eq] at this
              exact this e.1.symm
        · have hc' : ∀ c, r ≠ ⟨.close c, .ok⟩ := fun c e => hc ⟨c, e⟩
          obtain ⟨hex, hse⟩ := hother hc'
          have hcl : ∀ p i, ClosedIn (tr ++ [r]) p (tr.length + 1) i ↔ ClosedIn tr p tr.length i := by
            intro p i
            rw [closedIn_snoc]
            constructor
            · rintro (h1 | ⟨_, e⟩)
              · exact h1
              · exact absurd e (hc' i)
            · exact Or.inl
          refine ⟨?_, ?_, ?_⟩
          · intro i st hmem
            rw [hex] at hmem
            rw [hcl]
            exact hE1 i st hmem
          · intro i he hncl
            rw [hcl] at hncl
            rw [hex]
            exact hE2 i he hncl
          · intro s hs
            rcases hse s hs with hs | hw
            · obtain ⟨j, rj, hj1, hj2, hget, hw, hncl⟩ := hS s hs
              exact ⟨j, rj, hj1, by omega, by rw [get_snoc_lt tr _ hj2]; exact hget, hw, by rw [hcl]; exact hncl⟩
            · have hfs : q0 < tr.length := hq0
              refine ⟨tr.length, r, hfs, by omega, get_snoc_len tr r, hw, ?_⟩
              rintro ⟨j, hj1, hj2, _⟩; omega

/-! ### the clauses of a held fan-out -/

/-- a held fan-out writes only to sessions that were entitled to the kind when its snapshot was taken -/
def P_fanEntitled (tr : Trace) : Prop :=
  ∀ (q : Nat) (k : Kind) (a : Who) (t : Nat) (l : List Delivery) (b : Bool) (ds : List SDelivery),
    tr[q]? = some (⟨.fsend k, .fsent a t l b⟩ : Rec) → slotDeliveries l = some ds → ∀ q0, q0 < q → FanSpan tr q0 q k →
    ∀ x ∈ ds, ((truthAt tr q0).slots x.slot).entitled k ∧ ¬ ClosedIn tr q0 q x.slot

/-- a write of a held fan-out carries a stamp that was right when the snapshot was taken -/
def P_fanStamp (tr : Trace) : Prop :=
  ∀ (q : Nat) (k : Kind) (a : Who) (t : Nat) (l : List Delivery) (b : Bool) (ds : List SDelivery),
    tr[q]? = some (⟨.fsend k, .fsent a t l b⟩ : Rec) → slotDeliveries l = some ds → ∀ q0, q0 < q → FanSpan tr q0 q k →
    ∀ x ∈ ds, ((truthAt tr q0).slots x.slot).entitled k → ¬ ClosedIn tr q0 q x.slot →
      x.stamp ∈ ((truthAt tr q0).slots x.slot).stamps k

/-- a held fan-out writes to a session once -/
def P_fanOnce (tr : Trace) : Prop :=
  ∀ (q : Nat) (k : Kind) (a : Who) (t : Nat) (l : List Delivery) (b : Bool) (ds : List SDelivery),
    tr[q]? = some (⟨.fsend k, .fsent a t l b⟩ : Rec) → slotDeliveries l = some ds → ∀ q0, q0 < q → FanSpan tr q0 q k →
    ∀ x ∈ ds, ∀ j rj, q0 < j → j < q → tr[j]? = some rj → WritesTo rj k x.slot → ClosedIn tr j q x.slot

/-- a write of a held fan-out addressed to a connected session of its snapshot reaches that session -/
def P_fanReaches (tr : Trace) : Prop :=
  ∀ (q : Nat) (k : Kind) (i : Slot) (t : Nat) (l : List Delivery) (b : Bool),
    tr[q]? = some (⟨.fsend k, .fsent (.slot i) t l b⟩ : Rec) → slotDeliveries l = some [] → ∀ q0, q0 < q → FanSpan tr q0 q k →
    ((truthAt tr q).slots i).connected = true → ((truthAt tr q0).slots i).entitled k → ClosedIn tr q0 q i

theorem fanSpan_snoc {tr : Trace} {r : Rec} {q0 q : Nat} {k : Kind} (hq0 : q0 < q) (hq : q ≤ tr.length) :
    FanSpan (tr ++ [r]) q0 q k ↔ FanSpan tr q0 q k := by
  simp only [FanSpan]
  rw [get_snoc_lt tr r (by omega)]
  constructor
  · rintro ⟨h1, h2⟩
    exact ⟨h1, fun j rj hj1 hj2 hget => h2 j rj hj1 hj2 (by rw [get_snoc_lt tr r (by omega)]; exact hget)⟩
  · rintro ⟨h1, h2⟩
    refine ⟨h1, fun j rj hj1 hj2 hget => h2 j rj hj1 hj2 ?_⟩
    rw [get_snoc_lt tr r (by omega)] at hget; exact hget

theorem closedIn_snoc_le {tr : Trace} {r : Rec} {p q : Nat} {i : Slot} (hq : q ≤ tr.length) :
    ClosedIn (tr ++ [r]) p q i ↔ ClosedIn tr p q i := by
  constructor
  · rintro ⟨j, h1, h2, hget⟩
    rw [get_snoc_lt tr r (by omega)] at hget
    exact ⟨j, h1, h2, hget⟩
  · rintro ⟨j, h1, h2, hget⟩
    exact ⟨j, h1, h2, by rw [get_snoc_lt tr r (by omega)]; exact hget⟩

/-- a report about a write of a held fan-out, with the history of that fan-out -/
theorem held_source {tr : Trace} {r : Rec} {c : Clause} (h : Reports tr r c) (hs : srcOf c = .fan)
    (hcb : ∀ m k ds, cbCheck m k ds ≠ some c) :
    ∃ k a t l b fan ds q0, r = ⟨.fsend k, .fsent a t l b⟩ ∧ slotDeliveries l = some ds ∧
      fsCheck (monAfter {} tr) k fan a ds = some c ∧ q0 < tr.length ∧ FanSpan (tr ++ [r]) q0 tr.length k ∧
      (∀ i st, (i, st) ∈ fan.expect → ((truthAt (tr ++ [r]) q0).slots i).entitled k ∧
        st = ((truthAt (tr ++ [r]) q0).slots i).stamps k ∧ ¬ ClosedIn (tr ++ [r]) q0 tr.length i) ∧
      (∀ i, ((truthAt (tr ++ [r]) q0).slots i).entitled k → ¬ ClosedIn (tr ++ [r]) q0 tr.length i → ∃ st, (i, st) ∈ fan.expect) ∧
      (∀ s, s ∈ fan.served → ∃ j rj, q0 < j ∧ j < tr.length ∧ (tr ++ [r])[j]? = some rj ∧ WritesTo rj k s ∧
        ¬ ClosedIn (tr ++ [r]) j tr.length s) := by
  rcases fan_source h hs with ⟨k, t, l, ds, e, hsd, hc⟩ | ⟨k, a, t, l, b, fan, ds, e, hf, hsd, hc⟩
  · exact absurd hc (hcb _ _ _)
  · obtain ⟨q0, hq0, hspan, hE1, hE2, hS⟩ := fan_history tr k fan hf
    refine ⟨k, a, t, l, b, fan, ds, q0, e, hsd, hc, hq0, (fanSpan_snoc hq0 (Nat.le_refl _)).2 hspan, ?_, ?_, ?_⟩
    · intro i st hm
      rw [truthAt_snoc_le tr r (by omega), closedIn_snoc_le (Nat.le_refl _)]
      exact hE1 i st hm
    · intro i he hn
      rw [truthAt_snoc_le tr r (by omega)] at he
      rw [closedIn_snoc_le (Nat.le_refl _)] at hn
      exact hE2 i he hn
    · intro s hs'
      obtain ⟨j, rj, h1, h2, hget, hw, hn⟩ := hS s hs'
      exact ⟨j, rj, h1, h2, by rw [get_snoc_lt tr r h2]; exact hget, hw, by rw [closedIn_snoc_le (Nat.le_refl _)]; exact hn⟩

theorem cb_not_fan {m : MState} {k : Kind} {ds : List SDelivery} {c : Clause}
    (hc : c = .fanNotEntitled ∨ c = .fanBadStamp ∨ c = .fanDropped) : cbCheck m k ds ≠ some c := by
  intro h
  rcases cbCheck_some h with ⟨x, _, hx⟩ | ⟨e, _⟩
  · rcases cbDeliveryClause_some hx with ⟨e, _⟩ | ⟨e, _⟩ | ⟨e, _⟩ | ⟨e, _⟩ | ⟨e, _⟩ | ⟨e, _⟩ | ⟨e, _⟩ <;>
      (rcases hc with hc | hc | hc <;> (rw [hc] at e; cases e))
  · rcases hc with hc | hc | hc <;> (rw [hc] at e; cases e)

theorem sound_fanNotEntitled (tr : Trace) (r : Rec) (h : Reports tr r .fanNotEntitled) : ¬ P_fanEntitled (tr ++ [r]) := by
  intro hP
  obtain ⟨k, a, t, l, b, fan, ds, q0, e, hsd, hc, hq0, hspan, hE1, hE2, hS⟩ :=
    held_source h rfl (fun _ _ _ => cb_not_fan (Or.inl rfl))
  rcases fsCheck_some hc with ⟨x, hx, hcx⟩ | ⟨e2, _⟩
  · rcases fsDeliveryClause_some hcx with ⟨e2, _⟩ | ⟨e2, _⟩ | ⟨e2, _⟩ | ⟨e2, _⟩ | ⟨_, hnone⟩ | ⟨e2, _⟩ | ⟨e2, _⟩ | ⟨e2, _⟩ <;>
      first | cases e2 | skip
    obtain ⟨hent, hncl⟩ := hP tr.length k a t l b ds (by rw [get_snoc_len, e]) hsd q0 hq0 hspan x hx
    obtain ⟨st, hst⟩ := hE2 x.slot hent hncl
    have := List.find?_eq_none.1 hnone (x.slot, st) hst
    simp at this
  · cases e2

theorem sound_fanBadStamp (tr : Trace) (r : Rec) (h : Reports tr r .fanBadStamp) : ¬ P_fanStamp (tr ++ [r]) := by
  intro hP
  obtain ⟨k, a, t, l, b, fan, ds, q0, e, hsd, hc, hq0, hspan, hE1, hE2, hS⟩ :=
    held_source h rfl (fun _ _ _ => cb_not_fan (Or.inr (Or.inl rfl)))
  rcases fsCheck_some hc with ⟨x, hx, hcx⟩ | ⟨e2, _⟩
  · rcases fsDeliveryClause_some hcx with ⟨e2, _⟩ | ⟨e2, _⟩ | ⟨e2, _⟩ | ⟨e2, _⟩ | ⟨e2, _⟩ | ⟨_, st, hfind, hnot⟩ | ⟨e2, _⟩ | ⟨e2, _⟩ <;>
      first | cases e2 | skip
    obtain ⟨hent, hst, hncl⟩ := hE1 x.slot st (List.mem_of_find?_eq_some hfind)
    have := hP tr.length k a t l b ds (by rw [get_snoc_len, e]) hsd q0 hq0 hspan x hx hent hncl
    rw [← hst] at this
    exact hnot this
  · cases e2

theorem sound_twice_held (tr : Trace) (r : Rec) (h : Reports tr r .twice)
    (hl : ∃ k a t l b, r = ⟨.fsend k, .fsent a t l b⟩) : ¬ P_fanOnce (tr ++ [r]) := by
  intro hP
  obtain ⟨k', a', t', l', b', er⟩ := hl
  rcases fan_source h rfl with ⟨_, _, _, _, e, _, _⟩ | ⟨k, a, t, l, b, fan, ds, e, hf, hsd, hc⟩
  · rw [er] at e; cases e
  · obtain ⟨q0, hq0, hspan, hE1, hE2, hS⟩ := fan_history tr k fan hf
    rcases fsCheck_some hc with ⟨x, hx, hcx⟩ | ⟨e2, _⟩
    · rcases fsDeliveryClause_some hcx with ⟨e2, _⟩ | ⟨e2, _⟩ | ⟨e2, _⟩ | ⟨e2, _⟩ | ⟨e2, _⟩ | ⟨e2, _⟩ | ⟨_, hserved⟩ | ⟨e2, _⟩ <;>
        first | cases e2 | skip
      obtain ⟨j, rj, h1, h2, hget, hw, hn⟩ := hS x.slot hserved
      have := hP tr.length k a t l b ds (by rw [get_snoc_len, e]) hsd q0 hq0 ((fanSpan_snoc hq0 (Nat.le_refl _)).2 hspan) x hx
        j rj h1 h2 (by rw [get_snoc_lt tr r h2]; exact hget) hw
      exact hn ((closedIn_snoc_le (Nat.le_refl _)).1 this)
    · cases e2

/-- **twice, both sources** -/
theorem sound_twice (tr : Trace) (r : Rec) (h : Reports tr r .twice) :
    ¬ (P_twice_complete (tr ++ [r]) ∧ P_fanOnce (tr ++ [r])) := by
  rintro ⟨h1, h2⟩
  rcases fan_source h rfl with ⟨k, t, l, ds, e, _, _⟩ | ⟨k, a, t, l, b, fan, ds, e, _, _, _⟩
  · rcases cbCheck_some (by assumption : cbCheck (monAfter {} tr) k ds = some .twice) with ⟨x, _, hx⟩ | ⟨_, j, hj⟩
    · rcases cbDeliveryClause_some hx with ⟨e2, _⟩ | ⟨e2, _⟩ | ⟨e2, _⟩ | ⟨e2, _⟩ | ⟨e2, _⟩ | ⟨e2, _⟩ | ⟨e2, _⟩ <;> cases e2
    · have := h1 tr.length t l k ds (by rw [get_snoc_len, e]) (by assumption) j
      omega
  · exact sound_twice_held tr r h ⟨k, a, t, l, b, e⟩ h2

theorem sound_fanDropped (tr : Trace) (r : Rec) (h : Reports tr r .fanDropped) : ¬ P_fanReaches (tr ++ [r]) := by
  intro hP
  obtain ⟨k, a, t, l, b, fan, ds, q0, e, hsd, hc, hq0, hspan, hE1, hE2, hS⟩ :=
    held_source h rfl (fun _ _ _ => cb_not_fan (Or.inr (Or.inr rfl)))
  rcases fsCheck_some hc with ⟨x, hx, hcx⟩ | ⟨_, i, rfl, rfl, hconn, hany⟩
  · rcases fsDeliveryClause_some hcx with ⟨e2, _⟩ | ⟨e2, _⟩ | ⟨e2, _⟩ | ⟨e2, _⟩ | ⟨e2, _⟩ | ⟨e2, _⟩ | ⟨e2, _⟩ | ⟨e2, _⟩ <;> cases e2
  · obtain ⟨p, hp, hpi⟩ := List.any_eq_true.1 hany
    have hpi : p.1 = i := by simpa using hpi
    obtain ⟨hent, _, hncl⟩ := hE1 i p.2 (by rw [← hpi]; exact hp)
    have ht : truthAt (tr ++ [r]) tr.length = truth tr := by
      rw [truthAt_snoc_le tr r (Nat.le_refl _)]; simp only [truthAt, List.take_length]
    refine hncl (hP tr.length k i t l b (by rw [get_snoc_len, e]) hsd q0 hq0 hspan ?_ hent)
    rw [ht, ← (monAfter_truth tr).connected i]
    exact hconn

end Notify.Sound
