import McpModel.Notify.BridgeHandle
/-!
# Bridge, part 7d: the writes of a fan-out (`deliver`, `deliverFrom`, `deliverAll`) and the frame of the ops
that deliver notifications
-/
namespace Notify.Bridge
open Notify Notify.Mon Notify.Sys Generated.Notify
variable {seen : List Nat} {y : State} {m : MState}

/-- the fields of the server a write of a fan-out leaves alone -/
structure SameButInfl (s s' : Server) : Prop where
  cap : s'.cap = s.cap
  ver : s'.ver = s.ver
  cnt : s'.cnt = s.cnt
  sessions : s'.sessions = s.sessions
  owed : s'.owed = s.owed
  listens : s'.listens = s.listens
  acked : s'.acked = s.acked
  rlive : s'.rlive = s.rlive

theorem SameButInfl.refl (s : Server) : SameButInfl s s := ⟨rfl, rfl, rfl, rfl, rfl, rfl, rfl, rfl⟩
theorem SameButInfl.trans {a b c : Server} (h1 : SameButInfl a b) (h2 : SameButInfl b c) : SameButInfl a c :=
  ⟨h2.cap.trans h1.cap, h2.ver.trans h1.ver, h2.cnt.trans h1.cnt, h2.sessions.trans h1.sessions, h2.owed.trans h1.owed,
   h2.listens.trans h1.listens, h2.acked.trans h1.acked, h2.rlive.trans h1.rlive⟩

/-- one write of a fan-out -/
theorem deliver_spec (s : Server) (k : Kind) (i : Nat) (x : Send) (hx : (s.ks k).inflight[i]? = some x) :
    SameButInfl s (deliver s k i).1 ∧
    (∀ k', ((deliver s k i).1.ks k').inflight = if k' = k then (s.ks k).inflight.eraseIdx i else (s.ks k').inflight) ∧
    (deliver s k i).2 = if x.sid ∈ s.sessions.map Prod.fst then [.sent k x] else [] := by
  simp only [deliver, hx]
  refine ⟨⟨rfl, rfl, rfl, rfl, rfl, rfl, rfl, rfl⟩, ?_, trivial⟩
  intro k'; simp only [setK]; split
  · rename_i e; subst e; rfl
  · rfl

theorem deliverFrom_spec (k : Kind) (old : List Send) : ∀ (new : List Send) (s : Server) (acc : List Send),
    (s.ks k).inflight = old ++ new → (∀ x ∈ new, x.sid ∈ s.sessions.map Prod.fst) →
    (deliverFrom s k old.length new.length acc).2 = acc ++ new ∧
    ((deliverFrom s k old.length new.length acc).1.ks k).inflight = old ∧
    (∀ k', k' ≠ k → ((deliverFrom s k old.length new.length acc).1.ks k').inflight = (s.ks k').inflight) ∧
    SameButInfl s (deliverFrom s k old.length new.length acc).1 := by
  intro new
  induction new with
  | nil =>
    intro s acc hi _
    simp only [List.length_nil, deliverFrom, List.append_nil] at hi ⊢
    exact ⟨trivial, hi, fun _ _ => trivial, SameButInfl.refl s⟩
  | cons x t ih =>
    intro s acc hi hs
    have hx : (s.ks k).inflight[old.length]? = some x := by rw [hi]; simp
    obtain ⟨d1, d2, d3⟩ := deliver_spec s k old.length x hx
    have hin : x.sid ∈ s.sessions.map Prod.fst := hs x List.mem_cons_self
    simp only [List.length_cons, deliverFrom]
    rw [d3, if_pos hin]
    simp only [List.filterMap_cons, List.filterMap_nil]
    have hi' : ((deliver s k old.length).1.ks k).inflight = old ++ t := by
      rw [d2 k, if_pos rfl, hi]
      simp [List.eraseIdx_append_of_length_le]
    have := ih (deliver s k old.length).1 (acc ++ [x]) hi' (by
      intro z hz; rw [d1.sessions]; exact hs z (List.mem_cons_of_mem _ hz))
    obtain ⟨r1, r2, r3, r4⟩ := this
    refine ⟨by rw [r1]; simp, r2, ?_, d1.trans r4⟩
    intro k' hk'
    rw [r3 k' hk', d2 k', if_neg hk']

/-- an op that delivers notifications: it may move debts, fan-outs and caches, but not sessions or listens -/
theorem Rel.fan_frame (h : Rel seen y m) {y' : State} {m' : MState}
    (hok : SrvOk y'.srv) (hs : SameButInfl y.srv { y'.srv with owed := y.srv.owed }) (hcontent : y'.content = y.content)
    (e1 : ∀ j, (y'.slots j).used = (y.slots j).used) (e2 : ∀ j, (y'.slots j).sid = (y.slots j).sid)
    (e3 : ∀ j, (y'.slots j).modern = (y.slots j).modern) (e4 : ∀ j, (y'.slots j).connected = (y.slots j).connected)
    (e5 : ∀ j, (y'.slots j).gated = (y.slots j).gated) (e6 : ∀ j, (y'.slots j).rsubs = (y.slots j).rsubs)
    (e7 : ∀ j, (y'.slots j).cancelHeld = (y.slots j).cancelHeld)
    (ec : ∀ j, (y.slots j).used = true → CacheRel (curVersion y) (y.slots j) (m.slots j) →
      CacheRel (curVersion y) (y'.slots j) (m'.slots j))
    (m1 : ∀ j, (m'.slots j).connected = (m.slots j).connected) (m2 : ∀ j, (m'.slots j).modern = (m.slots j).modern)
    (m3 : ∀ j, (m'.slots j).listens = (m.slots j).listens) (m4 : ∀ j, (m'.slots j).luris = (m.slots j).luris)
    (m5 : ∀ j, (m.slots j).owed = [] → (m'.slots j).owed = [])
    (g1 : m'.cap = m.cap) (g2 : m'.ver = m.ver) (g3 : m'.cnt = m.cnt) (g4 : m'.content = m.content)
    (hOwed : RelOwed y'.srv.owed (fun k => (y'.srv.ks k).inflight) y'.slots m'.slots)
    (hFan : RelFan (fun k => (y'.srv.ks k).inflight) y'.slots m'.fans)
    (hInfl : ∀ k, ∀ x ∈ (y'.srv.ks k).inflight, x.sid ∈ seen)
    (hGate : ∀ k, (y'.srv.ks k).inflight ≠ [] → gateSend y'.srv k = true) : Rel seen y' m' := by
  have c1 : y'.srv.cap = y.srv.cap := hs.cap
  have c2 : y'.srv.ver = y.srv.ver := hs.ver
  have c3 : y'.srv.cnt = y.srv.cnt := hs.cnt
  have c4 : y'.srv.sessions = y.srv.sessions := hs.sessions
  have c5 : y'.srv.listens = y.srv.listens := hs.listens
  have c6 : y'.srv.acked = y.srv.acked := hs.acked
  have c7 : y'.srv.rlive = y.srv.rlive := hs.rlive
  refine ⟨hok, ⟨by rw [g1, c1]; exact h.g.cap, by rw [g2, c2]; exact h.g.ver, by rw [g3, c3]; exact h.g.cnt,
      by rw [g4, hcontent]; exact h.g.content⟩, ?_, ?_, hOwed, hFan, ?_, ⟨by rw [c4]; exact h.seen.sess, hInfl⟩, hGate⟩
  · rw [c4]; exact h.sess.congr e1 e2 e3 e4 e5 m1 m2
  · exact (h.lis.congr e1 e2 e3 (fun i u hx => by rw [e6, e7]; exact hx) e5 m3 m4 m5).srv_congr c5 c6 c7
  · rw [curVersion_congr c2 hcontent]
    intro j hj
    rw [e1] at hj
    exact ec j hj (h.cache j hj)

theorem gotChanged_frame (m : MState) (k : Kind) (d : MSlot) :
    (gotChanged m k d).connected = d.connected ∧ (gotChanged m k d).modern = d.modern ∧
    (gotChanged m k d).listens = d.listens ∧ (gotChanged m k d).luris = d.luris ∧
    (gotChanged m k d).starts = d.starts ∧ (gotChanged m k d).owed = d.owed.filter (· != k) ∧
    (gotChanged m k d).maxHandled = (fun key => if key ∈ keysOfKind k then max (d.maxHandled key) (m.verOfKey key) else d.maxHandled key) ∧
    (gotChanged m k d).invalidated = (fun key => decide (key ∈ keysOfKind k) || d.invalidated key) :=
  ⟨rfl, rfl, rfl, rfl, rfl, rfl, rfl, rfl⟩

theorem verOfKey_cur (h : Rel seen y m) (key : Key) : m.verOfKey key = curVersion y key := by
  cases key with
  | list f =>
    simp only [MState.verOfKey, curVersion, curVersionObj, Key.obj, Key.idx, h.g.ver]
    cases f <;> rfl
  | read u =>
    simp only [MState.verOfKey, curVersion, curVersionObj, Key.obj, Key.idx, h.g.content]
    rfl

/-- the client of a slot handles a list-changed notification of kind `k` -/
theorem cacheRel_changed {cur : Key → Nat} {d : DSlot} {md : MSlot} (h : CacheRel cur d md) (mm : MState) (k : Kind)
    (hver : ∀ key, mm.verOfKey key = cur key) : CacheRel cur (clientHandleChanged d k) (gotChanged mm k md) := by
  have hfold := foldl_setCache (hstep none) (clientInvalidates k) (clientInvalidates_nodup k) d
  refine cacheRel_handled h none (fun o => decide (o ∈ clientInvalidates k)) ?_ ?_ ?_
    (fun key => decide (key ∈ keysOfKind k)) ?_ ?_ ?_ rfl
  · rw [clientHandleChanged_eq]; split
    · exact ⟨rfl, rfl, rfl, rfl, rfl, rfl, rfl, rfl, rfl, rfl⟩
    · exact hfold.1
  · intro hm o
    rw [clientHandleChanged_eq, if_neg (by rw [hm]; decide), hfold.2 o]
    by_cases e : o ∈ clientInvalidates k <;> simp [e]
  · intro hm
    rw [clientHandleChanged_eq, if_pos (by rw [hm]; rfl)]
  · intro key
    simp only [decide_eq_true_eq, Cache.Notif.covers, and_true]
    exact obj_mem_invalidates.symm
  · rw [(gotChanged_frame mm k md).2.2.2.2.2.2.1]
    funext key
    by_cases e : key ∈ keysOfKind k <;> simp [e, hver]
  · intro key hk
    rw [(gotChanged_frame mm k md).2.2.2.2.2.2.2] at hk
    simp only [Bool.or_eq_true, decide_eq_true_eq] at hk ⊢
    exact hk

theorem nodup_of_map {α β} (f : α → β) : ∀ (l : List α), (l.map f).Nodup → l.Nodup := by
  intro l
  induction l with
  | nil => intro _; simp
  | cons a t ih =>
    intro h
    simp only [List.map_cons, List.nodup_cons] at h ⊢
    exact ⟨fun ha => h.1 (List.mem_map.2 ⟨a, ha, rfl⟩), ih h.2⟩

theorem inj_of_nodup_map {α β} (f : α → β) : ∀ (l : List α), (l.map f).Nodup → ∀ a ∈ l, ∀ b ∈ l, f a = f b → a = b := by
  intro l
  induction l with
  | nil => intro _ a ha; simp at ha
  | cons x t ih =>
    intro h a ha b hb e
    simp only [List.map_cons, List.nodup_cons] at h
    rcases List.mem_cons.1 ha with ea | ha'
    · rcases List.mem_cons.1 hb with eb | hb'
      · rw [ea, eb]
      · exact absurd (List.mem_map.2 ⟨b, hb', by rw [← e, ea]⟩) h.1
    · rcases List.mem_cons.1 hb with eb | hb'
      · exact absurd (List.mem_map.2 ⟨a, ha', by rw [e, eb]⟩) h.1
      · exact ih h.2 a ha' b hb' e

theorem slotDeliveries_map {α} (F : α → Delivery) (G : α → SDelivery) (l : List α)
    (h : ∀ a ∈ l, (F a).toSlot = some (G a)) : slotDeliveries (l.map F) = some (l.map G) := by
  have hfm : (l.map F).filterMap Delivery.toSlot = l.map G := by
    induction l with
    | nil => rfl
    | cons a t ih =>
      simp only [List.map_cons, List.filterMap_cons, h a List.mem_cons_self]
      rw [ih (fun b hb => h b (List.mem_cons_of_mem _ hb))]
  have hall : (l.map F).all (fun x => x.toSlot.isSome) = true := by
    rw [List.all_eq_true]
    intro x hx
    obtain ⟨a, ha, rfl⟩ := List.mem_map.1 hx
    rw [h a ha]; rfl
  simp only [slotDeliveries, hall, if_true, hfm]

theorem filter_length_le_one {α} (l : List α) (p : α → Bool) (hnd : l.Nodup)
    (h : ∀ a ∈ l, ∀ b ∈ l, p a = true → p b = true → a = b) : (l.filter p).length ≤ 1 := by
  induction l with
  | nil => simp
  | cons a t ih =>
    simp only [List.nodup_cons] at hnd
    simp only [List.filter_cons]
    split
    · rename_i ha
      have : t.filter p = [] := by
        rw [List.filter_eq_nil_iff]
        intro b hb hpb
        have := h a List.mem_cons_self b (List.mem_cons_of_mem _ hb) ha hpb
        rw [this] at hnd
        exact hnd.1 hb
      simp [this]
    · exact ih hnd.2 (fun x hx z hz => h x (List.mem_cons_of_mem _ hx) z (List.mem_cons_of_mem _ hz))

/-- what the clients of the slots observe of a fan-out to `to` -/
theorem fanout_spec (handle : DSlot → DSlot) (mk : Who → DSlot → Send → Delivery) (hk : KeepsId handle)
    (hmk : ∀ i d x, (mk (.slot i) d x).who = .slot i) (y0 : State) (to : List Send)
    (hinj : ∀ i j, (y0.slots i).used = true → (y0.slots j).used = true → (y0.slots i).sid = (y0.slots j).sid → i = j)
    (hslot : ∀ x ∈ to, ∃ i, (y0.slots i).used = true ∧ (y0.slots i).sid = x.sid)
    (hnd : (to.map Send.sid).Nodup) :
    (deliverAll handle mk y0 to).1.srv = y0.srv ∧ (deliverAll handle mk y0 to).1.content = y0.content ∧
    (∀ i, (deliverAll handle mk y0 to).1.slots i =
      if (y0.slots i).used = true ∧ (y0.slots i).sid ∈ to.map Send.sid then handle (y0.slots i) else y0.slots i) ∧
    ∃ ds', slotDeliveries (deliverAll handle mk y0 to).2 = some ds' ∧
      (∀ sd ∈ ds', ∃ x ∈ to, (y0.slots sd.slot).used = true ∧ (y0.slots sd.slot).sid = x.sid ∧
        sd.meth = (mk (.slot sd.slot) (y0.slots sd.slot) x).meth ∧ sd.stamp = (mk (.slot sd.slot) (y0.slots sd.slot) x).stamp ∧
        sd.hk = (mk (.slot sd.slot) (y0.slots sd.slot) x).hk) ∧
      (∀ i, ds'.any (·.slot == i) = true ↔ ((y0.slots i).used = true ∧ (y0.slots i).sid ∈ to.map Send.sid)) ∧
      (∀ i, (ds'.filter (·.slot == i)).length ≤ 1) := by
  obtain ⟨h1, h2, _, _, _, h6, h7⟩ := deliverAll_spec handle mk hk to y0 hinj hslot hnd
  refine ⟨h1, h2, h6, ?_⟩
  -- the slot of each recipient
  have hso : ∀ x ∈ to, ∃ i, slotOfSid y0 x.sid = some i ∧ (y0.slots i).used = true ∧ (y0.slots i).sid = x.sid := by
    intro x hx
    obtain ⟨i, hu, hs⟩ := hslot x hx
    cases hf : slotOfSid y0 x.sid with
    | none =>
      unfold slotOfSid at hf
      rw [List.find?_eq_none] at hf
      have := hf i (Slot.mem_all i)
      simp [hu, hs] at this
    | some j =>
      have := slotOfSid_spec hf
      exact ⟨j, rfl, this.1, this.2⟩
  let G : Send → SDelivery := fun x =>
    match slotOfSid y0 x.sid with
    | some i => ⟨i, (mk (.slot i) (y0.slots i) x).meth, (mk (.slot i) (y0.slots i) x).stamp, (mk (.slot i) (y0.slots i) x).hk⟩
    | none => ⟨0, .other, .bad, .other⟩
  have hG : ∀ x ∈ to, ∃ i, slotOfSid y0 x.sid = some i ∧ (y0.slots i).used = true ∧ (y0.slots i).sid = x.sid ∧
      G x = ⟨i, (mk (.slot i) (y0.slots i) x).meth, (mk (.slot i) (y0.slots i) x).stamp, (mk (.slot i) (y0.slots i) x).hk⟩ := by
    intro x hx
    obtain ⟨i, hf, hu, hs⟩ := hso x hx
    exact ⟨i, hf, hu, hs, by simp only [G, hf]⟩
  refine ⟨to.map G, ?_, ?_, ?_, ?_⟩
  · rw [h7]
    apply slotDeliveries_map
    intro x hx
    obtain ⟨i, hf, _, _, hg⟩ := hG x hx
    rw [hf, hg]
    simp only [Delivery.toSlot, hmk]
  · intro sd hsd
    obtain ⟨x, hx, rfl⟩ := List.mem_map.1 hsd
    obtain ⟨i, _, hu, hs, hg⟩ := hG x hx
    rw [hg]
    exact ⟨x, hx, hu, hs, rfl, rfl, rfl⟩
  · intro i
    rw [List.any_eq_true]
    constructor
    · rintro ⟨sd, hsd, he⟩
      obtain ⟨x, hx, rfl⟩ := List.mem_map.1 hsd
      obtain ⟨j, _, hu, hs, hg⟩ := hG x hx
      rw [hg] at he
      simp only [beq_iff_eq] at he
      subst he
      exact ⟨hu, List.mem_map.2 ⟨x, hx, hs.symm⟩⟩
    · rintro ⟨hu, hm⟩
      obtain ⟨x, hx, hs⟩ := List.mem_map.1 hm
      obtain ⟨j, _, hu', hs', hg⟩ := hG x hx
      have : j = i := hinj j i hu' hu (by rw [hs', hs])
      subst this
      exact ⟨G x, List.mem_map.2 ⟨x, hx, rfl⟩, by rw [hg]; simp⟩
  · intro i
    rw [List.filter_map, List.length_map]
    apply filter_length_le_one _ _ (nodup_of_map _ _ hnd)
    intro a ha b hb pa pb
    obtain ⟨ia, _, _, hsa, hga⟩ := hG a ha
    obtain ⟨ib, _, _, hsb, hgb⟩ := hG b hb
    simp only [Function.comp, hga, hgb, beq_iff_eq] at pa pb
    subst pa
    subst pb
    have hsid : a.sid = b.sid := by rw [← hsa, ← hsb]
    -- equal sids in a list whose sids are pairwise distinct
    exact inj_of_nodup_map _ _ hnd a ha b hb hsid
end Notify.Bridge
