import McpModel.Notify.Lemmas
/-!
Second invariant of the server-side model: the subscription tables, the sessions and the ghost
record of live listens / live resource subscriptions agree with each other.
-/
namespace Notify
open Generated.Notify

/-! ### `find?` / `heir` helpers -/

theorem find?_congr' {α} {l : List α} {p q : α → Bool} (h : ∀ a ∈ l, p a = q a) :
    l.find? p = l.find? q := by
  induction l with
  | nil => rfl
  | cons a t ih =>
    simp only [List.find?_cons]
    rw [h a (by simp)]
    split
    · rfl
    · exact ih (fun x hx => h x (by simp [hx]))

/-- Filtering keeps the first match if the match itself is kept. -/
theorem find?_filter_keep {α} {l : List α} {p q : α → Bool} {b : α} (h : l.find? p = some b)
    (hq : q b = true) : (l.filter q).find? p = some b := by
  induction l with
  | nil => simp at h
  | cons a t ih =>
    simp only [List.find?_cons] at h
    cases hp : p a with
    | true =>
      rw [hp] at h; simp at h; subst h
      simp [List.filter, hq, hp]
    | false =>
      rw [hp] at h; simp only [] at h
      cases hqa : q a with
      | true => simp only [List.filter, hqa, List.find?_cons, hp]; exact ih h
      | false => simp only [List.filter, hqa]; exact ih h

/-- The first match of a filtered list is the first match of the list, unless that one was dropped. -/
theorem find?_filter_sub {α} {l : List α} {p q : α → Bool} {b : α} (h : (l.filter q).find? p = some b) :
    ∃ b0, l.find? p = some b0 ∧ (q b0 = true → b0 = b) := by
  induction l with
  | nil => simp at h
  | cons a t ih =>
    cases hqa : q a with
    | true =>
      simp only [List.filter, hqa, List.find?_cons] at h ⊢
      cases hp : p a with
      | true => rw [hp] at h; simp at h; exact ⟨a, rfl, fun _ => h⟩
      | false => rw [hp] at h; simp only [] at h; exact ih h
    | false =>
      simp only [List.filter, hqa] at h
      obtain ⟨b0, h0, h1⟩ := ih h
      simp only [List.find?_cons]
      cases hp : p a with
      | true => exact ⟨a, rfl, fun hq => by rw [hqa] at hq; cases hq⟩
      | false => exact ⟨b0, h0, h1⟩

theorem find?_filter_props {α} {l : List α} {p q : α → Bool} {b : α} (h : (l.filter q).find? p = some b) :
    b ∈ l ∧ q b = true ∧ p b = true := by
  have h1 := List.mem_of_find?_eq_some h
  have h2 := List.find?_some h
  rw [List.mem_filter] at h1
  exact ⟨h1.1, h1.2, h2⟩

theorem find?_isSome_of_mem {α} {l : List α} {p : α → Bool} {b : α} (hb : b ∈ l) (hp : p b = true) :
    ∃ b0, l.find? p = some b0 := by
  cases h : l.find? p with
  | some b0 => exact ⟨b0, rfl⟩
  | none => rw [List.find?_eq_none] at h; exact absurd hp (h b hb)

theorem grantsK_iff (t : Kind) (l : Listen) : grantsK t l = true ↔ t ∈ l.kinds := by
  simp [grantsK, listenTable_diag]

theorem grantsU_iff (u : Nat) (l : Listen) : grantsU u l = true ↔ u ∈ l.uris := by
  simp [grantsU]

theorem heir_some {ls : List Listen} {sid : Nat} {g : Listen → Bool} {h : Nat} :
    heir ls sid g = some h ↔ ∃ l, ls.find? (fun l => l.sid == sid && g l) = some l ∧ l.id = h := by
  simp [heir]

/-- What an heir is: an open stream of the session that was granted the thing. -/
theorem heir_mem {ls : List Listen} {sid : Nat} {g : Listen → Bool} {h : Nat} (hh : heir ls sid g = some h) :
    ∃ l ∈ ls, l.sid = sid ∧ l.id = h ∧ g l = true := by
  obtain ⟨l, hf, hid⟩ := heir_some.1 hh
  have h1 := List.mem_of_find?_eq_some hf
  have h2 := List.find?_some hf
  simp at h2
  exact ⟨l, h1, h2.1, hid, h2.2⟩

/-- A session with an open stream that was granted the thing has an heir. -/
theorem heir_of_mem {ls : List Listen} {sid : Nat} {g : Listen → Bool} {l : Listen} (hl : l ∈ ls)
    (hs : l.sid = sid) (hg : g l = true) : ∃ h, heir ls sid g = some h := by
  obtain ⟨b0, hb0⟩ := find?_isSome_of_mem (p := fun l => l.sid == sid && g l) hl (by simp [hs, hg])
  exact ⟨b0.id, heir_some.2 ⟨b0, hb0, rfl⟩⟩

theorem heir_cons (n : Listen) (ls : List Listen) (sid : Nat) (g : Listen → Bool) :
    heir (n :: ls) sid g = if n.sid = sid ∧ g n = true then some n.id else heir ls sid g := by
  simp only [heir, List.find?_cons]
  by_cases h : n.sid = sid ∧ g n = true
  · simp [h]
  · have : (n.sid == sid && g n) = false := by
      cases hg : g n <;> simp_all
    simp [this, h]

/-- Dropping streams of ANOTHER session changes no heir of this one. -/
theorem heir_filter_other {ls : List Listen} {sid' : Nat} {g : Listen → Bool} {q : Listen → Bool}
    (hq : ∀ l ∈ ls, l.sid = sid' → q l = true) : heir (ls.filter q) sid' g = heir ls sid' g := by
  simp only [heir, List.find?_filter]
  congr 1
  apply find?_congr'
  intro a ha
  by_cases e : a.sid = sid'
  · simp [hq a ha e, e]
  · simp [e]

structure InvS (s : Server) : Prop where
  sess_nodup : (s.sessions.map Prod.fst).Nodup
  listen_modern : ∀ l ∈ s.listens, (l.sid, Gen.modern) ∈ s.sessions
  /-- the request ids of the open streams of one session are distinct -/
  listen_ids : ∀ l ∈ s.listens, ∀ l' ∈ s.listens, l.sid = l'.sid → l.id = l'.id → l = l'
  /-- a list-changed table holds, per session, exactly the id of the newest open stream of the session
  that was granted the kind -/
  subs_iff : ∀ t sid id, (sid, id) ∈ (s.ks t).subs ↔ heir s.listens sid (grantsK t) = some id
  rsubs_owner : ∀ r ∈ s.rsubs, (r.2.1, Gen.legacy) ∈ s.sessions ∨
    ((r.2.1, Gen.modern) ∈ s.sessions ∧ heir s.listens r.2.1 (grantsU r.1) = some r.2.2)
  /-- … and so does `resourceSubscriptions[u]` for a 2026-07-28 session -/
  listen_rsubs : ∀ u sid id, heir s.listens sid (grantsU u) = some id → (u, sid, id) ∈ s.rsubs
  rsubs_fun : ∀ r ∈ s.rsubs, ∀ q ∈ s.rsubs, r.1 = q.1 → r.2.1 = q.2.1 → r = q
  rsubs_nodup : s.rsubs.Nodup
  rlive_iff : ∀ sid u, (sid, u) ∈ s.rlive ↔ ((sid, Gen.legacy) ∈ s.sessions ∧ ∃ id, (u, sid, id) ∈ s.rsubs)

theorem invS_init (cap : Kind → Cap) : InvS (init cap) := by
  constructor <;> simp [init, heir]

/-- Every table entry names an open stream of its session that was granted the kind. -/
theorem InvS.subs_listen {s : Server} (h : InvS s) (t : Kind) (p : Nat × Nat) (hp : p ∈ (s.ks t).subs) :
    ∃ l ∈ s.listens, l.sid = p.1 ∧ l.id = p.2 ∧ t ∈ l.kinds := by
  obtain ⟨l, hl, h1, h2, h3⟩ := heir_mem ((h.subs_iff t p.1 p.2).1 hp)
  exact ⟨l, hl, h1, h2, (grantsK_iff t l).1 h3⟩

/-- The session of every open stream is in every table the stream was granted, under the id of the
newest open stream of that session that was granted the same kind. -/
theorem InvS.listen_served {s : Server} (h : InvS s) (l : Listen) (hl : l ∈ s.listens) (k : Kind)
    (hk : k ∈ l.kinds) : ∃ id, heir s.listens l.sid (grantsK k) = some id ∧ (l.sid, id) ∈ (s.ks k).subs := by
  obtain ⟨id, hid⟩ := heir_of_mem (g := grantsK k) hl rfl ((grantsK_iff k l).2 hk)
  exact ⟨id, hid, (h.subs_iff k l.sid id).2 hid⟩

theorem InvS.listen_served_uri {s : Server} (h : InvS s) (l : Listen) (hl : l ∈ s.listens) (u : Nat)
    (hu : u ∈ l.uris) : ∃ id, heir s.listens l.sid (grantsU u) = some id ∧ (u, l.sid, id) ∈ s.rsubs := by
  obtain ⟨id, hid⟩ := heir_of_mem (g := grantsU u) hl rfl ((grantsU_iff u l).2 hu)
  exact ⟨id, hid, h.listen_rsubs u l.sid id hid⟩

/-- Frame: labels that touch neither sessions nor subscription state. -/
theorem InvS.frame {s s' : Server} (h : InvS s) (h1 : s'.sessions = s.sessions)
    (h2 : ∀ t, (s'.ks t).subs = (s.ks t).subs) (h3 : s'.rsubs = s.rsubs)
    (h4 : s'.listens = s.listens) (h5 : s'.rlive = s.rlive) : InvS s' := by
  obtain ⟨a, b, c, d, e, f, g, i, j⟩ := h
  constructor
  all_goals simp only [h1, h2, h3, h4, h5]
  all_goals assumption

/-- A session has one generation. -/
theorem gen_unique {l : List (Nat × Gen)} (h : (l.map Prod.fst).Nodup) {sid : Nat} {g g' : Gen}
    (h1 : (sid, g) ∈ l) (h2 : (sid, g') ∈ l) : g = g' := by
  induction l with
  | nil => simp at h1
  | cons a t ih =>
    simp only [List.map_cons, List.nodup_cons] at h
    simp only [List.mem_cons] at h1 h2
    rcases h1 with h1 | h1 <;> rcases h2 with h2 | h2
    · rw [← h1] at h2; exact (Prod.mk.inj h2).2.symm
    · exfalso; apply h.1; rw [← h1]; simp; exact ⟨g', h2⟩
    · exfalso; apply h.1; rw [← h2]; simp; exact ⟨g, h1⟩
    · exact ih h.2 h1 h2

theorem invS_bind (s : Server) (sid : Nat) (h : InvS s) : InvS (bind s sid) := by
  unfold bind
  split
  · exact h
  · rename_i hn
    obtain ⟨a, b, c, d, e, f, g, i, j⟩ := h
    refine ⟨?_, ?_, c, d, ?_, f, g, i, ?_⟩
    · simp only [List.map_append, List.map_cons, List.map_nil]
      rw [List.nodup_append]
      refine ⟨a, by simp, ?_⟩
      intro x hx y hy; simp at hy; subst hy; intro e; subst e; exact hn hx
    · intro l hl; simp; exact b l hl
    · intro r hr
      rcases e r hr with e | e
      · left; simp; exact e
      · right; refine ⟨by simp; exact e.1, e.2⟩
    · intro sid' u; simp; exact j sid' u

theorem hello_keep {l : List (Nat × Gen)} {sid x : Nat} {g ng : Gen} (h : (x, g) ∈ l) (hne : x ≠ sid) :
    (x, g) ∈ l.map (fun p => if p.1 = sid then (sid, ng) else p) := by
  simp only [List.mem_map]
  exact ⟨(x, g), h, by simp [hne]⟩

theorem invS_hello (s : Server) (sid : Nat) (m : Bool) (h : InvS s) : InvS (hello s sid m) := by
  unfold hello
  split
  · rename_i hu
    obtain ⟨a, b, c, d, e, f, g, i, j⟩ := h
    have keep : ∀ x gg, gg ≠ Gen.uninit → (x, gg) ∈ s.sessions →
        (x, gg) ∈ s.sessions.map (fun p => if p.1 = sid then (sid, if m then Gen.modern else Gen.legacy) else p) := by
      intro x gg hg hx
      apply hello_keep hx
      intro e; subst e; exact hg (gen_unique a hx hu)
    have a' : ((s.sessions.map (fun p => if p.1 = sid then (sid, if m then Gen.modern else Gen.legacy) else p)).map Prod.fst).Nodup := by
      simp only [map_fst_hello]; exact a
    refine ⟨a', ?_, c, d, ?_, f, g, i, ?_⟩
    · intro l hl; exact keep _ _ (by simp) (b l hl)
    · intro r hr
      rcases e r hr with e | e
      · left; exact keep _ _ (by simp) e
      · right; exact ⟨keep _ _ (by simp) e.1, e.2⟩
    · intro sid' u
      constructor
      · intro hr
        obtain ⟨h1, h2⟩ := (j sid' u).1 hr
        exact ⟨keep _ _ (by simp) h1, h2⟩
      · rintro ⟨h1, id, h2⟩
        apply (j sid' u).2
        refine ⟨?_, id, h2⟩
        rcases e _ h2 with e | e
        · exact e
        · have := gen_unique a' h1 (keep _ _ (by simp) e.1)
          cases this
  · exact h

theorem invS_subscribe (s : Server) (sid id u : Nat) (h : InvS s) : InvS (subscribe s sid id u) := by
  unfold subscribe
  split
  · rename_i hl
    obtain ⟨a, b, c, d, e, f, g, i, j⟩ := h
    refine ⟨a, b, c, d, ?_, ?_, ?_, ?_, ?_⟩
    · intro r hr
      simp at hr
      rcases hr with hr | hr
      · exact e r hr.1
      · subst hr; left; exact hl
    · intro u' sid' id' hh
      have h1 := f u' sid' id' hh
      obtain ⟨l, hl', hs, _, _⟩ := heir_mem hh
      have h2 := b l hl'
      have hne : sid' ≠ sid := by
        intro e; rw [hs, e] at h2; exact absurd (gen_unique a h2 hl) (by simp)
      simp; left; exact ⟨h1, Or.inr hne⟩
    · intro r hr q hq h1 h2
      simp at hr hq
      rcases hr with hr | hr <;> rcases hq with hq | hq
      · exact g r hr.1 q hq.1 h1 h2
      · subst hq; simp at h1 h2; grind
      · subst hr; simp at h1 h2; grind
      · rw [hr, hq]
    · rw [List.nodup_append]
      refine ⟨i.filter _, by simp, ?_⟩
      intro x hx y hy; simp at hx hy; subst hy; intro e; subst e; simp at hx
    · intro sid' u'
      have := j sid' u'
      simp
      constructor
      · rintro (h1 | ⟨rfl, rfl⟩)
        · obtain ⟨hleg, id', hid⟩ := this.1 h1
          refine ⟨hleg, ?_⟩
          by_cases e : u' = u ∧ sid' = sid
          · exact ⟨id, Or.inr ⟨e.1, e.2, rfl⟩⟩
          · exact ⟨id', Or.inl ⟨hid, by grind⟩⟩
        · exact ⟨hl, id, Or.inr ⟨rfl, rfl, rfl⟩⟩
      · rintro ⟨hleg, id', (h1 | ⟨rfl, rfl, rfl⟩)⟩
        · left; exact this.2 ⟨hleg, id', h1.1⟩
        · right; exact ⟨rfl, rfl⟩
  · exact h

theorem invS_unsubscribe (s : Server) (sid u : Nat) (h : InvS s) : InvS (unsubscribe s sid u) := by
  unfold unsubscribe
  split
  · rename_i hl
    obtain ⟨a, b, c, d, e, f, g, i, j⟩ := h
    refine ⟨a, b, c, d, ?_, ?_, ?_, i.filter _, ?_⟩
    · intro r hr
      simp at hr
      exact e r hr.1
    · intro u' sid' id' hh
      have h1 := f u' sid' id' hh
      obtain ⟨l, hl', hs, _, _⟩ := heir_mem hh
      have h2 := b l hl'
      have hne : sid' ≠ sid := by
        intro e; rw [hs, e] at h2; exact absurd (gen_unique a h2 hl) (by simp)
      simp; exact ⟨h1, Or.inr hne⟩
    · intro r hr q hq h1 h2
      simp at hr hq
      exact g r hr.1 q hq.1 h1 h2
    · intro sid' u'
      have := j sid' u'
      simp
      grind
  · exact h

theorem invS_close (s : Server) (sid : Nat) (h : InvS s) : InvS (close s sid) := by
  obtain ⟨a, b, c, d, e, f, g, i, j⟩ := h
  unfold close
  have hheir : ∀ sid' gr, sid' ≠ sid → heir (s.listens.filter (fun l => l.sid != sid)) sid' gr = heir s.listens sid' gr := by
    intro sid' gr hne
    apply heir_filter_other
    intro l _ hs; simp [hs, hne]
  have hnone : ∀ gr, heir (s.listens.filter (fun l => l.sid != sid)) sid gr = none := by
    intro gr
    cases hh : heir (s.listens.filter (fun l => l.sid != sid)) sid gr with
    | none => rfl
    | some x =>
      obtain ⟨l, hl, hs, _, _⟩ := heir_mem hh
      simp at hl
      exact absurd hs hl.2
  refine ⟨?_, ?_, ?_, ?_, ?_, ?_, ?_, i.filter _, ?_⟩
  · have : (s.sessions.filter (fun p => p.1 != sid)).map Prod.fst = (s.sessions.map Prod.fst).filter (fun x => x != sid) := by
      rw [List.filter_map]; rfl
    simp only [this]; exact a.filter _
  · intro l hl; simp at hl ⊢; exact ⟨b l hl.1, hl.2⟩
  · intro l hl l' hl'; simp at hl hl'; exact c l hl.1 l' hl'.1
  · intro t sid' id
    simp only []
    by_cases hs : sid' = sid
    · subst hs; rw [hnone]; simp
    · rw [hheir _ _ hs, ← d t sid' id]; simp [hs]
  · intro r hr
    simp at hr
    rcases e r hr.1 with e | e
    · left; simp; exact ⟨e, hr.2⟩
    · right; refine ⟨by simp; exact ⟨e.1, hr.2⟩, ?_⟩
      rw [hheir _ _ hr.2]; exact e.2
  · intro u sid' id hh
    simp only [] at hh
    by_cases hs : sid' = sid
    · subst hs; rw [hnone] at hh; cases hh
    · rw [hheir _ _ hs] at hh
      simp; exact ⟨f u sid' id hh, hs⟩
  · intro r hr q hq; simp at hr hq; exact g r hr.1 q hq.1
  · intro sid' u'
    have := j sid' u'
    simp
    grind

theorem find?_spec {l : List Listen} {sid id : Nat} {x : Listen}
    (h : l.find? (fun l => l.sid == sid && l.id == id) = some x) : x ∈ l ∧ x.sid = sid ∧ x.id = id := by
  have h1 := List.mem_of_find?_eq_some h
  have h2 := List.find?_some h
  simp at h2
  exact ⟨h1, h2.1, h2.2⟩

theorem mem_put {l : List (Nat × Nat)} {sid id : Nat} {p : Nat × Nat} :
    p ∈ put l sid id ↔ (p ∈ l ∧ p.1 ≠ sid) ∨ p = (sid, id) := by
  simp [put]

theorem listenOk_spec {s : Server} {sid id : Nat} (h : listenOk s sid id = true) :
    ∀ l ∈ s.listens, ¬(l.sid = sid ∧ l.id = id) := by
  intro l hl
  simp [listenOk] at h
  have := h l hl
  intro hc
  rcases this with h1 | h1
  · exact h1 hc.1
  · exact h1 hc.2

theorem invS_listen (s : Server) (sid id : Nat) (kinds : List Kind) (uris : List Nat) (h : InvS s) :
    InvS (listen s sid id kinds uris) := by
  unfold listen
  split
  · rename_i hguard
    obtain ⟨hm, hok, hnd⟩ := hguard
    have ok := listenOk_spec hok
    obtain ⟨a, b, c, d, e, f, g, i, j⟩ := h
    generalize hak : kinds.filter (gateListen s) = ak
    generalize hau : (if resSub s = true then uris else []) = au
    have hau_nd : au.Nodup := by rw [← hau]; split; exact hnd; simp
    simp only []
    generalize hn : (⟨sid, id, ak, au⟩ : Listen) = n
    have hnsid : n.sid = sid := by rw [← hn]
    have hnid : n.id = id := by rw [← hn]
    have hnk : n.kinds = ak := by rw [← hn]
    have hnu : n.uris = au := by rw [← hn]
    have hgK : ∀ t, ak.any (fun k => listenTable k == some t) = grantsK t n := by
      intro t; simp [grantsK, hnk]
    have hgU : ∀ u, grantsU u n = true ↔ u ∈ au := by
      intro u; rw [grantsU_iff, hnu]
    refine ⟨a, ?_, ?_, ?_, ?_, ?_, ?_, ?_, ?_⟩
    · -- listen_modern
      intro l0 hl0
      simp at hl0
      rcases hl0 with h0 | h0
      · subst h0; rw [hnsid]; exact hm
      · exact b l0 h0
    · -- listen_ids
      intro l1 h1 l2 h2 hs hi
      simp at h1 h2
      rcases h1 with e1 | e1 <;> rcases h2 with e2 | e2
      · rw [e1, e2]
      · exfalso; apply ok l2 e2; rw [← hs, ← hi, e1]; exact ⟨hnsid, hnid⟩
      · exfalso; apply ok l1 e1; rw [hs, hi, e2]; exact ⟨hnsid, hnid⟩
      · exact c l1 e1 l2 e2 hs hi
    · -- subs_iff
      intro t sid' id'
      simp only []
      rw [heir_cons, hgK, hnsid, hnid]
      cases hg : grantsK t n with
      | true =>
        simp only [if_true]
        rw [mem_put]
        by_cases hs : sid' = sid
        · subst hs; simp
          constructor
          · intro e; exact e.symm
          · intro e; exact e.symm
        · have hs' : ¬ sid = sid' := fun e => hs e.symm
          simp [hs, hs']
          exact d t sid' id'
      | false =>
        simp
        exact d t sid' id'
    · -- rsubs_owner
      intro r hr
      simp at hr
      rcases hr with hr | ⟨u, hu, rfl⟩
      · rcases e r hr.1 with e | e
        · exact Or.inl e
        · right
          refine ⟨e.1, ?_⟩
          rw [heir_cons, hnsid]
          have : ¬(sid = r.2.1 ∧ grantsU r.1 n = true) := by
            rintro ⟨h1, h2⟩
            have := (hgU r.1).1 h2
            rcases hr.2 with h3 | h3
            · exact h3 h1.symm
            · exact h3 this
          simp only [this, if_false]
          exact e.2
      · right
        refine ⟨hm, ?_⟩
        rw [heir_cons, hnsid, hnid]
        simp [(hgU u).2 hu]
    · -- listen_rsubs
      intro u sid' id' hh
      rw [heir_cons, hnsid, hnid] at hh
      simp only []
      rw [List.mem_append]
      by_cases hc : sid = sid' ∧ grantsU u n = true
      · simp only [hc, and_self, if_true] at hh
        right
        rw [List.mem_map]
        refine ⟨u, (hgU u).1 hc.2, ?_⟩
        cases hh; rw [hc.1]
      · simp only [hc, if_false] at hh
        left
        rw [List.mem_filter]
        refine ⟨f u sid' id' hh, ?_⟩
        by_cases hs : sid' = sid
        · have : ¬ u ∈ au := fun hu => hc ⟨hs.symm, (hgU u).2 hu⟩
          simp [this]
        · simp [hs]
    · -- rsubs_fun
      intro r hr q hq h1 h2
      simp at hr hq
      rcases hr with hr | ⟨u, hu, rfl⟩ <;> rcases hq with hq | ⟨u', hu', rfl⟩
      · exact g r hr.1 q hq.1 h1 h2
      · simp at h1 h2; grind
      · simp at h1 h2; grind
      · simp at h1; rw [h1]
    · -- rsubs_nodup
      rw [List.nodup_append]
      refine ⟨i.filter _, ?_, ?_⟩
      · exact List.Pairwise.map _ (fun x y hxy => by simpa using hxy) hau_nd
      · intro x hx y hy
        simp at hx hy
        obtain ⟨u, hu, rfl⟩ := hy
        intro e; subst e
        simp at hx
        exact hx.2 hu
    · -- rlive_iff
      intro sid' u'
      rw [j sid' u']
      constructor
      · rintro ⟨hleg, id', hid⟩
        refine ⟨hleg, id', ?_⟩
        simp; left
        refine ⟨hid, Or.inl ?_⟩
        intro e; rw [e] at hleg; exact absurd (gen_unique a hleg hm) (by simp)
      · rintro ⟨hleg, id', hid⟩
        refine ⟨hleg, id', ?_⟩
        simp at hid
        rcases hid with hid | ⟨_, _, _, e, _⟩
        · exact hid.1
        · have hleg' : (sid', Gen.legacy) ∈ s.sessions := hleg
          rw [← e] at hleg'; exact absurd (gen_unique a hleg' hm) (by simp)
  · exact h

/-- Dropping streams that were granted nothing of the kind changes no heir. -/
theorem heir_filter_irrelevant {ls : List Listen} {sid' : Nat} {g q : Listen → Bool}
    (hq : ∀ l ∈ ls, q l = false → g l = false) : heir (ls.filter q) sid' g = heir ls sid' g := by
  simp only [heir, List.find?_filter]
  congr 1
  apply find?_congr'
  intro a ha
  cases hqa : q a with
  | true => by_cases e : a.sid = sid' <;> simp [e]
  | false => simp [hq a ha hqa]

/-- **Hand-over.**  After the stream `(sid, id)` is dropped, the newest stream of a session that was
granted the thing is the one it was before, unless that was the dropped stream: then it is the newest
of the remaining ones. -/
theorem heir_drop {ls : List Listen} {sid id sid' id' : Nat} {g : Listen → Bool} :
    heir (ls.filter (fun l' => !(l'.sid == sid && l'.id == id))) sid' g = some id' ↔
      (heir ls sid' g = some id' ∧ ¬(sid' = sid ∧ id' = id)) ∨
      (sid' = sid ∧ heir ls sid g = some id ∧
        heir (ls.filter (fun l' => !(l'.sid == sid && l'.id == id))) sid g = some id') := by
  constructor
  · intro hh
    obtain ⟨b, hb, hbid⟩ := heir_some.1 hh
    obtain ⟨hbm, hqb, hpb⟩ := find?_filter_props hb
    obtain ⟨b0, hb0, himp⟩ := find?_filter_sub hb
    simp at hqb hpb
    cases hq0 : (!(b0.sid == sid && b0.id == id)) with
    | true =>
      have := himp hq0
      subst this
      left
      refine ⟨heir_some.2 ⟨b0, hb0, hbid⟩, ?_⟩
      rintro ⟨e1, e2⟩
      rcases hqb with hqb | hqb
      · apply hqb; rw [hpb.1, e1]
      · apply hqb; rw [hbid, e2]
    | false =>
      simp at hq0
      have hp0 := List.find?_some hb0
      simp at hp0
      have e : sid' = sid := by rw [← hp0.1, hq0.1]
      right
      subst e
      exact ⟨rfl, heir_some.2 ⟨b0, hb0, hq0.2⟩, hh⟩
  · rintro (⟨hh, hne⟩ | ⟨rfl, _, hh⟩)
    · obtain ⟨b0, hb0, hbid⟩ := heir_some.1 hh
      have hp0 := List.find?_some hb0
      simp at hp0
      apply heir_some.2
      refine ⟨b0, find?_filter_keep hb0 ?_, hbid⟩
      simp
      by_cases e1 : b0.sid = sid
      · right; intro e2; apply hne
        exact ⟨by rw [← hp0.1, e1], by rw [← hbid, e2]⟩
      · exact Or.inl e1
    · exact hh

theorem nodup_filterMap_of_inj_on {α β} {l : List α} {f : α → Option β} (hnd : l.Nodup)
    (hinj : ∀ a ∈ l, ∀ a' ∈ l, ∀ b, f a = some b → f a' = some b → a = a') : (l.filterMap f).Nodup := by
  induction l with
  | nil => simp
  | cons a t ih =>
    simp only [List.nodup_cons] at hnd
    have iht := ih hnd.2 (fun x hx y hy => hinj x (List.mem_cons_of_mem _ hx) y (List.mem_cons_of_mem _ hy))
    cases hfa : f a with
    | none => simp [hfa]; exact iht
    | some b =>
      simp only [List.filterMap_cons, hfa, List.nodup_cons]
      refine ⟨?_, iht⟩
      intro hb
      obtain ⟨a', ha', hfa'⟩ := List.mem_filterMap.1 hb
      have := hinj a (List.mem_cons_self) a' (List.mem_cons_of_mem _ ha') b hfa hfa'
      rw [this] at hnd
      exact hnd.1 ha'

theorem invS_listenEnd (s : Server) (sid id : Nat) (h : InvS s) : InvS (listenEnd s sid id) := by
  unfold listenEnd
  split
  · exact h
  · rename_i l hfind
    obtain ⟨hl, hsid, hid⟩ := find?_spec hfind
    obtain ⟨a, b, c, d, e, f, g, i, j⟩ := h
    have hmod : (sid, Gen.modern) ∈ s.sessions := by rw [← hsid]; exact b l hl
    -- the stream that ends is the only one with its id
    have only : ∀ u, heir s.listens sid (grantsU u) = some id → u ∈ l.uris := by
      intro u hh
      obtain ⟨l0, hl0, h1, h2, h3⟩ := heir_mem hh
      have := c l0 hl0 l hl (by rw [h1, hsid]) (by rw [h2, hid])
      rw [← this]; exact (grantsU_iff u l0).1 h3
    simp only []
    generalize hrest : s.listens.filter (fun l' => !(l'.sid == sid && l'.id == id)) = rest
    have hsub : ∀ x ∈ rest, x ∈ s.listens := by
      intro x hx; rw [← hrest] at hx; exact (List.mem_filter.1 hx).1
    -- what the rewritten resource table contains
    have hG : ∀ r', r' ∈ s.rsubs.filterMap (fun r =>
          if (r.2.1 == sid && r.2.2 == id && l.uris.contains r.1) = true then
            (heir rest sid (grantsU r.1)).map (fun h => (r.1, sid, h))
          else some r) ↔
        (r' ∈ s.rsubs ∧ ¬(r'.2.1 = sid ∧ r'.2.2 = id ∧ r'.1 ∈ l.uris)) ∨
        (r'.2.1 = sid ∧ (r'.1, sid, id) ∈ s.rsubs ∧ r'.1 ∈ l.uris ∧ heir rest sid (grantsU r'.1) = some r'.2.2) := by
      intro r'
      rw [List.mem_filterMap]
      constructor
      · rintro ⟨r, hr, hGr⟩
        split at hGr
        · rename_i hc
          simp at hc
          cases hh : heir rest sid (grantsU r.1) with
          | none => rw [hh] at hGr; simp at hGr
          | some x =>
            rw [hh] at hGr; simp at hGr
            subst hGr
            right
            obtain ⟨r1, r2, r3⟩ := r
            simp at hc hh ⊢
            obtain ⟨⟨rfl, rfl⟩, hc3⟩ := hc
            exact ⟨hr, hc3, hh⟩
        · rename_i hc
          simp at hc hGr
          subst hGr
          left
          refine ⟨hr, ?_⟩
          rintro ⟨h1, h2, h3⟩
          exact hc h1 h2 h3
      · rintro (⟨hr, hc⟩ | ⟨h1, hr, h3, h4⟩)
        · refine ⟨r', hr, ?_⟩
          have : ¬((r'.2.1 == sid && r'.2.2 == id && l.uris.contains r'.1) = true) := by
            simp; intro x y z; exact hc ⟨x, y, z⟩
          rw [if_neg this]
        · refine ⟨(r'.1, sid, id), hr, ?_⟩
          have : (((r'.1, sid, id) : Nat × Nat × Nat).2.1 == sid && ((r'.1, sid, id) : Nat × Nat × Nat).2.2 == id && l.uris.contains ((r'.1, sid, id) : Nat × Nat × Nat).1) = true := by
            simp; exact h3
          rw [if_pos this]
          show (heir rest sid (grantsU r'.1)).map (fun h => (r'.1, sid, h)) = some r'
          rw [h4]
          obtain ⟨r1, r2, r3⟩ := r'
          simp at h1 ⊢
          exact h1.symm
    refine ⟨a, ?_, ?_, ?_, ?_, ?_, ?_, ?_, ?_⟩
    · intro l' hl'; exact b l' (hsub l' hl')
    · intro l1 h1 l2 h2; exact c l1 (hsub l1 h1) l2 (hsub l2 h2)
    · -- subs_iff
      intro t sid' id'
      rw [← hrest, heir_drop, hrest, List.mem_filterMap]
      constructor
      · rintro ⟨p, hp, hF⟩
        split at hF
        · rename_i hc
          simp at hc
          cases hh : heir rest sid (grantsK t) with
          | none => rw [hh] at hF; simp at hF
          | some x =>
            rw [hh] at hF; simp at hF
            obtain ⟨rfl, rfl⟩ := hF
            right
            refine ⟨rfl, ?_, ?_⟩
            · have := (d t p.1 p.2).1 hp
              rw [hc.1, hc.2] at this; exact this
            · first | exact hh | rfl
        · rename_i hc
          simp at hc hF
          subst hF
          left
          exact ⟨(d t sid' id').1 hp, fun hx => hc hx.1 hx.2⟩
      · rintro (⟨hh, hne⟩ | ⟨rfl, hh, hr⟩)
        · refine ⟨(sid', id'), (d t sid' id').2 hh, ?_⟩
          have : ¬(((sid', id') : Nat × Nat).1 == sid && ((sid', id') : Nat × Nat).2 == id) = true := by
            simp; intro x y; exact hne ⟨x, y⟩
          rw [if_neg this]
        · refine ⟨(sid', id), (d t sid' id).2 hh, ?_⟩
          simp [hr]
    · -- rsubs_owner
      intro r' hr'
      rcases (hG r').1 hr' with ⟨hr, hc⟩ | ⟨h1, _, _, h4⟩
      · rcases e r' hr with e | e
        · exact Or.inl e
        · right
          refine ⟨e.1, ?_⟩
          rw [← hrest, heir_drop]
          left
          refine ⟨e.2, ?_⟩
          rintro ⟨x, y⟩
          apply hc
          refine ⟨x, y, only r'.1 ?_⟩
          rw [← x, ← y]; exact e.2
      · right
        rw [h1]
        exact ⟨hmod, h4⟩
    · -- listen_rsubs
      intro u sid' id' hh
      rw [← hrest, heir_drop, hrest] at hh
      apply (hG (u, sid', id')).2
      rcases hh with ⟨hh, hne⟩ | ⟨rfl, hh, hr⟩
      · left
        exact ⟨f u sid' id' hh, fun hx => hne ⟨hx.1, hx.2.1⟩⟩
      · right
        exact ⟨rfl, f u sid' id hh, only u hh, hr⟩
    · -- rsubs_fun
      have key : ∀ r', r' ∈ s.rsubs.filterMap (fun r =>
          if (r.2.1 == sid && r.2.2 == id && l.uris.contains r.1) = true then
            (heir rest sid (grantsU r.1)).map (fun h => (r.1, sid, h))
          else some r) → ∃ x, (r'.1, r'.2.1, x) ∈ s.rsubs ∧
            (¬(r'.2.1 = sid ∧ x = id ∧ r'.1 ∈ l.uris) → x = r'.2.2) ∧
            ((r'.2.1 = sid ∧ x = id ∧ r'.1 ∈ l.uris) → heir rest sid (grantsU r'.1) = some r'.2.2) := by
        intro r' hr'
        rcases (hG r').1 hr' with ⟨hr, hc⟩ | ⟨h1, hr, h3, h4⟩
        · exact ⟨r'.2.2, hr, fun _ => rfl, fun hx => absurd hx hc⟩
        · refine ⟨id, by rw [h1]; exact hr, fun hx => absurd ⟨h1, rfl, h3⟩ hx, fun _ => h4⟩
      intro r1 hr1 r2 hr2 e1 e2
      obtain ⟨x1, m1, n1, k1⟩ := key r1 hr1
      obtain ⟨x2, m2, n2, k2⟩ := key r2 hr2
      have hx := g _ m1 _ m2 e1 e2
      simp at hx
      obtain ⟨_, _, hx⟩ := hx
      subst hx
      obtain ⟨a1, b1, c1⟩ := r1
      obtain ⟨a2, b2, c2⟩ := r2
      simp at e1 e2 n1 n2 k1 k2 ⊢
      subst e1 e2
      refine ⟨rfl, rfl, ?_⟩
      by_cases hc : b1 = sid ∧ x1 = id ∧ a1 ∈ l.uris
      · have p1 := k1 hc.1 hc.2.1 hc.2.2
        have p2 := k2 hc.1 hc.2.1 hc.2.2
        rw [p1] at p2; exact Option.some.inj p2
      · have p1 := n1 (fun x y z => hc ⟨x, y, z⟩)
        have p2 := n2 (fun x y z => hc ⟨x, y, z⟩)
        rw [← p1, ← p2]
    · -- rsubs_nodup
      apply nodup_filterMap_of_inj_on i
      intro r1 hr1 r2 hr2 b' h1 h2
      apply g r1 hr1 r2 hr2
      · split at h1 <;> split at h2
        · cases hh : heir rest sid (grantsU r1.1) <;> rw [hh] at h1 <;> simp at h1
          cases hh2 : heir rest sid (grantsU r2.1) <;> rw [hh2] at h2 <;> simp at h2
          rw [← h1] at h2; simp at h2; exact h2.1.symm
        · cases hh : heir rest sid (grantsU r1.1) <;> rw [hh] at h1 <;> simp at h1
          simp at h2; rw [← h1] at h2; rw [h2]
        · cases hh2 : heir rest sid (grantsU r2.1) <;> rw [hh2] at h2 <;> simp at h2
          simp at h1; rw [← h2] at h1; rw [h1]
        · simp at h1 h2; rw [h1, h2]
      · split at h1 <;> split at h2
        · rename_i c1 c2; simp at c1 c2; rw [c1.1.1, c2.1.1]
        · rename_i c1 c2; simp at c1
          cases hh : heir rest sid (grantsU r1.1) <;> rw [hh] at h1 <;> simp at h1
          simp at h2; rw [← h1] at h2; rw [h2, c1.1.1]
        · rename_i c1 c2; simp at c2
          cases hh2 : heir rest sid (grantsU r2.1) <;> rw [hh2] at h2 <;> simp at h2
          simp at h1; rw [← h2] at h1; rw [h1, c2.1.1]
        · simp at h1 h2; rw [h1, h2]
    · -- rlive_iff
      intro sid' u'
      rw [j sid' u']
      constructor
      · rintro ⟨hleg, id', hid⟩
        refine ⟨hleg, id', (hG (u', sid', id')).2 (Or.inl ⟨hid, ?_⟩)⟩
        rintro ⟨x, _⟩
        simp at x
        rw [x] at hleg; exact absurd (gen_unique a hleg hmod) (by simp)
      · rintro ⟨hleg, id', hid⟩
        refine ⟨hleg, id', ?_⟩
        rcases (hG (u', sid', id')).1 hid with ⟨hr, _⟩ | ⟨x, _⟩
        · exact hr
        · simp at x
          have hleg' : (sid', Gen.legacy) ∈ s.sessions := hleg
          rw [x] at hleg'; exact absurd (gen_unique a hleg' hmod) (by simp)

/-- The acknowledgement touches no table; a handler that was granted nothing leaves the record. -/
theorem invS_listenAck (s : Server) (sid id : Nat) (h : InvS s) : InvS (listenAck s sid id).1 := by
  unfold listenAck
  split
  · exact h
  · rename_i l hfind
    obtain ⟨hl, hsid, hid⟩ := find?_spec hfind
    split
    · exact h
    · split
      · rename_i hempty
        obtain ⟨a, b, c, d, e, f, g, i, j⟩ := h
        -- the record that leaves was granted nothing: no heir changes
        have irr : ∀ sid' (gr : Listen → Bool), (∀ x : Listen, x.kinds = [] → x.uris = [] → gr x = false) →
            heir (s.listens.filter (fun l' => !(l'.sid == sid && l'.id == id))) sid' gr = heir s.listens sid' gr := by
          intro sid' gr hgr
          apply heir_filter_irrelevant
          intro x hx hq
          simp at hq
          have := c x hx l hl (by rw [hq.1, hsid]) (by rw [hq.2, hid])
          rw [this]
          exact hgr l hempty.1 hempty.2
        have irrK : ∀ t (x : Listen), x.kinds = [] → x.uris = [] → grantsK t x = false := by
          intro t x hk _; simp [grantsK, hk]
        have irrU : ∀ u (x : Listen), x.kinds = [] → x.uris = [] → grantsU u x = false := by
          intro u x _ hu; simp [grantsU, hu]
        refine ⟨a, ?_, ?_, ?_, ?_, ?_, g, i, j⟩
        · intro l' hl'; simp at hl'; exact b l' hl'.1
        · intro l1 h1 l2 h2; simp at h1 h2; exact c l1 h1.1 l2 h2.1
        · intro t sid' id'; simp only []; rw [irr sid' _ (irrK t)]; exact d t sid' id'
        · intro r hr
          rcases e r hr with e | e
          · exact Or.inl e
          · right; refine ⟨e.1, ?_⟩; simp only []; rw [irr _ _ (irrU r.1)]; exact e.2
        · intro u sid' id' hh; simp only [] at hh; rw [irr _ _ (irrU u)] at hh; exact f u sid' id' hh
      · exact h.frame rfl (fun _ => rfl) rfl rfl rfl

theorem invS_setK {s : Server} (k : Kind) (f : KState → KState) (hf : ∀ st, (f st).subs = st.subs)
    (h : InvS s) : InvS (setK s k f) := by
  refine h.frame rfl ?_ rfl rfl rfl
  intro t; simp only [setK]; split
  · rename_i e; subst e; exact hf _
  · rfl

theorem invS_change (s : Server) (f : FSet) (e : Eff) (h : InvS s) : InvS (change s f e) := by
  have hb : InvS (bumpVer s f e) := h.frame rfl (fun _ => rfl) rfl rfl rfl
  unfold change
  split
  · exact h
  · split
    · exact hb
    · rename_i k _
      unfold notifyChange
      split
      · unfold arm
        split
        · exact invS_setK k _ (fun _ => rfl) hb
        · exact (invS_setK k (fun st => { st with tracked := some (some ((bumpVer s f e).now + delay)) }) (fun _ => rfl) hb).frame (by rfl) (by intro t; rfl) (by rfl) (by rfl) (by rfl)
      · exact hb

theorem invS_step (s : Server) (l : Label) (h : InvS s) : InvS (step s l).1 := by
  cases l with
  | change f e => exact invS_change s f e h
  | tick d => exact h.frame rfl (fun _ => rfl) rfl rfl rfl
  | fireTracked k =>
    simp only [step, fireTracked]
    split
    · split
      · exact invS_setK k _ (fun _ => rfl) h
      · exact h
    · exact h
  | fireOrphan k i =>
    simp only [step, fireOrphan]
    split
    · split
      · exact invS_setK k _ (fun _ => rfl) h
      · exact h
    · exact h
  | cbrun k =>
    simp only [step, cbrun]
    split
    · exact h
    · exact (invS_setK k (fun st => { st with
        pending := st.pending - 1, tracked := none,
        orphans := (match st.tracked with | some (some d) => d :: st.orphans | _ => st.orphans),
        inflight := st.inflight ++ sendList s k }) (fun _ => rfl) h).frame
        (by rfl) (by intro t; rfl) (by rfl) (by rfl) (by rfl)
  | deliver k i =>
    simp only [step, deliver]
    split
    · exact h
    · exact invS_setK k (fun st => { st with inflight := st.inflight.eraseIdx i }) (fun _ => rfl) h
  | listenRefused sid id kinds uris n =>
    simp only [step, listenRefused]
    split
    · exact invS_listenEnd _ sid id (invS_listen s sid id kinds (uris.take n) h)
    · exact h
  | updatedNamed u v => exact h
  | bind sid => exact invS_bind s sid h
  | hello sid m => exact invS_hello s sid m h
  | listen sid id kinds uris => exact invS_listen s sid id kinds uris h
  | listenAck sid id => exact invS_listenAck s sid id h
  | listenEnd sid id => exact invS_listenEnd s sid id h
  | subscribe sid id u => exact invS_subscribe s sid id u h
  | unsubscribe sid u => exact invS_unsubscribe s sid u h
  | close sid => exact invS_close s sid h
  | updated u => exact h

theorem reach_inv {cap : Kind → Cap} {s : Server} (h : Reach cap s) : InvT s ∧ InvS s := by
  induction h with
  | init => exact ⟨invT_init cap, invS_init cap⟩
  | step l _ ih => exact ⟨invT_step _ l ih.1, invS_step _ l ih.2⟩

theorem reach_run {cap : Kind → Cap} {s : Server} (h : Reach cap s) (ls : List Label) :
    Reach cap (run s ls).1 := by
  induction ls generalizing s with
  | nil => exact h
  | cons l ls ih => simp only [run]; exact ih (Reach.step l h)

theorem reach_final (cap : Kind → Cap) (ls : List Label) : Reach cap (final cap ls) :=
  reach_run Reach.init ls

/-- Every output of a run is the output of one step taken from a reachable state. -/
theorem outputs_from_reach {cap : Kind → Cap} {s : Server} (h : Reach cap s) (ls : List Label) :
    ∀ o ∈ (run s ls).2, ∃ s' l, Reach cap s' ∧ o ∈ (step s' l).2 := by
  induction ls generalizing s with
  | nil => intro o ho; simp [run] at ho
  | cons l ls ih =>
    intro o ho
    simp only [run, List.mem_append] at ho
    rcases ho with ho | ho
    · exact ⟨s, l, h, ho⟩
    · exact ih (Reach.step l h) o ho

/-- No label changes the capability switches. -/
theorem step_cap (s : Server) (l : Label) : (step s l).1.cap = s.cap := by
  cases l with
  | change f e =>
    simp only [step]; unfold change; split; rfl; split; rfl; unfold notifyChange; split; unfold arm; split <;> rfl; rfl
  | tick d => rfl
  | fireTracked k => simp only [step]; unfold fireTracked; split; split <;> rfl; rfl
  | fireOrphan k i => simp only [step]; unfold fireOrphan; split; split <;> rfl; rfl
  | cbrun k => simp only [step]; unfold cbrun; split <;> rfl
  | deliver k i => simp only [step]; unfold deliver; split <;> rfl
  | bind sid => simp only [step]; unfold bind; split <;> rfl
  | hello sid m => simp only [step]; unfold hello; split <;> rfl
  | listen a b c d => simp only [step]; unfold listen; split <;> rfl
  | listenRefused a b c d n =>
    simp only [step]; unfold listenRefused; split
    · unfold listenEnd; split
      · unfold listen; split <;> rfl
      · unfold listen; split <;> rfl
    · rfl
  | listenAck a b => simp only [step]; unfold listenAck; split; rfl; split; rfl; split <;> rfl
  | listenEnd a b => simp only [step]; unfold listenEnd; split <;> rfl
  | subscribe a b c => simp only [step]; unfold subscribe; split <;> rfl
  | unsubscribe a b => simp only [step]; unfold unsubscribe; split <;> rfl
  | close a => rfl
  | updated u => rfl
  | updatedNamed u v => rfl

theorem reach_cap {cap : Kind → Cap} {s : Server} (h : Reach cap s) : s.cap = cap := by
  induction h with
  | init => rfl
  | step l _ ih => rw [step_cap]; exact ih

/-! ### third invariant: the ghost `acked` names live handlers -/

/-- Every acknowledged listen is still a live handler. -/
def InvA (s : Server) : Prop :=
  ∀ p ∈ s.acked, ∃ l ∈ s.listens, l.sid = p.1 ∧ l.id = p.2

theorem InvA.frame {s s' : Server} (h : InvA s) (h1 : s'.acked = s.acked) (h2 : s'.listens = s.listens) :
    InvA s' := by
  intro p hp; rw [h1] at hp; rw [h2]; exact h p hp

theorem invA_listen (s : Server) (sid id : Nat) (kinds : List Kind) (uris : List Nat) (h : InvA s) :
    InvA (listen s sid id kinds uris) := by
  simp only [listen]
  split
  · intro p hp
    obtain ⟨l0, hl0, h1⟩ := h p hp
    exact ⟨l0, by simp; exact Or.inr hl0, h1⟩
  · exact h

theorem invA_listenEnd (s : Server) (sid id : Nat) (h : InvA s) : InvA (listenEnd s sid id) := by
  simp only [listenEnd]
  split
  · exact h
  · intro p hp
    simp at hp
    obtain ⟨l0, hl0, h1, h2⟩ := h p hp.1
    refine ⟨l0, ?_, h1, h2⟩
    simp
    refine ⟨hl0, ?_⟩
    by_cases e1 : l0.sid = sid
    · right; rw [h2]
      rcases hp.2 with h3 | h3
      · exact absurd (by rw [← h1]; exact e1) h3
      · exact h3
    · exact Or.inl e1

theorem invA_step (s : Server) (l : Label) (h : InvA s) : InvA (step s l).1 := by
  cases l with
  | change f e =>
    refine h.frame ?_ ?_ <;>
    · simp only [step, change]; split; rfl; split; rfl; simp only [notifyChange]; split
      · simp only [arm]; split <;> rfl
      · rfl
  | tick d => exact h.frame rfl rfl
  | fireTracked k => refine h.frame ?_ ?_ <;> · simp only [step, fireTracked]; split; split <;> rfl; rfl
  | fireOrphan k i => refine h.frame ?_ ?_ <;> · simp only [step, fireOrphan]; split; split <;> rfl; rfl
  | cbrun k => refine h.frame ?_ ?_ <;> · simp only [step, cbrun]; split <;> rfl
  | bind sid => refine h.frame ?_ ?_ <;> · simp only [step, bind]; split <;> rfl
  | hello sid m => refine h.frame ?_ ?_ <;> · simp only [step, hello]; split <;> rfl
  | subscribe a b c => refine h.frame ?_ ?_ <;> · simp only [step, subscribe]; split <;> rfl
  | unsubscribe a b => refine h.frame ?_ ?_ <;> · simp only [step, unsubscribe]; split <;> rfl
  | updated u => exact h
  | updatedNamed u v => exact h
  | deliver k i =>
    refine h.frame ?_ ?_ <;> · simp only [step, deliver]; split <;> rfl
  | listen sid id kinds uris => exact invA_listen s sid id kinds uris h
  | listenRefused sid id kinds uris n =>
    simp only [step, listenRefused]
    split
    · exact invA_listenEnd _ sid id (invA_listen s sid id kinds (uris.take n) h)
    · exact h
  | listenAck sid id =>
    simp only [step, listenAck]
    split
    · exact h
    · rename_i l hfind
      obtain ⟨hl, hsid, hid⟩ := find?_spec hfind
      split
      · exact h
      · rename_i hna
        split
        · intro p hp
          obtain ⟨l0, hl0, h1, h2⟩ := h p hp
          refine ⟨l0, ?_, h1, h2⟩
          simp
          refine ⟨hl0, ?_⟩
          by_cases e1 : l0.sid = sid
          · right; intro e2; apply hna
            have : p = (sid, id) := by rw [← e1, ← e2, h1, h2]
            rw [← this]; exact hp
          · exact Or.inl e1
        · intro p hp
          simp at hp
          rcases hp with hp | hp
          · exact h p hp
          · exact ⟨l, hl, by rw [hp]; exact hsid, by rw [hp]; exact hid⟩
  | listenEnd sid id => exact invA_listenEnd s sid id h
  | close sid =>
    simp only [step, close]
    intro p hp
    simp at hp
    obtain ⟨l0, hl0, h1, h2⟩ := h p hp.1
    refine ⟨l0, ?_, h1, h2⟩
    simp
    exact ⟨hl0, by rw [h1]; exact hp.2⟩

theorem reach_invA {cap : Kind → Cap} {s : Server} (h : Reach cap s) : InvA s := by
  induction h with
  | init => intro p hp; simp [init] at hp
  | step l _ ih => exact invA_step _ l ih
