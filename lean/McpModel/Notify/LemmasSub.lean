import McpModel.Notify.Lemmas
/-!
Second invariant of the server-side model: the subscription tables, the sessions and the ghost
record of live listens / live resource subscriptions agree with each other.
-/
namespace Notify
open Generated.Notify

structure InvS (s : Server) : Prop where
  sess_nodup : (s.sessions.map Prod.fst).Nodup
  subs_listen : ∀ t, ∀ p ∈ (s.ks t).subs, ∃ l ∈ s.listens, l.sid = p.1 ∧ l.id = p.2 ∧ t ∈ l.kinds
  listen_modern : ∀ l ∈ s.listens, (l.sid, Gen.modern) ∈ s.sessions
  listen_subs : ∀ l ∈ s.listens, ∀ k ∈ l.kinds, (l.sid, l.id) ∈ (s.ks k).subs
  listen_rsubs : ∀ l ∈ s.listens, ∀ u ∈ l.uris, (u, l.sid, l.id) ∈ s.rsubs
  listen_uniq : ∀ l ∈ s.listens, ∀ l' ∈ s.listens, l.sid = l'.sid →
    (l.id = l'.id ∨ (∃ k, k ∈ l.kinds ∧ k ∈ l'.kinds) ∨ (∃ u, u ∈ l.uris ∧ u ∈ l'.uris)) → l = l'
  rsubs_owner : ∀ r ∈ s.rsubs, (r.2.1, Gen.legacy) ∈ s.sessions ∨
    ((r.2.1, Gen.modern) ∈ s.sessions ∧ ∃ l ∈ s.listens, l.sid = r.2.1 ∧ l.id = r.2.2 ∧ r.1 ∈ l.uris)
  rsubs_fun : ∀ r ∈ s.rsubs, ∀ q ∈ s.rsubs, r.1 = q.1 → r.2.1 = q.2.1 → r = q
  rsubs_nodup : s.rsubs.Nodup
  rlive_iff : ∀ sid u, (sid, u) ∈ s.rlive ↔ ∃ id, (u, sid, id) ∈ s.rsubs

theorem invS_init (cap : Kind → Cap) : InvS (init cap) := by
  constructor <;> simp [init]

/-- Frame: labels that touch neither sessions nor subscription state. -/
theorem InvS.frame {s s' : Server} (h : InvS s) (h1 : s'.sessions = s.sessions)
    (h2 : ∀ t, (s'.ks t).subs = (s.ks t).subs) (h3 : s'.rsubs = s.rsubs)
    (h4 : s'.listens = s.listens) (h5 : s'.rlive = s.rlive) : InvS s' := by
  obtain ⟨a, b, c, d, e, f, g, i, j, k⟩ := h
  constructor
  all_goals simp only [h1, h2, h3, h4, h5]
  all_goals assumption

/-- A session has one generation. -/
theorem gen_unique {l : List (Nat × Gen)} (h : (l.map Prod.fst).Nodup) {sid : Nat} {g g' : Gen}
    (h1 : (sid, g) ∈ l) (h2 : (sid, g') ∈ l) : g = g' := by
  induction l with
  | nil => simp at h1
  | cons a t ih =>
    simp only [List.map_cons, List.nodup_cons] at h
    simp only [List.mem_cons] at h1 h2
    rcases h1 with h1 | h1 <;> rcases h2 with h2 | h2
    · rw [← h1] at h2; exact (Prod.mk.inj h2).2.symm
    · exfalso; apply h.1; rw [← h1]; simp; exact ⟨g', h2⟩
    · exfalso; apply h.1; rw [← h2]; simp; exact ⟨g, h1⟩
    · exact ih h.2 h1 h2

theorem invS_bind (s : Server) (sid : Nat) (h : InvS s) : InvS (bind s sid) := by
  unfold bind
  split
  · exact h
  · rename_i hn
    obtain ⟨a, b, c, d, e, f, g, i, j, k⟩ := h
    refine ⟨?_, b, ?_, d, e, f, ?_, i, j, k⟩
    · simp only [List.map_append, List.map_cons, List.map_nil]
      rw [List.nodup_append]
      refine ⟨a, by simp, ?_⟩
      intro x hx y hy; simp at hy; subst hy; intro e; subst e; exact hn hx
    · intro l hl; simp; exact c l hl
    · intro r hr
      rcases g r hr with g | g
      · left; simp; exact g
      · right; refine ⟨by simp; exact g.1, g.2⟩

theorem hello_keep {l : List (Nat × Gen)} {sid x : Nat} {g ng : Gen} (h : (x, g) ∈ l) (hne : x ≠ sid) :
    (x, g) ∈ l.map (fun p => if p.1 = sid then (sid, ng) else p) := by
  simp only [List.mem_map]
  exact ⟨(x, g), h, by simp [hne]⟩

theorem invS_hello (s : Server) (sid : Nat) (m : Bool) (h : InvS s) : InvS (hello s sid m) := by
  unfold hello
  split
  · rename_i hu
    obtain ⟨a, b, c, d, e, f, g, i, j, k⟩ := h
    have keep : ∀ x gg, gg ≠ Gen.uninit → (x, gg) ∈ s.sessions →
        (x, gg) ∈ s.sessions.map (fun p => if p.1 = sid then (sid, if m then Gen.modern else Gen.legacy) else p) := by
      intro x gg hg hx
      apply hello_keep hx
      intro e; subst e; exact hg (gen_unique a hx hu)
    refine ⟨?_, b, ?_, d, e, f, ?_, i, j, k⟩
    · simp only [map_fst_hello]; exact a
    · intro l hl; exact keep _ _ (by simp) (c l hl)
    · intro r hr
      rcases g r hr with g | g
      · left; exact keep _ _ (by simp) g
      · right; exact ⟨keep _ _ (by simp) g.1, g.2⟩
  · exact h

theorem invS_subscribe (s : Server) (sid id u : Nat) (h : InvS s) : InvS (subscribe s sid id u) := by
  unfold subscribe
  split
  · rename_i hl
    obtain ⟨a, b, c, d, e, f, g, i, j, k⟩ := h
    refine ⟨a, b, c, d, ?_, f, ?_, ?_, ?_, ?_⟩
    · intro l hl' x hx
      have h1 := e l hl' x hx
      have h2 := c l hl'
      have hne : l.sid ≠ sid := by
        intro e; rw [e] at h2; exact absurd (gen_unique a h2 hl) (by simp)
      simp; left; exact ⟨h1, Or.inr hne⟩
    · intro r hr
      simp at hr
      rcases hr with hr | hr
      · exact g r hr.1
      · subst hr; left; exact hl
    · intro r hr q hq h1 h2
      simp at hr hq
      rcases hr with hr | hr <;> rcases hq with hq | hq
      · exact i r hr.1 q hq.1 h1 h2
      · subst hq; simp at h1 h2; grind
      · subst hr; simp at h1 h2; grind
      · rw [hr, hq]
    · rw [List.nodup_append]
      refine ⟨j.filter _, by simp, ?_⟩
      intro x hx y hy; simp at hx hy; subst hy; intro e; subst e; simp at hx
    · intro sid' u'
      simp
      constructor
      · rintro (h1 | ⟨rfl, rfl⟩)
        · obtain ⟨id', hid⟩ := (k sid' u').1 h1
          by_cases e : u' = u ∧ sid' = sid
          · exact ⟨id, Or.inr ⟨e.1, e.2, rfl⟩⟩
          · exact ⟨id', Or.inl ⟨hid, by grind⟩⟩
        · exact ⟨id, Or.inr ⟨rfl, rfl, rfl⟩⟩
      · rintro ⟨id', (h1 | ⟨rfl, rfl, rfl⟩)⟩
        · left; exact (k sid' u').2 ⟨id', h1.1⟩
        · right; exact ⟨rfl, rfl⟩
  · exact h

theorem invS_unsubscribe (s : Server) (sid u : Nat) (h : InvS s) : InvS (unsubscribe s sid u) := by
  unfold unsubscribe
  split
  · rename_i hl
    obtain ⟨a, b, c, d, e, f, g, i, j, k⟩ := h
    refine ⟨a, b, c, d, ?_, f, ?_, ?_, j.filter _, ?_⟩
    · intro l hl' x hx
      have h1 := e l hl' x hx
      have h2 := c l hl'
      have hne : l.sid ≠ sid := by
        intro e; rw [e] at h2; exact absurd (gen_unique a h2 hl) (by simp)
      simp; exact ⟨h1, Or.inr hne⟩
    · intro r hr
      simp at hr
      exact g r hr.1
    · intro r hr q hq h1 h2
      simp at hr hq
      exact i r hr.1 q hq.1 h1 h2
    · intro sid' u'
      have := k sid' u'
      simp
      grind
  · exact h

theorem invS_close (s : Server) (sid : Nat) (h : InvS s) : InvS (close s sid) := by
  obtain ⟨a, b, c, d, e, f, g, i, j, k⟩ := h
  unfold close
  refine ⟨?_, ?_, ?_, ?_, ?_, ?_, ?_, ?_, j.filter _, ?_⟩
  · have : (s.sessions.filter (fun p => p.1 != sid)).map Prod.fst = (s.sessions.map Prod.fst).filter (fun x => x != sid) := by
      rw [List.filter_map]; rfl
    simp only [this]; exact a.filter _
  · intro t p hp
    simp at hp
    obtain ⟨l, hl, h1, h2, h3⟩ := b t p hp.1
    exact ⟨l, by simp; exact ⟨hl, by rw [h1]; exact hp.2⟩, h1, h2, h3⟩
  · intro l hl; simp at hl ⊢; exact ⟨c l hl.1, hl.2⟩
  · intro l hl x hx; simp at hl ⊢; exact ⟨d l hl.1 x hx, hl.2⟩
  · intro l hl x hx; simp at hl ⊢; exact ⟨e l hl.1 x hx, hl.2⟩
  · intro l hl l' hl'; simp at hl hl'; exact f l hl.1 l' hl'.1
  · intro r hr
    simp at hr
    rcases g r hr.1 with g | g
    · left; simp; exact ⟨g, hr.2⟩
    · right; obtain ⟨g1, l, hl, h1, h2, h3⟩ := g
      exact ⟨by simp; exact ⟨g1, hr.2⟩, l, by simp; exact ⟨hl, by rw [h1]; exact hr.2⟩, h1, h2, h3⟩
  · intro r hr q hq; simp at hr hq; exact i r hr.1 q hq.1
  · intro sid' u'
    have := k sid' u'
    simp
    grind

theorem find?_spec {l : List Listen} {sid id : Nat} {x : Listen}
    (h : l.find? (fun l => l.sid == sid && l.id == id) = some x) : x ∈ l ∧ x.sid = sid ∧ x.id = id := by
  have h1 := List.mem_of_find?_eq_some h
  have h2 := List.find?_some h
  simp at h2
  exact ⟨h1, h2.1, h2.2⟩

theorem invS_listenEnd (s : Server) (sid id : Nat) (h : InvS s) : InvS (listenEnd s sid id) := by
  unfold listenEnd
  split
  · exact h
  · rename_i l hfind
    obtain ⟨hl, hsid, hid⟩ := find?_spec hfind
    obtain ⟨a, b, c, d, e, f, g, i, j, k⟩ := h
    refine ⟨a, ?_, ?_, ?_, ?_, ?_, ?_, ?_, j.filter _, ?_⟩
    · intro t p hp
      simp at hp
      obtain ⟨l0, hl0, h1, h2, h3⟩ := b t p hp.1
      refine ⟨l0, ?_, h1, h2, h3⟩
      simp; exact ⟨hl0, by grind⟩
    · intro l' hl'; simp at hl'; exact c l' hl'.1
    · intro l' hl' x hx; simp at hl' ⊢; exact ⟨d l' hl'.1 x hx, hl'.2⟩
    · intro l' hl' x hx
      simp at hl' ⊢
      refine ⟨e l' hl'.1 x hx, ?_⟩
      have := f l' hl'.1 l hl
      grind
    · intro l1 h1 l2 h2; simp at h1 h2; exact f l1 h1.1 l2 h2.1
    · intro r hr
      simp at hr
      rcases g r hr.1 with g | g
      · exact Or.inl g
      · right
        obtain ⟨g1, l0, hl0, h1, h2, h3⟩ := g
        refine ⟨g1, l0, ?_, h1, h2, h3⟩
        simp
        refine ⟨hl0, ?_⟩
        have := f l0 hl0 l hl
        grind
    · intro r hr q hq; simp at hr hq; exact i r hr.1 q hq.1
    · intro sid' u'
      have := k sid' u'
      simp
      grind

theorem mem_put {l : List (Nat × Nat)} {sid id : Nat} {p : Nat × Nat} :
    p ∈ put l sid id ↔ (p ∈ l ∧ p.1 ≠ sid) ∨ p = (sid, id) := by
  simp [put]

theorem listenOk_spec {s : Server} {sid id : Nat} {kinds : List Kind} {uris : List Nat}
    (h : listenOk s sid id kinds uris = true) :
    ∀ l ∈ s.listens, l.sid = sid → l.id ≠ id ∧ (∀ k ∈ kinds, k ∉ l.kinds) ∧ (∀ u ∈ uris, u ∉ l.uris) := by
  intro l hl hs
  simp [listenOk] at h
  have := h l hl
  simp [hs] at this
  exact ⟨this.1.1, this.1.2, this.2⟩

theorem any_listenTable (ak : List Kind) (t : Kind) :
    ak.any (fun k => listenTable k == some t) = true ↔ t ∈ ak := by
  simp [listenTable_diag]

theorem invS_listen (s : Server) (sid id : Nat) (kinds : List Kind) (uris : List Nat) (h : InvS s) :
    InvS (listen s sid id kinds uris) := by
  unfold listen
  split
  · rename_i hguard
    obtain ⟨hm, hok, hnd, _⟩ := hguard
    have ok := listenOk_spec hok
    obtain ⟨a, b, c, d, e, f, g, i, j, k⟩ := h
    -- abbreviations
    generalize hak : kinds.filter (gateListen s) = ak
    generalize hau : (if resSub s = true then uris else []) = au
    have hak_sub : ∀ k ∈ ak, k ∈ kinds := by intro k hk; rw [← hak] at hk; exact (List.mem_filter.1 hk).1
    have hau_sub : ∀ u ∈ au, u ∈ uris := by
      intro u hu; rw [← hau] at hu; split at hu
      · exact hu
      · simp at hu
    have hau_nd : au.Nodup := by rw [← hau]; split; exact hnd; simp
    -- no table entry / resource subscription of this session collides with what is being registered
    have F1 : ∀ t ∈ ak, ∀ p ∈ (s.ks t).subs, p.1 ≠ sid := by
      intro t ht p hp hs
      obtain ⟨l0, hl0, h1, _, h3⟩ := b t p hp
      exact (ok l0 hl0 (by rw [h1, hs])).2.1 t (hak_sub t ht) h3
    have F2 : ∀ r ∈ s.rsubs, r.2.1 = sid → r.1 ∉ au := by
      intro r hr hs hu
      rcases g r hr with g | g
      · rw [hs] at g; exact absurd (gen_unique a g hm) (by simp)
      · obtain ⟨_, l0, hl0, h1, _, h3⟩ := g
        exact (ok l0 hl0 (by rw [h1, hs])).2.2 r.1 (hau_sub _ hu) h3
    simp only []
    have hsub : ∀ l0 ∈ s.listens, l0 ∈ s.listens ++ [(⟨sid, id, ak, au⟩ : Listen)] := by
      intro l0 hl0; simp; exact Or.inl hl0
    have hnew : (ak ≠ [] ∨ au ≠ []) → (⟨sid, id, ak, au⟩ : Listen) ∈ s.listens ++ [(⟨sid, id, ak, au⟩ : Listen)] := by
      intro _; simp
    have hmem : ∀ l0, l0 ∈ s.listens ++ [(⟨sid, id, ak, au⟩ : Listen)] →
        l0 ∈ s.listens ∨ l0 = ⟨sid, id, ak, au⟩ := by
      intro l0 hl0; simp at hl0; exact hl0
    refine ⟨a, ?_, ?_, ?_, ?_, ?_, ?_, ?_, ?_, ?_⟩
    · -- subs_listen
      intro t p hp
      simp only [any_listenTable] at hp
      split at hp
      · rename_i ht
        rcases mem_put.1 hp with ⟨hp1, _⟩ | hp1
        · obtain ⟨l0, hl0, h1, h2, h3⟩ := b t p hp1
          exact ⟨l0, hsub l0 hl0, h1, h2, h3⟩
        · subst hp1
          exact ⟨_, hnew (Or.inl (by intro e; rw [e] at ht; simp at ht)), rfl, rfl, ht⟩
      · obtain ⟨l0, hl0, h1, h2, h3⟩ := b t p hp
        exact ⟨l0, hsub l0 hl0, h1, h2, h3⟩
    · -- listen_modern
      intro l0 hl0
      rcases hmem l0 hl0 with h0 | h0
      · exact c l0 h0
      · subst h0; exact hm
    · -- listen_subs
      intro l0 hl0 x hx
      simp only [any_listenTable]
      rcases hmem l0 hl0 with h0 | h0
      · have hd := d l0 h0 x hx
        split
        · rename_i hx'
          apply mem_put.2; left
          refine ⟨hd, ?_⟩
          intro hs
          exact (ok l0 h0 hs).2.1 x (hak_sub x hx') hx
        · exact hd
      · subst h0
        simp only [] at hx
        simp only [hx, if_true]
        exact mem_put.2 (Or.inr rfl)
    · -- listen_rsubs
      intro l0 hl0 x hx
      rcases hmem l0 hl0 with h0 | h0
      · have he := e l0 h0 x hx
        simp
        left
        refine ⟨he, ?_⟩
        by_cases hs : l0.sid = sid
        · right; intro hx'; exact (ok l0 h0 hs).2.2 x (hau_sub x hx') hx
        · left; exact hs
      · subst h0
        simp; right; exact hx
    · -- listen_uniq
      intro l1 h1 l2 h2 hs hc
      rcases hmem l1 h1 with e1 | e1 <;> rcases hmem l2 h2 with e2 | e2
      · exact f l1 e1 l2 e2 hs hc
      · subst e2
        have := ok l1 e1 hs
        grind
      · subst e1
        have := ok l2 e2 hs.symm
        grind
      · rw [e1, e2]
    · -- rsubs_owner
      intro r hr
      simp at hr
      rcases hr with hr | ⟨u, hu, rfl⟩
      · rcases g r hr.1 with g | g
        · exact Or.inl g
        · obtain ⟨g1, l0, hl0, q1, q2, q3⟩ := g
          exact Or.inr ⟨g1, l0, hsub l0 hl0, q1, q2, q3⟩
      · right
        exact ⟨hm, _, hnew (Or.inr (by intro e; rw [e] at hu; simp at hu)), rfl, rfl, hu⟩
    · -- rsubs_fun
      intro r hr q hq h1 h2
      simp at hr hq
      rcases hr with hr | ⟨u, hu, rfl⟩ <;> rcases hq with hq | ⟨u', hu', rfl⟩
      · exact i r hr.1 q hq.1 h1 h2
      · simp at h1 h2; have := F2 r hr.1 h2; grind
      · simp at h1 h2; have := F2 q hq.1 h2.symm; grind
      · simp at h1; rw [h1]
    · -- rsubs_nodup
      rw [List.nodup_append]
      refine ⟨j.filter _, ?_, ?_⟩
      · exact List.Pairwise.map _ (fun x y hxy => by simpa using hxy) hau_nd
      · intro x hx y hy
        simp at hx hy
        obtain ⟨u, hu, rfl⟩ := hy
        intro e; subst e
        have := F2 _ hx.1 rfl
        exact this hu
    · -- rlive_iff
      intro sid' u'
      have := k sid' u'
      have F2' := F2
      simp
      grind
  · exact h

/-- The acknowledgement touches no table; a handler that was granted nothing leaves the record. -/
theorem invS_listenAck (s : Server) (sid id : Nat) (h : InvS s) : InvS (listenAck s sid id).1 := by
  unfold listenAck
  split
  · exact h
  · rename_i l hfind
    obtain ⟨hl, hsid, hid⟩ := find?_spec hfind
    split
    · exact h
    · split
      · rename_i hempty
        obtain ⟨a, b, c, d, e, f, g, i, j, k⟩ := h
        -- a record that mentions a kind or a URI is not the one that leaves
        have keep : ∀ l0 ∈ s.listens, (l0.kinds ≠ [] ∨ l0.uris ≠ []) →
            l0 ∈ s.listens.filter (fun l' => !(l'.sid == sid && l'.id == id)) := by
          intro l0 hl0 hne
          simp
          refine ⟨hl0, ?_⟩
          by_cases h1 : l0.sid = sid
          · right
            intro h2
            have := f l0 hl0 l hl (by rw [h1, hsid]) (Or.inl (by rw [h2, hid]))
            rw [this] at hne
            rcases hne with hne | hne
            · exact hne hempty.1
            · exact hne hempty.2
          · exact Or.inl h1
        refine ⟨a, ?_, ?_, ?_, ?_, ?_, ?_, i, j, k⟩
        · intro t p hp
          obtain ⟨l0, hl0, h1, h2, h3⟩ := b t p hp
          exact ⟨l0, keep l0 hl0 (Or.inl (by intro e; rw [e] at h3; simp at h3)), h1, h2, h3⟩
        · intro l' hl'; simp at hl'; exact c l' hl'.1
        · intro l' hl' x hx; simp at hl'; exact d l' hl'.1 x hx
        · intro l' hl' x hx; simp at hl'; exact e l' hl'.1 x hx
        · intro l1 h1 l2 h2; simp at h1 h2; exact f l1 h1.1 l2 h2.1
        · intro r hr
          rcases g r hr with g | g
          · exact Or.inl g
          · right
            obtain ⟨g1, l0, hl0, h1, h2, h3⟩ := g
            exact ⟨g1, l0, keep l0 hl0 (Or.inr (by intro e; rw [e] at h3; simp at h3)), h1, h2, h3⟩
      · exact h.frame rfl (fun _ => rfl) rfl rfl rfl

theorem invS_setK {s : Server} (k : Kind) (f : KState → KState) (hf : ∀ st, (f st).subs = st.subs)
    (h : InvS s) : InvS (setK s k f) := by
  refine h.frame rfl ?_ rfl rfl rfl
  intro t; simp only [setK]; split
  · rename_i e; subst e; exact hf _
  · rfl

theorem invS_change (s : Server) (f : FSet) (e : Eff) (h : InvS s) : InvS (change s f e) := by
  have hb : InvS (bumpVer s f e) := h.frame rfl (fun _ => rfl) rfl rfl rfl
  unfold change
  split
  · exact h
  · split
    · exact hb
    · rename_i k _
      unfold notifyChange
      split
      · unfold arm
        split
        · exact invS_setK k _ (fun _ => rfl) hb
        · exact (invS_setK k (fun st => { st with tracked := some (some ((bumpVer s f e).now + delay)) }) (fun _ => rfl) hb).frame (by rfl) (by intro t; rfl) (by rfl) (by rfl) (by rfl)
      · exact hb

theorem invS_step (s : Server) (l : Label) (h : InvS s) : InvS (step s l).1 := by
  cases l with
  | change f e => exact invS_change s f e h
  | tick d => exact h.frame rfl (fun _ => rfl) rfl rfl rfl
  | fireTracked k =>
    simp only [step, fireTracked]
    split
    · split
      · exact invS_setK k _ (fun _ => rfl) h
      · exact h
    · exact h
  | fireOrphan k i =>
    simp only [step, fireOrphan]
    split
    · split
      · exact invS_setK k _ (fun _ => rfl) h
      · exact h
    · exact h
  | cbrun k =>
    simp only [step, cbrun]
    split
    · exact h
    · exact (invS_setK k (fun st => { st with
        pending := st.pending - 1, tracked := none,
        orphans := (match st.tracked with | some (some d) => d :: st.orphans | _ => st.orphans) }) (fun _ => rfl) h).frame
        (by rfl) (by intro t; rfl) (by rfl) (by rfl) (by rfl)
  | bind sid => exact invS_bind s sid h
  | hello sid m => exact invS_hello s sid m h
  | listen sid id kinds uris => exact invS_listen s sid id kinds uris h
  | listenAck sid id => exact invS_listenAck s sid id h
  | listenEnd sid id => exact invS_listenEnd s sid id h
  | subscribe sid id u => exact invS_subscribe s sid id u h
  | unsubscribe sid u => exact invS_unsubscribe s sid u h
  | close sid => exact invS_close s sid h
  | updated u => exact h

theorem reach_inv {cap : Kind → Cap} {s : Server} (h : Reach cap s) : InvT s ∧ InvS s := by
  induction h with
  | init => exact ⟨invT_init cap, invS_init cap⟩
  | step l _ ih => exact ⟨invT_step _ l ih.1, invS_step _ l ih.2⟩

theorem reach_run {cap : Kind → Cap} {s : Server} (h : Reach cap s) (ls : List Label) :
    Reach cap (run s ls).1 := by
  induction ls generalizing s with
  | nil => exact h
  | cons l ls ih => simp only [run]; exact ih (Reach.step l h)

theorem reach_final (cap : Kind → Cap) (ls : List Label) : Reach cap (final cap ls) :=
  reach_run Reach.init ls

/-- Every output of a run is the output of one step taken from a reachable state. -/
theorem outputs_from_reach {cap : Kind → Cap} {s : Server} (h : Reach cap s) (ls : List Label) :
    ∀ o ∈ (run s ls).2, ∃ s' l, Reach cap s' ∧ o ∈ (step s' l).2 := by
  induction ls generalizing s with
  | nil => intro o ho; simp [run] at ho
  | cons l ls ih =>
    intro o ho
    simp only [run, List.mem_append] at ho
    rcases ho with ho | ho
    · exact ⟨s, l, h, ho⟩
    · exact ih (Reach.step l h) o ho

/-- No label changes the capability switches. -/
theorem step_cap (s : Server) (l : Label) : (step s l).1.cap = s.cap := by
  cases l <;> simp only [step]
  · unfold change; split; rfl; split; rfl; unfold notifyChange; split; unfold arm; split <;> rfl; rfl
  · unfold fireTracked; split; split <;> rfl; rfl
  · unfold fireOrphan; split; split <;> rfl; rfl
  · unfold cbrun; split <;> rfl
  · unfold bind; split <;> rfl
  · unfold hello; split <;> rfl
  · unfold listen; split <;> rfl
  · unfold listenAck; split; rfl; split; rfl; split <;> rfl
  · unfold listenEnd; split <;> rfl
  · unfold subscribe; split <;> rfl
  · unfold unsubscribe; split <;> rfl
  · rfl

theorem reach_cap {cap : Kind → Cap} {s : Server} (h : Reach cap s) : s.cap = cap := by
  induction h with
  | init => rfl
  | step l _ ih => rw [step_cap]; exact ih

/-! ### third invariant: the ghost `acked` names live handlers -/

/-- Every acknowledged listen is still a live handler. -/
def InvA (s : Server) : Prop :=
  ∀ p ∈ s.acked, ∃ l ∈ s.listens, l.sid = p.1 ∧ l.id = p.2

theorem InvA.frame {s s' : Server} (h : InvA s) (h1 : s'.acked = s.acked) (h2 : s'.listens = s.listens) :
    InvA s' := by
  intro p hp; rw [h1] at hp; rw [h2]; exact h p hp

theorem invA_step (s : Server) (l : Label) (h : InvA s) : InvA (step s l).1 := by
  cases l with
  | change f e =>
    refine h.frame ?_ ?_ <;>
    · simp only [step, change]; split; rfl; split; rfl; simp only [notifyChange]; split
      · simp only [arm]; split <;> rfl
      · rfl
  | tick d => exact h.frame rfl rfl
  | fireTracked k => refine h.frame ?_ ?_ <;> · simp only [step, fireTracked]; split; split <;> rfl; rfl
  | fireOrphan k i => refine h.frame ?_ ?_ <;> · simp only [step, fireOrphan]; split; split <;> rfl; rfl
  | cbrun k => refine h.frame ?_ ?_ <;> · simp only [step, cbrun]; split <;> rfl
  | bind sid => refine h.frame ?_ ?_ <;> · simp only [step, bind]; split <;> rfl
  | hello sid m => refine h.frame ?_ ?_ <;> · simp only [step, hello]; split <;> rfl
  | subscribe a b c => refine h.frame ?_ ?_ <;> · simp only [step, subscribe]; split <;> rfl
  | unsubscribe a b => refine h.frame ?_ ?_ <;> · simp only [step, unsubscribe]; split <;> rfl
  | updated u => exact h
  | listen sid id kinds uris =>
    simp only [step, listen]
    split
    · intro p hp
      obtain ⟨l0, hl0, h1⟩ := h p hp
      exact ⟨l0, by simp; exact Or.inl hl0, h1⟩
    · exact h
  | listenAck sid id =>
    simp only [step, listenAck]
    split
    · exact h
    · rename_i l hfind
      obtain ⟨hl, hsid, hid⟩ := find?_spec hfind
      split
      · exact h
      · rename_i hna
        split
        · intro p hp
          obtain ⟨l0, hl0, h1, h2⟩ := h p hp
          refine ⟨l0, ?_, h1, h2⟩
          simp
          refine ⟨hl0, ?_⟩
          by_cases e1 : l0.sid = sid
          · right; intro e2; apply hna
            have : p = (sid, id) := by rw [← e1, ← e2, h1, h2]
            rw [← this]; exact hp
          · exact Or.inl e1
        · intro p hp
          simp at hp
          rcases hp with hp | hp
          · exact h p hp
          · exact ⟨l, hl, by rw [hp]; exact hsid, by rw [hp]; exact hid⟩
  | listenEnd sid id =>
    simp only [step, listenEnd]
    split
    · exact h
    · intro p hp
      simp at hp
      obtain ⟨l0, hl0, h1, h2⟩ := h p hp.1
      refine ⟨l0, ?_, h1, h2⟩
      simp
      refine ⟨hl0, ?_⟩
      by_cases e1 : l0.sid = sid
      · right; rw [h2]
        rcases hp.2 with h3 | h3
        · exact absurd (by rw [← h1]; exact e1) h3
        · exact h3
      · exact Or.inl e1
  | close sid =>
    simp only [step, close]
    intro p hp
    simp at hp
    obtain ⟨l0, hl0, h1, h2⟩ := h p hp.1
    refine ⟨l0, ?_, h1, h2⟩
    simp
    exact ⟨hl0, by rw [h1]; exact hp.2⟩

theorem reach_invA {cap : Kind → Cap} {s : Server} (h : Reach cap s) : InvA s := by
  induction h with
  | init => intro p hp; simp [init] at hp
  | step l _ ih => exact invA_step _ l ih
