import McpModel.Notify.BridgeLemmas
/-!
# Bridge, part 5a: what `listen` + `listenAck` back to back, a refused listen, and the end of a listen do
to the fields of the server the relation reads
-/
namespace Notify.Bridge
open Notify Notify.Mon Notify.Sys Generated.Notify

/-- everything the relation reads besides `listens` and `acked` is the same -/
structure SameRest (s s' : Server) : Prop where
  cap : s'.cap = s.cap
  ver : s'.ver = s.ver
  cnt : s'.cnt = s.cnt
  sessions : s'.sessions = s.sessions
  owed : s'.owed = s.owed
  infl : ∀ k, (s'.ks k).inflight = (s.ks k).inflight

theorem SameRest.refl (s : Server) : SameRest s s := ⟨rfl, rfl, rfl, rfl, rfl, fun _ => rfl⟩

theorem SameRest.trans {a b c : Server} (h1 : SameRest a b) (h2 : SameRest b c) : SameRest a c :=
  ⟨h2.cap.trans h1.cap, h2.ver.trans h1.ver, h2.cnt.trans h1.cnt, h2.sessions.trans h1.sessions,
   h2.owed.trans h1.owed, fun k => (h2.infl k).trans (h1.infl k)⟩

theorem sameRest_listen (s : Server) (sid id : Nat) (ks : List Kind) (us : List Nat) :
    SameRest s (listen s sid id ks us) := by
  simp only [listen]; split
  · exact ⟨rfl, rfl, rfl, rfl, rfl, fun _ => rfl⟩
  · exact SameRest.refl s

theorem sameRest_listenAck (s : Server) (sid id : Nat) : SameRest s (listenAck s sid id).1 := by
  simp only [listenAck]; split
  · exact SameRest.refl s
  · split
    · exact SameRest.refl s
    · split
      · exact ⟨rfl, rfl, rfl, rfl, rfl, fun _ => rfl⟩
      · exact ⟨rfl, rfl, rfl, rfl, rfl, fun _ => rfl⟩

theorem sameRest_listenEnd (s : Server) (sid id : Nat) : SameRest s (listenEnd s sid id) := by
  simp only [listenEnd]; split
  · exact SameRest.refl s
  · exact ⟨rfl, rfl, rfl, rfl, rfl, fun _ => rfl⟩

theorem sameRest_listenRefused (s : Server) (sid id : Nat) (ks : List Kind) (us : List Nat) (n : Nat) :
    SameRest s (listenRefused s sid id ks us n) := by
  simp only [listenRefused]; split
  · exact (sameRest_listen s sid id ks _).trans (sameRest_listenEnd _ sid id)
  · exact SameRest.refl s

/-- the three outcomes of a `subscriptions/listen` whose id is free -/
inductive ListenOutcome (s s' : Server) (sid id : Nat) : Option (List Kind × List Nat) → Prop where
  | refused : s'.listens = s.listens → (∀ p, p ∈ s'.acked ↔ p ∈ s.acked) → ListenOutcome s s' sid id none
  | empty : s'.listens = s.listens → s'.acked = s.acked → ListenOutcome s s' sid id (some ([], []))
  | granted (ak : List Kind) (au : List Nat) : ¬(ak = [] ∧ au = []) →
      s'.listens = ⟨sid, id, ak, au⟩ :: s.listens → s'.acked = s.acked ++ [(sid, id)] →
      ListenOutcome s s' sid id (some (ak, au))

theorem listenOk_find_none {s : Server} {sid id : Nat} (h : listenOk s sid id = true) :
    s.listens.find? (fun l => l.sid == sid && l.id == id) = none := by
  rw [List.find?_eq_none]
  intro l hl
  have := listenOk_spec h l hl
  simp
  exact fun e1 e2 => this ⟨e1, e2⟩

theorem listenOk_filter {s : Server} {sid id : Nat} (h : listenOk s sid id = true) :
    s.listens.filter (fun l' => !(l'.sid == sid && l'.id == id)) = s.listens := by
  rw [List.filter_eq_self]
  intro l hl
  have := listenOk_spec h l hl
  by_cases e : l.sid = sid
  · have e2 : l.id ≠ id := fun e2 => this ⟨e, e2⟩
    simp [e2]
  · simp [e]

theorem listenBoth_spec {s : Server} (hA : InvA s) {sid id : Nat} (ks : List Kind) (us : List Nat)
    (hm : (sid, Gen.modern) ∈ s.sessions) (hid : listenOk s sid id = true) (hnd : us.Nodup) :
    ListenOutcome s (listenBoth s sid id ks us).1 sid id (firstAck (listenBoth s sid id ks us).2) := by
  have hnack : (sid, id) ∉ s.acked := by
    intro hc
    obtain ⟨l, hl, e1, e2⟩ := hA _ hc
    exact listenOk_spec hid l hl ⟨e1, e2⟩
  simp only [listenBoth, listen, hm, hid, hnd, and_self, if_true, listenAck, List.find?_cons, beq_self_eq_true,
    Bool.and_self]
  simp only [hnack, if_false]
  generalize List.filter (gateListen s) ks = ak
  generalize (if resSub s = true then us else []) = au
  by_cases hg : ak = [] ∧ au = []
  · simp only [hg, and_self, if_true, firstAck, List.findSome?_cons]
    refine ListenOutcome.empty ?_ rfl
    simp only [List.filter_cons, beq_self_eq_true, Bool.and_self, Bool.not_true, Bool.false_eq_true, if_false]
    exact listenOk_filter hid
  · simp only [hg, if_false, firstAck, List.findSome?_cons]
    exact ListenOutcome.granted _ _ hg rfl rfl

theorem listenAck_rlive (s : Server) (sid id : Nat) : (listenAck s sid id).1.rlive = s.rlive := by
  simp only [listenAck]; split
  · rfl
  · split
    · rfl
    · split <;> rfl

theorem listenOrRefuse_rlive (y : State) (sid id : Nat) (ks : List Kind) (us : List Nat) :
    (listenOrRefuse y sid id ks us).1.rlive = y.srv.rlive := by
  simp only [listenOrRefuse]
  split
  · simp only [listenRefused]; split
    · rw [listenEnd_rlive, listen_rlive]
    · rfl
  · simp only [listenBoth]; rw [listenAck_rlive, listen_rlive]

theorem listenOrRefuse_spec {y : State} (hok : SrvOk y.srv) {sid id : Nat} (ks : List Kind) (us : List Nat)
    (hm : (sid, Gen.modern) ∈ y.srv.sessions) (hid : listenOk y.srv sid id = true) (hnd : us.Nodup) :
    SameRest y.srv (listenOrRefuse y sid id ks us).1 ∧
    ListenOutcome y.srv (listenOrRefuse y sid id ks us).1 sid id (firstAck (listenOrRefuse y sid id ks us).2) := by
  simp only [listenOrRefuse]
  split
  · rename_i n _
    refine ⟨sameRest_listenRefused _ _ _ _ _ _, ?_⟩
    obtain ⟨cap, hr⟩ := hok
    have := refused_listen_leaves_no_subscription cap y.srv hr sid id ks us n
    simp only [step] at this
    exact ListenOutcome.refused this.1 this.2.2.2.1
  · exact ⟨(sameRest_listen _ _ _ _ _).trans (sameRest_listenAck _ _ _), listenBoth_spec hok.invA ks us hm hid hnd⟩

/-- the end of a listen -/
theorem listenEnd_listens (s : Server) (sid id : Nat) :
    (listenEnd s sid id).listens = s.listens.filter (fun l' => !(l'.sid == sid && l'.id == id)) := by
  simp only [listenEnd]; split
  · rename_i hn
    rw [List.find?_eq_none] at hn
    symm; rw [List.filter_eq_self]
    intro l hl
    have := hn l hl
    by_cases e : l.sid = sid
    · simp [e] at this; simp [this]
    · simp [e]
  · rfl

theorem listenEnd_acked (s : Server) (sid id : Nat) (hA : InvA s) :
    ∀ p, p ∈ (listenEnd s sid id).acked ↔ (p ∈ s.acked ∧ ¬(p.1 = sid ∧ p.2 = id)) := by
  intro p
  simp only [listenEnd]; split
  · rename_i hn
    rw [List.find?_eq_none] at hn
    constructor
    · intro hp
      refine ⟨hp, ?_⟩
      rintro ⟨e1, e2⟩
      obtain ⟨l, hl, h1, h2⟩ := hA p hp
      have := hn l hl
      simp [h1, h2, e1, e2] at this
    · exact fun hp => hp.1
  · simp only [List.mem_filter]
    constructor
    · rintro ⟨h1, h2⟩
      refine ⟨h1, ?_⟩
      rintro ⟨e1, e2⟩
      simp [e1, e2] at h2
    · rintro ⟨h1, h2⟩
      refine ⟨h1, ?_⟩
      by_cases e : p.1 = sid
      · have : p.2 ≠ id := fun e2 => h2 ⟨e, e2⟩
        simp [this]
      · simp [e]

end Notify.Bridge
