import McpModel.Notify.SoundChecks
/-!
# Clause soundness of the C18 monitor, part 4: the clauses of a list-changed fan-out decided at the record

`sound_<clause>`: whenever the monitor reports the clause on the record that extends a trace, the predicate
`P_<clause>` (SoundChecks.lean) — a statement about the records and their ground truth only — fails on the
extended trace.
-/
namespace Notify.Sound
open Notify Notify.Mon Generated.Notify

/-- the monitor reports `c` on the record that extends the trace `tr` -/
def Reports (tr : Trace) (r : Rec) (c : Clause) : Prop := monCheck (monAfter {} tr) r = some c

/-- a reported fan-out clause that a single delivery raises: the delivery, as the complete-fan-out check or the
held-fan-out check judged it -/
theorem fan_delivery {tr : Trace} {r : Rec} {c : Clause} (h : Reports tr r c) (hs : srcOf c = .fan)
    (hnt : c ≠ .twice) (hnd : c ≠ .fanDropped) :
    ∃ k ds x, IsFanout r k ds ∧ x ∈ ds ∧
      (cbDeliveryClause (monAfter {} tr) k x = some c ∨ ∃ fan, fsDeliveryClause (monAfter {} tr) k fan x = some c) := by
  rcases fan_source h hs with ⟨k, t, l, ds, e, hsd, hc⟩ | ⟨k, a, t, l, b, fan, ds, e, _, hsd, hc⟩
  · rcases cbCheck_some hc with ⟨x, hx, hcx⟩ | ⟨e2, _⟩
    · exact ⟨k, ds, x, Or.inl ⟨t, l, e, hsd⟩, hx, Or.inl hcx⟩
    · exact absurd e2 hnt
  · rcases fsCheck_some hc with ⟨x, hx, hcx⟩ | ⟨e2, _⟩
    · exact ⟨k, ds, x, Or.inr ⟨a, t, l, b, e, hsd⟩, hx, Or.inr ⟨fan, hcx⟩⟩
    · exact absurd e2 hnd

theorem sound_wrongKind (tr : Trace) (r : Rec) (h : Reports tr r .wrongKind) : ¬ P_wrongKind (tr ++ [r]) := by
  intro hP
  obtain ⟨k, ds, x, hf, hx, hc⟩ := fan_delivery h rfl (by simp) (by simp)
  have hgood := hP tr.length r k ds (get_snoc_len tr r) hf x hx
  rcases hc with hc | ⟨fan, hc⟩
  · rcases cbDeliveryClause_some hc with ⟨_, hne⟩ | ⟨e, _⟩ | ⟨e, _⟩ | ⟨e, _⟩ | ⟨e, _⟩ | ⟨e, _⟩ | ⟨e, _⟩ <;>
      first | exact hne hgood | cases e
  · rcases fsDeliveryClause_some hc with ⟨_, hne⟩ | ⟨e, _⟩ | ⟨e, _⟩ | ⟨e, _⟩ | ⟨e, _⟩ | ⟨e, _⟩ | ⟨e, _⟩ | ⟨e, _⟩ <;>
      first | exact hne hgood | cases e

theorem sound_disabled (tr : Trace) (r : Rec) (h : Reports tr r .disabled) : ¬ P_disabled (tr ++ [r]) := by
  intro hP
  have hA := monAfter_truth tr
  obtain ⟨k, ds, x, hf, hx, hc⟩ := fan_delivery h rfl (by simp) (by simp)
  have hgood := hP tr.length r k ds (get_snoc_len tr r) hf x hx
  rw [truthAt_snoc_len, ← hA.cap] at hgood
  rcases hc with hc | ⟨fan, hc⟩
  · rcases cbDeliveryClause_some hc with ⟨e, _⟩ | ⟨_, h1, h2⟩ | ⟨e, _⟩ | ⟨e, _⟩ | ⟨e, _⟩ | ⟨e, _⟩ | ⟨e, _⟩ <;>
      first | exact hgood h1 h2 | cases e
  · rcases fsDeliveryClause_some hc with ⟨e, _⟩ | ⟨_, h1, h2⟩ | ⟨e, _⟩ | ⟨e, _⟩ | ⟨e, _⟩ | ⟨e, _⟩ | ⟨e, _⟩ | ⟨e, _⟩ <;>
      first | exact hgood h1 h2 | cases e

theorem sound_notConnected (tr : Trace) (r : Rec) (h : Reports tr r .notConnected) : ¬ P_notConnected (tr ++ [r]) := by
  intro hP
  have hA := monAfter_truth tr
  obtain ⟨k, ds, x, hf, hx, hc⟩ := fan_delivery h rfl (by simp) (by simp)
  have hgood := hP tr.length r k ds (get_snoc_len tr r) hf x hx
  rw [truthAt_snoc_len, ← hA.connected] at hgood
  rcases hc with hc | ⟨fan, hc⟩
  · rcases cbDeliveryClause_some hc with ⟨e, _⟩ | ⟨e, _⟩ | ⟨_, h1⟩ | ⟨e, _⟩ | ⟨e, _⟩ | ⟨e, _⟩ | ⟨e, _⟩ <;>
      first | (rw [h1] at hgood; exact absurd hgood (by simp)) | cases e
  · rcases fsDeliveryClause_some hc with ⟨e, _⟩ | ⟨e, _⟩ | ⟨_, h1⟩ | ⟨e, _⟩ | ⟨e, _⟩ | ⟨e, _⟩ | ⟨e, _⟩ | ⟨e, _⟩ <;>
      first | (rw [h1] at hgood; exact absurd hgood (by simp)) | cases e

theorem sound_legacyStamped (tr : Trace) (r : Rec) (h : Reports tr r .legacyStamped) : ¬ P_legacyStamped (tr ++ [r]) := by
  intro hP
  have hA := monAfter_truth tr
  obtain ⟨k, ds, x, hf, hx, hc⟩ := fan_delivery h rfl (by simp) (by simp)
  have hgood := hP tr.length r k ds (get_snoc_len tr r) hf x hx
  rw [truthAt_snoc_len, ← hA.connected, ← hA.modern] at hgood
  rcases hc with hc | ⟨fan, hc⟩
  · rcases cbDeliveryClause_some hc with ⟨e, _⟩ | ⟨e, _⟩ | ⟨e, _⟩ | ⟨_, h1, h2, h3⟩ | ⟨e, _⟩ | ⟨e, _⟩ | ⟨e, _⟩ <;>
      first | exact h3 (hgood h1 h2) | cases e
  · rcases fsDeliveryClause_some hc with ⟨e, _⟩ | ⟨e, _⟩ | ⟨e, _⟩ | ⟨_, h1, h2, h3⟩ | ⟨e, _⟩ | ⟨e, _⟩ | ⟨e, _⟩ | ⟨e, _⟩ <;>
      first | exact h3 (hgood h1 h2) | cases e

theorem sound_wrongHandler (tr : Trace) (r : Rec) (h : Reports tr r .wrongHandler) : ¬ P_wrongHandler (tr ++ [r]) := by
  intro hP
  obtain ⟨k, ds, x, hf, hx, hc⟩ := fan_delivery h rfl (by simp) (by simp)
  have hgood := hP tr.length r k ds (get_snoc_len tr r) hf x hx
  rcases hc with hc | ⟨fan, hc⟩
  · rcases cbDeliveryClause_some hc with ⟨e, _⟩ | ⟨e, _⟩ | ⟨e, _⟩ | ⟨e, _⟩ | ⟨e, _⟩ | ⟨e, _⟩ | ⟨_, h1, h2⟩ <;>
      first | (rcases hgood with g | g; exact h1 g; exact h2 g) | cases e
  · rcases fsDeliveryClause_some hc with ⟨e, _⟩ | ⟨e, _⟩ | ⟨e, _⟩ | ⟨e, _⟩ | ⟨e, _⟩ | ⟨e, _⟩ | ⟨e, _⟩ | ⟨_, h1, h2⟩ <;>
      first | (rcases hgood with g | g; exact h1 g; exact h2 g) | cases e

/-- a reported clause of a complete fan-out -/
theorem complete_delivery {tr : Trace} {r : Rec} {c : Clause} (h : Reports tr r c) (hs : srcOf c = .fan)
    (hnt : c ≠ .twice) (hfs : ∀ m k fan x, fsDeliveryClause m k fan x ≠ some c) (hnd : c ≠ .fanDropped) :
    ∃ k t l ds x, r = ⟨.cbrun k, .sent t l⟩ ∧ slotDeliveries l = some ds ∧ x ∈ ds ∧
      cbDeliveryClause (monAfter {} tr) k x = some c := by
  rcases fan_source h hs with ⟨k, t, l, ds, e, hsd, hc⟩ | ⟨k, a, t, l, b, fan, ds, e, _, hsd, hc⟩
  · rcases cbCheck_some hc with ⟨x, hx, hcx⟩ | ⟨e2, _⟩
    · exact ⟨k, t, l, ds, x, e, hsd, hx, hcx⟩
    · exact absurd e2 hnt
  · rcases fsCheck_some hc with ⟨x, hx, hcx⟩ | ⟨e2, _⟩
    · exact absurd hcx (hfs _ _ _ _)
    · exact absurd e2 hnd

theorem fs_not_noSubscription (m : MState) (k : Kind) (fan : MFan) (x : SDelivery) :
    fsDeliveryClause m k fan x ≠ some .noSubscription := by
  intro hc
  rcases fsDeliveryClause_some hc with ⟨e, _⟩ | ⟨e, _⟩ | ⟨e, _⟩ | ⟨e, _⟩ | ⟨e, _⟩ | ⟨e, _⟩ | ⟨e, _⟩ | ⟨e, _⟩ <;> cases e

theorem fs_not_badStamp (m : MState) (k : Kind) (fan : MFan) (x : SDelivery) :
    fsDeliveryClause m k fan x ≠ some .badStamp := by
  intro hc
  rcases fsDeliveryClause_some hc with ⟨e, _⟩ | ⟨e, _⟩ | ⟨e, _⟩ | ⟨e, _⟩ | ⟨e, _⟩ | ⟨e, _⟩ | ⟨e, _⟩ | ⟨e, _⟩ <;> cases e

theorem cb_noSubscription {m : MState} {k : Kind} {x : SDelivery} (h : cbDeliveryClause m k x = some .noSubscription) :
    (m.slots x.slot).modern = true ∧ (m.slots x.slot).grantedK k = false := by
  rcases cbDeliveryClause_some h with ⟨e, _⟩ | ⟨e, _⟩ | ⟨e, _⟩ | ⟨e, _⟩ | ⟨_, h1, h2⟩ | ⟨e, _⟩ | ⟨e, _⟩ <;>
    first | exact ⟨h1, h2⟩ | cases e

theorem cb_badStamp {m : MState} {k : Kind} {x : SDelivery} (h : cbDeliveryClause m k x = some .badStamp) :
    (m.slots x.slot).modern = true ∧
      (m.slots x.slot).listens.any (fun l => Stamp.id l.id == x.stamp && l.kinds.contains k) = false := by
  rcases cbDeliveryClause_some h with ⟨e, _⟩ | ⟨e, _⟩ | ⟨e, _⟩ | ⟨e, _⟩ | ⟨e, _⟩ | ⟨_, h1, h2⟩ | ⟨e, _⟩ <;>
    first | exact ⟨h1, h2⟩ | cases e

theorem sound_noSubscription (tr : Trace) (r : Rec) (h : Reports tr r .noSubscription) : ¬ P_noSubscription (tr ++ [r]) := by
  intro hP
  have hA := monAfter_truth tr
  obtain ⟨k, t, l, ds, x, e, hsd, hx, hc⟩ := complete_delivery h rfl (by simp) fs_not_noSubscription (by simp)
  have hgood := hP tr.length t l k ds (by rw [get_snoc_len, e]) hsd x hx
  rw [truthAt_snoc_len, ← hA.modern] at hgood
  obtain ⟨h1, h2⟩ := cb_noSubscription hc
  obtain ⟨ls, hls, hk⟩ := hgood h1
  rw [← hA.listens] at hls
  have : (monAfter {} tr |>.slots x.slot).grantedK k = true := by
    simp only [MSlot.grantedK, List.any_eq_true]
    exact ⟨ls, hls, by simpa using hk⟩
  rw [this] at h2; exact absurd h2 (by simp)

theorem sound_badStamp (tr : Trace) (r : Rec) (h : Reports tr r .badStamp) : ¬ P_badStamp (tr ++ [r]) := by
  intro hP
  have hA := monAfter_truth tr
  obtain ⟨k, t, l, ds, x, e, hsd, hx, hc⟩ := complete_delivery h rfl (by simp) fs_not_badStamp (by simp)
  have hgood := hP tr.length t l k ds (by rw [get_snoc_len, e]) hsd x hx
  rw [truthAt_snoc_len, ← hA.modern] at hgood
  obtain ⟨h1, h2⟩ := cb_badStamp hc
  obtain ⟨ls, hls, hst, hk⟩ := hgood h1
  rw [← hA.listens] at hls
  rw [List.any_eq_false] at h2
  have := h2 ls hls
  simp [hst, hk] at this

theorem sound_malformed (tr : Trace) (r : Rec) (h : Reports tr r .malformed) : ¬ P_malformed (tr ++ [r]) := by
  intro hP
  have hgood := hP tr.length r (get_snoc_len tr r)
  rcases monCheck_some h with ⟨_, _, _, _, _, _, h1⟩ | ⟨k, e1, e2, e3, _⟩ | ⟨_, _, _, _, _, _, _, _, _, _, h3⟩ | ⟨_, _, _, _, _, _, _, h4⟩ |
      ⟨u, v, e1, e3, _⟩ | ⟨_, _, _, _, _, _, h6⟩ | ⟨_, _, _, _, _, _, e⟩ | ⟨_, _, h8⟩ | ⟨_, _, h9⟩
  · have := cb_src h1; simp [srcOf] at this
  · rcases hgood.1 k e1 with g | ⟨t, l, ds, g1, g2⟩
    · exact e2 g
    · exact e3 t l ds g1 g2
  · have := fs_src h3; simp [srcOf] at this
  · have := ru_src h4; simp [srcOf] at this
  · obtain ⟨t, l, ds, g1, g2⟩ := hgood.2 u v e1
    exact e3 t l ds g1 g2
  · have := checkRet_src h6; simp [srcOf] at this
  · cases e
  · have := tb_src h8; simp [srcOf] at this
  · have := end_src h9; simp [srcOf] at this

end Notify.Sound
