import McpModel.Notify.BridgeSrv
/-!
# Bridge, part 3: the ops that touch neither sessions nor listens nor fan-outs
-/
namespace Notify.Bridge
open Notify Notify.Mon Notify.Sys Generated.Notify

/-- the monitor raises no clause on the model's observation of the op, and its bookkeeping describes
the model's next state -/
def StepOk (seen : List Nat) (y : State) (m : MState) (op : Op) (hint : Option Who) : Prop :=
  monCheck m ⟨op, (sysStep y op hint).2⟩ = none ∧
  Rel (seenAfter seen op) (sysStep y op hint).1 (monNext m ⟨op, (sysStep y op hint).2⟩)

variable {seen : List Nat} {y : State} {m : MState}

theorem step_ttl (h : Rel seen y m) (n : Nat) (hint : Option Who) : StepOk seen y m (.ttl n) hint :=
  ⟨rfl, ⟨h.reach, h.g, h.sess, h.lis, h.owed, h.fan, h.cache, h.seen, h.gate⟩⟩

theorem step_bad (h : Rel seen y m) (hint : Option Who) : StepOk seen y m .bad hint :=
  ⟨rfl, h⟩

theorem step_policy (h : Rel seen y m) (u : Nat) (r : Bool) (hint : Option Who) : StepOk seen y m (.policy u r) hint := by
  refine ⟨?_, ?_⟩
  · simp only [sysStep]; split <;> rfl
  · simp only [sysStep]
    split
    · exact ⟨h.reach, ⟨h.g.cap, h.g.ver, h.g.cnt, h.g.content⟩, h.sess, h.lis, h.owed, h.fan, h.cache, h.seen, h.gate⟩
    · exact ⟨h.reach, ⟨h.g.cap, h.g.ver, h.g.cnt, h.g.content⟩, h.sess, h.lis, h.owed, h.fan, h.cache, h.seen, h.gate⟩

end Notify.Bridge
