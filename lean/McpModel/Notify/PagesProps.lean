import McpModel.Notify.Props
/-!
# C18, client caches with several pages (mcp/cache.go: one entry per cursor)

`Notify.Cache` keys ARE cursors: a paginated list is one entry per cursor, filled and expiring (TTL) independently.
A `notifications/…/list_changed` has scope `none`: it covers every cursor.  The theorems below say what the
property asks of such a cache: after the client has handled the notification NO page — first or later, whatever
its TTL has left — that was cached before is served; every page served from the cache afterwards was fetched
after the notification was handled and is at least as new as the state the notification announced.
-/
namespace Notify.Cache

/-- **list_changed_drops_every_page.**  `methodCache.invalidate`: handling a list-changed notification empties the
cache — the entry of EVERY cursor goes, not only the first page's — and moves the generation, so that every page in
flight at that moment is not stored either (`fill` with `fixed`). -/
theorem list_changed_drops_every_page (s : State) (i : Nat) (n : Notif) (h : s.inbox[i]? = some n)
    (hs : n.scope = none) :
    (handle s i).entries = [] ∧ (handle s i).gen = s.gen + 1 ∧ ∀ k, (listStart (handle s i) k).2 = [] := by
  have he : (handle s i).entries = [] := by
    simp only [handle, h]
    apply List.filter_eq_nil_iff.mpr
    intro p _
    simp [Notif.covers, hs]
  refine ⟨he, by simp [handle, h], ?_⟩
  intro k
  simp [listStart, he]

/-- a cache hit is a call that starts and returns in one step: its ghost is `handled` of that state -/
theorem hit_ghost (s : State) (l : Label) (k v m : Nat) (h : Out.ret k v m true ∈ (step true s l).2) :
    m = s.handled k := by
  cases l <;> simp only [step] at h <;> try (simp at h; done)
  case listStart k' =>
    simp only [listStart] at h
    split at h
    · split at h
      · simp at h; obtain ⟨rfl, _, rfl⟩ := h; rfl
      · simp at h
    · simp at h
  case fill i =>
    simp only [fill] at h
    split at h
    · split at h <;> simp at h
    · simp at h

theorem hits_above (ls : List Label) : ∀ (s : State), Inv s → ∀ (k c : Nat), c ≤ s.handled k →
    ∀ v m, Out.ret k v m true ∈ (run true s ls).2 → c ≤ v := by
  induction ls with
  | nil => intro s _ k c _ v m ho; simp [run] at ho
  | cons l ls ih =>
    intro s hs k c hc v m ho
    simp only [run, List.mem_append] at ho
    rcases ho with ho | ho
    · have h1 := hit_ghost s l k v m ho
      have h2 := step_fresh s l hs k v m true ho
      omega
    · exact ih _ (inv_step s l hs) k c (Nat.le_trans hc (handled_mono true s l k)) v m ho

/-- **no_page_from_before_notification.**  Any history `ls1`, then the client handles a list-changed notification
`n`, then any history `ls2` (calls for any cursors, responses, fills, further changes and notifications, the clock
moving past any TTL or not): every page the cache serves in `ls2` (a hit, for ANY cursor `k`) carries a version at
least as new as what `n` announced for it — no page cached before the notification was handled is ever served
again, whatever TTL it had left. -/
theorem no_page_from_before_notification (ls1 ls2 : List Label) (i : Nat) (n : Notif)
    (h : (run true {} ls1).1.inbox[i]? = some n) (hs : n.scope = none) :
    ∀ k v m, Out.ret k v m true ∈ (run true (handle (run true {} ls1).1 i) ls2).2 → n.vers k ≤ v := by
  intro k v m ho
  have hinv : Inv (run true {} ls1).1 := inv_run {} ls1 inv_init
  have hinv' : Inv (handle (run true {} ls1).1 i) := inv_step _ (.handle i) hinv
  have hc : n.covers k = true := by simp [Notif.covers, hs]
  exact hits_above ls2 _ hinv' k (n.vers k) (handled_announced _ i n h k hc) v m ho

/-- **expired_page_not_served.**  TTL expiry is per page: a hit for cursor `k` means the entry of `k` itself is
within its own TTL now (a positive one); the age of other pages is irrelevant. -/
theorem expired_page_not_served (s : State) (k v m : Nat) (h : Out.ret k v m true ∈ (listStart s k).2) :
    ∃ e, s.entries.lookup k = some e ∧ e.v = v ∧ 0 < e.ttl ∧ s.now - e.t < e.ttl := by
  simp only [listStart] at h
  split at h
  · rename_i e he
    split at h
    · rename_i hv
      simp at h
      refine ⟨e, he, h.1.symm ▸ rfl, ?_⟩
      simpa [Entry.valid] using hv
    · simp at h
  · simp at h

/-- three pages cached with a long TTL, a change, the notification handled: the call for the THIRD page goes to the
server (no output at `listStart`), although its entry had 60 s left — and a cache that only dropped the first page
would have answered it with version 0 -/
example :
    let ls := [Label.listStart 0, .serve 0 60000, .fill 0, .listStart 1, .serve 0 60000, .fill 0, .listStart 2, .serve 0 60000, .fill 0,
               .bump (fun _ => true), .announce none, .handle 0]
    (run true {} ls).1.entries = [] ∧ (listStart (run true {} ls).1 2).2 = [] := by decide

end Notify.Cache
