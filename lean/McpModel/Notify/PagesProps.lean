import McpModel.Notify.Props
import McpModel.Notify.Pages
/-!
# C18, client caches with several pages (mcp/cache.go: one entry per cursor)

`Notify.Cache` keys ARE cursors: a paginated list is one entry per cursor, filled and expiring (TTL) independently.
A `notifications/…/list_changed` has scope `none`: it covers every cursor.  The theorems below say what the
property asks of such a cache: after the client has handled the notification NO page — first or later, whatever
its TTL has left — that was cached before is served; every page served from the cache afterwards was fetched
after the notification was handled and is at least as new as the state the notification announced.
-/
namespace Notify.Cache

/-- **list_changed_drops_every_page.**  `methodCache.invalidate`: handling a list-changed notification empties the
cache — the entry of EVERY cursor goes, not only the first page's — and moves the generation, so that every page in
flight at that moment is not stored either (`fill` with `fixed`). -/
theorem list_changed_drops_every_page (s : State) (i : Nat) (n : Notif) (h : s.inbox[i]? = some n)
    (hs : n.scope = none) :
    (handle s i).entries = [] ∧ (handle s i).gen = s.gen + 1 ∧ ∀ k, (listStart (handle s i) k).2 = [] := by
  have he : (handle s i).entries = [] := by
    simp only [handle, h]
    apply List.filter_eq_nil_iff.mpr
    intro p _
    simp [Notif.covers, hs]
  refine ⟨he, by simp [handle, h], ?_⟩
  intro k
  simp [listStart, he]

/-- a cache hit is a call that starts and returns in one step: its ghost is `handled` of that state -/
theorem hit_ghost (s : State) (l : Label) (k v m : Nat) (h : Out.ret k v m true ∈ (step true s l).2) :
    m = s.handled k := by
  cases l <;> simp only [step] at h <;> try (simp at h; done)
  case listStart k' =>
    simp only [listStart] at h
    split at h
    · split at h
      · simp at h; obtain ⟨rfl, _, rfl⟩ := h; rfl
      · simp at h
    · simp at h
  case fill i =>
    simp only [fill] at h
    split at h
    · split at h <;> simp at h
    · simp at h

theorem hits_above (ls : List Label) : ∀ (s : State), Inv s → ∀ (k c : Nat), c ≤ s.handled k →
    ∀ v m, Out.ret k v m true ∈ (run true s ls).2 → c ≤ v := by
  induction ls with
  | nil => intro s _ k c _ v m ho; simp [run] at ho
  | cons l ls ih =>
    intro s hs k c hc v m ho
    simp only [run, List.mem_append] at ho
    rcases ho with ho | ho
    · have h1 := hit_ghost s l k v m ho
      have h2 := step_fresh s l hs k v m true ho
      omega
    · exact ih _ (inv_step s l hs) k c (Nat.le_trans hc (handled_mono true s l k)) v m ho

/-- **no_page_from_before_notification.**  Any history `ls1`, then the client handles a list-changed notification
`n`, then any history `ls2` (calls for any cursors, responses, fills, further changes and notifications, the clock
moving past any TTL or not): every page the cache serves in `ls2` (a hit, for ANY cursor `k`) carries a version at
least as new as what `n` announced for it — no page cached before the notification was handled is ever served
again, whatever TTL it had left. -/
theorem no_page_from_before_notification (ls1 ls2 : List Label) (i : Nat) (n : Notif)
    (h : (run true {} ls1).1.inbox[i]? = some n) (hs : n.scope = none) :
    ∀ k v m, Out.ret k v m true ∈ (run true (handle (run true {} ls1).1 i) ls2).2 → n.vers k ≤ v := by
  intro k v m ho
  have hinv : Inv (run true {} ls1).1 := inv_run {} ls1 inv_init
  have hinv' : Inv (handle (run true {} ls1).1 i) := inv_step _ (.handle i) hinv
  have hc : n.covers k = true := by simp [Notif.covers, hs]
  exact hits_above ls2 _ hinv' k (n.vers k) (handled_announced _ i n h k hc) v m ho

/-- **expired_page_not_served.**  TTL expiry is per page: a hit for cursor `k` means the entry of `k` itself is
within its own TTL now (a positive one); the age of other pages is irrelevant. -/
theorem expired_page_not_served (s : State) (k v m : Nat) (h : Out.ret k v m true ∈ (listStart s k).2) :
    ∃ e, s.entries.lookup k = some e ∧ e.v = v ∧ 0 < e.ttl ∧ s.now - e.t < e.ttl := by
  simp only [listStart] at h
  split at h
  · rename_i e he
    split at h
    · rename_i hv
      simp at h
      refine ⟨e, he, h.1.symm ▸ rfl, ?_⟩
      simpa [Entry.valid] using hv
    · simp at h
  · simp at h

/-- three pages cached with a long TTL, a change, the notification handled: the call for the THIRD page goes to the
server (no output at `listStart`), although its entry had 60 s left — and a cache that only dropped the first page
would have answered it with version 0 -/
example :
    let ls := [Label.listStart 0, .serve 0 60000, .fill 0, .listStart 1, .serve 0 60000, .fill 0, .listStart 2, .serve 0 60000, .fill 0,
               .bump (fun _ => true), .announce none, .handle 0]
    (run true {} ls).1.entries = [] ∧ (listStart (run true {} ls).1 2).2 = [] := by decide

end Notify.Cache

/-! ## the harness ops of the paginated cases (`Pages.lean`) and their monitor -/
namespace Notify.Pages
open Notify.Cache

/-- the model's answers to a list of ops -/
def runModel (m : MState) : List Op → List (Op × Obs)
  | [] => []
  | op :: ops => let r := step m op; (op, r.2) :: runModel r.1 ops

/-- the first clause the monitor raises on a trace -/
def runMon (m : Mon) : List (Op × Obs) → Option Clause
  | [] => none
  | (op, obs) :: rest => match monStep m op obs with
    | (_, some c) => some c
    | (m', none) => runMon m' rest

/-- **pages_stalePage_sound.**  What the report means on the history the monitor has recorded (`told` = the changes whose
notification the client has handled; `starts` = for every held call that number when it started): a call that
started after `t` changes had been handled returned a version older than `t`. -/
theorem pages_stalePage_sound (m : Mon) (op : Op) (obs : Obs) (h : (monStep m op obs).2 = some .stalePage) :
    (∃ k v hit, (op = .list k ∨ op = .listheld k) ∧ obs = .ret v hit ∧ v < m.told) ∨
    (∃ k v hit, op = .fill k ∧ obs = .ret v hit ∧ v < (m.starts.lookup k).getD 0) := by
  cases op <;> cases obs <;> simp [monStep] at h ⊢ <;> first | exact h | omega | skip

/-- **pages_notNotified_sound.**  The report means: the op was a change of every tool and the client handled no
list-changed notification within the 20 ms that follow. -/
theorem pages_notNotified_sound (m : Mon) (op : Op) (obs : Obs) (h : (monStep m op obs).2 = some .notNotified) :
    op = .change ∧ ∀ n, obs = .handled n → n = 0 := by
  cases op <;> cases obs <;> simp [monStep] at h ⊢ <;> first | exact h | omega | skip

/-- on the model's own answers the monitor is silent (three pages, a held call across a change, TTL expiry) … -/
example : runMon {} (runModel { ttl := 60000 }
    [.list 0, .list 1, .listheld 2, .change, .fill 2, .list 2, .list 2, .tick 70000, .list 2, .change, .list 1]) = none := by decide

/-- … and a later page served from before the change is reported -/
example : runMon {} [(.list 2, .ret 0 false), (.change, .handled 1), (.list 0, .ret 1 false), (.list 2, .ret 0 true)] = some .stalePage := by
  decide

theorem eraseIdx_concat {α} (l : List α) (a : α) : (l ++ [a]).eraseIdx l.length = l := by
  induction l with
  | nil => rfl
  | cons b l ih => simp [List.eraseIdx, ih]

/-- **miss_roundtrip.**  An unheld miss of the harness op `pages list k` — `listStart` appended the call, `serve` and
`fill` of that call follow at once — returns the server's CURRENT version of that page and leaves the other calls
in flight as they were. -/
theorem miss_roundtrip (c : Cache.State) (f0 : Fill) (ttl : Nat) (hs : f0.stage = .sent) :
    let c1 := { c with fills := c.fills ++ [f0] }
    let i := c1.fills.length - 1
    let c2 := (Cache.step true c1 (.serve i ttl)).1
    (Cache.step true c2 (.fill i)).2 = [.ret f0.key (c.srv f0.key) f0.startMax false] ∧
    (Cache.step true c2 (.fill i)).1.fills = c.fills := by
  simp only [Cache.step, serve, fill, List.length_append, List.length_singleton, Nat.add_sub_cancel]
  simp [hs, eraseIdx_concat]

end Notify.Pages
