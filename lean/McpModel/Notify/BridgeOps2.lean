import McpModel.Notify.BridgeOps1
import McpModel.Notify.BridgeLemmas
/-!
# Bridge, part 4: connect and close
-/
namespace Notify.Bridge
open Notify Notify.Mon Notify.Sys Generated.Notify

variable {seen : List Nat} {y : State} {m : MState}

theorem hello_bind {s : Server} {sid : Nat} (h : sid ∉ s.sessions.map Prod.fst) (modern : Bool) :
    hello (bind s sid) sid modern = { s with sessions := s.sessions ++ [(sid, genB modern)] } := by
  have hmap : s.sessions.map (fun p => if p.1 = sid then (sid, if modern then Gen.modern else Gen.legacy) else p) = s.sessions := by
    conv => rhs; rw [← List.map_id s.sessions]
    apply List.map_congr_left
    intro p hp
    have : p.1 ≠ sid := fun e => h (List.mem_map.2 ⟨p, hp, e⟩)
    simp [this]
  simp only [bind, h, hello, if_false]
  simp [hmap, genB]

theorem Rel.seen_cons (h : Rel seen y m) (sid : Nat) : Rel (sid :: seen) y m :=
  { h with seen := ⟨fun p hp => List.mem_cons_of_mem _ (h.seen.sess p hp),
                    fun k x hx => List.mem_cons_of_mem _ (h.seen.infl k x hx)⟩ }

theorem cache_inv_fresh (now : Nat) (f : Nat → Nat) : Cache.Inv { now := now, srv := f } := by
  constructor <;> simp

theorem reach_sessions_append {s : Server} (h : SrvOk s) {sid : Nat} (hf : sid ∉ s.sessions.map Prod.fst) (modern : Bool) :
    SrvOk { s with sessions := s.sessions ++ [(sid, genB modern)] } := by
  rw [← hello_bind hf]
  exact srvOk_hello (srvOk_bind h _) _ _

theorem rel_connect (h : Rel seen y m) (i : Slot) (sid : Nat) (modern : Bool) (mask : List Kind)
    (hu : (y.slots i).used = false) (hok : sid ∉ seen) :
    Rel (sid :: seen)
      (({ y with srv := { y.srv with sessions := y.srv.sessions ++ [(sid, genB modern)] } } : State).setSlot i
        { used := true, sid := sid, modern := modern, mask := mask, gated := modern && !mask.isEmpty,
          connected := !(modern && !mask.isEmpty),
          caches := freshCaches { y with srv := { y.srv with sessions := y.srv.sessions ++ [(sid, genB modern)] } } })
      (m.setSlot i { connected := true, modern := modern }) := by
  have hS := h.srvOk.invS
  have hfresh : sid ∉ y.srv.sessions.map Prod.fst := by
    intro hm
    obtain ⟨p, hp, e⟩ := List.mem_map.1 hm
    exact hok (e ▸ h.seen.sess p hp)
  have hsidne : ∀ j, (y.slots j).used = true → (y.slots j).sid ≠ sid := by
    intro j hj e
    have := h.seen.sess _ (h.sess.used_sess j hj)
    simp only [] at this
    rw [e] at this
    exact hok this
  have hnol : ∀ l ∈ y.srv.listens, l.sid ≠ sid := by
    intro l hl e
    have := h.seen.sess _ (hS.listen_modern l hl)
    simp only [] at this
    rw [e] at this
    exact hok this
  have hjne : ∀ j, (y.slots j).used = true → j ≠ i := by
    intro j hj e; subst e; rw [hu] at hj; exact absurd hj (by simp)
  refine ⟨reach_sessions_append h.srvOk hfresh modern, ⟨h.g.cap, h.g.ver, h.g.cnt, h.g.content⟩, ?_, ?_, ?_, ?_, ?_, ?_, h.gate⟩
  · -- sessions
    constructor
    · intro j hj
      simp only [setSlot_slots] at hj ⊢
      split at hj
      · rename_i e; subst e; simp
      · rename_i e; simp only [e, if_false]; exact List.mem_append_left _ (h.sess.used_sess j hj)
    · intro p hp
      have hp : p ∈ y.srv.sessions ++ [(sid, genB modern)] := hp
      simp only [List.mem_append, List.mem_singleton] at hp
      rcases hp with hp | hp
      · obtain ⟨j, hj, hs⟩ := h.sess.sess_used p hp
        refine ⟨j, ?_, ?_⟩ <;> simp only [setSlot_slots, hjne j hj, if_false] <;> assumption
      · subst hp; exact ⟨i, by simp [setSlot_slots], by simp [setSlot_slots]⟩
    · intro a b ha hb hab
      simp only [setSlot_slots] at ha hb hab
      by_cases ea : a = i <;> by_cases eb : b = i
      · rw [ea, eb]
      · simp only [ea, eb, if_true, if_false] at hb hab; exact absurd hab.symm (hsidne b hb)
      · simp only [ea, eb, if_true, if_false] at ha hab; exact absurd hab (hsidne a ha)
      · simp only [ea, eb, if_false] at ha hb hab; exact h.sess.sid_inj a b ha hb hab
    · intro j
      simp only [setSlot_slots, msetSlot_slots]
      split
      · rfl
      · exact h.sess.conn j
    · intro j hj
      simp only [setSlot_slots, msetSlot_slots] at hj ⊢
      split
      · rfl
      · rename_i e; simp only [e, if_false] at hj; exact h.sess.modern j hj
    · intro j hj
      simp only [setSlot_slots] at hj ⊢
      split
      · rfl
      · rename_i e; simp only [e, if_false] at hj; exact h.sess.gated j hj
    · intro j hj hg
      simp only [setSlot_slots] at hj hg ⊢
      split
      · rename_i e; simp only [e, if_true] at hg; simp at hg; exact hg.1
      · rename_i e; simp only [e, if_false] at hj hg; exact h.sess.gated_modern j hj hg
  · -- listens
    constructor
    · exact h.lis.all_acked
    · intro j hj ml
      simp only [setSlot_slots, msetSlot_slots] at hj ⊢
      split
      · simp only []
        constructor
        · intro hml; simp at hml
        · rintro ⟨l, hl, e, _⟩; exact absurd e (hnol l hl)
      · rename_i e; simp only [e, if_false] at hj; exact h.lis.listens j hj ml
    · intro j hj hm u
      simp only [setSlot_slots, msetSlot_slots] at hj hm ⊢
      split
      · simp only []
        constructor
        · intro hml; simp at hml
        · intro hrl
          have := ((hS.rlive_iff sid u).1 hrl).1
          exact absurd (List.mem_map.2 ⟨_, this, rfl⟩) hfresh
      · rename_i e; simp only [e, if_false] at hj hm; exact h.lis.luris j hj hm u
    · intro j hj u hl
      simp only [setSlot_slots] at hj hl ⊢
      split
      · rename_i e; simp only [e, if_true] at hl; obtain ⟨l, hl, e2, _⟩ := hl; exact absurd e2 (hnol l hl)
      · rename_i e; simp only [e, if_false] at hj hl; exact h.lis.sub_live j hj u hl
    · intro j hj hg l hl
      simp only [setSlot_slots] at hj hg ⊢
      split
      · exact hnol l hl
      · rename_i e; simp only [e, if_false] at hj hg; exact h.lis.gated_none j hj hg l hl
    · intro j hj
      simp only [setSlot_slots, msetSlot_slots] at hj ⊢
      split
      · rename_i e; simp [e] at hj
      · rename_i e; simp only [e, if_false] at hj; exact h.lis.idle j hj
  · -- debts
    intro j k hk
    simp only [setSlot_slots, msetSlot_slots] at hk ⊢
    split
    · rename_i e; simp [e] at hk
    · rename_i e; simp only [e, if_false] at hk; exact h.owed j k hk
  · -- fans
    refine ⟨h.fan.some_of, ?_⟩
    intro k fan hf
    have := h.fan.ok k fan hf
    refine ⟨this.nodup, ?_⟩
    intro x hx j hj hs
    simp only [setSlot_slots] at hj hs ⊢
    split
    · rename_i e
      simp only [e, if_true] at hs
      have := h.seen.infl k x hx
      rw [← hs] at this
      exact absurd this hok
    · rename_i e; simp only [e, if_false] at hj hs; exact this.exp x hx j hj hs
  · -- caches
    intro j hj
    simp only [setSlot_slots, msetSlot_slots] at hj ⊢
    split
    · constructor
      · intro _ o; exact cache_inv_fresh _ _
      · intro _ key; rfl
      · intro _ key; rfl
      · intro _ key hk; simp at hk
      · intro _ o; rfl
      · intro key; simp [freshCaches]
      · intro o; simp [freshCaches]
      · intro _ key f hf; simp [freshCaches] at hf
      · intro key; exact Nat.zero_le _
      · intro _ key f hf; simp [freshCaches] at hf
    · rename_i e; simp only [e, if_false] at hj; exact h.cache j hj
  · -- seen
    constructor
    · intro p hp
      simp only [setSlot_srv, List.mem_append, List.mem_singleton] at hp
      rcases hp with hp | hp
      · exact List.mem_cons_of_mem _ (h.seen.sess p hp)
      · subst hp; exact List.mem_cons_self
    · intro k x hx; exact List.mem_cons_of_mem _ (h.seen.infl k x hx)

theorem step_connect (h : Rel seen y m) (i : Slot) (sid : Nat) (modern : Bool) (mask : List Kind) (hint : Option Who)
    (hok : okOp seen y (.connect i sid modern mask)) : StepOk seen y m (.connect i sid modern mask) hint := by
  have hS := h.srvOk.invS
  simp only [okOp] at hok
  have hfresh : sid ∉ y.srv.sessions.map Prod.fst := by
    intro hm
    obtain ⟨p, hp, e⟩ := List.mem_map.1 hm
    exact hok (e ▸ h.seen.sess p hp)
  unfold StepOk
  simp only [sysStep]
  by_cases hu : (y.slots i).used = true
  · simp only [hu, if_true]
    exact ⟨rfl, h.seen_cons sid⟩
  · simp only [hu]
    rw [hello_bind hfresh]
    have hu' : (y.slots i).used = false := by simpa using hu
    have key := rel_connect h i sid modern mask hu' hok
    cases hg : (modern && !mask.isEmpty) <;> simp only [hg] at key ⊢ <;> exact ⟨rfl, key⟩

theorem find?_filter_ne {α} (l : List (Slot × α)) (i j : Slot) (hji : j ≠ i) :
    (l.filter (fun p => p.1 != i)).find? (fun p => p.1 == j) = l.find? (fun p => p.1 == j) := by
  induction l with
  | nil => rfl
  | cons a t ih =>
    simp only [List.filter_cons]
    by_cases ha : a.1 = i
    · have h1 : (a.1 != i) = false := by simp [ha]
      have h2 : (a.1 == j) = false := by
        simp only [beq_eq_false_iff_ne, ne_eq]
        intro e; exact hji (e.symm.trans ha)
      rw [h1]
      simp only [Bool.false_eq_true, if_false, List.find?_cons, h2]
      exact ih
    · have h1 : (a.1 != i) = true := by simp [ha]
      rw [h1]
      simp only [if_true, List.find?_cons]
      rw [ih]

theorem rel_close (h : Rel seen y m) (i : Slot) (hu : (y.slots i).used = true) :
    Rel seen (({ y with srv := close y.srv (y.slots i).sid } : State).setSlot i {})
      { (m.setSlot i {}) with fans := fun k => (m.fans k).map (fun f =>
          { f with expect := f.expect.filter (·.1 != i), served := f.served.filter (· != i) }) } := by
  have hS := h.srvOk.invS
  have hne : ∀ j, j ≠ i → (y.slots j).used = true → (y.slots j).sid ≠ (y.slots i).sid := by
    intro j hji hj e; exact hji (h.sess.sid_inj j i hj hu e)
  refine ⟨srvOk_close h.srvOk _, ⟨h.g.cap, h.g.ver, h.g.cnt, h.g.content⟩, ?_, ?_, ?_, ?_, ?_, ?_, h.gate⟩
  · constructor
    · intro j hj
      simp only [setSlot_slots] at hj ⊢
      split at hj
      · simp at hj
      · rename_i e
        simp only [e, if_false, setSlot_srv, close, List.mem_filter]
        exact ⟨h.sess.used_sess j hj, by simpa using hne j e hj⟩
    · intro p hp
      simp only [setSlot_srv, close, List.mem_filter] at hp
      obtain ⟨j, hj, hs⟩ := h.sess.sess_used p hp.1
      have hji : j ≠ i := by
        intro e; subst e; simp [hs] at hp
      exact ⟨j, by simp only [setSlot_slots, hji, if_false]; exact hj, by simp only [setSlot_slots, hji, if_false]; exact hs⟩
    · intro a b ha hb hab
      simp only [setSlot_slots] at ha hb hab
      split at ha
      · simp at ha
      · split at hb
        · simp at hb
        · rename_i ea eb; simp only [ea, eb, if_false] at hab; exact h.sess.sid_inj a b ha hb hab
    · intro j
      simp only [setSlot_slots, msetSlot_slots]
      split
      · rfl
      · exact h.sess.conn j
    · intro j hj
      simp only [setSlot_slots, msetSlot_slots] at hj ⊢
      split at hj
      · simp at hj
      · rename_i e; simp only [e, if_false]; exact h.sess.modern j hj
    · intro j hj
      simp only [setSlot_slots] at hj ⊢
      split at hj
      · simp at hj
      · rename_i e; simp only [e, if_false]; exact h.sess.gated j hj
    · intro j hj hg
      simp only [setSlot_slots] at hj hg ⊢
      split at hj
      · simp at hj
      · rename_i e; simp only [e, if_false] at hg ⊢; exact h.sess.gated_modern j hj hg
  · constructor
    · intro l hl
      simp only [setSlot_srv, close, List.mem_filter] at hl ⊢
      have := h.lis.all_acked l hl.1
      exact ⟨⟨this.1, by simpa using hl.2⟩, this.2⟩
    · intro j hj ml
      simp only [setSlot_slots, msetSlot_slots] at hj ⊢
      split at hj
      · simp at hj
      · rename_i e
        simp only [e, if_false, setSlot_srv, close, List.mem_filter]
        rw [h.lis.listens j hj ml]
        constructor
        · rintro ⟨l, hl, e1, e2⟩; exact ⟨l, ⟨hl, by rw [e1]; simpa using hne j e hj⟩, e1, e2⟩
        · rintro ⟨l, ⟨hl, _⟩, e1, e2⟩; exact ⟨l, hl, e1, e2⟩
    · intro j hj hm u
      simp only [setSlot_slots, msetSlot_slots] at hj hm ⊢
      split at hj
      · simp at hj
      · rename_i e
        simp only [e, if_false] at hm
        simp only [e, if_false, setSlot_srv, close, List.mem_filter]
        rw [h.lis.luris j hj hm u]
        constructor
        · intro hr; exact ⟨hr, by simpa using hne j e hj⟩
        · intro hr; exact hr.1
    · intro j hj u hl
      simp only [setSlot_slots] at hj hl ⊢
      split at hj
      · simp at hj
      · rename_i e
        simp only [e, if_false, setSlot_srv, close, List.mem_filter] at hl ⊢
        obtain ⟨l, ⟨hl, _⟩, e1, e2⟩ := hl
        exact h.lis.sub_live j hj u ⟨l, hl, e1, e2⟩
    · intro j hj hg l hl
      simp only [setSlot_slots] at hj hg ⊢
      split at hj
      · simp at hj
      · rename_i e
        simp only [e, if_false, setSlot_srv, close, List.mem_filter] at hg hl ⊢
        exact h.lis.gated_none j hj hg l hl.1
    · intro j hj
      simp only [setSlot_slots, msetSlot_slots] at hj ⊢
      split
      · exact ⟨rfl, rfl, rfl⟩
      · rename_i e; simp only [e, if_false] at hj; exact h.lis.idle j hj
  · intro j k hk
    simp only [setSlot_slots, msetSlot_slots] at hk ⊢
    split at hk
    · simp at hk
    · rename_i e
      simp only [e, if_false, setSlot_srv, close, List.mem_filter]
      obtain ⟨hj, hor⟩ := h.owed j k hk
      refine ⟨hj, ?_⟩
      rcases hor with ho | ho
      · exact Or.inl ⟨ho, by simpa using hne j e hj⟩
      · exact Or.inr ho
  · constructor
    · intro k hk
      obtain ⟨fan, hf⟩ := h.fan.some_of k hk
      simp only [hf, Option.map_some]
      exact ⟨_, rfl⟩
    · intro k fan hf
      simp only [] at hf
      cases hfk : m.fans k with
      | none => rw [hfk] at hf; simp at hf
      | some fan0 =>
        rw [hfk] at hf
        simp only [Option.map_some, Option.some.injEq] at hf
        subst hf
        have := h.fan.ok k fan0 hfk
        refine ⟨this.nodup, ?_⟩
        intro x hx j hj hs
        simp only [setSlot_slots] at hj hs ⊢
        split at hj
        · simp at hj
        · rename_i e
          simp only [e, if_false] at hs ⊢
          obtain ⟨⟨st, h1, h2⟩, h3, h4⟩ := this.exp x hx j hj hs
          refine ⟨⟨st, ?_, h2⟩, ?_, h4⟩
          · rw [find?_filter_ne _ _ _ e]; exact h1
          · intro hc; exact h3 (List.mem_filter.1 hc).1
  · intro j hj
    simp only [setSlot_slots, msetSlot_slots] at hj ⊢
    split at hj
    · simp at hj
    · rename_i e; simp only [e, if_false]; exact h.cache j hj
  · constructor
    · intro p hp
      simp only [setSlot_srv, close, List.mem_filter] at hp
      exact h.seen.sess p hp.1
    · intro k x hx; exact h.seen.infl k x hx

theorem step_close (h : Rel seen y m) (i : Slot) (hint : Option Who) : StepOk seen y m (.close i) hint := by
  unfold StepOk
  simp only [sysStep]
  split
  · exact ⟨rfl, h⟩
  · rename_i hg
    simp only [Bool.or_eq_true, not_or, Bool.not_eq_true', Bool.not_eq_false] at hg
    have hu : (y.slots i).used = true := by simpa using hg.1.1.1.1
    exact ⟨rfl, rel_close h i hu⟩

end Notify.Bridge
