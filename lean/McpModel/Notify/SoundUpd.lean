import McpModel.Notify.SoundFan
/-!
# Clause soundness of the C18 monitor, part 5: ResourceUpdated ("reach exactly the sessions currently subscribed")
-/
namespace Notify.Sound
open Notify Notify.Mon Generated.Notify

/-! ### ResourceUpdated -/

/-- `r` is a ResourceUpdated(u) record whose notification names `v`, delivered to `ds` -/
def IsUpdated (r : Rec) (u v : Nat) (ds : List SDelivery) : Prop :=
  ∃ t l, r = ⟨.rupdated u v, .sent t l⟩ ∧ slotDeliveries l = some ds

def TSlot.wants (d : TSlot) (u : Nat) : Prop := d.connected = true ∧ d.subscribed u

/-- "resource-updated notifications reach exactly the sessions currently subscribed to that URI": every
subscribed session is reached … -/
def P_updReaches (tr : Trace) : Prop :=
  ∀ (i : Nat) (r : Rec) (u v : Nat) (ds : List SDelivery), tr[i]? = some r → IsUpdated r u v ds →
    ∀ j : Slot, ((truthAt tr i).slots j).wants u → ∃ x ∈ ds, x.slot = j

/-- … no other session is … -/
def P_updOnly (tr : Trace) : Prop :=
  ∀ (i : Nat) (r : Rec) (u v : Nat) (ds : List SDelivery), tr[i]? = some r → IsUpdated r u v ds →
    ∀ x ∈ ds, ((truthAt tr i).slots x.slot).wants u

/-- … and each once -/
def P_updOnce (tr : Trace) : Prop :=
  ∀ (i : Nat) (r : Rec) (u v : Nat) (ds : List SDelivery), tr[i]? = some r → IsUpdated r u v ds →
    ∀ j : Slot, (ds.filter (·.slot == j)).length ≤ 1

def P_updMethod (tr : Trace) : Prop :=
  ∀ (i : Nat) (r : Rec) (u v : Nat) (ds : List SDelivery), tr[i]? = some r → IsUpdated r u v ds → ∀ x ∈ ds, x.meth = .updated

def P_updOtherUri (tr : Trace) : Prop :=
  ∀ (i : Nat) (r : Rec) (u v : Nat) (ds : List SDelivery), tr[i]? = some r → IsUpdated r u v ds → ∀ x ∈ ds, x.hk = .uri v

def P_updLegacyStamped (tr : Trace) : Prop :=
  ∀ (i : Nat) (r : Rec) (u v : Nat) (ds : List SDelivery), tr[i]? = some r → IsUpdated r u v ds → ∀ x ∈ ds,
    ((truthAt tr i).slots x.slot).modern = false → x.stamp = .plain

/-- a 2026-07-28 subscriber gets the notification under the request id of a live listen that carries the subscription -/
def P_updBadStamp (tr : Trace) : Prop :=
  ∀ (i : Nat) (r : Rec) (u v : Nat) (ds : List SDelivery), tr[i]? = some r → IsUpdated r u v ds → ∀ x ∈ ds,
    ((truthAt tr i).slots x.slot).modern = true → ((truthAt tr i).slots x.slot).wants u →
    ∃ ls ∈ ((truthAt tr i).slots x.slot).listens, Stamp.id ls.id = x.stamp ∧ u ∈ ls.uris

theorem grantedU_truth {m : MState} {t : Truth} (hA : Agrees m t) (j : Slot) (u : Nat) :
    (m.slots j).grantedU u = true ↔ (t.slots j).subscribed u := by
  simp only [MSlot.grantedU, TSlot.subscribed, hA.modern j, hA.listens j, hA.luris j]
  split
  · simp [List.any_eq_true]
  · simp

theorem wants_truth {m : MState} {t : Truth} (hA : Agrees m t) (j : Slot) (u : Nat) :
    ((m.slots j).connected && (m.slots j).grantedU u) = true ↔ (t.slots j).wants u := by
  simp only [Bool.and_eq_true, TSlot.wants, grantedU_truth hA, hA.connected j]

theorem upd_report {tr : Trace} {r : Rec} {c : Clause} (h : Reports tr r c) (hs : srcOf c = .upd) :
    ∃ u v ds, IsUpdated r u v ds ∧
      ((∃ j, ruSlotClause (ruContent (monAfter {} tr) v) u ds j = some c) ∨
       (∃ x ∈ ds, ruDeliveryClause (ruContent (monAfter {} tr) v) u v x = some c)) := by
  obtain ⟨u, v, t, l, ds, e, hsd, hc⟩ := upd_source h hs
  exact ⟨u, v, ds, ⟨t, l, e, hsd⟩, ruCheck_some hc⟩

/-- what a per-slot clause of a ResourceUpdated record says about the slot -/
theorem ruSlotClause_some {m : MState} {u : Nat} {ds : List SDelivery} {j : Slot} {c : Clause}
    (h : ruSlotClause m u ds j = some c) :
    ((c = .updMissed ∨ c = .updAckWindow ∨ (∃ a b w, c = .lostWindow a b w .updated) ∨ (∃ o a b w, c = .lostOverlap o a b w .updated)) ∧
      ((m.slots j).connected && (m.slots j).grantedU u) = true ∧ (ds.filter (·.slot == j)).length = 0) ∨
    ((c = .updRefused ∨ c = .updNotSubscribed) ∧ ((m.slots j).connected && (m.slots j).grantedU u) = false ∧
      (ds.filter (·.slot == j)).length > 0) ∨
    (c = .updTwice ∧ (ds.filter (·.slot == j)).length > 1) := by
  simp only [ruSlotClause] at h
  split at h
  · rename_i hc
    simp only [Bool.and_eq_true, beq_iff_eq] at hc
    left
    refine ⟨?_, by simpa using hc.1, hc.2⟩
    split at h
    · rename_i c' hl
      simp only [Option.some.injEq] at h
      subst h
      simp only [MSlot.lostClause] at hl
      split at hl
      · simp at hl
      · split at hl
        · simp only [Option.some.injEq] at hl; exact Or.inr (Or.inr (Or.inl ⟨_, _, _, hl.symm⟩))
        · simp only [Option.some.injEq] at hl; exact Or.inr (Or.inr (Or.inr ⟨_, _, _, _, hl.symm⟩))
    · split at h
      · simp only [Option.some.injEq] at h; exact Or.inr (Or.inl h.symm)
      · simp only [Option.some.injEq] at h; exact Or.inl h.symm
  · rename_i hc
    split at h
    · rename_i hc2
      simp only [Bool.and_eq_true, Bool.not_eq_true', decide_eq_true_eq] at hc2
      right; left
      refine ⟨?_, hc2.1, hc2.2⟩
      split at h
      · simp only [Option.some.injEq] at h; exact Or.inl h.symm
      · simp only [Option.some.injEq] at h; exact Or.inr h.symm
    · split at h
      · rename_i hc3
        simp only [Option.some.injEq] at h
        right; right
        exact ⟨h.symm, by simpa using hc3⟩
      · simp at h


theorem ruDeliveryClause_some {m : MState} {u v : Nat} {x : SDelivery} {c : Clause}
    (h : ruDeliveryClause m u v x = some c) :
    (c = .updMethod ∧ x.meth ≠ .updated) ∨ (c = .updOtherUri ∧ x.hk ≠ .uri v) ∨
    (c = .updLegacyStamped ∧ (m.slots x.slot).modern = false ∧ x.stamp ≠ .plain) ∨
    (c = .updBadStamp ∧ (m.slots x.slot).modern = true ∧
      (m.slots x.slot).listens.any (fun l => Stamp.id l.id == x.stamp && l.uris.contains u) = false ∧
      ((m.slots x.slot).refusedUris.contains u = false ∨ (m.slots x.slot).grantedU u = true)) := by
  simp only [ruDeliveryClause] at h
  split at h
  · rename_i h1; simp only [Option.some.injEq] at h; exact Or.inl ⟨h.symm, by simpa using h1⟩
  · split at h
    · rename_i h2; simp only [Option.some.injEq] at h; exact Or.inr (Or.inl ⟨h.symm, by simpa using h2⟩)
    · split at h
      · rename_i h3
        simp only [Bool.and_eq_true, Bool.not_eq_true', bne_iff_ne, ne_eq] at h3
        simp only [Option.some.injEq] at h
        exact Or.inr (Or.inr (Or.inl ⟨h.symm, h3.1, h3.2⟩))
      · split at h
        · rename_i h4
          simp only [Bool.and_eq_true, Bool.not_eq_true'] at h4
          split at h
          · simp at h
          · rename_i h5
            simp only [Bool.and_eq_true, Bool.not_eq_true', not_and, Bool.not_eq_false] at h5
            simp only [Option.some.injEq] at h
            refine Or.inr (Or.inr (Or.inr ⟨h.symm, h4.1, h4.2, ?_⟩))
            cases hr : (m.slots x.slot).refusedUris.contains u
            · exact Or.inl rfl
            · exact Or.inr (h5 hr)
        · simp at h

theorem sound_updReaches (tr : Trace) (r : Rec) (c : Clause) (h : Reports tr r c)
    (hc : c = .updMissed ∨ c = .updAckWindow ∨ (∃ a b w, c = .lostWindow a b w .updated) ∨ (∃ o a b w, c = .lostOverlap o a b w .updated)) :
    ¬ P_updReaches (tr ++ [r]) := by
  intro hP
  have hA := monAfter_truth tr
  have hs : srcOf c = .upd := by
    rcases hc with e | e | ⟨_, _, _, e⟩ | ⟨_, _, _, _, e⟩ <;> rw [e] <;> rfl
  obtain ⟨u, v, ds, hf, hor⟩ := upd_report h hs
  rcases hor with ⟨j, hj⟩ | ⟨x, _, hx⟩
  · rcases ruSlotClause_some hj with ⟨_, hw, hn⟩ | ⟨he, _⟩ | ⟨he, _⟩
    · have hw' : (((monAfter {} tr).slots j).connected && ((monAfter {} tr).slots j).grantedU u) = true := hw
      obtain ⟨x, hx, e⟩ := hP tr.length r u v ds (get_snoc_len tr r) hf j (by
        rw [truthAt_snoc_len]; exact (wants_truth hA j u).1 hw')
      have : x ∈ ds.filter (·.slot == j) := List.mem_filter.2 ⟨hx, by simp [e]⟩
      rw [List.length_eq_zero_iff.1 hn] at this
      simp at this
    · rcases hc with e | e | ⟨_, _, _, e⟩ | ⟨_, _, _, _, e⟩ <;> rcases he with e2 | e2 <;> rw [e] at e2 <;> cases e2
    · rcases hc with e | e | ⟨_, _, _, e⟩ | ⟨_, _, _, _, e⟩ <;> rw [e] at he <;> cases he
  · rcases ruDeliveryClause_some hx with ⟨he, _⟩ | ⟨he, _⟩ | ⟨he, _⟩ | ⟨he, _⟩ <;>
      (rcases hc with e | e | ⟨_, _, _, e⟩ | ⟨_, _, _, _, e⟩ <;> rw [e] at he <;> cases he)

theorem sound_updMissed (tr : Trace) (r : Rec) (h : Reports tr r .updMissed) : ¬ P_updReaches (tr ++ [r]) :=
  sound_updReaches tr r _ h (Or.inl rfl)

theorem sound_updAckWindow (tr : Trace) (r : Rec) (h : Reports tr r .updAckWindow) : ¬ P_updReaches (tr ++ [r]) :=
  sound_updReaches tr r _ h (Or.inr (Or.inl rfl))

theorem sound_lostWindow_updated (tr : Trace) (r : Rec) (a b : Nat) (w : What) (h : Reports tr r (.lostWindow a b w .updated)) :
    ¬ P_updReaches (tr ++ [r]) :=
  sound_updReaches tr r _ h (Or.inr (Or.inr (Or.inl ⟨a, b, w, rfl⟩)))

theorem sound_lostOverlap_updated (tr : Trace) (r : Rec) (o : Bool) (a b : Nat) (w : What)
    (h : Reports tr r (.lostOverlap o a b w .updated)) : ¬ P_updReaches (tr ++ [r]) :=
  sound_updReaches tr r _ h (Or.inr (Or.inr (Or.inr ⟨o, a, b, w, rfl⟩)))

theorem sound_updOnly (tr : Trace) (r : Rec) (c : Clause) (h : Reports tr r c) (hc : c = .updRefused ∨ c = .updNotSubscribed) :
    ¬ P_updOnly (tr ++ [r]) := by
  intro hP
  have hA := monAfter_truth tr
  have hs : srcOf c = .upd := by rcases hc with e | e <;> rw [e] <;> rfl
  obtain ⟨u, v, ds, hf, hor⟩ := upd_report h hs
  rcases hor with ⟨j, hj⟩ | ⟨x, _, hx⟩
  · rcases ruSlotClause_some hj with ⟨he, _⟩ | ⟨_, hw, hn⟩ | ⟨he, _⟩
    · rcases hc with e | e <;> rw [e] at he <;> rcases he with e2 | e2 | ⟨_, _, _, e2⟩ | ⟨_, _, _, _, e2⟩ <;> cases e2
    · obtain ⟨x, hx⟩ := List.exists_mem_of_length_pos hn
      obtain ⟨hx1, hx2⟩ := List.mem_filter.1 hx
      have hsl : x.slot = j := by simpa using hx2
      have := hP tr.length r u v ds (get_snoc_len tr r) hf x hx1
      rw [truthAt_snoc_len, hsl] at this
      have hw' : (((monAfter {} tr).slots j).connected && ((monAfter {} tr).slots j).grantedU u) = false := hw
      rw [(wants_truth hA j u).2 this] at hw'
      exact absurd hw' (by simp)
    · rcases hc with e | e <;> rw [e] at he <;> cases he
  · rcases ruDeliveryClause_some hx with ⟨he, _⟩ | ⟨he, _⟩ | ⟨he, _⟩ | ⟨he, _⟩ <;>
      (rcases hc with e | e <;> rw [e] at he <;> cases he)

theorem sound_updRefused (tr : Trace) (r : Rec) (h : Reports tr r .updRefused) : ¬ P_updOnly (tr ++ [r]) :=
  sound_updOnly tr r _ h (Or.inl rfl)

theorem sound_updNotSubscribed (tr : Trace) (r : Rec) (h : Reports tr r .updNotSubscribed) : ¬ P_updOnly (tr ++ [r]) :=
  sound_updOnly tr r _ h (Or.inr rfl)

theorem sound_updTwice (tr : Trace) (r : Rec) (h : Reports tr r .updTwice) : ¬ P_updOnce (tr ++ [r]) := by
  intro hP
  obtain ⟨u, v, ds, hf, hor⟩ := upd_report h rfl
  rcases hor with ⟨j, hj⟩ | ⟨x, _, hx⟩
  · rcases ruSlotClause_some hj with ⟨he, _⟩ | ⟨he, _⟩ | ⟨_, hn⟩
    · rcases he with e2 | e2 | ⟨_, _, _, e2⟩ | ⟨_, _, _, _, e2⟩ <;> cases e2
    · rcases he with e2 | e2 <;> cases e2
    · have := hP tr.length r u v ds (get_snoc_len tr r) hf j
      omega
  · rcases ruDeliveryClause_some hx with ⟨he, _⟩ | ⟨he, _⟩ | ⟨he, _⟩ | ⟨he, _⟩ <;> cases he

/-- a per-delivery clause of a ResourceUpdated record -/
theorem upd_delivery {tr : Trace} {r : Rec} {c : Clause} (h : Reports tr r c) (hs : srcOf c = .upd)
    (hns : ∀ m u ds j, ruSlotClause m u ds j ≠ some c) :
    ∃ u v ds x, IsUpdated r u v ds ∧ x ∈ ds ∧ ruDeliveryClause (ruContent (monAfter {} tr) v) u v x = some c := by
  obtain ⟨u, v, ds, hf, hor⟩ := upd_report h hs
  rcases hor with ⟨j, hj⟩ | ⟨x, hx, hxc⟩
  · exact absurd hj (hns _ _ _ _)
  · exact ⟨u, v, ds, x, hf, hx, hxc⟩

theorem slot_not (c : Clause) (hc : c = .updMethod ∨ c = .updOtherUri ∨ c = .updLegacyStamped ∨ c = .updBadStamp)
    (m : MState) (u : Nat) (ds : List SDelivery) (j : Slot) : ruSlotClause m u ds j ≠ some c := by
  intro h
  rcases ruSlotClause_some h with ⟨he, _⟩ | ⟨he, _⟩ | ⟨he, _⟩
  · rcases hc with e | e | e | e <;> rw [e] at he <;> rcases he with e2 | e2 | ⟨_, _, _, e2⟩ | ⟨_, _, _, _, e2⟩ <;> cases e2
  · rcases hc with e | e | e | e <;> rw [e] at he <;> rcases he with e2 | e2 <;> cases e2
  · rcases hc with e | e | e | e <;> rw [e] at he <;> cases he

theorem sound_updMethod (tr : Trace) (r : Rec) (h : Reports tr r .updMethod) : ¬ P_updMethod (tr ++ [r]) := by
  intro hP
  obtain ⟨u, v, ds, x, hf, hx, hc⟩ := upd_delivery h rfl (slot_not _ (Or.inl rfl))
  have := hP tr.length r u v ds (get_snoc_len tr r) hf x hx
  rcases ruDeliveryClause_some hc with ⟨_, hne⟩ | ⟨he, _⟩ | ⟨he, _⟩ | ⟨he, _⟩ <;> first | exact hne this | cases he

theorem sound_updOtherUri (tr : Trace) (r : Rec) (h : Reports tr r .updOtherUri) : ¬ P_updOtherUri (tr ++ [r]) := by
  intro hP
  obtain ⟨u, v, ds, x, hf, hx, hc⟩ := upd_delivery h rfl (slot_not _ (Or.inr (Or.inl rfl)))
  have := hP tr.length r u v ds (get_snoc_len tr r) hf x hx
  rcases ruDeliveryClause_some hc with ⟨he, _⟩ | ⟨_, hne⟩ | ⟨he, _⟩ | ⟨he, _⟩ <;> first | exact hne this | cases he

theorem sound_updLegacyStamped (tr : Trace) (r : Rec) (h : Reports tr r .updLegacyStamped) : ¬ P_updLegacyStamped (tr ++ [r]) := by
  intro hP
  have hA := monAfter_truth tr
  obtain ⟨u, v, ds, x, hf, hx, hc⟩ := upd_delivery h rfl (slot_not _ (Or.inr (Or.inr (Or.inl rfl))))
  have := hP tr.length r u v ds (get_snoc_len tr r) hf x hx
  rw [truthAt_snoc_len, ← hA.modern] at this
  rcases ruDeliveryClause_some hc with ⟨he, _⟩ | ⟨he, _⟩ | ⟨_, h1, h2⟩ | ⟨he, _⟩ <;> first | exact h2 (this h1) | cases he

theorem ru_updBadStamp {m : MState} {u v : Nat} {x : SDelivery} (h : ruDeliveryClause m u v x = some .updBadStamp) :
    (m.slots x.slot).modern = true ∧
      (m.slots x.slot).listens.any (fun l => Stamp.id l.id == x.stamp && l.uris.contains u) = false := by
  rcases ruDeliveryClause_some h with ⟨he, _⟩ | ⟨he, _⟩ | ⟨he, _⟩ | ⟨_, h1, h2, _⟩ <;> first | exact ⟨h1, h2⟩ | cases he

theorem sound_updBadStamp (tr : Trace) (r : Rec) (h : Reports tr r .updBadStamp) :
    ¬ (P_updBadStamp (tr ++ [r]) ∧ P_updOnly (tr ++ [r])) := by
  rintro ⟨hP, hO⟩
  have hA := monAfter_truth tr
  obtain ⟨u, v, ds, x, hf, hx, hc⟩ := upd_delivery h rfl (slot_not _ (Or.inr (Or.inr (Or.inr rfl))))
  have hw := hO tr.length r u v ds (get_snoc_len tr r) hf x hx
  have := hP tr.length r u v ds (get_snoc_len tr r) hf x hx
  rw [truthAt_snoc_len] at hw this
  rw [← hA.modern] at this
  obtain ⟨h1, h2⟩ := ru_updBadStamp hc
  obtain ⟨ls, hls, hst, hk⟩ := this h1 hw
  rw [← hA.listens] at hls
  rw [List.any_eq_false] at h2
  have := h2 ls hls
  simp [hst, hk] at this

end Notify.Sound
