import McpModel.Notify.BridgeSrv
/-!
# Bridge, part 2b: congruence of the component relations, and the fan-out of one notification
-/
namespace Notify.Bridge
open Notify Notify.Mon Notify.Sys Generated.Notify

/-! ### congruence: a component only reads some fields of the slots -/

theorem RelSess.congr {ss : List (Nat × Gen)} {slots slots' : Slot → DSlot} {ms ms' : Slot → MSlot}
    (h : RelSess ss slots ms)
    (e1 : ∀ i, (slots' i).used = (slots i).used) (e2 : ∀ i, (slots' i).sid = (slots i).sid)
    (e3 : ∀ i, (slots' i).modern = (slots i).modern) (e4 : ∀ i, (slots' i).connected = (slots i).connected)
    (e5 : ∀ i, (slots' i).gated = (slots i).gated)
    (m1 : ∀ i, (ms' i).connected = (ms i).connected) (m2 : ∀ i, (ms' i).modern = (ms i).modern) :
    RelSess ss slots' ms' := by
  constructor
  · intro i hu; rw [e1] at hu; rw [e2, e3]; exact h.used_sess i hu
  · intro p hp; obtain ⟨i, hu, hs⟩ := h.sess_used p hp; exact ⟨i, by rw [e1]; exact hu, by rw [e2]; exact hs⟩
  · intro i j hi hj hs; rw [e1] at hi hj; rw [e2, e2] at hs; exact h.sid_inj i j hi hj hs
  · intro i; rw [m1, e1]; exact h.conn i
  · intro i hu; rw [e1] at hu; rw [m2, e3]; exact h.modern i hu
  · intro i hu; rw [e1] at hu; rw [e4, e5]; exact h.gated i hu
  · intro i hu hg; rw [e1] at hu; rw [e5] at hg; rw [e3]; exact h.gated_modern i hu hg

theorem RelListen.congr {s : Server} {slots slots' : Slot → DSlot} {ms ms' : Slot → MSlot}
    (h : RelListen s slots ms)
    (e1 : ∀ i, (slots' i).used = (slots i).used) (e2 : ∀ i, (slots' i).sid = (slots i).sid)
    (e3 : ∀ i, (slots' i).modern = (slots i).modern)
    (e4 : ∀ i u, (u ∈ (slots i).rsubs ∨ ridOf u ∈ (slots i).cancelHeld) →
      (u ∈ (slots' i).rsubs ∨ ridOf u ∈ (slots' i).cancelHeld))
    (e6 : ∀ i, (slots' i).gated = (slots i).gated)
    (m1 : ∀ i, (ms' i).listens = (ms i).listens) (m2 : ∀ i, (ms' i).luris = (ms i).luris)
    (m3 : ∀ i, (ms i).owed = [] → (ms' i).owed = []) :
    RelListen s slots' ms' := by
  constructor
  · exact h.all_acked
  · intro i hu ml; rw [e1] at hu; rw [m1, e2]; exact h.listens i hu ml
  · intro i hu hm u; rw [e1] at hu; rw [e3] at hm; rw [m2, e2]; exact h.luris i hu hm u
  · intro i hu u hl; rw [e1] at hu; rw [e2] at hl; exact e4 i u (h.sub_live i hu u hl)
  · intro i hu hg; rw [e1] at hu; rw [e6] at hg; rw [e2]; exact h.gated_none i hu hg
  · intro i hu; rw [e1] at hu
    have := h.idle i hu
    exact ⟨by rw [m1]; exact this.listens, by rw [m2]; exact this.luris, m3 i this.owed⟩

theorem RelOwed.congr {owed : List (Nat × Kind)} {infl : Kind → List Send} {slots slots' : Slot → DSlot}
    {ms ms' : Slot → MSlot} (h : RelOwed owed infl slots ms)
    (e1 : ∀ i, (slots' i).used = (slots i).used) (e2 : ∀ i, (slots' i).sid = (slots i).sid)
    (m1 : ∀ i, (ms' i).owed = (ms i).owed) : RelOwed owed infl slots' ms' := by
  intro i k hk
  rw [m1] at hk
  rw [e1, e2]
  exact h i k hk

theorem FanOk.congr {infl : List Send} {slots slots' : Slot → DSlot} {fan : MFan} (h : FanOk infl slots fan)
    (e1 : ∀ i, (slots' i).used = (slots i).used) (e2 : ∀ i, (slots' i).sid = (slots i).sid)
    (e3 : ∀ i, (slots' i).modern = (slots i).modern) : FanOk infl slots' fan := by
  refine ⟨h.nodup, ?_⟩
  intro x hx i hu hs
  rw [e1] at hu; rw [e2] at hs; rw [e3]
  exact h.exp x hx i hu hs

theorem RelFan.congr {infl : Kind → List Send} {slots slots' : Slot → DSlot} {fans : Kind → Option MFan}
    (h : RelFan infl slots fans)
    (e1 : ∀ i, (slots' i).used = (slots i).used) (e2 : ∀ i, (slots' i).sid = (slots i).sid)
    (e3 : ∀ i, (slots' i).modern = (slots i).modern) : RelFan infl slots' fans :=
  ⟨h.some_of, fun k fan hf => (h.ok k fan hf).congr e1 e2 e3⟩

theorem CacheRel.congr {cur : Key → Nat} {d d' : DSlot} {md md' : MSlot} (h : CacheRel cur d md)
    (e1 : d'.modern = d.modern) (e2 : d'.caches = d.caches) (e3 : d'.held = d.held)
    (m1 : md'.maxHandled = md.maxHandled) (m2 : md'.invalidated = md.invalidated) (m3 : md'.starts = md.starts) :
    CacheRel cur d' md' := by
  constructor
  · rw [e1, e2]; exact h.inv
  · rw [e1, e2]; exact h.srv
  · rw [e1, e2, m1]; exact h.handled
  · rw [e1, e2, m2]; exact h.inval
  · rw [e1, e2]; exact h.inbox
  · rw [e2, e3]; exact h.held_fill
  · rw [e2]; exact h.fill_uniq
  · rw [e1, e2, m3]; exact h.starts
  · rw [m1]; exact h.maxH_le
  · rw [e1, e2, m3]; exact h.leg_fill

theorem RelCache.congr {cur : Key → Nat} {slots slots' : Slot → DSlot} {ms ms' : Slot → MSlot}
    (h : RelCache cur slots ms)
    (e0 : ∀ i, (slots' i).used = (slots i).used)
    (e1 : ∀ i, (slots' i).modern = (slots i).modern) (e2 : ∀ i, (slots' i).caches = (slots i).caches)
    (e3 : ∀ i, (slots' i).held = (slots i).held)
    (m1 : ∀ i, (ms' i).maxHandled = (ms i).maxHandled) (m2 : ∀ i, (ms' i).invalidated = (ms i).invalidated)
    (m3 : ∀ i, (ms' i).starts = (ms i).starts) : RelCache cur slots' ms' := by
  intro i hu
  rw [e0] at hu
  exact (h i hu).congr (e1 i) (e2 i) (e3 i) (m1 i) (m2 i) (m3 i)

/-! ### sessions and slots -/

theorem Rel.srvOk {seen : List Nat} {y : State} {m : MState} (h : Rel seen y m) : SrvOk y.srv := h.reach

/-- the session of a used slot, with its generation -/
theorem RelSess.gen_of {ss : List (Nat × Gen)} {slots : Slot → DSlot} {ms : Slot → MSlot} (h : RelSess ss slots ms)
    (hnd : (ss.map Prod.fst).Nodup) {i : Slot} (hu : (slots i).used = true) {g : Gen}
    (hg : ((slots i).sid, g) ∈ ss) : g = genB (slots i).modern :=
  gen_unique hnd hg (h.used_sess i hu)

/-- every session of the server is the session of a used slot, with that slot's generation -/
theorem RelSess.slot_of {ss : List (Nat × Gen)} {slots : Slot → DSlot} {ms : Slot → MSlot} (h : RelSess ss slots ms)
    (hnd : (ss.map Prod.fst).Nodup) {sid : Nat} {g : Gen} (hg : (sid, g) ∈ ss) :
    ∃ i, (slots i).used = true ∧ (slots i).sid = sid ∧ g = genB (slots i).modern := by
  obtain ⟨i, hu, hs⟩ := h.sess_used _ hg
  simp only [] at hs
  refine ⟨i, hu, hs, ?_⟩
  subst hs
  exact h.gen_of hnd hu hg

theorem genB_ne_modern {b : Bool} : genB b ≠ Gen.modern ↔ b = false := by
  cases b <;> simp [genB]

theorem genB_eq_modern {b : Bool} : genB b = Gen.modern ↔ b = true := by
  cases b <;> simp [genB]

theorem genB_eq_legacy {b : Bool} : genB b = Gen.legacy ↔ b = false := by
  cases b <;> simp [genB]

/-! ### the fan-out of one notification -/

/-- slots keep their identity -/
def KeepsId (handle : DSlot → DSlot) : Prop :=
  ∀ d, (handle d).used = d.used ∧ (handle d).sid = d.sid

theorem slotOfSid_congr {y y' : State} (e1 : ∀ i, (y'.slots i).used = (y.slots i).used)
    (e2 : ∀ i, (y'.slots i).sid = (y.slots i).sid) (sid : Nat) : slotOfSid y' sid = slotOfSid y sid := by
  unfold slotOfSid
  congr 1
  funext i
  rw [e1, e2]

theorem deliverAll_acc (handle : DSlot → DSlot) (mk : Who → DSlot → Send → Delivery) (to : List Send) :
    ∀ (y : State) (acc : List Delivery),
      to.foldl (deliverOne handle mk) (y, acc)
      = ((deliverAll handle mk y to).1, acc ++ (deliverAll handle mk y to).2) := by
  induction to with
  | nil => intro y acc; simp [deliverAll]
  | cons x t ih =>
    intro y acc
    simp only [deliverAll, List.foldl_cons]
    cases hs : slotOfSid y x.sid with
    | none =>
      simp only [deliverOne, hs]
      rw [ih, ih y ([] ++ _)]
      simp
    | some i =>
      simp only [deliverOne, hs]
      rw [ih, ih _ ([] ++ _)]
      simp

theorem deliverAll_cons (handle : DSlot → DSlot) (mk : Who → DSlot → Send → Delivery) (y : State) (x : Send)
    (t : List Send) :
    deliverAll handle mk y (x :: t) =
      match slotOfSid y x.sid with
      | none => ((deliverAll handle mk y t).1, mk (.closed x.sid) {} x :: (deliverAll handle mk y t).2)
      | some i =>
        ((deliverAll handle mk (y.setSlot i (handle (y.slots i))) t).1,
         mk (.slot i) (y.slots i) x :: (deliverAll handle mk (y.setSlot i (handle (y.slots i))) t).2) := by
  conv => lhs; unfold deliverAll
  simp only [List.foldl_cons]
  cases hs : slotOfSid y x.sid with
  | none => simp only [deliverOne, hs]; rw [deliverAll_acc]; simp
  | some i => simp only [deliverOne, hs]; rw [deliverAll_acc]; simp

/-- What a fan-out to `to` does when every recipient has a slot and no session is written to twice: the
non-slot part of the state is untouched, exactly the recipients' clients handle the notification, and
the deliveries are the recipients in order. -/
theorem deliverAll_spec (handle : DSlot → DSlot) (mk : Who → DSlot → Send → Delivery) (hk : KeepsId handle)
    (to : List Send) : ∀ (y : State),
    (∀ i j, (y.slots i).used = true → (y.slots j).used = true → (y.slots i).sid = (y.slots j).sid → i = j) →
    (∀ x ∈ to, ∃ i, (y.slots i).used = true ∧ (y.slots i).sid = x.sid) →
    (to.map Send.sid).Nodup →
    let r := deliverAll handle mk y to
    r.1.srv = y.srv ∧ r.1.content = y.content ∧ r.1.hook = y.hook ∧ r.1.ttl = y.ttl ∧ r.1.refused = y.refused ∧
    (∀ i, r.1.slots i = if (y.slots i).used = true ∧ (y.slots i).sid ∈ to.map Send.sid then handle (y.slots i) else y.slots i) ∧
    r.2 = to.map (fun x => match slotOfSid y x.sid with
      | none => mk (.closed x.sid) {} x
      | some i => mk (.slot i) (y.slots i) x) := by
  induction to with
  | nil => intro y _ _ _; simp [deliverAll]
  | cons x t ih =>
    intro y hinj hslot hnd
    obtain ⟨i, hu, hs⟩ := hslot x List.mem_cons_self
    have hfind : slotOfSid y x.sid = some i := by
      have key : ∀ j : Slot, ((y.slots j).used && (y.slots j).sid == x.sid) = true → j = i := by
        intro j hj
        simp at hj
        exact hinj j i hj.1 hu (by rw [hj.2, hs])
      unfold slotOfSid
      cases hf : Slot.all.find? (fun i => (y.slots i).used && (y.slots i).sid == x.sid) with
      | some j =>
        have hp := List.find?_some hf
        rw [key j hp]
      | none =>
        rw [List.find?_eq_none] at hf
        have := hf i (Slot.mem_all i)
        simp [hu, hs] at this
    simp only [List.map_cons, List.nodup_cons] at hnd
    have e1 : ∀ j, ((y.setSlot i (handle (y.slots i))).slots j).used = (y.slots j).used := by
      intro j; simp only [setSlot_slots]; split
      · rename_i e; subst e; exact (hk _).1
      · rfl
    have e2 : ∀ j, ((y.setSlot i (handle (y.slots i))).slots j).sid = (y.slots j).sid := by
      intro j; simp only [setSlot_slots]; split
      · rename_i e; subst e; exact (hk _).2
      · rfl
    have ih1 := ih (y.setSlot i (handle (y.slots i)))
      (by intro a b ha hb hab; rw [e1] at ha hb; rw [e2, e2] at hab; exact hinj a b ha hb hab)
      (by intro z hz; obtain ⟨j, hj1, hj2⟩ := hslot z (List.mem_cons_of_mem _ hz)
          exact ⟨j, by rw [e1]; exact hj1, by rw [e2]; exact hj2⟩)
      hnd.2
    simp only [] at ih1 ⊢
    rw [deliverAll_cons, hfind]
    simp only []
    obtain ⟨h1, h2, h3, h4, h5, h6, h7⟩ := ih1
    refine ⟨h1, h2, h3, h4, h5, ?_, ?_⟩
    · intro j
      rw [h6 j, e1, e2]
      simp only [setSlot_slots, List.map_cons, List.mem_cons]
      by_cases hji : j = i
      · subst hji
        simp [hu, hs]
        intro z hz e
        exact absurd (List.mem_map.2 ⟨z, hz, e⟩) hnd.1
      · have hne : (y.slots j).used = true → (y.slots j).sid ≠ x.sid := by
          intro hj e; exact hji (hinj j i hj hu (by rw [e, hs]))
        by_cases hj : (y.slots j).used = true
        · simp [hji, hj, hne hj]
        · simp [hji, hj]
    · rw [h7]
      simp only [List.map_cons, hfind]
      congr 1
      apply List.map_congr_left
      intro z hz
      rw [slotOfSid_congr e1 e2]
      cases hz' : slotOfSid y z.sid with
      | none => rfl
      | some j =>
        simp only []
        have hj := slotOfSid_spec hz'
        have hji : j ≠ i := by
          intro e; subst e
          apply hnd.1
          rw [List.mem_map]
          exact ⟨z, hz, by rw [← hj.2, hs]⟩
        simp [setSlot_slots, hji]

end Notify.Bridge
