import McpModel.Base.Proto
import McpModel.Notify.System
import McpModel.Notify.Roots
import McpModel.Notify.Pages
/-!
Driver for E14 (C18): the STRING LAYER only.  It parses the harness's op tokens and the implementation's
observation into the typed records of `Monitor.lean` (`Mon.Op`, `Mon.Obs`), replays the op on the typed
composed model (`Sys.sysStep`, System.lean) and renders the predicted observation, runs the typed C18
monitor (`Mon.monStep`, Monitor.lean) on the IMPLEMENTATION's observation and renders the clause it
returns (`clauseText`).  Neither the model nor the monitor lives here.

Listen names and request ids: `m` (connect-time listen) = 0, `r<j>` (`ClientSession.Subscribe(u<j>)`) = 2j+1,
`L<n>` (raw listen opened by `xlisten`) = 2n+2 (`parseName` / `nameStr` are inverse bijections).  Any number
of them may be open on one session and be granted the same kinds / URI; they end in any order (`xend`,
`unsubscribe`).

`listen` / `subscribe` / `xlisten` of a 2026-07-28 session are the model labels `listen` (registration section)
and `listenAck` (acknowledgement write) back to back — the harness has no schedule point between
them.  With `hold` the server goroutine that runs the handler is parked right after the write of the
acknowledgement returned (the client has it) until `ackdone`: every other op can be placed in that
window.  In the model nothing is left to do for the handler there (`ackdone` is a no-op); a tree that
registers after acknowledging shows up in the window.

Op grammar (one label per record; observation after `=>`):
  config <capT> <capP> <capR> <hook0|hook1>      => ok          caps: unset|on|off
  config <capT> <capP> <on|off> <hook0|hook1> nohandlers => ok    (ServerOptions without Subscribe/UnsubscribeHandler, explicit capabilities with resources.subscribe: every resources/subscribe, resources/unsubscribe and every URI of a subscriptions/listen fails; = the application refuses u0…u7 from the start)
  ttl <ms>                                         => ok
  change <tools|prompts|resources|templates> <add|replace|remove|noop>  => ok
  change <set> rm <p|a|d>+                         => ok          (ONE Remove*(names…) call: p a registered feature, a a never-registered name, d a name named before in the call)
  advance <ms>                                     => hook1: `fired <kinds…>` ; hook0: ok (the harness then emits the cbrun records itself)
  cbrun <kind>                                     => sent@<t> c<slot>:<method>:<stamp>:<handler>…   | none
  cbrun <kind> step                                => fan open | fan done | none    (the callback takes its snapshot; its fan-out loop is then held before every write)
  fsend <kind>                                     => <c<i>|x<sid>> sent@<t> [c<i>:<method>:<stamp>:<handler>] more|done   (the write the held fan-out is blocked in goes on; the first token says whom it is addressed to — the loop's order over a Go map is not determined, the model follows it)
  policy u<j> refuse|accept                        => ok          (what ServerOptions.SubscribeHandler answers for that URI from now on)
  canceldone c<i> <m|r<j>|L<n>>                    => ok          (the held notifications/cancelled of that listen is written; its handler ends)
  connect c<i> <sid> legacy|modern <mask>          => ok | ok listen-held
  listen c<i> [hold]                               => ack <kinds|-> [parked]
  subscribe c<i> u<j> [hold] / unsubscribe c<i> u<j>  => ok | noop | ack - u<j> [parked]
  xlisten c<i> L<n> <mask|-> u<j>… [hold]          => ack <kinds|-> u<j>… [parked] | noack   (a further, raw subscriptions/listen of a connected 2026-07-28 session: any kinds and any number of distinct URIs; noack: the SubscribeHandler refused one of them)
  xend c<i> <m|L<n>> [hold]                        => ok | ok cancel-held   (that listen is cancelled and its handler has ended; r<j> ends through unsubscribe; hold: the client's notifications/cancelled is held in its transport until `canceldone`)
  unsubscribe c<i> u<j> hold                       => ok cancel-held   (2026-07-28: ClientSession.Unsubscribe has returned — cs.resourceSubs no longer has the URI —, the cancellation is held)
  xend c<i> L<n> park / unsubscribe c<i> u<j> park => ok unsub-held    (the stream has ended on the server; its clean-up is parked in the application's UnsubscribeHandler, before its first critical section, until `unsubdone`)
  unsubdone c<i> <r<j>|L<n>>                       => ok          (that UnsubscribeHandler call returns; the clean-up runs)
  ackdone c<i> <m|r<j>|L<n>>                       => ok          (the handler held right after its ack write goes on)
  close c<i> [drop]                                => ok          (drop: the connection is cut under the client — no notifications/cancelled for its open listens, no orderly ClientSession.Close: the server reads EOF, the connection cancels the parked handlers, their clean-up runs, then Server.disconnect; the same label `close` of the model)
  rupdated u<j> [names u<k>]                       => sent@<t> …   (names: the notification the subscribers of u<j> get names u<k>, whose content changed)
  list c<i> <tools|prompts|resources|templates|read:j> <n|post|pre>  => ret v<N> hit|miss | held v<N> | pre
  send c<i> <key> => held v<N> ;  fill c<i> <key> => ret v<N> miss
  tables                                           => T[..] P[..] R[..] U0[..] U1[..] U2[..] S[..]
  end                                              => ok
-/
namespace Notify.Drv
open Proto Generated.Notify Notify.Mon

/-! ### tokens → typed records -/

def kindLetter : Kind → String
  | .tools => "t" | .prompts => "p" | .resources => "r"

def parseCap : String → Option Cap
  | "unset" => some .unset | "on" => some .on | "off" => some .off | _ => none

def parseKind : String → Option Kind
  | "tools" => some .tools | "prompts" => some .prompts | "resources" => some .resources | _ => none

def parseFSet : String → Option FSet
  | "tools" => some .tools | "prompts" => some .prompts | "resources" => some .resources
  | "templates" => some .templates | _ => none

def parseEff : String → Option Eff
  | "add" => some .add | "replace" => some .replace | "remove" => some .remove | "noop" => some .noop | _ => none

/-- the names of one `Remove*(names…)` call: `p` a registered feature (not named before in the call), `a` a name
that was never registered, `d` a name already named in the call (gone when the loop reaches it) -/
def parseNames (pat : String) : Option (List NameAt) :=
  pat.toList.mapM (fun c => if c == 'p' then some NameAt.present else if c == 'a' || c == 'd' then some NameAt.absent else none)

def parseMask (m : String) : List Kind :=
  Kind.all.filter (fun k => m.toList.contains ((kindLetter k).toList.getD 0 '?'))

def parseSlot (s : String) : Option Slot :=
  match s.toList with
  | ['c', '0'] => some 0
  | ['c', '1'] => some 1
  | ['c', '2'] => some 2
  | _ => none

def parseUri (s : String) : Option Nat :=
  if s.startsWith "u" then (s.drop 1).toNat? else none

/-- `tools` … `read:1` -/
def parseKey (s : String) : Option Key :=
  match parseFSet s with
  | some f => some (.list f)
  | none => if s.startsWith "read:" then (s.drop 5).toNat?.map Key.read else none

def parseMode : String → Option Mode
  | "n" => some .n | "post" => some .post | "pre" => some .pre | _ => none

/-- `m` ↦ 0, `r<j>` ↦ 2j+1, `L<n>` ↦ 2n+2. -/
def parseName (s : String) : Option Nat :=
  if s == "m" then some 0
  else if s.startsWith "r" then (s.drop 1).toNat?.map (fun j => 2 * j + 1)
  else if s.startsWith "L" then (s.drop 1).toNat?.map (fun n => 2 * n + 2)
  else none

def nameStr (id : Nat) : String :=
  if id == 0 then "m" else if id % 2 == 1 then s!"r{(id - 1) / 2}" else s!"L{(id - 2) / 2}"

def holdTok : List String → Option Bool
  | [] => some false
  | ["hold"] => some true
  | _ => none

def parseOp (toks : List String) : Op :=
  ((match toks with
   | ["config", a, b, c, h] => do some (Op.config (← parseCap a) (← parseCap b) (← parseCap c) (h == "hook1"))
   | ["ttl", n] => n.toNat?.map Op.ttl
   | ["change", f, e] => do some (Op.change (← parseFSet f) (← parseEff e))
   | ["change", f, "rm", pat] => do some (Op.change (← parseFSet f) (removeEff (← parseNames pat)))
   | ["advance", d] => d.toNat?.map Op.advance
   | ["cbrun", k] => (parseKind k).map Op.cbrun
   | ["cbrun", k, "step"] => (parseKind k).map Op.cbstep
   | ["fsend", k] => (parseKind k).map Op.fsend
   | ["policy", u, pol] =>
     if pol == "refuse" then (parseUri u).map (Op.policy · true)
     else if pol == "accept" then (parseUri u).map (Op.policy · false)
     else none
   | ["canceldone", c, name] => do some (Op.canceldone (← parseSlot c) (← parseName name))
   | ["connect", c, sid, g, m] => do some (Op.connect (← parseSlot c) (← sid.toNat?) (g == "modern") (parseMask m))
   | "listen" :: c :: rest => do some (Op.listen (← parseSlot c) (← holdTok rest))
   | "subscribe" :: c :: u :: rest => do some (Op.subscribe (← parseSlot c) (← parseUri u) (← holdTok rest))
   | "xlisten" :: c :: name :: mask :: rest =>
     let us := rest.takeWhile (fun (w : String) => w.startsWith "u")
     let rest := rest.dropWhile (fun (w : String) => w.startsWith "u")
     do some (Op.xlisten (← parseSlot c) (← parseName name) (parseMask mask) (← us.mapM parseUri) (← holdTok rest))
   | "xend" :: c :: name :: rest => do some (Op.xend (← parseSlot c) (← parseName name) (← holdTok rest))
   | ["ackdone", c, which] => do some (Op.ackdone (← parseSlot c) (← parseName which))
   | "unsubscribe" :: c :: u :: rest => do some (Op.unsubscribe (← parseSlot c) (← parseUri u) (← holdTok rest))
   | ["close", c] => (parseSlot c).map Op.close
   | ["close", c, "drop"] => (parseSlot c).map Op.close
   | ["rupdated", u] => (parseUri u).map (fun u => Op.rupdated u u)
   | ["rupdated", u, "names", v] => do some (Op.rupdated (← parseUri u) (← parseUri v))
   | ["list", c, key, mode] => do some (Op.list (← parseSlot c) (← parseKey key) (← parseMode mode))
   | ["send", c, key] => do some (Op.send (← parseSlot c) (← parseKey key))
   | ["fill", c, key] => do some (Op.fill (← parseSlot c) (← parseKey key))
   | ["tables"] => some .tables
   | ["end"] => some .fin
   | _ => none) : Option Op).getD .bad

def parseWho (s : String) : Option Who :=
  match parseSlot s with
  | some i => some (.slot i)
  | none => if s.startsWith "x" then (s.drop 1).toNat?.map Who.closed else none

def parseMeth (s : String) : Meth :=
  match Kind.all.find? (fun k => listChangedMethod k == s) with
  | some k => .changed k
  | none => if s == resourceUpdatedMethod then .updated else .other

def parseStamp (s : String) : Stamp :=
  if s == "plain" then .plain else
  match parseName s with
  | some n => .id n
  | none => .bad

def parseHk (s : String) : Hk :=
  if s == "-" then .none else
  match Kind.all.find? (fun k => kindLetter k == s) with
  | some k => .kind k
  | none => match parseUri s with
    | some u => .uri u
    | none => .other

/-- `sent@<t> c<i>:<method>:<stamp>:<handler>…` -/
def parseDeliveries (ws : List String) : Option (Nat × List Delivery) :=
  match ws with
  | hd :: rest =>
    if !hd.startsWith "sent@" then none else
    match (hd.drop 5).toNat? with
    | none => none
    | some t =>
      (rest.mapM (fun (tok : String) =>
        match tok.splitOn ":" with
        | [c, m, st, hk] => (parseSlot c).map (fun i => (⟨.slot i, parseMeth m, parseStamp st, parseHk hk⟩ : Delivery))
        | _ => none)).map (fun ds => (t, ds))
  | [] => none

def parseTag (s : String) : Tag :=
  if s == "q" then .q else
  match parseName s with
  | some n => .id n
  | none => .bad

/-- `T[c0=m c1=m] P[] … S[c0 c1]` -/
def parseTables (impl : String) : Tables :=
  let pieces : List (String × List String) := (impl.splitOn "] ").map (fun piece =>
    match piece.splitOn "[" with
    | [name, body] => (name, words (body.replace "]" ""))
    | _ => ("", []))
  let entries (ws : List String) : List TEntry := ws.filterMap (fun w =>
    match w.splitOn "=" with
    | [a, b] => (parseWho a).map (fun who => ⟨who, parseTag b⟩)
    | _ => none)
  let tab (n : String) : List TEntry := entries ((pieces.lookup n).getD [])
  { kind := fun k => tab (kindLetter k).toUpper,
    uris := pieces.filterMap (fun p => if p.1.startsWith "U" then (p.1.drop 1).toNat?.map (fun u => (u, entries p.2)) else none),
    sess := ((pieces.lookup "S").getD []).filterMap parseWho }

/-- The implementation's observation.  The observation of a `tables` op is always read as a table dump
(an empty or broken dump shows no subscription at all). -/
def parseObs (op : Op) (impl : String) : Obs :=
  match op with
  | .tables => .tables (parseTables impl)
  | _ =>
  match impl with
  | "ok" => .ok
  | "ok listen-held" => .okListenHeld
  | "ok cancel-held" => .okCancelHeld
  | "none" => .none_
  | "noop" => .noop
  | "err" => .err
  | "noack" => .noack
  | "refused" => .refused
  | "bad-op" => .badOp
  | "pre" => .pre
  | "fan done" => .fan true
  | _ =>
    if impl.startsWith "fan" then .fan false else
    let ws := words impl
    match ws with
    | "ack" :: ks :: rest => .ack (parseMask ks) (rest.filterMap parseUri) (rest.contains "parked")
    | ["ret", v, h] =>
      (match (if v.startsWith "v" then (v.drop 1).toNat? else none) with
       | some n => .ret n (h == "hit")
       | none => .other)
    | hd :: rest =>
      if hd.startsWith "held" then .held (((rest.headD "").drop 1).toNat?.getD 0) else
      if hd.startsWith "sent@" then
        (match parseDeliveries ws with
         | some (t, ds) => .sent t ds
         | none => .other)
      else if rest.isEmpty then .other else
      let last := rest.getLast?.getD ""
      (match parseDeliveries rest.dropLast with
       | some (t, ds) => .fsent ((parseWho hd).getD (.closed 0)) t ds (last == "done")
       | none => .other)
    | [] => .other

/-- whom the implementation's `fsend` record says its write was addressed to -/
def hintOf (impl : String) : Option Who := (words impl).head?.bind parseWho

/-! ### typed observation → string -/

def maskStr (ks : List Kind) : String :=
  if ks.isEmpty then "-" else String.join (ks.map kindLetter)

def insertBy (le : α → α → Bool) (a : α) : List α → List α
  | [] => [a]
  | b :: t => if le a b then a :: b :: t else b :: insertBy le a t

def sortBy (le : α → α → Bool) (l : List α) : List α := l.foldr (insertBy le) []

def stampStr : Stamp → String
  | .plain => "plain"
  | .id n => nameStr n
  | .bad => "?"

def methStr : Meth → String
  | .changed k => listChangedMethod k
  | .updated => resourceUpdatedMethod
  | .other => "?"

def hkStr : Hk → String
  | .none => "-"
  | .kind k => kindLetter k
  | .uri u => s!"u{u}"
  | .other => "?"

def whoStr : Who → String
  | .slot i => s!"c{i.val}"
  | .closed sid => s!"x{sid}"

def deliveryTok (x : Delivery) : Nat × String :=
  match x.who with
  | .slot i => (i.val, s!"c{i.val}:{methStr x.meth}:{stampStr x.stamp}:{hkStr x.hk}")
  | .closed sid => (9, s!"c?{sid}:{methStr x.meth}:{stampStr x.stamp}:{hkStr x.hk}")

def fmtSent (now : Nat) (ds : List Delivery) : String :=
  let sorted := sortBy (fun a b => a.1 ≤ b.1) (ds.map deliveryTok)
  String.intercalate " " (s!"sent@{now}" :: sorted.map (·.2))

def tagStr : Tag → String
  | .q => "q"
  | .id n => nameStr n
  | .bad => "?"

def dumpStr (l : List TEntry) : String :=
  "[" ++ String.intercalate " " (sortBy (fun a b => a ≤ b) (l.map (fun e => s!"{whoStr e.who}={tagStr e.tag}"))) ++ "]"

def tablesStr (tb : Tables) : String :=
  String.intercalate " " ([s!"T{dumpStr (tb.kind .tools)}", s!"P{dumpStr (tb.kind .prompts)}", s!"R{dumpStr (tb.kind .resources)}"] ++
    tb.uris.map (fun p => s!"U{p.1}{dumpStr p.2}") ++
    ["S[" ++ String.intercalate " " (sortBy (fun a b => a ≤ b) (tb.sess.map whoStr)) ++ "]"])

def ackStr (kinds : List Kind) (uris : List Nat) : String :=
  String.intercalate " " (["ack", maskStr (Kind.all.filter kinds.contains)] ++ (sortBy (· ≤ ·) uris).map (fun u => s!"u{u}"))

def obsStr : Obs → String
  | .ok => "ok"
  | .okListenHeld => "ok listen-held"
  | .okCancelHeld => "ok cancel-held"
  | .none_ => "none"
  | .noop => "noop"
  | .err => "err"
  | .noack => "noack"
  | .refused => "refused"
  | .badOp => "bad-op"
  | .pre => "pre"
  | .fan done => if done then "fan done" else "fan open"
  | .fired ks => String.intercalate " " ("fired" :: ks.map (·.name))
  | .sent t ds => fmtSent t ds
  | .fsent addr t ds done => s!"{whoStr addr} {fmtSent t ds} " ++ (if done then "done" else "more")
  | .ack ks us parked => ackStr ks us ++ (if parked then " parked" else "")
  | .ret v hit => s!"ret v{v} " ++ (if hit then "hit" else "miss")
  | .held v => s!"held v{v}"
  | .tables tb => tablesStr tb
  | .other => "?"

/-! ### the clause texts (known_findings.json and seeded/*/meta.json quote them) -/

def whatStr : What → String
  | .kind k => kindLetter k
  | .uri u => s!"u{u}"

def seenStr : Seen → String
  | .updated => "a ResourceUpdated call did not reach the session"
  | .dump => "table dump"
  | .fin => "no notification reached the session after the last change"

def clauseText : Clause → String
  | .malformed => "C18: malformed delivery record"
  | .wrongKind => "C18: fanout_entitled_only: a callback of one kind sent another kind's notification"
  | .disabled => "C18: none_when_disabled: list_changed delivered although the capability is switched off"
  | .notConnected => "C18: fanout_entitled_only: delivery to a session that is not connected"
  | .legacyStamped => "C18: fanout_entitled_only: legacy session got a stamped notification"
  | .noSubscription => "C18: fanout_entitled_only: 2026-07-28 session without a matching subscription got the notification"
  | .badStamp => "C18: fanout_entitled_only: notification not stamped with the request id of a live listen of the session that was granted the kind"
  | .wrongHandler => "C18: fanout_entitled_only: notification dispatched to the wrong client handler"
  | .twice => "C18: fanout_entitled_only: a session got the same notification twice"
  | .fanNotEntitled => "C18: sent_was_snapshot / fanout_entitled_only: a held fan-out wrote to a session that was not entitled when its snapshot was taken"
  | .fanBadStamp => "C18: sent_was_snapshot / fanout_entitled_only: a held fan-out stamped its notification with an id that belonged to no listen of the session granted the kind when the snapshot was taken"
  | .fanDropped => "C18: at_least_one_after_burst (blocked fan-out): the write of the fan-out to a connected, entitled session delivered nothing"
  | .lostWindow ended survivor what seen =>
    s!"C18: ack_after_registration or acked_stays_served (overlapping listens): the session is missing from the table of a subscription while the handler of its live listen that was granted it is still held right after its acknowledgement write AND another listen of the session that was granted the same thing has ended (registered after the acknowledgement, or removed by that end) [ended={nameStr ended} survivor={nameStr survivor} what={whatStr what}; seen: {seenStr seen}]"
  | .lostOverlap endedOlder ended survivor what seen =>
    let tab := if what.isUri then "resource" else "list-changed"
    let head := s!"C18: acked_stays_served (overlapping listens, {tab}): "
    let body :=
      if what.isUri then
        if endedOlder then
          "the end of the OLDER subscriptions/listen stream unsubscribed the session from the URI although a newer, still live, acknowledged stream of the same session was granted the same URI"
        else
          "the end of the NEWER subscriptions/listen stream unsubscribed the session from the URI although an older, still live, acknowledged stream of the same session was granted the same URI"
      else
        if endedOlder then
          "the end of the OLDER subscriptions/listen stream took the session out of the list-changed table although a newer, still live, acknowledged stream of the same session was granted the same kind"
        else
          "the end of the NEWER subscriptions/listen stream took the session out of the list-changed table although an older, still live, acknowledged stream of the same session was granted the same kind"
    head ++ body ++ s!" [ended={nameStr ended} survivor={nameStr survivor} what={whatStr what}; seen: {seenStr seen}]"
  | .updAckWindow => "C18: ack_after_registration: the server acknowledged the session's subscription to the URI, but a ResourceUpdated call made while the listen handler was still held right after the acknowledgement write did not reach the session (the subscription is registered after it is acknowledged)"
  | .updMissed => "C18: updated_reaches_exactly_subscribers: a session subscribed to the URI was not notified"
  | .updRefused => "C18: refused_listen_leaves_no_subscription: the session's subscriptions/listen request naming the URI was refused by the SubscribeHandler (no acknowledgement, no stream), yet a ResourceUpdated call for the URI reached the session: the URIs registered before the refused one stayed subscribed"
  | .updNotSubscribed => "C18: updated_reaches_exactly_subscribers: a session not subscribed to the URI was notified"
  | .updTwice => "C18: updated_reaches_exactly_subscribers: a subscriber was notified more than once"
  | .updMethod => "C18: updated_reaches_exactly_subscribers: wrong notification method"
  | .updOtherUri => "C18: updated_reaches_exactly_subscribers: notification for another URI"
  | .updLegacyStamped => "C18: updated_reaches_exactly_subscribers: legacy session got a stamped notification"
  | .updBadStamp => "C18: updated_reaches_exactly_subscribers: not stamped with the request id of a live listen of the session that carries the subscription"
  | .staleRead offTable =>
    "C18: invalidate_on_every_handled_update: a read issued after the client handled a notifications/resources/updated naming that URI was answered from the cache with the content from before the update — the handled notification did not invalidate the read cache" ++
      (if offTable then " (the client held no Subscribe entry for the URI when it handled the update: the update named a sub-resource of what it subscribed to, or arrived on a stream opened below Subscribe, or overtook the cancellation after Unsubscribe)" else "")
  | .f7Stale => "C18: F7 list_after_notification_fresh: a response obtained before the notification was put into the cache after the client handled it and is served to a later call (cache has no generation)"
  | .staleCall => "C18: list_after_notification_fresh: call started after a handled notification returned an older version"
  | .hitAfterInvalidate => "C18: invalidate_on_notification: cache hit although nothing was fetched since the invalidating notification"
  | .closedMentioned => "C18: closed_sessions_forgotten: a subscription table or the session list still mentions a closed session"
  | .ackTableWindow => "C18: ack_after_registration: the server has written the acknowledgement of a subscriptions/listen (the handler is held right after that write) but the subscription it acknowledges is not in the server's table"
  | .f19Registered => "C18: F19 acked_stays_registered: the session's acknowledged list-changed subscription left the table when another subscriptions/listen of the same session ended"
  | .ackedMissing => "C18: acked_stays_registered: a subscription the server acknowledged, and the client has not ended, is missing from the server's table"
  | .refusedLeft => "C18: refused_listen_leaves_no_subscription: resourceSubscriptions still holds the session for a URI of a subscriptions/listen request that the SubscribeHandler refused (no acknowledgement, no stream): the URIs registered before the refused one were not unsubscribed"
  | .foreignEntry => "C18: acked_stays_registered / refused_listen_leaves_no_subscription: a subscription table holds a 2026-07-28 session under a request id that is not the id of a live, acknowledged listen of that session granted that kind or URI"
  | .endMixedRemove => "C18: at_least_one_after_burst (Remove* naming several features): a Remove call that named a registered feature together with names that were not registered (or no longer, a repeated name) changed the list, and no list-changed notification sent after it reached this connected, entitled session although every timer has fired and every callback has run — the call did not count as a change (featureSet.remove must report whether ANY named feature was present)"
  | .endMidFan => "C18: at_least_one_after_burst (blocked fan-out) / change_during_fanout_announced: a change was made while a list-changed fan-out of the same kind was in progress — this session had already been written to, a later write of the loop was still blocked — and the change was never announced to the session: no notification sent after the change reached it although every timer has fired and every callback has run"
  | .endSkippedAck => "C18: ack_after_registration / at_least_one_after_burst: the session held the acknowledgement of its list-changed subscription when the callback took its snapshot (the listen handler was held right after the acknowledgement write), the snapshot did not include it, and no later notification reached it"
  | .endF19 => "C18: F19 at_least_one_after_burst: the session's list-changed subscription was dropped when another subscriptions/listen of the same session ended"
  | .endSkipped => "C18: at_least_one_after_burst: callbacks ran after the last change but none of them notified this entitled session"
  | .endNoLost => "C18: no_lost_notification: changes were made, every timer has fired and every callback has run, yet an entitled session was never notified after the last change"

/-! ### the engine -/

/-! ### `park` / `unsubdone`: the end of a listen parked in the application's UnsubscribeHandler

`xend c<i> L<n> park` / `unsubscribe c<i> u<j> park`: the cancellation reaches the server, the handler's context
ends, its deferred functions begin: the FIRST of them is `unsubscribeListen` for the last URI the stream was
granted, and its first statement is the call of `ServerOptions.UnsubscribeHandler` — application code, outside
the server lock, before every critical section of the clean-up (regenerated fact `notify.listen_handover`:
`unsubscribeListen:handler,lock,…`).  The harness parks THAT call until `unsubdone c<i> <name>`.  In the code
that exists nothing has been read or written at that point, so for the typed model the window is the one of
a cancellation held on its way (`hold` … `canceldone`: the stream is registered in every table, `listenEnd`
runs at the release); the tokens are mapped onto those labels here, the observation is spelled
`ok unsub-held`.  A tree whose clean-up reads the tables BEFORE it calls the application and acts on what it
read afterwards (check-then-act around user code) differs inside that window only.  `park` is a label only
for a live listen that was granted a URI (no other end calls the handler): anything else is `bad-op`. -/

def isPark (toks : List String) : Bool := toks.getLast? == some "park"

/-- the listen the op ends: (slot, request id) -/
def endedListen (toks : List String) : Option (Slot × Nat) :=
  match toks with
  | ["xend", c, name, _] => do some (← parseSlot c, ← parseName name)
  | ["unsubscribe", c, u, _] => do some (← parseSlot c, 2 * (← parseUri u) + 1)
  | _ => none

def parkable (y : Sys.State) (toks : List String) : Bool :=
  match endedListen toks with
  | some (i, id) => y.srv.listens.any (fun l => l.sid == (y.slots i).sid && l.id == id && !l.uris.isEmpty)
  | none => false

def normToks (toks : List String) : List String :=
  if isPark toks then toks.dropLast ++ ["hold"] else
  match toks with
  | "unsubdone" :: rest => "canceldone" :: rest
  | _ => toks

/-! ### the client side: `roots …` records (model and monitor: `Roots.lean`) -/

def parseRootsCfg (tok : String) : Option Roots.Cfg :=
  if tok == "nil" then some {} else
  if tok == "empty" then some { capsNil := false } else
  (tok.splitOn "+").foldlM (fun (c : Roots.Cfg) part =>
    if part == "v2on" then some { c with v2 := some true }
    else if part == "v2off" then some { c with v2 := some false }
    else if part == "v1on" then some { c with v1 := true }
    else if part == "v1off" then some { c with v1 := false }
    else none) { capsNil := false }

def parseRootsLabel : List String → Option Roots.Label
  | "add" :: us => (us.mapM parseUri).map Roots.Label.add
  | "remove" :: us => (us.mapM parseUri).map Roots.Label.remove
  | ["connect", sid, g] =>
    if g == "legacy" || g == "modern" then sid.toNat?.map (Roots.Label.connect · (g == "modern")) else none
  | ["close", sid] => sid.toNat?.map Roots.Label.close
  | _ => none

def gotStr (l : List Nat) : String :=
  if l.isEmpty then "got -" else String.intercalate " " ("got" :: (sortBy (· ≤ ·) l).map toString)

/-- `got 1 3` / `got -`; anything else is no observation of a roots call -/
def parseGot (impl : String) : Option (List Nat) :=
  match words impl with
  | ["got", "-"] => some []
  | "got" :: rest => rest.mapM (·.toNat?)
  | _ => none

def rootsClauseText : Roots.Clause → String
  | .missed => "C18: at_least_one_after_burst (client roots): AddRoots / RemoveRoots changed the client's roots with listChanged enabled, and a connected session was not sent notifications/roots/list_changed"
  | .disabled => "C18: none_when_disabled (client roots): notifications/roots/list_changed delivered although the client's roots listChanged capability is switched off (RootsV2 before Roots)"
  | .notEntitled => "C18: fanout_entitled_only (client roots): notifications/roots/list_changed reached a server whose session is closed or was never connected"
  | .noChange => "C18: at_least_one_after_burst (client roots): a notification although the call changed nothing (AddRoots without roots, RemoveRoots naming only URIs the client does not have)"
  | .twice => "C18: fanout_entitled_only (client roots): one call notified the same session twice"

structure RDState where
  on : Bool := false
  s : Roots.State := {}
  m : Roots.MState := {}

/-- one `roots …` record: (state, model observation, clause) -/
def rootsStep (d : RDState) (toks : List String) (impl : String) : RDState × String × Option String :=
  match toks with
  | ["config", c] =>
    match parseRootsCfg c, d.on with
    | some cfg, false => ({ on := true, s := { cfg := cfg }, m := { cfg := cfg } }, "ok", none)
    | _, _ => (d, "bad-op", none)
  | _ =>
    if !d.on then (d, "bad-op", none) else
    match parseRootsLabel toks with
    | none => (d, "bad-op", none)
    | some l =>
      let r := Roots.step d.s l
      let model := match l with
        | .add _ | .remove _ => gotStr (Roots.handled r.2)
        | _ => "ok"
      -- the monitor reads the IMPLEMENTATION's observation; an unreadable one of a call shows nobody
      let got := match l with
        | .add _ | .remove _ => (parseGot impl).getD []
        | _ => []
      let (m', viol) := Roots.monStep d.m l got
      ({ d with s := r.1, m := m' }, model, viol.map rootsClauseText)

/-! ### client caches with several pages: `pages …` records (model and monitor: `Pages.lean`) -/

def parsePagesOp : List String → Option Pages.Op
  | ["list", k] => k.toNat?.map Pages.Op.list
  | ["listheld", k] => k.toNat?.map Pages.Op.listheld
  | ["fill", k] => k.toNat?.map Pages.Op.fill
  | ["change"] => some .change
  | ["tick", d] => d.toNat?.map Pages.Op.tick
  | ["ttl", n] => n.toNat?.map Pages.Op.ttl
  | _ => none

def pagesObsStr : Pages.Obs → String
  | .ok => "ok"
  | .ret v hit => s!"ret v{v} " ++ (if hit then "hit" else "miss")
  | .held v => s!"held v{v}"
  | .handled n => s!"handled {n}"
  | .refused => "refused"

def parsePagesObs (impl : String) : Option Pages.Obs :=
  let num (s : String) : Option Nat := if s.startsWith "v" then (s.drop 1).toNat? else none
  match words impl with
  | ["ok"] => some .ok
  | ["refused"] => some .refused
  | ["ret", v, h] => (num v).map (Pages.Obs.ret · (h == "hit"))
  | ["held", v] => (num v).map Pages.Obs.held
  | ["handled", n] => n.toNat?.map Pages.Obs.handled
  | _ => none

def pagesClauseText : Pages.Clause → String
  | .stalePage => "C18: list_after_notification_fresh (paginated list): a list call for one cursor, started after the client handled notifications/tools/list_changed, returned that page with the content from before the change — the cache entry of EVERY cursor must go when the notification is handled (no_page_from_before_notification)"
  | .notNotified => "C18: at_least_one_after_burst (paginated list): every tool was replaced and the subscribed 2026-07-28 client handled no list_changed notification within twice the debounce delay"

structure PDState where
  on : Bool := false
  m : Pages.MState := {}
  mon : Pages.Mon := {}

def pagesStep (d : PDState) (toks : List String) (impl : String) : PDState × String × Option String :=
  match toks with
  | ["config", n] =>
    match n.toNat?, d.on with
    | some ttl, false => ({ on := true, m := { ttl := ttl } }, "ok", none)
    | _, _ => (d, "bad-op", none)
  | _ =>
    if !d.on then (d, "bad-op", none) else
    match parsePagesOp toks with
    | none => (d, "bad-op", none)
    | some op =>
      let (m', model) := Pages.step d.m op
      -- an unreadable observation of a call is judged as the oldest possible answer
      let obs := (parsePagesObs impl).getD (match op with | .change => .handled 0 | _ => .ret 0 false)
      let (mon', viol) := Pages.monStep d.mon op obs
      ({ d with m := m', mon := mon' }, pagesObsStr model, viol.map pagesClauseText)

structure DState where
  sys : Sys.State := {}
  mon : MState := {}
  roots : RDState := {}
  pages : PDState := {}
  /-- the server of this case has no Subscribe/UnsubscribeHandler: `policy … accept` changes nothing -/
  nosub : Bool := false

def engine : Engine DState where
  init := {}
  step d toks impl :=
    match toks with
    | ["reset"] => ({}, { model := "ok" })
    | ["config", a, b, c, h, "nohandlers"] =>
      -- A server with neither SubscribeHandler nor UnsubscribeHandler (explicit capabilities that still say
      -- resources.subscribe): `Server.subscribe` returns "does not support resource subscriptions" before it
      -- touches the table, `Server.unsubscribe` returns method-not-found: for the typed model this is an
      -- application that refuses EVERY URI from the start — the `config` label followed by `policy u refuse`
      -- for the URIs of the harness (u0 … u7), fed through model and monitor like any other ops.
      if c == "unset" then ({ d with nosub := false }, { model := "bad-op" }) else
      let run := (Op.config ((parseCap a).getD .unset) ((parseCap b).getD .unset) ((parseCap c).getD .unset) (h == "hook1")) ::
        (List.range 8).map (fun u => Op.policy u true)
      let (sys', mon') := run.foldl (fun (p : Sys.State × MState) op =>
        ((Sys.sysStep p.1 op none).1, (monStep p.2 ⟨op, .ok⟩).1)) (d.sys, d.mon)
      ({ d with sys := sys', mon := mon', nosub := true }, { model := "ok" })
    | "pages" :: rest =>
      let (p', model, viol) := pagesStep d.pages rest impl
      ({ d with pages := p' }, { model := model, violated := viol })
    | "roots" :: rest =>
      let (r', model, viol) := rootsStep d.roots rest impl
      ({ d with roots := r' }, { model := model, violated := viol })
    | _ =>
      let park := isPark toks
      let toks := match d.nosub, toks with
        | true, ["policy", u, _] => ["policy", u, "refuse"]
        | _, _ => toks
      let op := if park && !parkable d.sys toks then Op.bad else parseOp (normToks toks)
      let impl' := if park && impl == "ok unsub-held" then "ok cancel-held"
                   else if impl == "ok cancel-held" && park then "?" else impl
      let (sys', model) := Sys.sysStep d.sys op (hintOf impl')
      let (mon', viol) := monStep d.mon ⟨op, parseObs op impl'⟩
      let shown := if park && obsStr model == "ok cancel-held" then "ok unsub-held" else obsStr model
      ({ d with sys := sys', mon := mon' }, { model := shown, violated := viol.map clauseText })

end Notify.Drv

def main : IO Unit := Proto.run Notify.Drv.engine
