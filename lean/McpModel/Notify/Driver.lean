import McpModel.Base.Proto
import McpModel.Notify.Model
import McpModel.Notify.Cache
/-!
Driver for E14 (C18): replays the harness's labels on the composed model (one `Notify.Server`, and per
client slot five `Notify.Cache.State`s whose `bump`/`announce`/`handle` labels are driven by the
server model's outputs) and evaluates the C18 monitors on the IMPLEMENTATION's observations.

Listen names and request ids: `m` (connect-time listen) = 0, `r<j>` (`ClientSession.Subscribe(u<j>)`) = j+1,
`L<n>` (raw listen opened by `xlisten`) = 10+n.  Any number of them may be open on one session and be
granted the same kinds / URI; they end in any order (`xend`, `unsubscribe`).

`listen` / `subscribe` / `xlisten` of a 2026-07-28 session are the model labels `listen` (registration section)
and `listenAck` (acknowledgement write) back to back — the harness has no schedule point between
them.  With `hold` the server goroutine that runs the handler is parked right after the write of the
acknowledgement returned (the client has it) until `ackdone`: every other op can be placed in that
window.  In the model nothing is left to do for the handler there (`ackdone` is a no-op); a tree that
registers after acknowledging shows up in the window.

Op grammar (one label per record; observation after `=>`):
  config <capT> <capP> <capR> <hook0|hook1>      => ok          caps: unset|on|off
  ttl <ms>                                         => ok
  change <tools|prompts|resources|templates> <add|replace|remove|noop>  => ok
  advance <ms>                                     => hook1: `fired <kinds…>` ; hook0: ok (the harness then emits the cbrun records itself)
  cbrun <kind>                                     => sent@<t> c<slot>:<method>:<stamp>:<handler>…   | none
  cbrun <kind> step                                => fan open | fan done | none    (the callback takes its snapshot; its fan-out loop is then held before every write)
  fsend <kind>                                     => <c<i>|x<sid>> sent@<t> [c<i>:<method>:<stamp>:<handler>] more|done   (the write the held fan-out is blocked in goes on; the first token says whom it is addressed to — the loop's order over a Go map is not determined, the model follows it)
  policy u<j> refuse|accept                        => ok          (what ServerOptions.SubscribeHandler answers for that URI from now on)
  canceldone c<i> <m|r<j>|L<n>>                    => ok          (the held notifications/cancelled of that listen is written; its handler ends)
  connect c<i> <sid> legacy|modern <mask>          => ok | ok listen-held
  listen c<i> [hold]                               => ack <kinds|-> [parked]
  subscribe c<i> u<j> [hold] / unsubscribe c<i> u<j>  => ok | noop | ack - u<j> [parked]
  xlisten c<i> L<n> <mask|-> u<j>… [hold]          => ack <kinds|-> u<j>… [parked] | noack   (a further, raw subscriptions/listen of a connected 2026-07-28 session: any kinds and any number of distinct URIs; noack: the SubscribeHandler refused one of them)
  xend c<i> <m|L<n>> [hold]                        => ok | ok cancel-held   (that listen is cancelled and its handler has ended; r<j> ends through unsubscribe; hold: the client's notifications/cancelled is held in its transport until `canceldone`)
  unsubscribe c<i> u<j> hold                       => ok cancel-held   (2026-07-28: ClientSession.Unsubscribe has returned — cs.resourceSubs no longer has the URI —, the cancellation is held)
  ackdone c<i> <m|r<j>|L<n>>                       => ok          (the handler held right after its ack write goes on)
  close c<i>                                       => ok
  rupdated u<j> [names u<k>]                       => sent@<t> …   (names: the notification the subscribers of u<j> get names u<k>, whose content changed)
  list c<i> <tools|prompts|resources|templates|read:j> <n|post|pre>  => ret v<N> hit|miss | held v<N> | pre
  send c<i> <key> => held v<N> ;  fill c<i> <key> => ret v<N> miss
  tables                                           => T[..] P[..] R[..] U0[..] U1[..] U2[..] S[..]
  end                                              => ok
-/
namespace Notify.Drv
open Proto Generated.Notify

/-! ### small helpers -/

def kindLetter : Kind → String
  | .tools => "t" | .prompts => "p" | .resources => "r"

def parseCap : String → Option Cap
  | "unset" => some .unset | "on" => some .on | "off" => some .off | _ => none

def parseKind : String → Option Kind
  | "tools" => some .tools | "prompts" => some .prompts | "resources" => some .resources | _ => none

def parseFSet : String → Option FSet
  | "tools" => some .tools | "prompts" => some .prompts | "resources" => some .resources
  | "templates" => some .templates | _ => none

def parseEff : String → Option Eff
  | "add" => some .add | "replace" => some .replace | "remove" => some .remove | "noop" => some .noop | _ => none

def parseMask (m : String) : List Kind :=
  Kind.all.filter (fun k => m.toList.contains ((kindLetter k).toList.getD 0 '?'))

def parseSlot (s : String) : Option Nat :=
  match s.toList with
  | ['c', d] => if '0' ≤ d ∧ d ≤ '2' then some (d.toNat - 48) else none
  | _ => none

def parseUri (s : String) : Option Nat :=
  if s.startsWith "u" then (s.drop 1).toNat? else none

/-- `tools` … `read:1` ↦ (cache object, key, feature set if a list). -/
def parseKey (s : String) : Option (CacheObj × Nat) :=
  match s with
  | "tools" => some (.tools, 0) | "prompts" => some (.prompts, 0) | "resources" => some (.resources, 0)
  | "templates" => some (.templates, 0)
  | _ => if s.startsWith "read:" then (s.drop 5).toNat?.map (fun n => (CacheObj.read, n)) else none

def objFSet : CacheObj → Option FSet
  | .tools => some .tools | .prompts => some .prompts | .resources => some .resources
  | .templates => some .templates | .read => none

def maskStr (ks : List Kind) : String :=
  if ks.isEmpty then "-" else String.join (ks.map kindLetter)

def insertBy (le : α → α → Bool) (a : α) : List α → List α
  | [] => [a]
  | b :: t => if le a b then a :: b :: t else b :: insertBy le a t

def sortBy (le : α → α → Bool) (l : List α) : List α := l.foldr (insertBy le) []

def setAt (l : List α) (i : Nat) (a : α) : List α := l.set i a

def assocSet [BEq κ] (l : List (κ × β)) (k : κ) (v : β) : List (κ × β) :=
  (l.filter (fun p => !(p.1 == k))) ++ [(k, v)]

/-! ### the composed model -/

structure DSlot where
  used : Bool := false
  sid : Nat := 0
  modern : Bool := false
  mask : List Kind := []
  gated : Bool := false
  connected : Bool := false
  rsubs : List Nat := []
  caches : List (CacheObj × Cache.State) := []
  held : List String := []
  parked : List String := []   -- listen handlers held right after their ack write: "m", "r<j>"
  cancelHeld : List String := []   -- listens whose notifications/cancelled is held in the client's transport

structure Sys where
  srv : Server := init (fun _ => .unset)
  hook : Bool := false
  ttl : Nat := 0
  content : Nat → Nat := fun _ => 0
  slots : List DSlot := [{}, {}, {}]
  configured : Bool := false
  refused : List Nat := []     -- URIs ServerOptions.SubscribeHandler refuses

def Sys.slot (y : Sys) (i : Nat) : DSlot := y.slots.getD i {}

def Sys.setSlot (y : Sys) (i : Nat) (d : DSlot) : Sys := { y with slots := setAt y.slots i d }

def curVersion (y : Sys) (obj : CacheObj) (key : Nat) : Nat :=
  match objFSet obj with
  | some f => y.srv.ver f
  | none => y.content key

def freshCaches (y : Sys) : List (CacheObj × Cache.State) :=
  CacheObj.all.map (fun o => (o, ({ now := y.srv.now, srv := fun k => curVersion y o k } : Cache.State)))

def DSlot.cache (d : DSlot) (o : CacheObj) : Cache.State := (d.caches.lookup o).getD {}

def DSlot.setCache (d : DSlot) (o : CacheObj) (c : Cache.State) : DSlot :=
  { d with caches := assocSet d.caches o c }

/-- Apply a cache label to one cache of every modern, connected slot. -/
def Sys.cacheAll (y : Sys) (o : CacheObj) (l : Cache.Label) : Sys :=
  { y with slots := y.slots.map (fun d =>
      if d.used && d.modern then d.setCache o (Cache.step true (d.cache o) l).1 else d) }

def Sys.tickAll (y : Sys) (dt : Nat) : Sys :=
  CacheObj.all.foldl (fun y o => y.cacheAll o (.tick dt)) y

def slotOfSid (y : Sys) (sid : Nat) : Option Nat :=
  (List.range 3).find? (fun i => (y.slot i).used && (y.slot i).sid == sid)

def stampTok : Option Nat → String
  | none => "plain"
  | some 0 => "m"
  | some (n + 1) => if n + 1 ≥ 10 then s!"L{n + 1 - 10}" else s!"r{n}"

/-- `m` ↦ 0, `L<n>` ↦ 10+n (the listens `xend` can end). -/
def parseXName (s : String) : Option Nat :=
  if s == "m" then some 0
  else if s.startsWith "L" then (s.drop 1).toNat?.map (· + 10)
  else none

def fmtSent (now : Nat) (toks : List (Nat × String)) : String :=
  let sorted := sortBy (fun a b => a.1 ≤ b.1) toks
  String.intercalate " " (s!"sent@{now}" :: sorted.map (·.2))

/-- A client handles a list-changed notification: the caches named by the regenerated table are
invalidated (announce + handle on each). -/
def clientHandleChanged (d : DSlot) (k : Kind) : DSlot :=
  if !d.modern then d else
  (clientInvalidates k).foldl (fun d o =>
    let c := (Cache.step true (d.cache o) (.announce none)).1
    d.setCache o (Cache.step true c (.handle (c.inbox.length - 1))).1) d

def clientHandleUpdated (d : DSlot) (u : Nat) : DSlot :=
  if !d.modern || !updatedInvalidatesKey then d else
  let c := (Cache.step true (d.cache .read) (.announce (some u))).1
  d.setCache .read (Cache.step true c (.handle (c.inbox.length - 1))).1

def deliverChanged (y : Sys) (k : Kind) (to : List Send) (at_ : Nat) : Sys × String :=
  let (y, toks) := to.foldl (fun (acc : Sys × List (Nat × String)) x =>
    match slotOfSid acc.1 x.sid with
    | none => (acc.1, acc.2 ++ [(9, s!"c?{x.sid}:{listChangedMethod k}:{stampTok x.stamp}:?")])
    | some i =>
      let d := acc.1.slot i
      let hk := if d.mask.contains k then kindLetter k else "-"
      (acc.1.setSlot i (clientHandleChanged d k),
       acc.2 ++ [(i, s!"c{i}:{listChangedMethod k}:{stampTok x.stamp}:{hk}")])) (y, [])
  (y, fmtSent at_ toks)

/-- The subscribers of `u` (`to`) get a notification that names `v`; each client invalidates `v`. -/
def deliverUpdated (y : Sys) (_u v : Nat) (to : List Send) : Sys × String :=
  let (y, toks) := to.foldl (fun (acc : Sys × List (Nat × String)) x =>
    match slotOfSid acc.1 x.sid with
    | none => (acc.1, acc.2 ++ [(9, s!"c?{x.sid}:{resourceUpdatedMethod}:{stampTok x.stamp}:?")])
    | some i =>
      (acc.1.setSlot i (clientHandleUpdated (acc.1.slot i) v),
       acc.2 ++ [(i, s!"c{i}:{resourceUpdatedMethod}:{stampTok x.stamp}:u{v}")])) (y, [])
  (y, fmtSent y.srv.now toks)

def fireOrphansDue (k : Kind) : Nat → Server → List Nat → Server × List Nat
  | 0, s, acc => (s, acc)
  | fuel + 1, s, acc =>
    match (s.ks k).orphans.findIdx? (fun d => d ≤ s.now) with
    | some i => fireOrphansDue k fuel (fireOrphan s k i) (acc ++ [(s.ks k).orphans.getD i 0])
    | none => (s, acc)

/-- All timers that are due fire (tracked first, then orphans, per kind). Returns (kind, deadline) of
each firing. -/
def fireDue (s : Server) : Server × List (Kind × Nat) :=
  Kind.all.foldl (fun (acc : Server × List (Kind × Nat)) k =>
    let s := acc.1
    let (s, f1) := match (s.ks k).tracked with
      | some (some d) => if d ≤ s.now then (fireTracked s k, [(k, d)]) else (s, [])
      | _ => (s, [])
    let (s, f2) := fireOrphansDue k ((s.ks k).orphans.length) s []
    (s, acc.2 ++ f1 ++ f2.map (fun d => (k, d)))) (s, [])

def tablesStr (y : Sys) : String :=
  let slotName (sid : Nat) : String := match slotOfSid y sid with
    | some i => s!"c{i}" | none => s!"x{sid}"
  let idName (sid id : Nat) : String :=
    if genOf y.srv sid == .modern then stampTok (some id) else "q"
  let dump (l : List (Nat × Nat)) : String :=
    let toks := sortBy (fun a b => a ≤ b) (l.map (fun p => s!"{slotName p.1}={idName p.1 p.2}"))
    "[" ++ String.intercalate " " toks ++ "]"
  let u (i : Nat) : String :=
    s!"U{i}" ++ dump ((y.srv.rsubs.filter (fun r => r.1 == i)).map (fun r => (r.2.1, r.2.2)))
  let sess := sortBy (fun a b => a ≤ b) (y.srv.sessions.map (fun p => slotName p.1))
  s!"T{dump (y.srv.ks .tools).subs} P{dump (y.srv.ks .prompts).subs} R{dump (y.srv.ks .resources).subs} {u 0} {u 1} {u 2} S[" ++
    String.intercalate " " sess ++ "]"

def ackStr (kinds : List Kind) (uris : List Nat) : String :=
  String.intercalate " " (["ack", maskStr (Kind.all.filter kinds.contains)] ++ (sortBy (· ≤ ·) uris).map (fun u => s!"u{u}"))

def firstAck (outs : List Out) : String :=
  match outs.findSome? (fun o => match o with | .ack _ _ ks us => some (ackStr ks us) | _ => none) with
  | some s => s
  | none => "noack"

/-- Registration section and acknowledgement write of one handler, back to back. -/
def listenBoth (s : Server) (sid id : Nat) (kinds : List Kind) (uris : List Nat) : Server × List Out :=
  listenAck (listen s sid id kinds uris) sid id

/-- … unless `SubscribeHandler` refuses one of the granted URIs: then the handler returns the error
without acknowledging, and its deferred functions undo what it had registered. -/
def listenOrRefuse (y : Sys) (sid id : Nat) (kinds : List Kind) (uris : List Nat) : Server × List Out :=
  let au := if resSub y.srv then uris else []
  match au.findIdx? (fun u => y.refused.contains u) with
  | some n => (listenRefused y.srv sid id kinds uris n, [])
  | none => listenBoth y.srv sid id kinds uris

/-- The first `n` writes of the newest snapshot of kind `k` (the outstanding sends from index `old` on). -/
def deliverFrom (s : Server) (k : Kind) (old : Nat) : Nat → List Send → Server × List Send
  | 0, acc => (s, acc)
  | n + 1, acc =>
    let (s1, o) := deliver s k old
    deliverFrom s1 k old n (acc ++ o.filterMap (fun x => match x with | .sent _ x => some x | _ => none))

def slotNameOfSid (y : Sys) (sid : Nat) : String :=
  match slotOfSid y sid with
  | some i => s!"c{i}"
  | none => s!"x{sid}"

/-- `c<i>` / `x<sid>` ↦ session id. -/
def sidOfName (y : Sys) (n : String) : Option Nat :=
  if n.startsWith "x" then (n.drop 1).toNat?
  else match parseSlot n with
    | some i => if (y.slot i).used then some (y.slot i).sid else none
    | none => none

def holdTok : List String → Option Bool
  | [] => some false
  | ["hold"] => some true
  | _ => none

/-- One label on the composed model: new state and the predicted observation. -/
def modelStep (y : Sys) (toks : List String) (impl : String) : Sys × String :=
  match toks with
  | ["config", a, b, c, h] =>
    match parseCap a, parseCap b, parseCap c with
    | some ca, some cb, some cc =>
      let cap : Kind → Cap := fun k => match k with | .tools => ca | .prompts => cb | .resources => cc
      -- the two permanent resources of the harness: two effective changes before anyone connects
      let s := (init cap) |> (change · .resources .add) |> (change · .resources .add)
      ({ srv := s, hook := h == "hook1", configured := true }, "ok")
    | _, _, _ => (y, "bad-op")
  | ["ttl", n] => match n.toNat? with
    | some n => ({ y with ttl := n }, "ok")
    | none => (y, "bad-op")
  | ["change", f, e] =>
    match parseFSet f, parseEff e with
    | some f, some e =>
      let eff := !(e == .noop || (e == .remove && y.srv.cnt f == 0))
      let y := { y with srv := change y.srv f e }
      (if eff then y.cacheAll f.cache (.bump (fun _ => true)) else y, "ok")
    | _, _ => (y, "bad-op")
  | ["advance", d] =>
    match d.toNat? with
    | none => (y, "bad-op")
    | some d =>
      let y := { y with srv := { y.srv with now := y.srv.now + d } }.tickAll d
      let (s, fired) := fireDue y.srv
      let y := { y with srv := s }
      if y.hook then (y, String.intercalate " " ("fired" :: fired.map (fun p => p.1.name))) else (y, "ok")
  | ["cbrun", k] =>
    match parseKind k with
    | none => (y, "bad-op")
    | some k =>
      let old := (y.srv.ks k).inflight.length
      let (s, outs) := cbrun y.srv k
      match outs with
      | [.changed _ to] =>
        -- the whole fan-out of this snapshot at once (a held fan-out of the same kind stays where it is)
        let (s, sent) := deliverFrom s k old to.length []
        deliverChanged { y with srv := s } k sent y.srv.now
      | _ => (y, "none")
  | ["cbrun", k, "step"] =>
    match parseKind k with
    | none => (y, "bad-op")
    | some k =>
      if !y.hook || !(y.srv.ks k).inflight.isEmpty then (y, "refused") else
      let (s, outs) := cbrun y.srv k
      match outs with
      | [.changed _ to] => ({ y with srv := s }, if to.isEmpty then "fan done" else "fan open")
      | _ => (y, "none")
  | ["fsend", k] =>
    match parseKind k with
    | none => (y, "bad-op")
    | some k =>
      let infl := (y.srv.ks k).inflight
      if infl.isEmpty then (y, "refused") else
      -- the order of the loop over the subscriber map is not determined: follow the implementation
      let hint := (words impl).head?.bind (sidOfName y)
      let idx := match hint with
        | some sid => (infl.findIdx? (fun x => x.sid == sid)).getD 0
        | none => 0
      let addr := slotNameOfSid y (infl.getD idx ⟨0, none⟩).sid
      let (s, outs) := deliver y.srv k idx
      let sent := outs.filterMap (fun x => match x with | .sent _ x => some x | _ => none)
      let (y, str) := deliverChanged { y with srv := s } k sent y.srv.now
      (y, s!"{addr} {str} " ++ (if (s.ks k).inflight.isEmpty then "done" else "more"))
  | ["policy", u, pol] =>
    match parseUri u with
    | some u =>
      if pol == "refuse" then ({ y with refused := if y.refused.contains u then y.refused else y.refused ++ [u] }, "ok")
      else if pol == "accept" then ({ y with refused := y.refused.filter (· != u) }, "ok")
      else (y, "bad-op")
    | none => (y, "bad-op")
  | ["connect", c, sid, g, m] =>
    match parseSlot c, sid.toNat? with
    | some i, some sid =>
      if (y.slot i).used then (y, "refused") else
      let modern := g == "modern"
      let mask := parseMask m
      let s := hello (bind y.srv sid) sid modern
      let gated := modern && !mask.isEmpty
      let y := { y with srv := s }
      let d : DSlot := { used := true, sid := sid, modern := modern, mask := mask, gated := gated,
                         connected := !gated, caches := freshCaches y }
      (y.setSlot i d, if gated then "ok listen-held" else "ok")
    | _, _ => (y, "bad-op")
  | "listen" :: c :: rest =>
    match parseSlot c, holdTok rest with
    | some i, some hold =>
      let d := y.slot i
      if !d.used || !d.gated then (y, "refused") else
      let (s, outs) := listenOrRefuse y d.sid 0 d.mask []
      let a := firstAck outs
      let parks := hold && a != "noack"
      let d := { d with gated := false, connected := true, parked := if parks then d.parked ++ ["m"] else d.parked }
      (({ y with srv := s }).setSlot i d, if parks then a ++ " parked" else a)
    | _, _ => (y, "bad-op")
  | "subscribe" :: c :: u :: rest =>
    match parseSlot c, parseUri u, holdTok rest with
    | some i, some u, some hold =>
      let d := y.slot i
      if !d.used || !d.connected then (y, "refused") else
      if !d.modern then
        if hold then (y, "refused") else
        if y.refused.contains u then (y, "err") else ({ y with srv := subscribe y.srv d.sid 99 u }, "ok") else
      if d.cancelHeld.contains s!"r{u}" then (y, "refused") else
      if d.rsubs.contains u then (y, "noop") else
      let (s, outs) := listenOrRefuse y d.sid (u + 1) [] [u]
      let a := firstAck outs
      let parks := hold && a != "noack"
      let d := { d with rsubs := d.rsubs ++ [u], parked := if parks then d.parked ++ [s!"r{u}"] else d.parked }
      let d := d.setCache .read (Cache.step true (d.cache .read) (.sub u)).1
      (({ y with srv := s }).setSlot i d, if parks then a ++ " parked" else a)
    | _, _, _ => (y, "bad-op")
  | "xlisten" :: c :: name :: mask :: rest =>
    let us := rest.takeWhile (·.startsWith "u")
    let rest := rest.dropWhile (·.startsWith "u")
    match parseSlot c, parseXName name, holdTok rest, us.mapM parseUri with
    | some i, some id, some hold, some uris =>
      let d := y.slot i
      let kinds := parseMask mask
      if !d.used || !d.connected || !d.modern || id < 10 || !decide uris.Nodup || d.parked.contains name
         || d.cancelHeld.contains name
         || y.srv.listens.any (fun l => l.sid == d.sid && l.id == id) then (y, "refused") else
      let (s, outs) := listenOrRefuse y d.sid id kinds uris
      let a := firstAck outs
      let parks := hold && a != "noack"
      let d := { d with parked := if parks then d.parked ++ [name] else d.parked }
      (({ y with srv := s }).setSlot i d, if parks then a ++ " parked" else a)
    | _, _, _, _ => (y, "bad-op")
  | "xend" :: c :: name :: rest =>
    match parseSlot c, parseXName name, holdTok rest with
    | some i, some id, some hold =>
      let d := y.slot i
      if !d.used || !d.connected || !d.modern || d.parked.contains name || d.cancelHeld.contains name
         || !y.srv.acked.contains (d.sid, id) then (y, "refused") else
      if hold then (y.setSlot i { d with cancelHeld := d.cancelHeld ++ [name] }, "ok cancel-held") else
      ({ y with srv := listenEnd y.srv d.sid id }, "ok")
    | _, _, _ => (y, "bad-op")
  | ["canceldone", c, name] =>
    match parseSlot c with
    | some i =>
      let d := y.slot i
      if !d.used || !d.cancelHeld.contains name then (y, "refused") else
      let id := match parseXName name with
        | some id => id
        | none => ((name.drop 1).toNat?.getD 0) + 1     -- r<j>
      (({ y with srv := listenEnd y.srv d.sid id }).setSlot i { d with cancelHeld := d.cancelHeld.filter (· != name) }, "ok")
    | none => (y, "bad-op")
  | ["ackdone", c, which] =>
    match parseSlot c with
    | some i =>
      let d := y.slot i
      if !d.used || !d.parked.contains which then (y, "refused") else
      -- the handler goes on: in the code that exists it has nothing left to do but wait for its end
      (y.setSlot i { d with parked := d.parked.filter (· != which) }, "ok")
    | none => (y, "bad-op")
  | "unsubscribe" :: c :: u :: rest =>
    match parseSlot c, parseUri u, holdTok rest with
    | some i, some u, some hold =>
      let d := y.slot i
      if !d.used || !d.connected || d.parked.contains s!"r{u}" || d.cancelHeld.contains s!"r{u}" then (y, "refused") else
      if !d.modern then
        if hold then (y, "refused") else ({ y with srv := unsubscribe y.srv d.sid u }, "ok") else
      if !d.rsubs.contains u then (if hold then (y, "refused") else (y, "ok")) else
      let d := { d with rsubs := d.rsubs.filter (· != u) }
      let d := d.setCache .read (Cache.step true (d.cache .read) (.unsub u)).1
      if hold then (y.setSlot i { d with cancelHeld := d.cancelHeld ++ [s!"r{u}"] }, "ok cancel-held") else
      (({ y with srv := listenEnd y.srv d.sid (u + 1) }).setSlot i d, "ok")
    | _, _, _ => (y, "bad-op")
  | ["close", c] =>
    match parseSlot c with
    | some i =>
      let d := y.slot i
      if !d.used || !d.connected || !d.held.isEmpty || !d.parked.isEmpty || !d.cancelHeld.isEmpty then (y, "refused") else
      (({ y with srv := close y.srv d.sid }).setSlot i {}, "ok")
    | none => (y, "bad-op")
  | ["rupdated", u] =>
    match parseUri u with
    | some u =>
      let y := { y with content := fun k => if k == u then y.content u + 1 else y.content k }
      let y := y.cacheAll .read (.bump (fun k => k == u))
      deliverUpdated y u u (updList y.srv u)
    | none => (y, "bad-op")
  | ["rupdated", u, "names", v] =>
    match parseUri u, parseUri v with
    | some u, some v =>
      let y := { y with content := fun k => if k == v then y.content v + 1 else y.content k }
      let y := y.cacheAll .read (.bump (fun k => k == v))
      match (step y.srv (.updatedNamed u v)).2 with
      | [.updatedNamed _ _ to] => deliverUpdated y u v to
      | _ => (y, "bad-op")
    | _, _ => (y, "bad-op")
  | ["list", c, key, mode] =>
    match parseSlot c, parseKey key with
    | some i, some (o, k) =>
      let d := y.slot i
      if !d.used || !d.connected || d.held.contains key || !(["n", "post", "pre"].contains mode) then (y, "refused") else
      if !d.modern then
        -- no cache under the legacy protocol: every call is answered by the server
        let v := curVersion y o k
        match mode with
        | "n" => (y, s!"ret v{v} miss")
        | "post" =>
          let c1 : Cache.State := { d.cache o with fills := (d.cache o).fills ++ [⟨k, 0, .responded v y.ttl, 0⟩] }
          (y.setSlot i { (d.setCache o c1) with held := d.held ++ [key] }, s!"held v{v}")
        | _ =>
          let c1 : Cache.State := { d.cache o with fills := (d.cache o).fills ++ [⟨k, 0, .sent, 0⟩] }
          (y.setSlot i { (d.setCache o c1) with held := d.held ++ [key] }, "pre")
      else
        let (c1, o1) := Cache.step true (d.cache o) (.listStart k)
        match o1 with
        | [.ret _ v _ _] => (y.setSlot i (d.setCache o c1), s!"ret v{v} hit")
        | _ =>
          let idx := c1.fills.length - 1
          match mode with
          | "pre" => (y.setSlot i { (d.setCache o c1) with held := d.held ++ [key] }, "pre")
          | "post" =>
            let c2 := (Cache.step true c1 (.serve idx y.ttl)).1
            (y.setSlot i { (d.setCache o c2) with held := d.held ++ [key] }, s!"held v{c1.srv k}")
          | _ =>
            let c2 := (Cache.step true c1 (.serve idx y.ttl)).1
            let (c3, _) := Cache.step true c2 (.fill idx)
            (y.setSlot i (d.setCache o c3), s!"ret v{c1.srv k} miss")
    | _, _ => (y, "bad-op")
  | ["send", c, key] =>
    match parseSlot c, parseKey key with
    | some i, some (o, k) =>
      let d := y.slot i
      let cst := d.cache o
      match cst.fills.findIdx? (fun f => f.key == k && f.stage == .sent) with
      | some idx =>
        if !d.held.contains key then (y, "refused") else
        if !d.modern then
          let v := curVersion y o k
          (y.setSlot i (d.setCache o { cst with fills := cst.fills.set idx ⟨k, 0, .responded v y.ttl, 0⟩ }), s!"held v{v}")
        else
          (y.setSlot i (d.setCache o (Cache.step true cst (.serve idx y.ttl)).1), s!"held v{cst.srv k}")
      | none => (y, "refused")
    | _, _ => (y, "bad-op")
  | ["fill", c, key] =>
    match parseSlot c, parseKey key with
    | some i, some (o, k) =>
      let d := y.slot i
      let cst := d.cache o
      match cst.fills.findIdx? (fun f => f.key == k && f.stage != .sent) with
      | some idx =>
        if !d.held.contains key then (y, "refused") else
        let v := match (cst.fills.getD idx ⟨0, 0, .sent, 0⟩).stage with | .responded v _ => v | _ => 0
        let d := { d with held := d.held.filter (· != key) }
        if !d.modern then
          (y.setSlot i (d.setCache o { cst with fills := cst.fills.eraseIdx idx }), s!"ret v{v} miss")
        else
          (y.setSlot i (d.setCache o (Cache.step true cst (.fill idx)).1), s!"ret v{v} miss")
      | none => (y, "refused")
    | _, _ => (y, "bad-op")
  | ["tables"] => (y, tablesStr y)
  | ["end"] => (y, "ok")
  | _ => (y, "bad-op")

/-! ### the monitor: C18 as a predicate on what the implementation did

Built only from the labels and the implementation's observations (acks it sent, deliveries it made,
versions it returned) — never from the model state above. -/

/-- A live listen as the IMPLEMENTATION acknowledged it. -/
structure MListen where
  name : String
  kinds : List Kind
  uris : List Nat

/-- A listen ended while a live, acknowledged listen of the same session shared a grant with it. -/
structure MLost where
  ended : String
  survivor : String
  what : String        -- kind letter or u<j>
  endedOlder : Bool

structure MSlot where
  connected : Bool := false
  modern : Bool := false
  listens : List MListen := []   -- live listens of the session with a non-empty acknowledged grant, oldest first
  luris : List Nat := []         -- legacy resources/subscribe answered ok and not undone
  endedOther : Bool := false     -- a listen of this session ended while another one was live (F19 shape)
  lost : List MLost := []
  owed : List Kind := []
  skipped : List Kind := []      -- owed kinds for which a callback ran without reaching this (entitled) session
  window : List String := []     -- listen handlers held right after the write of their ack ("m", "r<j>", "L<n>")
  skippedAck : List Kind := []   -- … and the callback ran inside the window of a listen granted the kind
  maxHandled : List (String × Nat) := []
  invalidated : List String := []
  suspect : List (String × Nat) := []
  starts : List (String × Nat) := []   -- held calls: key ↦ maxHandled when the call started
  midFan : List Kind := []       -- a held fan-out of the kind had written to this session when a further change was made
  refusedUris : List Nat := []   -- URIs of subscriptions/listen requests of this session that got no acknowledgement while the SubscribeHandler refused one of them
  csubs : List Nat := []         -- cs.resourceSubs as the calls of Subscribe / Unsubscribe leave it
  offTable : List String := []   -- read keys whose resource-updated was handled while the URI was not in cs.resourceSubs

/-- A fan-out of `notifySessions(kind)` whose loop is held before every write. -/
structure MFan where
  kind : Kind
  expect : List (Nat × List String) := []    -- slots entitled when the snapshot was taken, and the stamps that were right then
  served : List Nat := []

structure Mon where
  cap : Kind → Cap := fun _ => .unset
  ver : FSet → Nat := fun _ => 0
  cnt : FSet → Nat := fun _ => 0
  content : Nat → Nat := fun _ => 0
  slots : List MSlot := [{}, {}, {}]
  refused : List Nat := []
  fans : List MFan := []

def Mon.slot (m : Mon) (i : Nat) : MSlot := m.slots.getD i {}
def Mon.setSlot (m : Mon) (i : Nat) (d : MSlot) : Mon := { m with slots := setAt m.slots i d }
def Mon.mapSlots (m : Mon) (f : MSlot → MSlot) : Mon := { m with slots := m.slots.map f }

structure Delivery where
  slot : Nat
  method : String
  stamp : String
  hk : String

def parseDeliveries (impl : String) : Option (Nat × List Delivery) :=
  match words impl with
  | hd :: rest =>
    if !hd.startsWith "sent@" then none else
    match (hd.drop 5).toNat? with
    | none => none
    | some t =>
      let ds := rest.filterMap (fun tok =>
        match tok.splitOn ":" with
        | [c, m, st, hk] => (parseSlot c).map (fun i => (⟨i, m, st, hk⟩ : Delivery))
        | _ => none)
      if ds.length == rest.length then some (t, ds) else none
  | [] => none

def keysOfKind : Kind → List String
  | .tools => ["tools"] | .prompts => ["prompts"] | .resources => ["resources", "templates"]

def fsetOfKey : String → Option FSet
  | "tools" => some .tools | "prompts" => some .prompts | "resources" => some .resources
  | "templates" => some .templates | _ => none

def Mon.verOfKey (m : Mon) (key : String) : Nat :=
  match fsetOfKey key with
  | some f => m.ver f
  | none => if key.startsWith "read:" then m.content ((key.drop 5).toNat?.getD 0) else 0

def MSlot.maxOf (d : MSlot) (key : String) : Nat := (d.maxHandled.lookup key).getD 0

/-- The client handled a notification covering `keys`. -/
def MSlot.handled (d : MSlot) (m : Mon) (keys : List String) : MSlot :=
  keys.foldl (fun d key =>
    { d with maxHandled := assocSet d.maxHandled key (max (d.maxOf key) (m.verOfKey key)),
             invalidated := if d.invalidated.contains key then d.invalidated else d.invalidated ++ [key] }) d

/-- Some live, acknowledged listen of the session was granted the kind. -/
def MSlot.grantedK (d : MSlot) (k : Kind) : Bool := d.listens.any (·.kinds.contains k)

/-- The session's subscription to the URI is live. -/
def MSlot.grantedU (d : MSlot) (u : Nat) : Bool :=
  if d.modern then d.listens.any (·.uris.contains u) else d.luris.contains u

/-- The handler of a live listen that was granted the kind / URI is held right after its ack write. -/
def MSlot.windowK (d : MSlot) (k : Kind) : Bool :=
  d.listens.any (fun l => l.kinds.contains k && d.window.contains l.name)
def MSlot.windowU (d : MSlot) (u : Nat) : Bool :=
  d.listens.any (fun l => l.uris.contains u && d.window.contains l.name)

def entitledNow (d : MSlot) (k : Kind) : Bool :=
  d.connected && (!d.modern || d.grantedK k)

/-- A listen the implementation acknowledged with a non-empty grant is live from now on. -/
def MSlot.addListen (d : MSlot) (name : String) (kinds : List Kind) (uris : List Nat) : MSlot :=
  if kinds.isEmpty && uris.isEmpty then d else
  { d with listens := d.listens.filter (·.name != name) ++ [⟨name, kinds, uris⟩] }

/-- The listen `x` ended (the client cancelled it and the implementation's handler has returned).
Every live listen of the session that shares a grant with it is remembered: if the session is later
found missing from that table, it was this end that removed the entry. -/
def MSlot.endListen (d : MSlot) (x : String) : MSlot :=
  match d.listens.find? (·.name == x) with
  | none => d
  | some lx =>
    let idx (n : String) : Nat := (d.listens.findIdx? (·.name == n)).getD 0
    let others := d.listens.filter (·.name != x)
    let recs := others.flatMap (fun y =>
      (Kind.all.filter (fun k => lx.kinds.contains k && y.kinds.contains k)).map
        (fun k => (⟨x, y.name, kindLetter k, idx x < idx y.name⟩ : MLost)) ++
      (lx.uris.filter y.uris.contains).map (fun u => (⟨x, y.name, s!"u{u}", idx x < idx y.name⟩ : MLost)))
    { d with listens := others, endedOther := d.endedOther || !others.isEmpty,
             lost := d.lost.filter (fun r => r.survivor != x) ++ recs }

/-- A table dump shows the session in the table of `what`: the ends recorded so far removed nothing. -/
def MSlot.present (d : MSlot) (what : String) : MSlot := { d with lost := d.lost.filter (·.what != what) }

/-- The session is missing from the table of `what` although a live, acknowledged listen was granted it:
was it the end of an overlapping listen that removed the entry? -/
def MSlot.lostClause (d : MSlot) (what : String) (seen : String) : Option String :=
  -- the most recent such end
  match d.lost.reverse.find? (fun r => r.what == what && d.listens.any (·.name == r.survivor)) with
  | none => none
  | some r =>
    if d.window.contains r.survivor then
      some (s!"C18: ack_after_registration or acked_stays_served (overlapping listens): the session is missing from the table of a subscription while the handler of its live listen that was granted it is still held right after its acknowledgement write AND another listen of the session that was granted the same thing has ended (registered after the acknowledgement, or removed by that end) [ended={r.ended} survivor={r.survivor} what={what}; seen: {seen}]")
    else
    let tab := if what.startsWith "u" then "resource" else "list-changed"
    let head := s!"C18: acked_stays_served (overlapping listens, {tab}): "
    let body :=
      if what.startsWith "u" then
        if r.endedOlder then
          "the end of the OLDER subscriptions/listen stream unsubscribed the session from the URI although a newer, still live, acknowledged stream of the same session was granted the same URI"
        else
          "the end of the NEWER subscriptions/listen stream unsubscribed the session from the URI although an older, still live, acknowledged stream of the same session was granted the same URI"
      else
        if r.endedOlder then
          "the end of the OLDER subscriptions/listen stream took the session out of the list-changed table although a newer, still live, acknowledged stream of the same session was granted the same kind"
        else
          "the end of the NEWER subscriptions/listen stream took the session out of the list-changed table although an older, still live, acknowledged stream of the same session was granted the same kind"
    some (head ++ body ++ s!" [ended={r.ended} survivor={r.survivor} what={what}; seen: {seen}]")

def parseRet (impl : String) : Option (Nat × Bool) :=
  match words impl with
  | ["ret", v, h] => if v.startsWith "v" then (v.drop 1).toNat?.map (fun n => (n, h == "hit")) else none
  | _ => none

/-- Check a returned version against the notifications handled before the call started. -/
def checkRet (d : MSlot) (key : String) (v : Nat) (hit : Bool) (startMax : Nat) : Option String :=
  if v < startMax then
    if hit && key.startsWith "read:" && (d.suspect.lookup key) != some v then
      some ("C18: invalidate_on_every_handled_update: a read issued after the client handled a notifications/resources/updated naming that URI was answered from the cache with the content from before the update — the handled notification did not invalidate the read cache" ++
        (if d.offTable.contains key then " (the client held no Subscribe entry for the URI when it handled the update: the update named a sub-resource of what it subscribed to, or arrived on a stream opened below Subscribe, or overtook the cancellation after Unsubscribe)" else ""))
    else
    if hit && (d.suspect.lookup key) == some v then
      some "C18: F7 list_after_notification_fresh: a response obtained before the notification was put into the cache after the client handled it and is served to a later call (cache has no generation)"
    else some "C18: list_after_notification_fresh: call started after a handled notification returned an older version"
  else if hit && d.invalidated.contains key then
    some "C18: invalidate_on_notification: cache hit although nothing was fetched since the invalidating notification"
  else none

def first (l : List (Option String)) : Option String := l.findSome? id

/-- `T[c0=m c1=m] P[] … S[c0 c1]` ↦ [("T", ["c0=m", "c1=m"]), ("P", []), …]. -/
def parseTables (impl : String) : List (String × List String) :=
  (impl.splitOn "] ").map (fun piece =>
    match piece.splitOn "[" with
    | [name, body] => (name, words (body.replace "]" ""))
    | _ => ("", []))

/-- `ack <kinds|-> [u<j>…] [parked]` ↦ (kinds, uris, parked). -/
def parseAck (impl : String) : Option (List Kind × List Nat × Bool) :=
  match words impl with
  | "ack" :: ks :: rest => some (parseMask ks, rest.filterMap parseUri, rest.contains "parked")
  | _ => none

def monitorStep (m : Mon) (toks : List String) (impl : String) : Mon × Option String :=
  match toks with
  | ["config", a, b, c, _] =>
    match parseCap a, parseCap b, parseCap c with
    | some ca, some cb, some cc =>
      ({ cap := fun k => match k with | .tools => ca | .prompts => cb | .resources => cc,
         ver := fun f => if f == .resources then 2 else 0,
         cnt := fun f => if f == .resources then 2 else 0 }, none)
    | _, _, _ => (m, none)
  | ["change", f, e] =>
    match parseFSet f, parseEff e with
    | some f, some e =>
      if impl != "ok" || e == .noop || (e == .remove && m.cnt f == 0) then (m, none) else
      let k : Kind := match f with | .tools => .tools | .prompts => .prompts | _ => .resources
      let m := { m with ver := fun f' => if f' == f then m.ver f + 1 else m.ver f',
                        cnt := fun f' => if f' == f then (match e with | .add => m.cnt f + 1 | .remove => m.cnt f - 1 | _ => m.cnt f) else m.cnt f' }
      if m.cap k == .off then (m, none) else
      -- a held fan-out of the kind: what it writes from now on was decided before this change
      let servedMid : List Nat := (m.fans.filter (·.kind == k)).flatMap (·.served)
      let m := { m with slots := (List.range 3).map (fun i =>
                          let d := m.slot i
                          if servedMid.contains i && !d.midFan.contains k then { d with midFan := d.midFan ++ [k] } else d) }
      (m.mapSlots (fun d => if d.connected && !d.owed.contains k then { d with owed := d.owed ++ [k] } else d), none)
    | _, _ => (m, none)
  | ["cbrun", k] =>
    match parseKind k with
    | none => (m, none)
    | some k =>
      if impl == "none" then (m, none) else
      match parseDeliveries impl with
      | none => (m, some "C18: malformed delivery record")
      | some (_, ds) =>
        let perDelivery := ds.map (fun x =>
          let d := m.slot x.slot
          if x.method != listChangedMethod k then some "C18: fanout_entitled_only: a callback of one kind sent another kind's notification"
          else if m.cap k == .off then some "C18: none_when_disabled: list_changed delivered although the capability is switched off"
          else if !d.connected then some "C18: fanout_entitled_only: delivery to a session that is not connected"
          else if !d.modern && x.stamp != "plain" then some "C18: fanout_entitled_only: legacy session got a stamped notification"
          else if d.modern && !d.grantedK k then some "C18: fanout_entitled_only: 2026-07-28 session without a matching subscription got the notification"
          else if d.modern && !d.listens.any (fun l => l.name == x.stamp && l.kinds.contains k) then
            some "C18: fanout_entitled_only: notification not stamped with the request id of a live listen of the session that was granted the kind"
          else if x.hk != "-" && x.hk != kindLetter k then some "C18: fanout_entitled_only: notification dispatched to the wrong client handler"
          else none)
        let dup := (List.range 3).any (fun i => (ds.filter (·.slot == i)).length > 1)
        let got (i : Nat) : Bool := ds.any (·.slot == i)
        let viol := first (perDelivery ++
          [if dup then some "C18: fanout_entitled_only: a session got the same notification twice" else none])
        -- bookkeeping: a recipient's debt of kind k is discharged (the notification was sent after the
        -- change that created it) and it handled the notification; a session that is not entitled at this
        -- snapshot is owed nothing; an entitled session that was skipped stays in debt — `end` reports it
        -- unless a later callback reaches it
        let m := { m with slots := (List.range 3).map (fun i =>
          let d := m.slot i
          if got i then ({ d with owed := d.owed.filter (· != k), skipped := d.skipped.filter (· != k),
                                  skippedAck := d.skippedAck.filter (· != k), midFan := d.midFan.filter (· != k) }).handled m (keysOfKind k)
          else if d.owed.contains k && entitledNow d k then
            { d with skipped := if d.skipped.contains k then d.skipped else d.skipped ++ [k],
                     skippedAck := if d.modern && d.windowK k && !d.skippedAck.contains k
                                   then d.skippedAck ++ [k] else d.skippedAck }
          else { d with owed := d.owed.filter (· != k) }) }
        (m, viol)
  | ["policy", u, pol] =>
    match parseUri u with
    | some u => ({ m with refused := if pol == "refuse" then m.refused ++ [u] else m.refused.filter (· != u) }, none)
    | none => (m, none)
  | ["cbrun", k, "step"] =>
    match parseKind k with
    | none => (m, none)
    | some k =>
      if !impl.startsWith "fan" then (m, none) else
      -- the snapshot is taken now: who is entitled now is to be written to, under a stamp that is right now
      let expect := (List.range 3).filterMap (fun i =>
        let d := m.slot i
        if entitledNow d k then
          some (i, if d.modern then (d.listens.filter (·.kinds.contains k)).map (·.name) else ["plain"])
        else none)
      let m := { m with slots := (List.range 3).map (fun i =>
        let d := m.slot i
        if expect.any (·.1 == i) then d else { d with owed := d.owed.filter (· != k) }) }
      let fan : MFan := { kind := k, expect := expect }
      if impl == "fan done" then
        -- nothing to write: every entitled session in debt was skipped
        let m := { m with slots := (List.range 3).map (fun i =>
          let d := m.slot i
          if expect.any (·.1 == i) && d.owed.contains k then
            { d with skipped := if d.skipped.contains k then d.skipped else d.skipped ++ [k],
                     skippedAck := if d.modern && d.windowK k && !d.skippedAck.contains k then d.skippedAck ++ [k] else d.skippedAck }
          else d) }
        (m, none)
      else ({ m with fans := m.fans.filter (·.kind != k) ++ [fan] }, none)
  | ["fsend", k] =>
    match parseKind k with
    | none => (m, none)
    | some k =>
      match words impl with
      | addr :: rest =>
        if rest.isEmpty then (m, none) else
        let last := rest.getLast?.getD ""
        let body := String.intercalate " " rest.dropLast
        match m.fans.find? (·.kind == k), parseDeliveries body with
        | some fan, some (_, ds) =>
          let perDelivery := ds.map (fun x =>
            let d := m.slot x.slot
            if x.method != listChangedMethod k then some "C18: fanout_entitled_only: a callback of one kind sent another kind's notification"
            else if m.cap k == .off then some "C18: none_when_disabled: list_changed delivered although the capability is switched off"
            else if !d.connected then some "C18: fanout_entitled_only: delivery to a session that is not connected"
            else if !d.modern && x.stamp != "plain" then some "C18: fanout_entitled_only: legacy session got a stamped notification"
            else match fan.expect.find? (·.1 == x.slot) with
              | none => some "C18: sent_was_snapshot / fanout_entitled_only: a held fan-out wrote to a session that was not entitled when its snapshot was taken"
              | some (_, stamps) =>
                if !stamps.contains x.stamp then
                  some "C18: sent_was_snapshot / fanout_entitled_only: a held fan-out stamped its notification with an id that belonged to no listen of the session granted the kind when the snapshot was taken"
                else if fan.served.contains x.slot then some "C18: fanout_entitled_only: a session got the same notification twice"
                else if x.hk != "-" && x.hk != kindLetter k then some "C18: fanout_entitled_only: notification dispatched to the wrong client handler"
                else none)
          let dropped := match parseSlot addr with
            | some i => if ds.isEmpty && (m.slot i).connected && fan.expect.any (·.1 == i) then
                some "C18: at_least_one_after_burst (blocked fan-out): the write of the fan-out to a connected, entitled session delivered nothing" else none
            | none => none
          let got (i : Nat) : Bool := ds.any (·.slot == i)
          -- the session handles this notification NOW, after every change made so far — also those made since
          -- the snapshot: its debt is discharged (the sessions written to BEFORE such a change are the ones
          -- that depend on the change arming a timer of its own: `change_during_fanout_announced`)
          let m := { m with slots := (List.range 3).map (fun i =>
            let d := m.slot i
            if got i then
              ({ d with owed := d.owed.filter (· != k), skipped := d.skipped.filter (· != k),
                        skippedAck := d.skippedAck.filter (· != k), midFan := d.midFan.filter (· != k) }).handled m (keysOfKind k)
            else d) }
          let fan := { fan with served := fan.served ++ ds.map (·.slot) }
          let m :=
            if last == "done" then
              { m with fans := m.fans.filter (·.kind != k),
                       slots := (List.range 3).map (fun i =>
                         let d := m.slot i
                         if fan.expect.any (·.1 == i) && !fan.served.contains i && d.owed.contains k && entitledNow d k then
                           { d with skipped := if d.skipped.contains k then d.skipped else d.skipped ++ [k] }
                         else d) }
            else { m with fans := m.fans.map (fun f => if f.kind == k then fan else f) }
          (m, first (perDelivery ++ [dropped]))
        | _, _ => (m, none)
      | [] => (m, none)
  | ["canceldone", c, name] =>
    match parseSlot c with
    | some i => if impl == "ok" then (m.setSlot i ((m.slot i).endListen name), none) else (m, none)
    | none => (m, none)
  | ["connect", c, _, g, _] =>
    match parseSlot c with
    | some i =>
      if impl.startsWith "ok" then (m.setSlot i { connected := true, modern := g == "modern" }, none) else (m, none)
    | none => (m, none)
  | "listen" :: c :: _ =>
    match parseSlot c, parseAck impl with
    | some i, some (ks, us, parked) =>
      let d := (m.slot i).addListen "m" ks us
      (m.setSlot i { d with window := if parked then d.window ++ ["m"] else d.window }, none)
    | _, _ => (m, none)
  | "xlisten" :: c :: name :: _ :: rest =>
    match parseSlot c, parseAck impl with
    | some i, some (ks, us, parked) =>
      let d := (m.slot i).addListen name ks us
      (m.setSlot i { d with window := if parked then d.window ++ [name] else d.window }, none)
    | some i, none =>
      let us := rest.filterMap parseUri
      let d := m.slot i
      if impl == "noack" && us.any m.refused.contains then
        (m.setSlot i { d with refusedUris := d.refusedUris ++ us.filter (fun u => !d.refusedUris.contains u) }, none)
      else (m, none)
    | _, _ => (m, none)
  | "xend" :: c :: name :: _ =>
    match parseSlot c with
    | some i => if impl == "ok" then (m.setSlot i ((m.slot i).endListen name), none) else (m, none)
    | none => (m, none)
  | "subscribe" :: c :: u :: _ =>
    match parseSlot c, parseUri u with
    | some i, some u =>
      let d := m.slot i
      if !d.modern then
        if impl == "ok" && !d.luris.contains u then (m.setSlot i { d with luris := d.luris ++ [u] }, none) else (m, none)
      else
        match parseAck impl with
        | some (ks, us, parked) =>
          let d := d.addListen s!"r{u}" ks us
          (m.setSlot i { d with window := if parked then d.window ++ [s!"r{u}"] else d.window,
                                csubs := if d.csubs.contains u then d.csubs else d.csubs ++ [u] }, none)
        | none =>
          if impl == "noack" then
            (m.setSlot i { d with csubs := if d.csubs.contains u then d.csubs else d.csubs ++ [u],
                                  refusedUris := if m.refused.contains u && !d.refusedUris.contains u then d.refusedUris ++ [u] else d.refusedUris }, none)
          else (m, none)
    | _, _ => (m, none)
  | ["ackdone", c, which] =>
    match parseSlot c with
    | some i =>
      let d := m.slot i
      if impl.startsWith "ok" then (m.setSlot i { d with window := d.window.filter (· != which) }, none) else (m, none)
    | none => (m, none)
  | "unsubscribe" :: c :: u :: _ =>
    match parseSlot c, parseUri u with
    | some i, some u =>
      let d := m.slot i
      if impl == "ok" then
        if d.modern then (m.setSlot i { (d.endListen s!"r{u}") with csubs := d.csubs.filter (· != u) }, none)
        else (m.setSlot i { d with luris := d.luris.filter (· != u) }, none)
      else if impl == "ok cancel-held" then
        -- Unsubscribe has returned: cs.resourceSubs no longer has the URI; the stream is live until the cancellation arrives
        (m.setSlot i { d with csubs := d.csubs.filter (· != u) }, none)
      else (m, none)
    | _, _ => (m, none)
  | ["close", c] =>
    match parseSlot c with
    | some i =>
      if impl == "ok" then
        ({ (m.setSlot i {}) with fans := m.fans.map (fun f =>
            { f with expect := f.expect.filter (·.1 != i), served := f.served.filter (· != i) }) }, none)
      else (m, none)
    | none => (m, none)
  | "rupdated" :: u :: named =>
    let vOpt : Option Nat := match named with
      | [] => parseUri u
      | ["names", v] => parseUri v
      | _ => none
    match parseUri u, vOpt with
    | some u, some v =>
      -- the subscribers of u are notified; the notification names v, whose content has changed
      let m := { m with content := fun k => if k == v then m.content v + 1 else m.content k }
      match parseDeliveries impl with
      | none => (m, some "C18: malformed delivery record")
      | some (_, ds) =>
        let got (i : Nat) : Bool := ds.any (·.slot == i)
        let perSlot := (List.range 3).map (fun i =>
          let d := m.slot i
          let want := d.connected && d.grantedU u
          let n := (ds.filter (·.slot == i)).length
          if want && n == 0 then
            match d.lostClause s!"u{u}" "a ResourceUpdated call did not reach the session" with
            | some c => some c
            | none =>
              if d.modern && d.windowU u then
                some "C18: ack_after_registration: the server acknowledged the session's subscription to the URI, but a ResourceUpdated call made while the listen handler was still held right after the acknowledgement write did not reach the session (the subscription is registered after it is acknowledged)"
              else some "C18: updated_reaches_exactly_subscribers: a session subscribed to the URI was not notified"
          else if !want && n > 0 then
            if d.refusedUris.contains u then
              some "C18: refused_listen_leaves_no_subscription: the session's subscriptions/listen request naming the URI was refused by the SubscribeHandler (no acknowledgement, no stream), yet a ResourceUpdated call for the URI reached the session: the URIs registered before the refused one stayed subscribed"
            else some "C18: updated_reaches_exactly_subscribers: a session not subscribed to the URI was notified"
          else if n > 1 then some "C18: updated_reaches_exactly_subscribers: a subscriber was notified more than once"
          else none)
        let perDelivery := ds.map (fun x =>
          let d := m.slot x.slot
          if x.method != resourceUpdatedMethod then some "C18: updated_reaches_exactly_subscribers: wrong notification method"
          else if x.hk != s!"u{v}" then some "C18: updated_reaches_exactly_subscribers: notification for another URI"
          else if !d.modern && x.stamp != "plain" then some "C18: updated_reaches_exactly_subscribers: legacy session got a stamped notification"
          else if d.modern && !d.listens.any (fun l => l.name == x.stamp && l.uris.contains u) then
            if d.refusedUris.contains u && !d.grantedU u then none   -- reported per slot above
            else some "C18: updated_reaches_exactly_subscribers: not stamped with the request id of a live listen of the session that carries the subscription"
          else none)
        let m := { m with slots := (List.range 3).map (fun i =>
          let d := m.slot i
          if got i then
            let key := s!"read:{v}"
            let d := d.handled m [key]
            if d.modern && !d.csubs.contains v then
              { d with offTable := if d.offTable.contains key then d.offTable else d.offTable ++ [key] }
            else { d with offTable := d.offTable.filter (· != key) }
          else d) }
        (m, first (perSlot ++ perDelivery))
    | _, _ => (m, none)
  | ["list", c, key, mode] =>
    match parseSlot c with
    | none => (m, none)
    | some i =>
      let d := m.slot i
      match parseRet impl with
      | some (v, hit) =>
        let viol := checkRet d key v hit (d.maxOf key)
        let d := if hit then d else
          { d with invalidated := d.invalidated.filter (· != key), suspect := d.suspect.filter (·.1 != key) }
        (m.setSlot i d, viol)
      | none =>
        if (impl == "pre" || impl.startsWith "held") && mode != "n" then
          (m.setSlot i { d with starts := assocSet d.starts key (d.maxOf key) }, none)
        else (m, none)
  | ["fill", c, key] =>
    match parseSlot c with
    | none => (m, none)
    | some i =>
      let d := m.slot i
      match parseRet impl with
      | some (v, _) =>
        let startMax := (d.starts.lookup key).getD 0
        let viol := if v < startMax then
            some "C18: list_after_notification_fresh: call started after a handled notification returned an older version"
          else none
        -- a notification covering the key was handled while the call was in flight: what it stores is suspect
        let susp := d.maxOf key > startMax && v < d.maxOf key
        let d := { d with starts := d.starts.filter (·.1 != key),
                          invalidated := d.invalidated.filter (· != key),
                          suspect := if susp then assocSet d.suspect key v else d.suspect.filter (·.1 != key) }
        (m.setSlot i d, viol)
      | none => (m, none)
  | ["tables"] =>
    -- closed_sessions_forgotten: no table and not the session list may mention a session that is
    -- not connected (`x<sid>`: a session the harness saw closing; `c<i>`: a slot the monitor saw closing)
    let flat := String.map (fun ch => if ch == '[' || ch == ']' then ' ' else ch) impl
    let bad := (words flat).any (fun w =>
      w.startsWith "x" ||
      (match parseSlot ((w.splitOn "=").headD "") with
       | some i => !(m.slot i).connected
       | none => false))
    -- acked_stays_served: the session of every listen the implementation acknowledged (and the client has
    -- not ended) is in the implementation's table of everything that listen was granted, under the request
    -- id of a live listen of the session that was granted the same thing
    let tabs := parseTables impl
    let has (t : String) (e : String) : Bool := ((tabs.lookup t).getD []).contains e
    let missing := (List.range 3).map (fun i =>
      let d := m.slot i
      if !d.connected then none else
      let kindMiss := if !d.modern then [] else Kind.all.filter (fun k => d.grantedK k &&
        !d.listens.any (fun l => l.kinds.contains k && has (kindLetter k).toUpper s!"c{i}={l.name}"))
      let uriMiss := (List.range 3).filter (fun u => d.grantedU u &&
        (if d.modern then !d.listens.any (fun l => l.uris.contains u && has s!"U{u}" s!"c{i}={l.name}")
         else !has s!"U{u}" s!"c{i}=q"))
      match first (kindMiss.map (fun k => d.lostClause (kindLetter k) "table dump") ++
                   uriMiss.map (fun u => d.lostClause s!"u{u}" "table dump")) with
      | some c => some c
      | none =>
        if kindMiss.any d.windowK || (d.modern && uriMiss.any d.windowU) then
          some "C18: ack_after_registration: the server has written the acknowledgement of a subscriptions/listen (the handler is held right after that write) but the subscription it acknowledges is not in the server's table"
        else
          if !kindMiss.isEmpty && d.endedOther then
            some "C18: F19 acked_stays_registered: the session's acknowledged list-changed subscription left the table when another subscriptions/listen of the same session ended"
          else if !kindMiss.isEmpty || !uriMiss.isEmpty then
            some "C18: acked_stays_registered: a subscription the server acknowledged, and the client has not ended, is missing from the server's table"
          else none)
    let m := { m with slots := (List.range 3).map (fun i =>
      let d := m.slot i
      if !d.connected || !d.modern then d else
      let d := Kind.all.foldl (fun d k =>
        if d.listens.any (fun l => l.kinds.contains k && has (kindLetter k).toUpper s!"c{i}={l.name}") then d.present (kindLetter k) else d) d
      (List.range 3).foldl (fun d u =>
        if d.listens.any (fun l => l.uris.contains u && has s!"U{u}" s!"c{i}={l.name}") then d.present s!"u{u}" else d) d) }
    -- no table holds an entry of a 2026-07-28 session under an id that is not the id of a live, acknowledged
    -- listen of that session granted the table's kind / URI (a refused request leaves nothing behind)
    let foreign := (List.range 3).map (fun i =>
      let d := m.slot i
      if !d.connected || !d.modern then none else
      let badK := Kind.all.any (fun k => ((tabs.lookup (kindLetter k).toUpper).getD []).any (fun e =>
        e.startsWith s!"c{i}=" && !d.listens.any (fun l => l.kinds.contains k && e == s!"c{i}={l.name}")))
      let badU := (List.range 3).filter (fun u => ((tabs.lookup s!"U{u}").getD []).any (fun e =>
        e.startsWith s!"c{i}=" && !d.listens.any (fun l => l.uris.contains u && e == s!"c{i}={l.name}")))
      if badU.any d.refusedUris.contains then
        some "C18: refused_listen_leaves_no_subscription: resourceSubscriptions still holds the session for a URI of a subscriptions/listen request that the SubscribeHandler refused (no acknowledgement, no stream): the URIs registered before the refused one were not unsubscribed"
      else if badK || !badU.isEmpty then
        some "C18: acked_stays_registered / refused_listen_leaves_no_subscription: a subscription table holds a 2026-07-28 session under a request id that is not the id of a live, acknowledged listen of that session granted that kind or URI"
      else none)
    (m, first ((if bad then some "C18: closed_sessions_forgotten: a subscription table or the session list still mentions a closed session" else none) :: missing ++ foreign))
  | ["end"] =>
    let left := (List.range 3).map (fun i =>
      let d := m.slot i
      match Kind.all.find? (fun k => d.owed.contains k && entitledNow d k) with
      | none => none
      | some k =>
        match (if d.modern then d.lostClause (kindLetter k) "no notification reached the session after the last change" else none) with
        | some c => some c
        | none =>
          if d.midFan.contains k then
            some "C18: at_least_one_after_burst (blocked fan-out) / change_during_fanout_announced: a change was made while a list-changed fan-out of the same kind was in progress — this session had already been written to, a later write of the loop was still blocked — and the change was never announced to the session: no notification sent after the change reached it although every timer has fired and every callback has run"
          else if d.modern && d.skippedAck.contains k then
            some "C18: ack_after_registration / at_least_one_after_burst: the session held the acknowledgement of its list-changed subscription when the callback took its snapshot (the listen handler was held right after the acknowledgement write), the snapshot did not include it, and no later notification reached it"
          else if d.modern && d.endedOther then
            some "C18: F19 at_least_one_after_burst: the session's list-changed subscription was dropped when another subscriptions/listen of the same session ended"
          else if d.skipped.contains k then
            some "C18: at_least_one_after_burst: callbacks ran after the last change but none of them notified this entitled session"
          else some "C18: no_lost_notification: changes were made, every timer has fired and every callback has run, yet an entitled session was never notified after the last change")
    (m, first left)
  | _ => (m, none)

structure DState where
  sys : Sys := {}
  mon : Mon := {}

def engine : Engine DState where
  init := {}
  step d toks impl :=
    match toks with
    | ["reset"] => ({}, { model := "ok" })
    | _ =>
      let (sys', model) := modelStep d.sys toks impl
      let (mon', viol) := monitorStep d.mon toks impl
      ({ sys := sys', mon := mon' }, { model := model, violated := viol })

end Notify.Drv

def main : IO Unit := Proto.run Notify.Drv.engine
