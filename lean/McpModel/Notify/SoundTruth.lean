import McpModel.Notify.Monitor
/-!
# Clause soundness of the C18 monitor (E14), part 1: the ground truth of an observation trace

A trace is the list of records of one case: the harness's ops with the IMPLEMENTATION's observations.
What the property speaks about — which slots hold a connected session and of which protocol generation,
which subscriptions/listen streams of a session are live (acknowledged by the implementation and not
ended by the client) and what they were granted, which legacy resources/subscribe calls are live, how
the capabilities are configured, which version every list and resource has — is a function of the
records alone (`truth`, a fold of `truthStep`).  It mentions no judgement of the monitor (debts, skipped
callbacks, ended-listen records, handled versions, held fan-outs); `monAfter_truth` shows that the
monitor's copies of these facts are exactly this ground truth.
-/
namespace Notify.Sound
open Notify Notify.Mon Generated.Notify

abbrev Trace := List Rec

/-- what is true of a client slot after a prefix of the trace -/
structure TSlot where
  connected : Bool := false
  modern : Bool := false
  /-- live listens: acknowledged by the implementation with a non-empty grant, not ended by the client; oldest first -/
  listens : List MListen := []
  /-- live legacy subscriptions -/
  luris : List Nat := []
  /-- listens whose handler is held right after its acknowledgement write -/
  window : List Nat := []
  /-- cs.resourceSubs -/
  csubs : List Nat := []

structure Truth where
  cap : Kind → Cap := fun _ => .unset
  ver : FSet → Nat := fun _ => 0
  cnt : FSet → Nat := fun _ => 0
  content : Nat → Nat := fun _ => 0
  slots : Slot → TSlot := fun _ => {}

def Truth.setSlot (t : Truth) (i : Slot) (d : TSlot) : Truth :=
  { t with slots := fun j => if j = i then d else t.slots j }

def TSlot.add (d : TSlot) (id : Nat) (ks : List Kind) (us : List Nat) (parked : Bool) : TSlot :=
  { d with listens := if ks.isEmpty && us.isEmpty then d.listens else d.listens.filter (·.id != id) ++ [⟨id, ks, us⟩],
           window := if parked then d.window ++ [id] else d.window }

def TSlot.end_ (d : TSlot) (id : Nat) : TSlot := { d with listens := d.listens.filter (·.id != id) }

/-- the ground truth after one more record -/
def truthStep (t : Truth) (r : Rec) : Truth :=
  match r.op, r.obs with
  | .config ca cb cc _, _ =>
    { cap := fun k => match k with | .tools => ca | .prompts => cb | .resources => cc,
      ver := fun f => if f == .resources then 2 else 0,
      cnt := fun f => if f == .resources then 2 else 0 }
  | .change f e, .ok =>
    if e == .noop || (e == .remove && t.cnt f == 0) then t else { t with ver := bumpV t.ver f, cnt := bumpC t.cnt f e }
  | .connect c _ modern _, obs => if obs.isOk then t.setSlot c { connected := true, modern := modern } else t
  | .close c, .ok => t.setSlot c {}
  | .listen c _, .ack ks us parked => t.setSlot c ((t.slots c).add 0 ks us parked)
  | .xlisten c id _ _ _, .ack ks us parked => t.setSlot c ((t.slots c).add id ks us parked)
  | .subscribe c u _, obs =>
    let d := t.slots c
    if !d.modern then
      (match obs with
       | .ok => if !d.luris.contains u then t.setSlot c { d with luris := d.luris ++ [u] } else t
       | _ => t)
    else
      (match obs with
       | .ack ks us parked => t.setSlot c { (d.add (ridOf u) ks us parked) with csubs := addNew d.csubs u }
       | .noack => t.setSlot c { d with csubs := addNew d.csubs u }
       | _ => t)
  | .xend c id _, .ok => t.setSlot c ((t.slots c).end_ id)
  | .canceldone c id, .ok => t.setSlot c ((t.slots c).end_ id)
  | .unsubscribe c u _, .ok =>
    let d := t.slots c
    if d.modern then t.setSlot c { (d.end_ (ridOf u)) with csubs := d.csubs.filter (· != u) }
    else t.setSlot c { d with luris := d.luris.filter (· != u) }
  | .unsubscribe c u _, .okCancelHeld =>
    let d := t.slots c
    t.setSlot c { d with csubs := d.csubs.filter (· != u) }
  | .ackdone c id, obs =>
    let d := t.slots c
    if obs.isOk then t.setSlot c { d with window := d.window.filter (· != id) } else t
  | .rupdated _ v, _ => { t with content := fun k => if k == v then t.content v + 1 else t.content k }
  | _, _ => t

def truth (tr : Trace) : Truth := tr.foldl truthStep {}

/-- the ground truth before record `i` -/
def truthAt (tr : Trace) (i : Nat) : Truth := truth (tr.take i)

/-! ### the vocabulary of the property on the ground truth -/

/-- some live listen of the session was granted the kind -/
def TSlot.grantedK (d : TSlot) (k : Kind) : Prop := ∃ l ∈ d.listens, k ∈ l.kinds

/-- the session's subscription to the URI is live -/
def TSlot.subscribed (d : TSlot) (u : Nat) : Prop :=
  if d.modern then ∃ l ∈ d.listens, u ∈ l.uris else u ∈ d.luris

/-- "connected sessions entitled to them (legacy sessions, or 2026-07-28 sessions with a matching subscription)" -/
def TSlot.entitled (d : TSlot) (k : Kind) : Prop := d.connected = true ∧ (d.modern = false ∨ d.grantedK k)

def Truth.verOfKey (t : Truth) : Key → Nat
  | .list f => t.ver f
  | .read u => t.content u

/-! ### the monitor's copies are the ground truth -/

/-- the monitor's bookkeeping agrees with a ground truth -/
structure Agrees (m : MState) (t : Truth) : Prop where
  cap : m.cap = t.cap
  ver : m.ver = t.ver
  cnt : m.cnt = t.cnt
  content : m.content = t.content
  connected : ∀ i, (m.slots i).connected = (t.slots i).connected
  modern : ∀ i, (m.slots i).modern = (t.slots i).modern
  listens : ∀ i, (m.slots i).listens = (t.slots i).listens
  luris : ∀ i, (m.slots i).luris = (t.slots i).luris
  window : ∀ i, (m.slots i).window = (t.slots i).window
  csubs : ∀ i, (m.slots i).csubs = (t.slots i).csubs

theorem agrees_init : Agrees {} {} := ⟨rfl, rfl, rfl, rfl, fun _ => rfl, fun _ => rfl, fun _ => rfl, fun _ => rfl, fun _ => rfl, fun _ => rfl⟩

end Notify.Sound
