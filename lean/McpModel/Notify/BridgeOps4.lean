import McpModel.Notify.BridgeOps3
/-!
# Bridge, part 5c: the steps `listen`, `subscribe`, `xlisten`
-/
namespace Notify.Bridge
open Notify Notify.Mon Notify.Sys Generated.Notify

variable {seen : List Nat} {y : State} {m : MState}

theorem msetSlot_self (m : MState) (i : Slot) : m.setSlot i (m.slots i) = m := by
  cases m
  simp only [MState.setSlot, MState.mk.injEq, true_and, and_true]
  funext j
  split
  · rename_i e; rw [e]
  · rfl

theorem rel_open (h : Rel seen y m) (i : Slot) (hu : (y.slots i).used = true) (hmod : (y.slots i).modern = true)
    (id : Nat) (ks : List Kind) (us : List Nat) (hnd : us.Nodup)
    (hfree : listenOk y.srv (y.slots i).sid id = true)
    (d' : DSlot) (md' : MSlot)
    (d1 : d'.used = true) (d2 : d'.sid = (y.slots i).sid) (d3 : d'.modern = (y.slots i).modern)
    (d4 : d'.gated = false) (d4c : d'.connected = true)
    (d5 : ∀ u, u ∈ (y.slots i).rsubs → u ∈ d'.rsubs) (d6 : d'.cancelHeld = (y.slots i).cancelHeld)
    (d7 : ∀ u, id = ridOf u → u ∈ d'.rsubs)
    (dcache : CacheRel (curVersion y) (y.slots i) (m.slots i) → CacheRel (curVersion y) d' md')
    (hml : md'.listens = listensAfter (m.slots i).listens id (firstAck (listenOrRefuse y (y.slots i).sid id ks us).2))
    (hmu : md'.luris = (m.slots i).luris) (mo : md'.owed = (m.slots i).owed)
    (mc : md'.connected = (m.slots i).connected) (mm : md'.modern = (m.slots i).modern) :
    Rel seen (({ y with srv := (listenOrRefuse y (y.slots i).sid id ks us).1 } : State).setSlot i d')
      (m.setSlot i md') := by
  have hm : ((y.slots i).sid, Gen.modern) ∈ y.srv.sessions := by
    have := h.sess.used_sess i hu
    rw [hmod] at this
    exact this
  obtain ⟨hrest, hout⟩ := listenOrRefuse_spec h.srvOk ks us hm hfree hnd
  have hl := relListen_open (y := y) h.lis h.sess i hu hfree hout (listenOrRefuse_rlive _ _ _ _ _) d' md'
    d1 d2 d3 d4 d5 d6 d7 hml hmu
  refine h.listen_frame (y' := (({ y with srv := (listenOrRefuse y (y.slots i).sid id ks us).1 } : State).setSlot i d'))
    (m' := m.setSlot i md') (srvOk_listenOrRefuse h.srvOk _ _ _ _) hrest rfl ?_ ?_ ?_ ?_ ?_ ?_ ?_ ?_ ?_ rfl rfl rfl rfl rfl hl
  · intro j; simp only [setSlot_slots]; split
    · rename_i e; rw [e, d1, hu]
    · rfl
  · intro j; simp only [setSlot_slots]; split
    · rename_i e; rw [e, d2]
    · rfl
  · intro j; simp only [setSlot_slots]; split
    · rename_i e; rw [e, d3]
    · rfl
  · intro j hj; simp only [setSlot_slots] at hj ⊢; split
    · rw [d4, d4c]; rfl
    · rename_i e; simp only [e, if_false] at hj; exact h.sess.gated j hj
  · intro j hj hg; simp only [setSlot_slots] at hj hg ⊢; split
    · rename_i e; simp only [e, if_true] at hg; rw [d4] at hg; exact absurd hg (by simp)
    · rename_i e; simp only [e, if_false] at hj hg; exact h.sess.gated_modern j hj hg
  · intro j hj hc; simp only [setSlot_slots, msetSlot_slots]; split
    · rename_i e; subst e; exact dcache hc
    · exact hc
  · intro j; simp only [msetSlot_slots]; split
    · rename_i e; rw [e, mc]
    · rfl
  · intro j; simp only [msetSlot_slots]; split
    · rename_i e; rw [e, mm]
    · rfl
  · intro j; simp only [msetSlot_slots]; split
    · rename_i e; rw [e, mo]
    · rfl

theorem withWindow_frame (d : MSlot) (p : Bool) (id : Nat) :
    (withWindow d p id).listens = d.listens ∧ (withWindow d p id).luris = d.luris ∧ (withWindow d p id).owed = d.owed ∧
    (withWindow d p id).connected = d.connected ∧ (withWindow d p id).modern = d.modern ∧
    (withWindow d p id).maxHandled = d.maxHandled ∧ (withWindow d p id).invalidated = d.invalidated ∧
    (withWindow d p id).starts = d.starts := ⟨rfl, rfl, rfl, rfl, rfl, rfl, rfl, rfl⟩

theorem step_listen (h : Rel seen y m) (i : Slot) (hold : Bool) (hint : Option Who) : StepOk seen y m (.listen i hold) hint := by
  unfold StepOk
  simp only [sysStep]
  split
  · exact ⟨rfl, h⟩
  · rename_i hg
    have hu : (y.slots i).used = true := by
      cases hx : (y.slots i).used <;> simp [hx] at hg ⊢
    have hgt : (y.slots i).gated = true := by
      cases hx : (y.slots i).gated <;> simp [hx, hu] at hg ⊢
    have hmod := h.sess.gated_modern i hu hgt
    have hfree : listenOk y.srv (y.slots i).sid 0 = true := by
      simp only [listenOk, List.all_eq_true]
      intro l hl
      have := h.lis.gated_none i hu hgt l hl
      simp [this]
    cases hfa : firstAck (listenOrRefuse y (y.slots i).sid 0 (y.slots i).mask []).2 with
    | none =>
      simp only [ackObs]
      refine ⟨rfl, ?_⟩
      have key := rel_open h i hu hmod 0 (y.slots i).mask [] List.nodup_nil hfree
        { (y.slots i) with gated := false, connected := true } (m.slots i) hu rfl rfl rfl rfl (fun _ hx => hx) rfl
        (fun u e => by simp [ridOf] at e) (fun hc => hc.congr rfl rfl rfl rfl rfl rfl)
        (by rw [hfa]; rfl) rfl rfl rfl rfl
      rw [msetSlot_self] at key
      show Rel seen _ m
      simpa using key
    | some p =>
      obtain ⟨ks', us'⟩ := p
      simp only [ackObs]
      refine ⟨rfl, ?_⟩
      show Rel seen _ (m.setSlot i (withWindow ((m.slots i).addListen 0 ks' us') hold 0))
      have key := rel_open h i hu hmod 0 (y.slots i).mask [] List.nodup_nil hfree
        { (y.slots i) with gated := false, connected := true, parked := if hold = true then (y.slots i).parked ++ [0] else (y.slots i).parked }
        (withWindow ((m.slots i).addListen 0 ks' us') hold 0) hu rfl rfl rfl rfl (fun _ hx => hx) rfl
        (fun u e => by simp [ridOf] at e)
        (fun hc => hc.congr rfl rfl rfl (addListen_frame _ _ _ _).2.2.2.2.1 (addListen_frame _ _ _ _).2.2.2.2.2.1 (addListen_frame _ _ _ _).2.2.2.2.2.2)
        (by rw [hfa]; exact addListen_listens _ _ _ _) (addListen_frame _ _ _ _).2.2.1 (addListen_frame _ _ _ _).2.2.2.1
        (addListen_frame _ _ _ _).1 (addListen_frame _ _ _ _).2.1
      exact key

/-! ### legacy resources/subscribe and resources/unsubscribe -/

theorem sameRest_subscribe (s : Server) (sid id u : Nat) : SameRest s (subscribe s sid id u) := by
  simp only [subscribe]; split
  · exact ⟨rfl, rfl, rfl, rfl, rfl, fun _ => rfl⟩
  · exact SameRest.refl s

theorem sameRest_unsubscribe (s : Server) (sid u : Nat) : SameRest s (unsubscribe s sid u) := by
  simp only [unsubscribe]; split
  · exact ⟨rfl, rfl, rfl, rfl, rfl, fun _ => rfl⟩
  · exact SameRest.refl s

/-- a change of the legacy subscriptions of slot `i` only -/
theorem relListen_legacy {s' : Server} {slots : Slot → DSlot} {ms : Slot → MSlot}
    (hl : RelListen y.srv slots ms) (hsess : RelSess y.srv.sessions slots ms)
    (i : Slot) (hu : (slots i).used = true)
    (h1 : s'.listens = y.srv.listens) (h2 : s'.acked = y.srv.acked)
    (md' : MSlot) (hml : md'.listens = (ms i).listens) (hmo : md'.owed = (ms i).owed)
    (h3 : ∀ u, u ∈ md'.luris ↔ ((slots i).sid, u) ∈ s'.rlive)
    (h4 : ∀ sid u, sid ≠ (slots i).sid → ((sid, u) ∈ s'.rlive ↔ (sid, u) ∈ y.srv.rlive)) :
    RelListen s' slots (fun j => if j = i then md' else ms j) := by
  have hne : ∀ j, j ≠ i → (slots j).used = true → (slots j).sid ≠ (slots i).sid := by
    intro j hji hj e; exact hji (hsess.sid_inj j i hj hu e)
  refine ⟨?_, ?_, ?_, ?_, ?_, ?_⟩
  · rw [h1, h2]; exact hl.all_acked
  · intro j hj ml; rw [h1]
    by_cases e : j = i
    · subst e; simp only [if_true]; rw [hml]; exact hl.listens j hj ml
    · simp only [e, if_false]; exact hl.listens j hj ml
  · intro j hj hm u
    by_cases e : j = i
    · subst e; simp only [if_true]; exact h3 u
    · simp only [e, if_false]; rw [h4 _ _ (hne j e hj)]; exact hl.luris j hj hm u
  · intro j hj u hlu; rw [h1] at hlu; exact hl.sub_live j hj u hlu
  · intro j hj hg l hl'; rw [h1] at hl'; exact hl.gated_none j hj hg l hl'
  · intro j hj
    by_cases e : j = i
    · subst e; rw [hu] at hj; exact absurd hj (by simp)
    · simp only [e, if_false]; exact hl.idle j hj

/-- the frame lemma when the slots of the model are untouched and the monitor changes slot `i` in fields
the other components do not read -/
theorem Rel.legacy_frame (h : Rel seen y m) {s' : Server} (i : Slot) (md' : MSlot)
    (hok : SrvOk s') (hrest : SameRest y.srv s')
    (mc : md'.connected = (m.slots i).connected) (mm : md'.modern = (m.slots i).modern)
    (mo : md'.owed = (m.slots i).owed) (c1 : md'.maxHandled = (m.slots i).maxHandled)
    (c2 : md'.invalidated = (m.slots i).invalidated) (c3 : md'.starts = (m.slots i).starts)
    (hl : RelListen s' y.slots (fun j => if j = i then md' else m.slots j)) :
    Rel seen { y with srv := s' } (m.setSlot i md') := by
  refine h.listen_frame (y' := { y with srv := s' }) (m' := m.setSlot i md') hok hrest rfl (fun _ => rfl) (fun _ => rfl)
    (fun _ => rfl) h.sess.gated h.sess.gated_modern ?_ ?_ ?_ ?_ rfl rfl rfl rfl rfl hl
  · intro j hj hc; simp only [msetSlot_slots]; split
    · rename_i e; subst e; exact hc.congr rfl rfl rfl c1 c2 c3
    · exact hc
  · intro j; simp only [msetSlot_slots]; split
    · rename_i e; rw [e, mc]
    · rfl
  · intro j; simp only [msetSlot_slots]; split
    · rename_i e; rw [e, mm]
    · rfl
  · intro j; simp only [msetSlot_slots]; split
    · rename_i e; rw [e, mo]
    · rfl

end Notify.Bridge
