import McpModel.Notify.LemmasSub
import McpModel.Notify.CacheLemmas
/-!
# C18 — change notifications are never lost, reach only entitled sessions, beat caches

Server side: model `Notify.step` (Model.lean); every theorem quantifies over ALL label lists, i.e.
all schedules of changes, timer firings, delayed callbacks, connects, listens, subscribes and
closes, any number of sessions, any capability configuration.  Client side: model
`Notify.Cache.step` (Cache.lean), all interleavings of calls, responses, fills, notifications and
clock ticks, any TTLs.  Nothing here is bounded.

Both models describe the REPAIRED tree (fixes/F07-cache-generation.patch,
fixes/F19-listen-cleanup-by-id.patch, fixes/notify-F30-overlapping-listens.patch).  One session may
have any number of open `subscriptions/listen` streams that were granted the same kind or URI; they
end in any order.  The counter-example at the end shows that
`list_after_notification_fresh` is false for the cache of the pinned commit (F7).
-/
namespace Notify
open Generated.Notify

/-! ## server side -/

theorem mem_of_lookup {α} {l : List (Nat × α)} {k : Nat} {v : α} (h : l.lookup k = some v) : (k, v) ∈ l := by
  induction l with
  | nil => simp at h
  | cons a t ih =>
    obtain ⟨x, y⟩ := a
    simp only [List.lookup] at h
    split at h
    · rename_i e; simp at e; simp at h; subst e h; simp
    · exact List.mem_cons_of_mem _ (ih h)

theorem mem_legacyRecips {s : Server} {x : Send} :
    x ∈ legacyRecips s ↔ ∃ g, (x.sid, g) ∈ s.sessions ∧ g ≠ Gen.modern ∧ x.stamp = none := by
  obtain ⟨xs, xt⟩ := x
  simp only [legacyRecips, List.mem_map, List.mem_filter]
  constructor
  · rintro ⟨⟨a, g⟩, ⟨hm, hne⟩, he⟩
    simp at he hne
    obtain ⟨rfl, rfl⟩ := he
    exact ⟨g, hm, hne, rfl⟩
  · rintro ⟨g, hm, hne, he⟩
    have he : xt = none := he
    subst he
    exact ⟨(xs, g), ⟨hm, by simpa using hne⟩, rfl⟩

theorem mem_subRecips {s : Server} {k : Kind} {x : Send} :
    x ∈ subRecips s k ↔ ∃ id, (x.sid, id) ∈ (s.ks k).subs ∧ x.stamp = some id := by
  obtain ⟨xs, xt⟩ := x
  simp only [subRecips, subsTable_diag, List.mem_map]
  constructor
  · rintro ⟨⟨a, b⟩, hm, he⟩
    simp at he
    obtain ⟨rfl, rfl⟩ := he
    exact ⟨b, hm, rfl⟩
  · rintro ⟨id, hm, he⟩
    have he : xt = some id := he
    subst he
    exact ⟨(xs, id), hm, rfl⟩

theorem mem_updList {s : Server} {u : Nat} {x : Send} :
    x ∈ updList s u ↔ ∃ id, (u, x.sid, id) ∈ s.rsubs ∧
      x.stamp = if genOf s x.sid = Gen.modern then some id else none := by
  obtain ⟨xs, xt⟩ := x
  simp only [updList, List.mem_map, List.mem_filter]
  constructor
  · rintro ⟨⟨a, b, c⟩, ⟨hm, hu⟩, he⟩
    simp at hu; subst hu
    simp only [] at he
    split at he
    · rename_i hg; simp at he; obtain ⟨rfl, rfl⟩ := he; exact ⟨c, hm, by simp [hg]⟩
    · rename_i hg; simp at he; obtain ⟨rfl, rfl⟩ := he; exact ⟨c, hm, by simp [hg]⟩
  · rintro ⟨id, hm, he⟩
    have he : xt = if genOf s xs = Gen.modern then some id else none := he
    refine ⟨(u, xs, id), ⟨hm, by simp⟩, ?_⟩
    simp only []
    split
    · rename_i hg; simp [hg] at he; rw [he]
    · rename_i hg; simp [hg] at he; rw [he]


/-! ### frame facts of the listen labels -/

theorem listen_owed (s : Server) (sid id : Nat) (kinds : List Kind) (uris : List Nat) :
    (listen s sid id kinds uris).owed = s.owed := by
  simp only [listen]; split <;> rfl

theorem listenEnd_owed (s : Server) (sid id : Nat) : (listenEnd s sid id).owed = s.owed := by
  simp only [listenEnd]; split <;> rfl

theorem listenRefused_owed (s : Server) (sid id : Nat) (kinds : List Kind) (uris : List Nat) (n : Nat) :
    (listenRefused s sid id kinds uris n).owed = s.owed := by
  simp only [listenRefused]; split
  · rw [listenEnd_owed, listen_owed]
  · rfl

theorem listen_acked (s : Server) (sid id : Nat) (kinds : List Kind) (uris : List Nat) :
    (listen s sid id kinds uris).acked = s.acked := by
  simp only [listen]; split <;> rfl

theorem listen_sessions (s : Server) (sid id : Nat) (kinds : List Kind) (uris : List Nat) :
    (listen s sid id kinds uris).sessions = s.sessions := by
  simp only [listen]; split <;> rfl

theorem listenEnd_sessions (s : Server) (sid id : Nat) : (listenEnd s sid id).sessions = s.sessions := by
  simp only [listenEnd]; split <;> rfl

theorem listen_rlive (s : Server) (sid id : Nat) (kinds : List Kind) (uris : List Nat) :
    (listen s sid id kinds uris).rlive = s.rlive := by
  simp only [listen]; split <;> rfl

theorem listenEnd_rlive (s : Server) (sid id : Nat) : (listenEnd s sid id).rlive = s.rlive := by
  simp only [listenEnd]; split <;> rfl

/-- A listen that registers under a fresh id and ends at once leaves the record of open streams as it was. -/
theorem listenEnd_listen_listens (s : Server) (sid id : Nat) (kinds : List Kind) (uris : List Nat)
    (hok : listenOk s sid id = true) :
    (listenEnd (listen s sid id kinds uris) sid id).listens = s.listens := by
  have ok := listenOk_spec hok
  have hall : ∀ a ∈ s.listens, ¬a.sid = sid ∨ ¬a.id = id := by
    intro l hl
    have := ok l hl
    by_cases e : l.sid = sid
    · exact Or.inr (fun e2 => this ⟨e, e2⟩)
    · exact Or.inl e
  have hnone : s.listens.find? (fun l => l.sid == sid && l.id == id) = none := by
    rw [List.find?_eq_none]
    intro l hl
    have := ok l hl
    simp
    exact fun e1 e2 => this ⟨e1, e2⟩
  simp only [listen]
  split
  · simp only [listenEnd, List.find?_cons]
    simp
    exact hall
  · simp only [listenEnd, hnone]

theorem listenEnd_acked_sub (s : Server) (sid id : Nat) : ∀ p ∈ (listenEnd s sid id).acked, p ∈ s.acked := by
  intro p hp
  simp only [listenEnd] at hp
  split at hp
  · exact hp
  · simp at hp; exact hp.1

/-- **no_lost_notification.**  `(sid, k) ∈ owed` says: session `sid` has been connected ever since a
gated change of kind `k` that no `notifySessions` snapshot has covered yet (see `owed_of_change`,
`owed_persists` for the meaning of the ghost).  In every reachable state such a debt is backed by a
timer that is armed or a callback that has started and not yet taken the lock — so a snapshot
taken after the change is still to come. -/
theorem no_lost_notification (cap : Kind → Cap) (ls : List Label) (sid : Nat) (k : Kind)
    (h : (sid, k) ∈ (final cap ls).owed) : active ((final cap ls).ks k) :=
  (reach_inv (reach_final cap ls)).1.no_lost (sid, k) h

/-- Meaning of the ghost, part 1: a change that really happened (`e` effective), whose kind's
capability is not switched off, puts every connected session in debt. -/
theorem owed_of_change (s : Server) (f : FSet) (e : Eff) (k : Kind) (sid : Nat)
    (he : ¬(e = .noop ∨ (e = .remove ∧ s.cnt f = 0))) (hk : featureKind f = some k)
    (hg : gateSend s k = true) (hs : sid ∈ s.sessions.map Prod.fst) :
    (sid, k) ∈ (change s f e).owed := by
  have hne : s.sessions ≠ [] := by intro e; simp [e] at hs
  have hg' : gateSend (bumpVer s f e) k = true := hg
  simp only [change, he, if_false, hk, notifyChange, hg', if_true, arm]
  have : (bumpVer s f e).sessions = s.sessions := rfl
  simp only [this, hne, if_false]
  simp at hs ⊢
  obtain ⟨g, hg⟩ := hs
  exact Or.inr ⟨g, hg⟩

/-- **A `Remove*(names…)` call is a change iff some named feature was present** (`featureSet.remove` sets its
flag in the loop and never resets it): names that were never registered, or that an earlier name of the same call
already removed, do not undo it — wherever they stand in the list. -/
theorem removeEff_changed (names : List NameAt) : removeEff names = .noop ↔ NameAt.present ∉ names := by
  simp only [removeEff]
  constructor
  · intro h
    split at h
    · rename_i hc; exact List.count_eq_zero.1 hc
    · cases h
  · intro h
    rw [if_pos (List.count_eq_zero.2 h)]

/-- a call that names only absent features is no change: nothing is owed for it -/
theorem remove_absent_names_is_no_change (s : Server) (f : FSet) (names : List NameAt) (h : NameAt.present ∉ names) :
    change s f (removeEff names) = s := by
  rw [(removeEff_changed names).2 h]
  simp [change]

/-- **remove_names_announced.**  A `Remove*` call that names at least one registered feature — together with any
number of absent or repeated names, in any position — puts every connected session in debt (so, by
`no_lost_notification` and `at_least_one_after_burst`, a timer is armed or a callback pending, and the next snapshot
contains every session entitled then). -/
theorem remove_names_announced (s : Server) (f : FSet) (names : List NameAt) (k : Kind) (sid : Nat)
    (hp : NameAt.present ∈ names) (hk : featureKind f = some k) (hg : gateSend s k = true)
    (hs : sid ∈ s.sessions.map Prod.fst) : (sid, k) ∈ (change s f (removeEff names)).owed := by
  apply owed_of_change s f _ k sid _ hk hg hs
  have hc : names.count .present ≠ 0 := fun h => (List.count_eq_zero.1 h) hp
  simp only [removeEff, hc, if_false]
  rintro (h | ⟨h, _⟩) <;> cases h

example : removeEff [.present, .absent] = .removeN 1 true ∧ removeEff [.absent, .present, .absent] = .removeN 1 true ∧
    removeEff [.present, .present] = .removeN 2 false ∧ removeEff [.absent, .absent] = .noop := by decide

/-- Meaning of the ghost, part 2: the debt stays until a snapshot of that kind is taken or the
session is closed. -/
theorem owed_persists (s : Server) (l : Label) (sid : Nat) (k : Kind) (h : (sid, k) ∈ s.owed)
    (h1 : l ≠ .cbrun k) (h2 : l ≠ .close sid) : (sid, k) ∈ (step s l).1.owed := by
  cases l with
  | change f e =>
    simp only [step, change]
    split
    · exact h
    · split
      · exact h
      · simp only [notifyChange]; split
        · simp only [arm]; split
          · exact h
          · simp; exact Or.inl h
        · exact h
  | tick d => exact h
  | fireTracked k' => simp only [step, fireTracked]; split; split <;> exact h; exact h
  | fireOrphan k' i => simp only [step, fireOrphan]; split; split <;> exact h; exact h
  | cbrun k' =>
    simp only [step, cbrun]; split
    · exact h
    · simp; exact ⟨h, fun e => h1 (by rw [e])⟩
  | bind sid' => simp only [step, bind]; split <;> exact h
  | hello sid' m => simp only [step, hello]; split <;> exact h
  | listen a b c d => simp only [step, listen]; split <;> exact h
  | listenAck a b => simp only [step, listenAck]; split; exact h; split; exact h; split <;> exact h
  | listenEnd a b => simp only [step, listenEnd]; split <;> exact h
  | subscribe a b c => simp only [step, subscribe]; split <;> exact h
  | unsubscribe a b => simp only [step, unsubscribe]; split <;> exact h
  | close sid' => simp [step, close]; exact ⟨h, fun e => h2 (by rw [e])⟩
  | updated u => exact h
  | updatedNamed u v => exact h
  | deliver k' i => simp only [step, deliver]; split <;> exact h
  | listenRefused a b c d n => simp only [step]; rw [listenRefused_owed]; exact h

/-- A session is entitled to kind `k`: it is connected and either does not speak 2026-07-28, or one
of its live `subscriptions/listen` streams was granted `k`.  Stated on the ghost record of live
listens, NOT on the server's tables. -/
def entitled (s : Server) (sid : Nat) (k : Kind) : Prop :=
  (∃ g, (sid, g) ∈ s.sessions ∧ g ≠ Gen.modern) ∨ (∃ l ∈ s.listens, l.sid = sid ∧ k ∈ l.kinds)

/-- **at_least_one_after_burst.**  When the callback of kind `k` takes its snapshot, every session
that is in debt for `k` (connected since the last change of the burst) and entitled at that instant
is in the snapshot's send list — the notification it gets is sent after the last change. -/
theorem at_least_one_after_burst (cap : Kind → Cap) (ls : List Label) (sid : Nat) (k : Kind)
    (ho : (sid, k) ∈ (final cap ls).owed) (he : entitled (final cap ls) sid k)
    (hp : 0 < ((final cap ls).ks k).pending) :
    ∃ to, (step (final cap ls) (.cbrun k)).2 = [.changed k to] ∧ sid ∈ to.map Send.sid := by
  obtain ⟨_, hS⟩ := reach_inv (reach_final cap ls)
  generalize final cap ls = s at *
  refine ⟨sendList s k, ?_, ?_⟩
  · simp only [step, cbrun]; split
    · omega
    · rfl
  · rw [List.mem_map]
    rcases he with ⟨g, hg, hne⟩ | ⟨l, hl, h1, h2⟩
    · exact ⟨⟨sid, none⟩, List.mem_append.2 (Or.inl (mem_legacyRecips.2 ⟨g, hg, hne, rfl⟩)), rfl⟩
    · obtain ⟨id, _, this⟩ := hS.listen_served l hl k h2
      rw [h1] at this
      exact ⟨⟨sid, some id⟩, List.mem_append.2 (Or.inr (mem_subRecips.2 ⟨id, this, rfl⟩)), rfl⟩

/-- **none_when_disabled.**  With the capability of kind `k` switched off no timer of that kind is
ever armed, no callback ever pending, and no run of `notifySessions(k)` ever happens. -/
theorem none_when_disabled (cap : Kind → Cap) (k : Kind) (hoff : cap k = .off) (ls : List Label) :
    (∀ to, Out.changed k to ∉ outputs cap ls) ∧ ¬ active ((final cap ls).ks k) := by
  have idle : ∀ s, Reach cap s → (s.ks k).tracked = none ∧ (s.ks k).orphans = [] ∧ (s.ks k).pending = 0 := by
    intro s hs
    apply (reach_inv hs).1.off_idle k
    simp [gateSend, sendGate_diag, reach_cap hs, hoff]
  constructor
  · intro to hto
    obtain ⟨s', l, hr, ho⟩ := outputs_from_reach Reach.init ls _ hto
    cases l <;> simp [step] at ho
    case cbrun k' =>
      simp only [cbrun] at ho
      split at ho
      · simp at ho
      · rename_i hp
        simp at ho
        obtain ⟨rfl, _⟩ := ho
        exact hp (idle s' hr).2.2
    case deliver k' i =>
      simp only [deliver] at ho
      split at ho
      · simp at ho
      · split at ho <;> simp at ho
    case listenAck a b => simp only [listenAck] at ho; split at ho; simp at ho; split at ho; simp at ho; split at ho <;> simp at ho
  · have := idle _ (reach_final cap ls)
    simp [active, this]

/-- **fanout_entitled_only.**  Every recipient of every `notifySessions(k)` run is a connected
session that either does not speak 2026-07-28 and gets the plain notification, or speaks it, has a
live listen that was granted `k`, and gets the notification stamped with that listen's request id. -/
theorem fanout_entitled_only (cap : Kind → Cap) (ls : List Label) (k : Kind) (to : List Send)
    (h : Out.changed k to ∈ outputs cap ls) :
    ∃ s, Reach cap s ∧ to = sendList s k ∧ ∀ x ∈ to,
      (x.stamp = none ∧ ∃ g, (x.sid, g) ∈ s.sessions ∧ g ≠ Gen.modern) ∨
      (∃ id, x.stamp = some id ∧ (x.sid, Gen.modern) ∈ s.sessions ∧
        ∃ l ∈ s.listens, l.sid = x.sid ∧ l.id = id ∧ k ∈ l.kinds) := by
  obtain ⟨s, l, hr, ho⟩ := outputs_from_reach Reach.init ls _ h
  have hS := (reach_inv hr).2
  cases l <;> simp [step] at ho
  case deliver k' i =>
    simp only [deliver] at ho
    split at ho
    · simp at ho
    · split at ho <;> simp at ho
  case listenAck a b => simp only [listenAck] at ho; split at ho; simp at ho; split at ho; simp at ho; split at ho <;> simp at ho
  case cbrun k' =>
    simp only [cbrun] at ho
    split at ho
    · simp at ho
    · simp at ho
      obtain ⟨rfl, rfl⟩ := ho
      refine ⟨s, hr, rfl, ?_⟩
      intro x hx
      simp only [sendList, List.mem_append] at hx
      rcases hx with hx | hx
      · left
        obtain ⟨g, hg, hne, hst⟩ := mem_legacyRecips.1 hx
        exact ⟨hst, g, hg, hne⟩
      · right
        obtain ⟨id, hab, hst⟩ := mem_subRecips.1 hx
        obtain ⟨l0, hl0, h1, h2, h3⟩ := hS.subs_listen _ (x.sid, id) hab
        refine ⟨id, hst, ?_, l0, hl0, h1, h2, h3⟩
        have := hS.listen_modern l0 hl0
        rw [h1] at this; exact this

theorem genOf_of_mem {s : Server} (h : (s.sessions.map Prod.fst).Nodup) {sid : Nat} {g : Gen}
    (hm : (sid, g) ∈ s.sessions) : genOf s sid = g := by
  unfold genOf
  generalize s.sessions = l at *
  induction l with
  | nil => simp at hm
  | cons a t ih =>
    obtain ⟨x, y⟩ := a
    simp only [List.map_cons, List.nodup_cons] at h
    simp only [List.mem_cons] at hm
    by_cases e : sid = x
    · subst e
      simp [List.lookup]
      rcases hm with hm | hm
      · exact (Prod.mk.inj hm).2.symm
      · exfalso; apply h.1; simp; exact ⟨g, hm⟩
    · rcases hm with hm | hm
      · exact absurd (Prod.mk.inj hm).1 e
      · have : (sid == x) = false := by simp [e]
        simp [List.lookup, this]; exact ih h.2 hm

/-- The subscription of session `sid` to `u` is live: a legacy `resources/subscribe` not yet undone,
or an open listen of the session that was granted `u`.  Stated on the ghost `rlive` and the record of
open streams, NOT on `resourceSubscriptions`. -/
def subscribed (s : Server) (sid u : Nat) : Prop :=
  (sid, u) ∈ s.rlive ∨ ∃ l ∈ s.listens, l.sid = sid ∧ u ∈ l.uris

/-- What the lookup half of `ResourceUpdated(u)` finds in a state satisfying the invariant: exactly
the sessions whose subscription to `u` is live, each once, legacy sessions plain, 2026-07-28 sessions
stamped with the id of an open listen of theirs that was granted `u`. -/
theorem updList_spec {s : Server} (hS : InvS s) (u : Nat) :
    (∀ sid, sid ∈ (updList s u).map Send.sid ↔ subscribed s sid u) ∧ ((updList s u).map Send.sid).Nodup ∧
      ∀ x ∈ updList s u,
        (x.stamp = none ∧ (x.sid, Gen.legacy) ∈ s.sessions) ∨
        (∃ id, x.stamp = some id ∧ (x.sid, Gen.modern) ∈ s.sessions ∧
          ∃ l ∈ s.listens, l.sid = x.sid ∧ l.id = id ∧ u ∈ l.uris) := by
  refine ⟨?_, ?_, ?_⟩
  · intro sid
    rw [List.mem_map]
    constructor
    · rintro ⟨x, hx, rfl⟩
      obtain ⟨id, hm, _⟩ := mem_updList.1 hx
      rcases hS.rsubs_owner _ hm with g | ⟨_, g⟩
      · exact Or.inl ((hS.rlive_iff x.sid u).2 ⟨g, id, hm⟩)
      · obtain ⟨l0, hl0, h1, _, h3⟩ := heir_mem g
        exact Or.inr ⟨l0, hl0, h1, (grantsU_iff u l0).1 h3⟩
    · rintro (hl | ⟨l0, hl0, h1, h3⟩)
      · obtain ⟨_, id, hm⟩ := (hS.rlive_iff sid u).1 hl
        exact ⟨⟨sid, if genOf s sid = Gen.modern then some id else none⟩, mem_updList.2 ⟨id, hm, rfl⟩, rfl⟩
      · obtain ⟨id, _, hm⟩ := hS.listen_served_uri l0 hl0 u h3
        rw [h1] at hm
        exact ⟨⟨sid, if genOf s sid = Gen.modern then some id else none⟩, mem_updList.2 ⟨id, hm, rfl⟩, rfl⟩
  · have hmap : (updList s u).map Send.sid = (s.rsubs.filter (fun r => r.1 == u)).map (fun r => r.2.1) := by
      simp only [updList, List.map_map]
      apply List.map_congr_left
      intro r _
      simp only [Function.comp]
      split <;> rfl
    rw [hmap]
    have hnd : (s.rsubs.filter (fun r => r.1 == u)).Nodup := List.Pairwise.filter _ hS.rsubs_nodup
    have hfun : ∀ r ∈ s.rsubs.filter (fun r => r.1 == u), ∀ q ∈ s.rsubs.filter (fun r => r.1 == u),
        r.2.1 = q.2.1 → r = q := by
      intro r hr' q hq' e
      simp at hr' hq'
      exact hS.rsubs_fun r hr'.1 q hq'.1 (by rw [hr'.2, hq'.2]) e
    generalize s.rsubs.filter (fun r => r.1 == u) = L at hnd hfun
    induction L with
    | nil => simp
    | cons a t ih =>
      simp only [List.map_cons, List.nodup_cons] at hnd ⊢
      refine ⟨?_, ih hnd.2 (fun r hr' q hq' => hfun r (List.mem_cons_of_mem _ hr') q (List.mem_cons_of_mem _ hq'))⟩
      intro hmem
      rw [List.mem_map] at hmem
      obtain ⟨q, hq, he⟩ := hmem
      have := hfun a (List.mem_cons_self) q (List.mem_cons_of_mem _ hq) he.symm
      rw [this] at hnd
      exact hnd.1 hq
  · intro x hx
    obtain ⟨id, hm, hst⟩ := mem_updList.1 hx
    rcases hS.rsubs_owner _ hm with g | ⟨g, hh⟩
    · left
      have := genOf_of_mem hS.sess_nodup g
      simp only [] at this
      rw [this] at hst
      exact ⟨by simpa using hst, g⟩
    · right
      have := genOf_of_mem hS.sess_nodup g
      simp only [] at this
      rw [this] at hst
      obtain ⟨l0, hl0, h1, h2, h3⟩ := heir_mem hh
      exact ⟨id, by simpa using hst, g, l0, hl0, h1, h2, (grantsU_iff u l0).1 h3⟩

/-- **updated_reaches_exactly_subscribers.**  A `ResourceUpdated(u)` call reaches exactly the
sessions whose subscription to `u` is live at the call (legacy `resources/subscribe` not yet
undone, or at least one open listen that was granted `u` — however many such listens the session
has opened and ended before, whether a refused listen of the session named `u` before), each exactly
once; legacy sessions get it plain, 2026-07-28 sessions stamped with the id of an open listen of
theirs that was granted `u`. -/
theorem updated_reaches_exactly_subscribers (cap : Kind → Cap) (ls : List Label) (u : Nat) (to : List Send)
    (h : Out.updated u to ∈ outputs cap ls) :
    ∃ s, Reach cap s ∧ (∀ sid, sid ∈ to.map Send.sid ↔ subscribed s sid u) ∧ (to.map Send.sid).Nodup ∧
      ∀ x ∈ to,
        (x.stamp = none ∧ (x.sid, Gen.legacy) ∈ s.sessions) ∨
        (∃ id, x.stamp = some id ∧ (x.sid, Gen.modern) ∈ s.sessions ∧
          ∃ l ∈ s.listens, l.sid = x.sid ∧ l.id = id ∧ u ∈ l.uris) := by
  obtain ⟨s, l, hr, ho⟩ := outputs_from_reach Reach.init ls _ h
  have hS := (reach_inv hr).2
  cases l <;> simp [step] at ho
  case deliver k' i =>
    simp only [deliver] at ho
    split at ho
    · simp at ho
    · split at ho <;> simp at ho
  case cbrun k' => simp only [cbrun] at ho; split at ho <;> simp at ho
  case listenAck a b => simp only [listenAck] at ho; split at ho; simp at ho; split at ho; simp at ho; split at ho <;> simp at ho
  case updated u' =>
    obtain ⟨rfl, rfl⟩ := ho
    exact ⟨s, hr, updList_spec hS u⟩

/-- **updatedNamed_reaches_exactly_subscribers.**  The same for a fan-out whose notification names
another URI `v` (a sub-resource of `u`): the recipients are exactly the sessions subscribed to `u`. -/
theorem updatedNamed_reaches_exactly_subscribers (cap : Kind → Cap) (ls : List Label) (u v : Nat) (to : List Send)
    (h : Out.updatedNamed u v to ∈ outputs cap ls) :
    ∃ s, Reach cap s ∧ (∀ sid, sid ∈ to.map Send.sid ↔ subscribed s sid u) ∧ (to.map Send.sid).Nodup ∧
      ∀ x ∈ to,
        (x.stamp = none ∧ (x.sid, Gen.legacy) ∈ s.sessions) ∨
        (∃ id, x.stamp = some id ∧ (x.sid, Gen.modern) ∈ s.sessions ∧
          ∃ l ∈ s.listens, l.sid = x.sid ∧ l.id = id ∧ u ∈ l.uris) := by
  obtain ⟨s, l, hr, ho⟩ := outputs_from_reach Reach.init ls _ h
  have hS := (reach_inv hr).2
  cases l <;> simp [step] at ho
  case deliver k' i =>
    simp only [deliver] at ho
    split at ho
    · simp at ho
    · split at ho <;> simp at ho
  case cbrun k' => simp only [cbrun] at ho; split at ho <;> simp at ho
  case listenAck a b => simp only [listenAck] at ho; split at ho; simp at ho; split at ho; simp at ho; split at ho <;> simp at ho
  case updatedNamed u' v' =>
    obtain ⟨rfl, rfl, rfl⟩ := ho
    exact ⟨s, hr, updList_spec hS u⟩

/-- **closed_sessions_forgotten.**  In every reachable state a session that is not connected is
mentioned by no subscription table and no resource subscription, owes nothing, and is in no send
list.  (`close_disconnects`: `disconnect` does remove the session.) -/
theorem closed_sessions_forgotten (cap : Kind → Cap) (ls : List Label) (sid : Nat)
    (h : sid ∉ (final cap ls).sessions.map Prod.fst) :
    (∀ t, ∀ p ∈ ((final cap ls).ks t).subs, p.1 ≠ sid) ∧ (∀ r ∈ (final cap ls).rsubs, r.2.1 ≠ sid) ∧
    (∀ p ∈ (final cap ls).owed, p.1 ≠ sid) ∧ (∀ l ∈ (final cap ls).listens, l.sid ≠ sid) ∧
    (∀ k, ∀ x ∈ sendList (final cap ls) k, x.sid ≠ sid) ∧ (∀ u, ∀ x ∈ updList (final cap ls) u, x.sid ≠ sid) := by
  obtain ⟨hT, hS⟩ := reach_inv (reach_final cap ls)
  generalize final cap ls = s at *
  have notin : ∀ g, (sid, g) ∉ s.sessions := by
    intro g hg; apply h; simp; exact ⟨g, hg⟩
  have hsubs : ∀ t, ∀ p ∈ (s.ks t).subs, p.1 ≠ sid := by
    intro t p hp e
    obtain ⟨l0, hl0, h1, _, _⟩ := hS.subs_listen t p hp
    have := hS.listen_modern l0 hl0
    rw [h1, e] at this; exact notin _ this
  have hrs : ∀ r ∈ s.rsubs, r.2.1 ≠ sid := by
    intro r hr e
    rcases hS.rsubs_owner r hr with g | g
    · rw [e] at g; exact notin _ g
    · rw [e] at g; exact notin _ g.1
  refine ⟨hsubs, hrs, ?_, ?_, ?_, ?_⟩
  · intro p hp e; have := hT.owed_sess p hp; rw [e] at this; exact h this
  · intro l hl e; have := hS.listen_modern l hl; rw [e] at this; exact notin _ this
  · intro k x hx
    simp only [sendList, List.mem_append] at hx
    rcases hx with hx | hx
    · obtain ⟨g, hg, _, _⟩ := mem_legacyRecips.1 hx
      intro e; rw [e] at hg; exact notin _ hg
    · obtain ⟨id, hab, _⟩ := mem_subRecips.1 hx
      exact hsubs k (x.sid, id) hab
  · intro u x hx
    obtain ⟨id, hm, _⟩ := mem_updList.1 hx
    exact hrs _ hm

theorem close_disconnects (s : Server) (sid : Nat) : sid ∉ (close s sid).sessions.map Prod.fst := by
  simp [close]

/-! ### the acknowledgement of a listen comes after its registration

`listen` (registration section) and `listenAck` (the acknowledgement write) are separate labels;
every other label can be scheduled between them and after them. -/

/-- The session `sid` is SERVED for the grants `ks` / `us`: it is in every list-changed table of `ks`
and subscribed to every URI of `us`, under the id `h` of the newest open stream of the session that
was granted the same thing — hence in the snapshot of any `notifySessions(k)` and in the lookup of any
`ResourceUpdated(u)` taken in this state, stamped `h`. -/
def served (s : Server) (sid : Nat) (ks : List Kind) (us : List Nat) : Prop :=
  (sid, Gen.modern) ∈ s.sessions ∧
  (∀ k ∈ ks, ∃ h, heir s.listens sid (grantsK k) = some h ∧ (sid, h) ∈ (s.ks k).subs ∧
    (⟨sid, some h⟩ : Send) ∈ sendList s k) ∧
  (∀ u ∈ us, ∃ h, heir s.listens sid (grantsU u) = some h ∧ (u, sid, h) ∈ s.rsubs ∧
    (⟨sid, some h⟩ : Send) ∈ updList s u)

/-- … and REGISTERED under its own id: what holds for a listen that no newer open stream of its
session overlaps. -/
def registered (s : Server) (sid id : Nat) (ks : List Kind) (us : List Nat) : Prop :=
  (sid, Gen.modern) ∈ s.sessions ∧
  (∀ k ∈ ks, (sid, id) ∈ (s.ks k).subs ∧ (⟨sid, some id⟩ : Send) ∈ sendList s k) ∧
  (∀ u ∈ us, (u, sid, id) ∈ s.rsubs ∧ (⟨sid, some id⟩ : Send) ∈ updList s u)

theorem served_of_listen {s : Server} (hS : InvS s) {l : Listen} (hl : l ∈ s.listens) :
    served s l.sid l.kinds l.uris := by
  have hm := hS.listen_modern l hl
  refine ⟨hm, ?_, ?_⟩
  · intro k hk
    obtain ⟨h, hh, this⟩ := hS.listen_served l hl k hk
    exact ⟨h, hh, this, List.mem_append.2 (Or.inr (mem_subRecips.2 ⟨h, this, rfl⟩))⟩
  · intro u hu
    obtain ⟨h, hh, this⟩ := hS.listen_served_uri l hl u hu
    refine ⟨h, hh, this, mem_updList.2 ⟨h, this, ?_⟩⟩
    have hg := genOf_of_mem hS.sess_nodup hm
    simp [hg]

/-- The heir is the stream itself when every OTHER open stream of the session that shares the grant
is older, in particular when no other open stream shares it (`sole`). -/
def sole (s : Server) (l : Listen) : Prop :=
  ∀ l' ∈ s.listens, l'.sid = l.sid → l'.id ≠ l.id →
    (∀ k ∈ l.kinds, k ∉ l'.kinds) ∧ (∀ u ∈ l.uris, u ∉ l'.uris)

theorem registered_of_sole {s : Server} (hS : InvS s) {l : Listen} (hl : l ∈ s.listens) (hsole : sole s l) :
    registered s l.sid l.id l.kinds l.uris := by
  obtain ⟨hm, hk, hu⟩ := served_of_listen hS hl
  refine ⟨hm, ?_, ?_⟩
  · intro k hkk
    obtain ⟨h, hh, h1, h2⟩ := hk k hkk
    obtain ⟨l0, hl0, e1, e2, e3⟩ := heir_mem hh
    have : h = l.id := by
      apply Classical.byContradiction
      intro hne
      exact (hsole l0 hl0 e1 (by rw [e2]; exact hne)).1 k hkk ((grantsK_iff k l0).1 e3)
    rw [this] at h1 h2
    exact ⟨h1, h2⟩
  · intro u huu
    obtain ⟨h, hh, h1, h2⟩ := hu u huu
    obtain ⟨l0, hl0, e1, e2, e3⟩ := heir_mem hh
    have : h = l.id := by
      apply Classical.byContradiction
      intro hne
      exact (hsole l0 hl0 e1 (by rw [e2]; exact hne)).2 u huu ((grantsU_iff u l0).1 e3)
    rw [this] at h1 h2
    exact ⟨h1, h2⟩

/-- **ack_after_registration.**  Whenever a `notifications/subscriptions/acknowledged` is written —
in any schedule, with any number of other open streams of the same session — the state it is written
in already has the session in every table the acknowledgement names (under this listen's id, or that
of a NEWER open stream of the session that was granted the same thing: `served`); the write itself
changes no table.  So from the instant the client can hold the acknowledgement there is no window in
which a `notifySessions` snapshot or a `ResourceUpdated` lookup misses the session. -/
theorem ack_after_registration (cap : Kind → Cap) (ls : List Label) (sid id : Nat) (ks : List Kind)
    (us : List Nat) (h : Out.ack sid id ks us ∈ outputs cap ls) :
    ∃ s, Reach cap s ∧ (step s (.listenAck sid id)).2 = [.ack sid id ks us] ∧
      served s sid ks us ∧
      (∀ t, ((step s (.listenAck sid id)).1.ks t).subs = (s.ks t).subs) ∧
      (step s (.listenAck sid id)).1.rsubs = s.rsubs ∧
      (step s (.listenAck sid id)).1.sessions = s.sessions := by
  obtain ⟨s, l, hr, ho⟩ := outputs_from_reach Reach.init ls _ h
  have hS := (reach_inv hr).2
  cases l <;> simp [step] at ho
  case deliver k' i =>
    simp only [deliver] at ho
    split at ho
    · simp at ho
    · split at ho <;> simp at ho
  case cbrun k' => simp only [cbrun] at ho; split at ho <;> simp at ho
  case listenAck a b =>
    refine ⟨s, hr, ?_⟩
    simp only [step]
    cases hfind : s.listens.find? (fun l => l.sid == a && l.id == b) with
    | none => simp [listenAck, hfind] at ho
    | some l =>
      obtain ⟨hl, hsid, hid⟩ := find?_spec hfind
      have hreg := served_of_listen hS hl
      rw [hsid] at hreg
      by_cases hna : (a, b) ∈ s.acked
      · simp [listenAck, hfind, hna] at ho
      · by_cases hempty : l.kinds = [] ∧ l.uris = []
        · simp [listenAck, hfind, hna, hempty] at ho
          obtain ⟨rfl, rfl, rfl, rfl⟩ := ho
          rw [hempty.1, hempty.2] at hreg
          simp only [listenAck, hfind, hna, hempty, and_self, if_true, if_false]
          simpa using hreg
        · simp only [listenAck, hfind, hna, hempty, if_false] at ho
          simp at ho
          obtain ⟨rfl, rfl, rfl, rfl⟩ := ho
          simp only [listenAck, hfind, hna, hempty, if_false]
          simpa using hreg

/-- Meaning of the ghost `acked`, part 1: writing a non-empty acknowledgement records the listen. -/
theorem acked_of_ack (s : Server) (sid id : Nat) (ks : List Kind) (us : List Nat)
    (h : (step s (.listenAck sid id)).2 = [.ack sid id ks us]) (hne : ks ≠ [] ∨ us ≠ []) :
    (sid, id) ∈ (step s (.listenAck sid id)).1.acked := by
  simp only [step, listenAck] at h ⊢
  split at h
  · simp at h
  · split at h
    · simp at h
    · split at h
      · simp at h
        obtain ⟨rfl, rfl⟩ := h
        simp at hne
      · rename_i hna hnempty
        simp [hna, hnempty]

/-- Meaning of the ghost `acked`, part 2: it stays until that listen ends or the session closes (in
every reachable state; a refused listen of the same session ends nothing but itself). -/
theorem acked_persists (cap : Kind → Cap) (s : Server) (hr : Reach cap s) (l : Label) (sid id : Nat)
    (h : (sid, id) ∈ s.acked)
    (h1 : l ≠ .listenEnd sid id) (h2 : l ≠ .close sid) : (sid, id) ∈ (step s l).1.acked := by
  cases l with
  | change f e =>
    simp only [step, change]; split; exact h; split; exact h; simp only [notifyChange]; split
    · simp only [arm]; split <;> exact h
    · exact h
  | tick d => exact h
  | fireTracked k' => simp only [step, fireTracked]; split; split <;> exact h; exact h
  | fireOrphan k' i => simp only [step, fireOrphan]; split; split <;> exact h; exact h
  | cbrun k' => simp only [step, cbrun]; split <;> exact h
  | bind sid' => simp only [step, bind]; split <;> exact h
  | hello sid' m => simp only [step, hello]; split <;> exact h
  | listen a b c d => simp only [step, listen]; split <;> exact h
  | listenAck a b =>
    simp only [step, listenAck]; split; exact h; split; exact h; split
    · exact h
    · simp; exact Or.inl h
  | listenEnd a b =>
    simp only [step, listenEnd]; split
    · exact h
    · simp; refine ⟨h, ?_⟩
      by_cases e1 : sid = a
      · right; intro e2; apply h1; rw [e1, e2]
      · exact Or.inl e1
  | subscribe a b c => simp only [step, subscribe]; split <;> exact h
  | unsubscribe a b => simp only [step, unsubscribe]; split <;> exact h
  | close sid' => simp [step, close]; exact ⟨h, fun e => h2 (by rw [e])⟩
  | updated u => exact h
  | updatedNamed u v => exact h
  | deliver k' i => simp only [step, deliver]; split <;> exact h
  | listenRefused a b c d n =>
    simp only [step, listenRefused]
    split
    · rename_i hg
      have ok := listenOk_spec hg.2.1
      obtain ⟨l0, hl0, e1, e2⟩ := reach_invA hr (sid, id) h
      have hne : ¬(sid = a ∧ id = b) := fun e => ok l0 hl0 ⟨by rw [e1]; exact e.1, by rw [e2]; exact e.2⟩
      simp only [listenEnd]
      split
      · rw [listen_acked]; exact h
      · simp only [listen_acked]
        simp
        refine ⟨h, ?_⟩
        by_cases e : sid = a
        · exact Or.inr (fun e2 => hne ⟨e, e2⟩)
        · exact Or.inl e
    · exact h

/-- **acked_stays_served.**  In every reachable state an acknowledged listen is a live handler whose
session is in every table the listen was granted: no schedule of changes, callbacks, OTHER LISTENS OF
THE SAME SESSION — overlapping it in kinds or URIs, opened before or after it — ENDING IN ANY ORDER,
subscribes, unsubscribes or other sessions closing takes the session of an acknowledged subscription
out of a snapshot (this is where the by-id clean-up of F19 and the hand-over of notify-F30 are
needed).  The stamp is the id of the newest open stream of the session that was granted the same
thing. -/
theorem acked_stays_served (cap : Kind → Cap) (ls : List Label) (sid id : Nat)
    (h : (sid, id) ∈ (final cap ls).acked) :
    ∃ l ∈ (final cap ls).listens, l.sid = sid ∧ l.id = id ∧
      served (final cap ls) sid l.kinds l.uris := by
  have hr := reach_final cap ls
  obtain ⟨l, hl, h1, h2⟩ := reach_invA hr (sid, id) h
  have := served_of_listen (reach_inv hr).2 hl
  rw [h1] at this
  exact ⟨l, hl, h1, h2, this⟩

/-- **acked_stays_registered.**  … and an acknowledged listen that no other open stream of its session
overlaps — because there never was one, or because the overlapping ones have ended, in whatever
order: the SURVIVING listen — is registered under its own id. -/
theorem acked_stays_registered (cap : Kind → Cap) (ls : List Label) (sid id : Nat)
    (h : (sid, id) ∈ (final cap ls).acked) :
    ∃ l ∈ (final cap ls).listens, l.sid = sid ∧ l.id = id ∧
      (sole (final cap ls) l → registered (final cap ls) sid id l.kinds l.uris) := by
  have hr := reach_final cap ls
  obtain ⟨l, hl, h1, h2⟩ := reach_invA hr (sid, id) h
  refine ⟨l, hl, h1, h2, fun hsole => ?_⟩
  have := registered_of_sole (reach_inv hr).2 hl hsole
  rw [h1, h2] at this
  exact this

/-- **one_stamp_per_session.**  However many open listens of a session were granted `k`, a
`notifySessions(k)` snapshot has the session under ONE request id (that of the newest of them). -/
theorem one_stamp_per_session (cap : Kind → Cap) (ls : List Label) (k : Kind) (sid id id' : Nat)
    (h1 : (sid, id) ∈ ((final cap ls).ks k).subs) (h2 : (sid, id') ∈ ((final cap ls).ks k).subs) : id = id' := by
  have hS := (reach_inv (reach_final cap ls)).2
  have e1 := (hS.subs_iff k sid id).1 h1
  have e2 := (hS.subs_iff k sid id').1 h2
  rw [e1] at e2
  exact Option.some.inj e2

/-- **listenEnd_keeps_other_listens.**  The end of one listen — whichever — removes no other open
stream from the record and leaves the session of every other open stream served for everything that
stream was granted: if the entry carried the id of the stream that ends, it now carries the id of
the newest remaining stream that was granted the same thing. -/
theorem listenEnd_keeps_other_listens (cap : Kind → Cap) (s : Server) (hr : Reach cap s) (sid id : Nat)
    (l' : Listen) (hl' : l' ∈ s.listens) (hne : ¬(l'.sid = sid ∧ l'.id = id)) :
    l' ∈ (step s (.listenEnd sid id)).1.listens ∧
      served (step s (.listenEnd sid id)).1 l'.sid l'.kinds l'.uris := by
  have hmem : l' ∈ (step s (.listenEnd sid id)).1.listens := by
    simp only [step, listenEnd]
    split
    · exact hl'
    · simp
      refine ⟨hl', ?_⟩
      by_cases e : l'.sid = sid
      · exact Or.inr (fun e2 => hne ⟨e, e2⟩)
      · exact Or.inl e
  exact ⟨hmem, served_of_listen (reach_inv (Reach.step (.listenEnd sid id) hr)).2 hmem⟩

/-- **listenEnd_touches_own_entries_only.**  The clean-up of a stream that ends decides by the id the entry
carries AT THE TIME IT RUNS: whatever happened between the cancellation and the clean-up (the application's
`UnsubscribeHandler` is called in between, outside the lock: another stream of the session may have taken
the URI or the kind over), an entry of a resource-subscription or list-changed table that does not carry
the id of the stream that ends is still there afterwards, unchanged.  (A clean-up that reads the owner
before it calls the application and deletes afterwards without reading again — seeded C18-m13 — breaks
exactly this; the harness's `park` window shows it.) -/
theorem listenEnd_touches_own_entries_only (s : Server) (sid id : Nat) :
    (∀ r ∈ s.rsubs, ¬(r.2.1 = sid ∧ r.2.2 = id) → r ∈ (listenEnd s sid id).rsubs) ∧
    (∀ (t : Kind), ∀ p ∈ (s.ks t).subs, ¬(p.1 = sid ∧ p.2 = id) → p ∈ ((listenEnd s sid id).ks t).subs) := by
  refine ⟨?_, ?_⟩
  · intro r hr hne
    simp only [listenEnd]
    split
    · exact hr
    · simp only [List.mem_filterMap]
      refine ⟨r, hr, ?_⟩
      have : ¬((r.2.1 == sid && r.2.2 == id) = true) := by
        simpa using fun a b => hne ⟨a, b⟩
      simp_all
  · intro t p hp hne
    simp only [listenEnd]
    split
    · exact hp
    · simp only [List.mem_filterMap]
      refine ⟨p, hp, ?_⟩
      have : ¬((p.1 == sid && p.2 == id) = true) := by
        simpa using fun a b => hne ⟨a, b⟩
      simp_all

/-- The situation of the `park` window is reachable and the theorem is not vacuous: a session subscribes a URI
on stream 3, subscribes it again on stream 4 (the entry is 4's), stream 3 ends: the session is still
subscribed, under 4's id. -/
example :
    let s := (run (init (fun _ => .on)) [.bind 1, .hello 1 true, .listen 1 3 [] [7], .listen 1 4 [] [7], .listenEnd 1 3]).1
    (7, 1, 4) ∈ s.rsubs := by decide

/-- Meaning of the record `listens`, part 1: the registration section of a handler records the stream
with what it was granted. -/
theorem listen_recorded (s : Server) (sid id : Nat) (kinds : List Kind) (uris : List Nat)
    (hg : (sid, Gen.modern) ∈ s.sessions ∧ listenOk s sid id = true ∧ uris.Nodup) :
    (⟨sid, id, kinds.filter (gateListen s), if resSub s then uris else []⟩ : Listen) ∈
      (step s (.listen sid id kinds uris)).1.listens := by
  simp only [step, listen, hg, and_self, if_true]
  simp

/-- Meaning of the record `listens`, part 2: a stream that was granted something stays in the record
until it ends or its session closes. -/
theorem listens_persist (cap : Kind → Cap) (s : Server) (hr : Reach cap s) (lab : Label) (l : Listen)
    (hl : l ∈ s.listens) (hgr : l.kinds ≠ [] ∨ l.uris ≠ [])
    (h1 : lab ≠ .listenEnd l.sid l.id) (h2 : lab ≠ .close l.sid) : l ∈ (step s lab).1.listens := by
  have hS := (reach_inv hr).2
  cases lab with
  | change f e =>
    simp only [step, change]; split; exact hl; split; exact hl; simp only [notifyChange]; split
    · simp only [arm]; split <;> exact hl
    · exact hl
  | tick d => exact hl
  | fireTracked k' => simp only [step, fireTracked]; split; split <;> exact hl; exact hl
  | fireOrphan k' i => simp only [step, fireOrphan]; split; split <;> exact hl; exact hl
  | cbrun k' => simp only [step, cbrun]; split <;> exact hl
  | bind sid' => simp only [step, bind]; split <;> exact hl
  | hello sid' m => simp only [step, hello]; split <;> exact hl
  | listen a b c d =>
    simp only [step, listen]; split
    · simp; exact Or.inr hl
    · exact hl
  | listenAck a b =>
    simp only [step, listenAck]; split; exact hl; split; exact hl; split
    · rename_i l0 hfind _ hempty
      obtain ⟨hl0, hsid, hid⟩ := find?_spec hfind
      simp
      refine ⟨hl, ?_⟩
      by_cases e1 : l.sid = a
      · right; intro e2
        have := hS.listen_ids l hl l0 hl0 (by rw [e1, hsid]) (by rw [e2, hid])
        rw [this] at hgr
        rcases hgr with hgr | hgr
        · exact hgr hempty.1
        · exact hgr hempty.2
      · exact Or.inl e1
    · exact hl
  | listenEnd a b =>
    simp only [step, listenEnd]; split
    · exact hl
    · simp; refine ⟨hl, ?_⟩
      by_cases e1 : l.sid = a
      · right; intro e2; apply h1; rw [e1, e2]
      · exact Or.inl e1
  | subscribe a b c => simp only [step, subscribe]; split <;> exact hl
  | unsubscribe a b => simp only [step, unsubscribe]; split <;> exact hl
  | close sid' => simp [step, close]; exact ⟨hl, fun e => h2 (by rw [e])⟩
  | updated u => exact hl
  | updatedNamed u v => exact hl
  | deliver k' i => simp only [step, deliver]; split <;> exact hl
  | listenRefused a b c d n =>
    simp only [step, listenRefused]
    split
    · rename_i hg
      rw [listenEnd_listen_listens s a b c _ hg.2.1]; exact hl
    · exact hl

/-- An acknowledged grant of `k` makes the session entitled. -/
theorem entitled_of_acked (cap : Kind → Cap) (ls : List Label) (sid id : Nat) (k : Kind)
    (h : (sid, id) ∈ (final cap ls).acked)
    (hk : ∀ l ∈ (final cap ls).listens, l.sid = sid → l.id = id → k ∈ l.kinds) :
    entitled (final cap ls) sid k := by
  obtain ⟨l, hl, h1, h2, _⟩ := acked_stays_served cap ls sid id h
  exact Or.inr ⟨l, hl, h1, hk l hl h1 h2⟩

/-- **at_least_one_after_ack.**  A 2026-07-28 session that holds the acknowledgement of a listen
granted `k` and is in debt for `k` (a gated change since it connected — before or after the
acknowledgement — that no snapshot has covered) is in the send list of the next `notifySessions(k)`
run, stamped with the id of its newest open listen that was granted `k` (that listen's own id unless
a newer one overlaps it); and such a run is still to come (`no_lost_notification`). -/
theorem at_least_one_after_ack (cap : Kind → Cap) (ls : List Label) (sid id : Nat) (k : Kind)
    (ha : (sid, id) ∈ (final cap ls).acked)
    (hk : ∀ l ∈ (final cap ls).listens, l.sid = sid → l.id = id → k ∈ l.kinds)
    (ho : (sid, k) ∈ (final cap ls).owed) :
    active ((final cap ls).ks k) ∧
    (0 < ((final cap ls).ks k).pending →
      ∃ to h, (step (final cap ls) (.cbrun k)).2 = [.changed k to] ∧ (⟨sid, some h⟩ : Send) ∈ to ∧
        heir (final cap ls).listens sid (grantsK k) = some h) := by
  refine ⟨no_lost_notification cap ls sid k ho, ?_⟩
  intro hp
  obtain ⟨l, hl, h1, h2, hreg⟩ := acked_stays_served cap ls sid id ha
  obtain ⟨h, hh, _, hsend⟩ := hreg.2.1 k (hk l hl h1 h2)
  refine ⟨sendList (final cap ls) k, h, ?_, hsend, hh⟩
  simp only [step, cbrun]; split
  · omega
  · rfl

/-- **acked_updated.**  A `ResourceUpdated(u)` call made while the session holds the acknowledgement
of a listen granted `u` reaches the session, stamped with the id of its newest open listen that was
granted `u`. -/
theorem acked_updated (cap : Kind → Cap) (ls : List Label) (sid id u : Nat)
    (ha : (sid, id) ∈ (final cap ls).acked)
    (hu : ∀ l ∈ (final cap ls).listens, l.sid = sid → l.id = id → u ∈ l.uris) :
    ∃ to h, (step (final cap ls) (.updated u)).2 = [.updated u to] ∧ (⟨sid, some h⟩ : Send) ∈ to ∧
      heir (final cap ls).listens sid (grantsU u) = some h := by
  obtain ⟨l, hl, h1, h2, hreg⟩ := acked_stays_served cap ls sid id ha
  obtain ⟨h, hh, _, hsend⟩ := hreg.2.2 u (hu l hl h1 h2)
  exact ⟨updList (final cap ls) u, h, rfl, hsend, hh⟩

/-! ### a fan-out that blocks between two sessions

`cbrun k` is the snapshot; the writes of the fan-out loop are the labels `deliver k i`, and anything
can be scheduled between two of them. -/

theorem run_append (s : Server) (a b : List Label) :
    run s (a ++ b) = ((run (run s a).1 b).1, (run s a).2 ++ (run (run s a).1 b).2) := by
  induction a generalizing s with
  | nil => simp [run]
  | cons l a ih => simp only [List.cons_append, run]; rw [ih]; simp

/-- The schedule takes no snapshot of kind `k` and does not close `sid` — it may contain any number of
writes of fan-outs in progress (`deliver`), changes, timer firings, snapshots of other kinds, … -/
def quiet (k : Kind) (sid : Nat) (mid : List Label) : Prop := ∀ l ∈ mid, l ≠ .cbrun k ∧ l ≠ .close sid

theorem owed_through (s : Server) (mid : List Label) (sid : Nat) (k : Kind) (h : (sid, k) ∈ s.owed)
    (hq : quiet k sid mid) : (sid, k) ∈ (run s mid).1.owed := by
  induction mid generalizing s with
  | nil => exact h
  | cons l mid ih =>
    simp only [run]
    exact ih _ (owed_persists s l sid k h (hq l List.mem_cons_self).1 (hq l List.mem_cons_self).2)
      (fun l' hl' => hq l' (List.mem_cons_of_mem _ hl'))

/-- **change_during_fanout_announced** (at_least_one_after_burst with a BLOCKED fan-out).  Take any
reachable state — in particular one in which a `notifySessions(k)` fan-out is in progress, some
sessions already written to, a later write still blocked (`inflight ≠ []`) — and make a change of kind
`k` there.  Then (1) a timer is armed for `notificationDelay` from now: the change does not rely on
the call that is on its way; (2) every connected session is in debt, and whatever happens next short
of a NEW snapshot of kind `k` (the remaining writes of the blocked fan-out, further changes, timers,
other kinds' callbacks) the debt stays and is backed by an armed timer or a started callback — the
writes of the old fan-out discharge nothing; (3) when that callback takes its snapshot the session, if
entitled, is in it (`at_least_one_after_burst`). -/
theorem change_during_fanout_announced (cap : Kind → Cap) (ls : List Label) (f : FSet) (e : Eff) (k : Kind)
    (sid : Nat) (he : ¬(e = .noop ∨ (e = .remove ∧ (final cap ls).cnt f = 0))) (hk : featureKind f = some k)
    (hg : gateSend (final cap ls) k = true) (hs : sid ∈ (final cap ls).sessions.map Prod.fst)
    (mid : List Label) (hq : quiet k sid mid) :
    ((change (final cap ls) f e).ks k).tracked = some (some ((final cap ls).now + delay)) ∧
    (sid, k) ∈ (run (change (final cap ls) f e) mid).1.owed ∧
    active ((run (change (final cap ls) f e) mid).1.ks k) := by
  have ho := owed_of_change (final cap ls) f e k sid he hk hg hs
  have hthrough := owed_through _ mid sid k ho hq
  refine ⟨?_, hthrough, ?_⟩
  · have hne : (final cap ls).sessions ≠ [] := by intro e'; simp [e'] at hs
    have hg' : gateSend (bumpVer (final cap ls) f e) k = true := hg
    simp only [change, he, if_false, hk, notifyChange, hg', if_true, arm]
    have : (bumpVer (final cap ls) f e).sessions = (final cap ls).sessions := rfl
    simp only [this, hne, if_false]
    simp [setK, bumpVer]
  · have hfin : (run (change (final cap ls) f e) mid).1 = final cap (ls ++ (.change f e :: mid)) := by
      simp only [final]
      rw [run_append]
      simp only [run, step]
    rw [hfin] at hthrough ⊢
    exact no_lost_notification cap _ sid k hthrough

/-- … and (3) spelled out: in the state reached, the next snapshot of kind `k` contains the session if
it is entitled then — the notification it gets is sent after the change, however the blocked fan-out
and everything else was scheduled in between. -/
theorem change_during_fanout_reaches (cap : Kind → Cap) (ls : List Label) (f : FSet) (e : Eff) (k : Kind)
    (sid : Nat) (he : ¬(e = .noop ∨ (e = .remove ∧ (final cap ls).cnt f = 0))) (hk : featureKind f = some k)
    (hg : gateSend (final cap ls) k = true) (hs : sid ∈ (final cap ls).sessions.map Prod.fst)
    (mid : List Label) (hq : quiet k sid mid)
    (hent : entitled (run (change (final cap ls) f e) mid).1 sid k)
    (hp : 0 < ((run (change (final cap ls) f e) mid).1.ks k).pending) :
    ∃ to, (step (run (change (final cap ls) f e) mid).1 (.cbrun k)).2 = [.changed k to] ∧ sid ∈ to.map Send.sid := by
  have ho := (change_during_fanout_announced cap ls f e k sid he hk hg hs mid hq).2.1
  have hfin : (run (change (final cap ls) f e) mid).1 = final cap (ls ++ (.change f e :: mid)) := by
    simp only [final]
    rw [run_append]
    simp only [run, step]
  rw [hfin] at ho hent hp ⊢
  exact at_least_one_after_burst cap _ sid k ho hent hp

/-- A label other than a snapshot adds nothing to the outstanding writes of kind `k`. -/
theorem step_inflight (s : Server) (l : Label) (k : Kind) (x : Send)
    (h : x ∈ ((step s l).1.ks k).inflight) :
    x ∈ (s.ks k).inflight ∨ ∃ to, Out.changed k to ∈ (step s l).2 ∧ x ∈ to := by
  have frame : ∀ s' : Server, (s'.ks k).inflight = (s.ks k).inflight → x ∈ (s'.ks k).inflight → x ∈ (s.ks k).inflight :=
    fun s' e hx => e ▸ hx
  cases l with
  | change f e =>
    left
    simp only [step, change] at h
    split at h
    · exact h
    · split at h
      · exact h
      · simp only [notifyChange] at h
        split at h
        · simp only [arm] at h
          split at h
          · simp only [setK] at h; split at h <;> exact h
          · simp only [setK] at h; split at h <;> exact h
        · exact h
  | tick d => exact Or.inl h
  | fireTracked k' =>
    left
    simp only [step, fireTracked] at h
    split at h
    · split at h
      · simp only [setK] at h; split at h <;> exact h
      · exact h
    · exact h
  | fireOrphan k' i =>
    left
    simp only [step, fireOrphan] at h
    split at h
    · split at h
      · simp only [setK] at h; split at h <;> exact h
      · exact h
    · exact h
  | cbrun k' =>
    simp only [step, cbrun] at h ⊢
    split
    · rename_i hp; simp only [hp, if_true] at h; exact Or.inl h
    · rename_i hp
      simp only [hp, if_false, setK] at h
      split at h
      · rename_i e
        simp only [List.mem_append] at h
        rcases h with h | h
        · exact Or.inl (e ▸ h)
        · right; exact ⟨sendList s k', by rw [e]; simp, h⟩
      · exact Or.inl h
  | deliver k' i =>
    left
    simp only [step, deliver] at h
    split at h
    · exact h
    · simp only [setK] at h
      split at h
      · rename_i e; subst e; exact List.mem_of_mem_eraseIdx h
      · exact h
  | bind sid => left; simp only [step, bind] at h; split at h <;> exact h
  | hello sid m => left; simp only [step, hello] at h; split at h <;> exact h
  | listen a b c d => left; simp only [step, listen] at h; split at h <;> exact h
  | listenRefused a b c d n =>
    left
    simp only [step, listenRefused] at h
    split at h
    · simp only [listenEnd] at h
      split at h
      · simp only [listen] at h; split at h <;> exact h
      · simp only [listen] at h; split at h <;> exact h
    · exact h
  | listenAck a b =>
    left
    simp only [step, listenAck] at h
    split at h
    · exact h
    · split at h
      · exact h
      · split at h <;> exact h
  | listenEnd a b => left; simp only [step, listenEnd] at h; split at h <;> exact h
  | subscribe a b c => left; simp only [step, subscribe] at h; split at h <;> exact h
  | unsubscribe a b => left; simp only [step, unsubscribe] at h; split at h <;> exact h
  | close a => exact Or.inl h
  | updated u => exact Or.inl h
  | updatedNamed u v => exact Or.inl h

theorem sent_from (s : Server) (ls : List Label) (k : Kind) (x : Send) (h : Out.sent k x ∈ (run s ls).2) :
    x ∈ (s.ks k).inflight ∨ ∃ to, Out.changed k to ∈ (run s ls).2 ∧ x ∈ to := by
  induction ls generalizing s with
  | nil => simp [run] at h
  | cons l ls ih =>
    simp only [run, List.mem_append] at h ⊢
    rcases h with h | h
    · left
      cases l <;> simp [step] at h
      case cbrun k' => simp only [cbrun] at h; split at h <;> simp at h
      case listenAck a b => simp only [listenAck] at h; split at h; simp at h; split at h; simp at h; split at h <;> simp at h
      case deliver k' i =>
        simp only [deliver] at h
        split at h
        · simp at h
        · rename_i y hy
          split at h
          · simp at h
            obtain ⟨rfl, rfl⟩ := h
            exact List.mem_of_getElem? hy
          · simp at h
    · rcases ih _ h with h1 | ⟨to, h1, h2⟩
      · rcases step_inflight s l k x h1 with h3 | ⟨to, h3, h4⟩
        · exact Or.inl h3
        · exact Or.inr ⟨to, Or.inl h3, h4⟩
      · exact Or.inr ⟨to, Or.inr h1, h2⟩

/-- **sent_was_snapshot.**  Every write of every fan-out loop — however long it was blocked, whatever
happened meanwhile — goes to a session that some snapshot of that kind contained (so: entitled when
the snapshot was taken, `fanout_entitled_only`) and that is still connected. -/
theorem sent_was_snapshot (cap : Kind → Cap) (ls : List Label) (k : Kind) (x : Send)
    (h : Out.sent k x ∈ outputs cap ls) : ∃ to, Out.changed k to ∈ outputs cap ls ∧ x ∈ to := by
  rcases sent_from (init cap) ls k x h with h1 | h1
  · simp [init] at h1
  · exact h1

/-! ### a listen that the SubscribeHandler refuses -/

/-- In a state satisfying the invariant, the `resourceSubscriptions` entries of a 2026-07-28 session
are exactly the ids of its newest open streams. -/
theorem rsubs_modern_iff {s : Server} (hS : InvS s) {sid : Nat} (hm : (sid, Gen.modern) ∈ s.sessions) (u id : Nat) :
    (u, sid, id) ∈ s.rsubs ↔ heir s.listens sid (grantsU u) = some id := by
  constructor
  · intro h
    rcases hS.rsubs_owner _ h with g | g
    · exact absurd (gen_unique hS.sess_nodup g hm) (by simp)
    · exact g.2
  · exact hS.listen_rsubs u sid id

/-- **refused_listen_leaves_no_subscription.**  A `subscriptions/listen` that `SubscribeHandler`
refuses at its `n`-th URI — after the handler has entered the kinds and the URIs before it into the
tables — leaves, in every reachable state: the record of open streams, the live legacy subscriptions,
the sessions and the acknowledged listens as they were; every list-changed table with exactly the
entries it had; every `ResourceUpdated(u)` lookup with exactly the recipients it had (so the session
receives resource-updated notifications for a URI of the refused request only if another, live
subscription of it says so); and no table entry, no resource subscription and no acknowledgement
under the id of the refused request (a fresh id of a 2026-07-28 session: the label's guard). -/
theorem refused_listen_leaves_no_subscription (cap : Kind → Cap) (s : Server) (hr : Reach cap s)
    (sid id : Nat) (kinds : List Kind) (uris : List Nat) (n : Nat) :
    let s' := (step s (.listenRefused sid id kinds uris n)).1
    s'.listens = s.listens ∧ s'.rlive = s.rlive ∧ s'.sessions = s.sessions ∧
    (∀ p, p ∈ s'.acked ↔ p ∈ s.acked) ∧
    (∀ t p, p ∈ (s'.ks t).subs ↔ p ∈ (s.ks t).subs) ∧
    (∀ u x, x ∈ (updList s' u).map Send.sid ↔ x ∈ (updList s u).map Send.sid) ∧
    ((sid, Gen.modern) ∈ s.sessions → listenOk s sid id = true →
      (∀ t, (sid, id) ∉ (s'.ks t).subs) ∧ (∀ r ∈ s'.rsubs, ¬(r.2.1 = sid ∧ r.2.2 = id)) ∧ (sid, id) ∉ s'.acked) := by
  intro s'
  have hr' : Reach cap s' := Reach.step _ hr
  have hS := (reach_inv hr).2
  have hS' := (reach_inv hr').2
  have hA := reach_invA hr
  have hlist : s'.listens = s.listens := by
    show (listenRefused s sid id kinds uris n).listens = s.listens
    simp only [listenRefused]; split
    · rename_i hg; exact listenEnd_listen_listens s sid id kinds _ hg.2.1
    · rfl
  have hrl : s'.rlive = s.rlive := by
    show (listenRefused s sid id kinds uris n).rlive = s.rlive
    simp only [listenRefused]; split
    · rw [listenEnd_rlive, listen_rlive]
    · rfl
  have hsess : s'.sessions = s.sessions := by
    show (listenRefused s sid id kinds uris n).sessions = s.sessions
    simp only [listenRefused]; split
    · rw [listenEnd_sessions, listen_sessions]
    · rfl
  have hack : ∀ p, p ∈ s'.acked ↔ p ∈ s.acked := by
    intro p
    show p ∈ (listenRefused s sid id kinds uris n).acked ↔ p ∈ s.acked
    simp only [listenRefused]; split
    · rename_i hg
      have ok := listenOk_spec hg.2.1
      constructor
      · intro hp; have := listenEnd_acked_sub _ sid id p hp; rw [listen_acked] at this; exact this
      · intro hp
        obtain ⟨l0, hl0, e1, e2⟩ := hA p hp
        have hne : ¬(p.1 = sid ∧ p.2 = id) := fun e => ok l0 hl0 ⟨by rw [e1]; exact e.1, by rw [e2]; exact e.2⟩
        simp only [listenEnd]
        split
        · rw [listen_acked]; exact hp
        · simp only [listen_acked]
          simp
          refine ⟨hp, ?_⟩
          by_cases e : p.1 = sid
          · exact Or.inr (fun e2 => hne ⟨e, e2⟩)
          · exact Or.inl e
    · exact Iff.rfl
  refine ⟨hlist, hrl, hsess, hack, ?_, ?_, ?_⟩
  · intro t p
    obtain ⟨a, b⟩ := p
    rw [hS'.subs_iff t a b, hS.subs_iff t a b, hlist]
  · intro u x
    rw [(updList_spec hS' u).1 x, (updList_spec hS u).1 x]
    simp only [subscribed, hlist, hrl]
  · intro hmod hok
    have ok := listenOk_spec hok
    refine ⟨?_, ?_, ?_⟩
    · intro t hmem
      obtain ⟨l0, hl0, e1, e2, _⟩ := hS'.subs_listen t (sid, id) hmem
      rw [hlist] at hl0
      exact ok l0 hl0 ⟨e1, e2⟩
    · intro r hr0 ⟨e1, e2⟩
      rcases hS'.rsubs_owner r hr0 with g | g
      · rw [hsess, e1] at g
        exact absurd (gen_unique hS.sess_nodup g hmod) (by simp)
      · obtain ⟨l0, hl0, h1, h2, _⟩ := heir_mem g.2
        rw [hlist] at hl0
        exact ok l0 hl0 ⟨by rw [h1]; exact e1, by rw [h2]; exact e2⟩
    · intro hmem
      obtain ⟨l0, hl0, h1, h2⟩ := hA _ ((hack _).1 hmem)
      exact ok l0 hl0 ⟨h1, h2⟩

/-- Non-vacuity for a blocked fan-out: two legacy sessions; the fan-out of the first burst has written
to session 1 and is blocked before session 2 when a further change is made; a fresh timer is armed by
that change and its callback reaches BOTH sessions — session 1, served before the change, too. -/
example :
    outputs (fun _ => .unset)
      [.bind 1, .hello 1 false, .bind 2, .hello 2 false, .change .tools .add, .tick 10, .fireTracked .tools,
       .cbrun .tools, .deliver .tools 0, .change .tools .add, .deliver .tools 0,
       .tick 10, .fireTracked .tools, .cbrun .tools, .deliver .tools 1, .deliver .tools 0] =
      [.changed .tools [⟨1, none⟩, ⟨2, none⟩], .sent .tools ⟨1, none⟩, .sent .tools ⟨2, none⟩,
       .changed .tools [⟨1, none⟩, ⟨2, none⟩], .sent .tools ⟨2, none⟩, .sent .tools ⟨1, none⟩] := by
  decide

example :
    ((final (fun _ => .unset)
      [.bind 1, .hello 1 false, .bind 2, .hello 2 false, .change .tools .add, .tick 10, .fireTracked .tools,
       .cbrun .tools, .deliver .tools 0]).ks .tools).inflight = [⟨2, none⟩] := by
  decide

/-- … a write to a session closed since the snapshot sends nothing. -/
example :
    outputs (fun _ => .unset)
      [.bind 1, .hello 1 false, .bind 2, .hello 2 false, .change .tools .add, .tick 10, .fireTracked .tools,
       .cbrun .tools, .close 2, .deliver .tools 1, .deliver .tools 0] =
      [.changed .tools [⟨1, none⟩, ⟨2, none⟩], .sent .tools ⟨1, none⟩] := by
  decide

/-- Non-vacuity for a refused listen: the request 9 of session 2 names kind `tools` and the URIs 5, 6
and 7; `SubscribeHandler` refuses 6 (index 1), after `tools` and 5 have been entered under id 9.
Afterwards `ResourceUpdated(5)` reaches nobody, and the list-changed entry is back with the older
stream 7 that request 9 had shadowed. -/
example :
    outputs (fun _ => .on)
      [.bind 2, .hello 2 true, .listen 2 7 [.tools] [], .listenAck 2 7, .listenRefused 2 9 [.tools] [5, 6, 7] 1,
       .updated 5, .listenAck 2 9, .change .tools .add, .tick 10, .fireTracked .tools, .cbrun .tools] =
      [.ack 2 7 [.tools] [], .updated 5 [], .changed .tools [⟨2, some 7⟩]] := by
  decide

/-- … whereas the same request with an accepting handler subscribes the session to all three. -/
example :
    outputs (fun _ => .on)
      [.bind 2, .hello 2 true, .listen 2 9 [.tools] [5, 6, 7], .listenAck 2 9, .updated 5, .updatedNamed 7 70] =
      [.ack 2 9 [.tools] [5, 6, 7], .updated 5 [⟨2, some 9⟩], .updatedNamed 7 70 [⟨2, some 9⟩]] := by
  decide

/-- Non-vacuity of the server-side statements: a burst of two tool changes with one legacy and one
subscribed 2026-07-28 session, the second change landing between the timer firing and its callback
taking the lock; the re-armed timer's callback still reaches both sessions. -/
example :
    outputs (fun _ => .unset)
      [.change .tools .add, .bind 1, .hello 1 false, .bind 2, .hello 2 true, .listen 2 7 [.tools] [],
       .listenAck 2 7, .change .tools .add, .tick 10, .fireTracked .tools, .change .tools .add, .cbrun .tools,
       .tick 10, .fireOrphan .tools 0, .cbrun .tools] =
      [.ack 2 7 [.tools] [], .changed .tools [⟨1, none⟩, ⟨2, some 7⟩], .changed .tools [⟨1, none⟩, ⟨2, some 7⟩]] := by
  decide

example : (final (fun _ => .unset) [.bind 1, .change .tools .add]).owed = [(1, .tools)] := by decide

/-- Non-vacuity of the acknowledgement theorems: the whole burst (change, timer, callback) falls
between the acknowledgement write and the next step of the handler; the session is reached.  And a
burst that falls between the registration section and the acknowledgement write reaches it too (the
notification then precedes the acknowledgement on the wire). -/
example :
    outputs (fun _ => .unset)
      [.change .tools .add, .bind 2, .hello 2 true, .listen 2 7 [.tools] [], .listenAck 2 7,
       .change .tools .add, .tick 10, .fireTracked .tools, .cbrun .tools] =
      [.ack 2 7 [.tools] [], .changed .tools [⟨2, some 7⟩]] := by
  decide

example :
    outputs (fun _ => .unset)
      [.change .tools .add, .bind 2, .hello 2 true, .listen 2 7 [.tools] [],
       .change .tools .add, .tick 10, .fireTracked .tools, .cbrun .tools, .listenAck 2 7] =
      [.changed .tools [⟨2, some 7⟩], .ack 2 7 [.tools] []] := by
  decide

example : (final (fun _ => .unset)
    [.change .tools .add, .bind 2, .hello 2 true, .listen 2 7 [.tools] [], .listenAck 2 7]).acked = [(2, 7)] := by
  decide

/-- Non-vacuity for overlapping listens.  Two streams of one session granted `tools`: whichever ends
first, the change that follows reaches the session, stamped with the survivor's id (the older one
ending leaves the newer one's entry alone; the newer one ending hands the entry over). -/
example :
    outputs (fun _ => .unset)
      [.change .tools .add, .bind 2, .hello 2 true, .listen 2 7 [.tools] [], .listenAck 2 7,
       .listen 2 8 [.tools] [], .listenAck 2 8, .listenEnd 2 7,
       .change .tools .add, .tick 10, .fireTracked .tools, .cbrun .tools] =
      [.ack 2 7 [.tools] [], .ack 2 8 [.tools] [], .changed .tools [⟨2, some 8⟩]] := by
  decide

example :
    outputs (fun _ => .unset)
      [.change .tools .add, .bind 2, .hello 2 true, .listen 2 7 [.tools] [], .listenAck 2 7,
       .listen 2 8 [.tools] [], .listenAck 2 8, .listenEnd 2 8,
       .change .tools .add, .tick 10, .fireTracked .tools, .cbrun .tools] =
      [.ack 2 7 [.tools] [], .ack 2 8 [.tools] [], .changed .tools [⟨2, some 7⟩]] := by
  decide

/-- Three streams on one URI, ended newest, oldest, middle: served until the last one has ended. -/
example :
    outputs (fun _ => .on)
      [.bind 2, .hello 2 true, .listen 2 3 [] [5], .listenAck 2 3, .listen 2 4 [] [5], .listenAck 2 4,
       .listen 2 6 [] [5], .listenAck 2 6, .updated 5, .listenEnd 2 6, .updated 5, .listenEnd 2 3, .updated 5,
       .listenEnd 2 4, .updated 5] =
      [.ack 2 3 [] [5], .ack 2 4 [] [5], .ack 2 6 [] [5], .updated 5 [⟨2, some 6⟩], .updated 5 [⟨2, some 4⟩],
       .updated 5 [⟨2, some 4⟩], .updated 5 []] := by
  decide

/-- A per-URI listen (what `ClientSession.Subscribe` opens): acknowledged, then updated. -/
example :
    outputs (fun _ => .on)
      [.bind 2, .hello 2 true, .listen 2 3 [] [5], .listenAck 2 3, .updated 5, .listenEnd 2 3, .updated 5] =
      [.ack 2 3 [] [5], .updated 5 [⟨2, some 3⟩], .updated 5 []] := by
  decide

end Notify

/-! ## client side -/
namespace Notify.Cache

theorem inv_run (s : State) (ls : List Label) (h : Inv s) : Inv (run true s ls).1 := by
  induction ls generalizing s with
  | nil => exact h
  | cons l ls ih => simp only [run]; exact ih _ (inv_step s l h)

/-- Every value returned from a state satisfying the invariant is at least as new as the newest
notification handled before the call started. -/
theorem step_fresh (s : State) (l : Label) (h : Inv s) :
    ∀ k v m hit, Out.ret k v m hit ∈ (step true s l).2 → m ≤ v := by
  intro k v m hit ho
  cases l <;> simp [step] at ho
  case listStart k' =>
    simp only [listStart] at ho
    split at ho
    · rename_i e he
      split at ho
      · simp at ho
        obtain ⟨rfl, rfl, rfl, _⟩ := ho
        have := h.entry_fresh (k, e) (Notify.mem_of_lookup he)
        exact this
      · simp at ho
    · simp at ho
  case fill i =>
    simp only [fill] at ho
    split at ho
    · rename_i f hf
      split at ho
      · rename_i v' ttl hst
        simp at ho
        obtain ⟨rfl, rfl, rfl, _⟩ := ho
        exact (h.fill_resp f (List.mem_of_getElem? hf) _ _ hst).1
      · simp at ho
    · simp at ho

/-- **list_after_notification_fresh.**  For every interleaving of list/read calls, responses, cache
fills, notifications being sent and handled, server changes and clock ticks, with any TTLs: a call
never returns a version older than the newest version announced by a notification (covering its
key) that the client had handled when the call started.  `m` is the ghost recorded at the start of
the call (`handled_announced`, `handled_mono` give its meaning). -/
theorem list_after_notification_fresh (ls : List Label) :
    ∀ k v m hit, Out.ret k v m hit ∈ (run true {} ls).2 → m ≤ v := by
  suffices H : ∀ s, Inv s → ∀ k v m hit, Out.ret k v m hit ∈ (run true s ls).2 → m ≤ v from H {} inv_init
  induction ls with
  | nil => intro s _ k v m hit ho; simp [run] at ho
  | cons l ls ih =>
    intro s hs k v m hit ho
    simp only [run, List.mem_append] at ho
    rcases ho with ho | ho
    · exact step_fresh s l hs k v m hit ho
    · exact ih _ (inv_step s l hs) k v m hit ho

/-- Meaning of the ghost `handled`: handling a notification that covers `k` raises it to at least
the server version the notification announced (`vers` = `srv` at the `announce` label). -/
theorem handled_announced (s : State) (i : Nat) (n : Notif) (h : s.inbox[i]? = some n) (k : Nat)
    (hc : n.covers k = true) : n.vers k ≤ (handle s i).handled k := by
  simp [handle, h, hc]; omega

theorem handled_mono (fixed : Bool) (s : State) (l : Label) (k : Nat) :
    s.handled k ≤ (step fixed s l).1.handled k := by
  cases l <;> simp only [step] <;> try exact Nat.le_refl _
  case handle i =>
    simp only [handle]; split
    · exact Nat.le_refl _
    · simp; split <;> omega
  case listStart k' => simp only [listStart]; split; split <;> exact Nat.le_refl _; exact Nat.le_refl _
  case serve i ttl => simp only [serve]; split; split <;> exact Nat.le_refl _; exact Nat.le_refl _
  case fill i => simp only [fill]; split; split <;> exact Nat.le_refl _; exact Nat.le_refl _

/-- **invalidate_on_notification.**  Handling a notification removes every cache entry it covers
(and moves the generation), so the next call for such a key goes to the server. -/
theorem invalidate_on_notification (s : State) (i : Nat) (n : Notif) (h : s.inbox[i]? = some n) (k : Nat)
    (hc : n.covers k = true) :
    (handle s i).entries.lookup k = none ∧ (handle s i).gen = s.gen + 1 ∧
      (listStart (handle s i) k).2 = [] := by
  have h1 : (handle s i).entries.lookup k = none := by
    simp only [handle, h]
    rw [List.lookup_eq_none_iff]
    intro p hp
    simp at hp
    simp
    intro e; rw [← e] at hp; simp [hc] at hp
  refine ⟨h1, by simp [handle, h], ?_⟩
  simp [listStart, h1]

/-- **invalidate_on_every_handled_update.**  Handling a resource-updated notification that names `k`
removes the read-cache entry of `k` and moves the generation — whatever `cs.resourceSubs` holds: with
or without a Subscribe entry for `k` (an update naming a sub-resource of the subscribed URI, a stream
opened below `Subscribe`, an update that overtakes the asynchronous cancellation after `Unsubscribe`
has removed the entry).  `handle` does not read the table at all (`handle_ignores_subscriptions`). -/
theorem invalidate_on_every_handled_update (s : State) (i : Nat) (n : Notif) (h : s.inbox[i]? = some n) (k : Nat)
    (hs : n.scope = some k) :
    (handle s i).entries.lookup k = none ∧ (handle s i).gen = s.gen + 1 ∧
      (listStart (handle s i) k).2 = [] :=
  invalidate_on_notification s i n h k (by simp [Notif.covers, hs])

theorem handle_ignores_subscriptions (s : State) (subs' : List Nat) (i : Nat) :
    (handle { s with subs := subs' } i).entries = (handle s i).entries ∧
    (handle { s with subs := subs' } i).gen = (handle s i).gen ∧
    (handle { s with subs := subs' } i).fills = (handle s i).fills ∧
    (handle { s with subs := subs' } i).inbox = (handle s i).inbox ∧
    (handle { s with subs := subs' } i).handled = (handle s i).handled := by
  simp only [handle]
  split <;> simp

/-- … so a read that starts after the client handled an update naming `k` is answered by the server,
not from the cache, until a response obtained after the update has been stored: combined with
`list_after_notification_fresh` (which holds for every schedule of `sub`/`unsub` labels too) the read
returns a version at least as new as the one the update announced. -/
example :
    (run true {} [.listStart 5, .serve 0 60000, .fill 0, .listStart 5, .bump (fun k => k == 5),
       .announce (some 5), .handle 0, .listStart 5, .serve 0 60000, .fill 0]).2 =
      [.ret 5 0 0 false, .ret 5 0 0 true, .ret 5 1 1 false] := by decide

/-- **gated_invalidation_counterexample.**  For the variant that invalidates only URIs in
`cs.resourceSubs` the freshness theorem is FALSE, in both situations: (1) the client is subscribed to
6 and has 5 cached; an update names 5 (a sub-resource of 6); (2) the client subscribes to 5, reads it,
unsubscribes — the entry is gone at once — and an update for 5, sent before the server processed the
cancellation, is handled.  In both a read that starts after the notification was handled is served the
cached version 0 although version 1 was announced. -/
theorem gated_invalidation_counterexample :
    (∃ ls k v m hit, Out.ret k v m hit ∈ (runGated {} ls).2 ∧ ¬ m ≤ v ∧ Label.unsub 5 ∉ ls) ∧
    (∃ ls k v m hit, Out.ret k v m hit ∈ (runGated {} ls).2 ∧ ¬ m ≤ v ∧ Label.sub 5 ∈ ls) :=
  ⟨⟨[.sub 6, .listStart 5, .serve 0 60000, .fill 0, .bump (fun k => k == 5), .announce (some 5), .handle 0, .listStart 5],
     5, 0, 1, true, by decide, by decide, by simp⟩,
   ⟨[.sub 5, .listStart 5, .serve 0 60000, .fill 0, .unsub 5, .bump (fun k => k == 5), .announce (some 5), .handle 0,
     .listStart 5],
     5, 0, 1, true, by decide, by decide, by simp⟩⟩

/-- The same two schedules on the code that exists: the read goes to the server and returns version 1. -/
example :
    (run true {} [.sub 6, .listStart 5, .serve 0 60000, .fill 0, .bump (fun k => k == 5), .announce (some 5),
       .handle 0, .listStart 5, .serve 0 60000, .fill 0]).2 = [.ret 5 0 0 false, .ret 5 1 1 false] := by decide

example :
    (run true {} [.sub 5, .listStart 5, .serve 0 60000, .fill 0, .unsub 5, .bump (fun k => k == 5),
       .announce (some 5), .handle 0, .listStart 5, .serve 0 60000, .fill 0]).2 =
      [.ret 5 0 0 false, .ret 5 1 1 false] := by decide

/-- Non-vacuity, and the reason for the repair.  Schedule: list (miss, TTL 60 s) … response obtained
at version 0 … server change … notification sent and handled … the held response is put into the
cache … a later list.  REPAIRED cache: the stale fill is skipped, the later list misses and returns
version 1. -/
def f7Schedule : List Label :=
  [.listStart 0, .serve 0 60000, .bump (fun _ => true), .announce none, .handle 0, .fill 0,
   .listStart 0, .serve 0 60000, .fill 0]

example : (run true {} f7Schedule).2 = [.ret 0 0 0 false, .ret 0 1 1 false] := by decide

/-- **F7 (pinned commit).**  Without the generation check the same schedule serves version 0 from
the cache to a call that started after the client handled the notification announcing version 1:
`list_after_notification_fresh` is false for `fixed = false`. -/
theorem f7_counterexample :
    ∃ ls k v m hit, Out.ret k v m hit ∈ (run false {} ls).2 ∧ ¬ m ≤ v :=
  ⟨[.listStart 0, .serve 0 60000, .bump (fun _ => true), .announce none, .handle 0, .fill 0, .listStart 0],
   0, 0, 1, true, by decide, by decide⟩

end Notify.Cache
