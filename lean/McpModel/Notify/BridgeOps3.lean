import McpModel.Notify.BridgeOps2
import McpModel.Notify.BridgeListenSrv
/-!
# Bridge, part 5b: the ops that open, acknowledge and end listens (and legacy subscriptions)
-/
namespace Notify.Bridge
open Notify Notify.Mon Notify.Sys Generated.Notify

variable {seen : List Nat} {y : State} {m : MState}

/-! ### the monitor's list of live listens -/

theorem addListen_listens (d : MSlot) (id : Nat) (ks : List Kind) (us : List Nat) :
    (d.addListen id ks us).listens =
      if ks = [] ∧ us = [] then d.listens else d.listens.filter (·.id != id) ++ [⟨id, ks, us⟩] := by
  simp only [MSlot.addListen]
  by_cases h : ks = [] ∧ us = []
  · simp [h.1, h.2]
  · have : (ks.isEmpty && us.isEmpty) = false := by
      cases ks <;> cases us <;> simp_all
    simp [this, h]

theorem endListen_listens (d : MSlot) (x : Nat) : (d.endListen x).listens = d.listens.filter (·.id != x) := by
  simp only [MSlot.endListen]
  split
  · rename_i hn
    rw [List.find?_eq_none] at hn
    symm; rw [List.filter_eq_self]
    intro l hl
    have := hn l hl
    simpa using this
  · rfl

theorem addListen_frame (d : MSlot) (id : Nat) (ks : List Kind) (us : List Nat) :
    (d.addListen id ks us).connected = d.connected ∧ (d.addListen id ks us).modern = d.modern ∧
    (d.addListen id ks us).luris = d.luris ∧ (d.addListen id ks us).owed = d.owed ∧
    (d.addListen id ks us).maxHandled = d.maxHandled ∧ (d.addListen id ks us).invalidated = d.invalidated ∧
    (d.addListen id ks us).starts = d.starts := by
  simp only [MSlot.addListen]; split <;> simp

theorem endListen_frame (d : MSlot) (x : Nat) :
    (d.endListen x).connected = d.connected ∧ (d.endListen x).modern = d.modern ∧
    (d.endListen x).luris = d.luris ∧ (d.endListen x).owed = d.owed ∧
    (d.endListen x).maxHandled = d.maxHandled ∧ (d.endListen x).invalidated = d.invalidated ∧
    (d.endListen x).starts = d.starts := by
  simp only [MSlot.endListen]; split <;> simp

theorem listens_iff_add {ls : List Listen} {L : List MListen} {sid id : Nat} {ak : List Kind} {au : List Nat}
    (h : ∀ ml, ml ∈ L ↔ ∃ l ∈ ls, l.sid = sid ∧ ml = toM l) (hfree : ∀ l ∈ ls, ¬(l.sid = sid ∧ l.id = id)) :
    ∀ ml, ml ∈ L.filter (·.id != id) ++ [⟨id, ak, au⟩] ↔ ∃ l ∈ (⟨sid, id, ak, au⟩ :: ls), l.sid = sid ∧ ml = toM l := by
  intro ml
  simp only [List.mem_append, List.mem_filter, List.mem_cons, List.not_mem_nil, or_false]
  constructor
  · rintro (⟨hm, _⟩ | rfl)
    · obtain ⟨l, hl, e1, e2⟩ := (h ml).1 hm
      exact ⟨l, Or.inr hl, e1, e2⟩
    · exact ⟨_, Or.inl rfl, rfl, rfl⟩
  · rintro ⟨l, (rfl | hl), e1, e2⟩
    · right; exact e2
    · left
      refine ⟨(h ml).2 ⟨l, hl, e1, e2⟩, ?_⟩
      have := hfree l hl
      subst e2
      simp only [toM, bne_iff_ne, ne_eq]
      exact fun e => this ⟨e1, e⟩

theorem listens_iff_other {ls : List Listen} {n : Listen} {sid : Nat} (hne : n.sid ≠ sid) (ml : MListen) :
    (∃ l ∈ n :: ls, l.sid = sid ∧ ml = toM l) ↔ (∃ l ∈ ls, l.sid = sid ∧ ml = toM l) := by
  constructor
  · rintro ⟨l, hl, e1, e2⟩
    rcases List.mem_cons.1 hl with rfl | hl
    · exact absurd e1 hne
    · exact ⟨l, hl, e1, e2⟩
  · rintro ⟨l, hl, e1, e2⟩; exact ⟨l, List.mem_cons_of_mem _ hl, e1, e2⟩

theorem listens_iff_end {ls : List Listen} {L : List MListen} {sid id : Nat}
    (h : ∀ ml, ml ∈ L ↔ ∃ l ∈ ls, l.sid = sid ∧ ml = toM l) :
    ∀ ml, ml ∈ L.filter (·.id != id) ↔
      ∃ l ∈ ls.filter (fun l' => !(l'.sid == sid && l'.id == id)), l.sid = sid ∧ ml = toM l := by
  intro ml
  simp only [List.mem_filter]
  constructor
  · rintro ⟨hm, hne⟩
    obtain ⟨l, hl, e1, e2⟩ := (h ml).1 hm
    refine ⟨l, ⟨hl, ?_⟩, e1, e2⟩
    subst e2
    simp only [toM, bne_iff_ne, ne_eq] at hne
    simp [hne]
  · rintro ⟨l, ⟨hl, hne⟩, e1, e2⟩
    refine ⟨(h ml).2 ⟨l, hl, e1, e2⟩, ?_⟩
    subst e2
    simp only [toM, bne_iff_ne, ne_eq]
    intro e
    simp [e1, e] at hne

theorem listens_iff_end_other {ls : List Listen} {sid sid' id : Nat} (hne : sid' ≠ sid) (ml : MListen) :
    (∃ l ∈ ls.filter (fun l' => !(l'.sid == sid && l'.id == id)), l.sid = sid' ∧ ml = toM l) ↔
      (∃ l ∈ ls, l.sid = sid' ∧ ml = toM l) := by
  simp only [List.mem_filter]
  constructor
  · rintro ⟨l, ⟨hl, _⟩, e1, e2⟩; exact ⟨l, hl, e1, e2⟩
  · rintro ⟨l, hl, e1, e2⟩
    refine ⟨l, ⟨hl, ?_⟩, e1, e2⟩
    have : l.sid ≠ sid := by rw [e1]; exact hne
    simp [this]

/-! ### the frame of these ops -/

theorem curVersion_congr {y y' : State} (h1 : y'.srv.ver = y.srv.ver) (h2 : y'.content = y.content) :
    curVersion y' = curVersion y := by
  funext key
  simp only [curVersion, curVersionObj, h1, h2]

/-- an op that only moves listens (and fields of the slots the other components do not read) -/
theorem Rel.listen_frame (h : Rel seen y m) {y' : State} {m' : MState}
    (hok : SrvOk y'.srv) (hrest : SameRest y.srv y'.srv) (hcontent : y'.content = y.content)
    (e1 : ∀ j, (y'.slots j).used = (y.slots j).used) (e2 : ∀ j, (y'.slots j).sid = (y.slots j).sid)
    (e3 : ∀ j, (y'.slots j).modern = (y.slots j).modern)
    (e4 : ∀ j, (y'.slots j).used = true → (y'.slots j).connected = !(y'.slots j).gated)
    (e5 : ∀ j, (y'.slots j).used = true → (y'.slots j).gated = true → (y'.slots j).modern = true)
    (ec : ∀ j, (y.slots j).used = true → CacheRel (curVersion y) (y.slots j) (m.slots j) →
      CacheRel (curVersion y) (y'.slots j) (m'.slots j))
    (m1 : ∀ j, (m'.slots j).connected = (m.slots j).connected) (m2 : ∀ j, (m'.slots j).modern = (m.slots j).modern)
    (m3 : ∀ j, (m'.slots j).owed = (m.slots j).owed)
    (mf : m'.fans = m.fans) (g1 : m'.cap = m.cap) (g2 : m'.ver = m.ver) (g3 : m'.cnt = m.cnt)
    (g4 : m'.content = m.content)
    (hl : RelListen y'.srv y'.slots m'.slots) : Rel seen y' m' := by
  refine ⟨hok, ?_, ?_, hl, ?_, ?_, ?_, ?_, ?_⟩
  · exact ⟨by rw [g1, hrest.cap]; exact h.g.cap, by rw [g2, hrest.ver]; exact h.g.ver,
      by rw [g3, hrest.cnt]; exact h.g.cnt, by rw [g4, hcontent]; exact h.g.content⟩
  · rw [hrest.sessions]
    constructor
    · intro i hu; rw [e1] at hu; rw [e2, e3]; exact h.sess.used_sess i hu
    · intro p hp; obtain ⟨i, hu, hs⟩ := h.sess.sess_used p hp; exact ⟨i, by rw [e1]; exact hu, by rw [e2]; exact hs⟩
    · intro i j hi hj hs; rw [e1] at hi hj; rw [e2, e2] at hs; exact h.sess.sid_inj i j hi hj hs
    · intro i; rw [m1, e1]; exact h.sess.conn i
    · intro i hu; rw [e1] at hu; rw [m2, e3]; exact h.sess.modern i hu
    · exact e4
    · exact e5
  · rw [hrest.owed]
    have : (fun k => (y'.srv.ks k).inflight) = fun k => (y.srv.ks k).inflight := funext hrest.infl
    rw [this]
    exact h.owed.congr e1 e2 m3
  · have : (fun k => (y'.srv.ks k).inflight) = fun k => (y.srv.ks k).inflight := funext hrest.infl
    rw [this, mf]
    exact h.fan.congr e1 e2 e3
  · rw [curVersion_congr hrest.ver hcontent]
    intro j hj
    rw [e1] at hj
    exact ec j hj (h.cache j hj)
  · constructor
    · rw [hrest.sessions]; exact h.seen.sess
    · intro k; rw [hrest.infl]; exact h.seen.infl k
  · intro k hk
    rw [hrest.infl] at hk
    have := h.gate k hk
    simp only [gateSend, hrest.cap] at this ⊢
    exact this

/-- the monitor's list of live listens after the observation `o` of a listen request with id `id` -/
def listensAfter (L : List MListen) (id : Nat) : Option (List Kind × List Nat) → List MListen
  | some (ak, au) => if ak = [] ∧ au = [] then L else L.filter (·.id != id) ++ [⟨id, ak, au⟩]
  | none => L

theorem relListen_open {s' : Server} {slots : Slot → DSlot} {ms : Slot → MSlot}
    (hl : RelListen y.srv slots ms) (hsess : RelSess y.srv.sessions slots ms)
    (i : Slot) (hu : (slots i).used = true) {id : Nat} {o : Option (List Kind × List Nat)}
    (hfree : listenOk y.srv (slots i).sid id = true)
    (hout : ListenOutcome y.srv s' (slots i).sid id o) (hrl : s'.rlive = y.srv.rlive)
    (d' : DSlot) (md' : MSlot)
    (d1 : d'.used = true) (d2 : d'.sid = (slots i).sid) (d3 : d'.modern = (slots i).modern)
    (d4 : d'.gated = false)
    (d5 : ∀ u, u ∈ (slots i).rsubs → u ∈ d'.rsubs) (d6 : d'.cancelHeld = (slots i).cancelHeld)
    (d7 : ∀ u, id = ridOf u → u ∈ d'.rsubs)
    (hml : md'.listens = listensAfter (ms i).listens id o) (hmu : md'.luris = (ms i).luris) :
    RelListen s' (fun j => if j = i then d' else slots j) (fun j => if j = i then md' else ms j) := by
  have hne : ∀ j, j ≠ i → (slots j).used = true → (slots j).sid ≠ (slots i).sid := by
    intro j hji hj e; exact hji (hsess.sid_inj j i hj hu e)
  have hfr := listenOk_spec hfree
  -- the parts that do not depend on the outcome
  have luris' : ∀ j, (if j = i then d' else slots j).used = true → (if j = i then d' else slots j).modern = false →
      ∀ u, u ∈ (if j = i then md' else ms j).luris ↔ ((if j = i then d' else slots j).sid, u) ∈ s'.rlive := by
    intro j hj hm u
    rw [hrl]
    by_cases e : j = i
    · subst e; simp only [if_true] at hj hm ⊢; rw [hmu, d2]; rw [d3] at hm; exact hl.luris j hu hm u
    · simp only [e, if_false] at hj hm ⊢; exact hl.luris j hj hm u
  have idle' : ∀ j, (if j = i then d' else slots j).used = false → SlotIdle (if j = i then md' else ms j) := by
    intro j hj
    by_cases e : j = i
    · subst e; simp only [if_true] at hj; rw [d1] at hj; exact absurd hj (by simp)
    · simp only [e, if_false] at hj ⊢; exact hl.idle j hj
  -- when the set of open listens is unchanged
  have same : s'.listens = y.srv.listens → (∀ p, p ∈ y.srv.acked → p ∈ s'.acked) →
      md'.listens = (ms i).listens →
      RelListen s' (fun j => if j = i then d' else slots j) (fun j => if j = i then md' else ms j) := by
    intro hls hack hmls
    refine ⟨?_, ?_, luris', ?_, ?_, idle'⟩
    · intro l hl'; rw [hls] at hl'; exact ⟨hack _ (hl.all_acked l hl').1, (hl.all_acked l hl').2⟩
    · intro j hj ml
      rw [hls]
      by_cases e : j = i
      · subst e; simp only [if_true] at hj ⊢; rw [hmls, d2]; exact hl.listens j hu ml
      · simp only [e, if_false] at hj ⊢; exact hl.listens j hj ml
    · intro j hj u hlu
      rw [hls] at hlu
      by_cases e : j = i
      · subst e; simp only [if_true] at hj hlu ⊢; rw [d2] at hlu; rw [d6]
        rcases hl.sub_live j hu u hlu with h1 | h1
        · exact Or.inl (d5 u h1)
        · exact Or.inr h1
      · simp only [e, if_false] at hj hlu ⊢; exact hl.sub_live j hj u hlu
    · intro j hj hg l hl'
      rw [hls] at hl'
      by_cases e : j = i
      · subst e; simp only [if_true] at hg; rw [d4] at hg; exact absurd hg (by simp)
      · simp only [e, if_false] at hj hg ⊢; exact hl.gated_none j hj hg l hl'
  cases hout with
  | refused h1 h2 => exact same h1 (fun p hp => (h2 p).2 hp) (by rw [hml]; rfl)
  | empty h1 h2 => exact same h1 (fun p hp => by rw [h2]; exact hp) (by rw [hml]; simp [listensAfter])
  | granted ak au hne' h1 h2 =>
    have hml' : md'.listens = (ms i).listens.filter (·.id != id) ++ [⟨id, ak, au⟩] := by
      rw [hml]; simp only [listensAfter, hne', if_false]
    refine ⟨?_, ?_, luris', ?_, ?_, idle'⟩
    · intro l hl'
      rw [h1] at hl'; rw [h2]
      rcases List.mem_cons.1 hl' with rfl | hl'
      · exact ⟨List.mem_append_right _ (List.mem_singleton.2 rfl), hne'⟩
      · exact ⟨List.mem_append_left _ (hl.all_acked l hl').1, (hl.all_acked l hl').2⟩
    · intro j hj ml
      rw [h1]
      by_cases e : j = i
      · subst e; simp only [if_true] at hj ⊢; rw [hml', d2]
        exact listens_iff_add (hl.listens j hu) hfr ml
      · simp only [e, if_false] at hj ⊢
        rw [listens_iff_other (by exact fun e2 => hne j e hj e2.symm)]
        exact hl.listens j hj ml
    · intro j hj u hlu
      rw [h1] at hlu
      obtain ⟨l, hl', e1, e2⟩ := hlu
      by_cases e : j = i
      · subst e; simp only [if_true] at hj e1 ⊢; rw [d6]
        rcases List.mem_cons.1 hl' with rfl | hl'
        · exact Or.inl (d7 u e2)
        · rw [d2] at e1
          rcases hl.sub_live j hu u ⟨l, hl', e1, e2⟩ with h3 | h3
          · exact Or.inl (d5 u h3)
          · exact Or.inr h3
      · simp only [e, if_false] at hj e1 ⊢
        rcases List.mem_cons.1 hl' with rfl | hl'
        · exact absurd e1.symm (hne j e hj)
        · exact hl.sub_live j hj u ⟨l, hl', e1, e2⟩
    · intro j hj hg l hl'
      rw [h1] at hl'
      by_cases e : j = i
      · subst e; simp only [if_true] at hg; rw [d4] at hg; exact absurd hg (by simp)
      · simp only [e, if_false] at hj hg ⊢
        rcases List.mem_cons.1 hl' with rfl | hl'
        · exact fun e2 => hne j e hj e2.symm
        · exact hl.gated_none j hj hg l hl'

/-- the relation on listens after the end of the listen `id` of slot `i` -/
theorem relListen_end {slots : Slot → DSlot} {ms : Slot → MSlot}
    (hl : RelListen y.srv slots ms) (hsess : RelSess y.srv.sessions slots ms) (hA : InvA y.srv)
    (i : Slot) (hu : (slots i).used = true) (id : Nat)
    (d' : DSlot) (md' : MSlot)
    (d1 : d'.used = true) (d2 : d'.sid = (slots i).sid) (d3 : d'.modern = (slots i).modern)
    (d4 : d'.gated = (slots i).gated)
    (d5 : ∀ u, ridOf u ≠ id → u ∈ (slots i).rsubs → u ∈ d'.rsubs)
    (d6 : ∀ x, x ≠ id → x ∈ (slots i).cancelHeld → x ∈ d'.cancelHeld)
    (hml : md'.listens = (ms i).listens.filter (·.id != id)) (hmu : md'.luris = (ms i).luris) :
    RelListen (listenEnd y.srv (slots i).sid id) (fun j => if j = i then d' else slots j)
      (fun j => if j = i then md' else ms j) := by
  have hne : ∀ j, j ≠ i → (slots j).used = true → (slots j).sid ≠ (slots i).sid := by
    intro j hji hj e; exact hji (hsess.sid_inj j i hj hu e)
  refine ⟨?_, ?_, ?_, ?_, ?_, ?_⟩
  · intro l hl'
    rw [listenEnd_listens, List.mem_filter] at hl'
    have := hl.all_acked l hl'.1
    refine ⟨(listenEnd_acked _ _ _ hA _).2 ⟨this.1, ?_⟩, this.2⟩
    rintro ⟨e1, e2⟩
    simp only [] at e1 e2
    simp [e1, e2] at hl'
  · intro j hj ml
    rw [listenEnd_listens]
    by_cases e : j = i
    · subst e; simp only [if_true] at hj ⊢; rw [hml, d2]
      exact listens_iff_end (hl.listens j hu) ml
    · simp only [e, if_false] at hj ⊢
      rw [listens_iff_end_other (hne j e hj)]
      exact hl.listens j hj ml
  · intro j hj hm u
    rw [listenEnd_rlive]
    by_cases e : j = i
    · subst e; simp only [if_true] at hj hm ⊢; rw [hmu, d2]; rw [d3] at hm; exact hl.luris j hu hm u
    · simp only [e, if_false] at hj hm ⊢; exact hl.luris j hj hm u
  · intro j hj u hlu
    rw [listenEnd_listens] at hlu
    obtain ⟨l, hl', e1, e2⟩ := hlu
    rw [List.mem_filter] at hl'
    by_cases e : j = i
    · subst e; simp only [if_true] at hj e1 ⊢
      rw [d2] at e1
      have hid : ridOf u ≠ id := by
        intro e3
        have := hl'.2
        simp [e1, e2, e3] at this
      rcases hl.sub_live j hu u ⟨l, hl'.1, e1, e2⟩ with h3 | h3
      · exact Or.inl (d5 u hid h3)
      · exact Or.inr (d6 _ hid h3)
    · simp only [e, if_false] at hj e1 ⊢
      exact hl.sub_live j hj u ⟨l, hl'.1, e1, e2⟩
  · intro j hj hg l hl'
    rw [listenEnd_listens, List.mem_filter] at hl'
    by_cases e : j = i
    · subst e; simp only [if_true] at hj hg ⊢; rw [d4] at hg; rw [d2]; exact hl.gated_none j hu hg l hl'.1
    · simp only [e, if_false] at hj hg ⊢; exact hl.gated_none j hj hg l hl'.1
  · intro j hj
    by_cases e : j = i
    · subst e; simp only [if_true] at hj; rw [d1] at hj; exact absurd hj (by simp)
    · simp only [e, if_false] at hj ⊢; exact hl.idle j hj

end Notify.Bridge
