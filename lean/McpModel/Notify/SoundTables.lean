import McpModel.Notify.SoundUpd
/-!
# Clause soundness of the C18 monitor, part 6: table dumps ("subscriptions of closed sessions are forgotten";
an acknowledged subscription stays served; nothing is left behind)
-/
namespace Notify.Sound
open Notify Notify.Mon Generated.Notify

/-! ### table dumps -/

def whoKnown (t : Truth) : Who → Prop
  | .closed _ => False
  | .slot i => (t.slots i).connected = true

/-- "subscriptions of closed sessions are forgotten": no subscription table and not the session list mentions a
session that is not connected -/
def P_closedForgotten (tr : Trace) : Prop :=
  ∀ (i : Nat) (tb : Tables), tr[i]? = some (⟨.tables, .tables tb⟩ : Rec) →
    (∀ k, ∀ e ∈ tb.kind k, whoKnown (truthAt tr i) e.who) ∧ (∀ p ∈ tb.uris, ∀ e ∈ p.2, whoKnown (truthAt tr i) e.who) ∧
    (∀ w ∈ tb.sess, whoKnown (truthAt tr i) w)

/-- the session of slot `j` is in the table `t` under the request id of the listen `l` -/
def Registered (t : List TEntry) (j : Slot) (tag : Tag) : Prop := ∃ e ∈ t, e.who = .slot j ∧ e.tag = tag

/-- a subscription the server acknowledged and the client has not ended is in the server's table (so every snapshot
and every ResourceUpdated lookup finds it), under the request id of a live listen that was granted the same thing -/
def P_ackedServed (tr : Trace) : Prop :=
  ∀ (i : Nat) (tb : Tables), tr[i]? = some (⟨.tables, .tables tb⟩ : Rec) → ∀ j : Slot,
    ((truthAt tr i).slots j).connected = true →
    (((truthAt tr i).slots j).modern = true → ∀ k, ((truthAt tr i).slots j).grantedK k →
      ∃ l ∈ ((truthAt tr i).slots j).listens, k ∈ l.kinds ∧ Registered (tb.kind k) j (.id l.id)) ∧
    (∀ u, u < 3 → ((truthAt tr i).slots j).subscribed u →
      if ((truthAt tr i).slots j).modern = true then
        ∃ l ∈ ((truthAt tr i).slots j).listens, u ∈ l.uris ∧ Registered (tb.uri u) j (.id l.id)
      else Registered (tb.uri u) j .q)

/-- a table holds a 2026-07-28 session only under the request id of a live listen of it that was granted the thing
(a refused or ended request leaves nothing behind) -/
def P_noForeign (tr : Trace) : Prop :=
  ∀ (i : Nat) (tb : Tables), tr[i]? = some (⟨.tables, .tables tb⟩ : Rec) → ∀ j : Slot,
    ((truthAt tr i).slots j).connected = true → ((truthAt tr i).slots j).modern = true →
    (∀ k, ∀ e ∈ tb.kind k, e.who = .slot j → ∃ l ∈ ((truthAt tr i).slots j).listens, k ∈ l.kinds ∧ e.tag = .id l.id) ∧
    (∀ u, u < 3 → ∀ e ∈ tb.uri u, e.who = .slot j → ∃ l ∈ ((truthAt tr i).slots j).listens, u ∈ l.uris ∧ e.tag = .id l.id)

theorem hasEntry_iff (t : List TEntry) (j : Slot) (tag : Tag) : hasEntry t j tag = true ↔ Registered t j tag := by
  simp only [hasEntry, Registered, List.any_eq_true, Bool.and_eq_true, beq_iff_eq]

theorem whoBad_iff {m : MState} {t : Truth} (hA : Agrees m t) (w : Who) : whoBad m w = true ↔ ¬ whoKnown t w := by
  cases w with
  | closed s => simp [whoBad, whoKnown]
  | slot i => simp [whoBad, whoKnown, hA.connected i]

theorem lostClause_form {d : MSlot} {w : What} {s : Seen} {c : Clause} (h : d.lostClause w s = some c) :
    (∃ a b, c = .lostWindow a b w s) ∨ (∃ o a b, c = .lostOverlap o a b w s) := by
  simp only [MSlot.lostClause] at h
  split at h
  · simp at h
  · split at h
    · simp only [Option.some.injEq] at h; exact Or.inl ⟨_, _, h.symm⟩
    · simp only [Option.some.injEq] at h; exact Or.inr ⟨_, _, _, h.symm⟩

/-- the clauses about a missing entry, and what they all say -/
def IsMissingClause (c : Clause) : Prop :=
  c = .ackTableWindow ∨ c = .f19Registered ∨ c = .ackedMissing ∨ (∃ a b w, c = .lostWindow a b w .dump) ∨
  (∃ o a b w, c = .lostOverlap o a b w .dump)

theorem tbMissing_some {m : MState} {tb : Tables} {i : Slot} {c : Clause} (h : tbMissing m tb i = some c) :
    (m.slots i).connected = true ∧ (kindMiss (m.slots i) tb i ≠ [] ∨ uriMiss (m.slots i) tb i ≠ []) ∧ IsMissingClause c := by
  simp only [tbMissing] at h
  split at h
  · simp at h
  · rename_i hc
    have hc : (m.slots i).connected = true := by simpa using hc
    refine ⟨hc, ?_⟩
    split at h
    · rename_i c' hf
      simp only [Option.some.injEq] at h
      subst h
      have hm := first_some hf
      rcases List.mem_append.1 hm with hm | hm
      · obtain ⟨k, hk, e2⟩ := List.mem_map.1 hm
        refine ⟨Or.inl (List.ne_nil_of_mem hk), ?_⟩
        rcases lostClause_form e2 with ⟨a, b, e⟩ | ⟨o, a, b, e⟩
        · exact Or.inr (Or.inr (Or.inr (Or.inl ⟨a, b, _, e⟩)))
        · exact Or.inr (Or.inr (Or.inr (Or.inr ⟨o, a, b, _, e⟩)))
      · obtain ⟨u, hu, e2⟩ := List.mem_map.1 hm
        refine ⟨Or.inr (List.ne_nil_of_mem hu), ?_⟩
        rcases lostClause_form e2 with ⟨a, b, e⟩ | ⟨o, a, b, e⟩
        · exact Or.inr (Or.inr (Or.inr (Or.inl ⟨a, b, _, e⟩)))
        · exact Or.inr (Or.inr (Or.inr (Or.inr ⟨o, a, b, _, e⟩)))
    · split at h
      · rename_i hw
        simp only [Option.some.injEq] at h
        refine ⟨?_, Or.inl h.symm⟩
        simp only [Bool.or_eq_true, Bool.and_eq_true, List.any_eq_true] at hw
        rcases hw with ⟨k, hk, _⟩ | ⟨_, u, hu, _⟩
        · exact Or.inl (List.ne_nil_of_mem hk)
        · exact Or.inr (List.ne_nil_of_mem hu)
      · split at h
        · rename_i hw
          simp only [Option.some.injEq] at h
          simp only [Bool.and_eq_true, Bool.not_eq_true', List.isEmpty_eq_false_iff] at hw
          exact ⟨Or.inl hw.1, Or.inr (Or.inl h.symm)⟩
        · split at h
          · rename_i hw
            simp only [Option.some.injEq] at h
            simp only [Bool.or_eq_true, Bool.not_eq_true', List.isEmpty_eq_false_iff] at hw
            exact ⟨hw, Or.inr (Or.inr (Or.inl h.symm))⟩
          · simp at h

theorem tbForeign_some {m : MState} {tb : Tables} {i : Slot} {c : Clause} (h : tbForeign m tb i = some c) :
    (m.slots i).connected = true ∧ (m.slots i).modern = true ∧ (c = .refusedLeft ∨ c = .foreignEntry) ∧
    ((∃ k, ∃ e ∈ tb.kind k, e.who = .slot i ∧ ¬ ∃ l ∈ (m.slots i).listens, k ∈ l.kinds ∧ e.tag = .id l.id) ∨
     (∃ u, u < 3 ∧ ∃ e ∈ tb.uri u, e.who = .slot i ∧ ¬ ∃ l ∈ (m.slots i).listens, u ∈ l.uris ∧ e.tag = .id l.id)) := by
  simp only [tbForeign] at h
  split at h
  · simp at h
  · rename_i hc
    simp only [Bool.or_eq_true, not_or, Bool.not_eq_true', Bool.not_eq_false, Bool.not_eq_true] at hc
    have hbadU : ∀ u, u ∈ (List.range 3).filter (fun u => (tb.uri u).any (fun e =>
        e.who == .slot i && !(m.slots i).listens.any (fun l => l.uris.contains u && e.tag == .id l.id))) →
        u < 3 ∧ ∃ e ∈ tb.uri u, e.who = .slot i ∧ ¬ ∃ l ∈ (m.slots i).listens, u ∈ l.uris ∧ e.tag = .id l.id := by
      intro u hu
      obtain ⟨h1, h2⟩ := List.mem_filter.1 hu
      refine ⟨by simpa using h1, ?_⟩
      rw [List.any_eq_true] at h2
      obtain ⟨e, he, hp⟩ := h2
      simp only [Bool.and_eq_true, beq_iff_eq, Bool.not_eq_true', List.any_eq_false] at hp
      refine ⟨e, he, hp.1, ?_⟩
      rintro ⟨l, hl, h3, h4⟩
      have := hp.2 l hl
      simp [h3, h4] at this
    refine ⟨by simpa using hc.1, by simpa using hc.2, ?_⟩
    split at h
    · rename_i hr
      simp only [Option.some.injEq] at h
      refine ⟨Or.inl h.symm, Or.inr ?_⟩
      rw [List.any_eq_true] at hr
      obtain ⟨u, hu, _⟩ := hr
      exact ⟨u, hbadU u hu⟩
    · split at h
      · rename_i hb
        simp only [Option.some.injEq] at h
        refine ⟨Or.inr h.symm, ?_⟩
        simp only [Bool.or_eq_true, Bool.not_eq_true', List.isEmpty_eq_false_iff] at hb
        rcases hb with hb | hb
        · left
          rw [List.any_eq_true] at hb
          obtain ⟨k, _, hk⟩ := hb
          rw [List.any_eq_true] at hk
          obtain ⟨e, he, hp⟩ := hk
          simp only [Bool.and_eq_true, beq_iff_eq, Bool.not_eq_true', List.any_eq_false] at hp
          refine ⟨k, e, he, hp.1, ?_⟩
          rintro ⟨l, hl, h3, h4⟩
          have := hp.2 l hl
          simp [h3, h4] at this
        · right
          obtain ⟨u, hu⟩ := List.exists_mem_of_ne_nil _ hb
          exact ⟨u, hbadU u hu⟩
      · simp at h

theorem sound_closedMentioned (tr : Trace) (r : Rec) (h : Reports tr r .closedMentioned) : ¬ P_closedForgotten (tr ++ [r]) := by
  intro hP
  have hA := monAfter_truth tr
  obtain ⟨tb, e, hc⟩ := tab_source h rfl
  have hgood := hP tr.length tb (by rw [get_snoc_len, e])
  rw [truthAt_snoc_len] at hgood
  rcases tbCheck_some hc with ⟨_, hb⟩ | ⟨i, hi⟩ | ⟨i, hi⟩
  · simp only [tbBad, Bool.or_eq_true, List.any_eq_true] at hb
    rcases hb with (⟨k, _, e', he, hw⟩ | ⟨p, hp, e', he, hw⟩) | ⟨w, hw1, hw⟩
    · exact (whoBad_iff hA _).1 hw (hgood.1 k e' he)
    · exact (whoBad_iff hA _).1 hw (hgood.2.1 p hp e' he)
    · exact (whoBad_iff hA _).1 hw (hgood.2.2 w hw1)
  · rcases (tbMissing_some hi).2.2 with e2 | e2 | e2 | ⟨_, _, _, e2⟩ | ⟨_, _, _, _, e2⟩ <;> cases e2
  · rcases (tbForeign_some hi).2.2.1 with e2 | e2 <;> cases e2

/-- every clause about a missing entry contradicts `P_ackedServed` -/
theorem sound_missing (tr : Trace) (r : Rec) (c : Clause) (h : Reports tr r c) (hc : IsMissingClause c) :
    ¬ P_ackedServed (tr ++ [r]) := by
  intro hP
  have hA := monAfter_truth tr
  have hs : srcOf c = .tab := by
    rcases hc with e | e | e | ⟨_, _, _, e⟩ | ⟨_, _, _, _, e⟩ <;> rw [e] <;> rfl
  obtain ⟨tb, e, hcc⟩ := tab_source h hs
  have hgood := hP tr.length tb (by rw [get_snoc_len, e])
  rw [truthAt_snoc_len] at hgood
  rcases tbCheck_some hcc with ⟨e2, _⟩ | ⟨i, hi⟩ | ⟨i, hi⟩
  · rw [e2] at hc
    rcases hc with e | e | e | ⟨_, _, _, e⟩ | ⟨_, _, _, _, e⟩ <;> cases e
  · obtain ⟨hconn, hmiss, _⟩ := tbMissing_some hi
    have hg := hgood i (by rw [← hA.connected]; exact hconn)
    rcases hmiss with hk | hu
    · obtain ⟨k, hk⟩ := List.exists_mem_of_ne_nil _ hk
      simp only [kindMiss] at hk
      split at hk
      · simp at hk
      · rename_i hmod
        have hmod : ((monAfter {} tr).slots i).modern = true := by simpa using hmod
        obtain ⟨_, hp⟩ := List.mem_filter.1 hk
        simp only [Bool.and_eq_true, Bool.not_eq_true', List.any_eq_false] at hp
        have hgk : ((truth tr).slots i).grantedK k := by
          have := hp.1
          simp only [MSlot.grantedK, List.any_eq_true] at this
          obtain ⟨l, hl, hk2⟩ := this
          exact ⟨l, by rw [← hA.listens]; exact hl, by simpa using hk2⟩
        obtain ⟨l, hl, hk2, hreg⟩ := hg.1 (by rw [← hA.modern]; exact hmod) k hgk
        rw [← hA.listens] at hl
        have := hp.2 l hl
        simp [hk2, (hasEntry_iff _ _ _).2 hreg] at this
    · obtain ⟨u, hu⟩ := List.exists_mem_of_ne_nil _ hu
      simp only [uriMiss] at hu
      obtain ⟨hu3, hp⟩ := List.mem_filter.1 hu
      have hu3 : u < 3 := by simpa using hu3
      simp only [Bool.and_eq_true] at hp
      have hsub := (grantedU_truth hA i u).1 hp.1
      have hg2 := hg.2 u hu3 hsub
      rw [← hA.modern] at hg2
      cases hm : ((monAfter {} tr).slots i).modern
      · rw [hm] at hg2 hp
        simp only [Bool.false_eq_true, if_false, Bool.not_eq_true'] at hg2 hp
        rw [(hasEntry_iff _ _ _).2 hg2] at hp
        exact absurd hp.2 (by simp)
      · rw [hm] at hg2 hp
        simp only [if_true, Bool.not_eq_true', List.any_eq_false] at hg2 hp
        obtain ⟨l, hl, hk2, hreg⟩ := hg2
        rw [← hA.listens] at hl
        have := hp.2 l hl
        simp [hk2, (hasEntry_iff _ _ _).2 hreg] at this
  · rcases (tbForeign_some hi).2.2.1 with e2 | e2 <;> rw [e2] at hc <;>
      (rcases hc with e | e | e | ⟨_, _, _, e⟩ | ⟨_, _, _, _, e⟩ <;> cases e)

theorem sound_ackTableWindow (tr : Trace) (r : Rec) (h : Reports tr r .ackTableWindow) : ¬ P_ackedServed (tr ++ [r]) :=
  sound_missing tr r _ h (Or.inl rfl)
theorem sound_f19Registered (tr : Trace) (r : Rec) (h : Reports tr r .f19Registered) : ¬ P_ackedServed (tr ++ [r]) :=
  sound_missing tr r _ h (Or.inr (Or.inl rfl))
theorem sound_ackedMissing (tr : Trace) (r : Rec) (h : Reports tr r .ackedMissing) : ¬ P_ackedServed (tr ++ [r]) :=
  sound_missing tr r _ h (Or.inr (Or.inr (Or.inl rfl)))
theorem sound_lostWindow_dump (tr : Trace) (r : Rec) (a b : Nat) (w : What) (h : Reports tr r (.lostWindow a b w .dump)) :
    ¬ P_ackedServed (tr ++ [r]) :=
  sound_missing tr r _ h (Or.inr (Or.inr (Or.inr (Or.inl ⟨a, b, w, rfl⟩))))
theorem sound_lostOverlap_dump (tr : Trace) (r : Rec) (o : Bool) (a b : Nat) (w : What)
    (h : Reports tr r (.lostOverlap o a b w .dump)) : ¬ P_ackedServed (tr ++ [r]) :=
  sound_missing tr r _ h (Or.inr (Or.inr (Or.inr (Or.inr ⟨o, a, b, w, rfl⟩))))

theorem sound_foreign (tr : Trace) (r : Rec) (c : Clause) (h : Reports tr r c) (hc : c = .refusedLeft ∨ c = .foreignEntry) :
    ¬ P_noForeign (tr ++ [r]) := by
  intro hP
  have hA := monAfter_truth tr
  have hs : srcOf c = .tab := by rcases hc with e | e <;> rw [e] <;> rfl
  obtain ⟨tb, e, hcc⟩ := tab_source h hs
  have hgood := hP tr.length tb (by rw [get_snoc_len, e])
  rw [truthAt_snoc_len] at hgood
  rcases tbCheck_some hcc with ⟨e2, _⟩ | ⟨i, hi⟩ | ⟨i, hi⟩
  · rw [e2] at hc; rcases hc with e | e <;> cases e
  · rcases (tbMissing_some hi).2.2 with e2 | e2 | e2 | ⟨_, _, _, e2⟩ | ⟨_, _, _, _, e2⟩ <;> rw [e2] at hc <;>
      (rcases hc with e | e <;> cases e)
  · obtain ⟨hconn, hmod, _, hbad⟩ := tbForeign_some hi
    have hg := hgood i (by rw [← hA.connected]; exact hconn) (by rw [← hA.modern]; exact hmod)
    rw [← hA.listens] at hg
    rcases hbad with ⟨k, e', he, hw, hno⟩ | ⟨u, hu3, e', he, hw, hno⟩
    · exact hno (hg.1 k e' he hw)
    · exact hno (hg.2 u hu3 e' he hw)

theorem sound_refusedLeft (tr : Trace) (r : Rec) (h : Reports tr r .refusedLeft) : ¬ P_noForeign (tr ++ [r]) :=
  sound_foreign tr r _ h (Or.inl rfl)
theorem sound_foreignEntry (tr : Trace) (r : Rec) (h : Reports tr r .foreignEntry) : ¬ P_noForeign (tr ++ [r]) :=
  sound_foreign tr r _ h (Or.inr rfl)

end Notify.Sound
