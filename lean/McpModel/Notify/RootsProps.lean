import McpModel.Notify.Roots
/-!
# C18, client side: a change of the client's roots reaches every connected session, none when disabled

Theorems about `Notify.Roots` (the client's `changeAndNotify`): all label lists, any number of sessions,
every capability configuration.
-/
namespace Notify.Roots

/-! ## `featureSet.remove` on the roots -/

theorem removeAll_set (roots uris : List Nat) :
    (removeAll roots uris).1 = roots.filter (fun r => !uris.contains r) := by
  induction uris generalizing roots with
  | nil => exact (List.filter_eq_self.mpr (by simp)).symm
  | cons u us ih =>
    simp only [removeAll, ih, List.filter_filter]
    apply List.filter_congr
    intro r _
    by_cases h : r = u
    · simp [h]
    · have h' : ¬ u = r := fun e => h e.symm
      simp [h, h', List.contains_cons]

/-- **roots_remove_changed_iff.**  `RemoveRoots(uris…)` reports a change iff it names a root the client has —
wherever in the call, next to absent or repeated URIs. -/
theorem roots_remove_changed_iff (roots uris : List Nat) :
    (removeAll roots uris).2 = true ↔ ∃ u ∈ uris, u ∈ roots := by
  induction uris generalizing roots with
  | nil => simp [removeAll]
  | cons u us ih =>
    simp only [removeAll, Bool.or_eq_true, ih, List.mem_cons, List.contains_iff_mem]
    constructor
    · rintro (h | ⟨v, hv, hvr⟩)
      · exact ⟨u, Or.inl rfl, h⟩
      · exact ⟨v, Or.inr hv, (List.mem_filter.mp hvr).1⟩
    · rintro ⟨v, (rfl | hv), hvr⟩
      · exact Or.inl hvr
      · by_cases e : v = u
        · exact Or.inl (e ▸ hvr)
        · exact Or.inr ⟨v, hv, List.mem_filter.mpr ⟨hvr, by simpa using e⟩⟩

/-! ## the gate -/

/-- the three branches of `shouldSendListChangedNotification`, in the order of the code -/
theorem gate_spec (c : Cfg) :
    (c.capsNil = true → gate c = true) ∧
    (c.capsNil = false → ∀ b, c.v2 = some b → gate c = b) ∧
    (c.capsNil = false → c.v2 = none → gate c = c.v1) := by
  refine ⟨?_, ?_, ?_⟩ <;> intros <;> simp_all [gate]

/-! ## every connected session is told; nobody when disabled -/

theorem step_cfg (s : State) (l : Label) : (step s l).1.cfg = s.cfg := by
  cases l <;> simp [step] <;> split <;> rfl

theorem run_cfg (s : State) (ls : List Label) : (run s ls).1.cfg = s.cfg := by
  induction ls generalizing s with
  | nil => rfl
  | cons l ls ih => simp [run, ih, step_cfg]

/-- **roots_change_reaches_every_session.**  A call that changes the roots, with the capability enabled, writes
one notification to EVERY session the client has at that moment (taken in the same critical section as the
change: no session that connected before the change is skipped, whatever happens afterwards), in the order
of `c.sessions`, and to nobody else. -/
theorem roots_change_reaches_every_session (s : State) (hg : gate s.cfg = true) :
    (∀ uris, uris ≠ [] → (step s (.add uris)).2 = s.sessions) ∧
    (∀ uris, (∃ u ∈ uris, u ∈ s.roots) → (step s (.remove uris)).2 = s.sessions) := by
  constructor
  · intro uris h
    have : uris.isEmpty = false := by cases uris <;> simp_all
    simp [step, this, snapshot, hg]
  · intro uris h
    have := (roots_remove_changed_iff s.roots uris).mpr h
    simp [step, snapshot, hg, this]

/-- **roots_no_change_no_notification.**  `AddRoots()` with no root and `RemoveRoots` naming only URIs the
client does not have notify nobody. -/
theorem roots_no_change_no_notification (s : State) :
    (step s (.add [])).2 = [] ∧
    (∀ uris, (∀ u ∈ uris, u ∉ s.roots) → (step s (.remove uris)).2 = []) := by
  constructor
  · simp [step]
  · intro uris h
    have : (removeAll s.roots uris).2 = false := by
      cases e : (removeAll s.roots uris).2
      · rfl
      · obtain ⟨u, hu, hr⟩ := (roots_remove_changed_iff s.roots uris).mp e
        exact absurd hr (h u hu)
    simp [step, snapshot, this]

/-- **roots_none_when_disabled.**  With listChanged switched off (`RootsV2.ListChanged = false`, or no RootsV2 and
`Roots.ListChanged = false`) no run ever writes a roots notification. -/
theorem roots_none_when_disabled (s : State) (hg : gate s.cfg = false) (ls : List Label) :
    ∀ ws ∈ (run s ls).2, ws = [] := by
  induction ls generalizing s with
  | nil => simp [run]
  | cons l ls ih =>
    intro ws h
    simp only [run, List.mem_cons] at h
    rcases h with h | h
    · subst h
      cases l <;> simp [step, snapshot, hg] <;> split <;> simp [hg]
    · exact ih (step s l).1 (by rw [step_cfg]; exact hg) ws h

/-- what is written goes to sessions the client has -/
theorem sent_subset_sessions (s : State) (l : Label) : ∀ p ∈ (step s l).2, p ∈ (step s l).1.sessions := by
  intro p hp
  cases l with
  | add uris =>
    simp only [step] at hp ⊢
    split at hp
    · simp at hp
    · rename_i h
      simp only [h, snapshot] at hp ⊢
      split at hp
      · simpa using hp
      · simp at hp
  | remove uris =>
    simp only [step, snapshot] at hp ⊢
    split at hp
    · simpa using hp
    · simp at hp
  | connect sid modern => simp only [step] at hp; split at hp <;> simp at hp
  | close sid => simp [step] at hp

/-- **roots_closed_forgotten.**  A closed session is not in `c.sessions`; as long as it does not connect again no
later change writes to it. -/
theorem roots_closed_forgotten (s : State) (sid : Nat) (ls : List Label)
    (hno : ∀ m, Label.connect sid m ∉ ls) :
    ∀ ws ∈ (run (step s (.close sid)).1 ls).2, ∀ p ∈ ws, p.1 ≠ sid := by
  have key : ∀ (ls : List Label) (s : State), (∀ m, Label.connect sid m ∉ ls) → (∀ p ∈ s.sessions, p.1 ≠ sid) →
      ∀ ws ∈ (run s ls).2, ∀ p ∈ ws, p.1 ≠ sid := by
    intro ls
    induction ls with
    | nil => intro s _ _ ws h; simp [run] at h
    | cons l ls ih =>
      intro s hno hs ws h
      have hs' : ∀ p ∈ (step s l).1.sessions, p.1 ≠ sid := by
        cases l with
        | add uris => simp only [step]; split <;> exact hs
        | remove uris => exact hs
        | connect sid' m =>
          simp only [step]
          split
          · exact hs
          · intro p hp
            simp only [List.mem_append, List.mem_singleton] at hp
            rcases hp with hp | rfl
            · exact hs p hp
            · intro e
              have e' : sid' = sid := e
              subst e'
              exact hno m (by simp)
        | close sid' =>
          intro p hp
          exact hs p (List.mem_filter.mp hp).1
      simp only [run, List.mem_cons] at h
      rcases h with h | h
      · subst h
        intro p hp
        exact hs' p (sent_subset_sessions s l p hp)
      · exact ih (step s l).1 (fun m hm => hno m (List.mem_cons_of_mem _ hm)) hs' ws h
  apply key ls _ hno
  intro p hp
  have : p ∈ s.sessions ∧ ¬p.1 = sid := by simpa [step] using hp
  exact this.2

/-! ## the monitor: sound, and silent on the model -/

/-- the model state and the monitor's books agree -/
structure Link (s : State) (m : MState) : Prop where
  cfg : m.cfg = s.cfg
  roots : m.roots = s.roots
  conn : m.conn = s.sessions
  nodup : (s.sessions.map (·.1)).Nodup

theorem link_init (c : Cfg) : Link { cfg := c } { cfg := c } := ⟨rfl, rfl, rfl, by simp⟩

theorem link_step {s : State} {m : MState} (h : Link s m) (l : Label) : Link (step s l).1 (monNext m l) := by
  obtain ⟨h1, h2, h3, h4⟩ := h
  cases l with
  | add uris =>
    simp only [step, monNext]
    split
    · rename_i e
      have : uris = [] := by cases uris <;> simp_all
      subst this
      exact ⟨h1, by simp [addAll, h2], h3, h4⟩
    · exact ⟨h1, by simp [h2], h3, h4⟩
  | remove uris => exact ⟨h1, by simp [step, monNext, removeAll_set, h2], h3, h4⟩
  | connect sid modern =>
    simp only [step, monNext, h3]
    split
    · exact ⟨h1, h2, h3, h4⟩
    · rename_i e
      refine ⟨h1, h2, rfl, ?_⟩
      simp only [List.map_append, List.map_cons, List.map_nil]
      refine List.nodup_append.mpr ⟨h4, by simp, ?_⟩
      intro a ha b hb
      simp only [List.mem_singleton] at hb
      subst hb
      intro e2
      subst e2
      obtain ⟨p, hp, rfl⟩ := List.mem_map.mp ha
      exact e (List.any_eq_true.mpr ⟨p, hp, by simp⟩)
  | close sid =>
    refine ⟨h1, h2, by simp [step, monNext, h3], ?_⟩
    simp only [step]
    exact (List.Nodup.sublist (List.Sublist.map _ List.filter_sublist) h4)

theorem handled_of_sessions {ss : List (Nat × Bool)} (hn : (ss.map (·.1)).Nodup) :
    (handled ss).Nodup ∧ (∀ sid ∈ handled ss, ∃ p ∈ ss, p.1 = sid) ∧
      (∀ p ∈ ss, p.1 ∈ handled ss) := by
  refine ⟨hn, ?_, ?_⟩
  · intro sid h
    obtain ⟨p, hp, rfl⟩ := List.mem_map.mp h
    exact ⟨p, hp, rfl⟩
  · intro p hp
    exact List.mem_map.mpr ⟨p, hp, rfl⟩

theorem check_silent (m : MState) (l : Label) (h : effective m l = false ∨ gate m.cfg = false) :
    monCheck m l [] = none := by
  rcases h with h | h <;> simp [monCheck, h]

theorem check_full (m : MState) (l : Label) (hg : gate m.cfg = true) (he : effective m l = true)
    (hn : (m.conn.map (·.1)).Nodup) : monCheck m l (handled m.conn) = none := by
  have hh := handled_of_sessions hn
  have h3 : (handled m.conn).any (fun sid => !m.conn.any (·.1 == sid)) = false := by
    rw [List.any_eq_false]
    intro sid hs
    obtain ⟨p, hp, e⟩ := hh.2.1 sid hs
    have : m.conn.any (·.1 == sid) = true := List.any_eq_true.mpr ⟨p, hp, by simp [e]⟩
    simp [this]
  have h5 : m.conn.any (fun p => !(handled m.conn).contains p.1) = false := by
    rw [List.any_eq_false]
    intro p hp
    simpa using hh.2.2 p hp
  simp only [monCheck, hg, he, h3, h5, hh.1]
  simp

/-- **roots_monitor_accepts_model.**  On the model's own answer (the servers written to) the
monitor raises no clause, for every label in every linked state — hence on every run (`link_init`, `link_step`). -/
theorem roots_monitor_accepts_model {s : State} {m : MState} (h : Link s m) (l : Label) :
    monCheck m l (handled (step s l).2) = none := by
  obtain ⟨h1, h2, h3, h4⟩ := h
  have hn : (m.conn.map (·.1)).Nodup := h3 ▸ h4
  cases l with
  | add uris =>
    simp only [step]
    split
    · rename_i e
      exact check_silent m _ (Or.inl (by simp [effective, e]))
    · rename_i e
      simp only [snapshot, Bool.true_and]
      cases hg : gate s.cfg
      · simpa [handled] using check_silent m (.add uris) (Or.inr (h1 ▸ hg))
      · simp only [if_true]
        rw [← h3]
        exact check_full m _ (h1 ▸ hg) (by simpa [effective] using e) hn
  | remove uris =>
    simp only [step, snapshot]
    have he : effective m (.remove uris) = (removeAll s.roots uris).2 := by
      rw [Bool.eq_iff_iff, roots_remove_changed_iff, ← h2]
      simp [effective, List.any_eq_true]
    cases hc : (removeAll s.roots uris).2
    · simpa [handled] using check_silent m (.remove uris) (Or.inl (he.trans hc))
    · cases hg : gate s.cfg
      · simpa [handled] using check_silent m (.remove uris) (Or.inr (h1 ▸ hg))
      · simp only [Bool.and_self, if_true]
        rw [← h3]
        exact check_full m _ (h1 ▸ hg) (he.trans hc) hn
  | connect sid modern =>
    simp only [step]
    split <;> simpa [handled] using check_silent m (.connect sid modern) (Or.inl rfl)
  | close sid => simpa [step, handled] using check_silent m (.close sid) (Or.inl rfl)

/-- **roots_monitor_sound.**  What each clause means on the history the monitor has recorded (`m`: the configuration,
the roots the client was given and not taken, the servers connected and not closed) and the servers `got` whose
handler ran because of the call `l`: the clause is a violation of the property's sentence it is named after. -/
theorem roots_monitor_sound (m : MState) (l : Label) (got : List Nat) (c : Clause) (h : monCheck m l got = some c) :
    match c with
    | .noChange => got ≠ [] ∧ effective m l = false
    | .disabled => got ≠ [] ∧ gate m.cfg = false
    | .notEntitled => ∃ sid ∈ got, ∀ p ∈ m.conn, p.1 ≠ sid
    | .twice => ¬ got.Nodup
    | .missed => effective m l = true ∧ gate m.cfg = true ∧ ∃ p ∈ m.conn, p.1 ∉ got := by
  simp only [monCheck] at h
  split at h
  · rename_i e; cases h; simp_all
  · split at h
    · rename_i e; cases h; simp_all
    · split at h
      · rename_i e; cases h
        obtain ⟨sid, hs, hc⟩ := List.any_eq_true.mp e
        refine ⟨sid, hs, ?_⟩
        intro p hp e2
        have : m.conn.any (·.1 == sid) = true := List.any_eq_true.mpr ⟨p, hp, by simp [e2]⟩
        simp [this] at hc
      · split at h
        · rename_i e; cases h; simpa using e
        · split at h
          · rename_i e; cases h
            simp only [Bool.and_eq_true] at e
            obtain ⟨p, hp, hc⟩ := List.any_eq_true.mp e.2
            exact ⟨e.1.1, e.1.2, p, hp, by simpa using hc⟩
          · cases h

/-- the clauses are reachable: a disabled client that notifies, a skipped server -/
example : monCheck { cfg := { capsNil := false, v2 := some false }, conn := [(1, false)] } (.add [1]) [1] = some .disabled := by decide
example : monCheck { conn := [(1, false), (2, false)] } (.add [1]) [1] = some .missed := by decide
example : monCheck { roots := [4], conn := [(1, false)] } (.remove [5, 5]) [1] = some .noChange := by decide

end Notify.Roots
