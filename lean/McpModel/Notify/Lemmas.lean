import McpModel.Notify.Model
/-!
Helper lemmas for the server-side model: the two inductive invariants and their preservation by
every label.
-/
namespace Notify
open Generated.Notify

/-! ### the regenerated tables are the identity (these break when /repo's switches change) -/
theorem sendGate_diag (k : Kind) : sendGate k = some k := by cases k <;> rfl
theorem listenGate_diag (k : Kind) : listenGate k = some k := by cases k <;> rfl
theorem listenTable_diag (k : Kind) : listenTable k = some k := by cases k <;> rfl
theorem subsTable_diag (k : Kind) : subsTable k = some k := by cases k <;> rfl
theorem featureKind_some (f : FSet) : ∃ k, featureKind f = some k := by cases f <;> exact ⟨_, rfl⟩
/-- The client handler of a kind invalidates the list cache of every feature set announced by that
kind, and `resources/updated` invalidates the read cache entry (regenerated from mcp/client.go). -/
theorem invalidates_cover (f : FSet) (k : Kind) (h : featureKind f = some k) : f.cache ∈ clientInvalidates k := by
  cases f <;> cases k <;> first | (simp [clientInvalidates, FSet.cache]; done) | (simp [featureKind] at h)
theorem updated_invalidates : updatedInvalidatesKey = true := rfl

/-- Timers and the ghost `owed`. -/
structure InvT (s : Server) : Prop where
  owed_sess : ∀ p ∈ s.owed, p.1 ∈ s.sessions.map Prod.fst
  no_lost : ∀ p ∈ s.owed, active (s.ks p.2)
  off_idle : ∀ k, gateSend s k = false →
    (s.ks k).tracked = none ∧ (s.ks k).orphans = [] ∧ (s.ks k).pending = 0

theorem invT_init (cap : Kind → Cap) : InvT (init cap) := by
  constructor <;> simp [init]

theorem invT_bumpVer (s : Server) (f : FSet) (e : Eff) (h : InvT s) : InvT (bumpVer s f e) :=
  ⟨h.1, h.2, h.3⟩

theorem invT_arm (s : Server) (k : Kind) (hg : gateSend s k = true) (h : InvT s) : InvT (arm s k) := by
  obtain ⟨h1, h2, h3⟩ := h
  unfold arm
  by_cases hs : s.sessions = []
  · simp only [hs, if_true]
    refine ⟨?_, ?_, ?_⟩
    · intro p hp; have := h1 p hp; simp [hs] at this
    · intro p hp; have := h1 p hp; simp [hs] at this
    · intro k' hk'
      have hk'' : gateSend s k' = false := hk'
      have hne : k' ≠ k := by intro e; subst e; simp [hg] at hk''
      simp [setK, hne]; exact h3 k' hk''
  · simp only [hs, if_false]
    refine ⟨?_, ?_, ?_⟩
    · intro p hp
      simp [setK] at hp ⊢
      rcases hp with hp | ⟨a, ⟨x, hx⟩, rfl⟩
      · simpa using h1 p hp
      · exact ⟨x, hx⟩
    · intro p hp
      simp [setK] at hp
      rcases hp with hp | ⟨a, ⟨x, hx⟩, rfl⟩
      · by_cases e : p.2 = k
        · simp [setK, e, active]
        · simp [setK, e]; exact h2 p hp
      · simp [setK, active]
    · intro k' hk'
      have hk'' : gateSend s k' = false := hk'
      have hne : k' ≠ k := by intro e; subst e; simp [hg] at hk''
      simp [setK, hne]; exact h3 k' hk''

theorem invT_change (s : Server) (f : FSet) (e : Eff) (h : InvT s) : InvT (change s f e) := by
  unfold change
  split
  · exact h
  · split
    · exact invT_bumpVer s f e h
    · rename_i k _
      unfold notifyChange
      split
      · rename_i hg; exact invT_arm _ k hg (invT_bumpVer s f e h)
      · exact invT_bumpVer s f e h

/-- Frame lemma: labels that leave timers alone and only shrink `owed` (to connected sessions). -/
theorem InvT.frame {s s' : Server} (h : InvT s) (hc : s'.cap = s.cap)
    (ho : ∀ p ∈ s'.owed, p ∈ s.owed ∧ p.1 ∈ s'.sessions.map Prod.fst)
    (hk : ∀ k, (s'.ks k).tracked = (s.ks k).tracked ∧ (s'.ks k).orphans = (s.ks k).orphans ∧
      (s'.ks k).pending = (s.ks k).pending) : InvT s' := by
  refine ⟨fun p hp => (ho p hp).2, ?_, ?_⟩
  · intro p hp
    have := h.2 p (ho p hp).1
    obtain ⟨a, b, c⟩ := hk p.2
    simpa [active, a, b, c] using this
  · intro k hg
    obtain ⟨a, b, c⟩ := hk k
    rw [a, b, c]
    exact h.3 k (by simpa [gateSend, hc] using hg)

theorem invT_fireTracked (s : Server) (k : Kind) (h : InvT s) : InvT (fireTracked s k) := by
  unfold fireTracked
  split
  · rename_i d hd
    split
    · refine ⟨h.1, ?_, ?_⟩
      · intro p hp
        by_cases e : p.2 = k
        · simp [setK, e, active]
        · simp [setK, e]; exact h.2 p hp
      · intro k' hk'
        have hk'' : gateSend s k' = false := hk'
        have hne : k' ≠ k := by
          intro e; subst e; have := (h.3 k' hk'').1; simp [hd] at this
        simp [setK, hne]; exact h.3 k' hk''
    · exact h
  · exact h

theorem invT_fireOrphan (s : Server) (k : Kind) (i : Nat) (h : InvT s) : InvT (fireOrphan s k i) := by
  unfold fireOrphan
  split
  · rename_i d hd
    split
    · refine ⟨h.1, ?_, ?_⟩
      · intro p hp
        by_cases e : p.2 = k
        · simp [setK, e, active]
        · simp [setK, e]; exact h.2 p hp
      · intro k' hk'
        have hk'' : gateSend s k' = false := hk'
        have hne : k' ≠ k := by
          intro e; subst e; have := (h.3 k' hk'').2.1; simp [this] at hd
        simp [setK, hne]; exact h.3 k' hk''
    · exact h
  · exact h

theorem invT_cbrun (s : Server) (k : Kind) (h : InvT s) : InvT (cbrun s k).1 := by
  unfold cbrun
  split
  · exact h
  · rename_i hp0
    refine ⟨?_, ?_, ?_⟩
    · intro p hp; simp [setK] at hp ⊢; simpa using h.1 p hp.1
    · intro p hp
      simp [setK] at hp
      have hne : p.2 ≠ k := hp.2
      simp [setK, hne]; exact h.2 p hp.1
    · intro k' hk'
      have hk'' : gateSend s k' = false := hk'
      have hne : k' ≠ k := by
        intro e; subst e; exact hp0 (h.3 k' hk'').2.2
      simp [setK, hne]; exact h.3 k' hk''

theorem invT_bind (s : Server) (sid : Nat) (h : InvT s) : InvT (bind s sid) := by
  unfold bind
  split
  · exact h
  · refine h.frame rfl ?_ (fun k => ⟨rfl, rfl, rfl⟩)
    intro p hp
    refine ⟨hp, ?_⟩
    have := h.1 p hp
    simp at this ⊢
    obtain ⟨x, hx⟩ := this
    exact Or.inl ⟨x, hx⟩

theorem map_fst_hello (l : List (Nat × Gen)) (sid : Nat) (g : Gen) :
    (l.map (fun p => if p.1 = sid then (sid, g) else p)).map Prod.fst = l.map Prod.fst := by
  induction l with
  | nil => rfl
  | cons a t ih =>
    simp only [List.map_cons, ih]
    by_cases e : a.1 = sid <;> simp [e]

theorem invT_hello (s : Server) (sid : Nat) (m : Bool) (h : InvT s) : InvT (hello s sid m) := by
  unfold hello
  split
  · refine h.frame rfl ?_ (fun k => ⟨rfl, rfl, rfl⟩)
    intro p hp
    refine ⟨hp, ?_⟩
    simp only [map_fst_hello]
    exact h.1 p hp
  · exact h

theorem invT_listen (s : Server) (sid id : Nat) (kinds : List Kind) (uris : List Nat) (h : InvT s) :
    InvT (listen s sid id kinds uris) := by
  unfold listen
  split
  · exact h.frame rfl (fun p hp => ⟨hp, h.1 p hp⟩) (fun k => ⟨rfl, rfl, rfl⟩)
  · exact h

theorem invT_listenAck (s : Server) (sid id : Nat) (h : InvT s) : InvT (listenAck s sid id).1 := by
  unfold listenAck
  split
  · exact h
  · split
    · exact h
    · split
      · exact h.frame rfl (fun p hp => ⟨hp, h.1 p hp⟩) (fun k => ⟨rfl, rfl, rfl⟩)
      · exact h.frame rfl (fun p hp => ⟨hp, h.1 p hp⟩) (fun k => ⟨rfl, rfl, rfl⟩)

theorem invT_listenEnd (s : Server) (sid id : Nat) (h : InvT s) : InvT (listenEnd s sid id) := by
  unfold listenEnd
  split
  · exact h
  · exact h.frame rfl (fun p hp => ⟨hp, h.1 p hp⟩) (fun k => ⟨rfl, rfl, rfl⟩)

theorem invT_subscribe (s : Server) (sid id u : Nat) (h : InvT s) : InvT (subscribe s sid id u) := by
  unfold subscribe
  split
  · exact h.frame rfl (fun p hp => ⟨hp, h.1 p hp⟩) (fun k => ⟨rfl, rfl, rfl⟩)
  · exact h

theorem invT_unsubscribe (s : Server) (sid u : Nat) (h : InvT s) : InvT (unsubscribe s sid u) := by
  unfold unsubscribe
  split
  · exact h.frame rfl (fun p hp => ⟨hp, h.1 p hp⟩) (fun k => ⟨rfl, rfl, rfl⟩)
  · exact h

theorem invT_close (s : Server) (sid : Nat) (h : InvT s) : InvT (close s sid) := by
  refine h.frame rfl ?_ (fun k => ⟨rfl, rfl, rfl⟩)
  intro p hp
  simp [close] at hp ⊢
  refine ⟨hp.1, ?_⟩
  have := h.1 p hp.1
  simp at this
  obtain ⟨x, hx⟩ := this
  exact ⟨⟨x, hx⟩, hp.2⟩

theorem invT_deliver (s : Server) (k : Kind) (i : Nat) (h : InvT s) : InvT (deliver s k i).1 := by
  unfold deliver
  split
  · exact h
  · refine h.frame rfl (fun p hp => ⟨hp, h.1 p hp⟩) (fun k' => ?_)
    simp only [setK]
    split <;> exact ⟨rfl, rfl, rfl⟩

theorem invT_listenRefused (s : Server) (sid id : Nat) (kinds : List Kind) (uris : List Nat) (n : Nat)
    (h : InvT s) : InvT (listenRefused s sid id kinds uris n) := by
  unfold listenRefused
  split
  · exact invT_listenEnd _ sid id (invT_listen s sid id kinds (uris.take n) h)
  · exact h

theorem invT_step (s : Server) (l : Label) (h : InvT s) : InvT (step s l).1 := by
  cases l with
  | change f e => exact invT_change s f e h
  | tick d => exact h.frame rfl (fun p hp => ⟨hp, h.1 p hp⟩) (fun k => ⟨rfl, rfl, rfl⟩)
  | fireTracked k => exact invT_fireTracked s k h
  | fireOrphan k i => exact invT_fireOrphan s k i h
  | cbrun k => exact invT_cbrun s k h
  | deliver k i => exact invT_deliver s k i h
  | listenRefused sid id kinds uris n => exact invT_listenRefused s sid id kinds uris n h
  | updatedNamed u v => exact h
  | bind sid => exact invT_bind s sid h
  | hello sid m => exact invT_hello s sid m h
  | listen sid id kinds uris => exact invT_listen s sid id kinds uris h
  | listenAck sid id => exact invT_listenAck s sid id h
  | listenEnd sid id => exact invT_listenEnd s sid id h
  | subscribe sid id u => exact invT_subscribe s sid id u h
  | unsubscribe sid u => exact invT_unsubscribe s sid u h
  | close sid => exact invT_close s sid h
  | updated u => exact h
