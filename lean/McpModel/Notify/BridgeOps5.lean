import McpModel.Notify.BridgeOps4
/-!
# Bridge, part 5d: the step `subscribe`
-/
namespace Notify.Bridge
open Notify Notify.Mon Notify.Sys Generated.Notify
variable {seen : List Nat} {y : State} {m : MState}

theorem monNext_subscribe_refused (m : MState) (i : Slot) (u : Nat) (hold : Bool) :
    monNext m ⟨.subscribe i u hold, .refused⟩ = m := by
  simp only [monNext]; split <;> rfl
theorem monNext_subscribe_err (m : MState) (i : Slot) (u : Nat) (hold : Bool) :
    monNext m ⟨.subscribe i u hold, .err⟩ = m := by
  simp only [monNext]; split <;> rfl
theorem monNext_subscribe_noop (m : MState) (i : Slot) (u : Nat) (hold : Bool) :
    monNext m ⟨.subscribe i u hold, .noop⟩ = m := by
  simp only [monNext]; split <;> rfl

theorem cache_inv_subs {c : Cache.State} (s : List Nat) (h : Cache.Inv c) : Cache.Inv { c with subs := s } :=
  ⟨h.inbox_le, h.handled_le, h.entry_fresh, h.fill_gen, h.fill_start, h.fill_resp⟩

theorem cache_inv_now {c : Cache.State} (n : Nat) (h : Cache.Inv c) : Cache.Inv { c with now := n } :=
  ⟨h.inbox_le, h.handled_le, h.entry_fresh, h.fill_gen, h.fill_start, h.fill_resp⟩

/-- the virtual clock of a cache is read by nothing the relation speaks about -/
theorem CacheRel.now {cur : Key → Nat} {d d' : DSlot} {md md' : MSlot} (h : CacheRel cur d md)
    (e1 : d'.modern = d.modern) (e3 : d'.held = d.held)
    (ec : ∀ o, ∃ n, d'.caches o = { d.caches o with now := n })
    (m1 : md'.maxHandled = md.maxHandled) (m2 : md'.invalidated = md.invalidated) (m3 : md'.starts = md.starts) :
    CacheRel cur d' md' := by
  constructor
  · intro hm o; obtain ⟨s, hs⟩ := ec o; rw [hs]; exact cache_inv_now s (h.inv (e1 ▸ hm) o)
  · intro hm key; obtain ⟨s, hs⟩ := ec key.obj; rw [hs]; exact h.srv (e1 ▸ hm) key
  · intro hm key; obtain ⟨s, hs⟩ := ec key.obj; rw [hs, m1]; exact h.handled (e1 ▸ hm) key
  · intro hm key hk; obtain ⟨s, hs⟩ := ec key.obj; rw [hs]; rw [m2] at hk; exact h.inval (e1 ▸ hm) key hk
  · intro hm o; obtain ⟨s, hs⟩ := ec o; rw [hs]; exact h.inbox (e1 ▸ hm) o
  · intro key; obtain ⟨s, hs⟩ := ec key.obj; rw [hs, e3]; exact h.held_fill key
  · intro o; obtain ⟨s, hs⟩ := ec o; rw [hs]; exact h.fill_uniq o
  · intro hm key f hf; obtain ⟨s, hs⟩ := ec key.obj; rw [hs] at hf; rw [m3]; exact h.starts (e1 ▸ hm) key f hf
  · intro key; rw [m1]; exact h.maxH_le key
  · intro hm key f hf; obtain ⟨s, hs⟩ := ec key.obj; rw [hs] at hf; rw [m3]; exact h.leg_fill (e1 ▸ hm) key f hf

/-- `cs.resourceSubs` is read by nothing the relation speaks about -/
theorem CacheRel.subs {cur : Key → Nat} {d d' : DSlot} {md md' : MSlot} (h : CacheRel cur d md)
    (e1 : d'.modern = d.modern) (e3 : d'.held = d.held)
    (ec : ∀ o, ∃ subs, d'.caches o = { d.caches o with subs := subs })
    (m1 : md'.maxHandled = md.maxHandled) (m2 : md'.invalidated = md.invalidated) (m3 : md'.starts = md.starts) :
    CacheRel cur d' md' := by
  constructor
  · intro hm o; obtain ⟨s, hs⟩ := ec o; rw [hs]; exact cache_inv_subs s (h.inv (e1 ▸ hm) o)
  · intro hm key; obtain ⟨s, hs⟩ := ec key.obj; rw [hs]; exact h.srv (e1 ▸ hm) key
  · intro hm key; obtain ⟨s, hs⟩ := ec key.obj; rw [hs, m1]; exact h.handled (e1 ▸ hm) key
  · intro hm key hk; obtain ⟨s, hs⟩ := ec key.obj; rw [hs]; rw [m2] at hk; exact h.inval (e1 ▸ hm) key hk
  · intro hm o; obtain ⟨s, hs⟩ := ec o; rw [hs]; exact h.inbox (e1 ▸ hm) o
  · intro key; obtain ⟨s, hs⟩ := ec key.obj; rw [hs, e3]; exact h.held_fill key
  · intro o; obtain ⟨s, hs⟩ := ec o; rw [hs]; exact h.fill_uniq o
  · intro hm key f hf; obtain ⟨s, hs⟩ := ec key.obj; rw [hs] at hf; rw [m3]; exact h.starts (e1 ▸ hm) key f hf
  · intro key; rw [m1]; exact h.maxH_le key
  · intro hm key f hf; obtain ⟨s, hs⟩ := ec key.obj; rw [hs] at hf; rw [m3]; exact h.leg_fill (e1 ▸ hm) key f hf

theorem step_subscribe (h : Rel seen y m) (i : Slot) (u : Nat) (hold : Bool) (hint : Option Who) :
    StepOk seen y m (.subscribe i u hold) hint := by
  unfold StepOk
  simp only [sysStep]
  split
  · exact ⟨rfl, by rw [monNext_subscribe_refused]; exact h⟩
  · rename_i hg
    have hu : (y.slots i).used = true := by
      cases hx : (y.slots i).used <;> simp [hx] at hg ⊢
    have hc : (y.slots i).connected = true := by
      cases hx : (y.slots i).connected <;> simp [hx, hu] at hg ⊢
    split
    · rename_i hmod
      have hmod : (y.slots i).modern = false := by simpa using hmod
      split
      · exact ⟨rfl, by rw [monNext_subscribe_refused]; exact h⟩
      · split
        · exact ⟨rfl, by rw [monNext_subscribe_err]; exact h⟩
        · have hmm : (m.slots i).modern = false := by rw [h.sess.modern i hu]; exact hmod
          have hleg : ((y.slots i).sid, Gen.legacy) ∈ y.srv.sessions := by
            have := h.sess.used_sess i hu
            rw [hmod] at this; exact this
          have hsrv : subscribe y.srv (y.slots i).sid 99 u =
              { y.srv with rsubs := y.srv.rsubs.filter (fun r => !(r.1 == u && r.2.1 == (y.slots i).sid)) ++ [(u, (y.slots i).sid, 99)],
                           rlive := y.srv.rlive ++ [((y.slots i).sid, u)] } := by
            simp only [subscribe, hleg, if_true]
          refine ⟨rfl, ?_⟩
          show Rel seen { y with srv := subscribe y.srv (y.slots i).sid 99 u } (monNext m ⟨.subscribe i u hold, .ok⟩)
          have hnext : monNext m ⟨.subscribe i u hold, .ok⟩ =
              m.setSlot i { (m.slots i) with luris := if (m.slots i).luris.contains u then (m.slots i).luris else (m.slots i).luris ++ [u] } := by
            simp only [monNext]
            rw [if_pos (by rw [hmm]; rfl)]
            by_cases hcn : (m.slots i).luris.contains u = true
            · rw [if_neg (by rw [hcn]; decide), if_pos hcn]
              exact (msetSlot_self m i).symm
            · rw [if_pos (by rw [Bool.eq_false_iff.2 hcn]; decide), if_neg hcn]
          rw [hnext]
          refine h.legacy_frame i _ (srvOk_subscribe h.srvOk _ _ _) (sameRest_subscribe _ _ _ _) rfl rfl rfl rfl rfl rfl ?_
          refine relListen_legacy h.lis h.sess i hu (by rw [hsrv]) (by rw [hsrv]) _ rfl rfl ?_ ?_
          · intro u'
            rw [hsrv]
            simp only [List.mem_append, List.mem_singleton, Prod.mk.injEq, true_and]
            rw [← h.lis.luris i hu hmod u']
            by_cases hcn : (m.slots i).luris.contains u = true
            · simp only [hcn, if_true]
              constructor
              · exact Or.inl
              · rintro (h1 | h1)
                · exact h1
                · subst h1; simpa using hcn
            · simp only [hcn]
              simp
          · intro sid u' hne
            rw [hsrv]
            simp only [List.mem_append, List.mem_singleton, Prod.mk.injEq]
            constructor
            · rintro (h1 | h1)
              · exact h1
              · exact absurd h1.1 hne
            · exact Or.inl
    · rename_i hmod
      have hmod : (y.slots i).modern = true := by simpa using hmod
      split
      · exact ⟨rfl, by rw [monNext_subscribe_refused]; exact h⟩
      · rename_i hch
        split
        · exact ⟨rfl, by rw [monNext_subscribe_noop]; exact h⟩
        · rename_i hrs
          have hmm : (m.slots i).modern = true := by rw [h.sess.modern i hu]; exact hmod
          have hgf : (y.slots i).gated = false := by
            have := h.sess.gated i hu
            rw [hc] at this
            cases hx : (y.slots i).gated <;> simp [hx] at this ⊢
          have hfree : listenOk y.srv (y.slots i).sid (ridOf u) = true := by
            simp only [listenOk, List.all_eq_true]
            intro l hl
            by_cases e : l.sid = (y.slots i).sid ∧ l.id = ridOf u
            · rcases h.lis.sub_live i hu u ⟨l, hl, e.1, e.2⟩ with h1 | h1
              · exact absurd (by simpa using h1) hrs
              · exact absurd (by simpa using h1) hch
            · by_cases e1 : l.sid = (y.slots i).sid
              · have e2 : l.id ≠ ridOf u := fun e2 => e ⟨e1, e2⟩
                simp [e2]
              · simp [e1]
          have hec : ∀ (P : List Nat) o, ∃ subs, (({ (y.slots i) with rsubs := (y.slots i).rsubs ++ [u], parked := P } : DSlot).setCache CacheObj.read
              (Cache.step true ((y.slots i).caches CacheObj.read) (Cache.Label.sub u)).fst).caches o =
              { (y.slots i).caches o with subs := subs } := by
            intro P o
            simp only [DSlot.setCache]
            split
            · rename_i e; subst e; exact ⟨_, rfl⟩
            · exact ⟨_, rfl⟩
          cases hfa : firstAck (listenOrRefuse y (y.slots i).sid (ridOf u) [] [u]).2 with
          | none =>
            simp only [ackObs]
            refine ⟨rfl, ?_⟩
            have hnext : monNext m ⟨.subscribe i u hold, .noack⟩ =
                m.setSlot i { (m.slots i) with csubs := addNew (m.slots i).csubs u,
                                               refusedUris := if m.refused.contains u && !(m.slots i).refusedUris.contains u then (m.slots i).refusedUris ++ [u] else (m.slots i).refusedUris } := by
              simp only [monNext]
              rw [if_neg (by rw [hmm]; decide)]
            show Rel seen _ (monNext m ⟨.subscribe i u hold, .noack⟩)
            rw [hnext]
            refine rel_open h i hu hmod (ridOf u) [] [u] (by simp) hfree _ _ hu rfl rfl hgf hc
              (fun _ hx => List.mem_append_left _ hx) rfl (fun u' e => ?_) (fun hcr => ?_) (by rw [hfa]; rfl) rfl rfl rfl rfl
            · simp only [ridOf] at e
              have : u = u' := by omega
              subst this
              simp [DSlot.setCache]
            · exact hcr.subs rfl rfl (by simpa using hec _) rfl rfl rfl
          | some p =>
            obtain ⟨ks', us'⟩ := p
            simp only [ackObs]
            refine ⟨rfl, ?_⟩
            have hnext : monNext m ⟨.subscribe i u hold, .ack ks' us' hold⟩ =
                m.setSlot i { (withWindow ((m.slots i).addListen (ridOf u) ks' us') hold (ridOf u)) with
                  csubs := addNew (withWindow ((m.slots i).addListen (ridOf u) ks' us') hold (ridOf u)).csubs u } := by
              simp only [monNext]
              rw [if_neg (by rw [hmm]; decide)]
            show Rel seen _ (monNext m ⟨.subscribe i u hold, .ack ks' us' hold⟩)
            rw [hnext]
            refine rel_open h i hu hmod (ridOf u) [] [u] (by simp) hfree _ _ hu rfl rfl hgf hc
              (fun _ hx => List.mem_append_left _ hx) rfl (fun u' e => ?_) (fun hcr => ?_)
              (by rw [hfa]; exact addListen_listens _ _ _ _) (addListen_frame _ _ _ _).2.2.1 (addListen_frame _ _ _ _).2.2.2.1
              (addListen_frame _ _ _ _).1 (addListen_frame _ _ _ _).2.1
            · simp only [ridOf] at e
              have : u = u' := by omega
              subst this
              simp [DSlot.setCache]
            · exact hcr.subs rfl rfl (by simpa using hec _) (addListen_frame _ _ _ _).2.2.2.2.1
                (addListen_frame _ _ _ _).2.2.2.2.2.1 (addListen_frame _ _ _ _).2.2.2.2.2.2
theorem step_xlisten (h : Rel seen y m) (i : Slot) (id : Nat) (ks : List Kind) (us : List Nat) (hold : Bool)
    (hint : Option Who) : StepOk seen y m (.xlisten i id ks us hold) hint := by
  unfold StepOk
  simp only [sysStep]
  split
  · exact ⟨rfl, h⟩
  · rename_i hg
    simp only [Bool.or_eq_true, not_or, Bool.not_eq_true', Bool.not_eq_false, Bool.not_eq_true] at hg
    obtain ⟨⟨⟨⟨⟨⟨⟨hu, hc⟩, hmod⟩, hraw⟩, hnd⟩, hpk⟩, hch⟩, hlis⟩ := hg
    have hu : (y.slots i).used = true := by simpa using hu
    have hc : (y.slots i).connected = true := by simpa using hc
    have hmod : (y.slots i).modern = true := by simpa using hmod
    have hraw : isRaw id = true := by simpa using hraw
    have hnd : us.Nodup := by simpa using hnd
    have hgf : (y.slots i).gated = false := by
      have := h.sess.gated i hu
      rw [hc] at this
      cases hx : (y.slots i).gated <;> simp [hx] at this ⊢
    have hfree : listenOk y.srv (y.slots i).sid id = true := by
      simp only [listenOk, List.all_eq_true]
      intro l hl
      rw [List.any_eq_false] at hlis
      have := hlis l hl
      by_cases e1 : l.sid = (y.slots i).sid
      · simp [e1] at this; simp [this]
      · simp [e1]
    have hd7 : ∀ u, id = ridOf u → False := by
      intro u e
      simp only [isRaw, ridOf] at hraw e
      simp at hraw
      omega
    cases hfa : firstAck (listenOrRefuse y (y.slots i).sid id ks us).2 with
    | none =>
      simp only [ackObs]
      refine ⟨rfl, ?_⟩
      show Rel seen _ (monNext m ⟨.xlisten i id ks us hold, .noack⟩)
      by_cases hr : us.any m.refused.contains = true
      · have hnext : monNext m ⟨.xlisten i id ks us hold, .noack⟩ =
            m.setSlot i { (m.slots i) with refusedUris := (m.slots i).refusedUris ++ us.filter (fun u => !(m.slots i).refusedUris.contains u) } := by
          simp only [monNext, hr, if_true]
        rw [hnext]
        exact rel_open h i hu hmod id ks us hnd hfree _ _ hu rfl rfl hgf hc
          (fun _ hx => hx) rfl (fun u' e => (hd7 u' e).elim) (fun hcr => hcr.congr rfl rfl rfl rfl rfl rfl) (by rw [hfa]; rfl) rfl rfl rfl rfl
      · have hnext : monNext m ⟨.xlisten i id ks us hold, .noack⟩ = m := by
          simp only [monNext, hr]; rfl
        rw [hnext]
        have key := rel_open h i hu hmod id ks us hnd hfree (y.slots i) (m.slots i) hu rfl rfl hgf hc
          (fun _ hx => hx) rfl (fun u' e => (hd7 u' e).elim) (fun hcr => hcr) (by rw [hfa]; rfl) rfl rfl rfl rfl
        rw [msetSlot_self] at key
        exact key
    | some p =>
      obtain ⟨ks', us'⟩ := p
      simp only [ackObs]
      refine ⟨rfl, ?_⟩
      show Rel seen _ (m.setSlot i (withWindow ((m.slots i).addListen id ks' us') hold id))
      exact rel_open h i hu hmod id ks us hnd hfree _ _ hu rfl rfl hgf hc
        (fun _ hx => hx) rfl (fun u' e => (hd7 u' e).elim)
        (fun hcr => hcr.congr rfl rfl rfl (addListen_frame _ _ _ _).2.2.2.2.1 (addListen_frame _ _ _ _).2.2.2.2.2.1 (addListen_frame _ _ _ _).2.2.2.2.2.2)
        (by rw [hfa]; exact addListen_listens _ _ _ _) (addListen_frame _ _ _ _).2.2.1 (addListen_frame _ _ _ _).2.2.2.1
        (addListen_frame _ _ _ _).1 (addListen_frame _ _ _ _).2.1

end Notify.Bridge
