/-
E14 — vocabulary shared by the hand-written model and the REGENERATED tables
(`Generated/NotifyGen.lean` imports this file, the model imports the generated file).
Core Lean only (linked into the driver).
-/
namespace Notify

/-- The three list-changed notification kinds (keys of `Server.pendingNotifications`). -/
inductive Kind where
  | tools | prompts | resources
deriving DecidableEq, Repr

/-- The four feature sets of a `Server` (`tools`, `prompts`, `resources`, `resourceTemplates`). -/
inductive FSet where
  | tools | prompts | resources | templates
deriving DecidableEq, Repr

/-- The five `methodCache`s of a `ClientSession`. -/
inductive CacheObj where
  | tools | prompts | resources | templates | read
deriving DecidableEq, Repr

def Kind.all : List Kind := [.tools, .prompts, .resources]
def FSet.all : List FSet := [.tools, .prompts, .resources, .templates]
def CacheObj.all : List CacheObj := [.tools, .prompts, .resources, .templates, .read]

theorem Kind.mem_all (k : Kind) : k ∈ Kind.all := by cases k <;> simp [Kind.all]

def Kind.name : Kind → String
  | .tools => "tools" | .prompts => "prompts" | .resources => "resources"
def FSet.name : FSet → String
  | .tools => "tools" | .prompts => "prompts" | .resources => "resources" | .templates => "templates"
def CacheObj.name : CacheObj → String
  | .tools => "tools" | .prompts => "prompts" | .resources => "resources" | .templates => "templates"
  | .read => "read"

/-- The list cache that holds the results of listing a feature set. -/
def FSet.cache : FSet → CacheObj
  | .tools => .tools | .prompts => .prompts | .resources => .resources | .templates => .templates

end Notify
