import McpModel.Notify.BridgeOps9
/-!
# Bridge, part 7f: `fsend` (one write of a held fan-out)
-/
namespace Notify.Bridge
open Notify Notify.Mon Notify.Sys Generated.Notify
variable {seen : List Nat} {y : State} {m : MState}

theorem mem_eraseIdx_of_ne {α} {a b : α} : ∀ (l : List α) (i : Nat), a ∈ l → l[i]? = some b → a ≠ b → a ∈ l.eraseIdx i := by
  intro l
  induction l with
  | nil => intro i ha; simp at ha
  | cons x t ih =>
    intro i ha hi hne
    cases i with
    | zero =>
      simp only [List.getElem?_cons_zero, Option.some.injEq] at hi
      subst hi
      simp only [List.eraseIdx_cons_zero]
      rcases List.mem_cons.1 ha with e | ha'
      · exact absurd e hne
      · exact ha'
    | succ n =>
      simp only [List.getElem?_cons_succ] at hi
      simp only [List.eraseIdx_cons_succ]
      rcases List.mem_cons.1 ha with e | ha'
      · rw [e]; exact List.mem_cons_self
      · exact List.mem_cons_of_mem _ (ih n ha' hi hne)

theorem mem_of_mem_eraseIdx {α} {a : α} {l : List α} {i : Nat} (h : a ∈ l.eraseIdx i) : a ∈ l :=
  (List.eraseIdx_sublist l i).subset h

theorem not_mem_eraseIdx_of_nodup {α} {b : α} : ∀ (l : List α) (i : Nat), l.Nodup → l[i]? = some b → b ∉ l.eraseIdx i := by
  intro l
  induction l with
  | nil => intro i _ hi; simp at hi
  | cons x t ih =>
    intro i hnd hi
    simp only [List.nodup_cons] at hnd
    cases i with
    | zero =>
      simp only [List.getElem?_cons_zero, Option.some.injEq] at hi
      subst hi
      simp only [List.eraseIdx_cons_zero]
      exact hnd.1
    | succ n =>
      simp only [List.getElem?_cons_succ] at hi
      simp only [List.eraseIdx_cons_succ, List.mem_cons, not_or]
      refine ⟨?_, ih n hnd.2 hi⟩
      intro e
      subst e
      exact hnd.1 (List.mem_of_getElem? hi)

theorem findIdx_getD_lt {α} (l : List α) (p : α → Bool) (hne : l ≠ []) : (l.findIdx? p).getD 0 < l.length := by
  cases hf : l.findIdx? p with
  | none => simp only [Option.getD_none]; exact List.length_pos_iff.2 hne
  | some j =>
    simp only [Option.getD_some]
    rw [List.findIdx?_eq_some_iff_getElem] at hf
    exact hf.1

/-- the slot of the monitor after a write of a held fan-out, in the fields the relation reads -/
theorem fsNext_slot (m : MState) (k : Kind) (fan : MFan) (ds : List SDelivery) (done : Bool) (i : Slot) :
    ∃ d0, d0 = (if ds.any (·.slot == i) = true then gotChanged m k (m.slots i) else m.slots i) ∧
    ((fsNext m k fan ds done).slots i).connected = d0.connected ∧ ((fsNext m k fan ds done).slots i).modern = d0.modern ∧
    ((fsNext m k fan ds done).slots i).listens = d0.listens ∧ ((fsNext m k fan ds done).slots i).luris = d0.luris ∧
    ((fsNext m k fan ds done).slots i).starts = d0.starts ∧ ((fsNext m k fan ds done).slots i).owed = d0.owed ∧
    ((fsNext m k fan ds done).slots i).maxHandled = d0.maxHandled ∧ ((fsNext m k fan ds done).slots i).invalidated = d0.invalidated := by
  refine ⟨_, rfl, ?_⟩
  by_cases hg : ds.any (·.slot == i) = true
  · rw [if_pos hg]
    cases done
    · simp only [fsNext, Bool.false_eq_true, if_false, hg, if_true]
      refine ⟨?_, ?_, ?_, ?_, ?_, ?_, ?_, ?_⟩ <;> first | rfl | trivial
    · simp only [fsNext, if_true, hg]
      split <;> (refine ⟨?_, ?_, ?_, ?_, ?_, ?_, ?_, ?_⟩ <;> first | rfl | trivial)
  · rw [if_neg hg]
    have hg' : ds.any (·.slot == i) = false := by simpa using hg
    cases done
    · simp only [fsNext, Bool.false_eq_true, if_false, hg']
      refine ⟨?_, ?_, ?_, ?_, ?_, ?_, ?_, ?_⟩ <;> first | rfl | trivial
    · simp only [fsNext, if_true, hg', Bool.false_eq_true, if_false]
      split <;> (refine ⟨?_, ?_, ?_, ?_, ?_, ?_, ?_, ?_⟩ <;> first | rfl | trivial)

theorem fsNext_glob (m : MState) (k : Kind) (fan : MFan) (ds : List SDelivery) (done : Bool) :
    (fsNext m k fan ds done).cap = m.cap ∧ (fsNext m k fan ds done).ver = m.ver ∧ (fsNext m k fan ds done).cnt = m.cnt ∧
    (fsNext m k fan ds done).content = m.content ∧
    (fsNext m k fan ds done).fans = fun k' => if k' = k then
      (if done then none else some { fan with served := fan.served ++ ds.map (·.slot) }) else m.fans k' := by
  cases done
  · simp only [fsNext, Bool.false_eq_true, if_false]
    refine ⟨?_, ?_, ?_, ?_, ?_⟩ <;> first | rfl | trivial
  · simp only [fsNext, if_true]
    refine ⟨?_, ?_, ?_, ?_, ?_⟩ <;> first | rfl | trivial


theorem fsendIdx_lt (y : State) (infl : List Send) (hint : Option Who) (hne : infl ≠ []) :
    fsendIdx y infl hint < infl.length := by
  simp only [fsendIdx]
  split
  · exact findIdx_getD_lt _ _ hne
  · exact List.length_pos_iff.2 hne

theorem deliverAll_nil (handle : DSlot → DSlot) (mk : Who → DSlot → Send → Delivery) (y0 : State) :
    deliverAll handle mk y0 [] = (y0, []) := rfl

/-- the outstanding writes of a held fan-out after one of them went on -/
theorem fanOk_erase {infl : List Send} {slots : Slot → DSlot} {fan : MFan} (h : FanOk infl slots fan) (idx : Nat) (x : Send)
    (hx : infl[idx]? = some x) (extra : List Slot)
    (hextra : ∀ j ∈ extra, (slots j).used = true ∧ (slots j).sid = x.sid) :
    FanOk (infl.eraseIdx idx) slots { fan with served := fan.served ++ extra } := by
  have hndl : infl.Nodup := nodup_of_map _ _ h.nodup
  refine ⟨(List.Sublist.map _ (List.eraseIdx_sublist infl idx)).nodup h.nodup, ?_⟩
  intro x' hx' j hj hs
  have hx'm := mem_of_mem_eraseIdx hx'
  obtain ⟨h1, h2, h3⟩ := h.exp x' hx'm j hj hs
  refine ⟨h1, ?_, h3⟩
  intro hc
  rcases List.mem_append.1 hc with hc | hc
  · exact h2 hc
  · obtain ⟨_, hsj⟩ := hextra j hc
    have : x' = x := inj_of_nodup_map _ _ h.nodup x' hx'm x (List.mem_of_getElem? hx) (by rw [← hs, hsj])
    rw [this] at hx'
    exact not_mem_eraseIdx_of_nodup _ _ hndl hx hx'

/-- the relation after a write of the held fan-out of kind `k`: `got` is the slot whose client received it -/
theorem rel_fsend (h : Rel seen y m) (k : Kind) (idx : Nat) (x : Send) (hx : (y.srv.ks k).inflight[idx]? = some x)
    (fan : MFan) (hfan : m.fans k = some fan) (ds' : List SDelivery) (yy : State)
    (f1 : yy.srv = (deliver y.srv k idx).1) (f2 : yy.content = y.content)
    (f3 : ∀ j, yy.slots j = if ds'.any (·.slot == j) = true then clientHandleChanged (y.slots j) k else y.slots j)
    (hgot : ∀ j, ds'.any (·.slot == j) = true → (y.slots j).used = true ∧ (y.slots j).sid = x.sid)
    (hall : x.sid ∈ y.srv.sessions.map Prod.fst → ∀ j, (y.slots j).used = true → (y.slots j).sid = x.sid → ds'.any (·.slot == j) = true)
    (hmem : ∀ j, j ∈ ds'.map (·.slot) → ds'.any (·.slot == j) = true) :
    Rel seen yy (fsNext m k fan ds' ((deliver y.srv k idx).1.ks k).inflight.isEmpty) := by
  obtain ⟨d1, d2, _⟩ := deliver_spec y.srv k idx x hx
  have hxm : x ∈ (y.srv.ks k).inflight := List.mem_of_getElem? hx
  have hfok := h.fan.ok k fan hfan
  have hndl : (y.srv.ks k).inflight.Nodup := nodup_of_map _ _ hfok.nodup
  have hslotsB : ∀ j, SameButCaches (y.slots j) (yy.slots j) := by
    intro j; rw [f3]; split
    · exact sameBut_changed _ _
    · exact ⟨rfl, rfl, rfl, rfl, rfl, rfl, rfl, rfl, rfl, rfl⟩
  obtain ⟨g1, g2, g3, g4, g5⟩ := fsNext_glob m k fan ds' ((deliver y.srv k idx).1.ks k).inflight.isEmpty
  have hsl := fun j => fsNext_slot m k fan ds' ((deliver y.srv k idx).1.ks k).inflight.isEmpty j
  have hfr : ∀ j, ((fsNext m k fan ds' ((deliver y.srv k idx).1.ks k).inflight.isEmpty).slots j).connected = (m.slots j).connected ∧
      ((fsNext m k fan ds' ((deliver y.srv k idx).1.ks k).inflight.isEmpty).slots j).modern = (m.slots j).modern ∧
      ((fsNext m k fan ds' ((deliver y.srv k idx).1.ks k).inflight.isEmpty).slots j).listens = (m.slots j).listens ∧
      ((fsNext m k fan ds' ((deliver y.srv k idx).1.ks k).inflight.isEmpty).slots j).luris = (m.slots j).luris := by
    intro j
    obtain ⟨d0, hd0, a1, a2, a3, a4, _⟩ := hsl j
    rw [a1, a2, a3, a4, hd0]
    split <;> exact ⟨rfl, rfl, rfl, rfl⟩
  have howed : ∀ j, ((fsNext m k fan ds' ((deliver y.srv k idx).1.ks k).inflight.isEmpty).slots j).owed =
      if ds'.any (·.slot == j) = true then (m.slots j).owed.filter (· != k) else (m.slots j).owed := by
    intro j
    obtain ⟨d0, hd0, _, _, _, _, _, a6, _⟩ := hsl j
    rw [a6, hd0]
    split <;> rfl
  refine h.fan_frame (y' := yy) (m' := fsNext m k fan ds' _) (by rw [f1]; exact srvOk_deliver h.srvOk k idx) ?_ f2
    (fun j => (hslotsB j).1) (fun j => (hslotsB j).2.1) (fun j => (hslotsB j).2.2.1) (fun j => (hslotsB j).2.2.2.2.1)
    (fun j => (hslotsB j).2.2.2.2.2.1) (fun j => (hslotsB j).2.2.2.2.2.2.1) (fun j => (hslotsB j).2.2.2.2.2.2.2.1)
    ?_ (fun j => (hfr j).1) (fun j => (hfr j).2.1) (fun j => (hfr j).2.2.1) (fun j => (hfr j).2.2.2) ?_
    g1 g2 g3 g4 ?_ ?_ ?_ ?_
  · rw [f1]
    exact ⟨d1.cap, d1.ver, d1.cnt, d1.sessions, rfl, d1.listens, d1.acked, d1.rlive⟩
  · intro j hj hc
    obtain ⟨d0, hd0, _, _, _, _, a5, _, a7, a8⟩ := hsl j
    rw [f3]
    by_cases hg : ds'.any (·.slot == j) = true
    · rw [if_pos hg] at hd0 ⊢
      have := cacheRel_changed hc m k (verOfKey_cur h)
      exact this.congr rfl rfl rfl (by rw [a7, hd0]) (by rw [a8, hd0]) (by rw [a5, hd0])
    · rw [if_neg hg] at hd0 ⊢
      exact hc.congr rfl rfl rfl (by rw [a7, hd0]) (by rw [a8, hd0]) (by rw [a5, hd0])
  · intro j hj
    rw [howed, hj]; split <;> rfl
  · -- debts
    rw [f1, d1.owed]
    intro j k0 hk0
    rw [(hslotsB j).1, (hslotsB j).2.1]
    rw [howed] at hk0
    show (y.slots j).used = true ∧ (((y.slots j).sid, k0) ∈ y.srv.owed ∨ ∃ z ∈ ((deliver y.srv k idx).1.ks k0).inflight, z.sid = (y.slots j).sid)
    rw [d2 k0]
    by_cases hg : ds'.any (·.slot == j) = true
    · rw [if_pos hg] at hk0
      have hk0' := List.mem_filter.1 hk0
      have hne : k0 ≠ k := by simpa using hk0'.2
      rw [if_neg hne]
      exact h.owed j k0 hk0'.1
    · rw [if_neg hg] at hk0
      obtain ⟨hu, hor⟩ := h.owed j k0 hk0
      refine ⟨hu, ?_⟩
      rcases hor with ho | ⟨z, hz, hzs⟩
      · exact Or.inl ho
      · right
        by_cases hkk : k0 = k
        · subst hkk
          rw [if_pos rfl]
          refine ⟨z, mem_eraseIdx_of_ne _ _ hz hx ?_, hzs⟩
          intro e
          subst e
          apply hg
          apply hall _ j hu hzs.symm
          have := h.sess.used_sess j hu
          exact List.mem_map.2 ⟨_, this, hzs.symm⟩
        · rw [if_neg hkk]; exact ⟨z, hz, hzs⟩
  · -- fans
    rw [f1, g5]
    constructor
    · intro k' hk'
      have hk' : ((deliver y.srv k idx).1.ks k').inflight ≠ [] := hk'
      rw [d2 k'] at hk'
      by_cases e : k' = k
      · subst e
        simp only [if_true] at hk' ⊢
        have : ((deliver y.srv k' idx).1.ks k').inflight.isEmpty = false := by
          rw [d2 k', if_pos rfl]
          cases hh : (y.srv.ks k').inflight.eraseIdx idx with
          | nil => exact absurd hh hk'
          | cons _ _ => rfl
        rw [this]
        exact ⟨_, rfl⟩
      · simp only [e, if_false] at hk' ⊢
        exact h.fan.some_of k' hk'
    · intro k' fan' hf'
      show FanOk ((deliver y.srv k idx).1.ks k').inflight yy.slots fan'
      rw [d2 k']
      by_cases e : k' = k
      · subst e
        simp only [if_true] at hf' ⊢
        cases hdone : ((deliver y.srv k' idx).1.ks k').inflight.isEmpty
        · rw [hdone] at hf'
          simp only [Bool.false_eq_true, if_false, Option.some.injEq] at hf'
          subst hf'
          have := fanOk_erase hfok idx x hx (ds'.map (·.slot)) (fun j hj => hgot j (hmem j hj))
          exact this.congr (fun j => (hslotsB j).1) (fun j => (hslotsB j).2.1) (fun j => (hslotsB j).2.2.1)
        · rw [hdone] at hf'; simp at hf'
      · simp only [e, if_false] at hf' ⊢
        exact (h.fan.ok k' fan' hf').congr (fun j => (hslotsB j).1) (fun j => (hslotsB j).2.1) (fun j => (hslotsB j).2.2.1)
  · intro k' z hz
    rw [f1, d2 k'] at hz
    split at hz
    · exact h.seen.infl k z (mem_of_mem_eraseIdx hz)
    · exact h.seen.infl k' z hz
  · intro k' hk'
    rw [f1, d2 k'] at hk'
    have hne' : (y.srv.ks k').inflight ≠ [] := by
      split at hk'
      · rename_i e; subst e; intro e0; rw [e0] at hk'; simp at hk'
      · exact hk'
    have := h.gate k' hne'
    rw [f1]
    simp only [gateSend] at this ⊢
    rw [d1.cap]
    exact this

theorem step_fsend (h : Rel seen y m) (k : Kind) (hint : Option Who) : StepOk seen y m (.fsend k) hint := by
  unfold StepOk
  simp only [sysStep]
  split
  · exact ⟨rfl, h⟩
  · rename_i hne
    have hne : (y.srv.ks k).inflight ≠ [] := by simpa using hne
    have hS := h.srvOk.invS
    obtain ⟨idx, hidx⟩ : ∃ idx, idx = fsendIdx y (y.srv.ks k).inflight hint := ⟨_, rfl⟩
    have hlt : idx < (y.srv.ks k).inflight.length := by rw [hidx]; exact fsendIdx_lt _ _ _ hne
    rw [← hidx]
    obtain ⟨x, hx⟩ : ∃ x, (y.srv.ks k).inflight[idx]? = some x := ⟨_, List.getElem?_eq_getElem hlt⟩
    have hxm : x ∈ (y.srv.ks k).inflight := List.mem_of_getElem? hx
    have hgetD : (y.srv.ks k).inflight.getD idx ⟨0, none⟩ = x := by
      rw [List.getD_eq_getElem?_getD, hx]; rfl
    rw [hgetD]
    obtain ⟨d1, d2, d3⟩ := deliver_spec y.srv k idx x hx
    obtain ⟨fan, hfan⟩ := h.fan.some_of k hne
    have hfok := h.fan.ok k fan hfan
    have hgate := h.gate k hne
    have hinfl' : ∀ k', ((deliver y.srv k idx).1.ks k').inflight =
        if k' = k then (y.srv.ks k).inflight.eraseIdx idx else (y.srv.ks k').inflight := d2
    have hcap : (m.cap k == .off) = false := by
      rw [h.g.cap]
      rw [gateSend_cap] at hgate
      simpa using hgate
    have hndl : (y.srv.ks k).inflight.Nodup := nodup_of_map _ _ hfok.nodup
    rw [d3]
    by_cases hin : x.sid ∈ y.srv.sessions.map Prod.fst
    · -- the session is there: one delivery
      rw [if_pos hin]
      simp only [List.filterMap_cons, List.filterMap_nil]
      obtain ⟨p, hp, e⟩ := List.mem_map.1 hin
      obtain ⟨i, hu, hs⟩ := h.sess.sess_used p hp
      have hs : (y.slots i).sid = x.sid := by rw [hs, e]
      obtain ⟨f1, f2, f3, ds', f4, f5, f6, f7⟩ := fanout_spec (clientHandleChanged · k) (mkChanged k) (keepsId_changed k)
        (mkChanged_who k) ({ y with srv := (deliver y.srv k idx).1 } : State) [x] h.sess.sid_inj
        (by intro z hz; simp only [List.mem_singleton] at hz; subst hz; exact ⟨i, hu, hs⟩) (by simp)
      simp only [deliverChanged]
      obtain ⟨yy, hyy⟩ : ∃ yy, yy = deliverAll (fun x => clientHandleChanged x k) (mkChanged k)
        ({ y with srv := (deliver y.srv k idx).1 } : State) [x] := ⟨_, rfl⟩
      rw [← hyy] at f1 f2 f3 f4 ⊢
      have f3' : ∀ j, yy.1.slots j = if (y.slots j).used = true ∧ (y.slots j).sid ∈ [x].map Send.sid
          then clientHandleChanged (y.slots j) k else y.slots j := f3
      have f1' : yy.1.srv = (deliver y.srv k idx).1 := f1
      have f2' : yy.1.content = y.content := f2
      have hgotiff : ∀ j, ds'.any (·.slot == j) = true ↔ j = i := by
        intro j
        rw [f6 j]
        simp only [List.map_cons, List.map_nil, List.mem_singleton]
        constructor
        · rintro ⟨hj, e2⟩; exact h.sess.sid_inj j i hj hu (by rw [e2, hs])
        · rintro rfl; exact ⟨hu, hs⟩
      have hslotsB : ∀ j, SameButCaches (y.slots j) (yy.1.slots j) := by
        intro j; rw [f3']; split
        · exact sameBut_changed _ _
        · exact ⟨rfl, rfl, rfl, rfl, rfl, rfl, rfl, rfl, rfl, rfl⟩
      obtain ⟨⟨stamps, hfind, hstamp⟩, hnserved, hleg⟩ := hfok.exp x hxm i hu hs
      have hwho : whoOfSid y x.sid = .slot i := by
        simp only [whoOfSid, slotOfSid_some h.sess hu hs]
      rw [hwho]
      have hds_ne : ds' ≠ [] := by
        intro e0
        have := (hgotiff i).2 rfl
        rw [e0] at this; simp at this
      refine ⟨?_, ?_⟩
      · show monCheck m ⟨.fsend k, .fsent (.slot i) y.srv.now yy.2 _⟩ = none
        simp only [monCheck, hfan, f4, fsCheck]
        rw [first_eq_none]
        intro c hc
        rcases List.mem_append.1 hc with hc | hc
        · obtain ⟨sd, hsd, rfl⟩ := List.mem_map.1 hc
          obtain ⟨z, hz, hu', hs', e1, e2, e3⟩ := f5 sd hsd
          simp only [List.mem_singleton] at hz
          subst hz
          have hsl : sd.slot = i := h.sess.sid_inj _ _ hu' hu (by rw [hs', hs])
          have hconn : (m.slots sd.slot).connected = true := by rw [h.sess.conn]; exact hu'
          have hmod := h.sess.modern sd.slot hu'
          have e1' : sd.meth = .changed k := e1
          have e2' : sd.stamp = stampOf z.stamp := e2
          have hhk : sd.hk = .none ∨ sd.hk = .kind k := by
            rw [e3]; simp only [mkChanged]; split
            · exact Or.inr rfl
            · exact Or.inl rfl
          have hlegst : (m.slots sd.slot).modern = false → sd.stamp = .plain := by
            intro hm0
            rw [hmod, hsl] at hm0
            rw [e2', hleg hm0]; rfl
          simp only [fsDeliveryClause, e1', hcap, hconn, hsl, hfind]
          rw [hsl] at hlegst hmod
          have hmem : sd.stamp ∈ stamps := by rw [e2']; exact hstamp
          have hconn' : (m.slots i).connected = true := by rw [h.sess.conn]; exact hu
          cases hm0 : (m.slots i).modern with
          | false =>
            have hpl := hlegst hm0
            rw [hpl] at hmem
            rcases hhk with h3 | h3 <;> simp [hpl, hmem, hnserved, h3, hconn']
          | true => rcases hhk with h3 | h3 <;> simp [hmem, hnserved, h3, hconn']
        · simp only [List.mem_singleton] at hc
          rw [hc]
          have : ds'.isEmpty = false := by
            cases ds' with
            | nil => exact absurd rfl hds_ne
            | cons _ _ => rfl
          simp only [this, Bool.false_and, Bool.false_eq_true, if_false]
      · show Rel seen yy.1 (monNext m ⟨.fsend k, .fsent (.slot i) y.srv.now yy.2 _⟩)
        have hnext : monNext m ⟨.fsend k, .fsent (.slot i) y.srv.now yy.2 ((deliver y.srv k idx).1.ks k).inflight.isEmpty⟩ =
            fsNext m k fan ds' ((deliver y.srv k idx).1.ks k).inflight.isEmpty := by
          simp only [monNext, hfan, f4]
        rw [hnext]
        refine rel_fsend h k idx x hx fan hfan ds' yy.1 f1' f2' ?_ ?_ ?_ ?_
        · intro j
          rw [f3']
          by_cases hg : ds'.any (·.slot == j) = true
          · rw [if_pos hg, if_pos ((f6 j).1 hg)]
          · rw [if_neg hg, if_neg (fun hc => hg ((f6 j).2 hc))]
        · intro j hg
          have := (f6 j).1 hg
          exact ⟨this.1, by simpa using this.2⟩
        · intro _ j hj hsj
          exact (f6 j).2 ⟨hj, by simp [hsj]⟩
        · intro j hj
          obtain ⟨sd, hsd, e1⟩ := List.mem_map.1 hj
          rw [List.any_eq_true]
          exact ⟨sd, hsd, by simp [e1]⟩
    · -- the session has gone: nothing is delivered
      rw [if_neg hin]
      simp only [List.filterMap_nil, deliverChanged, deliverAll_nil]
      have hwho : whoOfSid y x.sid = .closed x.sid := by
        simp only [whoOfSid]
        rw [slotOfSid_none]
        intro j hj e
        apply hin
        have := h.sess.used_sess j hj
        exact List.mem_map.2 ⟨_, this, e⟩
      rw [hwho]
      have hsd : slotDeliveries ([] : List Delivery) = some [] := rfl
      refine ⟨?_, ?_⟩
      · show monCheck m ⟨.fsend k, .fsent (.closed x.sid) y.srv.now [] _⟩ = none
        simp only [monCheck, hfan, hsd, fsCheck, List.map_nil, List.nil_append]
        rfl
      · show Rel seen _ (monNext m ⟨.fsend k, .fsent (.closed x.sid) y.srv.now [] _⟩)
        have hnext : monNext m ⟨.fsend k, .fsent (.closed x.sid) y.srv.now [] ((deliver y.srv k idx).1.ks k).inflight.isEmpty⟩ =
            fsNext m k fan [] ((deliver y.srv k idx).1.ks k).inflight.isEmpty := by
          simp only [monNext, hfan, hsd]
        rw [hnext]
        refine rel_fsend h k idx x hx fan hfan [] _ rfl rfl ?_ ?_ ?_ ?_
        · intro j; simp
        · intro j hg; simp at hg
        · intro hc; exact absurd hc hin
        · intro j hj; simp at hj
end Notify.Bridge
