import McpModel.Notify.BridgeOps10
/-!
# Bridge, part 7g: `rupdated` (a ResourceUpdated fan-out)
-/
namespace Notify.Bridge
open Notify Notify.Mon Notify.Sys Generated.Notify
variable {seen : List Nat} {y : State} {m : MState}

/-- an op that leaves the server alone but may change contents and caches -/
theorem Rel.content_frame (h : Rel seen y m) {y' : State} {m' : MState}
    (hsrv : y'.srv = y.srv) (hcont : m'.content = y'.content)
    (e1 : ∀ j, (y'.slots j).used = (y.slots j).used) (e2 : ∀ j, (y'.slots j).sid = (y.slots j).sid)
    (e3 : ∀ j, (y'.slots j).modern = (y.slots j).modern) (e4 : ∀ j, (y'.slots j).connected = (y.slots j).connected)
    (e5 : ∀ j, (y'.slots j).gated = (y.slots j).gated) (e6 : ∀ j, (y'.slots j).rsubs = (y.slots j).rsubs)
    (e7 : ∀ j, (y'.slots j).cancelHeld = (y.slots j).cancelHeld)
    (ec : ∀ j, (y.slots j).used = true → CacheRel (curVersion y) (y.slots j) (m.slots j) →
      CacheRel (curVersion y') (y'.slots j) (m'.slots j))
    (m1 : ∀ j, (m'.slots j).connected = (m.slots j).connected) (m2 : ∀ j, (m'.slots j).modern = (m.slots j).modern)
    (m3 : ∀ j, (m'.slots j).listens = (m.slots j).listens) (m4 : ∀ j, (m'.slots j).luris = (m.slots j).luris)
    (m5 : ∀ j, (m'.slots j).owed = (m.slots j).owed) (mf : m'.fans = m.fans)
    (g1 : m'.cap = m.cap) (g2 : m'.ver = m.ver) (g3 : m'.cnt = m.cnt) : Rel seen y' m' := by
  refine ⟨by rw [hsrv]; exact h.reach, ⟨by rw [g1, hsrv]; exact h.g.cap, by rw [g2, hsrv]; exact h.g.ver,
      by rw [g3, hsrv]; exact h.g.cnt, hcont⟩, ?_, ?_, ?_, ?_, ?_, by rw [hsrv]; exact h.seen, by rw [hsrv]; exact h.gate⟩
  · rw [hsrv]; exact h.sess.congr e1 e2 e3 e4 e5 m1 m2
  · rw [hsrv]; exact h.lis.congr e1 e2 e3 (fun i u hx => by rw [e6, e7]; exact hx) e5 m3 m4 (fun j hj => by rw [m5]; exact hj)
  · rw [hsrv]; exact h.owed.congr e1 e2 m5
  · rw [hsrv, mf]; exact h.fan.congr e1 e2 e3
  · intro j hj
    rw [e1] at hj
    exact ec j hj (h.cache j hj)

/-- a server-side change of what the keys selected by `p` of cache `o` fetch -/
theorem cacheRel_bump_gen {cur cur' : Key → Nat} {d : DSlot} {md : MSlot} (o : CacheObj) (p : Nat → Bool)
    (h : CacheRel cur d md)
    (hcur : ∀ key : Key, cur' key = if key.obj = o ∧ p key.idx = true then cur key + 1 else cur key) :
    CacheRel cur' (if d.modern = true then d.setCache o (Cache.step true (d.caches o) (.bump p)).1 else d) md := by
  have hmono : ∀ key, cur key ≤ cur' key := by
    intro key; rw [hcur]; split <;> omega
  by_cases hm : d.modern = true
  · simp only [hm, if_true]
    have hmod : (d.setCache o (Cache.step true (d.caches o) (.bump p)).1).modern = true := hm
    constructor
    · intro _ o'
      rw [setCache_caches]; split
      · rename_i e; subst e; exact Cache.inv_step _ _ (h.inv hm _)
      · exact h.inv hm o'
    · intro _ key
      rw [setCache_caches, hcur]
      by_cases e : key.obj = o
      · simp only [e, if_true, true_and, Cache.step]
        rw [← h.srv hm key, e]
      · simp only [e, if_false, false_and]
        exact h.srv hm key
    · intro _ key
      rw [setCache_caches]; split
      · rename_i e; rw [← h.handled hm key, e]; rfl
      · exact h.handled hm key
    · intro _ key hk
      rw [setCache_caches]; split
      · rename_i e; have := h.inval hm key hk; rw [e] at this; exact this
      · exact h.inval hm key hk
    · intro _ o'
      rw [setCache_caches]; split
      · rename_i e; subst e; exact h.inbox hm _
      · exact h.inbox hm o'
    · intro key
      rw [setCache_caches]; split
      · rename_i e; have := h.held_fill key; rw [e] at this; exact this
      · exact h.held_fill key
    · intro o'
      rw [setCache_caches]; split
      · rename_i e; subst e; exact h.fill_uniq _
      · exact h.fill_uniq o'
    · intro _ key fl hfl
      rw [setCache_caches] at hfl; split at hfl
      · rename_i e; have := h.starts hm key fl; rw [e] at this; exact this hfl
      · exact h.starts hm key fl hfl
    · intro key; exact Nat.le_trans (h.maxH_le key) (hmono key)
    · intro hl; rw [hmod] at hl; exact absurd hl (by simp)
  · simp only [hm]
    have hm' : d.modern = false := by simpa using hm
    constructor
    · intro hx; exact absurd hx hm
    · intro hx; exact absurd hx hm
    · intro hx; exact absurd hx hm
    · intro hx; exact absurd hx hm
    · intro hx; exact absurd hx hm
    · exact h.held_fill
    · exact h.fill_uniq
    · intro hx; exact absurd hx hm
    · intro key; exact Nat.le_trans (h.maxH_le key) (hmono key)
    · intro _ key fl hfl he
      have := h.leg_fill hm' key fl hfl he
      exact ⟨Nat.le_trans this.1 (hmono key), this.2⟩

theorem sameBut_updated (d : DSlot) (v : Nat) : SameButCaches d (clientHandleUpdated d v) := by
  rw [clientHandleUpdated_eq]; split <;> exact ⟨rfl, rfl, rfl, rfl, rfl, rfl, rfl, rfl, rfl, rfl⟩

theorem mkUpdated_who (v : Nat) (i : Slot) (d : DSlot) (x : Send) : (mkUpdated v (.slot i) d x).who = .slot i := rfl

/-- the client of a slot handles a resource-updated notification naming `v` -/
theorem cacheRel_updated {cur : Key → Nat} {d : DSlot} {md md' : MSlot} (h : CacheRel cur d md) (v : Nat)
    (m1 : md'.maxHandled = fun key => if key ∈ [Key.read v] then max (md.maxHandled key) (cur key) else md.maxHandled key)
    (m2 : md'.invalidated = fun key => decide (key ∈ [Key.read v]) || md.invalidated key)
    (m3 : md'.starts = md.starts) : CacheRel cur (clientHandleUpdated d v) md' := by
  refine cacheRel_handled h (some v) (fun o => o == .read) (sameBut_updated d v) ?_ ?_
    (fun key => decide (key = .read v)) ?_ ?_ ?_ m3
  · intro hm o
    rw [clientHandleUpdated_eq, if_neg (by rw [hm]; decide), setCache_caches]
    by_cases e : o = .read <;> simp [e]
  · intro hm
    rw [clientHandleUpdated_eq, if_pos (by rw [hm]; rfl)]
  · intro key
    cases key with
    | list f => cases f <;> simp [Key.obj, FSet.cache]
    | read u =>
      simp only [Key.obj, Key.idx, Cache.Notif.covers, decide_eq_true_eq, Key.read.injEq, beq_self_eq_true, true_and, beq_iff_eq]
      exact ⟨fun e => e.symm, fun e => e.symm⟩
  · rw [m1]; funext key; simp
  · intro key hk
    rw [m2] at hk
    simpa using hk

/-- the monitor's notion of a live subscription to `u` is the model's -/
theorem grantedU_iff (h : Rel seen y m) (i : Slot) (hu : (y.slots i).used = true) (u : Nat) :
    (m.slots i).grantedU u = true ↔ subscribed y.srv (y.slots i).sid u := by
  have hS := h.srvOk.invS
  have hgen := h.sess.used_sess i hu
  simp only [MSlot.grantedU, h.sess.modern i hu, subscribed]
  cases hm : (y.slots i).modern with
  | false =>
    rw [hm] at hgen
    simp only [Bool.false_eq_true, if_false]
    rw [List.contains_iff_mem (a := u)]
    rw [h.lis.luris i hu hm u]
    constructor
    · exact Or.inl
    · rintro (h1 | ⟨l, hl, e1, _⟩)
      · exact h1
      · have := hS.listen_modern l hl
        rw [e1] at this
        exact absurd (gen_unique hS.sess_nodup this hgen) (by simp [genB])
  | true =>
    rw [hm] at hgen
    simp only [if_true, List.any_eq_true]
    constructor
    · rintro ⟨ml, hml, hk⟩
      obtain ⟨l, hl, e1, e2⟩ := (h.lis.listens i hu ml).1 hml
      subst e2
      exact Or.inr ⟨l, hl, e1, by simpa [toM] using hk⟩
    · rintro (h1 | ⟨l, hl, e1, hk⟩)
      · have := ((hS.rlive_iff _ _).1 h1).1
        exact absurd (gen_unique hS.sess_nodup this hgen) (by simp [genB])
      · exact ⟨toM l, (h.lis.listens i hu _).2 ⟨l, hl, e1, rfl⟩, by simpa [toM] using hk⟩

theorem any_iff_filter_pos {α} (l : List α) (p : α → Bool) : l.any p = true ↔ 0 < (l.filter p).length := by
  rw [List.any_eq_true, List.length_pos_iff_exists_mem]
  constructor
  · rintro ⟨a, ha, hp⟩; exact ⟨a, List.mem_filter.2 ⟨ha, hp⟩⟩
  · rintro ⟨a, ha⟩; exact ⟨a, (List.mem_filter.1 ha).1, (List.mem_filter.1 ha).2⟩

theorem ruNext_slot (m1 : MState) (v : Nat) (ds : List SDelivery) (i : Slot) :
    ((ruNext m1 v ds).slots i).connected = (m1.slots i).connected ∧ ((ruNext m1 v ds).slots i).modern = (m1.slots i).modern ∧
    ((ruNext m1 v ds).slots i).listens = (m1.slots i).listens ∧ ((ruNext m1 v ds).slots i).luris = (m1.slots i).luris ∧
    ((ruNext m1 v ds).slots i).owed = (m1.slots i).owed ∧ ((ruNext m1 v ds).slots i).starts = (m1.slots i).starts ∧
    ((ruNext m1 v ds).slots i).maxHandled = (if ds.any (·.slot == i) = true then
      (fun key => if key ∈ [Key.read v] then max ((m1.slots i).maxHandled key) (m1.verOfKey key) else (m1.slots i).maxHandled key)
      else (m1.slots i).maxHandled) ∧
    ((ruNext m1 v ds).slots i).invalidated = (if ds.any (·.slot == i) = true then
      (fun key => decide (key ∈ [Key.read v]) || (m1.slots i).invalidated key) else (m1.slots i).invalidated) := by
  simp only [ruNext]
  by_cases hg : ds.any (·.slot == i) = true
  · simp only [hg, if_true]
    split <;> (refine ⟨?_, ?_, ?_, ?_, ?_, ?_, ?_, ?_⟩ <;> first | rfl | trivial)
  · have hg' : ds.any (·.slot == i) = false := by simpa using hg
    simp only [hg', Bool.false_eq_true, if_false]
    refine ⟨?_, ?_, ?_, ?_, ?_, ?_, ?_, ?_⟩ <;> first | rfl | trivial

theorem ruSlotClause_none (m : MState) (u : Nat) (ds : List SDelivery) (i : Slot)
    (h1 : ((m.slots i).connected && (m.slots i).grantedU u) = true → (ds.filter (·.slot == i)).length = 1)
    (h0 : ((m.slots i).connected && (m.slots i).grantedU u) = false → (ds.filter (·.slot == i)).length = 0) :
    ruSlotClause m u ds i = none := by
  unfold ruSlotClause
  cases hw : ((m.slots i).connected && (m.slots i).grantedU u)
  · have := h0 hw; simp [hw, this]
  · have := h1 hw; simp [hw, this]

theorem ruDeliveryClause_none (m : MState) (u v : Nat) (sd : SDelivery) (h1 : sd.meth = .updated) (h2 : sd.hk = .uri v)
    (h3 : (m.slots sd.slot).modern = false → sd.stamp = .plain)
    (h4 : (m.slots sd.slot).modern = true →
      (m.slots sd.slot).listens.any (fun l => Stamp.id l.id == sd.stamp && l.uris.contains u) = true) :
    ruDeliveryClause m u v sd = none := by
  unfold ruDeliveryClause
  cases hm : (m.slots sd.slot).modern
  · simp [h1, h2, hm, h3 hm]
  · have := h4 hm
    simp only [h1, h2, hm, this]
    simp

theorem step_rupdated (h : Rel seen y m) (u v : Nat) (hint : Option Who) : StepOk seen y m (.rupdated u v) hint := by
  unfold StepOk
  simp only [sysStep]
  have hS := h.srvOk.invS
  obtain ⟨u1, u2, u3⟩ := updList_spec hS u
  -- the state after the content has changed
  obtain ⟨y2, hy2⟩ : ∃ y2, y2 = ({ y with content := fun k => if k == v then y.content v + 1 else y.content k } : State).cacheAll
      .read (.bump (fun k => k == v)) := ⟨_, rfl⟩
  rw [← hy2]
  have hy2srv : y2.srv = y.srv := by rw [hy2]; rfl
  have hy2c : y2.content = fun k => if k == v then y.content v + 1 else y.content k := by rw [hy2]; rfl
  have hy2B : ∀ j, (y2.slots j).used = (y.slots j).used ∧ (y2.slots j).sid = (y.slots j).sid ∧
      (y2.slots j).modern = (y.slots j).modern ∧ (y2.slots j).connected = (y.slots j).connected ∧
      (y2.slots j).gated = (y.slots j).gated ∧ (y2.slots j).rsubs = (y.slots j).rsubs ∧
      (y2.slots j).cancelHeld = (y.slots j).cancelHeld ∧ (y2.slots j).held = (y.slots j).held := by
    intro j; rw [hy2]; exact cacheAll_frame _ _ _ j
  have hinj2 : ∀ i j, (y2.slots i).used = true → (y2.slots j).used = true → (y2.slots i).sid = (y2.slots j).sid → i = j := by
    intro i j hi hj e
    rw [(hy2B i).1] at hi; rw [(hy2B j).1] at hj; rw [(hy2B i).2.1, (hy2B j).2.1] at e
    exact h.sess.sid_inj i j hi hj e
  have hslot : ∀ x ∈ updList y.srv u, ∃ i, (y2.slots i).used = true ∧ (y2.slots i).sid = x.sid := by
    intro x hx
    have hsess : x.sid ∈ y.srv.sessions.map Prod.fst := by
      rcases u3 x hx with ⟨_, hg⟩ | ⟨_, _, hg, _⟩
      · exact List.mem_map.2 ⟨_, hg, rfl⟩
      · exact List.mem_map.2 ⟨_, hg, rfl⟩
    obtain ⟨p, hp, e⟩ := List.mem_map.1 hsess
    obtain ⟨i, hu, hs⟩ := h.sess.sess_used p hp
    exact ⟨i, by rw [(hy2B i).1]; exact hu, by rw [(hy2B i).2.1, hs, e]⟩
  rw [hy2srv]
  obtain ⟨f1, f2, f3, ds', f4, f5, f6, f7⟩ := fanout_spec (clientHandleUpdated · v) (mkUpdated v) (keepsId_updated v)
    (mkUpdated_who v) y2 (updList y.srv u) hinj2 hslot u2
  simp only [deliverUpdated]
  obtain ⟨yy, hyy⟩ : ∃ yy, yy = deliverAll (fun x => clientHandleUpdated x v) (mkUpdated v) y2 (updList y.srv u) := ⟨_, rfl⟩
  rw [← hyy] at f1 f2 f3 f4 ⊢
  have f3' : ∀ j, yy.1.slots j = if (y2.slots j).used = true ∧ (y2.slots j).sid ∈ (updList y.srv u).map Send.sid
      then clientHandleUpdated (y2.slots j) v else y2.slots j := f3
  -- who gets it
  have hgot : ∀ i, ds'.any (·.slot == i) = true ↔ ((m.slots i).connected && (m.slots i).grantedU u) = true := by
    intro i
    rw [f6 i, (hy2B i).1, (hy2B i).2.1]
    by_cases hu : (y.slots i).used = true
    · rw [u1, ← grantedU_iff h i hu u, h.sess.conn i, hu]
      simp
    · have : (m.slots i).connected = false := by rw [h.sess.conn i]; simpa using hu
      simp [hu, this]
  refine ⟨?_, ?_⟩
  · show monCheck m ⟨.rupdated u v, .sent y.srv.now yy.2⟩ = none
    simp only [monCheck, f4, ruCheck]
    rw [first_eq_none]
    intro c hc
    rcases List.mem_append.1 hc with hc | hc
    · obtain ⟨i, _, rfl⟩ := List.mem_map.1 hc
      have hcnt := f7 i
      have hpos := any_iff_filter_pos ds' (·.slot == i)
      have hg := hgot i
      apply ruSlotClause_none
      · intro hw
        have : 0 < (ds'.filter (·.slot == i)).length := hpos.1 (hg.2 hw)
        omega
      · intro hw
        have : ¬ 0 < (ds'.filter (·.slot == i)).length := fun hc' => by
          have := hg.1 (hpos.2 hc')
          have hw' : ((m.slots i).connected && (m.slots i).grantedU u) = false := hw
          rw [hw'] at this; exact absurd this (by simp)
        omega
    · obtain ⟨sd, hsd, rfl⟩ := List.mem_map.1 hc
      obtain ⟨x, hx, hu', hs', e1, e2, e3⟩ := f5 sd hsd
      rw [(hy2B sd.slot).1] at hu'
      rw [(hy2B sd.slot).2.1] at hs'
      have e1' : sd.meth = .updated := e1
      have e2' : sd.stamp = stampOf x.stamp := e2
      have e3' : sd.hk = .uri v := e3
      have hmod := h.sess.modern sd.slot hu'
      have hgen := h.sess.used_sess sd.slot hu'
      rw [hs'] at hgen
      show ruDeliveryClause (ruContent m v) u v sd = none
      apply ruDeliveryClause_none _ _ _ _ e1' e3'
      · intro hm0
        have hm0' : (m.slots sd.slot).modern = false := hm0
        rw [hmod] at hm0'
        rcases u3 x hx with ⟨hst, hg⟩ | ⟨id, hst, hg, l, hl, l1, l2, l3⟩
        · rw [e2', hst]; rfl
        · have := gen_unique hS.sess_nodup hg hgen
          rw [hm0'] at this
          simp [genB] at this
      · intro hm1
        have hm1' : (m.slots sd.slot).modern = true := hm1
        rw [hmod] at hm1'
        rcases u3 x hx with ⟨hst, hg⟩ | ⟨id, hst, hg, l, hl, l1, l2, l3⟩
        · have := gen_unique hS.sess_nodup hg hgen
          rw [hm1'] at this
          simp [genB] at this
        · have hml : toM l ∈ (m.slots sd.slot).listens := (h.lis.listens sd.slot hu' _).2 ⟨l, hl, by rw [l1, hs'], rfl⟩
          show (m.slots sd.slot).listens.any (fun l' => Stamp.id l'.id == sd.stamp && l'.uris.contains u) = true
          rw [List.any_eq_true]
          exact ⟨toM l, hml, by rw [e2', hst]; simp [toM, stampOf, l2, l3]⟩
  · show Rel seen yy.1 (monNext m ⟨.rupdated u v, .sent y.srv.now yy.2⟩)
    have hnext : monNext m ⟨.rupdated u v, .sent y.srv.now yy.2⟩ = ruNext (ruContent m v) v ds' := by
      simp only [monNext, f4]
    rw [hnext]
    have f1' : yy.1.srv = y.srv := f1.trans hy2srv
    have f2' : yy.1.content = fun k => if k == v then y.content v + 1 else y.content k := f2.trans hy2c
    have hB : ∀ j, SameButCaches (y2.slots j) (yy.1.slots j) := by
      intro j; rw [f3']; split
      · exact sameBut_updated _ _
      · exact ⟨rfl, rfl, rfl, rfl, rfl, rfl, rfl, rfl, rfl, rfl⟩
    have hcur : ∀ key : Key, curVersion yy.1 key =
        if key.obj = CacheObj.read ∧ (fun k => k == v) key.idx = true then curVersion y key + 1 else curVersion y key := by
      intro key
      cases key with
      | list f =>
        simp only [curVersion, curVersionObj, Key.obj, Key.idx, f1']
        cases f <;> simp [FSet.cache, objFSet]
      | read w =>
        simp only [curVersion, curVersionObj, Key.obj, Key.idx, objFSet, f2', true_and]
        by_cases e : w = v
        · subst e; simp
        · simp [e]
    have hsl := fun j => ruNext_slot (ruContent m v) v ds' j
    refine h.content_frame (y' := yy.1) (m' := ruNext (ruContent m v) v ds') f1' ?_
      (fun j => (hB j).1.trans (hy2B j).1) (fun j => (hB j).2.1.trans (hy2B j).2.1) (fun j => (hB j).2.2.1.trans (hy2B j).2.2.1)
      (fun j => (hB j).2.2.2.2.1.trans (hy2B j).2.2.2.1) (fun j => (hB j).2.2.2.2.2.1.trans (hy2B j).2.2.2.2.1)
      (fun j => (hB j).2.2.2.2.2.2.1.trans (hy2B j).2.2.2.2.2.1) (fun j => (hB j).2.2.2.2.2.2.2.1.trans (hy2B j).2.2.2.2.2.2.1)
      ?_ (fun j => (hsl j).1) (fun j => (hsl j).2.1) (fun j => (hsl j).2.2.1) (fun j => (hsl j).2.2.2.1)
      (fun j => (hsl j).2.2.2.2.1) rfl rfl rfl rfl
    · show (ruContent m v).content = yy.1.content
      rw [f2']
      simp only [ruContent, h.g.content]
    · intro j hj hc
      -- the content has changed …
      have hb := cacheRel_bump_gen CacheObj.read (fun k => k == v) hc hcur
      have hy2j : y2.slots j = if (y.slots j).modern = true then
          (y.slots j).setCache CacheObj.read (Cache.step true ((y.slots j).caches CacheObj.read) (.bump (fun k => k == v))).1
          else y.slots j := by
        rw [hy2, cacheAll_slots]
        show (if (((y.slots j).used && (y.slots j).modern) = true) then _ else _) = _
        rw [hj, Bool.true_and]
      rw [← hy2j] at hb
      -- … and the recipients handled the notification
      obtain ⟨_, _, _, _, _, a6, a7, a8⟩ := hsl j
      rw [f3']
      by_cases hg : ds'.any (·.slot == j) = true
      · rw [if_pos ((f6 j).1 hg)]
        rw [if_pos hg] at a7 a8
        refine cacheRel_updated hb v ?_ ?_ a6
        · rw [a7]
          funext key
          have : (ruContent m v).verOfKey key = curVersion yy.1 key := by
            cases key with
            | list f => simp only [MState.verOfKey, ruContent, curVersion, curVersionObj, Key.obj, Key.idx, f1', h.g.ver]; cases f <;> rfl
            | read w => simp only [MState.verOfKey, ruContent, curVersion, curVersionObj, Key.obj, Key.idx, objFSet, f2', h.g.content]
          rw [this]; rfl
        · rw [a8]; rfl
      · rw [if_neg (fun hc' => hg ((f6 j).2 hc'))]
        rw [if_neg hg] at a7 a8
        exact hb.congr rfl rfl rfl a7 a8 a6
end Notify.Bridge
