/-!
# E14, client side: `notifications/roots/list_changed` (`mcp/client.go`: `AddRoots`, `RemoveRoots`, the
client's `changeAndNotify`, `Client.shouldSendListChangedNotification`)

The other direction of C18's first sentence: the CLIENT's feature set (its roots) changes, the sessions of
that client — one per server it is connected to — are the ones to tell.  The code that exists, transliterated:

* `AddRoots(roots…)`: nothing at all for an empty argument list; otherwise the roots are put into the set
  (replacing roots with the same URI) and the call COUNTS AS A CHANGE whatever the set held before;
* `RemoveRoots(uris…)`: `featureSet.remove` — a change iff some named URI was in the set when the loop reached it;
* `changeAndNotify`: ONE critical section under `Client.mu`: the change, the capability gate, the snapshot
  `slices.Clone(c.sessions)`; then, outside the lock, one `notifications/roots/list_changed` per snapshot entry,
  in order.  No debounce, no timer;
* the gate (`shouldSendListChangedNotification`): `opts.Capabilities == nil` ⇒ send; else `RootsV2 != nil` ⇒
  `RootsV2.ListChanged`; else `Roots.ListChanged` (regenerated fact `notify.client_roots_gate`);
* `Client.Connect` appends the session to `c.sessions` (before the handshake), `ClientSession.Close` /
  the connection's end removes it (`Client.disconnect`).
* the observation point of the harness is the SERVER's `RootsListChangedHandler`.  `ServerSession.handle` lists
  `notifications/roots/list_changed` among the methods "removed in the new protocol", but decides by the
  per-request `_meta` of the message, and the client's `notifySessions` does not stamp this notification: the
  handler of a server whose session was negotiated at 2026-07-28 runs like that of an older one (observed on
  the real code; the generation is kept in the state, the model does not distinguish).

Core Lean only (linked into `drv_notify`).
-/
namespace Notify.Roots

/-- `ClientOptions.Capabilities` as far as the gate reads it -/
structure Cfg where
  /-- `opts.Capabilities == nil` -/
  capsNil : Bool := true
  /-- `caps.RootsV2`: `none` = nil pointer, `some lc` = `&RootCapabilities{ListChanged: lc}` -/
  v2 : Option Bool := none
  /-- `caps.Roots.ListChanged` (the deprecated value field) -/
  v1 : Bool := false
deriving DecidableEq, Repr

/-- `Client.shouldSendListChangedNotification(notificationRootsListChanged)` -/
def gate (c : Cfg) : Bool :=
  if c.capsNil then true else
  match c.v2 with
  | some lc => lc
  | none => c.v1

structure State where
  cfg : Cfg := {}
  /-- URIs of the roots the client holds -/
  roots : List Nat := []
  /-- `c.sessions`, in order: (session number, whether the server speaks 2026-07-28) -/
  sessions : List (Nat × Bool) := []
deriving Repr

inductive Label where
  | add (uris : List Nat)
  | remove (uris : List Nat)
  | connect (sid : Nat) (modern : Bool)
  | close (sid : Nat)
deriving DecidableEq, Repr

/-- `featureSet.remove`: the set afterwards and whether ANY named URI was present when the loop reached it -/
def removeAll : List Nat → List Nat → List Nat × Bool
  | roots, [] => (roots, false)
  | roots, u :: us =>
    let r := removeAll (roots.filter (· != u)) us
    (r.1, roots.contains u || r.2)

def addAll (roots uris : List Nat) : List Nat :=
  uris.foldl (fun acc u => if acc.contains u then acc else acc ++ [u]) roots

/-- the snapshot a change takes under the lock: whom `notifySessions` writes to, in order -/
def snapshot (s : State) (changed : Bool) : List (Nat × Bool) :=
  if changed && gate s.cfg then s.sessions else []

/-- One label; the output is the list of sessions a notification is WRITTEN to (in order). -/
def step (s : State) : Label → State × List (Nat × Bool)
  | .add uris =>
    if uris.isEmpty then (s, []) else
    let s' := { s with roots := addAll s.roots uris }
    (s', snapshot s' true)
  | .remove uris =>
    let r := removeAll s.roots uris
    let s' := { s with roots := r.1 }
    (s', snapshot s' r.2)
  | .connect sid modern =>
    if s.sessions.any (·.1 == sid) then (s, []) else
    ({ s with sessions := s.sessions ++ [(sid, modern)] }, [])
  | .close sid => ({ s with sessions := s.sessions.filter (·.1 != sid) }, [])

def run (s : State) : List Label → State × List (List (Nat × Bool))
  | [] => (s, [])
  | l :: ls =>
    let r := step s l
    let q := run r.1 ls
    (q.1, r.2 :: q.2)

/-- whose `RootsListChangedHandler` runs: every server written to, whatever generation its session has -/
def handled (ws : List (Nat × Bool)) : List Nat := ws.map (·.1)

/-! ## the monitor: the property on what the IMPLEMENTATION did

Its state is the history of the ops (which servers are connected, the roots the client was given, the
configuration), never the model's send list. -/

inductive Clause where
  /-- a connected server was not told about an effective change although the capability is enabled -/
  | missed
  /-- a notification although listChanged is disabled -/
  | disabled
  /-- a notification reached a server whose session is closed or that never connected -/
  | notEntitled
  /-- a notification although the call changed nothing (only absent URIs removed, empty AddRoots) -/
  | noChange
  /-- one call, two notifications to the same server -/
  | twice
deriving DecidableEq, Repr

structure MState where
  cfg : Cfg := {}
  roots : List Nat := []
  conn : List (Nat × Bool) := []
deriving Repr

/-- did the call change the client's roots (by the property's reading: AddRoots with roots always announces;
RemoveRoots iff it named a root the client had)? -/
def effective (m : MState) : Label → Bool
  | .add uris => !uris.isEmpty
  | .remove uris => uris.any m.roots.contains
  | _ => false

def monNext (m : MState) : Label → MState
  | .add uris => { m with roots := addAll m.roots uris }
  | .remove uris => { m with roots := m.roots.filter (fun r => !uris.contains r) }
  | .connect sid modern => if m.conn.any (·.1 == sid) then m else { m with conn := m.conn ++ [(sid, modern)] }
  | .close sid => { m with conn := m.conn.filter (·.1 != sid) }

/-- `got` = the servers whose RootsListChangedHandler ran because of this label -/
def monCheck (m : MState) (l : Label) (got : List Nat) : Option Clause :=
  let eff := effective m l
  if !got.isEmpty && !eff then some .noChange else
  if !got.isEmpty && !gate m.cfg then some .disabled else
  if got.any (fun sid => !m.conn.any (·.1 == sid)) then some .notEntitled else
  if !decide got.Nodup then some .twice else
  if eff && gate m.cfg && m.conn.any (fun p => !got.contains p.1) then some .missed else
  none

def monStep (m : MState) (l : Label) (got : List Nat) : MState × Option Clause :=
  (monNext m l, monCheck m l got)

end Notify.Roots
