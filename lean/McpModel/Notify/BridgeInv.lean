import McpModel.Notify.System
import McpModel.Notify.Props
/-!
# Bridge, part 1: the simulation relation between the composed model and the typed monitor

`Rel seen y m`: the bookkeeping `m` of the monitor (Monitor.lean) after a list of records describes the
state `y` of the composed model (System.lean) that produced the observations of those records.  It is
a conjunction of component relations, each stated on the projections of the two states it depends on,
so that an op that leaves those projections alone preserves the component by `exact`.
-/
namespace Notify.Bridge
open Notify Notify.Mon Notify.Sys Generated.Notify

def genB (modern : Bool) : Gen := if modern then .modern else .legacy

def toM (l : Listen) : MListen := ⟨l.id, l.kinds, l.uris⟩

/-- the monitor's scalar copies of the server's configuration and contents -/
structure RelG (s : Server) (content : Nat → Nat) (m : MState) : Prop where
  cap : m.cap = s.cap
  ver : m.ver = s.ver
  cnt : m.cnt = s.cnt
  content : m.content = content

/-- sessions of the server ↔ used slots of the harness ↔ connected slots of the monitor -/
structure RelSess (sessions : List (Nat × Gen)) (slots : Slot → DSlot) (ms : Slot → MSlot) : Prop where
  used_sess : ∀ i, (slots i).used = true → ((slots i).sid, genB (slots i).modern) ∈ sessions
  sess_used : ∀ p ∈ sessions, ∃ i, (slots i).used = true ∧ (slots i).sid = p.1
  sid_inj : ∀ i j, (slots i).used = true → (slots j).used = true → (slots i).sid = (slots j).sid → i = j
  conn : ∀ i, (ms i).connected = (slots i).used
  modern : ∀ i, (slots i).used = true → (ms i).modern = (slots i).modern
  gated : ∀ i, (slots i).used = true → (slots i).connected = !(slots i).gated
  gated_modern : ∀ i, (slots i).used = true → (slots i).gated = true → (slots i).modern = true

/-- a slot that is not in use has the monitor's initial bookkeeping, as far as the checks read it -/
structure SlotIdle (d : MSlot) : Prop where
  listens : d.listens = []
  luris : d.luris = []
  owed : d.owed = []

/-- live listens and legacy subscriptions -/
structure RelListen (s : Server) (slots : Slot → DSlot) (ms : Slot → MSlot) : Prop where
  all_acked : ∀ l ∈ s.listens, (l.sid, l.id) ∈ s.acked ∧ ¬(l.kinds = [] ∧ l.uris = [])
  listens : ∀ i, (slots i).used = true → ∀ ml, ml ∈ (ms i).listens ↔
    ∃ l ∈ s.listens, l.sid = (slots i).sid ∧ ml = toM l
  luris : ∀ i, (slots i).used = true → (slots i).modern = false → ∀ u, u ∈ (ms i).luris ↔ ((slots i).sid, u) ∈ s.rlive
  sub_live : ∀ i, (slots i).used = true → ∀ u, (∃ l ∈ s.listens, l.sid = (slots i).sid ∧ l.id = ridOf u) →
    u ∈ (slots i).rsubs ∨ ridOf u ∈ (slots i).cancelHeld
  gated_none : ∀ i, (slots i).used = true → (slots i).gated = true → ∀ l ∈ s.listens, l.sid ≠ (slots i).sid
  idle : ∀ i, (slots i).used = false → SlotIdle (ms i)

/-- debts: what the monitor still expects to be announced is backed by the model's ghost, or by a write
of a fan-out in progress -/
def RelOwed (owed : List (Nat × Kind)) (infl : Kind → List Send) (slots : Slot → DSlot) (ms : Slot → MSlot) : Prop :=
  ∀ i k, k ∈ (ms i).owed → (slots i).used = true ∧
    (((slots i).sid, k) ∈ owed ∨ ∃ x ∈ infl k, x.sid = (slots i).sid)

/-- a held fan-out: every outstanding write goes to a slot the monitor expects, under a stamp it expects -/
structure FanOk (infl : List Send) (slots : Slot → DSlot) (fan : MFan) : Prop where
  nodup : (infl.map Send.sid).Nodup
  exp : ∀ x ∈ infl, ∀ i, (slots i).used = true → (slots i).sid = x.sid →
    (∃ stamps, fan.expect.find? (·.1 == i) = some (i, stamps) ∧ stampOf x.stamp ∈ stamps) ∧
    i ∉ fan.served ∧ ((slots i).modern = false → x.stamp = none)

structure RelFan (infl : Kind → List Send) (slots : Slot → DSlot) (fans : Kind → Option MFan) : Prop where
  some_of : ∀ k, infl k ≠ [] → ∃ fan, fans k = some fan
  ok : ∀ k fan, fans k = some fan → FanOk (infl k) slots fan

/-- the client caches of one used slot against the monitor's bookkeeping of handled notifications -/
structure CacheRel (cur : Key → Nat) (d : DSlot) (md : MSlot) : Prop where
  inv : d.modern = true → ∀ o, Cache.Inv (d.caches o)
  srv : d.modern = true → ∀ key : Key, (d.caches key.obj).srv key.idx = cur key
  handled : d.modern = true → ∀ key : Key, (d.caches key.obj).handled key.idx = md.maxHandled key
  inval : d.modern = true → ∀ key : Key, md.invalidated key = true → (d.caches key.obj).entries.lookup key.idx = none
  inbox : d.modern = true → ∀ o, (d.caches o).inbox = []
  held_fill : ∀ key : Key, key ∈ d.held ↔ ∃ f ∈ (d.caches key.obj).fills, f.key = key.idx
  fill_uniq : ∀ o, ((d.caches o).fills.map (·.key)).Nodup
  starts : d.modern = true → ∀ key : Key, ∀ f ∈ (d.caches key.obj).fills, f.key = key.idx → f.startMax = md.starts key
  maxH_le : ∀ key : Key, md.maxHandled key ≤ cur key
  leg_fill : d.modern = false → ∀ key : Key, ∀ f ∈ (d.caches key.obj).fills, f.key = key.idx →
    md.starts key ≤ cur key ∧ ∀ v ttl, f.stage = .responded v ttl → md.starts key ≤ v

def RelCache (cur : Key → Nat) (slots : Slot → DSlot) (ms : Slot → MSlot) : Prop :=
  ∀ i, (slots i).used = true → CacheRel cur (slots i) (ms i)

/-- session ids are never reused -/
structure RelSeen (seen : List Nat) (s : Server) : Prop where
  sess : ∀ p ∈ s.sessions, p.1 ∈ seen
  infl : ∀ k, ∀ x ∈ (s.ks k).inflight, x.sid ∈ seen

structure Rel (seen : List Nat) (y : State) (m : MState) : Prop where
  reach : ∃ cap, Reach cap y.srv
  g : RelG y.srv y.content m
  sess : RelSess y.srv.sessions y.slots m.slots
  lis : RelListen y.srv y.slots m.slots
  owed : RelOwed y.srv.owed (fun k => (y.srv.ks k).inflight) y.slots m.slots
  fan : RelFan (fun k => (y.srv.ks k).inflight) y.slots m.fans
  cache : RelCache (curVersion y) y.slots m.slots
  seen : RelSeen seen y.srv
  /-- a fan-out is in progress only for a kind whose capability is not switched off -/
  gate : ∀ k, (y.srv.ks k).inflight ≠ [] → gateSend y.srv k = true

/-! ### the run -/

/-- no armed timer, no started callback, no fan-out in progress: the harness's drain before `end` -/
def quietB (s : Server) : Bool :=
  Kind.all.all (fun k =>
    (match (s.ks k).tracked with | some (some _) => false | _ => true) &&
    (s.ks k).orphans.isEmpty && (s.ks k).pending == 0 && (s.ks k).inflight.isEmpty)

/-- the environment hypotheses of one op: a connect uses a session id never used before in the case;
`end` comes when the model is quiet -/
def okOp (seen : List Nat) (y : State) : Op → Prop
  | .connect _ sid _ _ => sid ∉ seen
  | .fin => quietB y.srv = true
  | _ => True

instance (seen : List Nat) (y : State) (op : Op) : Decidable (okOp seen y op) := by
  cases op <;> simp only [okOp] <;> infer_instance

def seenAfter (seen : List Nat) : Op → List Nat
  | .connect _ sid _ _ => sid :: seen
  | _ => seen

/-- the hypotheses along a run of the model -/
def okRun (seen : List Nat) (y : State) : List (Op × Option Who) → Prop
  | [] => True
  | (op, h) :: rest => okOp seen y op ∧ okRun (seenAfter seen op) (sysStep y op h).1 rest

/-- the records of a run of the composed model: each op with the observation the model predicts -/
def modelTrace (y : State) : List (Op × Option Who) → List Rec
  | [] => []
  | (op, h) :: rest => ⟨op, (sysStep y op h).2⟩ :: modelTrace (sysStep y op h).1 rest

/-! ### small facts -/

@[simp] theorem setSlot_slots_same (y : State) (i : Slot) (d : DSlot) : (y.setSlot i d).slots i = d := by
  simp [State.setSlot]

theorem setSlot_slots (y : State) (i j : Slot) (d : DSlot) :
    (y.setSlot i d).slots j = if j = i then d else y.slots j := rfl

@[simp] theorem setSlot_srv (y : State) (i : Slot) (d : DSlot) : (y.setSlot i d).srv = y.srv := rfl
@[simp] theorem setSlot_content (y : State) (i : Slot) (d : DSlot) : (y.setSlot i d).content = y.content := rfl

theorem msetSlot_slots (m : MState) (i j : Slot) (d : MSlot) :
    (m.setSlot i d).slots j = if j = i then d else m.slots j := rfl

@[simp] theorem msetSlot_fans (m : MState) (i : Slot) (d : MSlot) : (m.setSlot i d).fans = m.fans := rfl
@[simp] theorem msetSlot_cap (m : MState) (i : Slot) (d : MSlot) : (m.setSlot i d).cap = m.cap := rfl
@[simp] theorem msetSlot_ver (m : MState) (i : Slot) (d : MSlot) : (m.setSlot i d).ver = m.ver := rfl
@[simp] theorem msetSlot_cnt (m : MState) (i : Slot) (d : MSlot) : (m.setSlot i d).cnt = m.cnt := rfl
@[simp] theorem msetSlot_content (m : MState) (i : Slot) (d : MSlot) : (m.setSlot i d).content = m.content := rfl

theorem RelG.frame {s s' : Server} {c : Nat → Nat} {m m' : MState} (h : RelG s c m)
    (h1 : s'.cap = s.cap) (h2 : s'.ver = s.ver) (h3 : s'.cnt = s.cnt)
    (g1 : m'.cap = m.cap) (g2 : m'.ver = m.ver) (g3 : m'.cnt = m.cnt) (g4 : m'.content = m.content) : RelG s' c m' :=
  ⟨by rw [g1, h1, h.cap], by rw [g2, h2, h.ver], by rw [g3, h3, h.cnt], by rw [g4, h.content]⟩

/-- the slot of a session id -/
theorem slotOfSid_some {y : State} {ms : Slot → MSlot} (h : RelSess y.srv.sessions y.slots ms) {sid : Nat} {i : Slot}
    (hu : (y.slots i).used = true) (hs : (y.slots i).sid = sid) : slotOfSid y sid = some i := by
  have key : ∀ j : Slot, ((y.slots j).used && (y.slots j).sid == sid) = true → j = i := by
    intro j hj
    simp at hj
    exact h.sid_inj j i hj.1 hu (by rw [hj.2, hs])
  have hi : ((y.slots i).used && (y.slots i).sid == sid) = true := by simp [hu, hs]
  unfold slotOfSid
  have : ∃ j, Slot.all.find? (fun i => (y.slots i).used && (y.slots i).sid == sid) = some j := by
    cases hf : Slot.all.find? (fun i => (y.slots i).used && (y.slots i).sid == sid) with
    | some j => exact ⟨j, rfl⟩
    | none =>
      rw [List.find?_eq_none] at hf
      exact absurd hi (by simpa using hf i (Slot.mem_all i))
  obtain ⟨j, hj⟩ := this
  rw [hj]
  have := List.find?_some hj
  rw [key j this]

theorem slotOfSid_none {y : State} {sid : Nat} (h : ∀ i, (y.slots i).used = true → (y.slots i).sid ≠ sid) :
    slotOfSid y sid = none := by
  unfold slotOfSid
  rw [List.find?_eq_none]
  intro i _
  simp
  intro hu
  exact h i hu

theorem slotOfSid_spec {y : State} {sid : Nat} {i : Slot} (h : slotOfSid y sid = some i) :
    (y.slots i).used = true ∧ (y.slots i).sid = sid := by
  have := List.find?_some h
  simpa using this

end Notify.Bridge
