import McpModel.Notify.BridgeDeliver
/-!
# Bridge, part 7e: `cbrun` (a complete fan-out)
-/
namespace Notify.Bridge
open Notify Notify.Mon Notify.Sys Generated.Notify
variable {seen : List Nat} {y : State} {m : MState}

theorem first_eq_none (l : List (Option Clause)) : first l = none ↔ ∀ c ∈ l, c = none := by
  simp only [first]
  rw [List.findSome?_eq_none_iff]
  constructor
  · intro h c hc; exact h c hc
  · intro h c hc; exact h c hc

theorem sameBut_changed (d : DSlot) (k : Kind) : SameButCaches d (clientHandleChanged d k) := by
  rw [clientHandleChanged_eq]; split
  · exact ⟨rfl, rfl, rfl, rfl, rfl, rfl, rfl, rfl, rfl, rfl⟩
  · exact (foldl_setCache (hstep none) (clientInvalidates k) (clientInvalidates_nodup k) d).1

theorem mkChanged_who (k : Kind) (i : Slot) (d : DSlot) (x : Send) : (mkChanged k (.slot i) d x).who = .slot i := rfl

/-- the deliveries of a list-changed fan-out to members of the snapshot raise no clause -/
theorem cb_delivery_ok (h : Rel seen y m) (k : Kind) (hg : gateSend y.srv k = true) (sd : SDelivery) (x : Send)
    (hx : x ∈ sendList y.srv k) (hu : (y.slots sd.slot).used = true) (hs : (y.slots sd.slot).sid = x.sid)
    (h1 : sd.meth = .changed k) (h2 : sd.stamp = stampOf x.stamp) (h3 : sd.hk = .none ∨ sd.hk = .kind k) :
    cbDeliveryClause m k sd = none := by
  obtain ⟨s1, s2, s3⟩ := sendList_stamp h sd.slot hu k x hx hs
  have hcap : (m.cap k == .off) = false := by
    rw [h.g.cap]
    rw [gateSend_cap] at hg
    simpa using hg
  have hconn : (m.slots sd.slot).connected = true := by rw [h.sess.conn]; exact hu
  have hmod := h.sess.modern sd.slot hu
  simp only [cbDeliveryClause, h1, hcap, hconn]
  cases hm : (y.slots sd.slot).modern with
  | false =>
    rw [hm] at hmod
    have : sd.stamp = .plain := by rw [h2, s1 hm]; rfl
    rcases h3 with h3 | h3 <;> simp [hmod, this, h3]
  | true =>
    rw [hm] at hmod
    obtain ⟨ml, hml, e1, e2⟩ := s3 hm
    have hgk : (m.slots sd.slot).grantedK k = true := by
      simp only [MSlot.grantedK, List.any_eq_true]
      exact ⟨ml, hml, by simpa using e2⟩
    have hany : (m.slots sd.slot).listens.any (fun l => Stamp.id l.id == sd.stamp && l.kinds.contains k) = true := by
      rw [List.any_eq_true]
      exact ⟨ml, hml, by rw [h2, ← e1]; simpa using e2⟩
    rcases h3 with h3 | h3 <;> simp [hmod, hgk, h3] <;> exact ⟨ml, hml, by rw [h2, e1], e2⟩

theorem step_cbrun (h : Rel seen y m) (k : Kind) (hint : Option Who) : StepOk seen y m (.cbrun k) hint := by
  unfold StepOk
  simp only [sysStep]
  by_cases hp : (y.srv.ks k).pending = 0
  · rw [cbrun_none _ _ hp]
    exact ⟨rfl, h⟩
  · obtain ⟨c0, c1, c2, c3, c4, c5, c6, c7, c8, c9⟩ := cbrun_spec y.srv k hp
    rw [c0]
    simp only []
    have hS := h.srvOk.invS
    have hN := h.srvOk.invN
    have hT := h.srvOk.invT
    have hgate := gate_of_pending hT k hp
    obtain ⟨sl1, sl2, sl3⟩ := sendList_spec hS hN k
    -- the writes of the new snapshot
    have df := deliverFrom_spec k (y.srv.ks k).inflight (sendList y.srv k) (cbrun y.srv k).1 []
      (by rw [c5 k, if_pos rfl]) (by intro x hx; rw [c9]; exact sendList_sess hS hN k x hx)
    obtain ⟨r, hr⟩ : ∃ r, r = deliverFrom (cbrun y.srv k).1 k (y.srv.ks k).inflight.length (sendList y.srv k).length [] := ⟨_, rfl⟩
    rw [← hr] at df ⊢
    obtain ⟨d1, d2, d3, d4⟩ := df
    simp only [List.nil_append] at d1
    rw [d1]
    have hinfl : ∀ k', (r.1.ks k').inflight = (y.srv.ks k').inflight := by
      intro k'
      by_cases e : k' = k
      · subst e; exact d2
      · rw [d3 k' e, c5 k', if_neg e]
    have hok : SrvOk r.1 := by
      rw [hr]; exact srvOk_deliverFrom k _ _ _ _ (srvOk_cbrun h.srvOk k)
    -- the clients
    have hslot : ∀ x ∈ sendList y.srv k, ∃ i, (y.slots i).used = true ∧ (y.slots i).sid = x.sid := by
      intro x hx
      obtain ⟨p, hp', e⟩ := List.mem_map.1 (sendList_sess hS hN k x hx)
      obtain ⟨i, hu, hs⟩ := h.sess.sess_used p hp'
      exact ⟨i, hu, by rw [hs, e]⟩
    obtain ⟨f1, f2, f3, ds', f4, f5, f6, f7⟩ := fanout_spec (clientHandleChanged · k) (mkChanged k) (keepsId_changed k)
      (mkChanged_who k) ({ y with srv := r.1 } : State) (sendList y.srv k) h.sess.sid_inj hslot sl1
    simp only [deliverChanged]
    obtain ⟨yy, hyy⟩ : ∃ yy, yy = deliverAll (fun x => clientHandleChanged x k) (mkChanged k) ({ y with srv := r.1 } : State) (sendList y.srv k) := ⟨_, rfl⟩
    rw [← hyy] at f1 f2 f3 f4 ⊢
    have f3' : ∀ i, yy.1.slots i = if (y.slots i).used = true ∧ (y.slots i).sid ∈ (sendList y.srv k).map Send.sid
        then clientHandleChanged (y.slots i) k else y.slots i := f3
    have f1' : yy.1.srv = r.1 := f1
    have f2' : yy.1.content = y.content := f2
    have hslotsB : ∀ i, SameButCaches (y.slots i) (yy.1.slots i) := by
      intro i; rw [f3']; split
      · exact sameBut_changed _ _
      · exact ⟨rfl, rfl, rfl, rfl, rfl, rfl, rfl, rfl, rfl, rfl⟩
    have hgot : ∀ i, (y.slots i).used = true → entitledNow (m.slots i) k = true → ds'.any (·.slot == i) = true := by
      intro i hu he
      exact (f6 i).2 ⟨hu, (sl3 _).2 ((entitledNow_iff h i hu k).1 he)⟩
    refine ⟨?_, ?_⟩
    · -- no clause
      show monCheck m ⟨.cbrun k, .sent y.srv.now yy.2⟩ = none
      simp only [monCheck, f4, cbCheck]
      rw [first_eq_none]
      intro c hc
      rcases List.mem_append.1 hc with hc | hc
      · obtain ⟨sd, hsd, rfl⟩ := List.mem_map.1 hc
        obtain ⟨x, hx, hu, hs, e1, e2, e3⟩ := f5 sd hsd
        refine cb_delivery_ok h k hgate sd x hx hu hs e1 e2 ?_
        rw [e3]; simp only [mkChanged]; split
        · exact Or.inr rfl
        · exact Or.inl rfl
      · simp only [List.mem_singleton] at hc
        rw [hc]
        have : Slot.all.any (fun i => decide ((ds'.filter (·.slot == i)).length > 1)) = false := by
          rw [List.any_eq_false]
          intro i _
          have := f7 i
          simp only [decide_eq_true_eq]
          omega
        simp only [this, Bool.false_eq_true, if_false]
    · -- the relation
      show Rel seen yy.1 (monNext m ⟨.cbrun k, .sent y.srv.now yy.2⟩)
      have hnext : monNext m ⟨.cbrun k, .sent y.srv.now yy.2⟩ = cbNext m k ds' := by
        simp only [monNext, f4]
      rw [hnext]
      -- the slots of the monitor
      have hms : ∀ i, ((cbNext m k ds').slots i = gotChanged m k (m.slots i) ∧ ds'.any (·.slot == i) = true) ∨
          ((cbNext m k ds').slots i = { (m.slots i) with owed := (m.slots i).owed.filter (· != k) } ∧ ds'.any (·.slot == i) = false) ∨
          ((cbNext m k ds').slots i = skippedBy k (m.slots i) ∧ ds'.any (·.slot == i) = false ∧
            (m.slots i).owed.contains k = true ∧ entitledNow (m.slots i) k = true) := by
        intro i
        simp only [cbNext]
        by_cases hg' : ds'.any (·.slot == i) = true
        · left; simp [hg']
        · have hg'' : ds'.any (·.slot == i) = false := by simpa using hg'
          right
          by_cases ho : ((m.slots i).owed.contains k && entitledNow (m.slots i) k) = true
          · right
            simp only [hg'', Bool.false_eq_true, if_false, ho, if_true, true_and]
            simpa using ho
          · left
            simp only [hg'', Bool.false_eq_true, if_false, ho, and_self]
      have hmfr : ∀ i, ((cbNext m k ds').slots i).connected = (m.slots i).connected ∧
          ((cbNext m k ds').slots i).modern = (m.slots i).modern ∧
          ((cbNext m k ds').slots i).listens = (m.slots i).listens ∧
          ((cbNext m k ds').slots i).luris = (m.slots i).luris ∧
          ((cbNext m k ds').slots i).starts = (m.slots i).starts := by
        intro i
        rcases hms i with ⟨e, _⟩ | ⟨e, _⟩ | ⟨e, _⟩ <;> rw [e] <;> exact ⟨rfl, rfl, rfl, rfl, rfl⟩
      refine h.fan_frame (y' := yy.1) (m' := cbNext m k ds') (by rw [f1']; exact hok) ?_ f2'
        (fun j => (hslotsB j).1) (fun j => (hslotsB j).2.1) (fun j => (hslotsB j).2.2.1) (fun j => (hslotsB j).2.2.2.2.1)
        (fun j => (hslotsB j).2.2.2.2.2.1) (fun j => (hslotsB j).2.2.2.2.2.2.1) (fun j => (hslotsB j).2.2.2.2.2.2.2.1)
        ?_ (fun j => (hmfr j).1) (fun j => (hmfr j).2.1) (fun j => (hmfr j).2.2.1) (fun j => (hmfr j).2.2.2.1) ?_
        rfl rfl rfl rfl ?_ ?_ ?_ ?_
      · rw [f1']
        exact ⟨by show r.1.cap = _; rw [d4.cap, c6], by show r.1.ver = _; rw [d4.ver, c7], by show r.1.cnt = _; rw [d4.cnt, c8],
          by show r.1.sessions = _; rw [d4.sessions, c9], rfl, by show r.1.listens = _; rw [d4.listens, c1],
          by show r.1.acked = _; rw [d4.acked, c2], by show r.1.rlive = _; rw [d4.rlive, c3]⟩
      · -- caches
        intro j hj hc
        rw [f3']
        rcases hms j with ⟨e, hg'⟩ | ⟨e, hg'⟩ | ⟨e, hg', _⟩
        · rw [e]
          have := (f6 j).1 hg'
          rw [if_pos this]
          exact cacheRel_changed hc m k (verOfKey_cur h)
        · rw [e]
          have : ¬ ((y.slots j).used = true ∧ (y.slots j).sid ∈ (sendList y.srv k).map Send.sid) := by
            intro hx; rw [(f6 j).2 hx] at hg'; exact absurd hg' (by simp)
          rw [if_neg this]
          exact hc.congr rfl rfl rfl rfl rfl rfl
        · rw [e]
          have : ¬ ((y.slots j).used = true ∧ (y.slots j).sid ∈ (sendList y.srv k).map Send.sid) := by
            intro hx; rw [(f6 j).2 hx] at hg'; exact absurd hg' (by simp)
          rw [if_neg this]
          exact hc.congr rfl rfl rfl rfl rfl rfl
      · intro j hj
        rcases hms j with ⟨e, _⟩ | ⟨e, _⟩ | ⟨e, _⟩ <;> rw [e]
        · rw [(gotChanged_frame m k _).2.2.2.2.2.1, hj]; rfl
        · simp [hj]
        · exact hj
      · -- debts
        rw [f1']
        have ho : r.1.owed = y.srv.owed.filter (fun p => p.2 != k) := by rw [d4.owed, c4]
        rw [ho]
        have : (fun k' => (r.1.ks k').inflight) = fun k' => (y.srv.ks k').inflight := funext hinfl
        rw [this]
        intro i k0 hk0
        rw [(hslotsB i).1, (hslotsB i).2.1]
        have hold : k0 ∈ (m.slots i).owed → k0 ≠ k → (y.slots i).used = true ∧
            (((y.slots i).sid, k0) ∈ y.srv.owed.filter (fun p => p.2 != k) ∨ ∃ x ∈ (y.srv.ks k0).inflight, x.sid = (y.slots i).sid) := by
          intro hk hne
          obtain ⟨hu, hor⟩ := h.owed i k0 hk
          refine ⟨hu, ?_⟩
          rcases hor with ho | ho
          · left; exact List.mem_filter.2 ⟨ho, by simpa using hne⟩
          · exact Or.inr ho
        rcases hms i with ⟨e, _⟩ | ⟨e, _⟩ | ⟨e, hg', ho', he'⟩
        · rw [e, (gotChanged_frame m k _).2.2.2.2.2.1] at hk0
          have := List.mem_filter.1 hk0
          exact hold this.1 (by simpa using this.2)
        · rw [e] at hk0
          have := List.mem_filter.1 hk0
          exact hold this.1 (by simpa using this.2)
        · exfalso
          have hu : (y.slots i).used = true := by
            have := he'
            simp only [entitledNow, Bool.and_eq_true] at this
            rw [← h.sess.conn i]; exact this.1
          rw [hgot i hu he'] at hg'
          exact absurd hg' (by simp)
      · -- fans
        rw [f1']
        have : (fun k' => (r.1.ks k').inflight) = fun k' => (y.srv.ks k').inflight := funext hinfl
        rw [this]
        exact h.fan.congr (fun j => (hslotsB j).1) (fun j => (hslotsB j).2.1) (fun j => (hslotsB j).2.2.1)
      · intro k' x hx
        rw [f1', hinfl] at hx
        exact h.seen.infl k' x hx
      · intro k' hk'
        rw [f1', hinfl] at hk'
        have := h.gate k' hk'
        rw [f1']
        simp only [gateSend] at this ⊢
        rw [d4.cap, c6]
        exact this
end Notify.Bridge
