import McpModel.Notify.SoundTruth
/-!
# Clause soundness of the C18 monitor, part 2: the monitor's state is history

`monAfter_truth`: after any list of records the monitor's copies of the configuration, the versions, the
connected slots, their live listens, legacy subscriptions, acknowledgement windows and `cs.resourceSubs`
are the ground truth of the trace.
-/
namespace Notify.Sound
open Notify Notify.Mon Generated.Notify

/-- the ground-truth part of the monitor's slot -/
def proj (d : MSlot) : TSlot := ⟨d.connected, d.modern, d.listens, d.luris, d.window, d.csubs⟩

theorem agrees_iff (m : MState) (t : Truth) :
    Agrees m t ↔ (m.cap = t.cap ∧ m.ver = t.ver ∧ m.cnt = t.cnt ∧ m.content = t.content ∧ ∀ i, proj (m.slots i) = t.slots i) := by
  constructor
  · intro h
    refine ⟨h.cap, h.ver, h.cnt, h.content, fun i => ?_⟩
    cases hd : t.slots i
    have h1 := h.connected i; have h2 := h.modern i; have h3 := h.listens i
    have h4 := h.luris i; have h5 := h.window i; have h6 := h.csubs i
    rw [hd] at h1 h2 h3 h4 h5 h6
    simp only [proj, h1, h2, h3, h4, h5, h6]
  · rintro ⟨a, b, c, d, e⟩
    exact ⟨a, b, c, d, fun i => by rw [← e i]; rfl, fun i => by rw [← e i]; rfl, fun i => by rw [← e i]; rfl,
      fun i => by rw [← e i]; rfl, fun i => by rw [← e i]; rfl, fun i => by rw [← e i]; rfl⟩

theorem proj_handled (d : MSlot) (m : MState) (keys : List Key) : proj (d.handled m keys) = proj d := rfl
theorem proj_gotChanged (m : MState) (k : Kind) (d : MSlot) : proj (gotChanged m k d) = proj d := rfl
theorem proj_skippedBy (k : Kind) (d : MSlot) : proj (skippedBy k d) = proj d := rfl
theorem proj_changeSlot (k : Kind) (b mx : Bool) (d : MSlot) : proj (changeSlot k b mx d) = proj d := by
  simp only [changeSlot]
  generalize (if mx = true then addNew d.rmMixed k else d.rmMixed.filter (· != k)) = rm
  split <;> split <;> rfl
theorem proj_present (d : MSlot) (w : What) : proj (d.present w) = proj d := rfl
theorem proj_fetched (d : MSlot) (key : Key) : proj (d.fetched key) = proj d := rfl
theorem proj_started (d : MSlot) (key : Key) : proj (d.started key) = proj d := rfl
theorem proj_filled (d : MSlot) (key : Key) (v : Nat) : proj (d.filled key v) = proj d := rfl

theorem proj_endListen (d : MSlot) (x : Nat) : proj (d.endListen x) = (proj d).end_ x := by
  simp only [MSlot.endListen]
  split
  · rename_i hn
    rw [List.find?_eq_none] at hn
    simp only [proj, TSlot.end_]
    congr 1
    symm; rw [List.filter_eq_self]
    intro l hl; simpa using hn l hl
  · rfl

theorem proj_addListen (d : MSlot) (id : Nat) (ks : List Kind) (us : List Nat) (p : Bool) :
    proj (withWindow (d.addListen id ks us) p id) = (proj d).add id ks us p := by
  simp only [MSlot.addListen, withWindow, TSlot.add, proj]
  split <;> rfl

theorem proj_cbNext (m : MState) (k : Kind) (ds : List SDelivery) (i : Slot) :
    proj ((cbNext m k ds).slots i) = proj (m.slots i) := by
  simp only [cbNext]
  split
  · rfl
  · split <;> rfl

theorem proj_cbStepNext (m : MState) (k : Kind) (done : Bool) (i : Slot) :
    proj ((cbStepNext m k done).slots i) = proj (m.slots i) := by
  cases done
  · simp only [cbStepNext, Bool.false_eq_true, if_false]; split <;> rfl
  · simp only [cbStepNext, if_true]
    split
    · split <;> rfl
    · split <;> rfl

theorem proj_fsNext (m : MState) (k : Kind) (fan : MFan) (ds : List SDelivery) (done : Bool) (i : Slot) :
    proj ((fsNext m k fan ds done).slots i) = proj (m.slots i) := by
  cases done
  · simp only [fsNext, Bool.false_eq_true, if_false]; split <;> rfl
  · simp only [fsNext, if_true]
    split
    · split <;> rfl
    · split <;> rfl

theorem proj_ruNext (m : MState) (v : Nat) (ds : List SDelivery) (i : Slot) :
    proj ((ruNext m v ds).slots i) = proj (m.slots i) := by
  simp only [ruNext]
  split
  · split <;> rfl
  · rfl

theorem proj_foldl {α} (f : MSlot → α → MSlot) (hf : ∀ d a, proj (f d a) = proj d) (l : List α) (d : MSlot) :
    proj (l.foldl f d) = proj d := by
  induction l generalizing d with
  | nil => rfl
  | cons a t ih => simp only [List.foldl_cons]; rw [ih, hf]

theorem proj_tbNext (m : MState) (tb : Tables) (i : Slot) : proj ((tbNext m tb).slots i) = proj (m.slots i) := by
  simp only [tbNext]
  split
  · rfl
  · rw [proj_foldl, proj_foldl]
    · intro d k; split <;> rfl
    · intro d u; split <;> rfl


theorem Agrees.frame {m m' : MState} {t : Truth} (h : Agrees m t) (c1 : m'.cap = m.cap) (c2 : m'.ver = m.ver)
    (c3 : m'.cnt = m.cnt) (c4 : m'.content = m.content) (hp : ∀ i, proj (m'.slots i) = proj (m.slots i)) : Agrees m' t := by
  rw [agrees_iff] at h ⊢
  obtain ⟨a, b, c, d, e⟩ := h
  exact ⟨c1.trans a, c2.trans b, c3.trans c, c4.trans d, fun i => (hp i).trans (e i)⟩

/-- both sides change slot `c` only -/
theorem Agrees.slot {m : MState} {t : Truth} (h : Agrees m t) (c : Slot) (md : MSlot) (td : TSlot) (hd : proj md = td) :
    Agrees (m.setSlot c md) (t.setSlot c td) := by
  rw [agrees_iff] at h ⊢
  obtain ⟨a, b, cc, d, e⟩ := h
  refine ⟨a, b, cc, d, fun i => ?_⟩
  simp only [MState.setSlot, Truth.setSlot]
  split
  · exact hd
  · exact e i

theorem Agrees.proj_eq {m : MState} {t : Truth} (h : Agrees m t) (i : Slot) : proj (m.slots i) = t.slots i :=
  ((agrees_iff m t).1 h).2.2.2.2 i

theorem agrees_step {m : MState} {t : Truth} (h : Agrees m t) (r : Rec) : Agrees (monNext m r) (truthStep t r) := by
  obtain ⟨op, obs⟩ := r
  cases op with
  | config ca cb cc hk =>
    exact ⟨rfl, rfl, rfl, rfl, fun _ => rfl, fun _ => rfl, fun _ => rfl, fun _ => rfl, fun _ => rfl, fun _ => rfl⟩
  | ttl n => cases obs <;> exact h
  | advance d => cases obs <;> exact h
  | bad => cases obs <;> exact h
  | fin => cases obs <;> exact h
  | send c key => cases obs <;> exact h
  | policy u rf =>
    have : truthStep t ⟨.policy u rf, obs⟩ = t := by cases obs <;> rfl
    rw [this]
    cases obs <;> exact h.frame rfl rfl rfl rfl (fun _ => rfl)
  | change f e =>
    cases obs <;> try exact h
    show Agrees (monChange m f e) _
    simp only [truthStep, monChange]
    rw [← h.cnt, ← h.ver]
    split
    · exact h
    · split
      · exact ⟨h.cap, rfl, rfl, h.content, h.connected, h.modern, h.listens, h.luris, h.window, h.csubs⟩
      · rw [agrees_iff]
        refine ⟨h.cap, rfl, rfl, h.content, fun i => ?_⟩
        show proj (changeSlot _ _ _ (m.slots i)) = _
        rw [proj_changeSlot]; exact h.proj_eq i
  | cbrun k =>
    have ht : truthStep t ⟨.cbrun k, obs⟩ = t := by cases obs <;> rfl
    rw [ht]
    cases obs <;> try exact h
    simp only [monNext]
    split
    · exact h.frame rfl rfl rfl rfl (fun i => proj_cbNext _ _ _ i)
    · exact h
  | cbstep k =>
    have ht : truthStep t ⟨.cbstep k, obs⟩ = t := by cases obs <;> rfl
    rw [ht]
    cases obs <;> try exact h
    rename_i done
    show Agrees (cbStepNext m k done) t
    refine h.frame ?_ ?_ ?_ ?_ (fun i => proj_cbStepNext _ _ _ i) <;> (cases done <;> rfl)
  | fsend k =>
    have ht : truthStep t ⟨.fsend k, obs⟩ = t := by cases obs <;> rfl
    rw [ht]
    cases obs <;> try exact h
    rename_i addr tt ds done
    simp only [monNext]
    split
    · rename_i fan ds' _ _
      refine h.frame ?_ ?_ ?_ ?_ (fun i => proj_fsNext _ _ _ _ _ i) <;> (cases done <;> rfl)
    · exact h
  | tables =>
    have ht : truthStep t ⟨.tables, obs⟩ = t := by cases obs <;> rfl
    rw [ht]
    cases obs <;> try exact h
    exact h.frame rfl rfl rfl rfl (fun i => proj_tbNext _ _ i)
  | list c key mode =>
    have ht : truthStep t ⟨.list c key mode, obs⟩ = t := by cases obs <;> rfl
    rw [ht]
    cases obs <;> try exact h
    · -- pre
      simp only [monNext]
      split
      · refine h.frame rfl rfl rfl rfl (fun i => ?_)
        simp only [MState.setSlot]; split
        · rename_i e; rw [e]; rfl
        · rfl
      · exact h
    · -- ret
      rename_i v hit
      simp only [monNext]
      split
      · exact h
      · refine h.frame rfl rfl rfl rfl (fun i => ?_)
        simp only [MState.setSlot]; split
        · rename_i e; rw [e]; rfl
        · rfl
    · -- held
      simp only [monNext]
      split
      · refine h.frame rfl rfl rfl rfl (fun i => ?_)
        simp only [MState.setSlot]; split
        · rename_i e; rw [e]; rfl
        · rfl
      · exact h
  | fill c key =>
    have ht : truthStep t ⟨.fill c key, obs⟩ = t := by cases obs <;> rfl
    rw [ht]
    cases obs <;> try exact h
    refine h.frame rfl rfl rfl rfl (fun i => ?_)
    simp only [monNext, MState.setSlot]; split
    · rename_i e; rw [e]; rfl
    · rfl
  | connect c sid modern mask =>
    simp only [monNext, truthStep]
    split
    · exact h.slot c _ _ rfl
    · exact h
  | close c =>
    cases obs <;> try exact h
    show Agrees { (m.setSlot c {}) with fans := _ } (t.setSlot c {})
    exact (h.slot c {} {} rfl).frame rfl rfl rfl rfl (fun _ => rfl)
  | listen c hold =>
    cases obs <;> try exact h
    rename_i ks us parked
    exact h.slot c _ _ (by rw [proj_addListen, h.proj_eq])
  | xlisten c id kinds uris hold =>
    cases obs <;> try exact h
    · -- noack
      simp only [monNext]
      split
      · have : truthStep t ⟨.xlisten c id kinds uris hold, .noack⟩ = t := rfl
        rw [this]
        refine h.frame rfl rfl rfl rfl (fun i => ?_)
        simp only [MState.setSlot]; split
        · rename_i e; rw [e]; rfl
        · rfl
      · exact h
    · rename_i ks us parked
      exact h.slot c _ _ (by rw [proj_addListen, h.proj_eq])
  | xend c id hold =>
    cases obs <;> try exact h
    exact h.slot c _ _ (by rw [proj_endListen, h.proj_eq])
  | canceldone c id =>
    cases obs <;> try exact h
    exact h.slot c _ _ (by rw [proj_endListen, h.proj_eq])
  | ackdone c id =>
    simp only [monNext, truthStep]
    split
    · refine h.slot c _ _ ?_
      have := h.proj_eq c
      simp only [proj] at this ⊢
      rw [← this]
    · exact h
  | rupdated u v =>
    have hc : (ruContent m v).content = (fun k => if k == v then t.content v + 1 else t.content k) := by
      simp only [ruContent, h.content]
    cases obs <;> try exact ⟨h.cap, h.ver, h.cnt, hc, h.connected, h.modern, h.listens, h.luris, h.window, h.csubs⟩
    rename_i tt ds
    simp only [monNext]
    have hbase : Agrees (ruContent m v) (truthStep t ⟨.rupdated u v, .sent tt ds⟩) :=
      ⟨h.cap, h.ver, h.cnt, hc, h.connected, h.modern, h.listens, h.luris, h.window, h.csubs⟩
    split
    · exact hbase.frame rfl rfl rfl rfl (fun i => proj_ruNext _ _ _ i)
    · exact hbase
  | subscribe c u hold =>
    have hmod := h.modern c
    cases hm : (m.slots c).modern
    · have ht : (t.slots c).modern = false := by rw [← hmod]; exact hm
      cases obs <;> simp only [monNext, truthStep, hm, ht, Bool.not_false, if_true] <;> try exact h
      rw [← h.luris c]
      split
      · refine h.slot c _ _ ?_
        have := h.proj_eq c
        simp only [proj] at this ⊢
        rw [← this]
      · exact h
    · have ht : (t.slots c).modern = true := by rw [← hmod]; exact hm
      cases obs <;> simp only [monNext, truthStep, hm, ht, Bool.not_true, Bool.false_eq_true, if_false] <;> try exact h
      · refine h.slot c _ _ ?_
        have := h.proj_eq c
        rw [← this]; rfl
      · rename_i ks us parked
        refine h.slot c _ _ ?_
        have := h.proj_eq c
        rw [← this]
        simp only [proj, withWindow, MSlot.addListen, TSlot.add]
        split <;> rfl
  | unsubscribe c u hold =>
    have hmod := h.modern c
    cases obs <;> try exact h
    · -- ok
      simp only [monNext, truthStep]
      rw [← hmod]
      split
      · refine h.slot c _ _ ?_
        have h1 := proj_endListen (m.slots c) (ridOf u)
        have h2 := h.proj_eq c
        rw [← h2]
        simp only [proj, TSlot.end_] at h1 ⊢
        injection h1 with a1 a2 a3 a4 a5 a6
        simp only [a1, a2, a3, a4, a5]
      · refine h.slot c _ _ ?_
        have := h.proj_eq c
        rw [← this]; rfl
    · -- ok cancel-held
      refine h.slot c _ _ ?_
      have := h.proj_eq c
      rw [← this]; rfl

theorem monAfter_snoc (m : MState) (tr : Trace) (r : Rec) : monAfter m (tr ++ [r]) = monNext (monAfter m tr) r := by
  simp [monAfter, List.foldl_append]

theorem truth_snoc (tr : Trace) (r : Rec) : truth (tr ++ [r]) = truthStep (truth tr) r := by
  simp [truth, List.foldl_append]

/-- **the monitor's state is history** -/
theorem monAfter_truth (tr : Trace) : Agrees (monAfter {} tr) (truth tr) := by
  have : ∀ (l : List Rec) (m : MState) (t : Truth), Agrees m t → Agrees (l.foldl monNext m) (l.foldl truthStep t) := by
    intro l
    induction l with
    | nil => intro m t h; exact h
    | cons r rest ih => intro m t h; exact ih _ _ (agrees_step h r)
  exact this tr {} {} agrees_init

theorem truthAt_snoc_len (tr : Trace) (r : Rec) : truthAt (tr ++ [r]) tr.length = truth tr := by
  simp [truthAt]

theorem get_snoc_len (tr : Trace) (r : Rec) : (tr ++ [r])[tr.length]? = some r := by simp

end Notify.Sound
