import McpModel.Notify.BridgeOps7
import McpModel.Notify.BridgeSubs
/-!
# Bridge, part 7a: the snapshot of a fan-out against the slots the monitor expects
-/
namespace Notify.Bridge
open Notify Notify.Mon Notify.Sys Generated.Notify
variable {seen : List Nat} {y : State} {m : MState}

/-- What the snapshot of `notifySessions(k)` holds in a state satisfying the invariant. -/
theorem SrvOk.invN {s : Server} (h : SrvOk s) : InvN s := by
  obtain ⟨cap, hr⟩ := h; exact reach_invN hr

theorem sendList_spec {s : Server} (hS : InvS s) (hN : InvN s) (k : Kind) :
    ((sendList s k).map Send.sid).Nodup ∧
    (∀ x ∈ sendList s k,
      (x.stamp = none ∧ ∃ g, (x.sid, g) ∈ s.sessions ∧ g ≠ Gen.modern) ∨
      (∃ id, x.stamp = some id ∧ (x.sid, Gen.modern) ∈ s.sessions ∧
        ∃ l ∈ s.listens, l.sid = x.sid ∧ l.id = id ∧ k ∈ l.kinds)) ∧
    (∀ sid, sid ∈ (sendList s k).map Send.sid ↔ entitled s sid k) := by
  have hmem : ∀ x ∈ sendList s k,
      (x.stamp = none ∧ ∃ g, (x.sid, g) ∈ s.sessions ∧ g ≠ Gen.modern) ∨
      (∃ id, x.stamp = some id ∧ (x.sid, Gen.modern) ∈ s.sessions ∧
        ∃ l ∈ s.listens, l.sid = x.sid ∧ l.id = id ∧ k ∈ l.kinds) := by
    intro x hx
    simp only [sendList, List.mem_append] at hx
    rcases hx with hx | hx
    · left
      obtain ⟨g, hg, hne, hst⟩ := mem_legacyRecips.1 hx
      exact ⟨hst, g, hg, hne⟩
    · right
      obtain ⟨id, hab, hst⟩ := mem_subRecips.1 hx
      obtain ⟨l0, hl0, h1, h2, h3⟩ := hS.subs_listen _ (x.sid, id) hab
      refine ⟨id, hst, ?_, l0, hl0, h1, h2, h3⟩
      have := hS.listen_modern l0 hl0
      rw [h1] at this; exact this
  refine ⟨?_, hmem, ?_⟩
  · simp only [sendList, List.map_append]
    rw [List.nodup_append]
    refine ⟨?_, ?_, ?_⟩
    · have : (legacyRecips s).map Send.sid = (s.sessions.filter (fun p => p.2 != .modern)).map Prod.fst := by
        simp only [legacyRecips, List.map_map]; rfl
      rw [this]
      exact (List.Sublist.map _ List.filter_sublist).nodup hS.sess_nodup
    · have : (subRecips s k).map Send.sid = ((s.ks k).subs).map Prod.fst := by
        simp only [subRecips, subsTable_diag, List.map_map]; rfl
      rw [this]
      exact hN k
    · intro a ha b hb
      rw [List.mem_map] at ha hb
      obtain ⟨x, hx, rfl⟩ := ha
      obtain ⟨z, hz, rfl⟩ := hb
      obtain ⟨g, hg, hne, _⟩ := mem_legacyRecips.1 hx
      obtain ⟨id, hab, _⟩ := mem_subRecips.1 hz
      obtain ⟨l0, hl0, h1, _, _⟩ := hS.subs_listen _ (z.sid, id) hab
      have := hS.listen_modern l0 hl0
      rw [h1] at this
      intro e
      rw [e] at hg
      exact hne (gen_unique hS.sess_nodup hg this)
  · intro sid
    rw [List.mem_map]
    constructor
    · rintro ⟨x, hx, rfl⟩
      rcases hmem x hx with ⟨_, g, hg, hne⟩ | ⟨id, _, _, l, hl, h1, _, h3⟩
      · exact Or.inl ⟨g, hg, hne⟩
      · exact Or.inr ⟨l, hl, h1, h3⟩
    · rintro (⟨g, hg, hne⟩ | ⟨l, hl, h1, h2⟩)
      · exact ⟨⟨sid, none⟩, List.mem_append.2 (Or.inl (mem_legacyRecips.2 ⟨g, hg, hne, rfl⟩)), rfl⟩
      · obtain ⟨id, _, this⟩ := hS.listen_served l hl k h2
        rw [h1] at this
        exact ⟨⟨sid, some id⟩, List.mem_append.2 (Or.inr (mem_subRecips.2 ⟨id, this, rfl⟩)), rfl⟩

/-- the monitor's notion of an entitled slot is the model's -/
theorem entitledNow_iff (h : Rel seen y m) (i : Slot) (hu : (y.slots i).used = true) (k : Kind) :
    entitledNow (m.slots i) k = true ↔ entitled y.srv (y.slots i).sid k := by
  have hS := h.srvOk.invS
  have hgen := h.sess.used_sess i hu
  simp only [entitledNow, h.sess.conn i, hu, Bool.true_and, h.sess.modern i hu]
  cases hm : (y.slots i).modern with
  | false =>
    rw [hm] at hgen
    simp only [Bool.not_false, Bool.true_or, true_iff]
    exact Or.inl ⟨Gen.legacy, hgen, by simp⟩
  | true =>
    rw [hm] at hgen
    simp only [Bool.not_true, Bool.false_or, MSlot.grantedK, List.any_eq_true]
    constructor
    · rintro ⟨ml, hml, hk⟩
      obtain ⟨l, hl, e1, e2⟩ := (h.lis.listens i hu ml).1 hml
      subst e2
      exact Or.inr ⟨l, hl, e1, by simpa [toM] using hk⟩
    · rintro (⟨g, hg, hne⟩ | ⟨l, hl, e1, hk⟩)
      · exact absurd (gen_unique hS.sess_nodup hg hgen) hne
      · exact ⟨toM l, (h.lis.listens i hu _).2 ⟨l, hl, e1, rfl⟩, by simpa [toM] using hk⟩

/-- the stamps the monitor accepts for a write of a fan-out of kind `k` to slot `i` -/
def stampsOf (d : MSlot) (k : Kind) : List Stamp :=
  if d.modern then (d.listens.filter (·.kinds.contains k)).map (fun l => Stamp.id l.id) else [.plain]

/-- a member of the snapshot addressed to the session of slot `i` carries a stamp the monitor accepts -/
theorem sendList_stamp (h : Rel seen y m) (i : Slot) (hu : (y.slots i).used = true) (k : Kind) (x : Send)
    (hx : x ∈ sendList y.srv k) (hs : (y.slots i).sid = x.sid) :
    ((y.slots i).modern = false → x.stamp = none) ∧ stampOf x.stamp ∈ stampsOf (m.slots i) k ∧
    ((y.slots i).modern = true → ∃ ml ∈ (m.slots i).listens, Stamp.id ml.id = stampOf x.stamp ∧ k ∈ ml.kinds) := by
  have hS := h.srvOk.invS
  have hgen := h.sess.used_sess i hu
  rw [hs] at hgen
  simp only [stampsOf, h.sess.modern i hu]
  rcases (sendList_spec hS h.srvOk.invN k).2.1 x hx with ⟨hst, g, hg, hne⟩ | ⟨id, hst, hg, l, hl, e1, e2, e3⟩
  · have := gen_unique hS.sess_nodup hg hgen
    rw [this] at hne
    have hm := genB_ne_modern.1 hne
    refine ⟨fun _ => hst, ?_, fun hc => absurd hc (by simp [hm])⟩
    simp [hm, hst, stampOf]
  · have := gen_unique hS.sess_nodup hg hgen
    have hm := genB_eq_modern.1 this.symm
    have hml : toM l ∈ (m.slots i).listens := (h.lis.listens i hu _).2 ⟨l, hl, by rw [e1, hs], rfl⟩
    refine ⟨fun hc => absurd hc (by simp [hm]), ?_, fun _ => ⟨toM l, hml, by simp [toM, hst, stampOf, e2], e3⟩⟩
    simp only [hm, if_true, List.mem_map, List.mem_filter]
    exact ⟨toM l, ⟨hml, by simpa [toM] using e3⟩, by simp [toM, hst, stampOf, e2]⟩

theorem find?_filterMap_key {β : Type} (f : Slot → Option (Slot × β)) (hf : ∀ j p, f j = some p → p.1 = j) (i : Slot) :
    ∀ (l : List Slot), l.Nodup → (l.filterMap f).find? (fun p => p.1 == i) = if i ∈ l then f i else none := by
  intro l
  induction l with
  | nil => intro _; simp
  | cons a t ih =>
    intro hnd
    simp only [List.nodup_cons] at hnd
    simp only [List.filterMap_cons]
    cases hfa : f a with
    | none =>
      simp only []
      rw [ih hnd.2]
      by_cases e : i = a
      · subst e; simp [hnd.1, hfa]
      · simp [e]
    | some p =>
      simp only [List.find?_cons]
      have hp := hf a p hfa
      by_cases e : i = a
      · subst e; simp [hp, hfa]
      · have : (p.1 == i) = false := by rw [hp]; simp; exact fun e2 => e e2.symm
        simp only [this]
        rw [ih hnd.2]
        simp [e]

theorem Slot.all_nodup : Slot.all.Nodup := by decide

theorem fanExpect_find (m : MState) (k : Kind) (i : Slot) :
    (fanExpect m k).find? (fun p => p.1 == i) =
      if entitledNow (m.slots i) k = true then some (i, stampsOf (m.slots i) k) else none := by
  unfold fanExpect
  rw [find?_filterMap_key _ _ i Slot.all Slot.all_nodup]
  · simp only [Slot.mem_all, if_true, stampsOf]
  · intro j p hp
    simp only [] at hp
    split at hp
    · simp at hp; rw [← hp]
    · simp at hp

theorem fanExpect_any (m : MState) (k : Kind) (i : Slot) :
    (fanExpect m k).any (fun p => p.1 == i) = entitledNow (m.slots i) k := by
  have := fanExpect_find m k i
  cases he : entitledNow (m.slots i) k
  · rw [he] at this
    simp only [Bool.false_eq_true, if_false] at this
    rw [List.find?_eq_none] at this
    rw [List.any_eq_false]
    intro p hp
    simpa using this p hp
  · rw [he] at this
    simp only [if_true] at this
    rw [List.any_eq_true]
    exact ⟨_, List.mem_of_find?_eq_some this, by simp⟩
end Notify.Bridge
