import McpModel.Notify.BridgeFan
/-!
# Bridge, part 7b: `cbrun … step` (the snapshot of a held fan-out)
-/
namespace Notify.Bridge
open Notify Notify.Mon Notify.Sys Generated.Notify
variable {seen : List Nat} {y : State} {m : MState}

/-- the snapshot half of `notifySessions(k)` when a callback is pending -/
theorem cbrun_spec (s : Server) (k : Kind) (hp : (s.ks k).pending ≠ 0) :
    (cbrun s k).2 = [.changed k (sendList s k)] ∧
    (cbrun s k).1.listens = s.listens ∧ (cbrun s k).1.acked = s.acked ∧ (cbrun s k).1.rlive = s.rlive ∧
    (cbrun s k).1.owed = s.owed.filter (fun p => p.2 != k) ∧
    (∀ k', ((cbrun s k).1.ks k').inflight = if k' = k then (s.ks k).inflight ++ sendList s k else (s.ks k').inflight) ∧
    (cbrun s k).1.cap = s.cap ∧ (cbrun s k).1.ver = s.ver ∧ (cbrun s k).1.cnt = s.cnt ∧
    (cbrun s k).1.sessions = s.sessions := by
  simp only [cbrun, hp, if_false]
  refine ⟨?_, ?_, ?_, ?_, ?_, ?_, ?_, ?_, ?_, ?_⟩ <;> first | rfl | trivial | skip
  intro k'; simp only [setK]; split
  · rename_i e; subst e; rfl
  · rfl

theorem cbrun_none (s : Server) (k : Kind) (hp : (s.ks k).pending = 0) : cbrun s k = (s, []) := by
  simp only [cbrun, hp, if_true]

theorem cbStepNext_slot (m : MState) (k : Kind) (done : Bool) (i : Slot) :
    ((cbStepNext m k done).slots i).connected = (m.slots i).connected ∧
    ((cbStepNext m k done).slots i).modern = (m.slots i).modern ∧
    ((cbStepNext m k done).slots i).listens = (m.slots i).listens ∧
    ((cbStepNext m k done).slots i).luris = (m.slots i).luris ∧
    ((cbStepNext m k done).slots i).maxHandled = (m.slots i).maxHandled ∧
    ((cbStepNext m k done).slots i).invalidated = (m.slots i).invalidated ∧
    ((cbStepNext m k done).slots i).starts = (m.slots i).starts ∧
    ((cbStepNext m k done).slots i).owed =
      if (fanExpect m k).any (fun p => p.1 == i) = true then (m.slots i).owed else (m.slots i).owed.filter (· != k) := by
  cases done
  · simp only [cbStepNext, Bool.false_eq_true, if_false]
    split <;> exact ⟨rfl, rfl, rfl, rfl, rfl, rfl, rfl, rfl⟩
  · simp only [cbStepNext, if_true]
    split
    · split <;> exact ⟨rfl, rfl, rfl, rfl, rfl, rfl, rfl, rfl⟩
    · rename_i hc
      have : ((fanExpect m k).any (fun p => p.1 == i) && ((m.slots i).owed.filter (· != k)).contains k) = false := by
        simp [hc]
      simp only [this]
      exact ⟨rfl, rfl, rfl, rfl, rfl, rfl, rfl, rfl⟩

theorem cbStepNext_glob (m : MState) (k : Kind) (done : Bool) :
    (cbStepNext m k done).cap = m.cap ∧ (cbStepNext m k done).ver = m.ver ∧ (cbStepNext m k done).cnt = m.cnt ∧
    (cbStepNext m k done).content = m.content ∧
    (cbStepNext m k done).fans = if done then m.fans else fun k' => if k' = k then some { expect := fanExpect m k } else m.fans k' := by
  cases done <;> simp only [cbStepNext] <;> exact ⟨rfl, rfl, rfl, rfl, rfl⟩

theorem RelListen.srv_congr {s s' : Server} {slots : Slot → DSlot} {ms : Slot → MSlot} (h : RelListen s slots ms)
    (e1 : s'.listens = s.listens) (e2 : s'.acked = s.acked) (e3 : s'.rlive = s.rlive) : RelListen s' slots ms :=
  ⟨by rw [e1, e2]; exact h.all_acked, by rw [e1]; exact h.listens, by rw [e3]; exact h.luris,
   by rw [e1]; exact h.sub_live, by rw [e1]; exact h.gated_none, h.idle⟩

/-- a session in the snapshot is a session of the server -/
theorem sendList_sess {s : Server} (hS : InvS s) (hN : InvN s) (k : Kind) (x : Send) (hx : x ∈ sendList s k) :
    x.sid ∈ s.sessions.map Prod.fst := by
  rcases (sendList_spec hS hN k).2.1 x hx with ⟨_, g, hg, _⟩ | ⟨_, _, hg, _⟩
  · exact List.mem_map.2 ⟨_, hg, rfl⟩
  · exact List.mem_map.2 ⟨_, hg, rfl⟩

theorem gate_of_pending {s : Server} (hT : InvT s) (k : Kind) (hp : (s.ks k).pending ≠ 0) : gateSend s k = true := by
  cases hg : gateSend s k
  · exact absurd (hT.off_idle k hg).2.2 hp
  · rfl

theorem step_cbstep (h : Rel seen y m) (k : Kind) (hint : Option Who) : StepOk seen y m (.cbstep k) hint := by
  unfold StepOk
  simp only [sysStep]
  split
  · exact ⟨rfl, h⟩
  · rename_i hg
    simp only [Bool.or_eq_true, not_or, Bool.not_eq_true', Bool.not_eq_false, Bool.not_eq_true] at hg
    have hinfl : (y.srv.ks k).inflight = [] := by simpa using hg.2
    by_cases hp : (y.srv.ks k).pending = 0
    · rw [cbrun_none _ _ hp]
      exact ⟨rfl, h⟩
    · obtain ⟨c0, c1, c2, c3, c4, c5, c6, c7, c8, c9⟩ := cbrun_spec y.srv k hp
      rw [c0]
      simp only []
      refine ⟨rfl, ?_⟩
      show Rel seen { y with srv := (cbrun y.srv k).1 } (cbStepNext m k (sendList y.srv k).isEmpty)
      have hS := h.srvOk.invS
      have hN := h.srvOk.invN
      obtain ⟨g1, g2, g3, g4, g5⟩ := cbStepNext_glob m k (sendList y.srv k).isEmpty
      have hinfl' : ∀ k', ((cbrun y.srv k).1.ks k').inflight = if k' = k then sendList y.srv k else (y.srv.ks k').inflight := by
        intro k'; rw [c5]; split
        · rw [hinfl]; rfl
        · rfl
      have hent : ∀ i, (y.slots i).used = true → entitledNow (m.slots i) k = true →
          ∃ x ∈ sendList y.srv k, x.sid = (y.slots i).sid := by
        intro i hu he
        have := ((sendList_spec hS hN k).2.2 (y.slots i).sid).2 ((entitledNow_iff h i hu k).1 he)
        obtain ⟨x, hx, e⟩ := List.mem_map.1 this
        exact ⟨x, hx, e⟩
      refine ⟨srvOk_cbrun h.srvOk k, ⟨by rw [g1, c6]; exact h.g.cap, by rw [g2, c7]; exact h.g.ver, by rw [g3, c8]; exact h.g.cnt,
          by rw [g4]; exact h.g.content⟩, ?_, ?_, ?_, ?_, ?_, ?_, ?_⟩
      · show RelSess (cbrun y.srv k).1.sessions y.slots _
        rw [c9]
        exact h.sess.congr (fun _ => rfl) (fun _ => rfl) (fun _ => rfl) (fun _ => rfl) (fun _ => rfl)
          (fun i => (cbStepNext_slot m k _ i).1) (fun i => (cbStepNext_slot m k _ i).2.1)
      · show RelListen (cbrun y.srv k).1 y.slots _
        exact (h.lis.congr (fun _ => rfl) (fun _ => rfl) (fun _ => rfl) (fun _ _ hx => hx) (fun _ => rfl)
          (fun i => (cbStepNext_slot m k _ i).2.2.1) (fun i => (cbStepNext_slot m k _ i).2.2.2.1)
          (fun i hi => by
            rw [(cbStepNext_slot m k _ i).2.2.2.2.2.2.2, hi]
            split <;> rfl)).srv_congr c1 c2 c3
      · -- debts
        show RelOwed (cbrun y.srv k).1.owed (fun k' => ((cbrun y.srv k).1.ks k').inflight) y.slots _
        intro i k0 hk0
        rw [(cbStepNext_slot m k _ i).2.2.2.2.2.2.2] at hk0
        have hold : k0 ∈ (m.slots i).owed → k0 ≠ k → (y.slots i).used = true ∧
            (((y.slots i).sid, k0) ∈ (cbrun y.srv k).1.owed ∨ ∃ x ∈ ((cbrun y.srv k).1.ks k0).inflight, x.sid = (y.slots i).sid) := by
          intro hk hne
          obtain ⟨hu, hor⟩ := h.owed i k0 hk
          refine ⟨hu, ?_⟩
          rcases hor with ho | ho
          · left; rw [c4]; exact List.mem_filter.2 ⟨ho, by simpa using hne⟩
          · right; rw [hinfl', if_neg hne]; exact ho
        by_cases hkk : k0 = k
        · subst hkk
          split at hk0
          · rename_i hany
            rw [fanExpect_any] at hany
            have hu := (h.owed i k0 hk0).1
            refine ⟨hu, Or.inr ?_⟩
            show ∃ x, x ∈ ((cbrun y.srv k0).1.ks k0).inflight ∧ x.sid = (y.slots i).sid
            rw [hinfl', if_pos rfl]
            exact hent i hu hany
          · simp at hk0
        · split at hk0
          · exact hold hk0 hkk
          · exact hold (List.mem_filter.1 hk0).1 hkk
      · -- fans
        show RelFan (fun k' => ((cbrun y.srv k).1.ks k').inflight) y.slots _
        rw [g5]
        constructor
        · intro k' hk'
          rw [hinfl'] at hk'
          by_cases e : k' = k
          · subst e
            simp only [if_true] at hk'
            have : (sendList y.srv k').isEmpty = false := by
              cases hx : sendList y.srv k' with
              | nil => exact absurd hx hk'
              | cons _ _ => rfl
            simp only [this, Bool.false_eq_true, if_false, if_true]
            exact ⟨_, rfl⟩
          · simp only [e, if_false] at hk'
            obtain ⟨fan, hf⟩ := h.fan.some_of k' hk'
            refine ⟨fan, ?_⟩
            split
            · exact hf
            · simp only [e, if_false]; exact hf
        · intro k' fan hf
          rw [hinfl']
          by_cases e : k' = k
          · subst e
            simp only [if_true]
            cases hdone : (sendList y.srv k').isEmpty
            · rw [hdone] at hf
              simp only [Bool.false_eq_true, if_false, if_true, Option.some.injEq] at hf
              subst hf
              refine ⟨(sendList_spec hS hN k').1, ?_⟩
              intro x hx i hu hs
              have hst := sendList_stamp h i hu k' x hx hs
              have hent' : entitledNow (m.slots i) k' = true :=
                (entitledNow_iff h i hu k').2 (((sendList_spec hS hN k').2.2 _).1 (List.mem_map.2 ⟨x, hx, hs.symm⟩))
              refine ⟨⟨stampsOf (m.slots i) k', ?_, hst.2.1⟩, by simp, hst.1⟩
              rw [fanExpect_find, hent']
              rfl
            · have : sendList y.srv k' = [] := by simpa using hdone
              rw [this]
              exact ⟨by simp, by intro x hx; simp at hx⟩
          · simp only [e, if_false]
            have hf' : m.fans k' = some fan := by
              split at hf
              · exact hf
              · simp only [e, if_false] at hf; exact hf
            exact h.fan.ok k' fan hf'
      · -- caches
        show RelCache (curVersion { y with srv := (cbrun y.srv k).1 }) y.slots _
        rw [curVersion_congr (y' := { y with srv := (cbrun y.srv k).1 }) (y := y) c7 rfl]
        exact h.cache.congr (fun _ => rfl) (fun _ => rfl) (fun _ => rfl) (fun _ => rfl)
          (fun i => (cbStepNext_slot m k _ i).2.2.2.2.1) (fun i => (cbStepNext_slot m k _ i).2.2.2.2.2.1)
          (fun i => (cbStepNext_slot m k _ i).2.2.2.2.2.2.1)
      · -- seen
        constructor
        · show ∀ p ∈ (cbrun y.srv k).1.sessions, p.1 ∈ seen
          rw [c9]; exact h.seen.sess
        · intro k' x hx
          have hx : x ∈ ((cbrun y.srv k).1.ks k').inflight := hx
          rw [hinfl'] at hx
          split at hx
          · obtain ⟨p, hp, e⟩ := List.mem_map.1 (sendList_sess hS hN k x hx)
            rw [← e]; exact h.seen.sess p hp
          · exact h.seen.infl k' x hx
      · -- gate
        intro k' hk'
        have hk' : ((cbrun y.srv k).1.ks k').inflight ≠ [] := hk'
        rw [hinfl'] at hk'
        show gateSend (cbrun y.srv k).1 k' = true
        have hgs : gateSend (cbrun y.srv k).1 k' = gateSend y.srv k' := by simp only [gateSend, c6]
        rw [hgs]
        split at hk'
        · rename_i e; subst e; exact gate_of_pending h.srvOk.invT k' hp
        · exact h.gate k' hk'
end Notify.Bridge
