import McpModel.Conn.Monitor
/-!
The canonical text of an observation (`render`) and the model's observation as text (`observe`).
String layer of the E1 driver; core Lean only.  `parseObs (render o) = some o` is NOT proved (string
functions) — it is checked at run time by the driver for every model state it visits (`selfCheck`).
-/
namespace Conn

def natList (l : List Nat) : String := ",".intercalate (l.map toString)

def b (x : Bool) : String := if x then "1" else "0"

def xStr (e : Nat × XCause) : String :=
  match e.2 with
  | .read => s!"r{e.1}:r" | .write => s!"r{e.1}:w" | .other => s!"r{e.1}:c"

/-- The canonical text of an observation (the format the harness prints). -/
def render (o : Obs) : String :=
  s!"S={b o.closing}{b o.reading}{b o.readErr}{b o.writeErr}{b o.closerUsed}{b o.done} oc={natList o.oc} on={o.on} in={o.inc} by={natList o.by_} q={natList o.q} hr={b o.hr} tc={o.tc} od={o.od} P={",".intercalate (o.parked.map ptokStr)} X={",".intercalate (o.x.map xStr)} F={",".intercalate (o.fins.map ftokStr ++ [s!"close:{o.closeFin}", s!"wait:{o.waitFin}"])}"

/-- The model's observation as text: `render (obsOf s)` for every state that has not panicked
(and no reachable state has: `no_panic_state`). -/
def observe (s : St) : String :=
  if s.panicked then "panic" else render (obsOf s)

theorem observe_eq_render (s : St) (h : s.panicked = false) : observe s = render (obsOf s) := by
  simp [observe, h]

end Conn
