import McpModel.Conn.FlagInv
/-! Which labels can make a connection unusable (C04 `usable_after_cancel`). -/
namespace Conn

@[simp] theorem tail_readErr' (s : St) : (tail s).readErr = s.readErr := by
  unfold tail finish closeTransport; repeat' split
  all_goals rfl

@[simp] theorem tail_writeErr' (s : St) : (tail s).writeErr = s.writeErr := by
  unfold tail finish closeTransport; repeat' split
  all_goals rfl

@[simp] theorem modCall_closing' (s : St) (n : Nat) (f : Call → Call) : (modCall s n f).closing = s.closing := by
  rfl

@[simp] theorem modCall_readErr' (s : St) (n : Nat) (f : Call → Call) : (modCall s n f).readErr = s.readErr := by
  rfl

@[simp] theorem modCall_writeErr' (s : St) (n : Nat) (f : Call → Call) : (modCall s n f).writeErr = s.writeErr := by
  rfl

@[simp] theorem modCore_closing' (s : St) (r : Nat) (f : ReqCore → ReqCore) : (modCore s r f).closing = s.closing := by
  rfl

@[simp] theorem modCore_readErr' (s : St) (r : Nat) (f : ReqCore → ReqCore) : (modCore s r f).readErr = s.readErr := by
  rfl

@[simp] theorem modCore_writeErr' (s : St) (r : Nat) (f : ReqCore → ReqCore) : (modCore s r f).writeErr = s.writeErr := by
  rfl

@[simp] theorem modMeta_closing' (s : St) (r : Nat) (f : ReqMeta → ReqMeta) : (modMeta s r f).closing = s.closing := by
  rfl

@[simp] theorem modMeta_readErr' (s : St) (r : Nat) (f : ReqMeta → ReqMeta) : (modMeta s r f).readErr = s.readErr := by
  rfl

@[simp] theorem modMeta_writeErr' (s : St) (r : Nat) (f : ReqMeta → ReqMeta) : (modMeta s r f).writeErr = s.writeErr := by
  rfl

@[simp] theorem cancelReq_closing' (s : St) (r : Nat) (c : Cause) : (cancelReq s r c).closing = s.closing := by
  rfl

@[simp] theorem cancelReq_readErr' (s : St) (r : Nat) (c : Cause) : (cancelReq s r c).readErr = s.readErr := by
  rfl

@[simp] theorem cancelReq_writeErr' (s : St) (r : Nat) (c : Cause) : (cancelReq s r c).writeErr = s.writeErr := by
  rfl

@[simp] theorem toP2_closing' (s : St) (r : Nat) : (toP2 s r).closing = s.closing := by
  rfl

@[simp] theorem toP2_readErr' (s : St) (r : Nat) : (toP2 s r).readErr = s.readErr := by
  rfl

@[simp] theorem toP2_writeErr' (s : St) (r : Nat) : (toP2 s r).writeErr = s.writeErr := by
  rfl

@[simp] theorem setNotif_closing' (s : St) (w : Who) (f : Notif → Notif) : (setNotif s w f).closing = s.closing := by
  cases w <;> rfl

@[simp] theorem setNotif_readErr' (s : St) (w : Who) (f : Notif → Notif) : (setNotif s w f).readErr = s.readErr := by
  cases w <;> rfl

@[simp] theorem setNotif_writeErr' (s : St) (w : Who) (f : Notif → Notif) : (setNotif s w f).writeErr = s.writeErr := by
  cases w <;> rfl

@[simp] theorem beginPR_closing' (s : St) (r : Nat) (o : Owner) : (beginPR s r o).closing = s.closing := by
  unfold beginPR; repeat' split
  all_goals rfl

@[simp] theorem beginPR_readErr' (s : St) (r : Nat) (o : Owner) : (beginPR s r o).readErr = s.readErr := by
  unfold beginPR; repeat' split
  all_goals rfl

@[simp] theorem beginPR_writeErr' (s : St) (r : Nat) (o : Owner) : (beginPR s r o).writeErr = s.writeErr := by
  unfold beginPR; repeat' split
  all_goals rfl

@[simp] theorem retireIn_closing' (s : St) (n : Nat) (r : Res) : (retireIn s n r).closing = s.closing := by
  unfold retireIn; repeat' split
  all_goals rfl

@[simp] theorem retireIn_readErr' (s : St) (n : Nat) (r : Res) : (retireIn s n r).readErr = s.readErr := by
  unfold retireIn; repeat' split
  all_goals rfl

@[simp] theorem retireIn_writeErr' (s : St) (n : Nat) (r : Res) : (retireIn s n r).writeErr = s.writeErr := by
  unfold retireIn; repeat' split
  all_goals rfl

@[simp] theorem afterP2_closing' (s : St) (r : Nat) (o : Owner) : (afterP2 s r o).closing = s.closing := by
  cases o <;> rfl

@[simp] theorem afterP2_readErr' (s : St) (r : Nat) (o : Owner) : (afterP2 s r o).readErr = s.readErr := by
  cases o <;> rfl

@[simp] theorem afterP2_writeErr' (s : St) (r : Nat) (o : Owner) : (afterP2 s r o).writeErr = s.writeErr := by
  cases o <;> rfl


theorem foldl_cancel_flags (l : List (Nat × Nat)) (c : Cause) (s : St) :
    (l.foldl (fun s p => cancelReq s p.2 c) s).closing = s.closing ∧
    (l.foldl (fun s p => cancelReq s p.2 c) s).readErr = s.readErr ∧
    (l.foldl (fun s p => cancelReq s p.2 c) s).writeErr = s.writeErr := by
  induction l generalizing s with
  | nil => exact ⟨rfl, rfl, rfl⟩
  | cons p t ih => simp only [List.foldl]; have := ih (cancelReq s p.2 c); simpa using this

/-- The three flags that make `shuttingDown` true. -/
def Label.breaks : Label → Bool
  | .cl1 | .rx | .w2 _ => true
  | _ => false

set_option maxRecDepth 8000 in
/-- **usable_after_cancel.** Only `Close` (CL1), the reader's exit (RX) and a failed transport write
(W2) touch `connClosing` / `readErr` / `writeErr`: cancelling calls, retiring them, the detached
cancel notification (admitted, refused, rejected or written), late responses, handler results — none
of them makes the connection unusable. -/
theorem flags_only_by (s s' : St) (l : Label) (h : step0 s l = some s') (hl : l.breaks = false) :
    s'.closing = s.closing ∧ s'.readErr = s.readErr ∧ s'.writeErr = s.writeErr := by
  cases l <;> simp [Label.breaks] at hl <;> simp only [step0] at h
  all_goals (repeat' (split at h))
  all_goals first
    | (simp at h; done)
    | (injection h with h; subst h; first | exact ⟨rfl, rfl, rfl⟩ | (simp; done))

theorem settle_flags (s : St) : (settle s).closing = s.closing ∧ (settle s).readErr = s.readErr ∧ (settle s).writeErr = s.writeErr := by
  have := fview_settle s
  exact ⟨congrArg FV.closing this, congrArg FV.readErr this, congrArg FV.writeErr this⟩

theorem shuttingDown_only_by (s s' : St) (l : Label) (h : step s l = some s') (hl : l.breaks = false) :
    s'.shuttingDown = s.shuttingDown := by
  simp only [step, Option.map_eq_some_iff] at h
  obtain ⟨s0, h0, rfl⟩ := h
  obtain ⟨a, b, c⟩ := flags_only_by s s0 l h0 hl
  obtain ⟨a', b', c'⟩ := settle_flags s0
  simp only [St.shuttingDown, a, b, c, a', b', c']

end Conn
