import McpModel.Conn.Monitor
/-!
Clause soundness of the C01–C05 monitors, part 1: the vocabulary for talking about observation
traces (`obsAt`, `before`, `evAt`, `cnt`, `callNoAt`, `reads`, `arrived`, `ReadAt`, `idxAt`) and the
HISTORY INVARIANT `Hist`: what every field of the monitor's state `monAfter {} tr` means in terms of
the trace `tr` it has consumed.  Only `Monitor.lean` is imported: nothing here depends on the model's
step function.
-/
namespace Conn

/-! ## vocabulary -/

/-- An observation trace: the label fed to the implementation and the observation printed after it. -/
abbrev Trace := List (Label × Obs)

/-- The observation printed after the `i`-th label. -/
def obsAt (tr : Trace) (i : Nat) : Obs := (tr[i]?.map (·.2)).getD {}

/-- The observation the `i`-th label started from (`{}` = nothing observed yet). -/
def before (tr : Trace) (i : Nat) : Obs := if i = 0 then {} else obsAt tr (i - 1)

/-- The last observation of the trace. -/
def lastObs (tr : Trace) : Obs := before tr tr.length

/-- The event at position `i`. -/
def evAt (tr : Trace) (i : Nat) : Option Ev := tr[i]?.map fun x => evOf x.1

/-- Number of positions whose event satisfies `p`. -/
def cnt (tr : Trace) (p : Ev → Bool) : Nat := tr.countP fun x => p (evOf x.1)

/-- A user starts a call (with params that can, or cannot, be encoded): it takes the next call number. -/
def Ev.isCallStart : Ev → Bool
  | .ecall | .ecallbad => true
  | _ => false

/-- Calls are numbered 1,2,… by `ecall` events: the number of the call started at position `i`
(= number of `ecall` events at positions `≤ i`). -/
def callNoAt (tr : Trace) (i : Nat) : Nat := cnt (tr.take (i + 1)) Ev.isCallStart

/-- The events by which a request arrives. -/
def Ev.isRead : Ev → Bool
  | .readCall _ | .readNotif | .readCancel _ => true
  | _ => false

/-- A cancel notification was read. -/
def Ev.isCancelRead : Ev → Bool
  | .readCancel _ => true
  | _ => false

/-- The request-read events of the trace in order: request `r` is `(reads tr)[r]`. -/
def reads (tr : Trace) : List Ev := (tr.map fun x => evOf x.1).filter Ev.isRead

/-- Number of requests read at positions `< t`. -/
def nreadsBefore (tr : Trace) (t : Nat) : Nat := (reads (tr.take t)).length

/-- Request `r` was read at a position `< t`. -/
def arrived (tr : Trace) (r t : Nat) : Prop := r < nreadsBefore tr t

/-- Request `r` is read at position `t` by event `e`. -/
def ReadAt (tr : Trace) (r t : Nat) (e : Ev) : Prop :=
  evAt tr t = some e ∧ e.isRead = true ∧ nreadsBefore tr t = r

/-- The wire id carried by a request-read event. -/
def Ev.reqId : Ev → Option Nat
  | .readCall id => some id
  | _ => none

/-- The wire id of request `r` if it was read at a position `< t` and is a call. -/
def reqIdAt (tr : Trace) (t r : Nat) : Option Nat := ((reads (tr.take t))[r]?).bind Ev.reqId

/-- The id index just before position `t`, as the A1/P1 events determine it: A1 of a call whose id
is not indexed appends `(id, r)`; P1 of `r` removes the entries of `r`. -/
def idxAt (tr : Trace) : Nat → List (Nat × Nat)
  | 0 => []
  | t + 1 =>
    match evAt tr t with
    | some (.a1 r) =>
      match reqIdAt tr t r with
      | some id => if ((idxAt tr t).lookup id).isSome then idxAt tr t else idxAt tr t ++ [(id, r)]
      | none => idxAt tr t
    | some (.p1 r) => (idxAt tr t).filter fun e => e.2 ≠ r
    | _ => idxAt tr t

/-- The request indexed under wire id `id` just before position `t`. -/
def indexedAt (tr : Trace) (t id : Nat) : Option Nat := (idxAt tr t).lookup id

/-! ## positions of an extended trace -/

section snoc
variable {tr : Trace} {x : Label × Obs} {i : Nat}

theorem obsAt_snoc_lt (h : i < tr.length) : obsAt (tr ++ [x]) i = obsAt tr i := by
  simp [obsAt, List.getElem?_append_left h]

@[simp] theorem obsAt_snoc_len : obsAt (tr ++ [x]) tr.length = x.2 := by
  simp [obsAt]

theorem obsAt_ge (h : tr.length ≤ i) : obsAt tr i = {} := by
  simp [obsAt, List.getElem?_eq_none h]

theorem evAt_snoc_lt (h : i < tr.length) : evAt (tr ++ [x]) i = evAt tr i := by
  simp [evAt, List.getElem?_append_left h]

@[simp] theorem evAt_snoc_len : evAt (tr ++ [x]) tr.length = some (evOf x.1) := by
  simp [evAt]

theorem evAt_some_lt {e : Ev} (h : evAt tr i = some e) : i < tr.length := by
  simp only [evAt, Option.map_eq_some_iff] at h
  obtain ⟨a, ha, _⟩ := h
  exact (List.getElem?_eq_some_iff.mp ha).1

theorem evAt_snoc_some {e : Ev} (h : evAt (tr ++ [x]) i = some e) :
    (i < tr.length ∧ evAt tr i = some e) ∨ (i = tr.length ∧ evOf x.1 = e) := by
  have hl := evAt_some_lt h
  simp only [List.length_append, List.length_singleton] at hl
  by_cases hi : i < tr.length
  · left; exact ⟨hi, by rwa [evAt_snoc_lt hi] at h⟩
  · right
    have : i = tr.length := by omega
    subst this
    simpa using h

theorem before_snoc_le (h : i ≤ tr.length) : before (tr ++ [x]) i = before tr i := by
  unfold before
  split
  · rfl
  · rw [obsAt_snoc_lt (by omega)]

@[simp] theorem before_snoc_len : before (tr ++ [x]) tr.length = lastObs tr := before_snoc_le (Nat.le_refl _)

@[simp] theorem before_snoc_succ : before (tr ++ [x]) (tr.length + 1) = x.2 := by
  simp [before]

@[simp] theorem lastObs_snoc : lastObs (tr ++ [x]) = x.2 := by
  simp [lastObs]

@[simp] theorem lastObs_nil : lastObs [] = {} := rfl

theorem lastObs_eq (h : 0 < tr.length) : lastObs tr = obsAt tr (tr.length - 1) := by
  have : tr.length ≠ 0 := by omega
  simp [lastObs, before, this]

theorem exists_evAt_snoc {e : Ev} :
    (∃ i, evAt (tr ++ [x]) i = some e) ↔ (∃ i, evAt tr i = some e) ∨ evOf x.1 = e := by
  constructor
  · rintro ⟨i, h⟩
    rcases evAt_snoc_some h with ⟨_, h⟩ | ⟨_, h⟩
    · exact .inl ⟨i, h⟩
    · exact .inr h
  · rintro (⟨i, h⟩ | h)
    · exact ⟨i, by rw [evAt_snoc_lt (evAt_some_lt h)]; exact h⟩
    · exact ⟨tr.length, by simp [h]⟩

@[simp] theorem cnt_snoc (p : Ev → Bool) : cnt (tr ++ [x]) p = cnt tr p + if p (evOf x.1) then 1 else 0 := by
  simp [cnt, List.countP_append, List.countP_cons]

@[simp] theorem cnt_nil (p : Ev → Bool) : cnt [] p = 0 := rfl

theorem take_snoc_le (h : i ≤ tr.length) : (tr ++ [x]).take i = tr.take i :=
  List.take_append_of_le_length h

theorem callNoAt_snoc_lt (h : i < tr.length) : callNoAt (tr ++ [x]) i = callNoAt tr i := by
  simp [callNoAt, take_snoc_le (x := x) (Nat.succ_le_of_lt h)]

theorem callNoAt_snoc_len : callNoAt (tr ++ [x]) tr.length = cnt (tr ++ [x]) Ev.isCallStart := by
  simp [callNoAt, List.take_of_length_le]

theorem cnt_take_le (p : Ev → Bool) (k : Nat) : cnt (tr.take k) p ≤ cnt tr p := by
  unfold cnt
  exact (List.take_sublist k tr).countP_le

theorem callNoAt_le (k : Nat) : callNoAt tr k ≤ cnt tr Ev.isCallStart := cnt_take_le _ _

@[simp] theorem reads_snoc :
    reads (tr ++ [x]) = reads tr ++ if (evOf x.1).isRead then [evOf x.1] else [] := by
  simp only [reads, List.map_append, List.filter_append, List.map_cons, List.map_nil, List.filter_cons, List.filter_nil]

@[simp] theorem reads_nil : reads [] = [] := rfl

theorem nreadsBefore_snoc_le (h : i ≤ tr.length) : nreadsBefore (tr ++ [x]) i = nreadsBefore tr i := by
  simp [nreadsBefore, take_snoc_le h]

theorem nreadsBefore_ge (h : tr.length ≤ i) : nreadsBefore tr i = (reads tr).length := by
  simp [nreadsBefore, List.take_of_length_le h]

theorem nreadsBefore_mono {t t' : Nat} (h : t ≤ t') : nreadsBefore tr t ≤ nreadsBefore tr t' := by
  unfold nreadsBefore reads
  apply List.Sublist.length_le
  apply List.Sublist.filter
  apply List.Sublist.map
  exact List.take_sublist_take_left h

theorem nreadsBefore_le (t : Nat) : nreadsBefore tr t ≤ (reads tr).length := by
  by_cases h : t ≤ tr.length
  · rw [← nreadsBefore_ge (Nat.le_refl tr.length)]; exact nreadsBefore_mono h
  · rw [nreadsBefore_ge (by omega)]; exact Nat.le_refl _

theorem nreadsBefore_succ {e : Ev} (h : evAt tr i = some e) :
    nreadsBefore tr (i + 1) = nreadsBefore tr i + if e.isRead then 1 else 0 := by
  have hl := evAt_some_lt h
  simp only [evAt, List.getElem?_eq_getElem hl, Option.map_some, Option.some.injEq] at h
  subst h
  simp only [nreadsBefore, List.take_succ_eq_append_getElem hl, reads_snoc, List.length_append]
  split <;> rfl

theorem arrived_snoc_le {r : Nat} (h : i ≤ tr.length) : arrived (tr ++ [x]) r i ↔ arrived tr r i := by
  simp [arrived, nreadsBefore_snoc_le h]

theorem arrived_lt_reads {r t : Nat} (h : arrived tr r t) : r < (reads tr).length :=
  Nat.lt_of_lt_of_le h (nreadsBefore_le t)

theorem arrived_mono {r t t' : Nat} (h : t ≤ t') (ha : arrived tr r t) : arrived tr r t' :=
  Nat.lt_of_lt_of_le ha (nreadsBefore_mono h)

/-- For a request that has been read, an "after its arrival" event of the extended trace is an old
one or the new one. -/
theorem exists_arrived_snoc {r : Nat} {e : Ev} (hr : r < (reads tr).length) :
    (∃ t, arrived (tr ++ [x]) r t ∧ evAt (tr ++ [x]) t = some e) ↔
      (∃ t, arrived tr r t ∧ evAt tr t = some e) ∨ evOf x.1 = e := by
  constructor
  · rintro ⟨t, ha, h⟩
    rcases evAt_snoc_some h with ⟨hl, h⟩ | ⟨_, h⟩
    · exact .inl ⟨t, (arrived_snoc_le (Nat.le_of_lt hl)).mp ha, h⟩
    · exact .inr h
  · rintro (⟨t, ha, h⟩ | h)
    · have hl := evAt_some_lt h
      exact ⟨t, (arrived_snoc_le (Nat.le_of_lt hl)).mpr ha, by rw [evAt_snoc_lt hl]; exact h⟩
    · refine ⟨tr.length, ?_, by simp [h]⟩
      rw [arrived_snoc_le (Nat.le_refl _)]
      unfold arrived
      rwa [nreadsBefore_ge (Nat.le_refl _)]

/-- The request being read right now has no "after its arrival" events yet. -/
theorem not_arrived_new {t : Nat} {e : Ev} (h : evAt (tr ++ [x]) t = some e) :
    ¬ arrived (tr ++ [x]) (reads tr).length t := by
  have hl := evAt_some_lt h
  simp only [List.length_append, List.length_singleton] at hl
  unfold arrived
  rw [nreadsBefore_snoc_le (by omega)]
  exact Nat.not_lt.mpr (nreadsBefore_le t)

end snoc

/-! ## induction from the end of the trace -/

theorem snoc_induction {α : Type} {P : List α → Prop} (nil : P [])
    (snoc : ∀ l a, P l → P (l ++ [a])) : ∀ l, P l := by
  intro l
  rw [← List.reverse_reverse l]
  induction l.reverse with
  | nil => exact nil
  | cons a t ih => rw [List.reverse_cons]; exact snoc _ _ ih

/-! ## the position of a request's arrival -/

theorem reads_append (a b : Trace) : reads (a ++ b) = reads a ++ reads b := by
  simp [reads]

theorem ReadAt.get {tr : Trace} {r t : Nat} {e : Ev} (h : ReadAt tr r t e) : (reads tr)[r]? = some e := by
  obtain ⟨he, hr, hn⟩ := h
  have h1 := nreadsBefore_succ he
  have hl := evAt_some_lt he
  have h2 : reads (tr.take (t + 1)) = reads (tr.take t) ++ [e] := by
    simp only [evAt, List.getElem?_eq_getElem hl, Option.map_some, Option.some.injEq] at he
    rw [List.take_succ_eq_append_getElem hl, reads_snoc, he, hr]; rfl
  have h3 : reads tr = reads (tr.take (t + 1)) ++ reads (tr.drop (t + 1)) := by
    rw [← reads_append, List.take_append_drop]
  rw [h3, h2]
  unfold nreadsBefore at hn
  rw [List.append_assoc, List.getElem?_append_right (by omega)]
  simp [hn]

theorem ReadAt.snoc {tr : Trace} {x : Label × Obs} {r t : Nat} {e : Ev} (h : ReadAt tr r t e) :
    ReadAt (tr ++ [x]) r t e := by
  obtain ⟨he, hr, hn⟩ := h
  have hl := evAt_some_lt he
  exact ⟨by rw [evAt_snoc_lt hl]; exact he, hr, by rw [nreadsBefore_snoc_le (Nat.le_of_lt hl)]; exact hn⟩

theorem readAt_new {tr : Trace} {x : Label × Obs} (h : (evOf x.1).isRead = true) :
    ReadAt (tr ++ [x]) (reads tr).length tr.length (evOf x.1) :=
  ⟨by simp, h, by rw [nreadsBefore_snoc_le (Nat.le_refl _), nreadsBefore_ge (Nat.le_refl _)]⟩

theorem exists_readAt : ∀ (tr : Trace) {r : Nat} {e : Ev}, (reads tr)[r]? = some e → ∃ t, ReadAt tr r t e := by
  intro tr
  induction tr using snoc_induction with
  | nil => intro r e h; simp at h
  | snoc tr x ih =>
    intro r e h
    rw [reads_snoc] at h
    by_cases hr : r < (reads tr).length
    · rw [List.getElem?_append_left hr] at h
      obtain ⟨t, ht⟩ := ih h
      exact ⟨t, ht.snoc⟩
    · rw [List.getElem?_append_right (by omega)] at h
      split at h
      · rename_i hx
        have h0 : r - (reads tr).length = 0 := by
          have := (List.getElem?_eq_some_iff.mp h).1
          simpa using this
        rw [h0] at h
        simp only [List.getElem?_cons_zero, Option.some.injEq] at h
        have : r = (reads tr).length := by omega
        subst this; subst h
        exact ⟨tr.length, readAt_new hx⟩
      · simp at h

/-- Positions after the arrival of request `r` are exactly those where `r` has `arrived`. -/
theorem ReadAt.arrived_iff {tr : Trace} {r t : Nat} {e : Ev} (h : ReadAt tr r t e) (t' : Nat) :
    arrived tr r t' ↔ t < t' := by
  obtain ⟨he, hr, hn⟩ := h
  have h1 := nreadsBefore_succ he
  rw [hr] at h1
  unfold arrived
  constructor
  · intro ha
    apply Nat.lt_of_not_le
    intro hle
    have := nreadsBefore_mono (tr := tr) hle
    omega
  · intro hlt
    have := nreadsBefore_mono (tr := tr) (show t + 1 ≤ t' from hlt)
    simp at h1
    omega

theorem ReadAt.unique {tr : Trace} {r t t' : Nat} {e e' : Ev} (h : ReadAt tr r t e) (h' : ReadAt tr r t' e') :
    e = e' := by
  have a := h.get
  have b := h'.get
  rw [a] at b
  exact Option.some.inj b

/-! ## the id index is stable under extension, and holds only requests that have arrived -/

theorem reqIdAt_snoc_le {tr : Trace} {x : Label × Obs} {t : Nat} (h : t ≤ tr.length) (r : Nat) :
    reqIdAt (tr ++ [x]) t r = reqIdAt tr t r := by
  simp [reqIdAt, take_snoc_le h]

theorem idxAt_snoc_le {tr : Trace} {x : Label × Obs} : ∀ {t : Nat}, t ≤ tr.length → idxAt (tr ++ [x]) t = idxAt tr t
  | 0, _ => rfl
  | t + 1, h => by
    have ih := idxAt_snoc_le (tr := tr) (x := x) (t := t) (by omega)
    simp only [idxAt, evAt_snoc_lt (x := x) (show t < tr.length by omega), ih, reqIdAt_snoc_le (x := x) (show t ≤ tr.length by omega)]

theorem indexedAt_snoc_le {tr : Trace} {x : Label × Obs} {t : Nat} (h : t ≤ tr.length) (id : Nat) :
    indexedAt (tr ++ [x]) t id = indexedAt tr t id := by
  simp [indexedAt, idxAt_snoc_le h]

theorem reqIdAt_some_arrived {tr : Trace} {t r id : Nat} (h : reqIdAt tr t r = some id) : arrived tr r t := by
  unfold reqIdAt at h
  cases hg : (reads (tr.take t))[r]? with
  | none => simp [hg] at h
  | some e => exact (List.getElem?_eq_some_iff.mp hg).1

theorem idxAt_arrived {tr : Trace} : ∀ {t : Nat} {id r : Nat}, (id, r) ∈ idxAt tr t → arrived tr r t
  | 0, _, _, h => by simp [idxAt] at h
  | t + 1, id, r, h => by
    have ih : ∀ {id r : Nat}, (id, r) ∈ idxAt tr t → arrived tr r (t + 1) :=
      fun h => arrived_mono (Nat.le_succ t) (idxAt_arrived h)
    simp only [idxAt] at h
    split at h
    · split at h
      · split at h
        · exact ih h
        · rename_i r' _ id' hid _
          rcases List.mem_append.mp h with h | h
          · exact ih h
          · simp only [List.mem_singleton, Prod.mk.injEq] at h
            obtain ⟨rfl, rfl⟩ := h
            exact arrived_mono (Nat.le_succ t) (reqIdAt_some_arrived hid)
      · exact ih h
    · exact ih (List.mem_filter.mp h).1
    · exact ih h

theorem indexedAt_arrived {tr : Trace} {t id r : Nat} (h : indexedAt tr t id = some r) : arrived tr r t := by
  unfold indexedAt at h
  have := List.lookup_eq_some_iff.mp h
  obtain ⟨l1, l2, heq, _⟩ := this
  apply idxAt_arrived (id := id)
  rw [heq]; simp

set_option linter.unusedSimpArgs false

/-! ## the monitor's bookkeeping, field by field -/

theorem monAfter_snoc (m : Mon) (tr : Trace) (l : Label) (o : Obs) :
    monAfter m (tr ++ [(l, o)]) = (monStepT (monAfter m tr) l o).1 := by
  induction tr generalizing m with
  | nil => rfl
  | cons a t ih => obtain ⟨l', o'⟩ := a; simp only [List.cons_append, monAfter]; exact ih _

/-- The table entry a request-read event creates. -/
def newReq : Ev → Option MReq
  | .readCall id => some { id := some id, isNotif := false }
  | .readNotif => some {}
  | .readCancel _ => some { isCancel := true }
  | _ => none

/-- What `Mon.book` does to the entry of request `r`. -/
def updReq (m : Mon) (p : Obs) (e : Ev) (r : Nat) (q : MReq) : MReq :=
  match e with
  | .wret (some r') out => if out = .ok ∧ r' = r then { q with okWrites := q.okWrites + 1 } else q
  | .a1 r' =>
    if r' = r then
      match q.id with
      | some id => if (m.idx.lookup id).isSome then { q with dup := true } else q
      | none => q
    else q
  | .a2 r' => if p.shuttingDown = true ∧ r' = r then { q with a2AfterShutdown := true } else q
  | .p1 r' => if r' = r then { q with p1count := q.p1count + 1 } else q
  | .p2 r' => if r' = r then { q with p2done := true } else q
  | .w1 r' => if r' = r then { q with w1count := q.w1count + 1 } else q
  | .hasync r' => if r' = r then { q with asyncd := true } else q
  | .k1 id => if m.idx.lookup id = some r then { q with peerCancelled := true } else q
  | _ => q

theorem newReq_isSome (e : Ev) : (newReq e).isSome = e.isRead := by
  cases e <;> rfl

theorem updReq_map (m : Mon) (p : Obs) (e : Ev) (r : Nat) (oq : Option MReq) :
    Option.map (updReq m p e r) oq = match oq with | some q => some (updReq m p e r q) | none => none := by
  cases oq <;> rfl

theorem book_reqs_get (m : Mon) (p : Obs) (e : Ev) (r : Nat) :
    (m.book p e).reqs[r]? = if r = m.reqs.length then newReq e else m.reqs[r]?.map (updReq m p e r) := by
  by_cases hr : r = m.reqs.length
  · subst hr
    simp only [if_true]
    cases e <;> simp only [Mon.book, modR, newReq] <;> (repeat' split) <;> simp
  · simp only [hr, if_false, updReq_map]
    have hread : ∀ q0 : MReq, (m.reqs ++ [q0])[r]? = m.reqs[r]? := by
      intro q0
      by_cases h : r < m.reqs.length
      · exact List.getElem?_append_left h
      · rw [List.getElem?_eq_none (by simp; omega), List.getElem?_eq_none (by omega)]
    cases e with
    | readCall id => simp only [Mon.book, hread]; cases m.reqs[r]? <;> simp [updReq]
    | readNotif => simp only [Mon.book, hread]; cases m.reqs[r]? <;> simp [updReq]
    | readCancel id => simp only [Mon.book, hread]; cases m.reqs[r]? <;> simp [updReq]
    | a1 r' =>
      simp only [Mon.book, modR]
      by_cases hrr : r' = r
      · subst hrr
        cases hq : m.reqs[r']? with
        | none => simp [hq]
        | some q =>
          simp only [updReq, if_true]
          cases hid : q.id with
          | none => simp [hq]
          | some id =>
            simp only
            split <;> simp [List.getElem?_modify, hq, hid]
      · cases hq : m.reqs[r]? <;> (repeat' split) <;> simp_all [List.getElem?_modify, updReq]
    | k1 id =>
      simp only [Mon.book, modR]
      cases hl : m.idx.lookup id with
      | none => cases hq : m.reqs[r]? <;> simp [updReq, hl]
      | some r' =>
        simp only [List.getElem?_modify]
        cases hq : m.reqs[r]? <;> by_cases hrr : r' = r <;> simp [updReq, hl, hrr]
    | _ =>
      cases hq : m.reqs[r]? <;> simp only [Mon.book, modR] <;> (repeat' split) <;> simp_all [List.getElem?_modify, updReq]

theorem book_reqs_length (m : Mon) (p : Obs) (e : Ev) :
    (m.book p e).reqs.length = m.reqs.length + if e.isRead then 1 else 0 := by
  cases e <;> simp only [Mon.book, modR, Ev.isRead] <;> (repeat' split) <;> simp_all

theorem book_sent (m : Mon) (p : Obs) (e : Ev) (a b : Nat) :
    (a, b) ∈ (m.book p e).sent ↔ (a, b) ∈ m.sent ∨ e = .readResp a b := by
  cases e <;> simp only [Mon.book, modR] <;> (repeat' split) <;> simp_all <;> grind

theorem book_ncalls (m : Mon) (p : Obs) (e : Ev) :
    (m.book p e).ncalls = m.ncalls + if e.isCallStart then 1 else 0 := by
  cases e <;> simp only [Mon.book, modR, Ev.isCallStart] <;> (repeat' split) <;> simp_all

theorem book_startedLate (m : Mon) (p : Obs) (e : Ev) (c : Nat) :
    c ∈ (m.book p e).startedLate → c ∈ m.startedLate ∨ (e = .ecall ∧ p.done = true ∧ c = m.ncalls + 1) := by
  cases e <;> simp only [Mon.book, modR] <;> (repeat' split) <;> simp_all

theorem book_badCalls (m : Mon) (p : Obs) (e : Ev) (c : Nat) :
    c ∈ (m.book p e).badCalls ↔ c ∈ m.badCalls ∨ (e = .ecallbad ∧ c = m.ncalls + 1) := by
  cases e <;> simp only [Mon.book, modR] <;> (repeat' split) <;> simp_all

theorem book_ctxd (m : Mon) (p : Obs) (e : Ev) (c : Nat) :
    c ∈ (m.book p e).ctxd ↔ c ∈ m.ctxd ∨ e = .ectx c := by
  cases e <;> simp only [Mon.book, modR] <;> (repeat' split) <;> simp_all <;> grind

theorem book_rxSeen (m : Mon) (p : Obs) (e : Ev) :
    (m.book p e).rxSeen = true ↔ m.rxSeen = true ∨ e = .rx := by
  cases e <;> simp only [Mon.book, modR] <;> (repeat' split) <;> simp_all

theorem book_brokenSeen (m : Mon) (p : Obs) (e : Ev) :
    (m.book p e).brokenSeen = true ↔ m.brokenSeen = true ∨ ∃ w, e = .wret w .broken := by
  cases e <;> simp only [Mon.book, modR] <;> (repeat' split) <;> simp_all

theorem book_idx (m : Mon) (p : Obs) (e : Ev) :
    (m.book p e).idx =
      match e with
      | .a1 r =>
        match (m.reqs[r]?).bind (·.id) with
        | some id => if (m.idx.lookup id).isSome then m.idx else m.idx ++ [(id, r)]
        | none => m.idx
      | .p1 r => m.idx.filter fun x => x.2 ≠ r
      | _ => m.idx := by
  cases e <;> simp only [Mon.book, modR] <;> (repeat' split) <;> simp_all

theorem mark_get (m : Mon) (o : Obs) (r : Nat) :
    (m.mark o).reqs[r]? =
      m.reqs[r]?.map fun q => if o.parked.contains (.h r) then { q with started := true } else q := by
  simp [Mon.mark, List.getElem?_map, List.getElem?_zipIdx]
  cases m.reqs[r]? <;> simp

/-! ### `updReq`, field by field -/

section upd
variable (m : Mon) (p : Obs) (e : Ev) (r : Nat) (q : MReq)

theorem updReq_id : (updReq m p e r q).id = q.id := by
  cases e <;> simp only [updReq] <;> (repeat' split) <;> rfl
theorem updReq_isNotif : (updReq m p e r q).isNotif = q.isNotif := by
  cases e <;> simp only [updReq] <;> (repeat' split) <;> rfl
theorem updReq_isCancel : (updReq m p e r q).isCancel = q.isCancel := by
  cases e <;> simp only [updReq] <;> (repeat' split) <;> rfl
theorem updReq_started : (updReq m p e r q).started = q.started := by
  cases e <;> simp only [updReq] <;> (repeat' split) <;> rfl
theorem updReq_okWrites :
    (updReq m p e r q).okWrites = q.okWrites + if e = .wret (some r) .ok then 1 else 0 := by
  cases e <;> simp only [updReq] <;> (repeat' split) <;> simp_all
theorem updReq_p1count : (updReq m p e r q).p1count = q.p1count + if e = .p1 r then 1 else 0 := by
  cases e <;> simp only [updReq] <;> (repeat' split) <;> simp_all
theorem updReq_w1count : (updReq m p e r q).w1count = q.w1count + if e = .w1 r then 1 else 0 := by
  cases e <;> simp only [updReq] <;> (repeat' split) <;> simp_all
theorem updReq_asyncd : (updReq m p e r q).asyncd = true ↔ q.asyncd = true ∨ e = .hasync r := by
  cases e <;> simp only [updReq] <;> (repeat' split) <;> simp_all
theorem updReq_p2done : (updReq m p e r q).p2done = true ↔ q.p2done = true ∨ e = .p2 r := by
  cases e <;> simp only [updReq] <;> (repeat' split) <;> simp_all
theorem updReq_a2s :
    (updReq m p e r q).a2AfterShutdown = true → q.a2AfterShutdown = true ∨ (e = .a2 r ∧ p.shuttingDown = true) := by
  cases e <;> simp only [updReq] <;> (repeat' split) <;> simp_all
theorem updReq_pc :
    (updReq m p e r q).peerCancelled = true ↔
      q.peerCancelled = true ∨ ∃ id, e = .k1 id ∧ m.idx.lookup id = some r := by
  cases e <;> simp only [updReq] <;> (repeat' split) <;> simp_all

end upd

/-! ## the history invariant -/

/-- What the monitor's entry `q` of request `r` means, after the events of `tr` and the first `n`
observations of `tr` have been processed. -/
structure ReqHist (tr : Trace) (n : Nat) (r : Nat) (q : MReq) : Prop where
  kind : ∃ e, (reads tr)[r]? = some e ∧ e.isRead = true ∧ q.id = e.reqId ∧
    q.isNotif = !e.reqId.isSome ∧ q.isCancel = e.isCancelRead
  okw : q.okWrites ≤ cnt tr (· == .wret (some r) .ok)
  p1c : q.p1count ≤ cnt tr (· == .p1 r)
  w1c : 0 < q.w1count ↔ ∃ t, arrived tr r t ∧ evAt tr t = some (.w1 r)
  asy : q.asyncd = true ↔ ∃ t, arrived tr r t ∧ evAt tr t = some (.hasync r)
  p2d : q.p2done = true ↔ ∃ t, arrived tr r t ∧ evAt tr t = some (.p2 r)
  a2s : q.a2AfterShutdown = true → ∃ t, evAt tr t = some (.a2 r) ∧ (before tr t).shuttingDown = true
  pc : q.peerCancelled = true ↔ ∃ t id, evAt tr t = some (.k1 id) ∧ indexedAt tr t id = some r
  st : q.started = true ↔ ∃ i, i < n ∧ arrived tr r (i + 1) ∧ PTok.h r ∈ (obsAt tr i).parked

/-- What the monitor's state means after the events of `tr` and its first `n` observations. -/
structure Hist (tr : Trace) (n : Nat) (m : Mon) : Prop where
  sent : ∀ a b, (a, b) ∈ m.sent ↔ ∃ i, evAt tr i = some (.readResp a b)
  ncalls : m.ncalls = cnt tr Ev.isCallStart
  late : ∀ c ∈ m.startedLate, ∃ i, evAt tr i = some .ecall ∧ (before tr i).done = true ∧ c = callNoAt tr i
  ctxd : ∀ c, c ∈ m.ctxd ↔ ∃ i, evAt tr i = some (.ectx c)
  rx : m.rxSeen = true ↔ ∃ i, evAt tr i = some .rx
  broken : m.brokenSeen = true ↔ ∃ i w, evAt tr i = some (.wret w .broken)
  idx : m.idx = idxAt tr tr.length
  nreqs : m.reqs.length = (reads tr).length
  req : ∀ r q, m.reqs[r]? = some q → ReqHist tr n r q
  bad : ∀ c, c ∈ m.badCalls ↔ ∃ i, evAt tr i = some .ecallbad ∧ c = callNoAt tr i

theorem not_arrived_of_le {tr : Trace} {x : Label × Obs} {t : Nat} (h : t ≤ tr.length) :
    ¬ arrived (tr ++ [x]) (reads tr).length t := by
  unfold arrived
  rw [nreadsBefore_snoc_le h]
  exact Nat.not_lt.mpr (nreadsBefore_le t)

theorem evAt_snoc_le {tr : Trace} {x : Label × Obs} {t : Nat} {e : Ev} (h : evAt (tr ++ [x]) t = some e) :
    t ≤ tr.length := by
  have := evAt_some_lt h
  simp only [List.length_append, List.length_singleton] at this
  omega

/-- A freshly read request: the new table entry. -/
theorem reqHist_new {tr : Trace} {l : Label} {o : Obs} {q : MReq} (h : newReq (evOf l) = some q) :
    ReqHist (tr ++ [(l, o)]) tr.length (reads tr).length q := by
  have hr : (evOf l).isRead = true := by rw [← newReq_isSome, h]; rfl
  have hna : ∀ {t : Nat} {e : Ev}, evAt (tr ++ [(l, o)]) t = some e → ¬ arrived (tr ++ [(l, o)]) (reads tr).length t :=
    fun h => not_arrived_of_le (evAt_snoc_le h)
  have hq : q.okWrites = 0 ∧ q.p1count = 0 ∧ q.w1count = 0 ∧ q.asyncd = false ∧ q.p2done = false ∧
      q.a2AfterShutdown = false ∧ q.peerCancelled = false ∧ q.started = false ∧
      q.id = (evOf l).reqId ∧ q.isNotif = !(evOf l).reqId.isSome ∧ q.isCancel = (evOf l).isCancelRead := by
    generalize evOf l = e at h
    cases e <;> simp only [newReq, Option.some.injEq, reduceCtorEq] at h <;> subst h <;> simp [Ev.reqId, Ev.isCancelRead]
  obtain ⟨h1, h2, h3, h4, h5, h6, h7, h8, h9, h10, h11⟩ := hq
  refine ⟨⟨evOf l, ?_, hr, h9, h10, h11⟩, by omega, by omega, ?_, ?_, ?_, ?_, ?_, ?_⟩
  · simp [reads_snoc, hr]
  · rw [h3]; simp only [Nat.lt_irrefl, false_iff]; rintro ⟨t, ha, he⟩; exact hna he ha
  · rw [h4]; simp only [Bool.false_eq_true, false_iff]; rintro ⟨t, ha, he⟩; exact hna he ha
  · rw [h5]; simp only [Bool.false_eq_true, false_iff]; rintro ⟨t, ha, he⟩; exact hna he ha
  · rw [h6]; intro h; cases h
  · rw [h7]; simp only [Bool.false_eq_true, false_iff]; rintro ⟨t, id, he, hi⟩
    exact hna he (indexedAt_arrived hi)
  · rw [h8]; simp only [Bool.false_eq_true, false_iff]; rintro ⟨i, hi, ha, _⟩
    exact not_arrived_of_le (show i + 1 ≤ tr.length from hi) ha

/-- An existing table entry across `Mon.book`. -/
theorem reqHist_book {tr : Trace} {l : Label} {o : Obs} {m : Mon} {r : Nat} {q : MReq}
    (hidx : m.idx = idxAt tr tr.length) (hr : r < (reads tr).length) (h : ReqHist tr tr.length r q) :
    ReqHist (tr ++ [(l, o)]) tr.length r (updReq m (lastObs tr) (evOf l) r q) := by
  have hex := fun e => exists_arrived_snoc (tr := tr) (x := (l, o)) (e := e) hr
  refine ⟨?_, ?_, ?_, ?_, ?_, ?_, ?_, ?_, ?_⟩
  · obtain ⟨e, h1, h2, h3, h4, h5⟩ := h.kind
    refine ⟨e, ?_, h2, ?_, ?_, ?_⟩
    · rw [reads_snoc, List.getElem?_append_left hr]; exact h1
    · rw [updReq_id]; exact h3
    · rw [updReq_isNotif]; exact h4
    · rw [updReq_isCancel]; exact h5
  · rw [updReq_okWrites, cnt_snoc]
    have := h.okw
    simp only [beq_iff_eq]
    split <;> omega
  · rw [updReq_p1count, cnt_snoc]
    have := h.p1c
    simp only [beq_iff_eq]
    split <;> omega
  · rw [hex, ← h.w1c, updReq_w1count]
    simp only
    split <;> simp_all
  · rw [hex, ← h.asy, updReq_asyncd]
  · rw [hex, ← h.p2d, updReq_p2done]
  · intro h'
    rcases updReq_a2s _ _ _ _ _ h' with h' | ⟨h1, h2⟩
    · obtain ⟨t, ht, hb⟩ := h.a2s h'
      have hl := evAt_some_lt ht
      exact ⟨t, by rw [evAt_snoc_lt hl]; exact ht, by rw [before_snoc_le (Nat.le_of_lt hl)]; exact hb⟩
    · exact ⟨tr.length, by simp [h1], by simpa using h2⟩
  · rw [updReq_pc, h.pc]
    constructor
    · rintro (⟨t, id, he, hi⟩ | ⟨id, he, hi⟩)
      · have hl := evAt_some_lt he
        exact ⟨t, id, by rw [evAt_snoc_lt hl]; exact he, by rw [indexedAt_snoc_le (Nat.le_of_lt hl)]; exact hi⟩
      · refine ⟨tr.length, id, by simp [he], ?_⟩
        rw [indexedAt_snoc_le (Nat.le_refl _), indexedAt, ← hidx]; exact hi
    · rintro ⟨t, id, he, hi⟩
      rcases evAt_snoc_some he with ⟨hl, he'⟩ | ⟨hl, he'⟩
      · rw [indexedAt_snoc_le (Nat.le_of_lt hl)] at hi
        exact .inl ⟨t, id, he', hi⟩
      · subst hl
        rw [indexedAt_snoc_le (Nat.le_refl _), indexedAt, ← hidx] at hi
        exact .inr ⟨id, he', hi⟩
  · rw [updReq_started, h.st]
    constructor
    · rintro ⟨i, hi, ha, hp⟩
      exact ⟨i, hi, (arrived_snoc_le (show i + 1 ≤ tr.length from hi)).mpr ha, by rw [obsAt_snoc_lt hi]; exact hp⟩
    · rintro ⟨i, hi, ha, hp⟩
      exact ⟨i, hi, (arrived_snoc_le (show i + 1 ≤ tr.length from hi)).mp ha, by rwa [obsAt_snoc_lt hi] at hp⟩

/-- A table entry across `Mon.mark`. -/
theorem reqHist_mark {tr : Trace} {n r : Nat} {q : MReq} (ha : arrived tr r (n + 1)) (h : ReqHist tr n r q) :
    ReqHist tr (n + 1) r (if (obsAt tr n).parked.contains (.h r) then { q with started := true } else q) := by
  have hst : (if (obsAt tr n).parked.contains (.h r) then { q with started := true } else q).started = true ↔
      q.started = true ∨ PTok.h r ∈ (obsAt tr n).parked := by
    split <;> simp_all
  have hsame : ∀ {β : Type} (f : MReq → β), (∀ q b, f { q with started := b } = f q) →
      f (if (obsAt tr n).parked.contains (.h r) then { q with started := true } else q) = f q := by
    intro β f hf; split
    · exact hf _ _
    · rfl
  refine ⟨?_, ?_, ?_, ?_, ?_, ?_, ?_, ?_, ?_⟩
  · rw [hsame (·.id) (fun _ _ => rfl), hsame (·.isNotif) (fun _ _ => rfl), hsame (·.isCancel) (fun _ _ => rfl)]
    exact h.kind
  · rw [hsame (·.okWrites) (fun _ _ => rfl)]; exact h.okw
  · rw [hsame (·.p1count) (fun _ _ => rfl)]; exact h.p1c
  · rw [hsame (·.w1count) (fun _ _ => rfl)]; exact h.w1c
  · rw [hsame (·.asyncd) (fun _ _ => rfl)]; exact h.asy
  · rw [hsame (·.p2done) (fun _ _ => rfl)]; exact h.p2d
  · rw [hsame (·.a2AfterShutdown) (fun _ _ => rfl)]; exact h.a2s
  · rw [hsame (·.peerCancelled) (fun _ _ => rfl)]; exact h.pc
  · rw [hst, h.st]
    constructor
    · rintro (⟨i, hi, hh⟩ | hp)
      · exact ⟨i, by omega, hh⟩
      · exact ⟨n, by omega, ha, hp⟩
    · rintro ⟨i, hi, ha', hp⟩
      by_cases hin : i < n
      · exact .inl ⟨i, hin, ha', hp⟩
      · have : i = n := by omega
        subst this
        exact .inr hp

/-- The monitor's table entry of request `r` carries the wire id the trace gives it. -/
theorem Hist.reqId {tr : Trace} {n : Nat} {m : Mon} (h : Hist tr n m) (r : Nat) :
    (m.reqs[r]?).bind (·.id) = reqIdAt tr tr.length r := by
  simp only [reqIdAt, List.take_length]
  cases hq : m.reqs[r]? with
  | none =>
    have : (reads tr).length ≤ r := by rw [← h.nreqs]; exact List.getElem?_eq_none_iff.mp hq
    simp [List.getElem?_eq_none this]
  | some q =>
    obtain ⟨e, h1, _, h3, _⟩ := (h.req r q hq).kind
    simp [h1, h3]

theorem hist_book {tr : Trace} {m : Mon} (l : Label) (o : Obs) (h : Hist tr tr.length m) :
    Hist (tr ++ [(l, o)]) tr.length (m.book (lastObs tr) (evOf l)) := by
  refine ⟨?_, ?_, ?_, ?_, ?_, ?_, ?_, ?_, ?_, ?_⟩
  rotate_right
  · intro c
    rw [book_badCalls]
    constructor
    · rintro (hc | ⟨h1, h3⟩)
      · obtain ⟨i, hi, hn⟩ := (h.bad c).mp hc
        have hl := evAt_some_lt hi
        exact ⟨i, by rw [evAt_snoc_lt hl]; exact hi, by rw [callNoAt_snoc_lt hl]; exact hn⟩
      · refine ⟨tr.length, by simp [h1], ?_⟩
        rw [callNoAt_snoc_len, cnt_snoc, h3, h.ncalls]; simp [h1, Ev.isCallStart]
    · rintro ⟨i, hi, hn⟩
      rcases evAt_snoc_some hi with ⟨hl, hi'⟩ | ⟨hl, hi'⟩
      · left
        exact (h.bad c).mpr ⟨i, hi', by rw [callNoAt_snoc_lt hl] at hn; exact hn⟩
      · right
        subst hl
        refine ⟨hi', ?_⟩
        rw [hn, callNoAt_snoc_len, cnt_snoc, h.ncalls]; simp [hi', Ev.isCallStart]
  · intro a b; rw [book_sent, exists_evAt_snoc, h.sent]
  · rw [book_ncalls, cnt_snoc, h.ncalls]
  · intro c hc
    rcases book_startedLate _ _ _ _ hc with hc | ⟨h1, h2, h3⟩
    · obtain ⟨i, hi, hd, hn⟩ := h.late c hc
      have hl := evAt_some_lt hi
      exact ⟨i, by rw [evAt_snoc_lt hl]; exact hi, by rw [before_snoc_le (Nat.le_of_lt hl)]; exact hd,
        by rw [callNoAt_snoc_lt hl]; exact hn⟩
    · refine ⟨tr.length, by simp [h1], by simpa using h2, ?_⟩
      rw [callNoAt_snoc_len, cnt_snoc, h3, h.ncalls]; simp [h1, Ev.isCallStart]
  · intro c; rw [book_ctxd, exists_evAt_snoc, h.ctxd]
  · rw [book_rxSeen, exists_evAt_snoc, h.rx]
  · rw [book_brokenSeen, h.broken]
    constructor
    · rintro (⟨i, w, hi⟩ | ⟨w, hw⟩)
      · exact ⟨i, w, by rw [evAt_snoc_lt (evAt_some_lt hi)]; exact hi⟩
      · exact ⟨tr.length, w, by simp [hw]⟩
    · rintro ⟨i, w, hi⟩
      rcases evAt_snoc_some hi with ⟨_, hi'⟩ | ⟨_, hi'⟩
      · exact .inl ⟨i, w, hi'⟩
      · exact .inr ⟨w, hi'⟩
  · rw [book_idx]
    simp only [List.length_append, List.length_singleton, idxAt, evAt_snoc_len,
      idxAt_snoc_le (Nat.le_refl tr.length), reqIdAt_snoc_le (Nat.le_refl tr.length), ← h.idx, ← h.reqId]
    cases evOf l <;> rfl
  · rw [book_reqs_length, reads_snoc, List.length_append, h.nreqs]
    split <;> rfl
  · intro r q hq
    rw [book_reqs_get] at hq
    split at hq
    · rename_i hr
      rw [hr, h.nreqs]
      exact reqHist_new hq
    · cases hq0 : m.reqs[r]? with
      | none => simp [hq0] at hq
      | some q0 =>
        simp only [hq0, Option.map_some, Option.some.injEq] at hq
        subst hq
        have hr : r < (reads tr).length := by rw [← h.nreqs]; exact (List.getElem?_eq_some_iff.mp hq0).1
        exact reqHist_book h.idx hr (h.req r q0 hq0)

theorem hist_mark {tr : Trace} {n : Nat} {m : Mon} (hn : tr.length ≤ n + 1) (h : Hist tr n m) :
    Hist tr (n + 1) { m.mark (obsAt tr n) with prev := obsAt tr n } := by
  refine ⟨h.sent, h.ncalls, h.late, h.ctxd, h.rx, h.broken, h.idx, ?_, ?_, h.bad⟩
  · simp [Mon.mark, h.nreqs]
  · intro r q hq
    simp only [mark_get] at hq
    cases hq0 : m.reqs[r]? with
    | none => simp [hq0] at hq
    | some q0 =>
      simp only [hq0, Option.map_some, Option.some.injEq] at hq
      subst hq
      have hr : r < (reads tr).length := by rw [← h.nreqs]; exact (List.getElem?_eq_some_iff.mp hq0).1
      refine reqHist_mark ?_ (h.req r q0 hq0)
      unfold arrived
      rwa [nreadsBefore_ge hn]

theorem hist_nil : Hist [] 0 {} := by
  refine ⟨?_, rfl, ?_, ?_, ?_, ?_, rfl, rfl, ?_, ?_⟩ <;> simp [evAt]

/-! ### the cancel bookkeeping (`Mon.bookCancel`) -/

theorem bookCancel_eq (m : Mon) (e : Ev) : ∃ a u, m.bookCancel e = { m with cancelAsked := a, unasked := u } := by
  cases e <;> simp only [Mon.bookCancel]
  case k1 id => split <;> exact ⟨_, _, rfl⟩
  all_goals exact ⟨_, _, rfl⟩

theorem bookCancel_prev (m : Mon) (e : Ev) : (m.bookCancel e).prev = m.prev := by
  obtain ⟨a, u, h⟩ := bookCancel_eq m e; rw [h]

/-- `bookCancel` touches only the cancel fields: the rest of the history is unchanged. -/
theorem hist_bookCancel {tr : Trace} {n : Nat} {m : Mon} (e : Ev) (h : Hist tr n m) : Hist tr n (m.bookCancel e) := by
  obtain ⟨a, u, he⟩ := bookCancel_eq m e
  rw [he]
  exact ⟨h.sent, h.ncalls, h.late, h.ctxd, h.rx, h.broken, h.idx, h.nreqs, h.req, h.bad⟩

theorem book_cancel_fields (m : Mon) (p : Obs) (e : Ev) :
    (m.book p e).cancelAsked = m.cancelAsked ∧ (m.book p e).unasked = m.unasked := by
  cases e <;> simp only [Mon.book]
  all_goals (repeat' split)
  all_goals first | exact ⟨rfl, rfl⟩ | (simp [modR]; done)

/-- History of the cancel bookkeeping: every id in `unasked` stems from a `K1` that exceeded the number
of cancellations read for that id; the cancellations read are covered by those still available plus
the `K1`s seen. -/
structure HistC (tr : Trace) (m : Mon) : Prop where
  un : ∀ id ∈ m.unasked, ∃ k, k < tr.length ∧ evAt tr k = some (.k1 id) ∧
    cnt (tr.take (k + 1)) (· == .readCancel id) < cnt (tr.take (k + 1)) (· == .k1 id)
  bal : ∀ id, cnt tr (· == .readCancel id) ≤ m.cancelAsked.count id + cnt tr (· == .k1 id)

theorem histC_nil : HistC [] {} := ⟨fun id h => by simp at h, fun id => by simp⟩

theorem histC_bookCancel {tr : Trace} {m : Mon} (l : Label) (o : Obs) (h : HistC tr m) :
    HistC (tr ++ [(l, o)]) (m.bookCancel (evOf l)) := by
  have hold : ∀ id ∈ m.unasked, ∃ k, k < (tr ++ [(l, o)]).length ∧ evAt (tr ++ [(l, o)]) k = some (.k1 id) ∧
      cnt ((tr ++ [(l, o)]).take (k + 1)) (· == .readCancel id) < cnt ((tr ++ [(l, o)]).take (k + 1)) (· == .k1 id) := by
    intro id hid
    obtain ⟨k, hk, he, hc⟩ := h.un id hid
    refine ⟨k, by simp; omega, by rw [evAt_snoc_lt hk]; exact he, ?_⟩
    rw [take_snoc_le (by omega)]; exact hc
  cases he : evOf l with
  | readCancel id0 =>
    refine ⟨hold, fun id => ?_⟩
    have := h.bal id
    simp only [Mon.bookCancel, cnt_snoc, he, List.count_append]
    by_cases hid : id0 = id
    · subst hid; simp; omega
    · have h1 : (Ev.readCancel id0 == Ev.readCancel id) = false := by simp [hid]
      simp [h1, hid]; omega
  | k1 id0 =>
    simp only [Mon.bookCancel]
    split
    · rename_i hcon
      refine ⟨hold, fun id => ?_⟩
      have := h.bal id
      simp only [cnt_snoc, he]
      by_cases hid : id = id0
      · subst hid
        have hpos : 0 < m.cancelAsked.count id := List.count_pos_iff.mpr (List.contains_iff_mem.mp hcon)
        rw [List.count_erase_self]; simp; omega
      · have h1 : (Ev.k1 id0 == Ev.k1 id) = false := by simp; exact fun h => hid h.symm
        rw [List.count_erase_of_ne hid]; simp [h1]; omega
    · rename_i hcon
      refine ⟨fun id hid => ?_, fun id => ?_⟩
      · simp only [List.mem_append, List.mem_singleton] at hid
        rcases hid with hid | rfl
        · exact hold id hid
        · refine ⟨tr.length, by simp, by simp [he], ?_⟩
          have hb := h.bal id
          have h0 : m.cancelAsked.count id = 0 := by
            rw [List.count_eq_zero]; intro hm; exact hcon (List.contains_iff_mem.mpr hm)
          rw [List.take_of_length_le (by simp)]
          simp only [cnt_snoc, he]
          simp; omega
      · have := h.bal id
        simp only [cnt_snoc, he]
        simp; omega
  | _ =>
    refine ⟨hold, fun id => ?_⟩
    have := h.bal id
    simp only [Mon.bookCancel, cnt_snoc, he]
    simpa using this

/-- The monitor after one more step. -/
theorem monStepT_fst (m : Mon) (l : Label) (o : Obs) :
    (monStepT m l o).1 = { ((m.bookCancel (evOf l)).book m.prev (evOf l)).mark o with prev := o } := rfl

theorem monStepT_snd (m : Mon) (l : Label) (o : Obs) :
    (monStepT m l o).2 = chkAll ((m.bookCancel (evOf l)).book m.prev (evOf l)) m.prev o (evOf l) := rfl

/-- THE HISTORY INVARIANT: the monitor's state after `tr` is the history of `tr`. -/
theorem hist_after : ∀ tr : Trace, Hist tr tr.length (monAfter {} tr) ∧ (monAfter {} tr).prev = lastObs tr := by
  intro tr
  induction tr using snoc_induction with
  | nil => exact ⟨hist_nil, rfl⟩
  | snoc tr x ih =>
    obtain ⟨l, o⟩ := x
    obtain ⟨ih, hp⟩ := ih
    rw [monAfter_snoc, monStepT_fst, hp]
    refine ⟨?_, by simp⟩
    have hb := hist_book l o (hist_bookCancel (evOf l) ih)
    have := hist_mark (tr := tr ++ [(l, o)]) (n := tr.length) (by simp) hb
    simpa using this

/-- The history of the cancel bookkeeping after `tr`. -/
theorem histC_after : ∀ tr : Trace, HistC tr (monAfter {} tr) := by
  intro tr
  induction tr using snoc_induction with
  | nil => exact histC_nil
  | snoc tr x ih =>
    obtain ⟨l, o⟩ := x
    rw [monAfter_snoc, monStepT_fst]
    have hb := histC_bookCancel l o ih
    obtain ⟨h1, h2⟩ := book_cancel_fields ((monAfter {} tr).bookCancel (evOf l)) (monAfter {} tr).prev (evOf l)
    exact ⟨fun id hid => hb.un id (by rw [← h2]; exact hid), fun id => by
      have := hb.bal id; rw [← h1] at this; exact this⟩

/-- What the checks see when the monitor takes the step that extends `tr` by `(l, o)`: the booked
history (all events of the extended trace, the observations of `tr`). -/
theorem hist_booked (tr : Trace) (l : Label) (o : Obs) :
    Hist (tr ++ [(l, o)]) tr.length (((monAfter {} tr).bookCancel (evOf l)).book (lastObs tr) (evOf l)) ∧
    HistC (tr ++ [(l, o)]) (((monAfter {} tr).bookCancel (evOf l)).book (lastObs tr) (evOf l)) ∧
    (monStepT (monAfter {} tr) l o).2 =
      chkAll (((monAfter {} tr).bookCancel (evOf l)).book (lastObs tr) (evOf l)) (lastObs tr) o (evOf l) := by
  obtain ⟨ih, hp⟩ := hist_after tr
  have hb := histC_bookCancel l o (histC_after tr)
  obtain ⟨h1, h2⟩ := book_cancel_fields ((monAfter {} tr).bookCancel (evOf l)) (lastObs tr) (evOf l)
  refine ⟨hist_book l o (hist_bookCancel (evOf l) ih), ⟨fun id hid => hb.un id (by rw [← h2]; exact hid), fun id => by
      have := hb.bal id; rw [← h1] at this; exact this⟩, by rw [monStepT_snd, hp]⟩

end Conn
