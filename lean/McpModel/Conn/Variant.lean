import McpModel.Conn.Deadlock
/-!
Termination measure for the connection's own steps (C05 mechanism "work admitted during shutdown is
strictly decreasing"): every internal label (critical section) strictly decreases `mu`, so a run made of
internal labels only is at most `mu s` long — the connection cannot livelock; new work only comes from the
environment (users starting calls/notifications/Close, the peer sending messages, handlers and transport
writes returning).
-/
namespace Conn

def wCall : CallPc → Nat
  | .c1 => 13 | .w1 => 12 | .wr => 11 | .w2 _ => 10 | .r _ => 9 | .await => 8 | .rc => 7 | .fin => 0
def wNotif : NotifPc → Nat
  | .n1 => 5 | .w1 => 4 | .wr => 3 | .w2 _ => 2 | .n2 _ => 1 | .fin _ => 0
def wReq : ReqPc → Nat
  | .a1 => 19 | .a2 => 16 | .queued => 14 | .running => 12 | .p1 => 10 | .w1 => 8 | .wr => 6 | .w2 _ => 4 | .p2 => 2 | .fin => 0
def wReader : ReaderPc → Nat
  | .start | .rr _ _ | .rx => 1
  | _ => 0
def wDisp : DispPc → Nat
  | .none => 0
  | _ => 1

def sumBy {α : Type} (w : α → Nat) : List α → Nat
  | [] => 0
  | a :: t => w a + sumBy w t

theorem sumBy_append {α : Type} (w : α → Nat) (l : List α) (a : α) : sumBy w (l ++ [a]) = sumBy w l + w a := by
  induction l with
  | nil => simp [sumBy]
  | cons b t ih => simp [sumBy, ih]; omega

theorem sumBy_modify {α : Type} (w : α → Nat) (l : List α) (k : Nat) (a : α) (f : α → α) (h : l[k]? = some a) :
    sumBy w (l.modify k f) + w a = sumBy w l + w (f a) := by
  induction l generalizing k with
  | nil => simp at h
  | cons b t ih =>
    cases k with
    | zero => simp at h; subst h; simp [List.modify, sumBy]; omega
    | succ k => simp at h; have := ih k h; simp [List.modify, sumBy] at this ⊢; omega

theorem sumBy_modify_same {α : Type} (w : α → Nat) (l : List α) (k : Nat) (f : α → α) (h : ∀ a, w (f a) = w a) :
    sumBy w (l.modify k f) = sumBy w l := by
  cases hk : l[k]? with
  | none =>
    have : l.modify k f = l := by
      apply List.ext_getElem?; intro j
      rw [List.getElem?_modify]
      by_cases hj : k = j
      · subst hj; simp [hk]
      · simp [hj]
    rw [this]
  | some a =>
    have := sumBy_modify w l k a f hk
    rw [h a] at this; omega

theorem sumBy_map_le {α : Type} (w : α → Nat) (l : List α) (f : α → α) (h : ∀ a, w (f a) ≤ w a) :
    sumBy w (l.map f) ≤ sumBy w l := by
  induction l with
  | nil => simp [sumBy]
  | cons b t ih => simp only [List.map, sumBy]; have := h b; omega

def muCalls (s : St) : Nat := sumBy (fun c : Call => wCall c.pc) s.calls
def muNotifs (s : St) : Nat := sumBy (fun n : Notif => wNotif n.pc) s.unotifs + sumBy (fun n : Notif => wNotif n.pc) s.cnotifs
def muReqs (s : St) : Nat := sumBy (fun k : ReqCore => wReq k.pc) s.cores
def muRest (s : St) : Nat :=
  s.cancels.length + wDisp s.disp + wReader s.reader + 3 * s.closeCl1 + 2 * s.closeWaiting + s.closeWt +
    2 * s.waitWaiting + s.waitWt

/-- The termination measure. -/
def mu (s : St) : Nat := muCalls s + muNotifs s + muReqs s + muRest s

/-! effect of the helper functions on the measure -/

theorem mu_tail (s : St) : mu (tail s) = mu s := by
  unfold tail finish closeTransport; repeat' split
  all_goals rfl

theorem mu_modMeta (s : St) (r : Nat) (f : ReqMeta → ReqMeta) : mu (modMeta s r f) = mu s := rfl
theorem mu_cancelReq (s : St) (r : Nat) (c : Cause) : mu (cancelReq s r c) = mu s := rfl

theorem mu_foldl_cancel (l : List (Nat × Nat)) (c : Cause) (s : St) :
    mu (l.foldl (fun s p => cancelReq s p.2 c) s) = mu s := by
  induction l generalizing s with
  | nil => rfl
  | cons p t ih => simp [List.foldl, ih, mu_cancelReq]

theorem mu_markBroken (s : St) : mu (markBroken s) = mu s := by
  unfold markBroken; split
  · rfl
  · rw [mu_foldl_cancel]; rfl

theorem mu_panicRetire (X : St) : mu { X with panicRetire := true } = mu X := rfl

theorem mu_retireIn (s : St) (n : Nat) (r : Res) : mu (retireIn s n r) = mu s := by
  cases hc : getCall s n with
  | none => simp [retireIn, hc]
  | some c =>
    have key : ∀ c' : Call, c'.pc = c.pc → mu (modCall s n fun _ => c') = mu s := by
      intro c' hpc
      have := sumBy_modify (fun c : Call => wCall c.pc) s.calls (n - 1) c (fun _ => c') (calls_get0 hc)
      simp only [hpc] at this
      simp only [mu, muCalls, muNotifs, muReqs, muRest, modCall]
      omega
    cases hr : c.ready with
    | some x =>
      simp only [retireIn, hc, retireCall, hr, if_true]
      rw [mu_panicRetire]; exact key c rfl
    | none =>
      simp only [retireIn, hc, retireCall, hr]
      exact key _ rfl

theorem mu_foldl_retire (l : List Nat) (r : Res) (s : St) :
    mu (l.foldl (fun s n => retireIn s n r) s) = mu s := by
  induction l generalizing s with
  | nil => rfl
  | cons a t ih => simp [List.foldl, ih, mu_retireIn]

theorem mu_modCall (s : St) (n : Nat) (f : Call → Call) (c : Call) (hc : getCall s n = some c) :
    mu (modCall s n f) + wCall c.pc = mu s + wCall (f c).pc := by
  have := sumBy_modify (fun c : Call => wCall c.pc) s.calls (n - 1) c f (calls_get0 hc)
  simp only [mu, muCalls, muNotifs, muReqs, muRest, modCall]
  omega

theorem mu_modCore (s : St) (r : Nat) (g : ReqCore → ReqCore) (k : ReqCore) (hk : s.cores[r]? = some k) :
    mu (modCore s r g) + wReq k.pc = mu s + wReq (g k).pc := by
  have := sumBy_modify (fun k : ReqCore => wReq k.pc) s.cores r k g hk
  simp only [mu, muCalls, muNotifs, muReqs, muRest, modCore]
  omega

theorem mu_setNotif (s : St) (w : Who) (f : Notif → Notif) (nf : Notif) (h : getNotif s w = some nf) :
    mu (setNotif s w f) + wNotif nf.pc = mu s + wNotif (f nf).pc := by
  cases w with
  | call n => simp [getNotif] at h
  | resp r => simp [getNotif] at h
  | unotif k =>
    have := sumBy_modify (fun n : Notif => wNotif n.pc) s.unotifs k nf f h
    simp only [mu, muCalls, muNotifs, muReqs, muRest, setNotif]; omega
  | cnotif k =>
    have := sumBy_modify (fun n : Notif => wNotif n.pc) s.cnotifs k nf f h
    simp only [mu, muCalls, muNotifs, muReqs, muRest, setNotif]; omega

theorem mu_toP2 (s : St) (r : Nat) (k : ReqCore) (hk : s.cores[r]? = some k) :
    mu (toP2 s r) + wReq k.pc = mu s + 2 := by
  unfold toP2; rw [mu_cancelReq]
  have := mu_modCore s r (fun q => { q with pc := .p2 }) k hk
  simpa [wReq] using this

theorem mu_beginPR (s : St) (r : Nat) (o : Owner) (k : ReqCore) (hk : s.cores[r]? = some k) :
    mu (beginPR s r o) + wReq k.pc ≤ mu s + 10 := by
  unfold beginPR; simp only [hk]
  split
  · have : mu (modCore s r (fun q => { q with owner := o, pc := .p1 })) + wReq k.pc = mu s + 10 :=
      mu_modCore s r (fun q => { q with owner := o, pc := .p1 }) k hk
    omega
  · have hk' : (modCore s r fun q => { q with owner := o }).cores[r]? = some { k with owner := o } := by
      simp [modCore, List.getElem?_modify, hk]
    have h1 : mu (modCore s r (fun q => { q with owner := o })) + wReq k.pc = mu s + wReq k.pc :=
      mu_modCore s r (fun q => { q with owner := o }) k hk
    have h2 : mu (toP2 (modCore s r fun q => { q with owner := o }) r) + wReq k.pc = mu (modCore s r fun q => { q with owner := o }) + 2 :=
      mu_toP2 (modCore s r fun q => { q with owner := o }) r { k with owner := o } hk'
    omega

theorem mu_settle_le (s : St) : mu (settle s) ≤ mu s := by
  have h1 : mu (settleCalls s) ≤ mu s := by
    have := sumBy_map_le (fun c : Call => wCall c.pc) s.calls settleCall (fun c => by
      unfold settleCall; repeat' split
      all_goals simp_all [wCall])
    simp only [mu, muCalls, muNotifs, muReqs, muRest, settleCalls]; omega
  have h2 : ∀ X : St, mu (settleWaiters X) ≤ mu X := by
    intro X; unfold settleWaiters; split
    · simp only [mu, muCalls, muNotifs, muReqs, muRest]; omega
    · exact Nat.le_refl _
  have h3 : ∀ X : St, mu (settleDisp X) ≤ mu X := by
    intro X; unfold settleDisp
    split
    · rename_i r hd
      split
      · split
        · simp only [mu, muCalls, muNotifs, muReqs, muRest, hd, wDisp]; omega
        · exact Nat.le_refl _
      · exact Nat.le_refl _
    · exact Nat.le_refl _
  unfold settle
  exact Nat.le_trans (h3 _) (Nat.le_trans (h2 _) h1)

end Conn

namespace Conn

/-- The program counter of call `n`, if it exists. -/
def callPc (s : St) (n : Nat) : Option CallPc := (getCall s n).map (·.pc)

theorem callPc_of_calls {X s : St} (h : X.calls = s.calls) (n : Nat) : callPc X n = callPc s n := by
  simp [callPc, getCall_eq, h]

theorem callPc_tail (s : St) (n : Nat) : callPc (tail s) n = callPc s n := callPc_of_calls (tail_calls s) n

theorem callPc_retireIn (s : St) (m : Nat) (r : Res) (n : Nat) : callPc (retireIn s m r) n = callPc s n := by
  have hmap : (retireIn s m r).calls.map (·.pc) = s.calls.map (·.pc) := by
    cases hc : getCall s m with
    | none => simp [retireIn, hc]
    | some c =>
      have key : ∀ c' : Call, c'.pc = c.pc → (s.calls.modify (m - 1) fun _ => c').map (·.pc) = s.calls.map (·.pc) := by
        intro c' hpc
        apply List.ext_getElem?; intro j
        simp only [List.getElem?_map, List.getElem?_modify]
        by_cases hj : m - 1 = j
        · subst hj; simp [calls_get0 hc, hpc]
        · simp [hj]
      cases hr : c.ready with
      | some x => simp only [retireIn, hc, retireCall, hr, if_true]; exact key c rfl
      | none => simp only [retireIn, hc, retireCall, hr]; exact key _ rfl
  unfold callPc
  simp only [getCall_eq]
  split
  · rfl
  · have := congrArg (fun l => l[n - 1]?) hmap
    simpa [List.getElem?_map] using this

theorem mu_modCall' (s : St) (n : Nat) (f : Call → Call) (p q : CallPc) (hp : callPc s n = some p)
    (hf : ∀ c, c.pc = p → (f c).pc = q) : mu (modCall s n f) + wCall p = mu s + wCall q := by
  unfold callPc at hp
  cases hc : getCall s n with
  | none => simp [hc] at hp
  | some c =>
    simp [hc] at hp
    have := mu_modCall s n f c hc
    rw [hp, hf c hp] at this; exact this

theorem getNotif_of {X s : St} (hu : X.unotifs = s.unotifs) (hc : X.cnotifs = s.cnotifs) (w : Who) :
    getNotif X w = getNotif s w := by
  cases w <;> simp [getNotif, hu, hc]

theorem erase_length_lt {l : List Nat} {a : Nat} (h : l.contains a = true) : (l.erase a).length + 1 = l.length := by
  have hm : a ∈ l := by simpa using h
  rw [List.length_erase_of_mem hm]
  have : 0 < l.length := List.length_pos_of_mem hm
  omega

end Conn

namespace Conn

theorem lt_start {s s' : St} (h : step0 s .start = some s') : mu s' < mu s := by
  simp only [step0] at h
  split at h
  · cases h
  · rename_i hrd
    have hrd : s.reader = .start := by simpa using hrd
    split at h <;> cases h <;> rw [mu_tail] <;> simp only [mu, muCalls, muNotifs, muReqs, muRest, hrd, wReader] <;> omega

theorem lt_n1 {s s' : St} {w : Who} (h : step0 s (.n1 w) = some s') : mu s' < mu s := by
  simp only [step0] at h
  split at h
  · cases h
  · rename_i nf hnf
    split at h
    · cases h
    · rename_i hpc
      have hpc : nf.pc = .n1 := by simpa using hpc
      split at h <;> cases h <;> rw [mu_tail]
      · have := mu_setNotif s w (fun nf => { nf with pc := .fin (some .clientClosing) }) nf hnf
        simp only [hpc, wNotif] at this; omega
      · have := mu_setNotif { s with outNotifs := s.outNotifs + 1 } w (fun nf => { nf with pc := .w1 }) nf
          ((getNotif_of rfl rfl w).trans hnf)
        have e : mu { s with outNotifs := s.outNotifs + 1 } = mu s := rfl
        simp only [hpc, wNotif] at this; omega

theorem lt_n2 {s s' : St} {w : Who} (h : step0 s (.n2 w) = some s') : mu s' < mu s := by
  simp only [step0] at h
  split at h
  · cases h
  · rename_i nf hnf
    split at h
    · rename_i res hpc
      cases h; rw [mu_tail]
      have := mu_setNotif { s with outNotifs := s.outNotifs - 1 } w (fun nf => { nf with pc := .fin res }) nf
        ((getNotif_of rfl rfl w).trans hnf)
      have e : mu { s with outNotifs := s.outNotifs - 1 } = mu s := rfl
      simp only [hpc, wNotif] at this; omega
    · cases h

theorem lt_c1 {s s' : St} {n : Nat} (h : step0 s (.c1 n) = some s') : mu s' < mu s := by
  simp only [step0] at h
  split at h
  · cases h
  · rename_i c hc
    split at h
    · cases h
    · rename_i hpc
      have hpc : c.pc = .c1 := by simpa using hpc
      have hp : callPc s n = some .c1 := by simp [callPc, hc, hpc]
      split at h <;> cases h
      · rw [mu_retireIn]
        have := mu_modCall' (tail s) n (fun c => { c with pc := .await }) .c1 .await ((callPc_tail s n).trans hp) (fun _ _ => rfl)
        rw [mu_tail] at this; simp only [wCall] at this; omega
      · rw [mu_tail]
        have := mu_modCall' { s with outCalls := s.outCalls ++ [n] } n (fun c => { c with pc := .w1, registered := true }) .c1 .w1
          ((callPc_of_calls rfl n).trans hp) (fun _ _ => rfl)
        have e : mu { s with outCalls := s.outCalls ++ [n] } = mu s := rfl
        simp only [wCall] at this; omega

theorem mu_addCnotif (X : St) (nf : Notif) : mu { X with cnotifs := X.cnotifs ++ [nf] } = mu X + wNotif nf.pc := by
  have := sumBy_append (fun n : Notif => wNotif n.pc) X.cnotifs nf
  simp only [mu, muCalls, muNotifs, muReqs, muRest, this]; omega

theorem lt_retire {s s' : St} {n : Nat} (h : step0 s (.retire n) = some s') : mu s' < mu s := by
  simp only [step0] at h
  split at h
  · cases h
  · rename_i c hc
    split at h
    · cases h
    · rename_i err viaCtx he
      generalize hS : tail (if s.outCalls.contains n = true then retireIn { s with outCalls := s.outCalls.erase n } n (.err err) else s) = S at h
      have hS1 : callPc S n = callPc s n := by
        rw [← hS, callPc_tail]
        split
        · rw [callPc_retireIn]; exact callPc_of_calls rfl n
        · rfl
      have hS2 : mu S = mu s := by
        rw [← hS, mu_tail]
        split
        · rw [mu_retireIn]; rfl
        · rfl
      cases hp : c.pc <;> simp [hp] at he
      · rename_i e'
        obtain ⟨rfl, rfl⟩ := he
        simp at h; subst h
        have := mu_modCall' S n (fun c => { c with pc := .await }) (.r e') .await
          (by rw [hS1]; simp [callPc, hc, hp]) (fun _ _ => rfl)
        simp only [wCall] at this; omega
      · obtain ⟨rfl, rfl⟩ := he
        simp at h; subst h
        have h1 := mu_modCall' S n (fun c => { c with pc := .fin, result := some (.err .ctx) }) .rc .fin
          (by rw [hS1]; simp [callPc, hc, hp]) (fun _ _ => rfl)
        have h2 := mu_addCnotif (modCall S n fun c => { c with pc := .fin, result := some (.err .ctx) }) { cancelFor := some n }
        simp only [wCall] at h1
        simp only [wNotif] at h2
        calc mu _ = mu (modCall S n fun c => { c with pc := .fin, result := some (.err .ctx) }) + 5 := h2
          _ < mu s := by omega

end Conn

namespace Conn

theorem lt_k1 {s s' : St} {id : Nat} (h : step0 s (.k1 id) = some s') : mu s' < mu s := by
  simp only [step0] at h
  split at h
  · cases h
  · rename_i hc
    have hc : s.cancels.contains id = true := by simpa using hc
    have hl := erase_length_lt hc
    have key : mu (tail { s with cancels := s.cancels.erase id }) < mu s := by
      rw [mu_tail]; simp only [mu, muCalls, muNotifs, muReqs, muRest]; omega
    split at h <;> cases h
    · rw [mu_cancelReq]; exact key
    · exact key

theorem lt_wt {s s' : St} {b : Bool} (h : step0 s (.wt b) = some s') : mu s' < mu s := by
  simp only [step0] at h
  split at h
  · cases h
  · split at h
    · split at h
      · cases h
      · rename_i hz
        cases h; rw [mu_tail]; simp only [mu, muCalls, muNotifs, muReqs, muRest]; omega
    · split at h
      · cases h
      · rename_i hz
        cases h; rw [mu_tail]; simp only [mu, muCalls, muNotifs, muReqs, muRest]; omega

theorem lt_cl1 {s s' : St} (h : step0 s .cl1 = some s') : mu s' < mu s := by
  simp only [step0] at h
  split at h
  · cases h
  · rename_i hz
    cases h; rw [mu_tail]; simp only [mu, muCalls, muNotifs, muReqs, muRest]; omega

theorem lt_rresp {s s' : St} (h : step0 s .rresp = some s') : mu s' < mu s := by
  simp only [step0] at h
  split at h
  · rename_i id p hrd
    cases h; rw [mu_tail]
    have key : mu { s with reader := ReaderPc.read, respLog := s.respLog ++ [(id, p)] } < mu s := by
      simp only [mu, muCalls, muNotifs, muReqs, muRest, hrd, wReader]; omega
    split
    · rw [mu_retireIn]; exact key
    · exact key
  · cases h

theorem lt_rx {s s' : St} (h : step0 s .rx = some s') : mu s' < mu s := by
  simp only [step0] at h
  split at h
  · cases h
  · rename_i hrd
    have hrd : s.reader = .rx := by simpa using hrd
    cases h
    rw [mu_tail, mu_foldl_cancel]
    have e : ∀ X : St, mu { X with outCalls := [] } = mu X := fun _ => rfl
    rw [e, mu_foldl_retire]
    simp only [mu, muCalls, muNotifs, muReqs, muRest, hrd, wReader]; omega

theorem cores_same {X s : St} (h : X.cores = s.cores) (r : Nat) : X.cores[r]? = s.cores[r]? := by rw [h]

theorem lt_a1 {s s' : St} {r : Nat} (h : step0 s (.a1 r) = some s') : mu s' < mu s := by
  simp only [step0] at h
  split at h
  · cases h
  · rename_i q hq
    split at h
    · cases h
    · rename_i hpc
      have hpc : q.pc = .a1 := by simpa using hpc
      (repeat' (split at h)) <;> cases h
      · -- duplicate id
        rw [mu_tail]
        have h1 : mu (modCore { s with incoming := s.incoming + 1 } r fun q => { q with isCall := false }) + wReq q.pc =
            mu s + wReq q.pc := mu_modCore { s with incoming := s.incoming + 1 } r _ q hq
        have hq2 : (modMeta (modCore { s with incoming := s.incoming + 1 } r fun q => { q with isCall := false }) r
            fun m => { m with rejected := true }).cores[r]? = some { q with isCall := false } := by
          simp [modMeta, modCore, hq]
        have h2 := mu_beginPR _ r .reader _ hq2
        rw [mu_modMeta] at h2
        simp only [hpc, wReq] at h1 h2; omega
      · rw [mu_tail]
        rename_i id _ _ _ _
        have hq2 : (modMeta { s with incoming := s.incoming + 1, byID := s.byID ++ [(id, r)] } r
            fun q => { q with rejected := true }).cores[r]? = some q := hq
        have h2 := mu_beginPR _ r .reader _ hq2
        rw [mu_modMeta] at h2
        have e : mu { s with incoming := s.incoming + 1, byID := s.byID ++ [(id, r)] } = mu s := rfl
        simp only [hpc, wReq] at h2; omega
      · rename_i id _ _ _ _
        rw [mu_tail, mu_modMeta]
        have h1 : mu (modCore { s with incoming := s.incoming + 1, byID := s.byID ++ [(id, r)] } r fun q => { q with pc := .a2 }) + wReq q.pc =
            mu s + wReq ReqPc.a2 := mu_modCore { s with incoming := s.incoming + 1, byID := s.byID ++ [(id, r)] } r _ q hq
        simp only [hpc, wReq] at h1; omega
      · rename_i id _
        rw [mu_tail, mu_modMeta]
        have h1 : mu (modCore { s with incoming := s.incoming + 1, cancels := s.cancels ++ [id] } r fun q => { q with pc := .a2 }) + wReq q.pc =
            mu { s with incoming := s.incoming + 1, cancels := s.cancels ++ [id] } + wReq ReqPc.a2 :=
          mu_modCore { s with incoming := s.incoming + 1, cancels := s.cancels ++ [id] } r _ q hq
        have e : mu { s with incoming := s.incoming + 1, cancels := s.cancels ++ [id] } = mu s + 1 := by
          simp only [mu, muCalls, muNotifs, muReqs, muRest, List.length_append, List.length_singleton]; omega
        simp only [hpc, wReq] at h1; omega
      · rw [mu_tail, mu_modMeta]
        have h1 : mu (modCore { s with incoming := s.incoming + 1 } r fun q => { q with pc := .a2 }) + wReq q.pc =
            mu s + wReq ReqPc.a2 := mu_modCore { s with incoming := s.incoming + 1 } r _ q hq
        simp only [hpc, wReq] at h1; omega

end Conn

namespace Conn

theorem wReader_read_le (p : ReaderPc) : wReader .read ≤ wReader p := by simp [wReader]
theorem wDisp_le_one (d : DispPc) : wDisp d ≤ 1 := by cases d <;> simp [wDisp]

theorem lt_a2 {s s' : St} {r : Nat} (h : step0 s (.a2 r) = some s') : mu s' < mu s := by
  simp only [step0] at h
  split at h
  · cases h
  · rename_i q hq
    split at h
    · cases h
    · rename_i hpc
      have hpc : q.pc = .a2 := by simpa using hpc
      split at h
      · cases h
        rw [mu_tail]
        have hq2 : (modMeta s r fun q => { q with rejected := true }).cores[r]? = some q := hq
        have h2 := mu_beginPR _ r .reader _ hq2
        rw [mu_modMeta] at h2
        simp only [hpc, wReq] at h2; omega
      · have h1 : mu (modCore { s with queue := s.queue ++ [r], reader := .read } r fun q => { q with pc := .queued }) + wReq q.pc =
            mu { s with queue := s.queue ++ [r], reader := .read } + wReq ReqPc.queued :=
          mu_modCore { s with queue := s.queue ++ [r], reader := .read } r _ q hq
        have e : mu { s with queue := s.queue ++ [r], reader := ReaderPc.read } ≤ mu s := by
          have := wReader_read_le s.reader
          simp only [mu, muCalls, muNotifs, muReqs, muRest]; omega
        simp only [hpc, wReq] at h1
        split at h <;> cases h <;> rw [mu_tail]
        · omega
        · have e2 : ∀ X : St, mu { X with handlerRunning := true, disp := DispPc.d1 } ≤ mu X + 1 := by
            intro X
            simp only [mu, muCalls, muNotifs, muReqs, muRest, wDisp]; omega
          have := e2 (modCore { s with queue := s.queue ++ [r], reader := .read } r fun q => { q with pc := .queued })
          omega

theorem mu_setDisp (X : St) (d : DispPc) (h : wDisp d = wDisp X.disp) : mu { X with disp := d } = mu X := by
  simp only [mu, muCalls, muNotifs, muReqs, muRest, h]

theorem mu_setClockDisp (X : St) (c : Nat) (d : DispPc) (h : wDisp d = wDisp X.disp) :
    mu { X with clock := c, disp := d } = mu X := by
  simp only [mu, muCalls, muNotifs, muReqs, muRest, h]

theorem lt_d1 {s s' : St} (hr : RInv (reqView s)) (h : step0 s .d1 = some s') : mu s' < mu s := by
  simp only [step0] at h
  split at h
  · cases h
  · rename_i hd
    have hd : s.disp = .d1 := by simpa using hd
    split at h
    · cases h; rw [mu_tail]
      simp only [mu, muCalls, muNotifs, muReqs, muRest, hd, wDisp]; omega
    · rename_i _ hh rest hqu
      have hrq : hh ∈ (reqView s).queue := by simp [reqView, hqu]
      have hlen := hr.qr hh hrq
      obtain ⟨q, hq⟩ : ∃ q, (reqView s).cores[hh]? = some q := ⟨_, List.getElem?_eq_getElem hlen⟩
      have hpc : q.pc = .queued := (hr.ok hh q hq).que.mpr hrq
      have hq' : s.cores[hh]? = some q := hq
      have e0 : mu (tail { s with queue := rest }) = mu s := by rw [mu_tail]; rfl
      have ec : (tail { s with queue := rest }).cores = s.cores := tail_cores _
      have ed : (tail { s with queue := rest }).disp = .d1 := by rw [tail_disp]; exact hd
      generalize tail { s with queue := rest } = T at h e0 ec ed
      split at h
      · cases h
      · split at h <;> cases h
        · have hq2 : ({ T with disp := DispPc.busy hh } : St).cores[hh]? = some q := by
            show T.cores[hh]? = some q; rw [ec]; exact hq'
          have h2 := mu_beginPR _ hh .dispatcher _ hq2
          rw [mu_setDisp T (.busy hh) (by rw [ed]; rfl)] at h2
          simp only [hpc, wReq] at h2; omega
        · rw [mu_modMeta]
          have hq2 : ({ T with clock := T.clock + 1, disp := DispPc.waiting hh } : St).cores[hh]? = some q := by
            show T.cores[hh]? = some q; rw [ec]; exact hq'
          have h1 := mu_modCore _ hh (fun q => { q with pc := .running, owner := .handler }) q hq2
          rw [mu_setClockDisp T (T.clock + 1) (.waiting hh) (by rw [ed]; rfl)] at h1
          simp only [hpc, wReq] at h1; omega

theorem lt_p1 {s s' : St} {r : Nat} (h : step0 s (.p1 r) = some s') : mu s' < mu s := by
  simp only [step0] at h
  split at h
  · cases h
  · rename_i q hq
    split at h
    · cases h
    · rename_i hpc
      have hpc : q.pc = .p1 := by simpa using hpc
      cases h
      rw [mu_tail]
      have key : ∀ X : St, X.cores = s.cores → mu X = mu s → mu (modCore X r fun q => { q with pc := .w1 }) < mu s := by
        intro X a b
        have := mu_modCore X r (fun q => { q with pc := .w1 }) q (by rw [a]; exact hq)
        simp only [hpc, wReq] at this; omega
      split
      · exact key _ rfl rfl
      · exact key _ rfl rfl

theorem lt_p2 {s s' : St} {r : Nat} (h : step0 s (.p2 r) = some s') : mu s' < mu s := by
  simp only [step0] at h
  split at h
  · cases h
  · rename_i q hq
    split at h
    · cases h
    · rename_i hpc
      have hpc : q.pc = .p2 := by simpa using hpc
      cases h
      have key : ∀ X : St, X.cores = s.cores → mu X = mu s →
          mu (afterP2 (tail (modCore X r fun q => { q with pc := .fin })) r q.owner) < mu s := by
        intro X a b
        have h1 := mu_modCore X r (fun q => { q with pc := .fin }) q (by rw [a]; exact hq)
        simp only [hpc, wReq] at h1
        have h2 : mu (tail (modCore X r fun q => { q with pc := .fin })) + 2 = mu s := by rw [mu_tail]; omega
        cases q.owner with
        | reader =>
          simp only [afterP2]
          have : ∀ Y : St, mu { Y with reader := ReaderPc.read } ≤ mu Y := by
            intro Y; have := wReader_read_le Y.reader
            simp only [mu, muCalls, muNotifs, muReqs, muRest]; omega
          have := this (tail (modCore X r fun q => { q with pc := .fin })); omega
        | dispatcher =>
          simp only [afterP2]
          have : ∀ Y : St, mu { Y with disp := DispPc.d1 } ≤ mu Y + 1 := by
            intro Y
            simp only [mu, muCalls, muNotifs, muReqs, muRest, wDisp]; omega
          have := this (tail (modCore X r fun q => { q with pc := .fin })); omega
        | handler =>
          simp only [afterP2]; rw [mu_modMeta]; omega
      split
      · exact key _ rfl rfl
      · exact key _ rfl rfl

theorem lt_w1 {s s' : St} {w : Who} (h : step0 s (.w1 w) = some s') : mu s' < mu s := by
  cases w with
  | call n =>
    simp only [step0] at h
    split at h
    · cases h
    · rename_i c hc
      split at h
      · cases h
      · rename_i hpc
        have hpc : c.pc = .w1 := by simpa using hpc
        have hp : callPc s n = some .w1 := by simp [callPc, hc, hpc]
        split at h <;> cases h <;> rw [mu_tail]
        · have := mu_modCall' s n (fun c => { c with pc := .wr }) .w1 .wr hp (fun _ _ => rfl)
          simp only [wCall] at this; omega
        · have := mu_modCall' s n (fun c => { c with pc := .r .serverClosing }) .w1 (.r .serverClosing) hp (fun _ _ => rfl)
          simp only [wCall] at this; omega
  | resp r =>
    simp only [step0] at h
    split at h
    · cases h
    · rename_i q hq
      split at h
      · cases h
      · rename_i hpc
        have hpc : q.pc = .w1 := by simpa using hpc
        have h1 : mu (modCore s r fun q => { q with wrote := q.wrote + 1 }) + wReq q.pc = mu s + wReq q.pc :=
          mu_modCore s r _ q hq
        have hq1 : (modCore s r fun q => { q with wrote := q.wrote + 1 }).cores[r]? = some { q with wrote := q.wrote + 1 } := by
          simp [modCore, hq]
        split at h <;> cases h
        · rw [mu_tail]
          have h2 := mu_modCore _ r (fun q => { q with pc := .wr }) _ hq1
          simp only [hpc, wReq] at h1 h2; omega
        · have hq2 : (tail (modCore s r fun q => { q with wrote := q.wrote + 1 })).cores[r]? = some { q with wrote := q.wrote + 1 } := by
            rw [tail_cores]; exact hq1
          have h2 := mu_toP2 _ r _ hq2
          rw [mu_tail] at h2
          simp only [hpc, wReq] at h1 h2; omega
  | unotif k =>
    simp only [step0] at h
    split at h
    · cases h
    · rename_i nf hnf
      split at h
      · cases h
      · rename_i hpc
        have hpc : nf.pc = .w1 := by simpa using hpc
        split at h <;> cases h <;> rw [mu_tail]
        · have := mu_setNotif s (.unotif k) (fun nf => { nf with pc := .wr }) nf hnf
          simp only [hpc, wNotif] at this; omega
        · have := mu_setNotif s (.unotif k) (fun nf => { nf with pc := .n2 (some .serverClosing) }) nf hnf
          simp only [hpc, wNotif] at this; omega
  | cnotif k =>
    simp only [step0] at h
    split at h
    · cases h
    · rename_i nf hnf
      split at h
      · cases h
      · rename_i hpc
        have hpc : nf.pc = .w1 := by simpa using hpc
        split at h <;> cases h <;> rw [mu_tail]
        · have := mu_setNotif s (.cnotif k) (fun nf => { nf with pc := .wr }) nf hnf
          simp only [hpc, wNotif] at this; omega
        · have := mu_setNotif s (.cnotif k) (fun nf => { nf with pc := .n2 (some .serverClosing) }) nf hnf
          simp only [hpc, wNotif] at this; omega

theorem lt_w2 {s s' : St} {w : Who} (h : step0 s (.w2 w) = some s') : mu s' < mu s := by
  cases w with
  | call n =>
    simp only [step0] at h
    split at h
    · cases h
    · rename_i c hc
      split at h
      · rename_i e hpc
        cases h; rw [mu_tail]
        have hp : callPc (markBroken s) n = some (.w2 e) := by
          rw [callPc_of_calls (markBroken_calls s) n]; simp [callPc, hc, hpc]
        have := mu_modCall' (markBroken s) n (fun c => { c with pc := .r e }) (.w2 e) (.r e) hp (fun _ _ => rfl)
        rw [mu_markBroken] at this
        simp only [wCall] at this; omega
      · cases h
  | resp r =>
    simp only [step0] at h
    split at h
    · cases h
    · rename_i q hq
      split at h
      · rename_i e hpc
        cases h
        have hq2 : (tail (markBroken s)).cores[r]? = some q := by rw [tail_cores, markBroken_cores]; exact hq
        have h2 := mu_toP2 _ r _ hq2
        rw [mu_tail, mu_markBroken] at h2
        simp only [hpc, wReq] at h2; omega
      · cases h
  | unotif k =>
    simp only [step0] at h
    split at h
    · cases h
    · rename_i nf hnf
      split at h
      · rename_i e hpc
        cases h; rw [mu_tail]
        have hn : getNotif (markBroken s) (.unotif k) = some nf := by
          have := congrArg NView.us (nview_markBroken s)
          simp only [nview] at this
          simp only [getNotif, this]; exact hnf
        have := mu_setNotif (markBroken s) (.unotif k) (fun nf => { nf with pc := .n2 (some e) }) nf hn
        rw [mu_markBroken] at this
        simp only [hpc, wNotif] at this; omega
      · cases h
  | cnotif k =>
    simp only [step0] at h
    split at h
    · cases h
    · rename_i nf hnf
      split at h
      · rename_i e hpc
        cases h; rw [mu_tail]
        have hn : getNotif (markBroken s) (.cnotif k) = some nf := by
          have := congrArg NView.cs (nview_markBroken s)
          simp only [nview] at this
          simp only [getNotif, this]; exact hnf
        have := mu_setNotif (markBroken s) (.cnotif k) (fun nf => { nf with pc := .n2 (some e) }) nf hn
        rw [mu_markBroken] at this
        simp only [hpc, wNotif] at this; omega
      · cases h

/-- **internal_step_decreases.** Every critical section of the connection strictly decreases the measure. -/
theorem internal_step_decreases {s s' : St} {l : Label} (hr : RInv (reqView s)) (hl : l.internal = true)
    (h : step s l = some s') : mu s' < mu s := by
  simp only [step, Option.map_eq_some_iff] at h
  obtain ⟨s0, h0, rfl⟩ := h
  refine Nat.lt_of_le_of_lt (mu_settle_le s0) ?_
  cases l <;> simp [Label.internal] at hl
  case start => exact lt_start h0
  case n1 w => exact lt_n1 h0
  case n2 w => exact lt_n2 h0
  case c1 n => exact lt_c1 h0
  case retire n => exact lt_retire h0
  case k1 id => exact lt_k1 h0
  case wt b => exact lt_wt h0
  case cl1 => exact lt_cl1 h0
  case rresp => exact lt_rresp h0
  case rx => exact lt_rx h0
  case a1 r => exact lt_a1 h0
  case a2 r => exact lt_a2 h0
  case d1 => exact lt_d1 hr h0
  case p1 r => exact lt_p1 h0
  case p2 r => exact lt_p2 h0
  case w1 w => exact lt_w1 h0
  case w2 w => exact lt_w2 h0

/-- **internal_runs_bounded (no livelock).** From any reachable state, a run that consists of the
connection's own critical sections only is at most `mu s` labels long: the connection cannot keep
itself busy for ever; every further step needs the environment (a user starting a call, notification,
Close or Wait, the peer sending a message, a handler or a transport write returning, a context ending).
Together with `closing_progress` — in a shutting-down state that is not done some critical section is
enabled unless the connection waits for one of the proviso's obligations — shutdown reaches `done`
whenever handlers return, transport writes return, the transport honours Close and every enabled
critical section eventually runs (fair scheduling, trusted to the Go runtime). -/
theorem internal_runs_bounded (pre ls : List Label) (s s' : St) (h0 : run {} pre = some s)
    (hint : ∀ l ∈ ls, l.internal = true) (h : run s ls = some s') : ls.length + mu s' ≤ mu s := by
  have i := inv4_run pre inv4_init h0
  clear h0
  induction ls generalizing s with
  | nil => simp [run] at h; subst h; simp
  | cons l ls ih =>
    simp only [run] at h
    split at h
    · cases h
    · rename_i s1 h1
      have hlt := internal_step_decreases i.base.base.base.reqs (hint l (by simp)) h1
      have := ih s1 (fun l' hl' => hint l' (List.mem_cons_of_mem _ hl')) h (inv4_step i h1)
      simp only [List.length_cons]; omega

end Conn
