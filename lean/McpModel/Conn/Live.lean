import McpModel.Conn.DispInv
/-! Deadlock freedom of the shutdown (C05, liveness part): auxiliary invariants. -/
namespace Conn

/-- After every critical section: an idle, shutting-down connection has had its transport closed, and is
done unless the reader is still running. -/
def TI (v : FV) : Prop := v.idle = true → v.shuttingDown = true → v.closerUsed = true ∧ (v.reading = true ∨ v.done = true)

theorem ti_tail (v : FV) (h : v.done = true → v.closerUsed = true) : TI v.tail := by
  unfold TI FV.tail
  cases hd : v.done <;> cases hcu : v.closerUsed <;> cases hrd : v.reading <;>
    cases hidle : v.idle <;> cases hsd : v.shuttingDown <;>
    simp_all [FV.idle, FV.shuttingDown]

theorem ti_reader (v : FV) (r : ReaderPc) : TI { v with reader := r } ↔ TI v := by
  simp [TI, FV.idle, FV.shuttingDown]

theorem ti_congr {v w : FV} (h1 : w.idle = v.idle) (h2 : w.shuttingDown = v.shuttingDown) (h3 : w.closerUsed = v.closerUsed)
    (h4 : w.reading = v.reading) (h5 : w.done = v.done) (t : TI v) : TI w := by
  unfold TI at t ⊢; rw [h1, h2, h3, h4, h5]; exact t

def Label.tiSpecial : Label → Bool
  | .retire _ | .rx | .d1 | .p2 _ => true
  | _ => false

set_option maxRecDepth 8000 in
theorem ti_step0_easy {s s' : St} {l : Label} (i : FInv s) (t : TI (fview s)) (h : step0 s l = some s')
    (hl : l.tiSpecial = false) : TI (fview s') := by
  have hcu : s.done = true → s.closerUsed = true := fun hd => (i.dn hd).2.2.2
  cases l <;> simp [Label.tiSpecial] at hl <;> simp only [step0] at h
  all_goals (repeat' (split at h))
  all_goals first
    | (simp at h; done)
    | (injection h with h; subst h
       first
       | exact t
       | (simp only [fview_tail, fview_modCall, fview_modCore, fview_modMeta, fview_cancelReq, fview_toP2, fview_setNotif,
            fview_beginPR, fview_retireIn, fview_markBroken]
          first
          | exact t
          | (apply ti_tail; intro hd; simp [fview] at hd ⊢; exact hcu hd)
          | (refine ti_congr ?_ ?_ ?_ ?_ ?_ t <;> (simp [fview, FV.idle, FV.shuttingDown]; done))))

/-- `TI` after the tail of a state whose done/closerUsed flags are those of `s`. -/
theorem ti_tail_of {s : St} (i : FInv s) (X : St) (h1 : X.done = s.done) (h2 : X.closerUsed = s.closerUsed) :
    TI (fview (tail X)) := by
  rw [fview_tail]; apply ti_tail
  intro hd
  have hd' : s.done = true := by rw [← h1]; exact hd
  show X.closerUsed = true
  rw [h2]; exact (i.dn hd').2.2.2

theorem ti_retire {s s' : St} {n : Nat} (i : FInv s) (h : step0 s (.retire n) = some s') : TI (fview s') := by
  simp only [step0] at h
  split at h
  · cases h
  · split at h
    · cases h
    · rename_i e viaCtx _
      have key : TI (fview (tail (if s.outCalls.contains n = true then
            retireIn { s with outCalls := s.outCalls.erase n } n (.err e) else s))) := by
        apply ti_tail_of i
        · split
          · have := congrArg FV.done (fview_retireIn { s with outCalls := s.outCalls.erase n } n (.err e)); exact this
          · rfl
        · split
          · have := congrArg FV.closerUsed (fview_retireIn { s with outCalls := s.outCalls.erase n } n (.err e)); exact this
          · rfl
      split at h <;> cases h <;> exact key

theorem ti_rx {s s' : St} (i : FInv s) (h : step0 s .rx = some s') : TI (fview s') := by
  simp only [step0] at h
  split at h
  · cases h
  · cases h
    apply ti_tail_of i
    · exact (congrArg FV.done (fview_foldl_cancel _ _ _)).trans (congrArg FV.done (fview_foldl_retire _ _ _))
    · exact (congrArg FV.closerUsed (fview_foldl_cancel _ _ _)).trans (congrArg FV.closerUsed (fview_foldl_retire _ _ _))

theorem ti_d1 {s s' : St} (i : FInv s) (h : step0 s .d1 = some s') : TI (fview s') := by
  simp only [step0] at h
  split at h
  · cases h
  · split at h
    · cases h; exact ti_tail_of i _ rfl rfl
    · rename_i _ hh rest hqu
      have key : TI (fview (tail { s with queue := rest })) := ti_tail_of i _ rfl rfl
      (repeat' (split at h)) <;>
      first
      | (cases h; done)
      | (cases h
         simp only [fview_beginPR, fview_modMeta, fview_modCore]
         exact key)

theorem ti_p2 {s s' : St} {r : Nat} (i : FInv s) (h : step0 s (.p2 r) = some s') : TI (fview s') := by
  simp only [step0] at h
  split at h
  · cases h
  · rename_i q hq
    split at h
    · cases h
    · cases h
      have key : ∀ X : St, X.done = s.done → X.closerUsed = s.closerUsed →
          TI (fview (afterP2 (tail (modCore X r fun q => { q with pc := .fin })) r q.owner)) := by
        intro X a b
        have k := ti_tail_of i (modCore X r fun q => { q with pc := .fin }) a b
        cases q.owner with
        | reader => simp only [afterP2]; exact (ti_reader _ _).mpr k
        | dispatcher => exact k
        | handler => simp only [afterP2, fview_modMeta]; exact k
      split <;> exact key _ rfl rfl

theorem ti_step0 {s s' : St} {l : Label} (i : FInv s) (t : TI (fview s)) (h : step0 s l = some s') : TI (fview s') := by
  by_cases hl : l.tiSpecial = true
  · cases l <;> simp [Label.tiSpecial] at hl
    case retire n => exact ti_retire i h
    case rx => exact ti_rx i h
    case d1 => exact ti_d1 i h
    case p2 r => exact ti_p2 i h
  · exact ti_step0_easy i t h (by simpa using hl)

end Conn

namespace Conn

/-! ### outgoing notifications: `outgoingNotifications` counts exactly the Notify calls between N1 and N2 -/

def NotifPc.writing : NotifPc → Bool
  | .w1 | .wr | .w2 _ | .n2 _ => true
  | _ => false

def cntW : List Notif → Nat
  | [] => 0
  | n :: t => (if n.pc.writing then 1 else 0) + cntW t

theorem cntW_append (l : List Notif) (n : Notif) : cntW (l ++ [n]) = cntW l + (if n.pc.writing then 1 else 0) := by
  induction l with
  | nil => simp [cntW]
  | cons a t ih => simp [cntW, ih]; omega

theorem cntW_modify (l : List Notif) (k : Nat) (n : Notif) (f : Notif → Notif) (h : l[k]? = some n) :
    cntW (l.modify k f) + (if n.pc.writing then 1 else 0) = cntW l + (if (f n).pc.writing then 1 else 0) := by
  induction l generalizing k with
  | nil => simp at h
  | cons a t ih =>
    cases k with
    | zero => simp at h; subst h; simp [List.modify, cntW]; omega
    | succ k => simp at h; have := ih k h; simp [List.modify, cntW] at this ⊢; omega

structure NView where
  us : List Notif
  cs : List Notif
  outNotifs : Nat

def nview (s : St) : NView := { us := s.unotifs, cs := s.cnotifs, outNotifs := s.outNotifs }

def NInv (v : NView) : Prop := v.outNotifs = cntW v.us + cntW v.cs

@[simp] theorem nview_tail (s : St) : nview (tail s) = nview s := by
  unfold tail finish closeTransport; repeat' split
  all_goals rfl
@[simp] theorem nview_modCall (s : St) (n : Nat) (f : Call → Call) : nview (modCall s n f) = nview s := rfl
@[simp] theorem nview_modCore (s : St) (r : Nat) (f : ReqCore → ReqCore) : nview (modCore s r f) = nview s := rfl
@[simp] theorem nview_modMeta (s : St) (r : Nat) (f : ReqMeta → ReqMeta) : nview (modMeta s r f) = nview s := rfl
@[simp] theorem nview_cancelReq (s : St) (r : Nat) (c : Cause) : nview (cancelReq s r c) = nview s := rfl
@[simp] theorem nview_toP2 (s : St) (r : Nat) : nview (toP2 s r) = nview s := rfl
@[simp] theorem nview_beginPR (s : St) (r : Nat) (o : Owner) : nview (beginPR s r o) = nview s := by
  unfold beginPR; repeat' split
  all_goals rfl
@[simp] theorem nview_retireIn (s : St) (n : Nat) (r : Res) : nview (retireIn s n r) = nview s := by
  unfold retireIn; repeat' split
  all_goals rfl
@[simp] theorem nview_afterP2 (s : St) (r : Nat) (o : Owner) : nview (afterP2 s r o) = nview s := by cases o <;> rfl
theorem nview_foldl_cancel (l : List (Nat × Nat)) (c : Cause) (s : St) :
    nview (l.foldl (fun s p => cancelReq s p.2 c) s) = nview s := by
  induction l generalizing s with
  | nil => rfl
  | cons p t ih => simp [List.foldl, ih]
theorem nview_foldl_retire (l : List Nat) (r : Res) (s : St) :
    nview (l.foldl (fun s n => retireIn s n r) s) = nview s := by
  induction l generalizing s with
  | nil => rfl
  | cons a t ih => simp [List.foldl, ih]
@[simp] theorem nview_markBroken (s : St) : nview (markBroken s) = nview s := by
  unfold markBroken; split
  · rfl
  · rw [nview_foldl_cancel]; rfl
@[simp] theorem nview_settleWaiters (s : St) : nview (settleWaiters s) = nview s := by
  unfold settleWaiters; split <;> rfl
@[simp] theorem nview_settleDisp (s : St) : nview (settleDisp s) = nview s := by
  unfold settleDisp; split
  · split
    · split <;> rfl
    · rfl
  · rfl
@[simp] theorem nview_settle (s : St) : nview (settle s) = nview s := by
  simp only [settle, nview_settleDisp, nview_settleWaiters]; rfl

/-- The effect of `setNotif` on the count: `X` is `s` up to fields other than the two notification lists. -/
theorem ninv_setNotif (s X : St) (hu : X.unotifs = s.unotifs) (hc : X.cnotifs = s.cnotifs)
    (w : Who) (nf : Notif) (f : Notif → Notif) (hnf : getNotif s w = some nf) (i : NInv (nview s))
    (hd : X.outNotifs + (if nf.pc.writing then 1 else 0) = s.outNotifs + (if (f nf).pc.writing then 1 else 0)) :
    NInv (nview (setNotif X w f)) := by
  unfold NInv at i ⊢
  cases w with
  | call n => simp [getNotif] at hnf
  | resp r => simp [getNotif] at hnf
  | unotif k =>
    have := cntW_modify s.unotifs k nf f hnf
    simp only [nview, setNotif, hu, hc] at i ⊢; omega
  | cnotif k =>
    have := cntW_modify s.cnotifs k nf f hnf
    simp only [nview, setNotif, hu, hc] at i ⊢; omega

end Conn

namespace Conn

def Label.touchesNotifs : Label → Bool
  | .enotify | .retire _ | .n1 _ | .n2 _ | .w1 (.unotif _) | .w1 (.cnotif _) | .w2 (.unotif _) | .w2 (.cnotif _)
  | .wret (.unotif _) _ | .wret (.cnotif _) _ => true
  | _ => false

macro "frame_close" : tactic => `(tactic| (
  first
    | (simp at h; done)
    | (injection h with h; subst h; first | rfl | (simp only [nview_tail, nview_modCall, nview_modCore, nview_modMeta, nview_cancelReq, nview_toP2, nview_beginPR, nview_retireIn, nview_afterP2, nview_markBroken]; try (first | rfl | (split <;> rfl)); done) | (simp [nview]; done))))

set_option maxRecDepth 8000 in
theorem frame_notifs (s s' : St) (l : Label) (h : step0 s l = some s') (hl : l.touchesNotifs = false) :
    nview s' = nview s := by
  cases l
  case rx =>
    simp only [step0] at h
    split at h
    · cases h
    · cases h
      rw [nview_tail, nview_foldl_cancel]
      have := nview_foldl_retire s.outCalls (.err .read) { s with reader := .gone, reading := false, readErr := true }
      simp only [nview] at this ⊢
      simp_all
  case d1 =>
    simp only [step0] at h
    (repeat' (split at h)) <;>
      first
      | (simp at h; done)
      | (injection h with h; subst h
         try simp only [nview_beginPR, nview_modMeta, nview_modCore]
         first
         | exact nview_tail _
         | (show nview (tail _) = _; exact nview_tail _))
  case wret w o =>
    cases w <;> simp [Label.touchesNotifs] at hl <;> simp only [step0] at h <;> (repeat' (split at h)) <;>
      first
      | (simp at h; done)
      | (injection h with h; subst h; first | rfl | (simp only [nview_tail, nview_modCall, nview_modCore, nview_modMeta, nview_cancelReq, nview_toP2, nview_beginPR, nview_retireIn, nview_afterP2, nview_markBroken]; try (first | rfl | (split <;> rfl)); done) | (simp [nview]; done))
  case n1 w => cases w <;> simp [Label.touchesNotifs] at hl
  case n2 w => cases w <;> simp [Label.touchesNotifs] at hl
  case w1 w =>
    cases w <;> simp [Label.touchesNotifs] at hl <;> simp only [step0] at h <;> (repeat' (split at h)) <;>
      first
      | (simp at h; done)
      | (injection h with h; subst h; first | rfl | (simp only [nview_tail, nview_modCall, nview_modCore, nview_modMeta, nview_cancelReq, nview_toP2, nview_beginPR, nview_retireIn, nview_afterP2, nview_markBroken]; try (first | rfl | (split <;> rfl)); done) | (simp [nview]; done))
  case w2 w =>
    cases w <;> simp [Label.touchesNotifs] at hl <;> simp only [step0] at h <;> (repeat' (split at h)) <;>
      first
      | (simp at h; done)
      | (injection h with h; subst h; first | rfl | (simp only [nview_tail, nview_modCall, nview_modCore, nview_modMeta, nview_cancelReq, nview_toP2, nview_beginPR, nview_retireIn, nview_afterP2, nview_markBroken]; try (first | rfl | (split <;> rfl)); done) | (simp [nview]; done))
  all_goals (try simp [Label.touchesNotifs] at hl)
  all_goals simp only [step0] at h
  all_goals (repeat' (split at h))
  all_goals first
    | (simp at h; done)
    | (injection h with h; subst h; first | rfl | (simp only [nview_tail, nview_modCall, nview_modCore, nview_modMeta, nview_cancelReq, nview_toP2, nview_beginPR, nview_retireIn, nview_afterP2, nview_markBroken]; try (first | rfl | (split <;> rfl)); done) | (simp [nview]; done))

theorem ninv_of_eq {a b : NView} (h : a = b) (i : NInv b) : NInv a := h ▸ i

theorem ninv_notifLabel {s s' : St} {l : Label} (i : NInv (nview s)) (h : step0 s l = some s')
    (hl : l.touchesNotifs = true) : NInv (nview s') := by
  cases l <;> simp [Label.touchesNotifs] at hl <;> simp only [step0] at h
  case enotify =>
    cases h
    unfold NInv at i ⊢
    simp only [nview, cntW_append] at i ⊢
    simp [NotifPc.writing]; exact i
  case retire n =>
    split at h
    · cases h
    · split at h
      · cases h
      · rename_i e viaCtx _
        have h0 : nview (tail (if s.outCalls.contains n = true then
            retireIn { s with outCalls := s.outCalls.erase n } n (.err e) else s)) = nview s := by
          rw [nview_tail]; split
          · rw [nview_retireIn]; rfl
          · rfl
        have hu := congrArg NView.us h0
        have hc := congrArg NView.cs h0
        have ho := congrArg NView.outNotifs h0
        simp only [nview] at hu hc ho
        split at h <;> cases h
        · unfold NInv at i ⊢
          simp only [nview, modCall, cntW_append, hu, hc, ho] at i ⊢
          simp [NotifPc.writing]; exact i
        · rw [nview_modCall, h0]; exact i
  case n1 w =>
    split at h
    · cases h
    · rename_i nf hnf
      split at h
      · cases h
      · rename_i hpc
        have hpc : nf.pc = .n1 := by simpa using hpc
        split at h <;> cases h <;> rw [nview_tail]
        · exact ninv_setNotif s s rfl rfl w nf _ hnf i (by simp [hpc, NotifPc.writing])
        · exact ninv_setNotif s { s with outNotifs := s.outNotifs + 1 } rfl rfl w nf _ hnf i (by simp [hpc, NotifPc.writing])
  case n2 w =>
    split at h
    · cases h
    · rename_i nf hnf
      split at h
      · rename_i res hpc
        cases h; rw [nview_tail]
        have hpos : 1 ≤ s.outNotifs := by
          unfold NInv at i
          cases w with
          | call n => simp [getNotif] at hnf
          | resp r => simp [getNotif] at hnf
          | unotif k =>
            have := cntW_modify s.unotifs k nf (fun nf => { nf with pc := .fin none }) hnf
            simp [hpc, NotifPc.writing] at this; simp only [nview] at i; omega
          | cnotif k =>
            have := cntW_modify s.cnotifs k nf (fun nf => { nf with pc := .fin none }) hnf
            simp [hpc, NotifPc.writing] at this; simp only [nview] at i; omega
        exact ninv_setNotif s { s with outNotifs := s.outNotifs - 1 } rfl rfl w nf _ hnf i
          (by simp [hpc, NotifPc.writing]; omega)
      · cases h
  case w1 w =>
    cases w <;> simp [Label.touchesNotifs] at hl <;> simp only at h
    all_goals
      split at h
      · cases h
      · rename_i nf hnf
        split at h
        · cases h
        · rename_i hpc
          have hpc : nf.pc = .w1 := by simpa using hpc
          split at h <;> cases h <;> rw [nview_tail] <;>
            exact ninv_setNotif s s rfl rfl _ nf _ hnf i (by simp [hpc, NotifPc.writing])
  case w2 w =>
    cases w <;> simp [Label.touchesNotifs] at hl <;> simp only at h
    all_goals
      split at h
      · cases h
      · rename_i nf hnf
        split at h
        · rename_i e hpc
          cases h; rw [nview_tail]
          have hu : (markBroken s).unotifs = s.unotifs := congrArg NView.us (nview_markBroken s)
          have hc : (markBroken s).cnotifs = s.cnotifs := congrArg NView.cs (nview_markBroken s)
          have ho : (markBroken s).outNotifs = s.outNotifs := congrArg NView.outNotifs (nview_markBroken s)
          exact ninv_setNotif s (markBroken s) hu hc _ nf _ hnf i (by simp [hpc, NotifPc.writing, ho])
        · cases h
  case wret w o =>
    cases w <;> simp [Label.touchesNotifs] at hl <;> simp only at h
    all_goals
      split at h
      · cases h
      · rename_i nf hnf
        split at h
        · cases h
        · rename_i hpc
          have hpc : nf.pc = .wr := by simpa using hpc
          cases o <;> simp only at h <;> cases h
          · exact ninv_setNotif s s rfl rfl _ nf _ hnf i (by simp [hpc, NotifPc.writing])
          · exact ninv_setNotif s { s with brokenWrites := s.brokenWrites + 1 } rfl rfl _ nf _ hnf i (by simp [hpc, NotifPc.writing])
          · exact ninv_setNotif s s rfl rfl _ nf _ hnf i (by simp [hpc, NotifPc.writing])

theorem ninv_step {s s' : St} {l : Label} (i : NInv (nview s)) (h : step s l = some s') : NInv (nview s') := by
  simp only [step, Option.map_eq_some_iff] at h
  obtain ⟨s0, h0, rfl⟩ := h
  rw [nview_settle]
  by_cases hl : l.touchesNotifs = true
  · exact ninv_notifLabel i h0 hl
  · exact (frame_notifs s s0 l h0 (by simpa using hl)) ▸ i

end Conn
