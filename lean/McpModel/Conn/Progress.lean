import McpModel.Conn.Live
import McpModel.Conn.Props
/-!
Deadlock freedom of the connection (C05 "shutdown never deadlocks", C01 "a call never hangs"), part 1:
the linkage invariant `LInv` between the dispatcher's program counter, the handler queue and the
requests — what a blocked dispatcher is waiting for always exists and can move.
-/
namespace Conn

structure LInv (v : DView) : Prop where
  /-- queued requests have a dispatcher -/
  qd : v.queue ≠ [] → v.disp ≠ .none
  /-- a request whose handler was started belongs to the handler goroutine until it is finished, and
  finishing releases the dispatcher -/
  own : ∀ (r : Nat) (k : ReqCore) (m : MCore), v.cores[r]? = some k → v.ms[r]? = some m → m.started.isSome = true →
    k.owner = .handler ∧ (k.pc = .fin → m.released = true)
  /-- the dispatcher waits for a handler that was started -/
  wait : ∀ r, v.disp = .waiting r → ∃ m, v.ms[r]? = some m ∧ m.started.isSome = true
  /-- the dispatcher is busy with a request that is inside processResult on its goroutine -/
  busy : ∀ r, v.disp = .busy r → ∃ k, v.cores[r]? = some k ∧ k.pc.inPR = true ∧ k.owner = .dispatcher

theorem cores_modify_get {l : List ReqCore} {r j : Nat} {g : ReqCore → ReqCore} {k' : ReqCore}
    (h : (l.modify r g)[j]? = some k') : ∃ k, l[j]? = some k ∧ k' = (if r = j then g k else k) := by
  rw [List.getElem?_modify] at h
  cases hj : l[j]? with
  | none => simp [hj] at h
  | some k => simp [hj] at h; exact ⟨k, rfl, h.symm⟩

/-- `LInv` does not look at `handlerRunning` and `clock`. -/
theorem LInv.congr {v w : DView} (i : LInv v) (h1 : w.cores = v.cores) (h2 : w.ms = v.ms) (h3 : w.disp = v.disp)
    (h4 : w.queue = v.queue) : LInv w := by
  obtain ⟨a, b, c, d⟩ := i
  exact ⟨by rw [h3, h4]; exact a, by rw [h1, h2]; exact b, by rw [h2, h3]; exact c, by rw [h1, h3]; exact d⟩

/-- A core update of request `r`. -/
theorem LInv.core {v : DView} (i : LInv v) (r : Nat) (g : ReqCore → ReqCore)
    (h : ∀ k, v.cores[r]? = some k →
      (∀ m, v.ms[r]? = some m → m.started.isSome = true → (g k).owner = .handler ∧ ((g k).pc = .fin → m.released = true)) ∧
      (v.disp = .busy r → (g k).pc.inPR = true ∧ (g k).owner = .dispatcher)) :
    LInv { v with cores := v.cores.modify r g } := by
  refine ⟨i.qd, ?_, i.wait, ?_⟩
  · intro j k' m hk' hm hs
    obtain ⟨k, hk, rfl⟩ := cores_modify_get hk'
    by_cases hj : r = j
    · subst hj; simp only [if_true]; exact (h k hk).1 m hm hs
    · simp only [hj, if_false]; exact i.own j k m hk hm hs
  · intro j hd
    obtain ⟨k, hk, hp, ho⟩ := i.busy j hd
    by_cases hj : r = j
    · subst hj
      exact ⟨g k, by simp [List.getElem?_modify, hk], (h k hk).2 hd⟩
    · exact ⟨k, by simp [List.getElem?_modify, hk, hj], hp, ho⟩

/-- A core update that keeps the owner, stays out of `fin`, and stays inside processResult if it was. -/
theorem LInv.coreKeep {v : DView} (i : LInv v) (r : Nat) (q : ReqCore) (g : ReqCore → ReqCore) (hq : v.cores[r]? = some q)
    (hown : (g q).owner = q.owner) (hfin : (g q).pc ≠ .fin) (hpr : q.pc.inPR = true → (g q).pc.inPR = true) :
    LInv { v with cores := v.cores.modify r g } := by
  refine i.core r g (fun k hk => ?_)
  rw [hq] at hk; cases hk
  refine ⟨fun m hm hs => ⟨hown ▸ (i.own r q m hq hm hs).1, fun hf => absurd hf hfin⟩, fun hd => ?_⟩
  obtain ⟨k', hk', hp, ho⟩ := i.busy r hd
  rw [hq] at hk'; cases hk'
  exact ⟨hpr hp, hown ▸ ho⟩

/-- A meta update of request `r` that keeps the start stamp. -/
theorem LInv.meta {v : DView} (i : LInv v) (r : Nat) (f : MCore → MCore)
    (hs : ∀ m, (f m).started = m.started) (hr : ∀ m, m.released = true → (f m).released = true) :
    LInv { v with ms := v.ms.modify r f } := by
  refine ⟨i.qd, ?_, ?_, i.busy⟩
  · intro j k m' hk hm' hst
    obtain ⟨m, hm, rfl⟩ := ms_modify_get hm'
    by_cases hj : r = j
    · subst hj
      simp only [if_true, hs] at hst ⊢
      have := i.own r k m hk hm hst
      exact ⟨this.1, fun hf => hr m (this.2 hf)⟩
    · simp only [hj, if_false] at hst ⊢; exact i.own j k m hk hm hst
  · intro j hd
    obtain ⟨m, hm, hst⟩ := i.wait j hd
    by_cases hj : r = j
    · subst hj; exact ⟨f m, by simp [List.getElem?_modify, hm], by rw [hs]; exact hst⟩
    · exact ⟨m, by simp [List.getElem?_modify, hm, hj], hst⟩

/-- A new request arrives (appended at the end, not started). -/
theorem LInv.append {v : DView} (i : LInv v) (hl : v.ms.length = v.cores.length) (k : ReqCore) (m : MCore)
    (hm : m.started = none) : LInv { v with cores := v.cores ++ [k], ms := v.ms ++ [m] } := by
  refine ⟨i.qd, ?_, ?_, ?_⟩
  · intro j k' m' hk' hm' hst
    by_cases hj : j < v.ms.length
    · have hj' : j < v.cores.length := hl ▸ hj
      rw [List.getElem?_append_left hj] at hm'
      rw [List.getElem?_append_left hj'] at hk'
      exact i.own j k' m' hk' hm' hst
    · have : j = v.ms.length := by
        have := (List.getElem?_eq_some_iff.mp hm').1; simp at this; omega
      subst this
      simp at hm'; subst hm'; simp [hm] at hst
  · intro j hd
    obtain ⟨m0, hm0, hst⟩ := i.wait j hd
    have hj := (List.getElem?_eq_some_iff.mp hm0).1
    exact ⟨m0, by rw [List.getElem?_append_left hj]; exact hm0, hst⟩
  · intro j hd
    obtain ⟨k0, hk0, hp, ho⟩ := i.busy j hd
    have hj := (List.getElem?_eq_some_iff.mp hk0).1
    exact ⟨k0, by rw [List.getElem?_append_left hj]; exact hk0, hp, ho⟩

/-- The dispatcher moves on. -/
theorem LInv.setDisp {v : DView} (i : LInv v) (d : DispPc) (q : List Nat)
    (hq : q ≠ [] → d ≠ .none)
    (hw : ∀ r, d = .waiting r → ∃ m, v.ms[r]? = some m ∧ m.started.isSome = true)
    (hb : ∀ r, d = .busy r → ∃ k, v.cores[r]? = some k ∧ k.pc.inPR = true ∧ k.owner = .dispatcher) :
    LInv { v with disp := d, queue := q } :=
  ⟨hq, i.own, hw, hb⟩

theorem linv_init : LInv (dview ({} : St)) :=
  ⟨by simp [dview], fun r k m hk => by simp [dview] at hk, fun r hd => by simp [dview] at hd, fun r hd => by simp [dview] at hd⟩

end Conn

namespace Conn

/-- Any core update of a request that has not been handed to a handler yet (`a1`, `a2`, `queued`). -/
theorem LInv.coreFresh {v : DView} (i : LInv v) (r : Nat) (q : ReqCore) (g : ReqCore → ReqCore) (hq : v.cores[r]? = some q)
    (hp : q.pc.inPR = false) (hns : ∀ m, v.ms[r]? = some m → m.started = none) :
    LInv { v with cores := v.cores.modify r g } := by
  refine i.core r g (fun k hk => ⟨fun m hm hs => ?_, fun hd => ?_⟩)
  · simp [hns m hm] at hs
  · obtain ⟨k', hk', hp', _⟩ := i.busy r hd
    rw [hq] at hk'; cases hk'; simp [hp] at hp'

/-- D1 starts the handler of `r`: the start stamp is set on a request owned by the handler goroutine. -/
theorem LInv.start {v : DView} (i : LInv v) (r : Nat) (k : ReqCore) (t : Nat) (hk : v.cores[r]? = some k)
    (ho : k.owner = .handler) (hpc : k.pc ≠ .fin) :
    LInv { v with ms := v.ms.modify r (fun m => { m with started := some t }) } := by
  refine ⟨i.qd, ?_, ?_, i.busy⟩
  · intro j k' m' hk' hm' hst
    obtain ⟨m, hm, rfl⟩ := ms_modify_get hm'
    by_cases hj : r = j
    · subst hj; rw [hk] at hk'; cases hk'
      exact ⟨ho, fun hf => absurd hf hpc⟩
    · simp only [hj, if_false] at hst ⊢; exact i.own j k' m hk' hm hst
  · intro j hd
    obtain ⟨m, hm, hst⟩ := i.wait j hd
    by_cases hj : r = j
    · subst hj; exact ⟨{ m with started := some t }, by simp [List.getElem?_modify, hm], rfl⟩
    · exact ⟨m, by simp [List.getElem?_modify, hm, hj], hst⟩

theorem dview_ms_get (s : St) (r : Nat) (m : MCore) (h : (dview s).ms[r]? = some m) :
    ∃ q, s.metas[r]? = some q ∧ q.mcore = m := by
  simp only [dview, List.getElem?_map] at h
  cases hq : s.metas[r]? with
  | none => simp [hq] at h
  | some q => simp [hq] at h; exact ⟨q, rfl, h⟩

theorem linv_read {s s' : St} {m : RMsg} (d : DInv (dview s)) (i : LInv (dview s)) (h : step0 s (.read m) = some s') :
    LInv (dview s') := by
  simp only [step0] at h
  split at h
  · cases h
  · cases m <;> simp only at h <;> cases h
    · rename_i id
      have key := i.append d.lens { id := some id, isCall := true } ({} : ReqMeta).mcore rfl
      simpa [dview, ReqMeta.mcore] using key
    · have key := i.append d.lens {} ({} : ReqMeta).mcore rfl
      simpa [dview, ReqMeta.mcore] using key
    · rename_i id
      have key := i.append d.lens {} ({ cancelTarget := some id } : ReqMeta).mcore rfl
      simpa [dview, ReqMeta.mcore] using key
    · exact i
    · exact i

theorem linv_hasync {s s' : St} {r : Nat} (i : LInv (dview s)) (h : step0 s (.hasync r) = some s') : LInv (dview s') := by
  simp only [step0] at h
  split at h
  · split at h
    · cases h
    · cases h
      have hv : dview (modMeta s r fun m => { m with asyncCalled := true, released := true }) =
          { dview s with ms := (dview s).ms.modify r (fun m => { m with asyncCalled := true, released := true }) } := by
        simp only [dview, modMeta]; congr 1
        exact map_mcore_modify _ _ _ _ (fun m => rfl)
      rw [hv]
      exact i.meta r _ (fun m => rfl) (fun m _ => rfl)
  · cases h

theorem linv_hret {s s' : St} {r : Nat} {e : Bool} (i : LInv (dview s)) (h : step0 s (.hret r e) = some s') :
    LInv (dview s') := by
  simp only [step0] at h
  split at h
  · cases h
  · rename_i q hq
    split at h
    · cases h
    · rename_i hpc
      have hpc : q.pc = .running := by simpa using hpc
      cases h
      rw [dview_beginPR]
      have hv : dview (modMeta { s with clock := s.clock + 1 } r fun q => { q with ended := some (s.clock + 1) }) =
          { dview s with clock := s.clock + 1 } := by
        rw [dview_modMeta_id _ r (fun q => { q with ended := some (s.clock + 1) }) (fun m => rfl)]; rfl
      rw [hv]
      have i1 : LInv { dview s with clock := s.clock + 1 } := i.congr rfl rfl rfl rfl
      refine LInv.core (v := { dview s with clock := s.clock + 1 }) i1 r _ (fun k hk => ?_)
      have : k = q := by rw [show ({ dview s with clock := s.clock + 1 } : DView).cores[r]? = s.cores[r]? from rfl, hq] at hk; cases hk; rfl
      subst this
      refine ⟨fun m hm hs => ⟨rfl, fun hf => ?_⟩, fun hd => ?_⟩
      · simp at hf; split at hf <;> simp at hf
      · obtain ⟨k', hk', hp, _⟩ := i1.busy r hd
        rw [show ({ dview s with clock := s.clock + 1 } : DView).cores[r]? = s.cores[r]? from rfl, hq] at hk'
        cases hk'; simp [hpc, ReqPc.inPR] at hp

end Conn

namespace Conn

theorem linv_a1 {s s' : St} {r : Nat} (d : DInv (dview s)) (i : LInv (dview s)) (h : step0 s (.a1 r) = some s') :
    LInv (dview s') := by
  simp only [step0] at h
  split at h
  · cases h
  · rename_i q hq
    split at h
    · cases h
    · rename_i hpc
      have hpc : q.pc = .a1 := by simpa using hpc
      have hq' : (dview s).cores[r]? = some q := hq
      have hns : ∀ m, (dview s).ms[r]? = some m → m.started = none := fun m hm => (d.fresh r q m hq' hm (Or.inl hpc)).1
      have hv0 : ∀ X : St, X.cores = s.cores → X.metas = s.metas → X.disp = s.disp → X.handlerRunning = s.handlerRunning →
          X.queue = s.queue → X.clock = s.clock → dview X = dview s := by
        intro X a b c d e f; simp [dview, a, b, c, d, e, f]
      (repeat' (split at h)) <;> cases h
      · -- duplicate id
        rw [dview_tail, dview_beginPR, dview_modMeta_id _ r (fun m => { m with rejected := true }) (fun m => rfl), dview_modCore]
        rw [hv0 { s with incoming := s.incoming + 1 } rfl rfl rfl rfl rfl rfl]
        have i1 := i.coreFresh r q (fun k => { k with isCall := false }) hq' (by simp [hpc, ReqPc.inPR]) hns
        refine LInv.coreFresh (v := { dview s with cores := (dview s).cores.modify r fun k => { k with isCall := false } }) i1 r
          { q with isCall := false } _ (by simp [List.getElem?_modify, hq']) (by simp [hpc, ReqPc.inPR]) hns
      · rw [dview_tail, dview_beginPR, dview_modMeta_id _ r (fun m => { m with rejected := true }) (fun m => rfl)]
        rename_i id _ _ _ _
        rw [hv0 { s with incoming := s.incoming + 1, byID := s.byID ++ [(id, r)] } rfl rfl rfl rfl rfl rfl]
        exact i.coreFresh r q _ hq' (by simp [hpc, ReqPc.inPR]) hns
      · rename_i id _ _ _ _
        rw [dview_tail, dview_modMeta_id _ r (fun m => { m with seen := true }) (fun m => rfl), dview_modCore]
        rw [hv0 { s with incoming := s.incoming + 1, byID := s.byID ++ [(id, r)] } rfl rfl rfl rfl rfl rfl]
        exact i.coreFresh r q _ hq' (by simp [hpc, ReqPc.inPR]) hns
      · rw [dview_tail, dview_modMeta_id _ r (fun m => { m with seen := true }) (fun m => rfl), dview_modCore]
        rename_i id _
        rw [hv0 { s with incoming := s.incoming + 1, cancels := s.cancels ++ [id] } rfl rfl rfl rfl rfl rfl]
        exact i.coreFresh r q _ hq' (by simp [hpc, ReqPc.inPR]) hns
      · rw [dview_tail, dview_modMeta_id _ r (fun m => { m with seen := true }) (fun m => rfl), dview_modCore]
        rw [hv0 { s with incoming := s.incoming + 1 } rfl rfl rfl rfl rfl rfl]
        exact i.coreFresh r q _ hq' (by simp [hpc, ReqPc.inPR]) hns

theorem linv_a2 {s s' : St} {r : Nat} (d : DInv (dview s)) (i : LInv (dview s)) (h : step0 s (.a2 r) = some s') :
    LInv (dview s') := by
  simp only [step0] at h
  split at h
  · cases h
  · rename_i q hq
    split at h
    · cases h
    · rename_i hpc
      have hpc : q.pc = .a2 := by simpa using hpc
      have hq' : (dview s).cores[r]? = some q := hq
      have hns : ∀ m, (dview s).ms[r]? = some m → m.started = none := fun m hm => (d.fresh r q m hq' hm (Or.inr (Or.inl hpc))).1
      split at h
      · cases h
        rw [dview_tail, dview_beginPR, dview_modMeta_id _ r (fun m => { m with rejected := true }) (fun m => rfl)]
        exact i.coreFresh r q _ hq' (by simp [hpc, ReqPc.inPR]) hns
      · have i1 := i.coreFresh r q (fun k => { k with pc := .queued }) hq' (by simp [hpc, ReqPc.inPR]) hns
        have hdisp : s.handlerRunning = true → s.disp ≠ .none := by
          intro hrn hdn
          have := d.hr; simp only [dview, hrn, hdn] at this; simp at this
        split at h <;> cases h <;> rw [dview_tail]
        · rename_i hrun
          have hrun' : s.handlerRunning = true := by simpa [modCore] using hrun
          have key := i1.setDisp s.disp (s.queue ++ [r]) (fun _ => hdisp hrun') (fun r' hd => i1.wait r' hd) (fun r' hd => i1.busy r' hd)
          exact key.congr (by simp [dview, modCore]) (by simp [dview, modCore]) (by simp [dview, modCore]) (by simp [dview, modCore])
        · have key := i1.setDisp .d1 (s.queue ++ [r]) (fun _ => by simp) (fun r' hd => by cases hd) (fun r' hd => by cases hd)
          exact key.congr (by simp [dview, modCore]) (by simp [dview, modCore]) (by simp [dview, modCore]) (by simp [dview, modCore])

theorem linv_d1 {s s' : St} (hr : RInv (reqView s)) (d : DInv (dview s)) (i : LInv (dview s)) (h : step0 s .d1 = some s') :
    LInv (dview s') := by
  simp only [step0] at h
  split at h
  · cases h
  · split at h
    · rename_i hqe
      cases h; rw [dview_tail]
      have key := i.setDisp .none [] (fun hq => absurd rfl hq) (fun r' hd => by cases hd) (fun r' hd => by cases hd)
      exact key.congr (by simp [dview]) (by simp [dview]) (by simp [dview]) (by simp [dview, hqe])
    · rename_i _ hh rest hqu
      have hrq : hh ∈ (reqView s).queue := by simp [reqView, hqu]
      have hlen := hr.qr hh hrq
      obtain ⟨q, hq⟩ : ∃ q, (reqView s).cores[hh]? = some q := ⟨_, List.getElem?_eq_getElem hlen⟩
      have hpc : q.pc = .queued := (hr.ok hh q hq).que.mpr hrq
      have hq' : (dview s).cores[hh]? = some q := hq
      have hns : ∀ m, (dview s).ms[hh]? = some m → m.started = none := fun m hm => (d.fresh hh q m hq' hm (Or.inr (Or.inr hpc))).1
      split at h
      · cases h
      · split at h <;> cases h
        · rw [dview_beginPR]
          have hv : dview { tail { s with queue := rest } with disp := DispPc.busy hh } =
              { dview s with queue := rest, disp := .busy hh } := by simp [dview]
          rw [hv]
          have i1 := i.coreFresh hh q (fun k => { k with owner := .dispatcher, pc := if k.isCall then .p1 else .p2 }) hq'
            (by simp [hpc, ReqPc.inPR]) hns
          have key := i1.setDisp (.busy hh) rest (fun _ => by simp) (fun r' hd => by cases hd)
            (fun r' hd => by
              cases hd
              refine ⟨{ q with owner := .dispatcher, pc := if q.isCall then .p1 else .p2 }, by simp [List.getElem?_modify, hq'], ?_, rfl⟩
              simp only; split <;> rfl)
          exact key.congr rfl rfl rfl rfl
        · rw [dview_modMeta_started, dview_modCore]
          have hv : dview { tail { s with queue := rest } with
                clock := (tail { s with queue := rest }).clock + 1, disp := DispPc.waiting hh } =
              { dview s with queue := rest, disp := .waiting hh, clock := s.clock + 1 } := by simp [dview]
          rw [hv]
          have i1 := i.coreFresh hh q (fun k => { k with pc := .running, owner := .handler }) hq' (by simp [hpc, ReqPc.inPR]) hns
          have i2 := LInv.start (v := { dview s with cores := (dview s).cores.modify hh fun k => { k with pc := .running, owner := .handler } })
            i1 hh { q with pc := .running, owner := .handler } (s.clock + 1) (by simp [List.getElem?_modify, hq']) rfl (by simp)
          obtain ⟨m0, hm0⟩ : ∃ m, (dview s).ms[hh]? = some m := by
            have : hh < (dview s).ms.length := by rw [d.lens]; exact hlen
            exact ⟨_, List.getElem?_eq_getElem this⟩
          have key := i2.setDisp (.waiting hh) rest (fun _ => by simp)
            (fun r' hd => by
              cases hd
              exact ⟨{ m0 with started := some (s.clock + 1) }, by simp [List.getElem?_modify, hm0], rfl⟩)
            (fun r' hd => by cases hd)
          exact key.congr (by simp [dview]) (by simp [dview]) (by simp [dview]) (by simp [dview])

end Conn

namespace Conn

theorem linv_p1 {s s' : St} {r : Nat} (i : LInv (dview s)) (h : step0 s (.p1 r) = some s') : LInv (dview s') := by
  simp only [step0] at h
  split at h
  · cases h
  · rename_i q hq
    split at h
    · cases h
    · rename_i hpc
      have hpc : q.pc = .p1 := by simpa using hpc
      cases h
      have key : ∀ X : St, X.cores = s.cores → X.metas = s.metas → X.disp = s.disp → X.handlerRunning = s.handlerRunning →
          X.queue = s.queue → X.clock = s.clock → LInv (dview (tail (modCore X r fun q => { q with pc := .w1 }))) := by
        intro X a b c d e f
        rw [dview_tail, dview_modCore, hv0 s X a b c d e f]
        exact i.coreKeep r q _ hq rfl (by simp) (fun _ => by simp [ReqPc.inPR])
      split <;> exact key _ rfl rfl rfl rfl rfl rfl

theorem linv_w1 {s s' : St} {r : Nat} (i : LInv (dview s)) (h : step0 s (.w1 (.resp r)) = some s') : LInv (dview s') := by
  simp only [step0] at h
  split at h
  · cases h
  · rename_i q hq
    split at h
    · cases h
    · rename_i hpc
      have hpc : q.pc = .w1 := by simpa using hpc
      have hq' : (dview s).cores[r]? = some q := hq
      have i1 : LInv (dview (modCore s r fun q => { q with wrote := q.wrote + 1 })) := by
        rw [dview_modCore]; exact i.coreKeep r q _ hq' rfl (by simp [hpc]) (fun hp => hp)
      have hq1 : (dview (modCore s r fun q => { q with wrote := q.wrote + 1 })).cores[r]? = some { q with wrote := q.wrote + 1 } := by
        simp [dview, modCore, List.getElem?_modify, hq]
      split at h <;> cases h
      · rw [dview_tail, dview_modCore]
        exact i1.coreKeep r _ _ hq1 rfl (by simp) (fun _ => by simp [ReqPc.inPR])
      · rw [dview_toP2, dview_tail]
        exact i1.coreKeep r _ _ hq1 rfl (by simp) (fun _ => by simp [ReqPc.inPR])

theorem linv_wret {s s' : St} {r : Nat} {o : WOut} (i : LInv (dview s)) (h : step0 s (.wret (.resp r) o) = some s') :
    LInv (dview s') := by
  simp only [step0] at h
  split at h
  · cases h
  · rename_i q hq
    split at h
    · cases h
    · rename_i hpc
      have hpc : q.pc = .wr := by simpa using hpc
      have hq' : (dview s).cores[r]? = some q := hq
      cases o <;> simp only at h <;> cases h
      · rw [dview_toP2, dview_modCore]
        have i1 : LInv { dview s with cores := (dview s).cores.modify r fun q => { q with responses := q.responses + 1 } } :=
          i.coreKeep r q _ hq' rfl (by simp [hpc]) (fun hp => hp)
        have hq1 : ({ dview s with cores := (dview s).cores.modify r fun q => { q with responses := q.responses + 1 } } : DView).cores[r]? =
            some { q with responses := q.responses + 1 } := by
          simp [dview, List.getElem?_modify, hq]
        exact i1.coreKeep r _ _ hq1 rfl (by simp) (fun _ => by simp [ReqPc.inPR])
      · rw [dview_modCore]
        exact i.coreKeep r q _ hq' rfl (by simp) (fun _ => by simp [ReqPc.inPR])
      · rw [dview_toP2]
        exact i.coreKeep r q _ hq' rfl (by simp) (fun _ => by simp [ReqPc.inPR])

theorem linv_w2 {s s' : St} {r : Nat} (i : LInv (dview s)) (h : step0 s (.w2 (.resp r)) = some s') : LInv (dview s') := by
  simp only [step0] at h
  split at h
  · cases h
  · rename_i q hq
    split at h
    · cases h
      rw [dview_toP2, dview_tail, dview_markBroken]
      exact i.coreKeep r q _ hq rfl (by simp) (fun _ => by simp [ReqPc.inPR])
    · cases h

theorem linv_p2 {s s' : St} {r : Nat} (i : LInv (dview s)) (h : step0 s (.p2 r) = some s') : LInv (dview s') := by
  simp only [step0] at h
  split at h
  · cases h
  · rename_i q hq
    split at h
    · cases h
    · rename_i hpc
      have hpc : q.pc = .p2 := by simpa using hpc
      have hq' : (dview s).cores[r]? = some q := hq
      cases h
      have hv : ∀ X : St, X.cores = s.cores → X.metas = s.metas → X.disp = s.disp → X.handlerRunning = s.handlerRunning →
          X.queue = s.queue → X.clock = s.clock →
          dview (tail (modCore X r fun q => { q with pc := .fin })) =
            { dview s with cores := (dview s).cores.modify r (fun k => { k with pc := .fin }) } := by
        intro X a b c d e f
        rw [dview_tail, dview_modCore, hv0 s X a b c d e f]
      have hm : ∀ Y : St, dview (modMeta Y r fun q => { q with released := true }) =
          { dview Y with ms := (dview Y).ms.modify r (fun m => { m with released := true }) } := by
        intro Y; simp only [dview, modMeta]; congr 1
        exact map_mcore_modify _ _ _ _ (fun m => rfl)
      have key : ∀ X : St, X.cores = s.cores → X.metas = s.metas → X.disp = s.disp → X.handlerRunning = s.handlerRunning →
          X.queue = s.queue → X.clock = s.clock →
          LInv (dview (afterP2 (tail (modCore X r fun q => { q with pc := .fin })) r q.owner)) := by
        intro X a b c d e f
        cases hown : q.owner with
        | reader =>
          simp only [afterP2]
          rw [show ∀ Y : St, dview { Y with reader := ReaderPc.read } = dview Y from fun _ => rfl, hv X a b c d e f]
          refine i.core r _ (fun k hk => ?_)
          rw [hq'] at hk; cases hk
          refine ⟨fun m hm hs => ?_, fun hd => ?_⟩
          · have := (i.own r q m hq' hm hs).1; rw [hown] at this; cases this
          · obtain ⟨k', hk', _, ho⟩ := i.busy r hd
            rw [hq'] at hk'; cases hk'; rw [hown] at ho; cases ho
        | dispatcher =>
          simp only [afterP2]
          rw [show ∀ Y : St, dview { Y with disp := DispPc.d1 } = { dview Y with disp := .d1 } from fun _ => rfl, hv X a b c d e f]
          have i1 := i.setDisp .d1 (dview s).queue (fun _ => by simp) (fun r' hd => by cases hd) (fun r' hd => by cases hd)
          have i2 := LInv.core (v := { dview s with disp := .d1, queue := (dview s).queue }) i1 r (fun k => { k with pc := .fin })
            (fun k hk => by
              rw [show ({ dview s with disp := .d1, queue := (dview s).queue } : DView).cores[r]? = (dview s).cores[r]? from rfl, hq'] at hk
              cases hk
              refine ⟨fun m hm hs => ?_, fun hd => by cases hd⟩
              have := (i.own r q m hq' hm hs).1; rw [hown] at this; cases this)
          exact i2.congr rfl rfl rfl rfl
        | handler =>
          simp only [afterP2]
          rw [hm, hv X a b c d e f]
          have i1 := i.meta r (fun m => { m with released := true }) (fun m => rfl) (fun m _ => rfl)
          have i2 := LInv.core (v := { dview s with ms := (dview s).ms.modify r (fun m => { m with released := true }) }) i1 r
            (fun k => { k with pc := .fin })
            (fun k hk => by
              rw [show ({ dview s with ms := (dview s).ms.modify r (fun m => { m with released := true }) } : DView).cores[r]? =
                (dview s).cores[r]? from rfl, hq'] at hk
              cases hk
              refine ⟨fun m' hm' hs => ?_, fun hd => ?_⟩
              · obtain ⟨m, hm0, rfl⟩ := ms_modify_get hm'
                simp only [if_true] at hs ⊢
                exact ⟨(i.own r q m hq' hm0 hs).1, fun _ => trivial⟩
              · obtain ⟨k', hk', _, ho⟩ := i.busy r hd
                rw [hq'] at hk'; cases hk'; rw [hown] at ho; cases ho)
          exact i2.congr rfl rfl rfl rfl
      split <;> exact key _ rfl rfl rfl rfl rfl rfl

theorem linv_step0 {s s' : St} {l : Label} (hr : RInv (reqView s)) (d : DInv (dview s)) (i : LInv (dview s))
    (h : step0 s l = some s') : LInv (dview s') := by
  by_cases hl : l.touchesDisp = true
  · cases l <;> simp [Label.touchesDisp] at hl
    case read m => exact linv_read d i h
    case wret w o => cases w <;> simp [Label.touchesDisp] at hl; exact linv_wret i h
    case hasync r => exact linv_hasync i h
    case hret r e => exact linv_hret i h
    case a1 r => exact linv_a1 d i h
    case a2 r => exact linv_a2 d i h
    case d1 => exact linv_d1 hr d i h
    case p1 r => exact linv_p1 i h
    case p2 r => exact linv_p2 i h
    case w1 w => cases w <;> simp [Label.touchesDisp] at hl; exact linv_w1 i h
    case w2 w => cases w <;> simp [Label.touchesDisp] at hl; exact linv_w2 i h
  · exact (frame_disp s s' l h (by simpa using hl)) ▸ i

theorem linv_settle {s : St} (i : LInv (dview s)) : LInv (dview (settle s)) := by
  unfold settle settleDisp
  have hv : dview (settleWaiters (settleCalls s)) = dview s := by simp
  split
  · split
    · split
      · have e : dview { settleWaiters (settleCalls s) with disp := DispPc.d1 } = { dview s with disp := .d1 } := by
          rw [← hv]; rfl
        rw [e]
        have key := i.setDisp .d1 (dview s).queue (fun _ => by simp) (fun r' hd => by cases hd) (fun r' hd => by cases hd)
        exact key.congr rfl rfl rfl rfl
      · rw [hv]; exact i
    · rw [hv]; exact i
  · rw [hv]; exact i

/-- Inv2 plus the linkage invariant. -/
structure Inv3 (s : St) : Prop where
  base : Inv2 s
  link : LInv (dview s)

theorem inv3_init : Inv3 ({} : St) := ⟨inv2_init, linv_init⟩

theorem inv3_step {s s' : St} {l : Label} (i : Inv3 s) (h : step s l = some s') : Inv3 s' := by
  refine ⟨inv2_step i.base h, ?_⟩
  simp only [step, Option.map_eq_some_iff] at h
  obtain ⟨s0, h0, rfl⟩ := h
  exact linv_settle (linv_step0 i.base.base.reqs i.base.disp i.link h0)

theorem inv3_run {s s' : St} (ls : List Label) (i : Inv3 s) (h : run s ls = some s') : Inv3 s' := by
  induction ls generalizing s with
  | nil => simp [run] at h; exact h ▸ i
  | cons l ls ih =>
    simp only [run] at h
    split at h
    · cases h
    · rename_i s1 h1; exact ih (inv3_step i h1) h

end Conn

namespace Conn

/-! ### the reader goroutine, when busy, is working on the newest request -/

def RB (v : ReqView) : Prop := v.reader = .busy → ∃ k, v.cores[v.cores.length - 1]? = some k ∧ rdrPrem k

theorem RB.congr {v w : ReqView} (i : RB v) (h1 : w.cores = v.cores) (h2 : w.reader = v.reader) : RB w := by
  unfold RB at *; rw [h1, h2]; exact i

theorem rb_notBusy {v : ReqView} (h : v.reader ≠ .busy) : RB v := fun hb => absurd hb h

theorem RB.mod {v : ReqView} (i : RB v) (r : Nat) (g : ReqCore → ReqCore)
    (h : ∀ k, v.cores[r]? = some k → rdrPrem k → rdrPrem (g k)) : RB (v.mod r g) := by
  intro hb
  obtain ⟨k, hk, hp⟩ := i hb
  simp only [ReqView.mod, List.length_modify, List.getElem?_modify]
  by_cases hr : r = v.cores.length - 1
  · subst hr; exact ⟨g k, by simp [hk], h k hk hp⟩
  · exact ⟨k, by simp [hk, hr], hp⟩

theorem rdrPrem_keep {k k' : ReqCore} (hin : k.pc.inPR = true) (ho : k'.owner = k.owner) (hin' : k'.pc.inPR = true)
    (hp : rdrPrem k) : rdrPrem k' := by
  rcases hp with h | h | ⟨h, _⟩
  · simp [h, ReqPc.inPR] at hin
  · simp [h, ReqPc.inPR] at hin
  · exact Or.inr (Or.inr ⟨ho ▸ h, hin'⟩)

theorem not_rdrPrem {k : ReqCore} (h : k.pc = .running ∨ k.pc = .queued ∨ k.pc = .fin) : ¬ rdrPrem k := by
  intro hp
  rcases hp with h' | h' | ⟨_, h'⟩ <;> rcases h with h | h | h <;> simp [h, ReqPc.inPR] at h'

theorem rb_read {s s' : St} {m : RMsg} (h : step0 s (.read m) = some s') : RB (reqView s') := by
  simp only [step0] at h
  split at h
  · cases h
  · cases m <;> simp only at h <;> cases h
    · rename_i id
      intro _; exact ⟨{ id := some id, isCall := true }, by simp [reqView], Or.inl rfl⟩
    · intro _; exact ⟨{}, by simp [reqView], Or.inl rfl⟩
    · intro _; exact ⟨{}, by simp [reqView], Or.inl rfl⟩
    · exact rb_notBusy (by simp [reqView])
    · exact rb_notBusy (by simp [reqView])

theorem rb_start {s s' : St} (h : step0 s .start = some s') : RB (reqView s') := by
  simp only [step0] at h
  split at h
  · cases h
  · split at h <;> cases h <;> rw [reqView_tail] <;> exact rb_notBusy (by simp [reqView])

theorem rb_rresp {s s' : St} (h : step0 s .rresp = some s') : RB (reqView s') := by
  simp only [step0] at h
  split at h
  · cases h; rw [reqView_tail]
    split
    · rw [reqView_retireIn]; exact rb_notBusy (by simp [reqView])
    · exact rb_notBusy (by simp [reqView])
  · cases h

theorem rb_rx {s s' : St} (h : step0 s .rx = some s') : RB (reqView s') := by
  simp only [step0] at h
  split at h
  · cases h
  · cases h
    rw [reqView_tail, reqView_foldl_cancel]
    have : reqView { (s.outCalls.foldl (fun s n => retireIn s n (.err .read))
        { s with reader := .gone, reading := false, readErr := true }) with outCalls := [] } =
        { reqView s with reader := .gone } := by
      have := reqView_foldl_retire s.outCalls (.err .read) { s with reader := .gone, reading := false, readErr := true }
      simp only [reqView] at this ⊢
      simp_all
    rw [this]
    exact rb_notBusy (by simp)

theorem rb_hret {s s' : St} {r : Nat} {e : Bool} (i : RB (reqView s)) (h : step0 s (.hret r e) = some s') :
    RB (reqView s') := by
  simp only [step0] at h
  split at h
  · cases h
  · rename_i q hq
    split at h
    · cases h
    · rename_i hpc
      have hpc : q.pc = .running := by simpa using hpc
      cases h
      rw [reqView_beginPR]
      simp only [reqView_modMeta]
      have i1 : RB (reqView { s with clock := s.clock + 1 }) := i.congr rfl rfl
      refine i1.mod r _ (fun k hk hp => ?_)
      have hk' : s.cores[r]? = some k := hk
      rw [hq] at hk'; cases hk'
      exact absurd hp (not_rdrPrem (Or.inl hpc))

theorem rb_a1 {s s' : St} {r : Nat} (i : RB (reqView s)) (h : step0 s (.a1 r) = some s') : RB (reqView s') := by
  simp only [step0] at h
  split at h
  · cases h
  · split at h
    · cases h
    · have toReader : ∀ k : ReqCore, rdrPrem { k with owner := Owner.reader, pc := if k.isCall then ReqPc.p1 else ReqPc.p2 } := by
        intro k; refine Or.inr (Or.inr ⟨rfl, ?_⟩); simp only; split <;> rfl
      (repeat' (split at h)) <;> cases h
      · rw [reqView_tail, reqView_beginPR]
        simp only [reqView_modMeta, reqView_modCore]
        refine RB.mod ?_ r _ (fun k _ _ => toReader k)
        refine RB.mod (v := reqView { s with incoming := s.incoming + 1 }) (i.congr rfl rfl) r _ (fun k _ hp => ?_)
        rcases hp with hp | hp | ⟨ho, hp⟩
        · exact Or.inl hp
        · exact Or.inr (Or.inl hp)
        · exact Or.inr (Or.inr ⟨ho, hp⟩)
      · rw [reqView_tail, reqView_beginPR]
        simp only [reqView_modMeta]
        rename_i id _ _ _ _
        exact RB.mod (v := reqView { s with incoming := s.incoming + 1, byID := s.byID ++ [(id, r)] }) (i.congr rfl rfl) r _
          (fun k _ _ => toReader k)
      · rename_i id _ _ _ _
        rw [reqView_tail]; simp only [reqView_modMeta, reqView_modCore]
        exact RB.mod (v := reqView { s with incoming := s.incoming + 1, byID := s.byID ++ [(id, r)] }) (i.congr rfl rfl) r _
          (fun k _ _ => Or.inr (Or.inl rfl))
      · rename_i id _
        rw [reqView_tail]; simp only [reqView_modMeta, reqView_modCore]
        exact RB.mod (v := reqView { s with incoming := s.incoming + 1, cancels := s.cancels ++ [id] }) (i.congr rfl rfl) r _
          (fun k _ _ => Or.inr (Or.inl rfl))
      · rw [reqView_tail]; simp only [reqView_modMeta, reqView_modCore]
        exact RB.mod (v := reqView { s with incoming := s.incoming + 1 }) (i.congr rfl rfl) r _
          (fun k _ _ => Or.inr (Or.inl rfl))

theorem rb_a2 {s s' : St} {r : Nat} (i : RB (reqView s)) (h : step0 s (.a2 r) = some s') : RB (reqView s') := by
  simp only [step0] at h
  split at h
  · cases h
  · split at h
    · cases h
    · split at h
      · cases h
        rw [reqView_tail, reqView_beginPR]
        simp only [reqView_modMeta]
        refine i.mod r _ (fun k _ _ => Or.inr (Or.inr ⟨rfl, ?_⟩)); simp only; split <;> rfl
      · split at h <;> cases h <;> rw [reqView_tail] <;> exact rb_notBusy (by simp [reqView, modCore])

theorem rb_d1 {s s' : St} (hr : RInv (reqView s)) (i : RB (reqView s)) (h : step0 s .d1 = some s') : RB (reqView s') := by
  simp only [step0] at h
  split at h
  · cases h
  · split at h
    · cases h; rw [reqView_tail]; exact i.congr rfl rfl
    · rename_i _ hh rest hqu
      have hrq : hh ∈ (reqView s).queue := by simp [reqView, hqu]
      have hlen := hr.qr hh hrq
      obtain ⟨q, hq⟩ : ∃ q, (reqView s).cores[hh]? = some q := ⟨_, List.getElem?_eq_getElem hlen⟩
      have hpc : q.pc = .queued := (hr.ok hh q hq).que.mpr hrq
      split at h
      · cases h
      · split at h <;> cases h
        · rw [reqView_beginPR]
          have hv : reqView { tail { s with queue := rest } with disp := .busy hh } = { reqView s with queue := rest } := by
            simp [reqView]
          rw [hv]
          refine RB.mod (v := { reqView s with queue := rest }) (i.congr rfl rfl) hh _ (fun k hk hp => ?_)
          have hk' : (reqView s).cores[hh]? = some k := hk
          rw [hq] at hk'; cases hk'
          exact absurd hp (not_rdrPrem (Or.inr (Or.inl hpc)))
        · simp only [reqView_modMeta, reqView_modCore]
          have hv : reqView { tail { s with queue := rest } with clock := (tail { s with queue := rest }).clock + 1, disp := .waiting hh } =
              { reqView s with queue := rest } := by
            simp [reqView]
          rw [hv]
          refine RB.mod (v := { reqView s with queue := rest }) (i.congr rfl rfl) hh _ (fun k hk hp => ?_)
          have hk' : (reqView s).cores[hh]? = some k := hk
          rw [hq] at hk'; cases hk'
          exact absurd hp (not_rdrPrem (Or.inr (Or.inl hpc)))

end Conn

namespace Conn

theorem rb_p1 {s s' : St} {r : Nat} (i : RB (reqView s)) (h : step0 s (.p1 r) = some s') : RB (reqView s') := by
  simp only [step0] at h
  split at h
  · cases h
  · rename_i q hq
    split at h
    · cases h
    · rename_i hpc
      have hpc : q.pc = .p1 := by simpa using hpc
      cases h
      rw [reqView_tail, reqView_modCore]
      have key : ∀ X : St, X.cores = s.cores → X.reader = s.reader → RB ((reqView X).mod r fun q => { q with pc := .w1 }) := by
        intro X a b
        refine RB.mod (i.congr a b) r _ (fun k hk hp => ?_)
        have hk' : s.cores[r]? = some k := by rw [← a]; exact hk
        rw [hq] at hk'; cases hk'
        exact rdrPrem_keep (k := q) (by simp [hpc, ReqPc.inPR]) rfl (by simp [ReqPc.inPR]) hp
      split <;> exact key _ rfl rfl

theorem rb_w1 {s s' : St} {r : Nat} (i : RB (reqView s)) (h : step0 s (.w1 (.resp r)) = some s') : RB (reqView s') := by
  simp only [step0] at h
  split at h
  · cases h
  · rename_i q hq
    split at h
    · cases h
    · rename_i hpc
      have hpc : q.pc = .w1 := by simpa using hpc
      have i1 : RB ((reqView s).mod r fun q => { q with wrote := q.wrote + 1 }) := by
        refine i.mod r _ (fun k hk hp => ?_)
        have hk' : s.cores[r]? = some k := hk
        rw [hq] at hk'; cases hk'
        exact rdrPrem_keep (by simp [hpc, ReqPc.inPR]) rfl (by simp [hpc, ReqPc.inPR]) hp
      have hq1 : ((reqView s).mod r fun q => { q with wrote := q.wrote + 1 }).cores[r]? = some { q with wrote := q.wrote + 1 } := by
        simp [ReqView.mod, reqView, List.getElem?_modify, hq]
      split at h <;> cases h
      · rw [reqView_tail, reqView_modCore, reqView_modCore]
        refine i1.mod r _ (fun k hk hp => ?_)
        rw [hq1] at hk; cases hk
        exact rdrPrem_keep (k := { q with wrote := q.wrote + 1 }) (by simp [hpc, ReqPc.inPR]) rfl (by simp [ReqPc.inPR]) hp
      · rw [reqView_toP2, reqView_tail, reqView_modCore]
        refine i1.mod r _ (fun k hk hp => ?_)
        rw [hq1] at hk; cases hk
        exact rdrPrem_keep (k := { q with wrote := q.wrote + 1 }) (by simp [hpc, ReqPc.inPR]) rfl (by simp [ReqPc.inPR]) hp

theorem rb_wret {s s' : St} {r : Nat} {o : WOut} (i : RB (reqView s)) (h : step0 s (.wret (.resp r) o) = some s') :
    RB (reqView s') := by
  simp only [step0] at h
  split at h
  · cases h
  · rename_i q hq
    split at h
    · cases h
    · rename_i hpc
      have hpc : q.pc = .wr := by simpa using hpc
      have keep : ∀ (g : ReqCore → ReqCore), (g q).owner = q.owner → (g q).pc.inPR = true → RB ((reqView s).mod r g) := by
        intro g ho hp'
        refine i.mod r g (fun k hk hp => ?_)
        have hk' : s.cores[r]? = some k := hk
        rw [hq] at hk'; cases hk'
        exact rdrPrem_keep (by simp [hpc, ReqPc.inPR]) ho hp' hp
      cases o <;> simp only at h <;> cases h
      · rw [reqView_toP2, reqView_modCore]
        have i1 : RB ((reqView { s with wire := s.wire ++ [(r, false)] }).mod r fun q => { q with responses := q.responses + 1 }) :=
          (keep _ rfl (by simp [hpc, ReqPc.inPR])).congr rfl rfl
        refine i1.mod r _ (fun k hk hp => ?_)
        have : k = { q with responses := q.responses + 1 } := by
          simp [ReqView.mod, reqView, List.getElem?_modify, hq] at hk; exact hk.symm
        subst this
        exact rdrPrem_keep (k := { q with responses := q.responses + 1 }) (by simp [hpc, ReqPc.inPR]) rfl (by simp [ReqPc.inPR]) hp
      · rw [reqView_modCore]
        exact (keep _ rfl (by simp [ReqPc.inPR])).congr rfl rfl
      · rw [reqView_toP2]
        exact keep _ rfl (by simp [ReqPc.inPR])

theorem rb_w2 {s s' : St} {r : Nat} (i : RB (reqView s)) (h : step0 s (.w2 (.resp r)) = some s') : RB (reqView s') := by
  simp only [step0] at h
  split at h
  · cases h
  · rename_i q hq
    split at h
    · rename_i e hpc
      cases h
      rw [reqView_toP2, reqView_tail, reqView_markBroken]
      refine i.mod r _ (fun k hk hp => ?_)
      have hk' : s.cores[r]? = some k := hk
      rw [hq] at hk'; cases hk'
      exact rdrPrem_keep (k := q) (by simp [hpc, ReqPc.inPR]) rfl (by simp [ReqPc.inPR]) hp
    · cases h

theorem rb_p2 {s s' : St} {r : Nat} (i : RB (reqView s)) (h : step0 s (.p2 r) = some s') : RB (reqView s') := by
  simp only [step0] at h
  split at h
  · cases h
  · rename_i q hq
    split at h
    · cases h
    · rename_i hpc
      have hpc : q.pc = .p2 := by simpa using hpc
      cases h
      have key : ∀ X : St, X.cores = s.cores → X.reader = s.reader →
          RB (reqView (afterP2 (tail (modCore X r fun q => { q with pc := .fin })) r q.owner)) := by
        intro X a b
        cases hown : q.owner with
        | reader => exact rb_notBusy (by simp [afterP2, reqView])
        | dispatcher =>
          have : reqView (afterP2 (tail (modCore X r fun q => { q with pc := .fin })) r .dispatcher) =
              (reqView X).mod r fun q => { q with pc := .fin } := by
            simp [afterP2, reqView, ReqView.mod, modCore]
          rw [this]
          refine RB.mod (i.congr a b) r _ (fun k hk hp => ?_)
          have hk' : s.cores[r]? = some k := by rw [← a]; exact hk
          rw [hq] at hk'; cases hk'
          rcases hp with hp | hp | ⟨ho, _⟩
          · simp [hpc] at hp
          · simp [hpc] at hp
          · rw [hown] at ho; cases ho
        | handler =>
          have : reqView (afterP2 (tail (modCore X r fun q => { q with pc := .fin })) r .handler) =
              (reqView X).mod r fun q => { q with pc := .fin } := by
            simp [afterP2, reqView, ReqView.mod, modCore, modMeta]
          rw [this]
          refine RB.mod (i.congr a b) r _ (fun k hk hp => ?_)
          have hk' : s.cores[r]? = some k := by rw [← a]; exact hk
          rw [hq] at hk'; cases hk'
          rcases hp with hp | hp | ⟨ho, _⟩
          · simp [hpc] at hp
          · simp [hpc] at hp
          · rw [hown] at ho; cases ho
      split <;> exact key _ rfl rfl

theorem rb_step0 {s s' : St} {l : Label} (hr : RInv (reqView s)) (i : RB (reqView s)) (h : step0 s l = some s') :
    RB (reqView s') := by
  by_cases hl : l.touchesReqs = true
  · cases l <;> simp [Label.touchesReqs] at hl
    case read m => exact rb_read h
    case wret w o => cases w <;> simp [Label.touchesReqs] at hl; exact rb_wret i h
    case hret r e => exact rb_hret i h
    case start => exact rb_start h
    case rresp => exact rb_rresp h
    case rx => exact rb_rx h
    case a1 r => exact rb_a1 i h
    case a2 r => exact rb_a2 i h
    case d1 => exact rb_d1 hr i h
    case p1 r => exact rb_p1 i h
    case p2 r => exact rb_p2 i h
    case w1 w => cases w <;> simp [Label.touchesReqs] at hl; exact rb_w1 i h
    case w2 w => cases w <;> simp [Label.touchesReqs] at hl; exact rb_w2 i h
  · exact (frame_reqs s s' l h (by simpa using hl)) ▸ i

theorem rb_step {s s' : St} {l : Label} (hr : RInv (reqView s)) (i : RB (reqView s)) (h : step s l = some s') :
    RB (reqView s') := by
  simp only [step, Option.map_eq_some_iff] at h
  obtain ⟨s0, h0, rfl⟩ := h
  rw [reqView_settle]; exact rb_step0 hr i h0

theorem rb_init : RB (reqView ({} : St)) := rb_notBusy (by simp [reqView])

end Conn

namespace Conn

/-! ### what `settle` guarantees: nobody who could continue is left blocked on a channel -/

structure Settled (s : St) : Prop where
  disp : ∀ r m, s.disp = .waiting r → s.metas[r]? = some m → m.released = false
  wake : s.done = true → s.closeWaiting = 0 ∧ s.waitWaiting = 0

theorem settleDisp_spec (X : St) (r : Nat) (m : ReqMeta) (hd : (settleDisp X).disp = .waiting r)
    (hm : (settleDisp X).metas[r]? = some m) : m.released = false := by
  cases hX : X.disp with
  | none => have : settleDisp X = X := by simp [settleDisp, hX]
            rw [this, hX] at hd; cases hd
  | d1 => have : settleDisp X = X := by simp [settleDisp, hX]
          rw [this, hX] at hd; cases hd
  | busy r' => have : settleDisp X = X := by simp [settleDisp, hX]
               rw [this, hX] at hd; cases hd
  | waiting r' =>
    cases hq : X.metas[r']? with
    | none =>
      have : settleDisp X = X := by simp [settleDisp, hX, hq]
      rw [this] at hd hm; rw [hX] at hd; cases hd; rw [hq] at hm; cases hm
    | some q =>
      by_cases hrel : q.released = true
      · have : settleDisp X = { X with disp := .d1 } := by simp [settleDisp, hX, hq, hrel]
        rw [this] at hd; cases hd
      · have : settleDisp X = X := by simp [settleDisp, hX, hq, hrel]
        rw [this] at hd hm; rw [hX] at hd; cases hd; rw [hq] at hm; cases hm; simpa using hrel

theorem settled_settle (s : St) : Settled (settle s) := by
  constructor
  · intro r m hd hm
    exact settleDisp_spec _ r m hd hm
  · intro hd
    have h1 : (settle s).done = (settleWaiters (settleCalls s)).done := by
      unfold settle settleDisp; repeat' split
      all_goals rfl
    have h2 : (settle s).closeWaiting = (settleWaiters (settleCalls s)).closeWaiting ∧
        (settle s).waitWaiting = (settleWaiters (settleCalls s)).waitWaiting := by
      unfold settle settleDisp; repeat' split
      all_goals exact ⟨rfl, rfl⟩
    rw [h1] at hd; rw [h2.1, h2.2]
    unfold settleWaiters at hd ⊢
    split
    · exact ⟨rfl, rfl⟩
    · rename_i hnd; split at hd <;> simp_all

theorem settled_init : Settled ({} : St) :=
  ⟨fun r m hd _ => (by cases hd), fun hd => (by cases hd)⟩

theorem settled_step {s s' : St} {l : Label} (h : step s l = some s') : Settled s' := by
  simp only [step, Option.map_eq_some_iff] at h
  obtain ⟨s0, _, rfl⟩ := h
  exact settled_settle s0

/-- Everything the progress theorem needs, for every reachable state. -/
structure Inv4 (s : St) : Prop where
  base : Inv3 s
  rb : RB (reqView s)
  ti : TI (fview s)
  ni : NInv (nview s)
  st : Settled s
  aw : ∀ n c, getCall s n = some c → c.pc = .await → c.ready = none ∧ c.ctxDone = false

theorem inv4_init : Inv4 ({} : St) :=
  ⟨inv3_init, rb_init, by simp [TI, fview, FV.idle, FV.shuttingDown], by simp [NInv, nview, cntW], settled_init,
    fun n c hc => by simp [getCall_eq] at hc⟩

theorem inv4_step {s s' : St} {l : Label} (i : Inv4 s) (h : step s l = some s') : Inv4 s' := by
  refine ⟨inv3_step i.base h, rb_step i.base.base.base.reqs i.rb h, ?_, ninv_step i.ni h, settled_step h,
    await_wait_free s s' l h⟩
  have h' := h
  simp only [step, Option.map_eq_some_iff] at h'
  obtain ⟨s0, h0, rfl⟩ := h'
  rw [fview_settle]
  exact ti_step0 i.base.base.base.flags i.ti h0

theorem inv4_run {s s' : St} (ls : List Label) (i : Inv4 s) (h : run s ls = some s') : Inv4 s' := by
  induction ls generalizing s with
  | nil => simp [run] at h; exact h ▸ i
  | cons l ls ih =>
    simp only [run] at h
    split at h
    · cases h
    · rename_i s1 h1; exact ih (inv4_step i h1) h

end Conn
