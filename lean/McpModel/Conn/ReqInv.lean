import McpModel.Conn.Frames
/-! Invariants of the incoming-request bookkeeping (C02, and the links needed for C03–C05). -/
namespace Conn

/-- Accepted (A1 done) and not yet finished (P2 not done): counted by `incoming`. -/
def ReqPc.inflight : ReqPc → Bool
  | .a1 | .fin => false
  | _ => true

/-- A call in one of these states is still indexed in `incomingByID`. -/
def ReqPc.indexed : ReqPc → Bool
  | .a2 | .queued | .running | .p1 => true
  | _ => false

/-- In processResult (between P1/P2 park points). -/
def ReqPc.inPR : ReqPc → Bool
  | .p1 | .w1 | .wr | .w2 _ | .p2 => true
  | _ => false

structure ReqView where
  cores : List ReqCore
  incoming : Nat
  byID : List (Nat × Nat)
  panicIncoming : Bool
  reader : ReaderPc
  queue : List Nat

def reqView (s : St) : ReqView :=
  { cores := s.cores, incoming := s.incoming, byID := s.byID, panicIncoming := s.panicIncoming,
    reader := s.reader, queue := s.queue }

structure ReqOK (v : ReqView) (r : Nat) (k : ReqCore) : Prop where
  /-- before the response write: nothing written -/
  pre : (k.pc = .a1 ∨ k.pc = .a2 ∨ k.pc = .queued ∨ k.pc = .running ∨ k.pc = .p1 ∨ k.pc = .w1) → k.wrote = 0 ∧ k.responses = 0
  /-- during the write: attempted once, not yet delivered -/
  mid : (k.pc = .wr ∨ ∃ e, k.pc = .w2 e) → k.wrote = 1 ∧ k.responses = 0
  /-- answer_at_most_once -/
  post : k.wrote ≤ 1 ∧ k.responses ≤ k.wrote ∧ (k.isCall = true → (k.pc = .p2 ∨ k.pc = .fin) → k.wrote = 1)
  /-- notification_unanswered: a request without id never enters the response path -/
  notif : k.isCall = false → k.wrote = 0 ∧ k.pc ≠ .p1 ∧ k.pc ≠ .w1 ∧ k.pc ≠ .wr ∧ ∀ e, k.pc ≠ .w2 e
  /-- indexed iff it is an unanswered call -/
  idx : ∀ id, (id, r) ∈ v.byID ↔ (k.isCall = true ∧ k.id = some id ∧ k.pc.indexed = true)
  /-- the reader goroutine works on at most one request: the newest -/
  rdr : (k.pc = .a1 ∨ k.pc = .a2 ∨ (k.owner = .reader ∧ k.pc.inPR = true)) → v.reader = .busy ∧ r + 1 = v.cores.length
  /-- the handler queue holds exactly the requests waiting for the dispatcher -/
  que : k.pc = .queued ↔ r ∈ v.queue

def countInflight : List ReqCore → Nat
  | [] => 0
  | k :: t => (if k.pc.inflight then 1 else 0) + countInflight t

structure RInv (v : ReqView) : Prop where
  cnt : v.incoming = countInflight v.cores
  ok : ∀ r k, v.cores[r]? = some k → ReqOK v r k
  byr : ∀ p ∈ v.byID, p.2 < v.cores.length
  keys : (v.byID.map (·.1)).Nodup
  qnd : v.queue.Nodup
  qr : ∀ r ∈ v.queue, r < v.cores.length
  nopanic : v.panicIncoming = false

@[simp] theorem reqView_tail (s : St) : reqView (tail s) = reqView s := by simp [reqView]
@[simp] theorem reqView_modCall (s : St) (n : Nat) (f : Call → Call) : reqView (modCall s n f) = reqView s := rfl
@[simp] theorem reqView_modMeta (s : St) (r : Nat) (f : ReqMeta → ReqMeta) : reqView (modMeta s r f) = reqView s := rfl
@[simp] theorem reqView_setNotif (s : St) (w : Who) (f : Notif → Notif) : reqView (setNotif s w f) = reqView s := by
  cases w <;> rfl
@[simp] theorem reqView_retireIn (s : St) (n : Nat) (r : Res) : reqView (retireIn s n r) = reqView s := by simp [reqView]
@[simp] theorem reqView_settleCalls (s : St) : reqView (settleCalls s) = reqView s := rfl
@[simp] theorem reqView_settleWaiters (s : St) : reqView (settleWaiters s) = reqView s := by simp [reqView]
@[simp] theorem reqView_settleDisp (s : St) : reqView (settleDisp s) = reqView s := by
  unfold settleDisp; split
  · split
    · split <;> rfl
    · rfl
  · rfl
@[simp] theorem reqView_settle (s : St) : reqView (settle s) = reqView s := by simp [settle]
@[simp] theorem reqView_cancelReq (s : St) (r : Nat) (c : Cause) : reqView (cancelReq s r c) = reqView s := rfl

theorem reqView_foldl_cancel (l : List (Nat × Nat)) (c : Cause) (s : St) :
    reqView (l.foldl (fun s p => cancelReq s p.2 c) s) = reqView s := by
  induction l generalizing s with
  | nil => rfl
  | cons p t ih => simp [List.foldl, ih]

@[simp] theorem reqView_markBroken (s : St) : reqView (markBroken s) = reqView s := by
  unfold markBroken; split
  · rfl
  · rw [reqView_foldl_cancel]; rfl

theorem RInv.of_view {s s' : St} (h : reqView s' = reqView s) (i : RInv (reqView s)) : RInv (reqView s') := h ▸ i

/-- View-level request update. -/
def ReqView.mod (v : ReqView) (r : Nat) (g : ReqCore → ReqCore) : ReqView := { v with cores := v.cores.modify r g }

@[simp] theorem reqView_modCore (s : St) (r : Nat) (g : ReqCore → ReqCore) :
    reqView (modCore s r g) = (reqView s).mod r g := rfl

@[simp] theorem reqView_toP2 (s : St) (r : Nat) : reqView (toP2 s r) = (reqView s).mod r (fun k => { k with pc := .p2 }) := rfl

theorem reqView_beginPR (s : St) (r : Nat) (own : Owner) :
    reqView (beginPR s r own) = (reqView s).mod r (fun k => { k with owner := own, pc := if k.isCall then .p1 else .p2 }) := by
  unfold beginPR
  split
  · rename_i h
    simp only [ReqView.mod, reqView]
    congr 1
    apply List.ext_getElem?; intro j; simp only [List.getElem?_modify]
    by_cases hj : r = j
    · subst hj; simp [h]
    · simp [hj]
  · rename_i q hq
    split
    · rename_i hc
      simp only [reqView_modCore, ReqView.mod]
      congr 1
      apply List.ext_getElem?; intro j; simp only [List.getElem?_modify, reqView]
      by_cases hj : r = j
      · subst hj; simp [hq, hc]
      · simp [hj]
    · rename_i hc
      simp only [reqView_toP2, reqView_modCore, ReqView.mod]
      congr 1
      apply List.ext_getElem?; intro j; simp only [List.getElem?_modify, reqView]
      by_cases hj : r = j
      · subst hj; simp [hq, hc]
      · simp [hj]

end Conn

namespace Conn

theorem countInflight_modify (l : List ReqCore) (r : Nat) (k k' : ReqCore) (h : l[r]? = some k) :
    countInflight (l.modify r (fun _ => k')) + (if k.pc.inflight then 1 else 0) =
      countInflight l + (if k'.pc.inflight then 1 else 0) := by
  induction l generalizing r with
  | nil => simp at h
  | cons a t ih =>
    cases r with
    | zero => simp at h; subst h; simp [List.modify, countInflight]; omega
    | succ r =>
      simp at h
      have := ih r h
      simp [List.modify, countInflight] at this ⊢; omega

theorem countInflight_append (l : List ReqCore) (k : ReqCore) :
    countInflight (l ++ [k]) = countInflight l + (if k.pc.inflight then 1 else 0) := by
  induction l with
  | nil => simp [countInflight]
  | cons a t ih => simp [countInflight, ih]; omega

def rdrPrem (k : ReqCore) : Prop := k.pc = .a1 ∨ k.pc = .a2 ∨ (k.owner = .reader ∧ k.pc.inPR = true)

/-- Replace the core of request `r`; the other requests inherit their invariant. -/
theorem RInv.update {v v' : ReqView} (i : RInv v) (r : Nat) (k k' : ReqCore) (hk : v.cores[r]? = some k)
    (hcores : v'.cores = v.cores.modify r (fun _ => k'))
    (hinc : v'.incoming + (if k.pc.inflight then 1 else 0) = v.incoming + (if k'.pc.inflight then 1 else 0))
    (hby : ∀ id j, j ≠ r → ((id, j) ∈ v'.byID ↔ (id, j) ∈ v.byID))
    (hq : ∀ j, j ≠ r → (j ∈ v'.queue ↔ j ∈ v.queue))
    (hrd : v'.reader = v.reader ∨ rdrPrem k)
    (hok : ReqOK v' r k')
    (hbyr : ∀ p ∈ v'.byID, p.2 < v.cores.length)
    (hkeys : (v'.byID.map (·.1)).Nodup) (hqnd : v'.queue.Nodup) (hqr : ∀ j ∈ v'.queue, j < v.cores.length)
    (hp : v'.panicIncoming = false) : RInv v' := by
  have hlen : v'.cores.length = v.cores.length := by rw [hcores, List.length_modify]
  refine ⟨?_, ?_, by rw [hlen]; exact hbyr, hkeys, hqnd, by rw [hlen]; exact hqr, hp⟩
  · have := countInflight_modify v.cores r k k' hk
    rw [hcores]; have := i.cnt; omega
  · intro j kj hj
    rw [hcores, List.getElem?_modify] at hj
    by_cases hjr : r = j
    · subst hjr; simp [hk] at hj; subst hj; exact hok
    · simp [hjr, Option.map_eq_some_iff] at hj
      have hj' : v.cores[j]? = some kj := by
        cases h : v.cores[j]? with
        | none => simp [h] at hj
        | some x => simp [h] at hj; subst hj; rfl
      have o := i.ok j kj hj'
      have hne : j ≠ r := fun h => hjr h.symm
      refine ⟨o.pre, o.mid, o.post, o.notif, fun id => by rw [hby id j hne]; exact o.idx id, ?_, by rw [hq j hne]; exact o.que⟩
      intro hprem
      obtain ⟨h1, h2⟩ := o.rdr hprem
      rw [hlen]
      rcases hrd with h | h
      · exact ⟨h ▸ h1, h2⟩
      · -- r itself is the reader's request, so j = r: contradiction
        have o' := i.ok r k hk
        have := (o'.rdr h).2
        omega

end Conn


namespace Conn

def Label.touchesReqs : Label → Bool
  | .read _ | .wret (.resp _) _ | .hret _ _ | .start | .rresp | .rx | .a1 _ | .a2 _ | .d1 | .p1 _ | .p2 _
  | .w1 (.resp _) | .w2 (.resp _) => true
  | _ => false

@[simp] theorem modMeta_cores (s : St) (r : Nat) (f : ReqMeta → ReqMeta) : (modMeta s r f).cores = s.cores := rfl
@[simp] theorem modMeta_incoming (s : St) (r : Nat) (f : ReqMeta → ReqMeta) : (modMeta s r f).incoming = s.incoming := rfl
@[simp] theorem modMeta_byID (s : St) (r : Nat) (f : ReqMeta → ReqMeta) : (modMeta s r f).byID = s.byID := rfl
@[simp] theorem modMeta_panicIncoming (s : St) (r : Nat) (f : ReqMeta → ReqMeta) : (modMeta s r f).panicIncoming = s.panicIncoming := rfl
@[simp] theorem modMeta_reader (s : St) (r : Nat) (f : ReqMeta → ReqMeta) : (modMeta s r f).reader = s.reader := rfl
@[simp] theorem modMeta_queue (s : St) (r : Nat) (f : ReqMeta → ReqMeta) : (modMeta s r f).queue = s.queue := rfl
@[simp] theorem cancelReq_cores (s : St) (r : Nat) (c : Cause) : (cancelReq s r c).cores = s.cores := rfl
@[simp] theorem cancelReq_incoming (s : St) (r : Nat) (c : Cause) : (cancelReq s r c).incoming = s.incoming := rfl
@[simp] theorem cancelReq_byID (s : St) (r : Nat) (c : Cause) : (cancelReq s r c).byID = s.byID := rfl
@[simp] theorem cancelReq_panicIncoming (s : St) (r : Nat) (c : Cause) : (cancelReq s r c).panicIncoming = s.panicIncoming := rfl
@[simp] theorem cancelReq_reader (s : St) (r : Nat) (c : Cause) : (cancelReq s r c).reader = s.reader := rfl
@[simp] theorem cancelReq_queue (s : St) (r : Nat) (c : Cause) : (cancelReq s r c).queue = s.queue := rfl
@[simp] theorem markBroken_cores (s : St) : (markBroken s).cores = s.cores := congrArg ReqView.cores (reqView_markBroken s)
@[simp] theorem markBroken_incoming (s : St) : (markBroken s).incoming = s.incoming := congrArg ReqView.incoming (reqView_markBroken s)
@[simp] theorem markBroken_byID (s : St) : (markBroken s).byID = s.byID := congrArg ReqView.byID (reqView_markBroken s)
@[simp] theorem markBroken_panicIncoming (s : St) : (markBroken s).panicIncoming = s.panicIncoming := congrArg ReqView.panicIncoming (reqView_markBroken s)
@[simp] theorem markBroken_reader (s : St) : (markBroken s).reader = s.reader := congrArg ReqView.reader (reqView_markBroken s)
@[simp] theorem markBroken_queue (s : St) : (markBroken s).queue = s.queue := congrArg ReqView.queue (reqView_markBroken s)

set_option maxRecDepth 4000 in
theorem frame_reqs (s s' : St) (l : Label) (h : step0 s l = some s') (hl : l.touchesReqs = false) :
    reqView s' = reqView s := by
  cases l <;> simp [Label.touchesReqs] at hl <;> simp only [step0] at h
  all_goals (repeat' (split at h))
  all_goals first
    | (simp [Label.touchesReqs] at hl; done)
    | (simp at h; done)
    | (injection h with h; subst h; first | rfl | (simp; done) | (simp [reqView]; done))

end Conn

namespace Conn

theorem modify_const {α} (l : List α) (i : Nat) (a : α) (f : α → α) (h : l[i]? = some a) :
    l.modify i f = l.modify i (fun _ => f a) := by
  apply List.ext_getElem?; intro j
  simp only [List.getElem?_modify]
  by_cases hj : i = j
  · subst hj; simp [h]
  · simp [hj]

/-- `RInv.update` with the new core given by a function of the old one. -/
theorem RInv.modUpdate {v v' : ReqView} (i : RInv v) (r : Nat) (k : ReqCore) (g : ReqCore → ReqCore)
    (hk : v.cores[r]? = some k)
    (hcores : v'.cores = v.cores.modify r g)
    (hinc : v'.incoming + (if k.pc.inflight then 1 else 0) = v.incoming + (if (g k).pc.inflight then 1 else 0))
    (hby : ∀ id j, j ≠ r → ((id, j) ∈ v'.byID ↔ (id, j) ∈ v.byID))
    (hq : ∀ j, j ≠ r → (j ∈ v'.queue ↔ j ∈ v.queue))
    (hrd : v'.reader = v.reader ∨ rdrPrem k)
    (hok : ReqOK v' r (g k))
    (hbyr : ∀ p ∈ v'.byID, p.2 < v.cores.length)
    (hkeys : (v'.byID.map (·.1)).Nodup) (hqnd : v'.queue.Nodup) (hqr : ∀ j ∈ v'.queue, j < v.cores.length)
    (hp : v'.panicIncoming = false) : RInv v' :=
  i.update r k (g k) hk (by rw [hcores]; exact modify_const _ _ k g hk) hinc hby hq hrd hok hbyr hkeys hqnd hqr hp

/-- Only the core of `r` changes (tables, reader unchanged; in-flight status unchanged). -/
theorem RInv.modOnly {v : ReqView} (i : RInv v) (r : Nat) (k : ReqCore) (g : ReqCore → ReqCore)
    (hk : v.cores[r]? = some k) (hinfl : k.pc.inflight = (g k).pc.inflight)
    (hok : ReqOK (v.mod r g) r (g k)) : RInv (v.mod r g) :=
  i.modUpdate r k g hk rfl (by simp [ReqView.mod, hinfl]) (fun _ _ _ => Iff.rfl) (fun _ _ => Iff.rfl) (Or.inl rfl) hok
    i.byr i.keys i.qnd i.qr i.nopanic

theorem mod_len (v : ReqView) (r : Nat) (g : ReqCore → ReqCore) : (v.mod r g).cores.length = v.cores.length := by
  simp [ReqView.mod]

end Conn

namespace Conn

@[simp] theorem mod_mod (v : ReqView) (r : Nat) (g1 g2 : ReqCore → ReqCore) :
    (v.mod r g1).mod r g2 = v.mod r (fun k => g2 (g1 k)) := by
  simp only [ReqView.mod]
  congr 1
  apply List.ext_getElem?; intro j
  simp only [List.getElem?_modify]
  by_cases hj : r = j
  · subst hj; cases v.cores[r]? <;> simp
  · simp [hj]

theorem lookup_none_not_mem {l : List (Nat × Nat)} {id : Nat} (h : (l.lookup id).isSome = false) :
    id ∉ l.map (·.1) := by
  induction l with
  | nil => simp
  | cons p t ih =>
    obtain ⟨a, b⟩ := p
    by_cases hab : id = a
    · subst hab; simp [List.lookup] at h
    · have hb : (id == a) = false := by simp [hab]
      simp only [List.lookup, hb] at h
      have := ih h
      simp only [List.map_cons, List.mem_cons, not_or]
      exact ⟨hab, this⟩

theorem rinv_a1 {s s' : St} {r : Nat} (i : RInv (reqView s)) (h : step0 s (.a1 r) = some s') : RInv (reqView s') := by
  simp only [step0] at h
  split at h
  · cases h
  · rename_i q hq
    split at h
    · cases h
    · rename_i hpc
      have hpc : q.pc = .a1 := by simpa using hpc
      have hk : (reqView s).cores[r]? = some q := hq
      have o := i.ok r q hk
      have hlen : r < (reqView s).cores.length := (List.getElem?_eq_some_iff.mp hk).1
      obtain ⟨hw, hrs⟩ := o.pre (Or.inl hpc)
      have hnq : r ∉ (reqView s).queue := fun hm => by have := o.que.mpr hm; simp [hpc] at this
      have hnidx : ∀ id, (id, r) ∉ (reqView s).byID := fun id hm => by
        have := ((o.idx id).mp hm).2.2; simp [hpc, ReqPc.indexed] at this
      obtain ⟨hrb, hrl⟩ := o.rdr (Or.inl hpc)
      split at h
      · rename_i id hid hcall
        split at h
        · -- duplicate in-flight id: the request loses its id and is dropped as a notification
          cases h
          rw [reqView_tail, reqView_beginPR]
          simp only [reqView_modMeta, reqView_modCore]
          simp only [mod_mod]
          refine i.modUpdate r q _ hk rfl (by simp [ReqView.mod, reqView, hpc, ReqPc.inflight]) (fun _ _ _ => Iff.rfl) (fun _ _ => Iff.rfl)
            (Or.inl rfl) ?_ i.byr i.keys i.qnd i.qr i.nopanic
          refine ⟨by simp, by simp, by simp; omega, fun _ => ⟨hw, by simp⟩, ?_, ?_, ?_⟩
          · intro id'; simp [ReqView.mod, reqView]; exact hnidx id'
          · intro _; exact ⟨hrb, by simpa [ReqView.mod, reqView] using hrl⟩
          · simp [ReqView.mod, reqView]; exact hnq
        · rename_i hnd
          have hkeys' : ((s.byID ++ [(id, r)]).map (·.1)).Nodup := by
            rw [List.map_append]
            refine List.nodup_append.mpr ⟨i.keys, by simp, ?_⟩
            intro a ha b hb; simp at hb; subst hb
            have hnd' : (s.byID.lookup b).isSome = false := by
              cases hx : (s.byID.lookup b).isSome <;> simp_all
            have := lookup_none_not_mem (l := s.byID) (id := b) hnd'
            intro hab; subst hab; exact this ha
          have hbyr' : ∀ p ∈ s.byID ++ [(id, r)], p.2 < (reqView s).cores.length := by
            intro p hp; simp at hp
            rcases hp with hp | hp
            · exact i.byr p hp
            · subst hp; exact hlen
          have hidx' : ∀ (pc' : ReqPc), pc'.indexed = true → ∀ id', (id', r) ∈ s.byID ++ [(id, r)] ↔
              (q.isCall = true ∧ q.id = some id' ∧ pc'.indexed = true) := by
            intro pc' hi id'
            simp only [List.mem_append, List.mem_singleton, Prod.mk.injEq, and_true, hcall, hid, hi, true_and, Option.some.injEq]
            constructor
            · rintro (hm | hm)
              · exact absurd hm (hnidx id')
              · exact hm.symm
            · intro h; exact Or.inr h.symm
          split at h
          · -- indexed, then refused because the connection is shutting down
            cases h
            rw [reqView_tail, reqView_beginPR]
            simp only [reqView_modMeta]
            refine i.modUpdate r q _ hk rfl (by simp [ReqView.mod, reqView, hpc, hcall, ReqPc.inflight]) ?_ (fun _ _ => Iff.rfl)
              (Or.inl rfl) ?_ hbyr' hkeys' i.qnd i.qr i.nopanic
            · intro id' j hj; simp [ReqView.mod, reqView]; intro _ h2; exact absurd h2 hj
            · simp only [hcall, if_true]
              refine ⟨fun _ => ⟨hw, hrs⟩, by simp, by simp; omega, fun hc => by simp [hcall] at hc, ?_, ?_, ?_⟩
              · intro id'; have := hidx' .p1 rfl id'; simpa [ReqView.mod, reqView, hcall] using this
              · intro _; exact ⟨hrb, by simpa [ReqView.mod, reqView] using hrl⟩
              · simp [ReqView.mod, reqView]; exact hnq
          · -- indexed and accepted: on to the preempter, then A2
            cases h
            rw [reqView_tail]
            simp only [reqView_modMeta, reqView_modCore]
            refine i.modUpdate r q _ hk rfl (by simp [ReqView.mod, reqView, hpc, ReqPc.inflight]) ?_ (fun _ _ => Iff.rfl)
              (Or.inl rfl) ?_ hbyr' hkeys' i.qnd i.qr i.nopanic
            · intro id' j hj; simp [ReqView.mod, reqView]; intro _ h2; exact absurd h2 hj
            · refine ⟨fun _ => ⟨hw, hrs⟩, by simp, by simp; omega, fun hc => by simp [hcall] at hc, ?_, ?_, ?_⟩
              · intro id'; have := hidx' .a2 rfl id'; simpa [ReqView.mod, reqView, hcall] using this
              · intro _; exact ⟨hrb, by simpa [ReqView.mod, reqView] using hrl⟩
              · simp [ReqView.mod, reqView]; exact hnq
      · -- a notification (possibly notifications/cancelled: `go Cancel(id)`)
        rename_i hnc
        cases h
        rw [reqView_tail]
        simp only [reqView_modMeta, reqView_modCore]
        have hnotcall : q.isCall = true → q.id = none := by
          intro hc
          cases hid : q.id with
          | none => rfl
          | some id => have := hnc id; simp [hid, hc] at this
        have hv : ∀ X : St, X.cores = s.cores → X.incoming = s.incoming + 1 → X.byID = s.byID → X.panicIncoming = s.panicIncoming →
            X.reader = s.reader → X.queue = s.queue →
            RInv ((reqView X).mod r fun k => { k with pc := .a2 }) := by
          intro X h1 h2 h3 h4 h5 h6
          have hX : reqView X = { reqView s with incoming := s.incoming + 1 } := by
            simp [reqView, h1, h2, h3, h4, h5, h6]
          rw [hX]
          refine i.modUpdate r q _ hk rfl (by simp [ReqView.mod, reqView, hpc, ReqPc.inflight]) (fun _ _ _ => Iff.rfl) (fun _ _ => Iff.rfl)
            (Or.inl rfl) ?_ i.byr i.keys i.qnd i.qr i.nopanic
          refine ⟨fun _ => ⟨hw, hrs⟩, by simp, by simp; omega, fun hc => ⟨hw, by simp⟩, ?_, ?_, ?_⟩
          · intro id'; simp only [ReqView.mod, reqView]
            constructor
            · intro hm; exact absurd hm (hnidx id')
            · intro ⟨h1, h2, _⟩
              have := hnotcall h1
              simp [this] at h2
          · intro _; exact ⟨hrb, by simpa [ReqView.mod, reqView] using hrl⟩
          · simp [ReqView.mod, reqView]; exact hnq
        split <;> exact hv _ rfl rfl rfl rfl rfl rfl

end Conn

namespace Conn

/-- Changing the reader's pc between non-busy values: no request is attached to the reader. -/
theorem RInv.setReader {v : ReqView} (i : RInv v) (rd : ReaderPc) (h1 : v.reader ≠ .busy) (h2 : rd ≠ .busy) :
    RInv { v with reader := rd } := by
  refine ⟨i.cnt, ?_, i.byr, i.keys, i.qnd, i.qr, i.nopanic⟩
  intro r k hk
  have o := i.ok r k hk
  exact ⟨o.pre, o.mid, o.post, o.notif, o.idx, fun hp => absurd (o.rdr hp).1 h1, o.que⟩

/-- A new request arrives (reader was parked in Read). -/
theorem RInv.append {v : ReqView} (i : RInv v) (k : ReqCore) (h1 : v.reader = .read)
    (hk : k.pc = .a1 ∧ k.owner = .reader ∧ k.wrote = 0 ∧ k.responses = 0) :
    RInv { v with cores := v.cores ++ [k], reader := .busy } := by
  obtain ⟨hpc, hown, hw, hr⟩ := hk
  refine ⟨?_, ?_, ?_, i.keys, i.qnd, ?_, i.nopanic⟩
  · simp [countInflight_append, hpc, ReqPc.inflight]; exact i.cnt
  · intro r k' hk'
    simp only [List.getElem?_append] at hk'
    by_cases hlt : r < v.cores.length
    · simp only [hlt, if_true] at hk'
      have o := i.ok r k' hk'
      refine ⟨o.pre, o.mid, o.post, o.notif, o.idx, ?_, o.que⟩
      intro hp; have := (o.rdr hp).1; rw [h1] at this; cases this
    · simp only [hlt, if_false] at hk'
      have hr0 : r - v.cores.length = 0 := by
        by_cases h0 : r - v.cores.length = 0
        · exact h0
        · have : ([k])[r - v.cores.length]? = none := by apply List.getElem?_eq_none; simp; omega
          rw [this] at hk'; cases hk'
      rw [hr0] at hk'; simp at hk'; subst hk'
      have hre : r = v.cores.length := by omega
      refine ⟨fun _ => ⟨hw, hr⟩, fun h => by rcases h with h | ⟨e, h⟩ <;> simp [hpc] at h, ⟨by omega, by omega, fun _ h => by rcases h with h | h <;> simp [hpc] at h⟩,
        fun _ => ⟨hw, by simp [hpc], by simp [hpc], by simp [hpc], by simp [hpc]⟩, ?_, fun _ => ⟨rfl, by simp [hre]⟩, ?_⟩
      · intro id
        constructor
        · intro hm; have := i.byr _ hm; simp at this; omega
        · intro ⟨_, _, h⟩; simp [hpc, ReqPc.indexed] at h
      · constructor
        · intro h; simp [hpc] at h
        · intro hm; have := i.qr _ hm; omega
  · intro p hp; have := i.byr p hp; simp; omega
  · intro r hr; have := i.qr r hr; simp; omega

theorem rinv_read {s s' : St} {m : RMsg} (i : RInv (reqView s)) (h : step0 s (.read m) = some s') : RInv (reqView s') := by
  simp only [step0] at h
  split at h
  · cases h
  · rename_i hrd
    have hrd : (reqView s).reader = .read := by simpa [reqView] using hrd
    have hnb : (reqView s).reader ≠ .busy := by rw [hrd]; simp
    cases m <;> simp only at h <;> cases h
    · exact i.append { id := some _, isCall := true } hrd ⟨rfl, rfl, rfl, rfl⟩
    · exact i.append {} hrd ⟨rfl, rfl, rfl, rfl⟩
    · exact i.append {} hrd ⟨rfl, rfl, rfl, rfl⟩
    · exact i.setReader _ hnb (by simp)
    · exact i.setReader _ hnb (by simp)

theorem rinv_start {s s' : St} (i : RInv (reqView s)) (h : step0 s .start = some s') : RInv (reqView s') := by
  simp only [step0] at h
  split at h
  · cases h
  · rename_i hrd
    have hrd : (reqView s).reader = .start := by simpa [reqView] using hrd
    split at h <;> cases h <;> rw [reqView_tail]
    · exact i.setReader .gone (by rw [hrd]; simp) (by simp)
    · exact i.setReader .read (by rw [hrd]; simp) (by simp)

theorem rinv_rresp {s s' : St} (i : RInv (reqView s)) (h : step0 s .rresp = some s') : RInv (reqView s') := by
  simp only [step0] at h
  split at h
  · rename_i id p hrd
    have hnb : (reqView s).reader ≠ .busy := by simp [reqView, hrd]
    cases h; rw [reqView_tail]
    split
    · rw [reqView_retireIn]; exact i.setReader .read hnb (by simp)
    · exact i.setReader .read hnb (by simp)
  · cases h

theorem reqView_foldl_retire (l : List Nat) (r : Res) (s : St) :
    reqView (l.foldl (fun s n => retireIn s n r) s) = reqView s := by
  induction l generalizing s with
  | nil => rfl
  | cons a t ih => simp [List.foldl, ih]

theorem rinv_rx {s s' : St} (i : RInv (reqView s)) (h : step0 s .rx = some s') : RInv (reqView s') := by
  simp only [step0] at h
  split at h
  · cases h
  · rename_i hrd
    have hnb : (reqView s).reader ≠ .busy := by
      have : s.reader = .rx := by simpa using hrd
      simp [reqView, this]
    cases h
    rw [reqView_tail, reqView_foldl_cancel]
    have : reqView { (s.outCalls.foldl (fun s n => retireIn s n (.err .read))
        { s with reader := .gone, reading := false, readErr := true }) with outCalls := [] } =
        { reqView s with reader := .gone } := by
      have := reqView_foldl_retire s.outCalls (.err .read) { s with reader := .gone, reading := false, readErr := true }
      simp only [reqView] at this ⊢
      simp_all
    rw [this]
    exact i.setReader .gone hnb (by simp)

end Conn

namespace Conn

/-- Facts about a request whose pc is known, extracted once. -/
theorem RInv.at {v : ReqView} (i : RInv v) {r : Nat} {k : ReqCore} (hk : v.cores[r]? = some k) :
    ReqOK v r k ∧ r < v.cores.length := ⟨i.ok r k hk, (List.getElem?_eq_some_iff.mp hk).1⟩

theorem mod_eq_const (v : ReqView) (r : Nat) (g : ReqCore → ReqCore) (q : ReqCore) (hk : v.cores[r]? = some q) :
    v.mod r g = { v with cores := v.cores.modify r (fun _ => g q) } := by
  simp only [ReqView.mod]; rw [modify_const _ _ q g hk]

/-- A request leaves the accepted/queued/running stage and enters processResult on goroutine `own`
(`beginPR`): calls go to P1 (still indexed), notifications straight to P2. -/
theorem RInv.toPR {v : ReqView} (i : RInv v) (r : Nat) (q : ReqCore) (own : Owner) (qu' : List Nat)
    (hk : v.cores[r]? = some q)
    (hpc : q.pc = .a2 ∨ q.pc = .queued ∨ q.pc = .running)
    (hown : own = .reader → q.pc = .a2)
    (hq' : ∀ j, j ≠ r → (j ∈ qu' ↔ j ∈ v.queue)) (hrq : r ∉ qu') (hnd : qu'.Nodup) :
    RInv ({ v with queue := qu' }.mod r fun k => { k with owner := own, pc := if k.isCall then .p1 else .p2 }) := by
  obtain ⟨o, hlen⟩ := i.at hk
  obtain ⟨hw, hrs⟩ := o.pre (by rcases hpc with h | h | h <;> simp [h])
  have hinfl : q.pc.inflight = true := by rcases hpc with h | h | h <;> simp [h, ReqPc.inflight]
  have hidxd : q.pc.indexed = true := by rcases hpc with h | h | h <;> simp [h, ReqPc.indexed]
  have hqr' : ∀ j ∈ qu', j < v.cores.length := by
    intro j hj
    by_cases hjr : j = r
    · subst hjr; exact hlen
    · exact i.qr j ((hq' j hjr).mp hj)
  have hk2 : ({ v with queue := qu' } : ReqView).cores[r]? = some q := hk
  by_cases hc : q.isCall = true
  · have e : (if q.isCall = true then ReqPc.p1 else ReqPc.p2) = .p1 := if_pos hc
    rw [mod_eq_const _ r _ q hk2]; simp only [e]
    refine i.update r q { q with owner := own, pc := .p1 } hk rfl (by have : ReqPc.p1.inflight = true := rfl; simp [hinfl, this]) (fun _ _ _ => Iff.rfl)
      (by intro j hj; exact hq' j hj) (Or.inl rfl) ?_ i.byr i.keys hnd hqr' i.nopanic
    refine ⟨fun _ => ⟨hw, hrs⟩, by simp, by simp; omega, fun h => by simp [hc] at h, ?_, ?_, ?_⟩
    · intro id'; show (id', r) ∈ v.byID ↔ _; rw [o.idx id']
      constructor <;> intro ⟨a, b, _⟩ <;> exact ⟨a, b, by first | exact hidxd | rfl⟩
    · intro hh
      rcases hh with hh | hh | ⟨hh, _⟩
      · simp at hh
      · simp at hh
      · have hpa : q.pc = .a2 := hown hh
        have := o.rdr (Or.inr (Or.inl hpa))
        exact ⟨this.1, by simpa using this.2⟩
    · constructor
      · intro hh; simp at hh
      · intro hm; exact absurd hm hrq
  · have hc' : q.isCall = false := by simpa using hc
    have e : (if q.isCall = true then ReqPc.p1 else ReqPc.p2) = .p2 := if_neg hc
    rw [mod_eq_const _ r _ q hk2]; simp only [e]
    refine i.update r q { q with owner := own, pc := .p2 } hk rfl (by have : ReqPc.p2.inflight = true := rfl; simp [hinfl, this]) (fun _ _ _ => Iff.rfl)
      (by intro j hj; exact hq' j hj) (Or.inl rfl) ?_ i.byr i.keys hnd hqr' i.nopanic
    refine ⟨by simp, by simp, ⟨by simp; omega, by simp; omega, fun h => by simp [hc'] at h⟩, fun _ => ⟨hw, by simp⟩, ?_, ?_, ?_⟩
    · intro id'; show (id', r) ∈ v.byID ↔ _; rw [o.idx id']; simp [hc', ReqPc.indexed]
    · intro hh
      rcases hh with hh | hh | ⟨hh, _⟩
      · simp at hh
      · simp at hh
      · have hpa : q.pc = .a2 := hown hh
        have := o.rdr (Or.inr (Or.inl hpa))
        exact ⟨this.1, by simpa using this.2⟩
    · constructor
      · intro hh; simp at hh
      · intro hm; exact absurd hm hrq

theorem rinv_a2 {s s' : St} {r : Nat} (i : RInv (reqView s)) (h : step0 s (.a2 r) = some s') : RInv (reqView s') := by
  simp only [step0] at h
  split at h
  · cases h
  · rename_i q hq
    split at h
    · cases h
    · rename_i hpc
      have hpc : q.pc = .a2 := by simpa using hpc
      have hk : (reqView s).cores[r]? = some q := hq
      obtain ⟨o, hlen⟩ := i.at hk
      obtain ⟨hw, hrs⟩ := o.pre (Or.inr (Or.inl hpc))
      have hnq : r ∉ (reqView s).queue := fun hm => by have := o.que.mpr hm; simp [hpc] at this
      obtain ⟨hrb, hrl⟩ := o.rdr (Or.inr (Or.inl hpc))
      split at h
      · -- refused: shutting down
        cases h
        rw [reqView_tail, reqView_beginPR]
        simp only [reqView_modMeta]
        exact i.toPR r q .reader (reqView s).queue hk (Or.inl hpc) (fun _ => hpc) (fun _ _ => Iff.rfl) hnq i.qnd
      · -- enqueued; the reader goes back to Read; the dispatcher is started if necessary
        have hgoal : RInv ((reqView { s with queue := s.queue ++ [r], reader := .read }).mod r fun k => { k with pc := .queued }) := by
          refine i.modUpdate r q _ hk rfl (by simp [ReqView.mod, reqView, hpc, ReqPc.inflight]) (fun _ _ _ => Iff.rfl) ?_
            (Or.inr (Or.inr (Or.inl hpc))) ?_ i.byr i.keys ?_ ?_ i.nopanic
          · intro j hj; simp [ReqView.mod, reqView]; intro h2; exact absurd h2 hj
          · refine ⟨fun _ => ⟨hw, hrs⟩, by simp, by simp; omega, fun hc => ⟨(o.notif hc).1, by simp⟩, ?_, ?_, ?_⟩
            · intro id'; simp only [ReqView.mod, reqView]
              have := o.idx id'; simp only [reqView] at this; rw [this]; simp [hpc, ReqPc.indexed]
            · intro hh; rcases hh with hh | hh | ⟨_, hh⟩ <;> simp [ReqPc.inPR] at hh
            · simp [ReqView.mod, reqView]
          · simp only [ReqView.mod, reqView]
            exact List.nodup_append.mpr ⟨i.qnd, by simp, by intro a ha b hb; simp at hb; subst hb; exact fun h => hnq (h ▸ ha)⟩
          · intro j hj; simp [ReqView.mod, reqView] at hj
            rcases hj with hj | hj
            · exact i.qr j hj
            · subst hj; exact hlen
        split at h <;> cases h <;> (rw [reqView_tail]; exact hgoal)

end Conn

namespace Conn

theorem rinv_hret {s s' : St} {r : Nat} {e : Bool} (i : RInv (reqView s)) (h : step0 s (.hret r e) = some s') :
    RInv (reqView s') := by
  simp only [step0] at h
  split at h
  · cases h
  · rename_i q hq
    split at h
    · cases h
    · rename_i hpc
      have hpc : q.pc = .running := by simpa using hpc
      cases h
      rw [reqView_beginPR]
      simp only [reqView_modMeta]
      have hk : (reqView s).cores[r]? = some q := hq
      have hnq : r ∉ (reqView s).queue := fun hm => by have := (i.ok r q hk).que.mpr hm; simp [hpc] at this
      exact i.toPR r q .handler (reqView s).queue hk (Or.inr (Or.inr hpc)) (fun h => by cases h) (fun _ _ => Iff.rfl) hnq i.qnd

theorem rinv_d1 {s s' : St} (i : RInv (reqView s)) (h : step0 s .d1 = some s') : RInv (reqView s') := by
  simp only [step0] at h
  split at h
  · cases h
  · split at h
    · cases h; rw [reqView_tail]; exact i
    · rename_i r rest hqu
      have hrq : r ∈ (reqView s).queue := by simp [reqView, hqu]
      have hlen := i.qr r hrq
      obtain ⟨q, hk⟩ : ∃ q, (reqView s).cores[r]? = some q := ⟨_, List.getElem?_eq_getElem hlen⟩
      obtain ⟨o, _⟩ := i.at hk
      have hpc : q.pc = .queued := o.que.mpr hrq
      have hnd : (r :: rest).Nodup := by have := i.qnd; simpa [reqView, hqu] using this
      have hrest : ∀ j, j ≠ r → (j ∈ rest ↔ j ∈ (reqView s).queue) := by
        intro j hj; simp [reqView, hqu, hj]
      have hnr : r ∉ rest := (List.nodup_cons.mp hnd).1
      have hndr : rest.Nodup := (List.nodup_cons.mp hnd).2
      split at h
      · cases h
      · rename_i m hm
        split at h
        · -- already cancelled: processResult on the dispatcher goroutine
          cases h
          rw [reqView_beginPR]
          have hv : reqView { tail { s with queue := rest } with disp := .busy r } = { reqView s with queue := rest } := by
            simp [reqView]
          rw [hv]
          exact i.toPR r q .dispatcher rest hk (Or.inr (Or.inl hpc)) (fun h => by cases h) hrest hnr hndr
        · -- start the handler
          cases h
          simp only [reqView_modMeta, reqView_modCore]
          obtain ⟨hw, hrs⟩ := o.pre (Or.inr (Or.inr (Or.inl hpc)))
          have hqr' : ∀ j ∈ rest, j < (reqView s).cores.length := fun j hj => i.qr j (by simp [reqView, hqu, hj])
          have hv : reqView { tail { s with queue := rest } with clock := (tail { s with queue := rest }).clock + 1, disp := .waiting r } =
              { reqView s with queue := rest } := by
            simp [reqView]
          rw [hv]
          refine i.modUpdate r q _ hk rfl (by simp [ReqView.mod, hpc, ReqPc.inflight]) (fun _ _ _ => Iff.rfl)
            (by intro j hj; exact hrest j hj) (Or.inl rfl) ?_ i.byr i.keys hndr hqr' i.nopanic
          refine ⟨fun _ => ⟨hw, hrs⟩, by simp, by simp; omega, fun hc => ⟨(o.notif hc).1, by simp⟩, ?_, ?_, ?_⟩
          · intro id'; show (id', r) ∈ (reqView s).byID ↔ _
            rw [o.idx id']; simp [hpc, ReqPc.indexed]
          · intro hh; rcases hh with hh | hh | ⟨hh, _⟩ <;> simp at hh
          · show _ ↔ r ∈ rest
            constructor
            · intro hh; simp at hh
            · intro hm; exact absurd hm hnr

end Conn

namespace Conn

theorem nodup_keys_unique {l : List (Nat × Nat)} (h : (l.map (·.1)).Nodup) {a b c : Nat}
    (h1 : (a, b) ∈ l) (h2 : (a, c) ∈ l) : b = c := by
  induction l with
  | nil => simp at h1
  | cons p t ih =>
    simp only [List.map_cons, List.nodup_cons] at h
    rcases List.mem_cons.mp h1 with e1 | m1 <;> rcases List.mem_cons.mp h2 with e2 | m2
    · rw [← e1] at e2; exact (Prod.mk.inj e2).2.symm
    · exfalso; apply h.1; rw [← e1]; exact List.mem_map.mpr ⟨(a, c), m2, rfl⟩
    · exfalso; apply h.1; rw [← e2]; exact List.mem_map.mpr ⟨(a, b), m1, rfl⟩
    · exact ih h.2 m1 m2

theorem rinv_p1 {s s' : St} {r : Nat} (i : RInv (reqView s)) (h : step0 s (.p1 r) = some s') : RInv (reqView s') := by
  simp only [step0] at h
  split at h
  · cases h
  · rename_i q hq
    split at h
    · cases h
    · rename_i hpc
      have hpc : q.pc = .p1 := by simpa using hpc
      have hk : (reqView s).cores[r]? = some q := hq
      obtain ⟨o, hlen⟩ := i.at hk
      obtain ⟨hw, hrs⟩ := o.pre (by simp [hpc])
      have hcall : q.isCall = true := by
        cases hc : q.isCall with
        | true => rfl
        | false => have := (o.notif hc).2.1; simp [hpc] at this
      cases h
      rw [reqView_tail]
      simp only [reqView_modCore]
      -- which entries does the filter remove? exactly those with this request's id; by key uniqueness, only r's
      have hfilter : ∀ (byID' : List (Nat × Nat)), (byID' = match q.id with
          | some id => s.byID.filter (fun p => p.1 ≠ id)
          | none => s.byID) →
          RInv (({ reqView s with byID := byID' } : ReqView).mod r fun k => { k with pc := .w1 }) := by
        intro byID' hb
        have hsub : ∀ p, p ∈ byID' → p ∈ s.byID := by
          intro p hp; subst hb; split at hp
          · exact (List.mem_filter.mp hp).1
          · exact hp
        have hother : ∀ id j, j ≠ r → ((id, j) ∈ byID' ↔ (id, j) ∈ s.byID) := by
          intro id j hj
          refine ⟨hsub _, fun hm => ?_⟩
          subst hb; split
          · rename_i id0 hid0
            refine List.mem_filter.mpr ⟨hm, ?_⟩
            simp only [decide_eq_true_eq]
            intro hid; subst hid
            -- (id, j) and (id, r) both indexed under the same key
            have hr : (id, r) ∈ s.byID := (o.idx id).mpr ⟨hcall, hid0, by simp [hpc, ReqPc.indexed]⟩
            have hkeys := i.keys
            exact hj (nodup_keys_unique hkeys hm hr)
          · exact hm
        have hnor : ∀ id, (id, r) ∉ byID' := by
          intro id hm
          have hm' := hsub _ hm
          have hid := ((o.idx id).mp hm').2.1
          subst hb; simp only [hid] at hm
          have := (List.mem_filter.mp hm).2
          simp at this
        refine i.modUpdate r q _ hk rfl (by simp [ReqView.mod, hpc, ReqPc.inflight]) hother (fun _ _ => Iff.rfl) (Or.inl rfl) ?_
          (fun p hp => i.byr p (hsub p hp)) ?_ i.qnd i.qr i.nopanic
        · refine ⟨fun _ => ⟨hw, hrs⟩, by simp, by simp; omega, fun hc => by simp [hcall] at hc, ?_, ?_, ?_⟩
          · intro id'; show (id', r) ∈ byID' ↔ _
            simp [ReqPc.indexed]; exact hnor id'
          · intro hh; rcases hh with hh | hh | ⟨hh, _⟩
            · simp at hh
            · simp at hh
            · have := o.rdr (Or.inr (Or.inr ⟨hh, by simp [hpc, ReqPc.inPR]⟩))
              exact ⟨this.1, by simpa [ReqView.mod] using this.2⟩
          · show _ ↔ r ∈ (reqView s).queue
            rw [← o.que]; simp [hpc]
        · show (byID'.map (·.1)).Nodup
          subst hb; split
          · exact (List.Nodup.sublist (List.Sublist.map _ List.filter_sublist) i.keys)
          · exact i.keys
      split
      · rename_i id hid
        exact hfilter (s.byID.filter (fun p => p.1 ≠ id)) (by simp [hid])
      · rename_i hid
        exact hfilter s.byID (by simp [hid])

end Conn

namespace Conn

/-- Moves inside the response write (pc among w1/wr/w2/p2): owner, call-ness, tables unchanged. -/
theorem RInv.inWrite {v : ReqView} (i : RInv v) (r : Nat) (q : ReqCore) (g : ReqCore → ReqCore)
    (hk : v.cores[r]? = some q)
    (hold : q.pc = .w1 ∨ q.pc = .wr ∨ ∃ e, q.pc = .w2 e)
    (hnew : (g q).pc = .wr ∨ (∃ e, (g q).pc = .w2 e) ∨ (g q).pc = .p2)
    (hsame : (g q).id = q.id ∧ (g q).isCall = q.isCall ∧ (g q).owner = q.owner)
    (hcnt : ((g q).pc = .wr ∨ ∃ e, (g q).pc = .w2 e) → (g q).wrote = 1 ∧ (g q).responses = 0)
    (hpost : (g q).wrote ≤ 1 ∧ (g q).responses ≤ (g q).wrote ∧ ((g q).pc = .p2 → (g q).wrote = 1)) :
    RInv (v.mod r g) := by
  obtain ⟨o, hlen⟩ := i.at hk
  have hcall : q.isCall = true := by
    cases hc : q.isCall with
    | true => rfl
    | false =>
      have := o.notif hc
      rcases hold with h | h | ⟨e, h⟩
      · exact absurd h this.2.2.1
      · exact absurd h this.2.2.2.1
      · exact absurd h (this.2.2.2.2 e)
  have hinfl : q.pc.inflight = true := by rcases hold with h | h | ⟨e, h⟩ <;> simp [h, ReqPc.inflight]
  have hinfl' : (g q).pc.inflight = true := by rcases hnew with h | ⟨e, h⟩ | h <;> simp [h, ReqPc.inflight]
  have hnidx : q.pc.indexed = false := by rcases hold with h | h | ⟨e, h⟩ <;> simp [h, ReqPc.indexed]
  have hnidx' : (g q).pc.indexed = false := by rcases hnew with h | ⟨e, h⟩ | h <;> simp [h, ReqPc.indexed]
  have hpr : q.pc.inPR = true := by rcases hold with h | h | ⟨e, h⟩ <;> simp [h, ReqPc.inPR]
  refine i.modOnly r q g hk (by rw [hinfl, hinfl']) ?_
  refine ⟨?_, hcnt, ⟨hpost.1, hpost.2.1, ?_⟩, fun hc => (by rw [hsame.2.1, hcall] at hc; cases hc), ?_, ?_, ?_⟩
  · intro hh
    rcases hnew with h | ⟨e, h⟩ | h <;> rcases hh with h' | h' | h' | h' | h' | h' <;> simp [h] at h'
  · intro _ hh
    rcases hh with hh | hh
    · exact hpost.2.2 hh
    · rcases hnew with h | ⟨e, h⟩ | h <;> simp [h] at hh
  · intro id'; show (id', r) ∈ v.byID ↔ _
    rw [o.idx id', hsame.1, hsame.2.1]; simp [hnidx, hnidx']
  · intro hh
    rcases hh with h' | h' | ⟨hown, _⟩
    · rcases hnew with h | ⟨e, h⟩ | h <;> simp [h] at h'
    · rcases hnew with h | ⟨e, h⟩ | h <;> simp [h] at h'
    · have := o.rdr (Or.inr (Or.inr ⟨hsame.2.2 ▸ hown, hpr⟩))
      exact ⟨this.1, by simpa [ReqView.mod] using this.2⟩
  · show _ ↔ r ∈ v.queue
    rw [← o.que]
    constructor
    · intro h'; rcases hnew with h | ⟨e, h⟩ | h <;> simp [h] at h'
    · intro h'; rcases hold with h | h | ⟨e, h⟩ <;> simp [h] at h'

theorem rinv_w1 {s s' : St} {r : Nat} (i : RInv (reqView s)) (h : step0 s (.w1 (.resp r)) = some s') : RInv (reqView s') := by
  simp only [step0] at h
  split at h
  · cases h
  · rename_i q hq
    split at h
    · cases h
    · rename_i hpc
      have hpc : q.pc = .w1 := by simpa using hpc
      have hk : (reqView s).cores[r]? = some q := hq
      obtain ⟨o, _⟩ := i.at hk
      obtain ⟨hw, hrs⟩ := o.pre (by simp [hpc])
      split at h <;> cases h
      · rw [reqView_tail]; simp only [reqView_modCore, mod_mod]
        exact i.inWrite r q _ hk (Or.inl hpc) (Or.inl rfl) ⟨rfl, rfl, rfl⟩ (fun _ => ⟨by simp [hw], hrs⟩) (by simp [hw, hrs])
      · simp only [reqView_toP2, reqView_tail, reqView_modCore, mod_mod]
        exact i.inWrite r q _ hk (Or.inl hpc) (Or.inr (Or.inr rfl)) ⟨rfl, rfl, rfl⟩ (fun h => by simp at h) (by simp [hw, hrs])

theorem rinv_wret {s s' : St} {r : Nat} {o' : WOut} (i : RInv (reqView s)) (h : step0 s (.wret (.resp r) o') = some s') :
    RInv (reqView s') := by
  simp only [step0] at h
  split at h
  · cases h
  · rename_i q hq
    split at h
    · cases h
    · rename_i hpc
      have hpc : q.pc = .wr := by simpa using hpc
      have hk : (reqView s).cores[r]? = some q := hq
      obtain ⟨o, _⟩ := i.at hk
      obtain ⟨hw, hrs⟩ := o.mid (Or.inl hpc)
      cases o' <;> simp only at h <;> cases h
      · simp only [reqView_toP2, reqView_modCore, mod_mod]
        exact i.inWrite (v := reqView s) r q _ hk (Or.inr (Or.inl hpc)) (Or.inr (Or.inr rfl)) ⟨rfl, rfl, rfl⟩ (fun h => by simp at h)
          (by simp [hw, hrs])
      · simp only [reqView_modCore]
        exact i.inWrite (v := reqView s) r q _ hk (Or.inr (Or.inl hpc)) (Or.inr (Or.inl ⟨_, rfl⟩)) ⟨rfl, rfl, rfl⟩ (fun _ => ⟨hw, hrs⟩)
          (by simp [hw, hrs])
      · simp only [reqView_toP2]
        exact i.inWrite r q _ hk (Or.inr (Or.inl hpc)) (Or.inr (Or.inr rfl)) ⟨rfl, rfl, rfl⟩ (fun h => by simp at h)
          (by simp [hw, hrs])

theorem rinv_w2 {s s' : St} {r : Nat} (i : RInv (reqView s)) (h : step0 s (.w2 (.resp r)) = some s') : RInv (reqView s') := by
  simp only [step0] at h
  split at h
  · cases h
  · rename_i q hq
    split at h
    · rename_i e hpc
      have hk : (reqView s).cores[r]? = some q := hq
      obtain ⟨o, _⟩ := i.at hk
      obtain ⟨hw, hrs⟩ := o.mid (Or.inr ⟨e, hpc⟩)
      cases h
      simp only [reqView_toP2, reqView_tail, reqView_markBroken]
      exact i.inWrite r q _ hk (Or.inr (Or.inr ⟨e, hpc⟩)) (Or.inr (Or.inr rfl)) ⟨rfl, rfl, rfl⟩ (fun h => by simp at h)
        (by simp [hw, hrs])
    · cases h

end Conn

namespace Conn

theorem countInflight_pos (l : List ReqCore) (r : Nat) (k : ReqCore) (h : l[r]? = some k) (hi : k.pc.inflight = true) :
    1 ≤ countInflight l := by
  have := countInflight_modify l r k { k with pc := .fin } h
  have h2 : ({ k with pc := ReqPc.fin } : ReqCore).pc.inflight = false := rfl
  simp only [hi, h2] at this
  simp at this
  omega

theorem rinv_p2 {s s' : St} {r : Nat} (i : RInv (reqView s)) (h : step0 s (.p2 r) = some s') : RInv (reqView s') := by
  simp only [step0] at h
  split at h
  · cases h
  · rename_i q hq
    split at h
    · cases h
    · rename_i hpc
      have hpc : q.pc = .p2 := by simpa using hpc
      have hk : (reqView s).cores[r]? = some q := hq
      obtain ⟨o, hlen⟩ := i.at hk
      have hpos : 1 ≤ s.incoming := by
        have := countInflight_pos _ r q hk (by simp [hpc, ReqPc.inflight])
        have hc := i.cnt; simp only [reqView] at hc this; omega
      have hne : ¬ s.incoming = 0 := by omega
      cases h
      simp only [hne, if_false]
      have hnq : r ∉ (reqView s).queue := fun hm => by have := o.que.mpr hm; simp [hpc] at this
      have key : ∀ rd, (rd = s.reader ∨ q.owner = .reader) → rd ≠ .busy ∨ rd = s.reader →
          RInv (({ reqView s with incoming := s.incoming - 1, reader := rd } : ReqView).mod r fun k => { k with pc := .fin }) := by
        intro rd hrd _
        refine i.modUpdate r q _ hk rfl (by simp [ReqView.mod, reqView, hpc, ReqPc.inflight]; omega) (fun _ _ _ => Iff.rfl) (fun _ _ => Iff.rfl)
          ?_ ?_ i.byr i.keys i.qnd i.qr i.nopanic
        · rcases hrd with h | h
          · exact Or.inl h
          · exact Or.inr (Or.inr (Or.inr ⟨h, by simp [hpc, ReqPc.inPR]⟩))
        · refine ⟨by simp, by simp, ⟨o.post.1, o.post.2.1, fun hc _ => o.post.2.2 hc (Or.inl hpc)⟩, fun hc => ⟨(o.notif hc).1, by simp⟩, ?_, ?_, ?_⟩
          · intro id'; show (id', r) ∈ (reqView s).byID ↔ _
            rw [o.idx id']; simp [hpc, ReqPc.indexed]
          · intro hh; rcases hh with hh | hh | ⟨_, hh⟩ <;> simp [ReqPc.inPR] at hh
          · show _ ↔ r ∈ (reqView s).queue
            constructor
            · intro hh; simp at hh
            · intro hm; exact absurd hm hnq
      cases hown : q.owner with
      | reader =>
        have := key .read (Or.inr hown) (Or.inl (by simp))
        simpa [afterP2, hown, reqView, ReqView.mod, modCore, modMeta] using this
      | dispatcher =>
        have := key s.reader (Or.inl rfl) (Or.inr rfl)
        simpa [afterP2, hown, reqView, ReqView.mod, modCore, modMeta] using this
      | handler =>
        have := key s.reader (Or.inl rfl) (Or.inr rfl)
        simpa [afterP2, hown, reqView, ReqView.mod, modCore, modMeta] using this

/-- **The incoming-request invariant is preserved by every atomic section.** -/
theorem rinv_step0 {s s' : St} {l : Label} (i : RInv (reqView s)) (h : step0 s l = some s') : RInv (reqView s') := by
  by_cases hl : l.touchesReqs = true
  · cases l <;> simp [Label.touchesReqs] at hl
    case read m => exact rinv_read i h
    case wret w o => cases w <;> simp [Label.touchesReqs] at hl; exact rinv_wret i h
    case hret r e => exact rinv_hret i h
    case start => exact rinv_start i h
    case rresp => exact rinv_rresp i h
    case rx => exact rinv_rx i h
    case a1 r => exact rinv_a1 i h
    case a2 r => exact rinv_a2 i h
    case d1 => exact rinv_d1 i h
    case p1 r => exact rinv_p1 i h
    case p2 r => exact rinv_p2 i h
    case w1 w => cases w <;> simp [Label.touchesReqs] at hl; exact rinv_w1 i h
    case w2 w => cases w <;> simp [Label.touchesReqs] at hl; exact rinv_w2 i h
  · exact RInv.of_view (frame_reqs s s' l h (by simpa using hl)) i

theorem rinv_step {s s' : St} {l : Label} (i : RInv (reqView s)) (h : step s l = some s') : RInv (reqView s') := by
  simp only [step, Option.map_eq_some_iff] at h
  obtain ⟨s0, h0, rfl⟩ := h
  rw [reqView_settle]; exact rinv_step0 i h0

theorem rinv_init : RInv (reqView ({} : St)) :=
  ⟨rfl, fun r k hk => by simp [reqView] at hk, fun p hp => by simp [reqView] at hp, by simp [reqView], by simp [reqView],
    fun r hr => by simp [reqView] at hr, rfl⟩

theorem rinv_run {s s' : St} (ls : List Label) (i : RInv (reqView s)) (h : run s ls = some s') : RInv (reqView s') := by
  induction ls generalizing s with
  | nil => simp [run] at h; exact h ▸ i
  | cons l ls ih =>
    simp only [run] at h
    split at h
    · cases h
    · rename_i s1 h1; exact ih (rinv_step i h1) h

end Conn
