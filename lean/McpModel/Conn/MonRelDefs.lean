import McpModel.Conn.Monitor
import McpModel.Conn.Progress
/-!
The invariant `MonRel` relating the monitor's own state `Mon` (history it collected from labels and
from the observations) to the model state, used to prove that the monitors of C01–C05 raise no
alarm on any behaviour the model allows (`MonAccept.lean`).  Definitions only.
-/
namespace Conn

/-- The result token of call `n` if the model lists it as finished. -/
def callFin (s : St) (n : Nat) : Option RTok :=
  (getCall s n).bind fun c => if c.pc = .fin then c.result.map resTok else none

/-- The record of a call whose params could not be encoded (`ecallbad`). -/
def badCall : Call :=
  { pc := .fin, ready := some (.err .marshal), result := some (.err .marshal), retires := 1, registered := false }

/-- The caller goroutine is parked at a yield site or inside the transport Write. -/
def CallPc.parked : CallPc → Bool
  | .c1 | .w1 | .wr | .w2 _ | .r _ | .rc => true
  | _ => false

/-- Past the un-index point P1 of processResult. -/
def ReqPc.afterP1 : ReqPc → Bool
  | .w1 | .wr | .w2 _ | .p2 | .fin => true
  | _ => false

/-- The monitor's previous observation is the model's (or the monitor has just been reset). -/
def PrevOK (p : Obs) (s : St) : Prop := p = obsOf s ∨ (p = {} ∧ s = {})

/-- Outgoing-call part of the relation (C01, and the ctx part of C04). -/
structure MonCalls (m : Mon) (s : St) : Prop where
  ncalls : m.ncalls = s.calls.length
  /-- every response the reader took off the wire was fed by the harness -/
  sent : ∀ x ∈ s.respLog, x ∈ m.sent
  sentRR : ∀ (id p : Nat), s.reader = .rr id p → (id, p) ∈ m.sent
  ctxd : ∀ (n : Nat) (c : Call), getCall s n = some c → c.ctxDone = true → n ∈ m.ctxd
  /-- a call started after termination is refused at C1 with the client-closing class -/
  late : ∀ n ∈ m.startedLate, s.done = true ∧
    ∃ c, getCall s n = some c ∧ (c.pc = .c1 ∨ c.ready = some (.err .clientClosing))

/-- What the monitor knows about request `r` (`q`) against the model's request (`k`, `mt`). -/
structure ReqRel (q : MReq) (k : ReqCore) (mt : ReqMeta) : Prop where
  id : q.id = k.id
  idk : q.isNotif = !q.id.isSome
  cancelKind : q.isCancel = true → q.isNotif = true
  kind : k.isCall = (!q.isNotif && !q.dup)
  dupa : q.dup = true → k.pc ≠ .a1
  w1 : q.w1count = k.wrote
  ok : q.okWrites = k.responses
  p1 : q.p1count = if k.isCall && k.pc.afterP1 then 1 else 0
  st : q.started = true → mt.started.isSome = true
  run : k.pc = .running → mt.started.isSome = true
  asyncd : q.asyncd = mt.asyncCalled
  p2done : q.p2done = decide (k.pc = .fin)
  late : q.a2AfterShutdown = true → (k.pc.inPR = true ∨ k.pc = .fin)
  peer : q.peerCancelled = true → mt.cancelled.isSome = true
  cpeer : mt.cancelled = some .peer → q.peerCancelled = true
  seen : (k.pc = .a2 ∨ k.pc = .queued ∨ k.pc = .running) → mt.seen = true
  cfin : mt.cancelled = some .finished → (k.pc = .p2 ∨ k.pc = .fin)

/-- Incoming-request part of the relation (C02–C05). -/
structure MonReqs (m : Mon) (s : St) : Prop where
  nreqs : m.reqs.length = s.cores.length
  /-- the monitor's id index (from the A1/P1 labels) is the connection's `incomingByID` -/
  idx : m.idx = s.byID
  rx : ∀ (r : Nat) (mt : ReqMeta), s.metas[r]? = some mt → mt.cancelled = some .read → m.rxSeen = true
  /-- a writer on its way to W2 has seen its transport Write fail -/
  bc : ∀ (n : Nat) (c : Call) (e : Err), getCall s n = some c → c.pc = .w2 e → m.brokenSeen = true
  bn : ∀ (w : Who) (nf : Notif) (e : Err), getNotif s w = some nf → nf.pc = .w2 e → m.brokenSeen = true
  bk : ∀ (r : Nat) (k : ReqCore) (e : Err), s.cores[r]? = some k → k.pc = .w2 e → m.brokenSeen = true
  bw : s.writeErr = true → m.brokenSeen = true
  bx : ∀ (r : Nat) (mt : ReqMeta), s.metas[r]? = some mt → mt.cancelled = some .write → s.writeErr = true
  req : ∀ (r : Nat) (q : MReq) (k : ReqCore) (mt : ReqMeta), m.reqs[r]? = some q → s.cores[r]? = some k → s.metas[r]? = some mt → ReqRel q k mt

/-- Reader-failure part of the relation: the monitor has seen the label RX only if the model's reader
has failed, and then no call is registered (`read_failure_leaves_no_registered_call`). -/
structure MonRx (m : Mon) (s : St) : Prop where
  seen : m.rxSeen = true → s.readErr = true
  none : s.readErr = true → s.outCalls = []

/-- The id named by a cancel notification that was read but whose A1 has not run yet (the reader
works on one request at a time: such a request is the newest one). -/
def pendCancel (s : St) : Option Nat :=
  match s.cores.getLast?, s.metas.getLast? with
  | some k, some mt => if k.pc = .a1 then mt.cancelTarget else none
  | _, _ => none

/-- Cancellation part of the relation: every `Cancel(id)` goroutine of the model (`s.cancels`) and
the cancel notification still before its A1 were named by a `read cancel` the monitor booked and has
not consumed yet (as multisets); the monitor has seen no unasked Cancel. -/
structure MonCancel (m : Mon) (s : St) : Prop where
  asked : ∀ id, s.cancels.count id + (if pendCancel s = some id then 1 else 0) ≤ m.cancelAsked.count id
  un : m.unasked = []

/-- The call record carries the marshalling error (as its outcome or as the error it will retire with). -/
def Marsh (c : Call) : Prop := c.ready = some (.err .marshal) ∨ c.pc = .r .marshal ∨ c.pc = .w2 .marshal

/-- Only the calls started with params that cannot be encoded (`ecallbad`, booked in `badCalls`) carry
the marshalling error. -/
structure MonBad (m : Mon) (s : St) : Prop where
  bad : ∀ (n : Nat) (c : Call), getCall s n = some c → Marsh c → n ∈ m.badCalls

/-- **MonRel**: the invariant between the monitor state and the model state. -/
structure MonRel (m : Mon) (s : St) : Prop where
  prev : PrevOK m.prev s
  calls : MonCalls m s
  reqs : MonReqs m s
  rx : MonRx m s
  cancel : MonCancel m s
  bad : MonBad m s

/-- The labels that act on one incoming request (handled one by one in `MonReqsA/B.lean`); every
other label is handled by `monreqs_other` (`MonReqsC.lean`). -/
def Label.reqLabel : Label → Bool
  | .read _ | .a1 _ | .a2 _ | .d1 | .hasync _ | .hret _ _ | .p1 _ | .p2 _
  | .w1 (.resp _) | .wret (.resp _) _ | .w2 (.resp _) => true
  | _ => false

theorem prevOK_init : PrevOK ({} : Mon).prev ({} : St) := Or.inr ⟨rfl, rfl⟩

theorem monCalls_init : MonCalls {} {} :=
  ⟨rfl, fun x hx => by simp at hx, fun id p h => by simp at h,
   fun n c hc => by simp [getCall] at hc, fun n hn => by simp at hn⟩

theorem monReqs_init : MonReqs {} {} :=
  ⟨rfl, rfl, fun r mt h => by simp at h, fun n c e hc => by simp [getCall] at hc,
   fun w nf e h => by cases w <;> simp [getNotif] at h, fun r k e h => by simp at h,
   fun h => by simp at h, fun r mt h => by simp at h, fun r q k mt h => by simp at h⟩

theorem monRx_init : MonRx {} {} := ⟨fun h => by simp at h, fun h => by simp at h⟩

theorem monCancel_init : MonCancel {} {} := ⟨fun id => by simp [pendCancel], rfl⟩

theorem monBad_init : MonBad {} {} := ⟨fun n c hc => by simp [getCall] at hc⟩

theorem monRel_init : MonRel {} {} := ⟨prevOK_init, monCalls_init, monReqs_init, monRx_init, monCancel_init, monBad_init⟩

end Conn
