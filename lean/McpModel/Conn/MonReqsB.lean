import McpModel.Conn.ObsLemmas
/-!
Preservation of `MonReqs` (the incoming-request part of `MonRel`) by the labels of the processResult
chain of one request: P1, P2, W1 (response), the transport Write of a response returning, W2 (response).
-/
namespace Conn

set_option linter.unusedVariables false

/-! ### frame facts -/

@[simp] theorem tail_unotifs (s : St) : (tail s).unotifs = s.unotifs := congrArg NView.us (nview_tail s)
@[simp] theorem tail_cnotifs (s : St) : (tail s).cnotifs = s.cnotifs := congrArg NView.cs (nview_tail s)
@[simp] theorem markBroken_unotifs (s : St) : (markBroken s).unotifs = s.unotifs := congrArg NView.us (nview_markBroken s)
@[simp] theorem markBroken_cnotifs (s : St) : (markBroken s).cnotifs = s.cnotifs := congrArg NView.cs (nview_markBroken s)

theorem markBroken_writeErr (s : St) : (markBroken s).writeErr = true := by
  have := congrArg FV.writeErr (fview_markBroken s)
  simpa [fview] using this

theorem getNotif_congr {X s : St} (hu : X.unotifs = s.unotifs) (hc : X.cnotifs = s.cnotifs) (w : Who) :
    getNotif X w = getNotif s w := by
  cases w <;> simp [getNotif, hu, hc]

theorem getCall_congr {X s : St} (hc : X.calls = s.calls) (n : Nat) : getCall X n = getCall s n := by
  simp [getCall, hc]

theorem modify_get {α : Type} {l : List α} {r j : Nat} {g : α → α} {a' : α}
    (h : (l.modify r g)[j]? = some a') : ∃ a, l[j]? = some a ∧ a' = (if r = j then g a else a) := by
  rw [List.getElem?_modify] at h
  cases hl : l[j]? with
  | none => simp [hl] at h
  | some a => simp [hl] at h; exact ⟨a, rfl, h.symm⟩

/-! ### the generic single-request update -/

/-- Request `r` is updated (core by `g`, meta by `f`, the monitor's record by `h`); calls and
notifications are untouched; the monitor's flags only grow. -/
theorem MonReqs.upd {m m' : Mon} {s s0 : St} (mr : MonReqs m s) (r : Nat)
    (g : ReqCore → ReqCore) (f : ReqMeta → ReqMeta) (h : MReq → MReq)
    (hcores : s0.cores = s.cores.modify r g) (hmetas : s0.metas = s.metas.modify r f)
    (hreqs : m'.reqs = m.reqs.modify r h)
    (hidx : m'.idx = s0.byID)
    (hrxs : m.rxSeen = true → m'.rxSeen = true) (hbs : m.brokenSeen = true → m'.brokenSeen = true)
    (hcalls : s0.calls = s.calls) (hun : s0.unotifs = s.unotifs) (hcn : s0.cnotifs = s.cnotifs)
    (hwe : s0.writeErr = s.writeErr)
    (hmt : ∀ mt, s.metas[r]? = some mt →
      ((f mt).cancelled = some .read → mt.cancelled = some .read) ∧
      ((f mt).cancelled = some .write → mt.cancelled = some .write))
    (hkk : ∀ k e, s.cores[r]? = some k → (g k).pc = .w2 e → m'.brokenSeen = true)
    (hrel : ∀ q k mt, m.reqs[r]? = some q → s.cores[r]? = some k → s.metas[r]? = some mt →
      ReqRel q k mt → ReqRel (h q) (g k) (f mt)) :
    MonReqs m' s0 := by
  refine ⟨?_, hidx, ?_, ?_, ?_, ?_, ?_, ?_, ?_⟩
  · rw [hreqs, hcores, List.length_modify, List.length_modify]; exact mr.nreqs
  · intro j mt0 hj hc
    rw [hmetas] at hj
    obtain ⟨mt, hmj, rfl⟩ := modify_get hj
    by_cases hrj : r = j
    · subst hrj; simp only [if_true] at hc
      exact hrxs (mr.rx r mt hmj ((hmt mt hmj).1 hc))
    · simp only [hrj, if_false] at hc; exact hrxs (mr.rx j mt hmj hc)
  · intro n c e hc hpc
    rw [getCall_congr hcalls] at hc
    exact hbs (mr.bc n c e hc hpc)
  · intro w nf e hw hpc
    rw [getNotif_congr hun hcn] at hw
    exact hbs (mr.bn w nf e hw hpc)
  · intro j k0 e hj hpc
    rw [hcores] at hj
    obtain ⟨k, hkj, rfl⟩ := modify_get hj
    by_cases hrj : r = j
    · subst hrj; simp only [if_true] at hpc
      exact hkk k e hkj hpc
    · simp only [hrj, if_false] at hpc; exact hbs (mr.bk j k e hkj hpc)
  · intro hw; rw [hwe] at hw; exact hbs (mr.bw hw)
  · intro j mt0 hj hc
    rw [hmetas] at hj
    obtain ⟨mt, hmj, rfl⟩ := modify_get hj
    rw [hwe]
    by_cases hrj : r = j
    · subst hrj; simp only [if_true] at hc
      exact mr.bx r mt hmj ((hmt mt hmj).2 hc)
    · simp only [hrj, if_false] at hc; exact mr.bx j mt hmj hc
  · intro j q0 k0 mt0 hq hk hm
    rw [hreqs] at hq; rw [hcores] at hk; rw [hmetas] at hm
    obtain ⟨q, hqj, rfl⟩ := modify_get hq
    obtain ⟨k, hkj, rfl⟩ := modify_get hk
    obtain ⟨mt, hmj, rfl⟩ := modify_get hm
    have rel := mr.req j q k mt hqj hkj hmj
    by_cases hrj : r = j
    · subst hrj; simp only [if_true]
      exact hrel q k mt hqj hkj hmj rel
    · simp only [hrj, if_false]; exact rel

/-- Only fields the relation does not mention differ. -/
theorem MonReqs.congr {m : Mon} {s s0 : St} (mr : MonReqs m s)
    (hcores : s0.cores = s.cores) (hmetas : s0.metas = s.metas) (hby : s0.byID = s.byID)
    (hcalls : s0.calls = s.calls) (hun : s0.unotifs = s.unotifs) (hcn : s0.cnotifs = s.cnotifs)
    (hwe : s0.writeErr = s.writeErr) : MonReqs m s0 :=
  mr.upd 0 id id id (by rw [List.modify_id]; exact hcores) (by rw [List.modify_id]; exact hmetas)
    (by rw [List.modify_id]) (by rw [hby]; exact mr.idx) id id hcalls hun hcn hwe
    (fun _ _ => ⟨id, id⟩) (fun k e hk hpc => mr.bk 0 k e hk hpc) (fun _ _ _ _ _ _ rel => rel)

theorem monreqs_tail {m : Mon} {s : St} (mr : MonReqs m s) : MonReqs m (tail s) :=
  mr.congr (by simp) (by simp) (by simp) (by simp) (by simp) (by simp) (by simp)

/-! ### P1 -/

theorem monreqs_p1 {m : Mon} {s s0 : St} {p : Obs} {r : Nat} (mr : MonReqs m s) (i : Inv4 s)
    (hp : p.shuttingDown = s.shuttingDown) (h : step0 s (.p1 r) = some s0) :
    MonReqs (m.book p (evOf (.p1 r))) s0 := by
  simp only [step0] at h
  split at h
  · cases h
  · rename_i q hq
    split at h
    · cases h
    · rename_i hpc
      have hpc : q.pc = .p1 := by simpa using hpc
      have ri : RInv (reqView s) := i.base.base.base.reqs
      obtain ⟨o, hlen⟩ := ri.at (show (reqView s).cores[r]? = some q from hq)
      have hcall : q.isCall = true := by
        cases hc : q.isCall with
        | true => rfl
        | false => have := (o.notif hc).2.1; simp [hpc] at this
      cases h
      refine mr.upd r (fun k => { k with pc := .w1 }) id (fun q => { q with p1count := q.p1count + 1 })
        ?_ ?_ rfl ?_ id id ?_ ?_ ?_ ?_ (fun _ _ => ⟨id, id⟩) ?_ ?_
      · cases hid : q.id <;> simp [modCore]
      · cases hid : q.id <;> simp [modCore]
      · show m.idx.filter (fun e => e.2 ≠ r) = _
        rw [mr.idx]
        cases hid : q.id with
        | none =>
          simp only [tail_byID, modCore]
          rw [List.filter_eq_self]
          intro a ha
          simp only [ne_eq, decide_eq_true_eq]
          intro har
          have := ((o.idx a.1).mp (by rw [← har]; exact ha)).2.1
          simp [hid] at this
        | some id =>
          simp only [tail_byID, modCore]
          apply List.filter_congr
          intro a ha
          have hr : (id, r) ∈ s.byID := (o.idx id).mpr ⟨hcall, hid, by simp [hpc, ReqPc.indexed]⟩
          simp only [ne_eq, decide_eq_decide]
          apply not_congr
          constructor
          · intro har
            have := ((o.idx a.1).mp (by rw [← har]; exact ha)).2.1
            rw [hid] at this; injection this with this; exact this.symm
          · intro ha1
            have ha' : (id, a.2) ∈ s.byID := by rw [← ha1]; exact ha
            exact nodup_keys_unique ri.keys ha' hr
      · cases hid : q.id <;> simp [modCore]
      · cases hid : q.id <;> simp [modCore]
      · cases hid : q.id <;> simp [modCore]
      · cases hid : q.id <;> simp [modCore]
      · intro k e _ hk; simp at hk
      · intro q' k mt hq' hk hmt rel
        rw [hq] at hk; cases hk
        have hcf := rel.cfin
        constructor
        · exact rel.id
        · exact rel.idk
        · exact rel.cancelKind
        · exact rel.kind
        · simp
        · exact rel.w1
        · exact rel.ok
        · have := rel.p1; simp_all [ReqPc.afterP1]
        · exact rel.st
        · simp
        · exact rel.asyncd
        · have := rel.p2done; simp_all
        · simp [ReqPc.inPR]
        · exact rel.peer
        · exact rel.cpeer
        · simp
        · intro hc; have := rel.cfin hc; simp [hpc] at this

/-! ### P2 -/

theorem monreqs_p2 {m : Mon} {s s0 : St} {p : Obs} {r : Nat} (mr : MonReqs m s) (i : Inv4 s)
    (hp : p.shuttingDown = s.shuttingDown) (h : step0 s (.p2 r) = some s0) :
    MonReqs (m.book p (evOf (.p2 r))) s0 := by
  simp only [step0] at h
  split at h
  · cases h
  · rename_i q hq
    split at h
    · cases h
    · rename_i hpc
      have hpc : q.pc = .p2 := by simpa using hpc
      cases h
      have hrel : ∀ (f : ReqMeta → ReqMeta), (∀ mt, (f mt).cancelled = mt.cancelled ∧ (f mt).started = mt.started ∧
          (f mt).asyncCalled = mt.asyncCalled ∧ (f mt).seen = mt.seen) →
          ∀ q' k mt, m.reqs[r]? = some q' → s.cores[r]? = some k → s.metas[r]? = some mt →
          ReqRel q' k mt → ReqRel { q' with p2done := true } { k with pc := .fin } (f mt) := by
        intro f hf q' k mt hq' hk hmt rel
        rw [hq] at hk; cases hk
        obtain ⟨f1, f2, f3, f4⟩ := hf mt
        constructor
        · exact rel.id
        · exact rel.idk
        · exact rel.cancelKind
        · exact rel.kind
        · simp
        · exact rel.w1
        · exact rel.ok
        · have := rel.p1; simp_all [ReqPc.afterP1]
        · rw [f2]; exact rel.st
        · simp
        · rw [f3]; exact rel.asyncd
        · simp
        · simp
        · rw [f1]; exact rel.peer
        · rw [f1]; exact rel.cpeer
        · simp
        · simp
      cases hown : q.owner
      · refine mr.upd r (fun k => { k with pc := .fin }) id (fun q => { q with p2done := true })
          ?_ ?_ rfl ?_ id id ?_ ?_ ?_ ?_ (fun _ _ => ⟨id, id⟩) ?_ (hrel id (fun _ => ⟨rfl, rfl, rfl, rfl⟩))
        all_goals first
          | (intro k e _ hk; simp at hk; done)
          | (simp only [afterP2]; split <;> simp [modCore, evOf, Mon.book, modR, mr.idx]; done)
      · refine mr.upd r (fun k => { k with pc := .fin }) id (fun q => { q with p2done := true })
          ?_ ?_ rfl ?_ id id ?_ ?_ ?_ ?_ (fun _ _ => ⟨id, id⟩) ?_ (hrel id (fun _ => ⟨rfl, rfl, rfl, rfl⟩))
        all_goals first
          | (intro k e _ hk; simp at hk; done)
          | (simp only [afterP2]; split <;> simp [modCore, evOf, Mon.book, modR, mr.idx]; done)
      · refine mr.upd r (fun k => { k with pc := .fin }) (fun q => { q with released := true })
          (fun q => { q with p2done := true })
          ?_ ?_ rfl ?_ id id ?_ ?_ ?_ ?_ (fun _ _ => ⟨id, id⟩) ?_ (hrel _ (fun _ => ⟨rfl, rfl, rfl, rfl⟩))
        all_goals first
          | (intro k e _ hk; simp at hk; done)
          | (simp only [afterP2]; split <;> simp [modCore, modMeta, evOf, Mon.book, modR, mr.idx]; done)

end Conn
